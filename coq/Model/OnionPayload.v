(** The per-hop onion payloads as rust-lightning assembles them
    ([impl Writeable for OutboundOnionPayload], lightning/src/ln/msgs.rs, through
    [_encode_varint_length_prefixed_tlv!] / [_encode_tlv_stream!] of util/ser_macros.rs):
    the fixed TLV fields in the order written in the macro invocation, followed by the "extra"
    TLVs - the custom TLVs chained with the invoice-request TLV (77_777, blinded receive only) and
    the keysend TLV (5482373484), collected into one vector and sorted by type.  The macro writes the
    extras after all fixed fields, in the order of that vector, without looking at the types.
    No proofs here; [Proofs/C14Payload.v] shows the emitted stream strictly ascending. *)
From Coq Require Import ZArith List Bool String.
Require Import LdkV.Crypto.Bytes LdkV.Model.SphinxInst.
Require LdkV.Codec.Combinators LdkV.Codec.Tlv LdkV.Prim.U64.
Import ListNotations.
Close Scope string_scope.
Open Scope list_scope.
Open Scope Z_scope.

Definition KEYSEND_TLV : Z := 5482373484.
Definition INVOICE_REQUEST_TLV : Z := 77777.

(** [HighZeroBytesDroppedBigSize(x)]: big-endian, leading zero bytes dropped (nothing for 0) *)
Fixpoint drop_zeros (l : bytes) : bytes :=
  match l with
  | 0 :: r => drop_zeros r
  | _ => l
  end.
Definition hzbd (x : Z) : bytes := drop_zeros (be64 x).

Definition tlv := (Z * bytes)%type.

(** one record of [_encode_tlv!]: BigSize type, BigSize length, value *)
Definition tlv_rec (t : tlv) : bytes :=
  bigsize_enc (fst t) ++ bigsize_enc (Z.of_nat (List.length (snd t))) ++ snd t.

(** [sort_unstable_by_key(|(typ, _)| *typ)] (any sorting algorithm gives this result when the types
    are pairwise distinct) *)
Fixpoint insert_tlv (x : tlv) (l : list tlv) : list tlv :=
  match l with
  | [] => [x]
  | y :: r => if fst x <=? fst y then x :: l else y :: insert_tlv x r
  end.
Fixpoint sort_tlvs (l : list tlv) : list tlv :=
  match l with
  | [] => []
  | x :: r => insert_tlv x (sort_tlvs r)
  end.

Definition opt_tlv (t : Z) (v : option bytes) : list tlv :=
  match v with Some b => [(t, b)] | None => [] end.

Inductive onion_payload : Type :=
| PForward (short_channel_id amt_to_forward outgoing_cltv_value : Z)
| PReceive (payment_data : option (bytes * Z)) (payment_metadata : option bytes)
           (keysend_preimage : option bytes) (custom_tlvs : list tlv)
           (sender_intended_htlc_amt_msat cltv_expiry_height : Z)
| PBlindedForward (encrypted_tlvs : bytes) (intro_node_blinding_point : option bytes)
| PBlindedReceive (sender_intended_htlc_amt_msat total_msat cltv_expiry_height : Z)
                  (encrypted_tlvs : bytes) (intro_node_blinding_point : option bytes)
                  (keysend_preimage : option bytes) (custom_tlvs : list tlv)
                  (invoice_request : option bytes).

(** the fixed fields, as listed in the macro invocation *)
Definition fixed_tlvs (p : onion_payload) : list tlv :=
  match p with
  | PForward scid amt cltv => [(2, hzbd amt); (4, hzbd cltv); (6, be64 scid)]
  | PReceive pd meta _ _ amt cltv =>
      [(2, hzbd amt); (4, hzbd cltv)] ++
      opt_tlv 8 (option_map (fun d => fst d ++ hzbd (snd d)) pd) ++
      opt_tlv 16 meta
  | PBlindedForward enc bp => [(10, enc)] ++ opt_tlv 12 bp
  | PBlindedReceive amt total cltv enc bp _ _ _ =>
      [(2, hzbd amt); (4, hzbd cltv); (10, enc)] ++ opt_tlv 12 bp ++ [(18, hzbd total)]
  end.

(** the extra TLVs: chained, then sorted *)
Definition extra_tlvs (p : onion_payload) : list tlv :=
  match p with
  | PReceive _ _ ks custom _ _ => sort_tlvs (custom ++ opt_tlv KEYSEND_TLV ks)
  | PBlindedReceive _ _ _ _ _ ks custom invreq =>
      sort_tlvs (custom ++ opt_tlv INVOICE_REQUEST_TLV invreq ++ opt_tlv KEYSEND_TLV ks)
  | _ => []
  end.

Definition payload_tlvs (p : onion_payload) : list tlv := fixed_tlvs p ++ extra_tlvs p.

(** the TLV stream (what [Model/Sphinx.v] calls the payload; on the wire it is length-prefixed) *)
Definition payload_content (p : onion_payload) : bytes := flat_map tlv_rec (payload_tlvs p).

Fixpoint strictly_ascending (l : list Z) : bool :=
  match l with
  | a :: ((b :: _) as r) => (a <? b) && strictly_ascending r
  | _ => true
  end.

(** ** From the route to the payloads: [build_onion_payloads] / [build_onion_payloads_callback]
    for a path of plain hops with an optional blinded tail (no trampoline).  The loop runs over the
    hops in reverse; [cur_value_msat] and [cur_cltv] accumulate the fees and CLTV deltas of the hops
    already seen; the last hop's payloads are pushed back, forward payloads are pushed to the front. *)
Record route_hop : Type := mk_route_hop { rh_scid : Z; rh_fee_msat : Z; rh_cltv_delta : Z }.

(** [TailDetails::Blinded { hops, blinding_point, final_value_msat, excess_final_cltv_expiry_delta }]
    as [build_onion_payloads] fills it from the route's [BlindedTail]; [bt_hops]: the
    [encrypted_payload] of each blinded hop *)
Record blinded_tail : Type := mk_blinded_tail {
  bt_hops : list bytes; bt_blinding_point : bytes; bt_final_value_msat : Z; bt_excess_final_cltv_expiry_delta : Z }.

Record recipient_fields : Type := mk_recipient {
  rf_payment_secret : option bytes; rf_total_mpp_amount_msat : Z; rf_payment_metadata : option bytes;
  rf_custom_tlvs : list tlv }.

Definition MAX_VALUE_MSAT_LIMIT : Z := 21000000 * 100000000 * 1000.
Definition CLTV_LIMIT : Z := 500000000.
Definition sat_add_u32 (a b : Z) : Z := Z.min (a + b) 4294967295.

(** the payloads of a blinded tail: all but the last hop forward, the first carries the blinding point *)
Fixpoint blinded_payloads (hops : list bytes) (bp : option bytes) (last : bytes -> option bytes -> onion_payload)
  : list onion_payload :=
  match hops with
  | [] => []
  | [e] => [last e bp]
  | e :: r => PBlindedForward e bp :: blinded_payloads r None last
  end.

(** the loop state: iteration index, payloads so far, [cur_value_msat], [cur_cltv], [last_hop_id] *)
Definition pl_state : Type := (nat * list onion_payload * Z * Z * option Z)%type.

(** one iteration of [for (idx, hop) in hops.rev().enumerate()]; [None] is the [Err(APIError::InvalidRoute)] *)
Definition payload_step (tail : option blinded_tail) (rf : recipient_fields) (cur_block_height : Z)
           (keysend invreq : option bytes) (st : option pl_state) (hop : route_hop) : option pl_state :=
  match st with
  | None => None
  | Some (idx, res, cur_value_msat, cur_cltv, last_hop_id) =>
      let value_msat := if cur_value_msat =? 0 then rh_fee_msat hop else cur_value_msat in
      let pushed : option (list onion_payload * Z) :=
        match idx with
        | O =>
            match tail with
            | Some bt =>
                let last := fun e bp =>
                  PBlindedReceive (bt_final_value_msat bt) (rf_total_mpp_amount_msat rf)
                                  (cur_block_height + bt_excess_final_cltv_expiry_delta bt) e bp keysend
                                  (rf_custom_tlvs rf) invreq in
                Some (res ++ blinded_payloads (bt_hops bt) (Some (bt_blinding_point bt)) last,
                      match bt_hops bt with [] => cur_value_msat | _ :: _ => cur_value_msat + bt_final_value_msat bt end)
            | None =>
                let declared_incoming_cltv := sat_add_u32 (rh_cltv_delta hop) cur_cltv in
                Some (res ++ [PReceive (option_map (fun s => (s, rf_total_mpp_amount_msat rf)) (rf_payment_secret rf))
                                       (rf_payment_metadata rf) keysend (rf_custom_tlvs rf) value_msat
                                       declared_incoming_cltv],
                      cur_value_msat)
            end
        | S _ =>
            match last_hop_id with
            | None => None
            | Some next_scid => Some (PForward next_scid value_msat cur_cltv :: res, cur_value_msat)
            end
        end in
      match pushed with
      | None => None
      | Some (res, cur_value_msat) =>
          let cur_value_msat := cur_value_msat + rh_fee_msat hop in
          if MAX_VALUE_MSAT_LIMIT <=? cur_value_msat then None
          else let cur_cltv := sat_add_u32 cur_cltv (rh_cltv_delta hop) in
               if CLTV_LIMIT <=? cur_cltv then None
               else Some (S idx, res, cur_value_msat, cur_cltv, Some (rh_scid hop))
      end
  end.

(** [build_onion_payloads]: the payloads, the first hop's HTLC amount and expiry *)
Definition build_payloads (hops : list route_hop) (tail : option blinded_tail) (rf : recipient_fields)
           (cur_block_height : Z) (keysend invreq : option bytes) : option (list onion_payload * Z * Z) :=
  match fold_left (payload_step tail rf cur_block_height keysend invreq) (rev hops)
                  (Some (O, [], 0, cur_block_height, None)) with
  | Some (_, res, v, c, _) => Some (res, v, c)
  | None => None
  end.

(** ** The receiving side's TLV loop (C13's [Codec/Tlv.v], the transliteration of
    [_decode_tlv_stream_range!]) run on a payload: the types the onion payload reader knows plus the
    custom types of this payment, every value taken as raw bytes.  It rejects a stream whose types
    are not strictly increasing. *)
Definition onion_schema (custom_types : list Z) : list Tlv.entry :=
  map (fun t => Tlv.mk_entry t Tlv.KOpt Combinators.FRest)
      ([2; 4; 6; 8; 10; 12; 16; 18; 20; INVOICE_REQUEST_TLV; KEYSEND_TLV] ++ custom_types).

Definition onion_tlv_types (custom_types : list Z) (content : bytes) : U64.rres (list Z) :=
  match Tlv.tlv_loop (fun _ => true) (onion_schema custom_types) (List.length content) None [] content with
  | U64.ROk (acc, _) => U64.ROk (map fst acc)
  | U64.RErr e => U64.RErr e
  end.

(** ** Textual interface *)
Open Scope string_scope.
Definition hx_tlvs (l : list (Z * string)) : list tlv := map (fun t => (fst t, hx (snd t))) l.
Definition hx_opt (s : string) : option bytes := if String.eqb s "-" then None else Some (hx s).

Definition show_payload (p : onion_payload) : string := xh (payload_content p).
Definition show_tlv_check (custom_types : list Z) (content : string) : string * list Z :=
  match onion_tlv_types custom_types (hx content) with
  | U64.ROk ts => ("ok", ts)
  | U64.RErr e => (e, [])
  end.

(** all payloads of a route, as hex TLV streams (["ERR"] when the builder refuses) *)
Definition show_route_payloads (hops : list (Z * Z * Z)) (tail : option (list string * string * Z * Z))
           (secret : string) (total : Z) (meta : string) (custom : list (Z * string))
           (height : Z) (keysend invreq : string) : list string * list Z :=
  let rh := map (fun h => mk_route_hop (fst (fst h)) (snd (fst h)) (snd h)) hops in
  let bt := option_map (fun t => mk_blinded_tail (map hx (fst (fst (fst t)))) (hx (snd (fst (fst t)))) (snd (fst t)) (snd t)) tail in
  match build_payloads rh bt (mk_recipient (hx_opt secret) total (hx_opt meta) (hx_tlvs custom)) height (hx_opt keysend) (hx_opt invreq) with
  | None => (["ERR"], [])
  | Some (ps, v, c) => (map show_payload ps, [v; c])
  end.
