(** C01, cooperative close: the closing_signed fee negotiation between the funder F and the non-funder
    N with fee ranges (what two LDK nodes speak), hand-modelled around the GENERATED pieces of
    [Gen/C01Closing.v] (anchored expressions of [FundedChannel::calculate_closing_fee_limits] and of the
    fee-range branch of [closing_signed], lightning/src/ln/channel.rs) and [build_closing]
    ([build_closing_transaction], Model/CommitAmounts.v). No target closing feerate, no monitor update in
    progress, no HTLCs (the preconditions of [closing_negotiation_ready]). Tied to the code by the trace
    harness (coopclose family; judge (f)). No proofs in this file. *)
Require Import LdkV.Prim.U64 LdkV.Prim.Rs2vLib LdkV.Gen.Consts LdkV.Gen.ChanUtilsFees LdkV.Gen.TxBuilder
  LdkV.Gen.C01Closing LdkV.Model.CommitAmounts.
Open Scope Z_scope.

(** One node's inputs: its estimator's ChannelCloseMinimum and NonAnchorChannelFee readings (through
    the lower-bounded estimator), its [force_close_avoidance_max_fee_satoshis], the closing weight,
    its dust limit. *)
Record close_side : Type := mkCloseSide {
  cs_est_min : Z;
  cs_est_normal : Z;
  cs_fcamax : Z;
  cs_weight : Z;
  cs_dust : Z
}.

(** [calculate_closing_fee_limits] *)
Definition closing_fee_limits (k : close_side) (is_outbound : bool) (value_sat value_to_self_msat : Z) : Z * Z :=
  let proposed_feerate := cs_est_min k in
  let normal_feerate := cs_est_normal k in
  let proposed_max_feerate := closing_proposed_max_feerate normal_feerate is_outbound in
  (closing_proposed_total_fee_satoshis proposed_feerate (cs_weight k),
   closing_proposed_max_total_fee_satoshis is_outbound normal_feerate proposed_max_feerate (cs_weight k)
     (cs_fcamax k) value_sat value_to_self_msat).

(** The negotiation. [self_f] / [self_n]: the two [value_to_self_msat]. Result: the agreed fee and the
    fees for which some side built a closing transaction on the way, or the error. *)
Definition negotiate (kf kn : close_side) (value_sat self_f self_n : Z) : rres (Z * list Z) :=
  let '(f_min, f_max) := closing_fee_limits kf true value_sat self_f in
  let '(n_min, n_max) := closing_fee_limits kn false value_sat self_n in
  (* maybe_propose_closing_signed: the funder proposes its minimum *)
  match build_closing true false value_sat self_f f_min (cs_dust kf) with
  | RErr e => RErr e
  | ROk _ =>
    (* closing_signed at the non-funder *)
    match build_closing false false value_sat self_n f_min (cs_dust kn) with
    | RErr e => RErr e
    | ROk _ =>
      if closing_fee_outside_their_range f_min f_min f_max then RErr "Peer sent a bogus closing_signed (their range)"
      else if closing_remote_max_below_our_min f_max n_min then RErr "Warn: remote's max fee was smaller than our min fee"
      else if closing_remote_min_above_our_max f_min n_max then RErr "Warn: remote's min fee was greater than our max fee"
      else
        let counter := closing_fundee_counter_fee f_max f_min f_min n_min n_max in
        if counter =? f_min then ROk (f_min, [f_min])
        else
          match build_closing false false value_sat self_n counter (cs_dust kn) with
          | RErr e => RErr e
          | ROk _ =>
            (* closing_signed at the funder *)
            match build_closing true false value_sat self_f counter (cs_dust kf) with
            | RErr e => RErr e
            | ROk _ =>
              (* the non-funder advertised [n_min, n_max] with its counter-proposal *)
              if closing_fee_outside_their_range counter n_min n_max then RErr "Peer sent a bogus closing_signed (their range)"
              else if closing_funder_rejects_counter_fee counter f_min f_max
              then RErr "Peer sent a bogus closing_signed"
              else ROk (counter, [f_min; counter])
            end
          end
    end
  end.
