(** C17 — persistence of the network graph ([NetworkGraph::write] / [ReadableArgs::read]) at schema
    level: what is written is, per channel and per node, the record's fields in order (options with
    a presence flag, the node's channel list length-prefixed), keyed by scid / node id; the removal
    tracking ([removed_channels], [removed_nodes]) is NOT written and starts empty after a read.
    (The byte-level TLV encoding of the fields is the business of the codec properties; here a
    field is one integer.)  No proofs in this file. *)
From stdpp Require Import gmap.
From Coq Require Import ZArith.
Require Import LdkV.Model.Gossip.
Open Scope Z_scope.

Definition enc_oz (o : option Z) : list Z := match o with Some v => [1; v] | None => [0; 0] end.
Definition dec_oz (f v : Z) : option Z := if f =? 1 then Some v else None.

Definition enc_ui (u : upd_info) : list Z :=
  [ui_ts u; Z.b2z (ui_enabled u); ui_cltv u; ui_hmin u; ui_hmax u; ui_base u; ui_prop u] ++ enc_oz (ui_msg u).
Definition enc_oui (o : option upd_info) : list Z :=
  match o with Some u => 1 :: enc_ui u | None => 0 :: replicate 9 0 end.

(** [ChannelInfo]: features, node_one, node_two, capacity_sats, one_to_two, two_to_one,
    announcement_message, announcement_received_time: 28 integers *)
Definition enc_chan (c : chan) : list Z :=
  [c_features c; c_one c; c_two c] ++ enc_oz (c_cap c) ++ enc_oui (c_12 c) ++ enc_oui (c_21 c) ++
  enc_oz (c_msg c) ++ [c_recv c].

Definition dec_oui (f ts en cl mn mx b p mf m : Z) : option upd_info :=
  if f =? 1 then Some (UpdInfo ts (en =? 1) cl mn mx b p (dec_oz mf m)) else None.

Definition dec_chan (l : list Z) : option chan :=
  match l with
  | [ft; one; two; cf_; cv;
     f1; t1; e1; c1; n1; x1; b1; p1; mf1; m1;
     f2; t2; e2; c2; n2; x2; b2; p2; mf2; m2;
     af; am; rv] =>
      Some (Chan ft one two (dec_oz cf_ cv)
                 (dec_oui f1 t1 e1 c1 n1 x1 b1 p1 mf1 m1) (dec_oui f2 t2 e2 c2 n2 x2 b2 p2 mf2 m2)
                 (dec_oz af am) rv)
  | _ => None
  end.

(** [NodeInfo]: the channel list (length first), then the announcement info (presence flag,
    last_update, content, stored message) *)
Definition enc_node (n : node) : list Z :=
  Z.of_nat (length (n_chans n)) :: n_chans n ++
  match n_ann n with
  | Some a => 1 :: na_ts a :: na_content a :: enc_oz (na_msg a)
  | None => [0; 0; 0; 0; 0]
  end.

Definition dec_node (l : list Z) : option node :=
  match l with
  | len :: rest =>
      let k := Z.to_nat len in
      match drop k rest with
      | [f; ts; ct; mf; m] =>
          Some (Node (take k rest) (if f =? 1 then Some (NAnn ts ct (dec_oz mf m)) else None))
      | _ => None
      end
  | [] => None
  end.

(** what is on disk: the two maps as key / field-list entries *)
Record persisted := Persisted { pz_chans : list (Z * list Z); pz_nodes : list (Z * list Z) }.

Definition write (g : graph) : persisted :=
  Persisted (prod_map id enc_chan <$> map_to_list (g_chans g))
            (prod_map id enc_node <$> map_to_list (g_nodes g)).

Definition read (p : persisted) : option graph :=
  cs ← mapM (λ kc : Z * list Z, c ← dec_chan kc.2; Some (kc.1, c)) (pz_chans p);
  ns ← mapM (λ kn : Z * list Z, n ← dec_node kn.2; Some (kn.1, n)) (pz_nodes p);
  Some (Graph (list_to_map cs) (list_to_map ns) ∅ ∅).
