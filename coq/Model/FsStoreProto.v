(** C19: the versioned-write protocol of lightning-persister's FilesystemStore
    (fs_store/common.rs) as a small-step system.

    - [FilesystemStoreState::next_version] (AtomicU64, starts at 1): [f_next].
    - [FilesystemStoreInner::locks : Mutex<HashMap<PathBuf, Arc<RwLock<u64>>>>]: [f_locks]; an entry
      holds the last written version and - standing for [Arc::strong_count] - 1 = the list of
      operations currently holding a clone of the Arc.
    - the file system is an atomic map path -> contents ([f_fs]): tmp-file + rename (and remove_file)
      are ASSUMED atomic; [f_ver] is a ghost field: the version of the operation that last changed the
      path.
    A write/remove goes through: [LFetch] ([next_version.fetch_add]) ; [LRef] ([get_inner_lock_ref]:
    create the map entry with version 0 or clone the Arc) ; [LExec] ([execute_locked_write] under the
    RwLock: skip if [version <= last_written], else rename/remove and record the version) ; [LClean]
    ([clean_locks]: drop the map entry iff no other clone exists).  A read: [LRef] ; [LExec] (read the
    file under the read lock) ; [LClean].  Each label is one atomic step (each is under a mutex / the
    RwLock in the code); a schedule is any list of labels.

    [LFetch i] is only enabled when no OTHER mutating operation on the same key is between its
    [LFetch] and [LRef]: this is the hypothesis "issue events on one key are ordered" (the KVStore
    contract speaks about the order in which writes to a key were issued; issuing = [LFetch]+[LRef],
    done synchronously inside [write]/[remove] before the future is returned). *)
Require Import LdkV.Prim.U64.
Open Scope Z_scope.
Local Open Scope list_scope.

(** [FFail]: a write/remove whose callback FAILS inside the lock (rename / unlink / fsync error): it takes
    a version and a lock reference like any mutation, returns an error, changes neither the file nor -
    this is the point - the entry's last written version ([callback().map(|_| *last = version)]). *)
Inductive fkind := FWrite (v : Z) | FRemove | FRead | FFail.
Record fop := { f_key : Z; f_kind : fkind }.
Definition is_mut (o : fop) : bool := match f_kind o with FRead => false | _ => true end.
Definition effect (o : fop) : option Z := match f_kind o with FWrite v => Some v | _ => None end.
Definition is_eff (o : fop) : bool := match f_kind o with FWrite _ | FRemove => true | _ => false end.

Inductive phase := PNew | PFetched (ver : Z) | PRef (ver : Z) | PExec (ver : Z) | PDone (ver : Z).

Record lockent := { l_last : Z; l_holders : list nat }.

Record fstate := {
  f_next : Z;
  f_locks : Z -> option lockent;
  f_fs : Z -> option Z;
  f_ver : Z -> Z;
  f_phase : nat -> phase;
  f_obs : nat -> option (option Z) }.

Definition finit : fstate :=
  {| f_next := 1; f_locks := fun _ => None; f_fs := fun _ => None; f_ver := fun _ => 0;
     f_phase := fun _ => PNew; f_obs := fun _ => None |}.

Definition updn {A} (f : nat -> A) (i : nat) (x : A) : nat -> A := fun j => if Nat.eqb j i then x else f j.
Definition updz {A} (f : Z -> A) (k : Z) (x : A) : Z -> A := fun j => if j =? k then x else f j.

Inductive label := LFetch (i : nat) | LRef (i : nat) | LExec (i : nat) | LClean (i : nat).

Definition dflt : fop := {| f_key := 0; f_kind := FRead |}.
Definition opn (ops : list fop) (i : nat) : fop := nth i ops dflt.

Definition is_fetched (p : phase) : bool := match p with PFetched _ => true | _ => false end.

(** no other mutating operation on the same key is currently being issued *)
Definition issue_free (ops : list fop) (st : fstate) (i : nat) : bool :=
  forallb (fun j => Nat.eqb j i || negb (is_mut (opn ops j)) || negb (f_key (opn ops j) =? f_key (opn ops i))
                    || negb (is_fetched (f_phase st j)))
          (seq 0 (List.length ops)).

Definition remove_nat (i : nat) (l : list nat) : list nat := filter (fun j => negb (Nat.eqb j i)) l.

Definition fstep (ops : list fop) (st : fstate) (l : label) : option fstate :=
  match l with
  | LFetch i =>
    if (i <? List.length ops)%nat && is_mut (opn ops i) && issue_free ops st i then
      match f_phase st i with
      | PNew => Some {| f_next := f_next st + 1; f_locks := f_locks st; f_fs := f_fs st; f_ver := f_ver st;
                        f_phase := updn (f_phase st) i (PFetched (f_next st)); f_obs := f_obs st |}
      | _ => None
      end
    else None
  | LRef i =>
    if (i <? List.length ops)%nat then
      let k := f_key (opn ops i) in
      let take v :=
        let e := match f_locks st k with
                 | None => {| l_last := 0; l_holders := [i] |}
                 | Some e => {| l_last := l_last e; l_holders := i :: l_holders e |}
                 end in
        Some {| f_next := f_next st; f_locks := updz (f_locks st) k (Some e); f_fs := f_fs st; f_ver := f_ver st;
                f_phase := updn (f_phase st) i (PRef v); f_obs := f_obs st |} in
      match f_phase st i with
      | PFetched v => if is_mut (opn ops i) then take v else None
      | PNew => if is_mut (opn ops i) then None else take 0
      | _ => None
      end
    else None
  | LExec i =>
    let k := f_key (opn ops i) in
    match f_phase st i, f_locks st k with
    | PRef v, Some e =>
      if is_mut (opn ops i) then
        if (v <=? l_last e) || negb (is_eff (opn ops i)) then
          Some {| f_next := f_next st; f_locks := f_locks st; f_fs := f_fs st; f_ver := f_ver st;
                  f_phase := updn (f_phase st) i (PExec v); f_obs := f_obs st |}
        else
          Some {| f_next := f_next st;
                  f_locks := updz (f_locks st) k (Some {| l_last := v; l_holders := l_holders e |});
                  f_fs := updz (f_fs st) k (effect (opn ops i)); f_ver := updz (f_ver st) k v;
                  f_phase := updn (f_phase st) i (PExec v); f_obs := f_obs st |}
      else
        Some {| f_next := f_next st; f_locks := f_locks st; f_fs := f_fs st; f_ver := f_ver st;
                f_phase := updn (f_phase st) i (PExec v); f_obs := updn (f_obs st) i (Some (f_fs st k)) |}
    | _, _ => None
    end
  | LClean i =>
    let k := f_key (opn ops i) in
    match f_phase st i, f_locks st k with
    | PExec v, Some e =>
      let locks' :=
        match l_holders e with
        | [_] => updz (f_locks st) k None
        | hs => updz (f_locks st) k (Some {| l_last := l_last e; l_holders := remove_nat i hs |})
        end in
      Some {| f_next := f_next st; f_locks := locks'; f_fs := f_fs st; f_ver := f_ver st;
              f_phase := updn (f_phase st) i (PDone v); f_obs := f_obs st |}
    | _, _ => None
    end
  end.

Fixpoint frun_from (ops : list fop) (st : fstate) (sched : list label) : option fstate :=
  match sched with
  | [] => Some st
  | l :: r => match fstep ops st l with Some st' => frun_from ops st' r | None => None end
  end.
Definition frun (ops : list fop) (sched : list label) : option fstate := frun_from ops finit sched.

Definition is_done (p : phase) : bool := match p with PDone _ => true | _ => false end.
Definition all_done (ops : list fop) (st : fstate) : bool :=
  forallb (fun i => is_done (f_phase st i)) (seq 0 (List.length ops)).
