(** C01, protocol layer: two [chan]s (Model/Chan.v) joined by two FIFO queues of wire messages, and the
    scheduler labels of harness h_chan. [sys_step] is total: a label the system refuses yields
    [RErr] (under honest scheduling on the real nodes this never happens; that is part of what the trace
    correspondence checks). Decisions that depend on the amount-level limit checks ([send_htlc]'s
    [get_available_balances] test when the holding cell is freed, [can_send_update_fee]) are inputs of the
    label ([ok_adds], [fee_ok]); the amount layer is validated separately. No proofs in this file. *)
Require Import LdkV.Prim.U64 LdkV.Prim.Rs2vLib LdkV.Gen.Consts LdkV.Gen.ChanUtilsFees LdkV.Gen.TxBuilder
  LdkV.Model.CommitAmounts LdkV.Model.Chan.
Open Scope Z_scope.

Record sys : Type := mkSys {
  s_n0 : chan;
  s_n1 : chan;
  s_q01 : list msg;      (* from node 0 to node 1 *)
  s_q10 : list msg;
  s_connected : bool
}.

Definition node (s : sys) (x : bool) : chan := if x then s_n1 s else s_n0 s.
Definition set_node (s : sys) (x : bool) (c : chan) : sys :=
  if x then mkSys (s_n0 s) c (s_q01 s) (s_q10 s) (s_connected s)
  else mkSys c (s_n1 s) (s_q01 s) (s_q10 s) (s_connected s).
(** messages emitted by node [x] go to the back of its outgoing queue *)
Definition emit (s : sys) (x : bool) (ms : list msg) : sys :=
  if x then mkSys (s_n0 s) (s_n1 s) (s_q01 s) (s_q10 s ++ ms) (s_connected s)
  else mkSys (s_n0 s) (s_n1 s) (s_q01 s ++ ms) (s_q10 s) (s_connected s).

Inductive label : Type :=
| L_Send (x : bool) (amt tag : Z)            (* send_payment whose limit checks passed *)
| L_Claim (x : bool) (id : Z)                (* claim_funds *)
| L_QueueFail (x : bool) (id : Z)            (* process_pending_htlc_forwards failing an HTLC back *)
| L_UpdateFee (x : bool) (feerate : Z)       (* timer tick: update_channel_fee -> queue_update_fee *)
| L_Deliver (x : bool)                       (* ONE message from x's queue to the other node *)
| L_Disconnect
| L_Reconnect
| L_FreeHC (x : bool).                       (* check_free_holding_cells (every message-event poll) *)

(** Oracle inputs of a step (see above). *)
Record oracle : Type := mkOracle { ok_adds : list Z; fee_ok : bool; est : Z; est1 : Z (* fee estimator readings of node 0 / node 1 *) }.
Definition send_ok_of (o : oracle) (tag : Z) : bool := existsb (Z.eqb tag) (ok_adds o).

Definition deliver_msg (o : oracle) (c : chan) (m : msg) : rres (chan * list msg) :=
  match m with
  | M_Add h => match update_add_htlc c h with ROk c' => ROk (c', []) | RErr e => RErr e end
  | M_Fulfill id => match update_remove_htlc c id true with ROk c' => ROk (c', []) | RErr e => RErr e end
  | M_Fail id => match update_remove_htlc c id false with ROk c' => ROk (c', []) | RErr e => RErr e end
  | M_Fee f => match update_fee c f with ROk c' => ROk (c', []) | RErr e => RErr e end
  | M_Commit v => commitment_signed c v
  | M_Raa => revoke_and_ack (send_ok_of o) (fee_ok o) c
  | M_Reest nl nr => channel_reestablish c nl nr
  end.

Definition sys_step (o : oracle) (s : sys) (l : label) : rres sys :=
  match l with
  | L_Send x amt tag =>
    match send_htlc_and_commit (node s x) amt tag with
    | ROk (c, ms) => ROk (emit (set_node s x c) x ms)
    | RErr e => RErr e
    end
  | L_Claim x id =>
    let '(c, ms) := claim_htlc (node s x) id in ROk (emit (set_node s x c) x ms)
  | L_QueueFail x id => ROk (set_node s x (queue_fail_htlc (node s x) id))
  | L_UpdateFee x f => ROk (set_node s x (queue_update_fee (node s x) f))
  | L_FreeHC x =>
    let '(c, ms) := maybe_free_holding_cell_htlcs (send_ok_of o) (fee_ok o) (node s x) in
    ROk (emit (set_node s x c) x ms)
  | L_Deliver x =>
    match (if x then s_q10 s else s_q01 s) with
    | [] => RErr "nothing to deliver"
    | m :: rest =>
      let s' := if x then mkSys (s_n0 s) (s_n1 s) (s_q01 s) rest (s_connected s)
                else mkSys (s_n0 s) (s_n1 s) rest (s_q10 s) (s_connected s) in
      let y := negb x in
      match deliver_msg o (node s' y) m with
      | ROk (c, ms) => ROk (emit (set_node s' y c) y ms)
      | RErr e => RErr e
      end
    end
  | L_Disconnect =>
    ROk (mkSys (peer_disconnected (s_n0 s)) (peer_disconnected (s_n1 s)) [] [] false)
  | L_Reconnect =>
    if s_connected s then RErr "already connected"
    else ROk (mkSys (s_n0 s) (s_n1 s) [reestablish_msg (s_n0 s)] [reestablish_msg (s_n1 s)] true)
  end.

Fixpoint sys_steps (o : oracle) (s : sys) (ls : list label) : rres sys :=
  match ls with
  | [] => ROk s
  | l :: t => match sys_step o s l with ROk s' => sys_steps o s' t | RErr e => RErr e end
  end.

(** Reachability over arbitrary label lists (each with its own oracle). *)
Fixpoint run (s : sys) (ls : list (oracle * label)) : rres sys :=
  match ls with
  | [] => ROk s
  | (o, l) :: t => match sys_step o s l with ROk s' => run s' t | RErr e => RErr e end
  end.

(** ** Canonical observation of a state, as printed by the harness (lists of [Z]). *)
Definition dump_chan (c : chan) : list Z :=
  [c_self_msat c; c_feerate c;
   match c_pending_fee c with Some (f, _) => f | None => -1 end;
   match c_pending_fee c with Some (_, s) => fee_code s | None => -1 end;
   match c_hc_fee c with Some f => f | None => -1 end;
   Z.b2z (c_awaiting_raa c); Z.b2z (c_disconnected c); Z.b2z (c_resend_raa_first c);
   c_holder_cn c; c_cp_cn c; c_next_holder_id c; c_next_cp_id c;
   Z.of_nat (List.length (c_in c))] ++
  flat_map (fun h => [p_id (ih h); p_amt (ih h); in_code (ist h)]) (c_in c) ++
  [Z.of_nat (List.length (c_out c))] ++
  flat_map (fun h => [p_id (oh h); p_amt (oh h); out_code (ost h)]) (c_out c) ++
  [Z.of_nat (List.length (c_hc c))] ++
  flat_map (fun u => match u with HC_Add a _ => [0; a] | HC_Claim i => [1; i] | HC_Fail i => [2; i] end) (c_hc c).

(** What the signer sees of a view: number, feerate, balance outputs, tags of the non-dust HTLCs. *)
Definition dump_view (c : chan) (local : bool) (v : cview) : list Z :=
  match view_amounts c local v with
  | None => [-1]
  | Some ca =>
    [cv_number v; cv_feerate v; ca_to_broadcaster_sat ca; ca_to_countersignatory_sat ca;
     Z.of_nat (List.length (ca_nondust ca))] ++ map ho_tag (ca_nondust ca)
  end.

Definition commits_of (ms : list msg) : list cview :=
  flat_map (fun m => match m with M_Commit v => [v] | _ => [] end) ms.

(** What [list_channels] reports as [next_outbound_htlc_limit_msat] / [next_outbound_htlc_minimum_msat]:
    [get_available_balances_for_scope] = the generated [get_channel_stats] on the remote view of the
    state ([get_next_commitment_htlcs false None true], [get_next_commitment_value_to_self_msat false]).
    [mult]: the [MaxDustHTLCExposure::FeeRateMultiplier] of the configuration; the estimator is read
    through [LowerBoundedFeeEstimator] (floor 253). [-1; -1] = [Err] (a balance is overdrawn). *)
Definition reported_limits (c : chan) (k : ChannelConstraints) (est_kw mult : Z) : list Z :=
  let lim := if ctf_supports_anchor_zero_fee_commitments (c_ct c) then None else Some (Z.max est_kw 253) in
  let maxdust := sat_mul 64 (unwrap_or lim 250) mult in
  match get_channel_stats false (c_funder c) (c_value_sat c) (next_commitment_value_to_self_msat c false)
          (next_commitment_htlcs c false true) 0 (c_feerate c) false lim maxdust k (c_ct c) with
  | ROk st => [ab_next_outbound_htlc_limit_msat (cs_available_balances st); ab_next_outbound_htlc_minimum_msat (cs_available_balances st)]
  | RErr _ => [-1; -1]
  end.

(** One harness step = a few labels under one oracle. The observation: both dumps, queue lengths, and
    the views of the commitment_signed messages that were emitted (last ones of each queue). *)
Definition observe (s : sys) : list (list Z) :=
  [dump_chan (s_n0 s); dump_chan (s_n1 s); [Z.of_nat (List.length (s_q01 s)); Z.of_nat (List.length (s_q10 s))]].

(** Views signed during a step: the [M_Commit]s appended to the queues. [before] = queue lengths. *)
Definition new_msgs (before : nat) (q : list msg) (consumed : nat) : list msg := skipn (before - consumed) q.

Fixpoint replay (k0 k1 : ChannelConstraints) (mult : Z) (s : sys) (steps : list (oracle * list label)) (acc : list (list (list Z))) : list (list (list Z)) :=
  match steps with
  | [] => rev acc
  | (o, ls) :: t =>
    (* the receiver's view of a delivered commitment_signed is observed before the step *)
    let validated :=
      flat_map (fun l => match l with
        | L_Deliver x =>
          match (if x then s_q10 s else s_q01 s) with
          | M_Commit _ :: _ =>
            let y := negb x in
            [Z.b2z y :: dump_view (node s y) true (build_view (node s y) (c_holder_cn (node s y)) false)]
          | _ => []
          end
        | _ => [] end) ls in
    let n01 := List.length (s_q01 s) in
    let n10 := List.length (s_q10 s) in
    let d01 := List.length (filter (fun l => match l with L_Deliver false => true | _ => false end) ls) in
    let d10 := List.length (filter (fun l => match l with L_Deliver true => true | _ => false end) ls) in
    let cleared := existsb (fun l => match l with L_Disconnect => true | _ => false end) ls in
    match sys_steps o s ls with
    | RErr e => rev ([[ -99 ]] :: acc)
    | ROk s' =>
      let signed0 := if cleared then [] else map (fun v => 0 :: dump_view (s_n0 s') false v) (commits_of (new_msgs n01 (s_q01 s') d01)) in
      let signed1 := if cleared then [] else map (fun v => 1 :: dump_view (s_n1 s') false v) (commits_of (new_msgs n10 (s_q10 s') d10)) in
      replay k0 k1 mult s' t
        ((observe s' ++ [reported_limits (s_n0 s') k0 (est o) mult; reported_limits (s_n1 s') k1 (est1 o) mult]
          ++ [[-7]] ++ validated ++ [[-8]] ++ signed0 ++ signed1) :: acc)
    end
  end.
