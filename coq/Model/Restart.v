(** C10 — the reload decision of [ChannelManager::from_channel_manager_data] for one channel:
    the four-counter staleness test (channel behind its monitor => force-close with the MONITOR's
    update_id + 1), [handle_in_flight_updates!] (in-flight updates already contained in the monitor are
    skipped, the rest is replayed in order; when all completed a MonitorUpdatesComplete background event
    is queued instead), the DangerousValue test (channel ahead of monitor and in-flight updates) and
    [on_startup_drop_completed_blocked_mon_updates_through]. Hand transliteration of
    lightning/src/ln/channelmanager.rs (from_channel_manager_data); executable, no proofs here.

    Commitment numbers count DOWN in LDK, update ids count UP. *)
Require Import LdkV.Prim.U64.
Open Scope Z_scope.

(** what the serialized ChannelManager says about the channel *)
Record csnap := mkCsnap {
  cs_latest : Z;          (* context.get_latest_monitor_update_id() (includes blocked updates) *)
  cs_unblocked : Z;       (* get_latest_unblocked_monitor_update_id() *)
  cs_holder : Z;          (* get_cur_holder_commitment_transaction_number() *)
  cs_revoked : Z;         (* get_revoked_counterparty_commitment_transaction_number() *)
  cs_cparty : Z;          (* get_cur_counterparty_commitment_transaction_number() *)
  cs_inflight : list Z;   (* in_flight_monitor_updates for the channel, by update id *)
  cs_blocked : list Z     (* blocked_monitor_updates, by update id *)
}.
(** what the ChannelMonitor read from disk says *)
Record msnap := mkMsnap {
  ms_id : Z;              (* get_latest_update_id() *)
  ms_holder : Z;          (* get_cur_holder_commitment_number() *)
  ms_secret : Z;          (* get_min_seen_secret() *)
  ms_cparty : Z           (* get_cur_counterparty_commitment_number() *)
}.

(** "if the channel is behind of the monitor, close the channel" *)
Definition stale (c : csnap) (m : msnap) : bool :=
  (cs_holder c >? ms_holder m) || (cs_revoked c >? ms_secret m) || (cs_cparty c >? ms_cparty m) ||
  (cs_latest c <? ms_id m).

Inductive outcome :=
| Closed (fc_update_id : Z)
    (* force_shutdown(OutdatedChannelManager); the ChannelForceClosed update uses the monitor's id + 1 *)
| Resumed (replay : list Z) (all_complete : option Z) (blocked_kept : list Z)
    (* MonitorUpdateRegeneratedOnStartup for [replay] in order; MonitorUpdatesComplete{highest} when every
       in-flight update was already in the monitor; blocked updates not yet in the monitor are kept *)
| Dangerous.
    (* DecodeError::DangerousValue: the monitor is stale compared to the manager *)

Definition maxl (l : list Z) : Z := fold_left Z.max l 0.

Definition reload (c : csnap) (m : msnap) : outcome :=
  if stale c m then Closed (ms_id m + 1)
  else
    let blocked_kept := filter (fun i => ms_id m <? i) (cs_blocked c) in
    let infl := cs_inflight c in
    let max_in_flight := maxl infl in
    let completed := filter (fun i => i <=? ms_id m) infl in
    let all := (List.length completed =? List.length infl)%nat in
    let replay := if all then [] else filter (fun i => ms_id m <? i) infl in
    (* handle_in_flight_updates! is only run when the manager has an entry for the channel *)
    let max_id := match infl with [] => ms_id m | _ => Z.max (ms_id m) max_in_flight end in
    if cs_unblocked c >? max_id then Dangerous
    else Resumed replay (match infl with [] => None | _ => if all then Some max_in_flight else None end) blocked_kept.

(** The monitor after the replayed updates [done] (a prefix of the replay list) landed. *)
Definition advance (m : msnap) (id : Z) : msnap := mkMsnap id (ms_holder m) (ms_secret m) (ms_cparty m).
