(** C15 — executable instance of the primitives of [Model/Noise.v]: ChaCha20-Poly1305 with the
    Noise nonce, HKDF-SHA256, SHA-256 from [coq/Crypto], and secp256k1 as DATA: public keys, the
    set of byte strings [PublicKey::from_slice] accepts and ECDH results are tables filled by the
    Rust side (the model never needs curve arithmetic). Plus the drivers the correspondence
    harness evaluates with [vm_compute], printing hex strings. *)
Require Import LdkV.Prim.U64 LdkV.Gen.NoiseConsts.
From Coq Require Import List.
Import ListNotations.
Require Import LdkV.Crypto.Bytes LdkV.Crypto.Sha256 LdkV.Crypto.Hkdf LdkV.Crypto.ChaCha20 LdkV.Crypto.ChaChaPoly.
Require Import LdkV.Model.Noise LdkV.Model.Framing LdkV.Model.PeerGate LdkV.Model.PeerRead.
Open Scope Z_scope.

Definition i_seal (k : Noise.bytes) (n : Z) (ad p : Noise.bytes) : Noise.bytes :=
  aead_encrypt k (noise_nonce n) ad p.
Definition i_open (k : Noise.bytes) (n : Z) (ad c : Noise.bytes) : option Noise.bytes :=
  aead_decrypt k (noise_nonce n) ad c.
Definition i_hkdf2 (salt ikm : Noise.bytes) : Noise.bytes * Noise.bytes :=
  hkdf_extract_expand_twice salt ikm.
Definition i_H (x : Noise.bytes) : Noise.bytes := sha256 x.

(** secp256k1 by table *)
Record curve := mk_curve {
  cv_pub : list (Noise.bytes * Noise.bytes);                 (* secret -> public *)
  cv_valid : list Noise.bytes;                               (* accepted 33-byte encodings *)
  cv_dh : list (Noise.bytes * Noise.bytes * Noise.bytes) }.  (* (secret, public) -> shared secret *)

Fixpoint lookup1 (tbl : list (Noise.bytes * Noise.bytes)) (k : Noise.bytes) : Noise.bytes :=
  match tbl with
  | [] => []
  | (a, v) :: t => if bytes_eqb a k then v else lookup1 t k
  end.
Fixpoint lookup2 (tbl : list (Noise.bytes * Noise.bytes * Noise.bytes)) (k1 k2 : Noise.bytes) : Noise.bytes :=
  match tbl with
  | [] => []
  | (a, b, v) :: t => if bytes_eqb a k1 && bytes_eqb b k2 then v else lookup2 t k1 k2
  end.
Definition i_pub (cv : curve) (sk : Noise.bytes) : Noise.bytes := lookup1 (cv_pub cv) sk.
Definition i_pk_valid (cv : curve) (pk : Noise.bytes) : bool := existsb (bytes_eqb pk) (cv_valid cv).
Definition i_dh (cv : curve) (sk pk : Noise.bytes) : Noise.bytes := lookup2 (cv_dh cv) sk pk.

(** ** drivers *)
Open Scope string_scope.
Open Scope list_scope.
Open Scope Z_scope.

Definition hx (b : Noise.bytes) : string := hex_of_bytes b.

Definition show_transport (t : transport) : list string :=
  [hx (t_sk t); hx (t_sck t); hx (t_rk t); hx (t_rck t)].
Definition show_nonces (t : transport) : list Z := [t_sn t; t_rn t].

(** the whole handshake between an initiator (static [ls_i], ephemeral [ie]) and a responder
    ([ls_r], [re]): acts, the node ids each side learns, the final transport states *)
Definition run_handshake (cv : curve) (ls_i ie ls_r re : Noise.bytes)
  : option (list string * list Z * transport * transport) :=
  let pubf := i_pub cv in
  match get_act_one (i_dh cv) pubf i_hkdf2 i_H i_seal (new_outbound i_H (pubf ls_r) ie) with
  | None => None
  | Some (act1, e_i) =>
    match process_act_one_with_keys (i_dh cv) pubf (i_pk_valid cv) i_hkdf2 i_H i_seal i_open
            (new_inbound pubf i_H ls_r) act1 ls_r re with
    | Some (Some (act2, e_r)) =>
      match process_act_two (i_dh cv) pubf (i_pk_valid cv) i_hkdf2 i_H i_seal i_open e_i act2 ls_i with
      | Some (Some (act3, id_r, Finished t_i)) =>
        match process_act_three (i_dh cv) (i_pk_valid cv) i_hkdf2 i_H i_open e_r act3 with
        | Some (Some (id_i, Finished t_r)) =>
          Some ([hx act1; hx act2; hx act3; hx id_r; hx id_i] ++ show_transport t_i ++ show_transport t_r,
                show_nonces t_i ++ show_nonces t_r, t_i, t_r)
        | _ => None
        end
      | _ => None
      end
    | _ => None
    end
  end.

(** a conversation: [(true, m)] = first party sends [m], [(false, m)] = second party sends.
    After every message: the ciphertext, what the receiver decrypted (length header, body), the
    four nonces, and both parties' keys. *)
Fixpoint run_conv (ta tb : transport) (msgs : list (bool * Noise.bytes)) : list (list string * list Z) :=
  match msgs with
  | [] => []
  | (dir, m) :: rest =>
    let '(s, r) := if dir then (ta, tb) else (tb, ta) in
    match enc_msg i_hkdf2 i_seal s m with
    | None => [(["ENC-ERR"], [])]
    | Some (c, s') =>
      match dec_header i_hkdf2 i_open r (firstn 18 c) with
      | None => [([hx c; "HDR-ERR"], [])]
      | Some (len, r1) =>
        match dec_body i_open r1 (skipn 18 c) with
        | None => [([hx c; "BODY-ERR"], [])]
        | Some (m', r') =>
          let '(ta', tb') := if dir then (s', r') else (r', s') in
          ([hx c; hx m'] ++ show_transport ta' ++ show_transport tb', len :: show_nonces ta' ++ show_nonces tb')
          :: run_conv ta' tb' rest
        end
      end
    end
  end.

(** the same on generated payloads (splitmix64 words, little endian: the generator of the Rust
    harness), printing SHA-256 digests instead of the data: used for maximal-size messages *)
Definition sm64 (s : Z) : Z * Z :=
  let m := 2 ^ 64 in
  let s' := (s + 11400714819323198485) mod m in
  let z := s' in
  let z := (Z.lxor z (Z.shiftr z 30) * 13787848793156543929) mod m in
  let z := (Z.lxor z (Z.shiftr z 27) * 10723151780598845931) mod m in
  (s', Z.lxor z (Z.shiftr z 31)).
Fixpoint gen_words (n : nat) (s : Z) : Noise.bytes :=
  match n with
  | O => []
  | S k => let '(s', z) := sm64 s in le_n 8 z ++ gen_words k s'
  end.
Definition gen_payload (len : nat) (seed : Z) : Noise.bytes :=
  firstn len (gen_words (len / 8 + 1) seed).

Fixpoint run_conv_gen (ta tb : transport) (msgs : list (bool * (Z * Z))) : list (list string * list Z) :=
  match msgs with
  | [] => []
  | (dir, (len, seed)) :: rest =>
    let m := gen_payload (Z.to_nat len) seed in
    let '(s, r) := if dir then (ta, tb) else (tb, ta) in
    match enc_msg i_hkdf2 i_seal s m with
    | None => [(["ENC-ERR"], [])]
    | Some (c, s') =>
      match dec_header i_hkdf2 i_open r (firstn 18 c) with
      | None => [(["HDR-ERR"], [])]
      | Some (len', r1) =>
        match dec_body i_open r1 (skipn 18 c) with
        | None => [(["BODY-ERR"], [])]
        | Some (m', r') =>
          let '(ta', tb') := if dir then (s', r') else (r', s') in
          ([hx (sha256 c); hx (sha256 m')] ++ show_transport ta' ++ show_transport tb', len' :: show_nonces ta' ++ show_nonces tb')
          :: run_conv_gen ta' tb' rest
        end
      end
    end
  end.

(** the receiver alone on an arbitrary (possibly corrupted) frame: "OK len body" or where it fails *)
Definition recv_frame (t : transport) (c : Noise.bytes) : list string :=
  if (length c <? 18)%nat then ["TOO-SHORT"]
  else
    match dec_header i_hkdf2 i_open t (firstn 18 c) with
    | None => ["HDR-ERR"]
    | Some (len, t1) =>
      if len <? MIN_MSG_LEN then ["SHORT"]
      else if (length c <? 18 + Z.to_nat len + 16)%nat then ["TOO-SHORT"]
      else
        match dec_body i_open t1 (firstn (Z.to_nat len + 16) (skipn 18 c)) with
        | None => ["BODY-ERR"]
        | Some (m, _) => ["OK"; hx m]
        end
    end.

(** ** the PeerManager reader on real bytes *)
Definition show_event (e : event) : string :=
  match e with
  | EvOutRaw b => ("O" ++ hx b)%string
  | EvNoiseDone id => ("N" ++ hx id)%string
  | EvFrame m => ("F" ++ hx m)%string
  | EvIgnored w => if w then "W" else "G"
  | EvReply r => ("R" ++ hx (firstn 4 r) ++ ":" ++ hx [blen r / 65536; (blen r / 256) mod 256; blen r mod 256])%string
  | EvInit => "I"
  | EvDeliver => "D"
  end.
Definition show_status (s : status) : string :=
  match s with Alive => "alive" | Disconnected => "disconnected" | Panicked => "PANIC" | OutOfFuel => "FUEL" end.

(** [decode]: the classification [do_handle_message_holding_peer_lock] branches on, read off the
    plaintext (type; for start_batch the channel id, batch size and the TLV (1, u16) = 132; for
    commitment_signed the channel id), unless the test generator's table says the frame does not
    decode *)
Definition msg_type (m : Noise.bytes) : Z := nth 0 m 0 * 256 + nth 1 m 0.
Definition classify_msg (m : Noise.bytes) : mkind :=
  let ty := msg_type m in
  if ty =? 16 then KInit
  else if ty =? 127 then
    KStartBatch (slice 2 34 m) (nth 34 m 0 * 256 + nth 35 m 0) (beqb (skipn 36 m) [1; 2; 0; 132])
  else if ty =? 132 then KCommitmentSigned (slice 2 34 m)
  else if ty =? 265 then KGossipFilter
  else if ty =? 18 then KPing (nth 2 m 0 * 256 + nth 3 m 0)
  else KOther ty.
Fixpoint lookup_dres (tbl : list (Noise.bytes * dres)) (m : Noise.bytes) : dres :=
  match tbl with
  | [] => DOk (classify_msg m)
  | (a, v) :: t => if bytes_eqb a m then v else lookup_dres t m
  end.

Definition run_reader (cv : curve) (ls re : Noise.bytes)
    (dtbl : list (Noise.bytes * dres)) (init_bad handler_bad : list Noise.bytes)
    (c0 : conn pstate) (frags : list Noise.bytes) : list (list string * string) :=
  let h := peer_handle (i_dh cv) (i_pub cv) (i_pk_valid cv) i_hkdf2 i_H i_seal i_open
             (lookup_dres dtbl)
             (fun m => negb (existsb (bytes_eqb m) init_bad))
             (fun m => negb (existsb (bytes_eqb m) handler_bad)) ls re in
  map (fun x => (map show_event (fst x), show_status (snd x))) (feed_each pstate event h c0 frags).

Definition inbound0 (cv : curve) (ls : Noise.bytes) : conn pstate := inbound_conn (i_pub cv) i_H ls.
