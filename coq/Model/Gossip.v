(** C17 — hand model of [lightning/src/routing/gossip.rs] [NetworkGraph] / [P2PGossipSync]
    (std build, synchronous UTXO lookups, single-threaded).  Executable Gallina, no proofs.

    Every function below is a branch-by-branch transliteration of the Rust function named in its
    comment: same guard order, same error precedence.  Identifiers:
      - short channel ids are [Z] (u64);
      - node ids / bitcoin keys are [Z]: an ORDER-PRESERVING interning of the 33-byte [NodeId]
        (the harness uses the rank of the byte string), because [node_id_1 >= node_id_2] is a
        lexicographic byte comparison in the Rust;
      - chain hashes, feature sets, node-announcement contents (features, rgb, alias, addresses)
        and stored full messages are interned to [Z]: only equality matters;
      - signatures are oracle data computed by the Rust side with real secp256k1:
        [ann_sigs] = "signature i verifies under announced key i"; a channel_update carries the
        node id under whose key its signature verifies ([None]: under no known key);
        [cfg_bad_pks] lists node ids whose 33 bytes are not a valid curve point.
    Style: std++ ([gmap]). *)
From stdpp Require Import gmap.
From Coq Require Import ZArith String.
Require Import LdkV.Gen.GossipConsts.
Open Scope Z_scope.

(** ** Data *)

(** [ChannelUpdateInfo] *)
Record upd_info := UpdInfo {
  ui_ts : Z;            (* last_update *)
  ui_enabled : bool;
  ui_cltv : Z;
  ui_hmin : Z;
  ui_hmax : Z;
  ui_base : Z;
  ui_prop : Z;
  ui_msg : option Z     (* last_update_message: id of the stored full message *)
}.

(** [ChannelInfo] (node counters are private routing accelerators and are not modelled) *)
Record chan := Chan {
  c_features : Z;
  c_one : Z;
  c_two : Z;
  c_cap : option Z;     (* capacity_sats *)
  c_12 : option upd_info;
  c_21 : option upd_info;
  c_msg : option Z;     (* announcement_message *)
  c_recv : Z            (* announcement_received_time (wall clock / RGS backdated time) *)
}.

(** [NodeAnnouncementInfo]: [na_msg = Some _] is the [Relayed] variant, [None] the [Local] one *)
Record nann := NAnn { na_ts : Z; na_content : Z; na_msg : option Z }.

(** [NodeInfo] *)
Record node := Node { n_chans : list Z; n_ann : option nann }.

(** [NetworkGraph]: channels, nodes, [removed_channels], [removed_nodes] (std: always [Some time]) *)
Record graph := Graph {
  g_chans : gmap Z chan;
  g_nodes : gmap Z node;
  g_rmc : gmap Z Z;
  g_rmn : gmap Z Z
}.

Definition g_init : graph := Graph ∅ ∅ ∅ ∅.

Record cfg := Cfg {
  cfg_chain : Z;             (* our chain hash *)
  cfg_bad_pks : list Z;      (* node ids that do not parse as public keys *)
  cfg_time_check : bool      (* production build: wall-clock window in update_channel_internal
                                (compiled out under feature _test_utils) *)
}.

Definition pk_ok (cf : cfg) (k : Z) : bool := negb (bool_decide (k ∈ cfg_bad_pks cf)).

(** ** Messages *)

Record chan_ann := ChanAnnMsg {
  ca_features : Z; ca_chain : Z; ca_scid : Z; ca_n1 : Z; ca_n2 : Z; ca_b1 : Z; ca_b2 : Z;
  ca_excess : Z;  (* excess_data.len() *)
  ca_mid : Z      (* identity of the full signed message *)
}.

Record ann_sigs := AnnSigs { sg_n1 : bool; sg_n2 : bool; sg_b1 : bool; sg_b2 : bool }.

Record chan_upd := ChanUpdMsg {
  cu_chain : Z; cu_scid : Z; cu_ts : Z; cu_mflags : Z; cu_cflags : Z; cu_cltv : Z;
  cu_hmin : Z; cu_hmax : Z; cu_base : Z; cu_prop : Z; cu_excess : Z; cu_mid : Z
}.

Record node_ann := NodeAnnMsg {
  nm_ts : Z; nm_nid : Z; nm_content : Z; nm_excess : Z; nm_excess_addr : Z; nm_mid : Z
}.

(** Result of the (synchronous) [UtxoLookup] for an announcement: oracle *)
Inductive utxo :=
| UNoLookup                       (* utxo_lookup = None *)
| UOk (sats : Z) (script_ok : bool) (* Ok(TxOut); script_ok: p2wsh of the announced bitcoin keys *)
| UUnknownChain
| UUnknownTx.

Inductive op :=
| OChanAnn (via_handler : bool) (sg : option ann_sigs) (a : chan_ann) (u : utxo) (now : Z)
    (* update_channel_from_announcement / _from_unsigned_announcement / handle_channel_announcement *)
| OPartialAnn (scid : Z) (cap : option Z) (ts : Z) (features : Z) (n1 n2 : Z)
    (* add_channel_from_partial_announcement (rapid gossip sync) *)
| OChanUpd (via_handler : bool) (sg : option (option Z)) (m : chan_upd) (now : Z) (only_verify : bool)
    (* update_channel / update_channel_unsigned / verify_channel_update / handle_channel_update *)
| ONodeAnn (via_handler : bool) (sg : option bool) (m : node_ann)
    (* update_node_from_announcement / _from_unsigned_announcement / handle_node_announcement *)
| OFailChan (scid : Z) (permanent : bool) (now : Z)
    (* channel_failed_permanent / handle_network_update(ChannelFailure) *)
| OFailNode (nid : Z) (permanent : bool) (now : Z)
    (* node_failed_permanent / handle_network_update(NodeFailure) *)
| OPrune (now : Z)
    (* remove_stale_channels_and_tracking_with_time *)
| OReload.
    (* NetworkGraph::write followed by NetworkGraph::read: removal tracking is not persisted *)

(** ** Errors ([LightningError.err] text and [ErrorAction] class) *)
Inductive gerr :=
| ENotSorted | ESelfChan | EAnnChain | EHaveValidated | EHaveNonValidated
| EAnnBadKey | EAnnBadSig | ERemovedRecently | EScriptMismatch | EUnknownChain | EUnknownTx
| EAlreadyKnown
| EDontForward | EUpdChain | ETooOld | EFuture | EHmaxTooLarge | ENoChan | ECapacity
| EUpdOlder | EUpdSameTs | EBadSourceKey | EUpdBadSig
| ENodeSameTs | ENodeBadKey | ENodeBadSig | ENoChannels | ENodeOlder.

Definition all_errs : list gerr :=
  [ENotSorted; ESelfChan; EAnnChain; EHaveValidated; EHaveNonValidated; EAnnBadKey; EAnnBadSig;
   ERemovedRecently; EScriptMismatch; EUnknownChain; EUnknownTx; EAlreadyKnown; EDontForward;
   EUpdChain; ETooOld; EFuture; EHmaxTooLarge; ENoChan; ECapacity; EUpdOlder; EUpdSameTs;
   EBadSourceKey; EUpdBadSig; ENodeSameTs; ENodeBadKey; ENodeBadSig; ENoChannels; ENodeOlder].

Open Scope string_scope.
(** The Rust [err] string (a prefix of it where the Rust formats values into the text). *)
Definition err_text (e : gerr) : string :=
  match e with
  | ENotSorted => "node_ids in channel_announcements must be sorted"
  | ESelfChan => "Channel announcement node had a channel with itself"
  | EAnnChain => "Channel announcement chain hash does not match genesis hash"
  | EHaveValidated => "Already have chain-validated channel"
  | EHaveNonValidated => "Already have non-chain-validated channel"
  | EAnnBadKey => "Invalid public key on channel_announcement message"
  | EAnnBadSig => "Invalid signature on channel_announcement message"
  | ERemovedRecently => "Channel with SCID"
  | EScriptMismatch => "Channel announcement key ("
  | EUnknownChain => "Channel announced on an unknown chain ("
  | EUnknownTx => "Channel announced without corresponding UTXO entry"
  | EAlreadyKnown => "Already have knowledge of channel"
  | EDontForward => "Ignoring channel_update with dont_forward bit set"
  | EUpdChain => "Channel update chain hash does not match genesis hash"
  | ETooOld => "channel_update is older than two weeks old"
  | EFuture => "channel_update has a timestamp more than a day in the future"
  | EHmaxTooLarge => "htlc_maximum_msat is larger than maximum possible msats"
  | ENoChan => "Couldn't find channel for update"
  | ECapacity => "htlc_maximum_msat is larger than channel capacity or capacity is bogus"
  | EUpdOlder => "Update older than last processed update"
  | EUpdSameTs => "Update had same timestamp as last processed update"
  | EBadSourceKey => "Couldn't parse source node pubkey"
  | EUpdBadSig => "Invalid signature on channel_update message"
  | ENodeSameTs => "Update had the same timestamp as last processed update"
  | ENodeBadKey => "Invalid public key on node_announcement message"
  | ENodeBadSig => "Invalid signature on node_announcement message"
  | ENoChannels => "No existing channels for node_announcement"
  | ENodeOlder => "Update older than last processed update"
  end.

Definition err_action (e : gerr) : string :=
  match e with
  | ENotSorted | ESelfChan | EScriptMismatch | EUnknownChain | EUnknownTx
  | EHmaxTooLarge | ECapacity | ENoChannels => "IgnoreError"
  | EAnnChain | EDontForward | EUpdChain | EBadSourceKey => "IgnoreAndLog(Debug)"
  | ERemovedRecently | ETooOld | EFuture | ENoChan => "IgnoreAndLog(Gossip)"
  | EHaveValidated | EHaveNonValidated | EAlreadyKnown | EUpdOlder | EUpdSameTs
  | ENodeSameTs | ENodeOlder => "IgnoreDuplicateGossip"
  | EAnnBadKey | EAnnBadSig | EUpdBadSig | ENodeBadKey | ENodeBadSig => "SendWarningMessage"
  end.
Close Scope string_scope.

(** Return values *)
Inductive gval :=
| VUnit
| VBool (b : bool)                 (* handle_*_announcement: should relay *)
| VNodes (o : option (Z * Z)).     (* update_channel*: Some((node_one, node_two)) *)

Inductive gres := GOk (v : gval) | GErr (e : gerr).

(** ** Node bookkeeping *)

(** [remove_from_node!] inside [remove_channel_in_nodes_callback] with immediate removal
    ([remove_channel_in_nodes]).  The Rust panics if the node is missing; the invariant
    [C17_wf] shows that branch unreachable, the totalised model leaves the map unchanged. *)
Definition rm_one (nodes : gmap Z node) (nid scid : Z) : gmap Z node :=
  match nodes !! nid with
  | Some n =>
      let l := filter (λ s, s ≠ scid) (n_chans n) in
      match l with
      | [] => delete nid nodes
      | _ => <[nid := Node l (n_ann n)]> nodes
      end
  | None => nodes
  end.

(** [remove_channel_in_nodes] *)
Definition remove_in_nodes (nodes : gmap Z node) (c : chan) (scid : Z) : gmap Z node :=
  rm_one (rm_one nodes (c_one c) scid) (c_two c) scid.

(** the [for … in node_counter_id] loop body of [add_channel_between_nodes] *)
Definition push_node (nodes : gmap Z node) (nid scid : Z) : gmap Z node :=
  match nodes !! nid with
  | Some n => <[nid := Node (n_chans n ++ [scid]) (n_ann n)]> nodes
  | None => <[nid := Node [scid] None]> nodes
  end.

(** [add_channel_between_nodes] *)
Definition add_chan (g : graph) (scid : Z) (ci : chan) (utxo_some : bool) : gres * graph :=
  match g_chans g !! scid with
  | Some old =>
      if utxo_some then
        let nodes1 := remove_in_nodes (g_nodes g) old scid in
        (GOk VUnit,
         Graph (<[scid := ci]> (g_chans g))
               (push_node (push_node nodes1 (c_one ci) scid) (c_two ci) scid)
               (g_rmc g) (g_rmn g))
      else (GErr EAlreadyKnown, g)
  | None =>
      (GOk VUnit,
       Graph (<[scid := ci]> (g_chans g))
             (push_node (push_node (g_nodes g) (c_one ci) scid) (c_two ci) scid)
             (g_rmc g) (g_rmn g))
  end.

(** ** channel_announcement *)

(** [pre_channel_announcement_validation_check] *)
Definition pre_check (cf : cfg) (g : graph) (a : chan_ann) (u : utxo) : option gerr :=
  if ca_n2 a <=? ca_n1 a then Some ENotSorted
  else if ca_b1 a =? ca_b2 a then Some ESelfChan
  else if negb (ca_chain a =? cfg_chain cf) then Some EAnnChain
  else match g_chans g !! ca_scid a with
       | Some c =>
           match c_cap c with
           | Some _ =>
               if (ca_n1 a =? c_one c) && (ca_n2 a =? c_two c) then Some EHaveValidated else None
           | None =>
               match u with UNoLookup => Some EHaveNonValidated | _ => None end
           end
       | None => None
       end.

(** [verify_channel_announcement]: key 1, sig 1, key 2, sig 2, btc key 1, … in this order *)
Definition verify_ann (cf : cfg) (a : chan_ann) (s : ann_sigs) : option gerr :=
  if negb (pk_ok cf (ca_n1 a)) then Some EAnnBadKey
  else if negb (sg_n1 s) then Some EAnnBadSig
  else if negb (pk_ok cf (ca_n2 a)) then Some EAnnBadKey
  else if negb (sg_n2 s) then Some EAnnBadSig
  else if negb (pk_ok cf (ca_b1 a)) then Some EAnnBadKey
  else if negb (sg_b1 s) then Some EAnnBadSig
  else if negb (pk_ok cf (ca_b2 a)) then Some EAnnBadKey
  else if negb (sg_b2 s) then Some EAnnBadSig
  else None.

Definition is_some_b {A} (o : option A) : bool := match o with Some _ => true | None => false end.

(** [PendingChecks::check_channel_announcement] for a synchronous lookup *)
Definition utxo_value (u : utxo) : gerr + option Z :=
  match u with
  | UNoLookup => inr None
  | UOk v sok => if sok then inr (Some v) else inl EScriptMismatch
  | UUnknownChain => inl EUnknownChain
  | UUnknownTx => inl EUnknownTx
  end.

(** [update_channel_from_unsigned_announcement_intern] *)
Definition ann_intern (g : graph) (a : chan_ann) (signed : bool) (u : utxo) (now : Z)
  : gres * graph :=
  if is_some_b (g_rmc g !! ca_scid a) || is_some_b (g_rmn g !! ca_n1 a)
     || is_some_b (g_rmn g !! ca_n2 a)
  then (GErr ERemovedRecently, g)
  else match utxo_value u with
       | inl e => (GErr e, g)
       | inr cap =>
           let ci := Chan (ca_features a) (ca_n1 a) (ca_n2 a) cap None None
                          (if (ca_excess a <=? MAX_EXCESS_BYTES_FOR_RELAY) && signed
                           then Some (ca_mid a) else None)
                          now in
           add_chan g (ca_scid a) ci (is_some_b cap)
       end.

(** [update_channel_from_announcement] / [update_channel_from_unsigned_announcement] and
    [handle_channel_announcement] (which maps [Ok(())] to [Ok(excess_data.len() <= MAX…)]) *)
Definition chan_ann_step (cf : cfg) (g : graph) (via : bool) (sg : option ann_sigs)
    (a : chan_ann) (u : utxo) (now : Z) : gres * graph :=
  match pre_check cf g a u with
  | Some e => (GErr e, g)
  | None =>
      match (match sg with Some s => verify_ann cf a s | None => None end) with
      | Some e => (GErr e, g)
      | None =>
          let '(r, g') := ann_intern g a (is_some_b sg) u now in
          match r with
          | GOk _ => (if via && is_some_b sg
                      then GOk (VBool (ca_excess a <=? MAX_EXCESS_BYTES_FOR_RELAY))
                      else GOk VUnit, g')
          | GErr e => (GErr e, g')
          end
      end
  end.

(** [add_channel_from_partial_announcement] *)
Definition partial_ann_step (g : graph) (scid : Z) (cap : option Z) (ts features n1 n2 : Z)
  : gres * graph :=
  if n2 <=? n1 then (GErr ENotSorted, g)
  else add_chan g scid (Chan features n1 n2 cap None None None ts) false.

(** ** channel_update *)

Definition dir_is_two_to_one (m : chan_upd) : bool := Z.testbit (cu_cflags m) 0.
Definition upd_enabled (m : chan_upd) : bool := negb (Z.testbit (cu_cflags m) 1).
Definition upd_dont_forward (m : chan_upd) : bool := Z.testbit (cu_mflags m) 1.

Definition chan_dir (c : chan) (two_to_one : bool) : option upd_info :=
  if two_to_one then c_21 c else c_12 c.
Definition dir_node (c : chan) (two_to_one : bool) : Z :=
  if two_to_one then c_two c else c_one c.
Definition set_dir (c : chan) (two_to_one : bool) (u : option upd_info) : chan :=
  if two_to_one
  then Chan (c_features c) (c_one c) (c_two c) (c_cap c) (c_12 c) u (c_msg c) (c_recv c)
  else Chan (c_features c) (c_one c) (c_two c) (c_cap c) u (c_21 c) (c_msg c) (c_recv c).

(** [check_update_latest] *)
Definition check_latest (target : option upd_info) (m : chan_upd) : option gerr :=
  match target with
  | Some ex =>
      if cu_ts m <? ui_ts ex then Some EUpdOlder
      else if ui_ts ex =? cu_ts m then Some EUpdSameTs
      else None
  | None => None
  end.

(** [check_msg_sanity] *)
Definition check_sanity (c : chan) (m : chan_upd) : option gerr :=
  match (match c_cap c with
         | Some cap =>
             if (MAX_VALUE_MSAT / 1000 <? cap) || (cap * 1000 <? cu_hmax m)
             then Some ECapacity else None
         | None => None
         end) with
  | Some e => Some e
  | None => check_latest (chan_dir c (dir_is_two_to_one m)) m
  end.

Definition upd_info_of (m : chan_upd) (signed : bool) : upd_info :=
  UpdInfo (cu_ts m) (upd_enabled m) (cu_cltv m) (cu_hmin m) (cu_hmax m) (cu_base m) (cu_prop m)
          (if (cu_excess m <=? MAX_EXCESS_BYTES_FOR_RELAY) && signed then Some (cu_mid m) else None).

(** [update_channel_internal] (with the [handle_channel_update] wrapper when [via]) *)
Definition chan_upd_step (cf : cfg) (g : graph) (via : bool) (sg : option (option Z))
    (m : chan_upd) (now : Z) (only_verify : bool) : gres * graph :=
  if via && upd_dont_forward m then (GErr EDontForward, g)
  else if negb (cu_chain m =? cfg_chain cf) then (GErr EUpdChain, g)
  else if cfg_time_check cf && (cu_ts m <? now - STALE_CHANNEL_UPDATE_AGE_LIMIT_SECS)
  then (GErr ETooOld, g)
  else if cfg_time_check cf && (now + 60 * 60 * 24 <? cu_ts m) then (GErr EFuture, g)
  else if MAX_VALUE_MSAT <? cu_hmax m then (GErr EHmaxTooLarge, g)
  else match g_chans g !! cu_scid m with
       | None => (GErr ENoChan, g)
       | Some c =>
           match check_sanity c m with
           | Some e => (GErr e, g)
           | None =>
               let d := dir_is_two_to_one m in
               if is_some_b sg && negb (pk_ok cf (dir_node c d)) then (GErr EBadSourceKey, g)
               else if (match sg with
                        | Some signer => negb (bool_decide (signer = Some (dir_node c d)))
                        | None => false
                        end)
               then (GErr EUpdBadSig, g)
               else if only_verify then (GOk (VNodes None), g)
               else
                 let c' := set_dir c d (Some (upd_info_of m (is_some_b sg))) in
                 (GOk (VNodes (if via && negb (cu_excess m <=? MAX_EXCESS_BYTES_FOR_RELAY)
                               then None else Some (c_one c, c_two c))),
                  Graph (<[cu_scid m := c']> (g_chans g)) (g_nodes g) (g_rmc g) (g_rmn g))
           end
       end.

(** ** node_announcement *)

Definition node_should_relay (m : node_ann) : bool :=
  (nm_excess m <=? MAX_EXCESS_BYTES_FOR_RELAY)
  && (nm_excess_addr m <=? MAX_EXCESS_BYTES_FOR_RELAY)
  && (nm_excess m + nm_excess_addr m <=? MAX_EXCESS_BYTES_FOR_RELAY).

(** [update_node_from_announcement_intern] *)
Definition node_intern (g : graph) (m : node_ann) (signed : bool) : gres * graph :=
  match g_nodes g !! nm_nid m with
  | None => (GErr ENoChannels, g)
  | Some n =>
      match (match n_ann n with
             | Some a =>
                 if nm_ts m <? na_ts a then Some ENodeOlder
                 else if na_ts a =? nm_ts m then Some ENodeSameTs
                 else None
             | None => None
             end) with
      | Some e => (GErr e, g)
      | None =>
          let info := NAnn (nm_ts m) (nm_content m)
                           (if signed && node_should_relay m then Some (nm_mid m) else None) in
          (GOk VUnit,
           Graph (g_chans g) (<[nm_nid m := Node (n_chans n) (Some info)]> (g_nodes g))
                 (g_rmc g) (g_rmn g))
      end
  end.

(** [update_node_from_announcement] / [update_node_from_unsigned_announcement] /
    [handle_node_announcement] *)
Definition node_ann_step (cf : cfg) (g : graph) (via : bool) (sg : option bool) (m : node_ann)
  : gres * graph :=
  match sg with
  | Some sig_ok =>
      if (match g_nodes g !! nm_nid m with
          | Some n => match n_ann n with Some a => na_ts a =? nm_ts m | None => false end
          | None => false
          end)
      then (GErr ENodeSameTs, g)
      else if negb (pk_ok cf (nm_nid m)) then (GErr ENodeBadKey, g)
      else if negb sig_ok then (GErr ENodeBadSig, g)
      else
        let '(r, g') := node_intern g m true in
        match r with
        | GOk _ => (if via then GOk (VBool (node_should_relay m)) else GOk VUnit, g')
        | GErr e => (GErr e, g')
        end
  | None => node_intern g m false
  end.

(** ** Removal *)

(** [channel_failed_permanent_with_time] *)
Definition remove_channel (g : graph) (scid : Z) (now : Z) : graph :=
  match g_chans g !! scid with
  | Some c =>
      Graph (delete scid (g_chans g)) (remove_in_nodes (g_nodes g) c scid)
            (<[scid := now]> (g_rmc g)) (g_rmn g)
  | None => g
  end.

(** the per-scid body of the loop in [node_failed_permanent] *)
Definition fail_node_chan (nid now : Z) (g : graph) (scid : Z) : graph :=
  match g_chans g !! scid with
  | Some c =>
      let other := if bool_decide (nid = c_one c) then c_two c else c_one c in
      Graph (delete scid (g_chans g)) (rm_one (g_nodes g) other scid)
            (<[scid := now]> (g_rmc g)) (g_rmn g)
  | None => g   (* debug_assert!(false) in the Rust; unreachable under [C17_wf] *)
  end.

(** [node_failed_permanent] *)
Definition fail_node (g : graph) (nid now : Z) : graph :=
  match g_nodes g !! nid with
  | Some n =>
      let g1 := Graph (g_chans g) (delete nid (g_nodes g)) (g_rmc g) (g_rmn g) in
      let g2 := foldl (fail_node_chan nid now) g1 (n_chans n) in
      Graph (g_chans g2) (g_nodes g2) (g_rmc g2) (<[nid := now]> (g_rmn g2))
  | None => g
  end.

(** the direction-dropping part of the loop body in
    [remove_stale_channels_and_tracking_with_time] *)
Definition drop_stale (min_time : Z) (c : chan) : chan :=
  let d12 := match c_12 c with
             | Some u => if ui_ts u <? min_time then None else Some u
             | None => None end in
  let d21 := match c_21 c with
             | Some u => if ui_ts u <? min_time then None else Some u
             | None => None end in
  Chan (c_features c) (c_one c) (c_two c) (c_cap c) d12 d21 (c_msg c) (c_recv c).

Definition removable (min_time : Z) (c : chan) : bool :=
  (negb (is_some_b (c_12 c)) || negb (is_some_b (c_21 c))) && (c_recv c <? min_time).

(** [remove_stale_channels_and_tracking_with_time].  The Rust removes the stale channels in bulk
    and defers the deletion of emptied nodes to the end of the loop; here each stale channel is
    removed with [remove_channel] (immediate node deletion), which yields the same maps whenever
    every channel's endpoints are listed ([C17_wf]); the iteration order of the hash map is
    irrelevant for the same reason. *)
Definition prune (g : graph) (now : Z) : graph :=
  if 2 ^ 32 - 1 <? now then g
  else if now <? STALE_CHANNEL_UPDATE_AGE_LIMIT_SECS then g
  else
    let min_time := now - STALE_CHANNEL_UPDATE_AGE_LIMIT_SECS in
    let chans1 := drop_stale min_time <$> g_chans g in
    let stale := (map_to_list (filter (λ kc, Is_true (removable min_time kc.2)) chans1)).*1 in
    let g1 := Graph chans1 (g_nodes g) (g_rmc g) (g_rmn g) in
    let g2 := foldl (λ g scid, remove_channel g scid now) g1 stale in
    let keep := λ (kt : Z * Z), Is_true (Z.max 0 (now - kt.2) <? REMOVED_ENTRIES_TRACKING_AGE_LIMIT_SECS) in
    Graph (g_chans g2) (g_nodes g2) (filter keep (g_rmc g2)) (filter keep (g_rmn g2)).

(** ** The step function *)
Definition step (cf : cfg) (g : graph) (o : op) : gres * graph :=
  match o with
  | OChanAnn via sg a u now => chan_ann_step cf g via sg a u now
  | OPartialAnn scid cap ts f n1 n2 => partial_ann_step g scid cap ts f n1 n2
  | OChanUpd via sg m now ov => chan_upd_step cf g via sg m now ov
  | ONodeAnn via sg m => node_ann_step cf g via sg m
  | OFailChan scid perm now => (GOk VUnit, if perm then remove_channel g scid now else g)
  | OFailNode nid perm now => (GOk VUnit, if perm then fail_node g nid now else g)
  | OPrune now => (GOk VUnit, prune g now)
  | OReload => (GOk VUnit, Graph (g_chans g) (g_nodes g) ∅ ∅)
  end.

Definition run (cf : cfg) (g : graph) (ops : list op) : graph :=
  foldl (λ g o, (step cf g o).2) g ops.

(** ** Canonical dumps (for the correspondence harness; all numbers [>= 0], [-1] encodes [None]) *)
Definition oz (o : option Z) : Z := match o with Some z => z | None => -1 end.
Definition dump_dir (o : option upd_info) : list Z :=
  match o with
  | Some u => [1; ui_ts u; (if ui_enabled u then 1 else 0); ui_cltv u; ui_hmin u; ui_hmax u;
               ui_base u; ui_prop u; oz (ui_msg u)]
  | None => [0]
  end.
Definition dump_chan (kc : Z * chan) : list Z :=
  let c := kc.2 in
  [kc.1; c_features c; c_one c; c_two c; oz (c_cap c); oz (c_msg c); c_recv c]
    ++ dump_dir (c_12 c) ++ dump_dir (c_21 c).
Definition dump_node (kn : Z * node) : list Z :=
  let n := kn.2 in
  [kn.1] ++ match n_ann n with
            | Some a => [1; na_ts a; na_content a; oz (na_msg a)]
            | None => [0]
            end ++ n_chans n.
Definition dump (g : graph) : list (list Z) * list (list Z) * list (Z * Z) * list (Z * Z) :=
  (dump_chan <$> map_to_list (g_chans g), dump_node <$> map_to_list (g_nodes g),
   map_to_list (g_rmc g), map_to_list (g_rmn g)).

(** Flat encodings for printing: a result is a [list Z], a step a [list (list (list Z))]. *)
Fixpoint err_index_in (l : list gerr) (e : gerr) (i : Z) : Z :=
  match l with
  | [] => -1
  | x :: l' => if bool_decide (err_text x = err_text e ∧ err_action x = err_action e) then i
               else err_index_in l' e (i + 1)
  end.
Definition enc_res (r : gres) : list Z :=
  match r with
  | GOk VUnit => [0]
  | GOk (VBool b) => [1; if b then 1 else 0]
  | GOk (VNodes None) => [2]
  | GOk (VNodes (Some (a, b))) => [3; a; b]
  | GErr e => [9; err_index_in all_errs e 0]
  end.
Definition enc_pairs (l : list (Z * Z)) : list (list Z) := (λ kt : Z * Z, [kt.1; kt.2]) <$> l.
(** after every op: [[result]] for a failed op, [[result]; chans; nodes; rmc; rmn] otherwise *)
Fixpoint trace (cf : cfg) (g : graph) (ops : list op) : list (list (list (list Z))) :=
  match ops with
  | [] => []
  | o :: ops' =>
      let '(r, g') := step cf g o in
      (match r with
       | GOk _ => let '(c, n, rc, rn) := dump g' in [[enc_res r]; c; n; enc_pairs rc; enc_pairs rn]
       | GErr _ => [[enc_res r]]
       end) :: trace cf g' ops'
  end.
