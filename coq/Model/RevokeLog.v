(** The commitment-number / revocation discipline of ONE node of a channel, as a state machine
    driven by an arbitrary environment (its user, its peer -- honest or not --, the network,
    the monitor-persistence completion order, restarts).

    Hand transliteration of the number/flag projection of lightning/src/ln/channel.rs
    ([FundedChannel]): [commitment_signed] -> [validate_commitment_signed] ->
    [commitment_signed_update_monitor], [revoke_and_ack], [build_commitment_no_status_check],
    [monitor_updating_paused] / [monitor_updating_restored], [get_last_revoke_and_ack],
    [get_last_commitment_update_for_send], [remove_uncommitted_htlcs_and_mark_paused],
    [get_channel_reestablish], [channel_reestablish]; and of the way a [ChannelError::Close] /
    a user force-close reaches the signer ([sign_holder_commitment] of the monitor's current
    holder commitment). Branch order and error precedence follow the Rust.

    Commitment numbers count DOWN from [INITIAL] = 2^48 - 1, as in the Rust. The machine starts in
    [ChannelState::AwaitingChannelReady] right after funding_created/funding_signed (optionally with
    [WAITING_FOR_BATCH]): both sides hold commitment number [INITIAL]; the next ones are
    [INITIAL - 1]. The [channel_ready] exchange ([FundedChannel::channel_ready] with its flag tests,
    [check_get_channel_ready], [set_batch_ready]) is part of the machine.

    What is abstracted: HTLC/fee content (the environment says whether there is something to
    commit), signature validity (booleans in the operation; the NUMBER of HTLC signatures versus
    the number of non-dust HTLCs is explicit), the shachain consistency check (a
    boolean in the operation; its own theorems are in Proofs/C05Shachain.v), secp256k1
    ([pub : secret -> point] abstract), the stfu handshake (the environment says when
    [LOCAL_STFU_SENT] / [QUIESCENT] get set; what they forbid is in the machine). The monitor side
    is its [holder_tx_signed] lock: which holder commitment sits in the funding claim it signed
    (through a close, or through the public [ChannelMonitor::broadcast_latest_holder_commitment_txn]
    on a channel that is still open), after which [ChainMonitor::update_channel] never reports an
    update complete. Not modelled: asynchronous signers, splicing / batched commitment_signed,
    shutdown negotiation (a cooperative close signs no commitment transaction), the messages before
    funding_signed.

    The correspondence with the real code is checked on every run by [h_revoke] (trace
    correspondence: same operations => same signer calls and same numbers/flags after every
    operation). No proofs in this file. *)
Require Import LdkV.Prim.U64.
Open Scope Z_scope.

Definition INITIAL : Z := 2 ^ 48 - 1.

(** How the [your_last_per_commitment_secret] of a channel_reestablish relates to what we expect:
    not a valid secret key at all / a key for some other point / the key of the commitment point
    of the commitment the peer claims we revoked last. *)
Inductive sec_class : Type := SecGarbage | SecWrong | SecMatch.

Section Machine.
  Variables secret point : Type.
  Variable pub : secret -> point.
  Variable point_eqb : point -> point -> bool.

  (** Observable events, in the order they happen. The first five are calls on the channel
      signer; [StoreSecret] is [commitment_secrets.provide_secret] returning [Ok] inside
      [revoke_and_ack]; [Announce k p] is the peer telling us the per-commitment point of its
      commitment number [k] ([next_per_commitment_point] of [channel_ready] / [revoke_and_ack],
      [first_per_commitment_point] of the open/accept message). *)
  Inductive ev : Type :=
  | Release (k : Z)              (* release_commitment_secret(k) *)
  | ValidateHolder (k nsig nnd : Z) (* validate_holder_commitment(tx with number k, nsig counterparty HTLC
                                       signatures, nnd non-dust HTLCs) *)
  | SignCounterparty (k : Z)     (* sign_counterparty_commitment(tx with number k) *)
  | SignHolder (k : Z)           (* sign_holder_commitment(tx with number k) *)
  | ValidateRevocation (k : Z)   (* validate_counterparty_revocation(k, _) *)
  | StoreSecret (k : Z) (s : secret)
  | Announce (k : Z) (p : point).

  (** [ChannelState]: [ChannelReady(_)] or [AwaitingChannelReady(flags)] with the three
      [AwaitingChannelReadyFlags]; plus the secret stored for commitment number [INITIAL - 1],
      which [channel_ready] re-derives with [commitment_secrets.get_secret(INITIAL_COMMITMENT_NUMBER - 1)]. *)
  Record hstate : Type := mkHs {
    chan_ready : bool;     (* matches!(channel_state, ChannelReady(_)) *)
    our_ready : bool;      (* AwaitingChannelReadyFlags::OUR_CHANNEL_READY *)
    their_ready : bool;    (* AwaitingChannelReadyFlags::THEIR_CHANNEL_READY *)
    wfb : bool;            (* AwaitingChannelReadyFlags::WAITING_FOR_BATCH *)
    sec1 : option secret;
    pending_ready : option point   (* context.workaround_lnd_bug_4006: a channel_ready that arrived
                                      while we still needed a channel_reestablish *)
  }.

  (** Flags outside the number core: [ChannelReadyFlags::LOCAL_STFU_SENT] / [QUIESCENT], and the
      monitor's [holder_tx_signed]: [Some k] = the funding claim the monitor queued (and signs, and
      re-signs on every re-broadcast) spends the funding output with holder commitment number [k]. *)
  Record xstate : Type := mkXs {
    stfu_sent : bool;
    quiescent : bool;
    mon_signed : option Z
  }.

  Record st : Type := mkSt {
    holder_next : Z;        (* holder_commitment_point.next_transaction_number() *)
    cp_next : Z;            (* context.counterparty_next_commitment_transaction_number *)
    awaiting_rr : bool;     (* ChannelReadyFlags::AWAITING_REMOTE_REVOKE *)
    disconnected : bool;    (* FundedStateFlags::PEER_DISCONNECTED *)
    mon_in_progress : bool; (* FundedStateFlags::MONITOR_UPDATE_IN_PROGRESS *)
    mp_raa : bool;          (* context.monitor_pending_revoke_and_ack *)
    mp_cs : bool;           (* context.monitor_pending_commitment_signed *)
    raa_first : bool;       (* context.resend_order == RAACommitmentOrder::RevokeAndACKFirst *)
    cp_cur_point : option point;  (* context.counterparty_current_commitment_point *)
    cp_next_point : option point; (* context.counterparty_next_commitment_point *)
    closed : bool;          (* the channel was force-closed (it left the ChannelManager) *)
    hsk : hstate;
    ext : xstate
  }.

  (** State right after funding_created/funding_signed: [AwaitingChannelReady] with no flag, or with
      [WAITING_FOR_BATCH] for a batch-funded channel; both sides hold commitment number [INITIAL];
      [p0] is the peer's first point (number [INITIAL]) from open_channel/accept_channel, stored
      as [counterparty_next_commitment_point] until the peer's channel_ready shifts it. *)
  Definition init (batch : bool) (p0 : point) : st :=
    mkSt (INITIAL - 1) (INITIAL - 1) false false false false false false None (Some p0) false
         (mkHs false false false batch None None) (mkXs false false None).
  Definition init_log (p0 : point) : list ev := [Announce INITIAL p0].

  Inductive op : Type :=
  (** The user/HTLC layer wants a new commitment_signed out (send_htlc_and_commit, claim, fail,
      update_fee, holding-cell timer...). *)
  | OCommit (sync : bool)
  (** A commitment_signed from the peer. [sig_ok]: its commitment signature verifies against the
      commitment we build for [holder_next]; [nsig] = [htlc_signatures.len()], [nnd] = number of
      non-dust HTLCs of that commitment; [htlc_sigs_ok]: every HTLC signature that gets compared
      verifies. [need_cs]: it announced updates we must commit back. *)
  | ORecvCS (sig_ok : bool) (nsig nnd : Z) (htlc_sigs_ok : bool) (need_cs sync : bool)
  (** A revoke_and_ack from the peer. [chain_ok]: [provide_secret] accepts the secret.
      [commit]: receiving it makes us build a new commitment (holding cell freed, or
      [require_commitment]). *)
  | ORecvRAA (s : secret) (next_point : point) (chain_ok commit sync : bool)
  (** A ChannelMonitorUpdate that carries no commitment (a payment preimage while the claim waits
      in the holding cell): [monitor_updating_paused(false, false, false, ..)]. *)
  | OMonUpdate (sync : bool)
  (** All in-flight ChannelMonitorUpdates completed: [monitor_updating_restored]. *)
  | OMonitorDone
  (** A channel_ready from the peer, at any time (first one, re-sent after reconnect, re-sent to
      update the alias, forged). *)
  | ORecvChannelReady (p : point)
  (** The funding reached its depth: [check_get_channel_ready]. *)
  | OOurChannelReady
  (** The rest of the funding batch is ready: [set_batch_ready]. *)
  | OBatchReady
  (** [peer_disconnected] (also what a reload does to the channel). *)
  | ODisconnect
  (** The node is restarted from its serialized ChannelManager: like a disconnection, and the
      unserialized [workaround_lnd_bug_4006] is forgotten. *)
  | OReload
  (** A channel_reestablish from the peer. *)
  | ORecvReest (next_local next_remote : Z) (sec : sec_class)
  (** The user force-closes, or the ChannelManager closes on load because it is stale w.r.t. the
      monitor: the monitor broadcasts its current holder commitment. *)
  | OForceClose
  (** The funding output was spent on chain by a transaction this node did not sign (the peer's
      commitment, a cooperative close): the channel is gone, nothing is signed. *)
  | OChainClose
  (** The monitor signs the holder commitment of its funding claim again (re-broadcast, reload). *)
  | OResign
  (** The user calls [ChannelMonitor::broadcast_latest_holder_commitment_txn] (at any time, also on
      the monitor of a channel that is still open). *)
  | OMonBroadcast
  (** The ChannelManager processes the monitor's pending events ([process_pending_monitor_events],
      only inside [get_and_clear_pending_msg_events] / [process_pending_events]: message handlers
      do not do it, so any number of peer messages can be handled before). *)
  | OProcessEvents
  (** [try_send_stfu] sent our stfu ([LOCAL_STFU_SENT]); both sides' stfu are out ([QUIESCENT],
      [LOCAL_STFU_SENT] cleared); [exit_quiescence]. *)
  | OStfuSent
  | OQuiescent
  | OExitQuiescence.

  Definition upd_mon (s : st) (raa cs : bool) : st :=
    (* monitor_updating_paused(resend_raa, resend_commitment, ..) *)
    mkSt (holder_next s) (cp_next s) (awaiting_rr s) (disconnected s) true
         (mp_raa s || raa) (mp_cs s || cs) (raa_first s) (cp_cur_point s) (cp_next_point s) (closed s) (hsk s) (ext s).

  (** [build_commitment_no_status_check]: resend_order := RevokeAndACKFirst, AWAITING_REMOTE_REVOKE set *)
  Definition build_commitment (s : st) : st :=
    mkSt (holder_next s) (cp_next s) true (disconnected s) (mon_in_progress s)
         (mp_raa s) (mp_cs s) true (cp_cur_point s) (cp_next_point s) (closed s) (hsk s) (ext s).

  (** [ChannelState::can_generate_new_commitment] *)
  Definition can_generate_new_commitment (s : st) : bool :=
    chan_ready (hsk s) && negb (awaiting_rr s) && negb (stfu_sent (ext s)) && negb (quiescent (ext s))
    && negb (mon_in_progress s) && negb (disconnected s).

  (** [ChannelMonitorImpl::no_further_updates_allowed] as far as [holder_tx_signed] goes: from then on
      the monitor answers every pre-close update with [Err], and [ChainMonitor::update_channel] turns
      that into [InProgress] whatever the persister says: the update never completes. *)
  Definition mon_locked (s : st) : bool :=
    match mon_signed (ext s) with Some _ => true | None => false end.

  Definition set_mon_signed (s : st) (k : Z) : st :=
    mkSt (holder_next s) (cp_next s) (awaiting_rr s) (disconnected s) (mon_in_progress s)
         (mp_raa s) (mp_cs s) (raa_first s) (cp_cur_point s) (cp_next_point s) (closed s) (hsk s)
         (mkXs (stfu_sent (ext s)) (quiescent (ext s)) (Some k)).

  Definition set_stfu (s : st) (sent quiet : bool) : st :=
    mkSt (holder_next s) (cp_next s) (awaiting_rr s) (disconnected s) (mon_in_progress s)
         (mp_raa s) (mp_cs s) (raa_first s) (cp_cur_point s) (cp_next_point s) (closed s) (hsk s)
         (mkXs sent quiet (mon_signed (ext s))).

  (** [get_last_revoke_and_ack]: the only caller of [release_commitment_secret] *)
  Definition last_raa (s : st) : list ev := [Release (holder_next s + 2)].
  (** [get_last_commitment_update_for_send] -> [send_commitment_no_state_update] *)
  Definition last_cs (s : st) : list ev := [SignCounterparty (cp_next s)].

  (** [monitor_updating_restored] *)
  Definition restore (s : st) : st * list ev :=
    let s1 := mkSt (holder_next s) (cp_next s) (awaiting_rr s) (disconnected s) false
                   false false (raa_first s) (cp_cur_point s) (cp_next_point s) (closed s) (hsk s) (ext s) in
    if disconnected s then (s1, [])
    else (s1, (if mp_raa s then last_raa s else []) ++ (if mp_cs s then last_cs s else [])).

  Definition maybe_restore (sync : bool) (s : st) (evs : list ev) : st * list ev :=
    if sync && negb (mon_locked s) then let '(s', evs') := restore s in (s', evs ++ evs') else (s, evs).

  (** A [ChannelError::Close] / force close: the monitor signs and broadcasts its current holder
      commitment, the channel is gone. If the monitor has signed one before, its funding claim
      exists already and the second request for the same outpoint is dropped: nothing new is signed. *)
  Definition close (s : st) (evs : list ev) : st * list ev :=
    let gone (x : xstate) :=
      mkSt (holder_next s) (cp_next s) (awaiting_rr s) (disconnected s) (mon_in_progress s)
           (mp_raa s) (mp_cs s) (raa_first s) (cp_cur_point s) (cp_next_point s) true (hsk s) x in
    match mon_signed (ext s) with
    | Some _ => (gone (ext s), evs)
    | None =>
      (* [is_funding_broadcastable]: a batch-funded channel still WAITING_FOR_BATCH has no funding
         transaction on the wire, so nothing is signed or broadcast *)
      if chan_ready (hsk s) || negb (wfb (hsk s))
      then (gone (mkXs (stfu_sent (ext s)) (quiescent (ext s)) (Some (holder_next s + 1))),
            evs ++ [SignHolder (holder_next s + 1)])
      else (gone (ext s), evs)
    end.

  (** The monitor signs a holder commitment outside a close: the funding claim it already has
      (re-broadcast, fee bump, reload), or -- on request of the user through
      [ChannelMonitor::broadcast_latest_holder_commitment_txn], or for a closed channel whose claim
      was not queued yet -- its current one. *)
  Definition mon_sign (s : st) (fresh : bool) : st * list ev :=
    match mon_signed (ext s) with
    | Some k => (s, if fresh then [] else [SignHolder k])
    | None => if fresh || closed s
              then (set_mon_signed s (holder_next s + 1), [SignHolder (holder_next s + 1)])
              else (s, [])
    end.


  Definition set_mp_raa (s : st) (b : bool) : st :=
    mkSt (holder_next s) (cp_next s) (awaiting_rr s) (disconnected s) (mon_in_progress s)
         b (mp_cs s) (raa_first s) (cp_cur_point s) (cp_next_point s) (closed s) (hsk s) (ext s).
  Definition set_mp_cs (s : st) (b : bool) : st :=
    mkSt (holder_next s) (cp_next s) (awaiting_rr s) (disconnected s) (mon_in_progress s)
         (mp_raa s) b (raa_first s) (cp_cur_point s) (cp_next_point s) (closed s) (hsk s) (ext s).

  (** [channel_reestablish], the [required_revoke] decision; [None] = the final [else] that
      closes ("expecting a future local commitment transaction") *)
  Definition reest_revoke (s0 : st) (nr our : Z) : option (st * list ev) :=
    if nr =? our then Some (set_mp_raa s0 false, [])
    else if nr + 1 =? our then
      (if mon_in_progress s0 then Some (set_mp_raa s0 true, []) else Some (s0, last_raa s0))
    else None.

  (** [channel_reestablish], the decision on [next_local_commitment_number] *)
  Definition reest_commit (s1 : st) (raa_evs : list ev) (nl : Z) : st * list ev :=
    let next_cp := INITIAL - cp_next s1 + (if awaiting_rr s1 then 1 else 0) in
    if nl =? next_cp then (set_mp_cs s1 false, raa_evs)
    else if nl =? next_cp - 1 then
      (if mon_in_progress s1 then (set_mp_cs s1 true, raa_evs)
       else (s1, raa_evs ++ last_cs s1))
    else close s1 raa_evs.

  Definition set_hs (s : st) (h : hstate) : st :=
    mkSt (holder_next s) (cp_next s) (awaiting_rr s) (disconnected s) (mon_in_progress s)
         (mp_raa s) (mp_cs s) (raa_first s) (cp_cur_point s) (cp_next_point s) (closed s) h (ext s).

  Definition opt_point_eqb (a : option point) (b : point) : bool :=
    match a with Some x => point_eqb x b | None => false end.

  (** [FundedChannel::channel_ready] *)
  Definition recv_channel_ready (s : st) (p : point) : st * list ev :=
    let h := hsk s in
    if disconnected s then
      (* ChannelError::Ignore; the message is kept (workaround_lnd_bug_4006) and handled right
         after the next successful channel_reestablish *)
      (set_hs s (mkHs (chan_ready h) (our_ready h) (their_ready h) (wfb h) (sec1 h) (Some p)), [])
    else
      (* the [match &self.context.channel_state]: [inl] = check_reconnection, [inr h'] = carry on
         with the new flags *)
      let decision : bool * hstate :=
        if chan_ready h then (true, h)
        else
          (* [flags.clone().clear(WAITING_FOR_BATCH) == THEIR_CHANNEL_READY] *)
          if their_ready h && negb (our_ready h) then (true, h)
          (* [flags.clone().clear(WAITING_FOR_BATCH).is_empty()] *)
          else if negb (their_ready h) && negb (our_ready h)
          then (false, mkHs false false true (wfb h) (sec1 h) (pending_ready h))
          (* [flags == OUR_CHANNEL_READY] *)
          else if our_ready h && negb (their_ready h) && negb (wfb h)
          then (false, mkHs true false false false (sec1 h) (pending_ready h))
          else (false, h) in
      if fst decision then
        let expected :=
          if cp_next s =? INITIAL - 1 then cp_next_point s
          else if cp_next s =? INITIAL - 2 then cp_cur_point s
          else match sec1 h with Some sc => Some (pub sc) | None => None end in
        if opt_point_eqb expected p then (s, []) else close s []
      else
        (mkSt (holder_next s) (cp_next s) (awaiting_rr s) (disconnected s) (mon_in_progress s)
              (mp_raa s) (mp_cs s) (raa_first s) (cp_next_point s) (Some p) (closed s) (snd decision) (ext s),
         [Announce (cp_next s) p]).

  (** [FundedChannel::channel_reestablish] *)
  Definition reest_core (s : st) (nl nr : Z) (sec : sec_class) : st * list ev :=
    let secret_ok := match sec with SecMatch => true | _ => false end in
    (* the two numbers are u64 on the wire *)
    if (nl <? 0) || (nr <? 0) then (s, [])
    else if negb (disconnected s) then close s []
    else if (nl =? 0) || (INITIAL <=? nl) || (INITIAL <=? nr) then close s []
    else if (0 <? nr) && match sec with SecGarbage => true | _ => false end then close s []
    else
      let our := INITIAL - (holder_next s + 1) in
      (* "we have fallen behind": with a valid proof the node panics (and must not
         broadcast); with an invalid one it closes. *)
      if (0 <? nr) && (our <? nr) then
        (if secret_ok
         then (mkSt (holder_next s) (cp_next s) (awaiting_rr s) (disconnected s)
                    (mon_in_progress s) (mp_raa s) (mp_cs s) (raa_first s)
                    (cp_cur_point s) (cp_next_point s) true (hsk s) (ext s), [])
         else close s [])
      else if (0 <? nr) && ((nr =? our) || (nr + 1 =? our)) && negb secret_ok then close s []
      else if nr + 1 <? our then (s, [])   (* ChannelError::Warn *)
      else
        (* clear_peer_disconnected *)
        let s0 := mkSt (holder_next s) (cp_next s) (awaiting_rr s) false (mon_in_progress s)
                       (mp_raa s) (mp_cs s) (raa_first s) (cp_cur_point s) (cp_next_point s)
                       (closed s) (hsk s) (ext s) in
        if negb (chan_ready (hsk s)) then
          (* AwaitingChannelReady: nothing to retransmit but (possibly) our channel_ready *)
          (if (negb (our_ready (hsk s)) || mon_in_progress s) && negb (nr =? 0) then close s0 [] else (s0, []))
        else
        match reest_revoke s0 nr our with
        | None => close s0 []
        | Some (s1, raa_evs) => reest_commit s1 raa_evs nl
        end.

  (** [ChannelManager::internal_channel_reestablish]: after a successful reestablish, a channel_ready
      kept by the lnd workaround is handled ([need_lnd_workaround]). *)
  Definition reest_with_replay (s : st) (nl nr : Z) (sec : sec_class) : st * list ev :=
    let '(s1, evs) := reest_core s nl nr sec in
    if closed s1 || disconnected s1 then (s1, evs)
    else
      match pending_ready (hsk s1) with
      | None => (s1, evs)
      | Some p =>
          let h := hsk s1 in
          let '(s2, evs2) := recv_channel_ready
                               (set_hs s1 (mkHs (chan_ready h) (our_ready h) (their_ready h) (wfb h) (sec1 h) None)) p in
          (s2, evs ++ evs2)
      end.

  Definition step (s : st) (o : op) : st * list ev :=
    if closed s then
      match o with
      | OResign => mon_sign s false
      | OMonBroadcast => mon_sign s true
      | _ => (s, [])
      end
    else
    match o with
    | OCommit sync =>
        if can_generate_new_commitment s
        then maybe_restore sync (upd_mon (build_commitment s) false true) []
        else (s, [])
    | ORecvCS sig_ok nsig nnd htlc_sigs_ok need_cs sync =>
        (* commitment_signed_check_state: quiescent => ChannelError::WarnAndDisconnect *)
        if quiescent (ext s) then (s, [])
        else if negb (chan_ready (hsk s)) then close s []
        else if disconnected s then close s []
        (* validate_commitment_signed: commitment signature, then
           [msg.htlc_signatures.len() != nondust_htlcs().len()], then each HTLC signature *)
        else if negb sig_ok then close s []
        else if negb (nsig =? nnd) then close s []
        else if negb htlc_sigs_ok then close s []
        else
          let evs := [ValidateHolder (holder_next s) nsig nnd] in
          (* commitment_signed_update_monitor: advance; resend_order := CommitmentFirst *)
          let s1 := mkSt (holder_next s - 1) (cp_next s) (awaiting_rr s) (disconnected s)
                         (mon_in_progress s) (mp_raa s) (mp_cs s) false
                         (cp_cur_point s) (cp_next_point s) (closed s) (hsk s) (ext s) in
          let commit := need_cs && negb (awaiting_rr s1) in
          let s2 := if commit then build_commitment s1 else s1 in
          maybe_restore sync (upd_mon s2 true commit) evs
    | ORecvRAA sec next_point chain_ok commit sync =>
        (* quiescent => ChannelError::WarnAndDisconnect *)
        if quiescent (ext s) then (s, [])
        else if negb (chan_ready (hsk s)) then close s []
        else if disconnected s then close s []
        else if match cp_cur_point s with
                | Some p => negb (point_eqb (pub sec) p)
                | None => false
                end then close s []
        (* "Received an unexpected revoke_and_ack": a function of AWAITING_REMOTE_REVOKE alone *)
        else if negb (awaiting_rr s) then close s []
        else
          let evs := [ValidateRevocation (cp_next s + 1)] in
          if negb chain_ok then close s evs
          else
            let evs := evs ++ [StoreSecret (cp_next s + 1) sec; Announce (cp_next s - 1) next_point] in
            let s1 := mkSt (holder_next s) (cp_next s - 1) false (disconnected s)
                           (mon_in_progress s) (mp_raa s) (mp_cs s) (raa_first s)
                           (cp_next_point s) (Some next_point) (closed s)
                           (if cp_next s + 1 =? INITIAL - 1
                            then mkHs (chan_ready (hsk s)) (our_ready (hsk s)) (their_ready (hsk s)) (wfb (hsk s)) (Some sec) (pending_ready (hsk s))
                            else hsk s) (ext s) in
            let s2 := if commit then build_commitment s1 else s1 in
            maybe_restore sync (upd_mon s2 false commit) evs
    | OMonUpdate sync => maybe_restore sync (upd_mon s false false) []
    | OMonitorDone =>
        if mon_in_progress s && negb (mon_locked s) then restore s else (s, [])
    | ORecvChannelReady p => recv_channel_ready s p
    | OOurChannelReady =>
        let h := hsk s in
        if chan_ready h then (s, [])
        else if negb (our_ready h) && negb (their_ready h) && negb (wfb h)
        then (set_hs s (mkHs false true false false (sec1 h) (pending_ready h)), [])       (* set_our_channel_ready *)
        else if negb (our_ready h) && their_ready h && negb (wfb h)
        then (set_hs s (mkHs true false false false (sec1 h) (pending_ready h)), [])       (* -> ChannelReady *)
        else (s, [])
    | OBatchReady =>
        let h := hsk s in
        (set_hs s (mkHs (chan_ready h) (our_ready h) (their_ready h) false (sec1 h) (pending_ready h)), [])
    | ODisconnect =>
        (* quiescence is implicitly terminated by a disconnection *)
        (mkSt (holder_next s) (cp_next s) (awaiting_rr s) true (mon_in_progress s)
              (mp_raa s) (mp_cs s) (raa_first s) (cp_cur_point s) (cp_next_point s) (closed s) (hsk s)
              (mkXs false false (mon_signed (ext s))), [])
    | OReload =>
        let h := hsk s in
        (mkSt (holder_next s) (cp_next s) (awaiting_rr s) true (mon_in_progress s)
              (mp_raa s) (mp_cs s) (raa_first s) (cp_cur_point s) (cp_next_point s) (closed s)
              (mkHs (chan_ready h) (our_ready h) (their_ready h) (wfb h) (sec1 h) None)
              (mkXs false false (mon_signed (ext s))), [])
    | ORecvReest nl nr sec => reest_with_replay s nl nr sec
    | OForceClose => close s []
    | OChainClose =>
        (mkSt (holder_next s) (cp_next s) (awaiting_rr s) (disconnected s) (mon_in_progress s)
              (mp_raa s) (mp_cs s) (raa_first s) (cp_cur_point s) (cp_next_point s) true (hsk s) (ext s), [])
    | OResign => mon_sign s false
    | OMonBroadcast => mon_sign s true
    | OProcessEvents =>
        (* the monitor's HolderForceClosed event reaches the ChannelManager: the channel is closed
           without another broadcast *)
        if mon_locked s
        then (mkSt (holder_next s) (cp_next s) (awaiting_rr s) (disconnected s) (mon_in_progress s)
                   (mp_raa s) (mp_cs s) (raa_first s) (cp_cur_point s) (cp_next_point s) true (hsk s) (ext s), [])
        else (s, [])
    | OStfuSent =>
        if chan_ready (hsk s) then (set_stfu s true (quiescent (ext s)), []) else (s, [])
    | OQuiescent =>
        if chan_ready (hsk s) then (set_stfu s false true, []) else (s, [])
    | OExitQuiescence => (set_stfu s (stfu_sent (ext s)) false, [])
    end.

  (** Run from a state, collecting the chronological log. *)
  Fixpoint run (s : st) (log : list ev) (ops : list op) : st * list ev :=
    match ops with
    | [] => (s, log)
    | o :: rest => let '(s', evs) := step s o in run s' (log ++ evs) rest
    end.

  (** The [channel_reestablish] this node sends: (next_local_commitment_number,
      next_remote_commitment_number). *)
  Definition reest_msg (s : st) : Z * Z :=
    (INITIAL - holder_next s, INITIAL - cp_next s - 1).

  (** * The property as an executable checker over a log

      [chk] is the policy "revoked state is never used, state is never revoked early" as an
      automaton over observable events; it is what the C05 text says, and it is also what the
      check evaluates on the signer log recorded from the real implementation. [None] =
      violation. The theorems in Props/C05.v say (a) every log the machine can produce, under
      every operation list, is accepted, and (b) what acceptance means in plain terms. *)
  Record pol : Type := mkPol {
    p_vh : Z;      (* number of the latest validated (fully signed) holder commitment *)
    p_rv : Z;      (* latest counterparty number whose revocation was validated; INITIAL+1 = none *)
    p_st : Z;      (* latest counterparty number whose secret was stored; INITIAL+1 = none *)
    p_ann : list (Z * point);  (* points announced by the peer, by commitment number *)
    p_rel : Z;     (* the holder number whose secret was released last (they only go down);
                      INITIAL+1 = none *)
    p_sh : option Z  (* the highest (= oldest) holder number ever signed for broadcast *)
  }.
  Definition pol_init : pol := mkPol INITIAL (INITIAL + 1) (INITIAL + 1) [] (INITIAL + 1) None.

  Definition announced (a : list (Z * point)) (k : Z) (p : point) : bool :=
    existsb (fun kp : Z * point => (fst kp =? k) && point_eqb (snd kp) p) a.

  Definition sh_max (o : option Z) (k : Z) : option Z :=
    match o with None => Some k | Some m => Some (Z.max m k) end.
  Definition sh_below (o : option Z) (k : Z) : bool :=
    match o with None => true | Some m => m <? k end.

  Definition chk (g : pol) (e : ev) : option pol :=
    match e with
    | SignHolder k =>
        (* only a validated commitment whose secret was not released: every released number is
           at least [p_rel] *)
        if (p_vh g <=? k) && (k <? p_rel g)
        then Some (mkPol (p_vh g) (p_rv g) (p_st g) (p_ann g) (p_rel g) (sh_max (p_sh g) k)) else None
    | ValidateHolder k nsig nnd =>
        (* holder numbers step by exactly one, and the commitment is FULLY signed: one counterparty
           HTLC signature per non-dust HTLC *)
        if (k =? p_vh g - 1) && (nsig =? nnd)
        then Some (mkPol k (p_rv g) (p_st g) (p_ann g) (p_rel g) (p_sh g)) else None
    | Release k =>
        (* exactly the predecessor of the latest validated commitment, hence only after a
           newer fully signed one is held; never the initial one without a successor; and NEVER
           a number that was signed for broadcast (nor a newer one) *)
        if (k =? p_vh g + 1) && (k <=? INITIAL) && sh_below (p_sh g) k
        then Some (mkPol (p_vh g) (p_rv g) (p_st g) (p_ann g) k (p_sh g)) else None
    | SignCounterparty k =>
        (* exactly the number two below the latest stored revocation: the only other unrevoked
           counterparty commitment is k+1 *)
        if k =? p_st g - 2 then Some g else None
    | ValidateRevocation k =>
        (* counterparty revocations step by exactly one, each stored before the next *)
        if (k =? p_rv g - 1) && (p_st g =? p_rv g)
        then Some (mkPol (p_vh g) k (p_st g) (p_ann g) (p_rel g) (p_sh g)) else None
    | StoreSecret k s =>
        (* stored only after validation, only if its point is the one announced for [k] *)
        if (k =? p_rv g) && (p_st g =? k + 1) && announced (p_ann g) k (pub s)
        then Some (mkPol (p_vh g) (p_rv g) k (p_ann g) (p_rel g) (p_sh g)) else None
    | Announce k p =>
        (* the point of a commitment number is announced once and never replaced *)
        if existsb (fun kp : Z * point => fst kp =? k) (p_ann g) then None
        else Some (mkPol (p_vh g) (p_rv g) (p_st g) ((k, p) :: p_ann g) (p_rel g) (p_sh g))
    end.

  Fixpoint chk_all (g : pol) (l : list ev) : option pol :=
    match l with
    | [] => Some g
    | e :: tl => match chk g e with Some g' => chk_all g' tl | None => None end
    end.
End Machine.

Arguments Release {secret point} k.
Arguments ValidateHolder {secret point} k nsig nnd.
Arguments SignCounterparty {secret point} k.
Arguments SignHolder {secret point} k.
Arguments ValidateRevocation {secret point} k.
Arguments StoreSecret {secret point} k s.
Arguments Announce {secret point} k p.
Arguments holder_next {secret point} s.
Arguments cp_next {secret point} s.
Arguments awaiting_rr {secret point} s.
Arguments disconnected {secret point} s.
Arguments mon_in_progress {secret point} s.
Arguments mp_raa {secret point} s.
Arguments mp_cs {secret point} s.
Arguments raa_first {secret point} s.
Arguments cp_cur_point {secret point} s.
Arguments cp_next_point {secret point} s.
Arguments closed {secret point} s.
Arguments hsk {secret point} s.
Arguments ext {secret point} s.
Arguments chan_ready {secret point} h.
Arguments our_ready {secret point} h.
Arguments their_ready {secret point} h.
Arguments wfb {secret point} h.
Arguments sec1 {secret point} h.
Arguments pending_ready {secret point} h.
Arguments p_vh {point} p.
Arguments p_rv {point} p.
Arguments p_st {point} p.
Arguments p_ann {point} p.
Arguments p_rel {point} p.
Arguments p_sh {point} p.
Arguments OCommit {secret point} sync.
Arguments ORecvCS {secret point} sig_ok nsig nnd htlc_sigs_ok need_cs sync.
Arguments ORecvRAA {secret point} s next_point chain_ok commit sync.
Arguments OMonUpdate {secret point} sync.
Arguments OMonitorDone {secret point}.
Arguments ORecvChannelReady {secret point} p.
Arguments OOurChannelReady {secret point}.
Arguments OBatchReady {secret point}.
Arguments ODisconnect {secret point}.
Arguments OReload {secret point}.
Arguments ORecvReest {secret point} next_local next_remote sec.
Arguments OForceClose {secret point}.
Arguments OChainClose {secret point}.
Arguments OResign {secret point}.
Arguments OMonBroadcast {secret point}.
Arguments OProcessEvents {secret point}.
Arguments OStfuSent {secret point}.
Arguments OQuiescent {secret point}.
Arguments OExitQuiescence {secret point}.
