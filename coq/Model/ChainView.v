(** C11: the chain-view bookkeeping of a [ChannelMonitor]
    (lightning/src/chain/channelmonitor.rs: [transactions_confirmed], [best_block_updated] incl. its
    reorg branch, [block_confirmed] maturation by [OnchainEventEntry::confirmation_threshold],
    [blocks_disconnected], [transaction_unconfirmed]) over an abstract chain.

    A transaction is abstracted to its id and the list of events the monitor derives from it when it
    confirms (which funding spend / HTLC resolution / maturing output it is -- that classification is
    C07's subject and is supplied as data here); an event is a tag and the number [delta] of
    confirmations it needs: [delta = ANTI_REORG_DELAY], or the CSV delay if larger, so that
    [confirmation_threshold = height + delta - 1] (lemma [threshold_is_delta] in Proofs/C11.v relates
    this to the rs2v-generated [confirmation_threshold]). No proofs in this file. *)
Require Import LdkV.Prim.U64 LdkV.Gen.Consts.
Open Scope Z_scope.

Record tx := mkTx { t_id : Z; t_evs : list (Z * Z) }.           (* (tag, delta) *)
Record blk := mkBlk { b_hash : Z; b_height : Z; b_txs : list tx }.

(** [OnchainEventEntry] *)
Record entry := mkEntry { e_txid : Z; e_height : Z; e_hash : Z; e_tag : Z; e_delta : Z }.
Definition threshold (e : entry) : Z := e_height e + e_delta e - 1.

(** an irreversible conclusion: which transaction and event, where the transaction had confirmed, and
    the best height at which the conclusion was drawn *)
Record emission := mkEm { m_txid : Z; m_tag : Z; m_conf : Z; m_at : Z }.

Record state := mkSt {
  best_h : Z; best_hash : Z;
  awaiting : list entry;      (* onchain_events_awaiting_threshold_conf *)
  done_txids : list Z;        (* funding_spend_confirmed / htlcs_resolved_on_chain.resolving_txid /
                                 spendable_txids_confirmed *)
  emitted : list emission     (* MonitorEvents / SpendableOutputs / resolved HTLCs: never retracted *)
}.

Inductive op :=
| TC (b : blk) (txs : list tx)   (* Confirm::transactions_confirmed(header of b, txs, height of b) *)
| BB (b : blk)                   (* Confirm::best_block_updated(header of b, height of b) *)
| BD (fork_point : blk)          (* Listen::blocks_disconnected(fork point) *)
| TU (txid : Z)                  (* Confirm::transaction_unconfirmed *)
| AU (dep : Z) (tag : Z).        (* ChannelMonitor::update_monitor with a counterparty-commitment update that
                                    arrives when transaction [dep] (the funding spend) is already confirmed:
                                    [fail_htlcs_from_update_after_funding_spend]. An update applied BEFORE
                                    [dep] confirms is not an operation here: it shows in the events [dep]
                                    yields when it confirms ([fail_unbroadcast_htlcs]). *)

(** Listen::block_connected = transactions_confirmed with the whole block *)
Definition BC (b : blk) : op := TC b (b_txs b).

Definition entries_of (b : blk) (t : tx) : list entry :=
  map (fun ev => mkEntry (t_id t) (b_height b) (b_hash b) (fst ev) (snd ev)) (t_evs t).

Definition known_tx (st : state) (id : Z) : bool :=
  existsb (fun e => e_txid e =? id) (awaiting st) || existsb (Z.eqb id) (done_txids st).

(** the ['tx_iter] loop: a transaction already recorded is skipped *)
Fixpoint add_txs (st : state) (b : blk) (txs : list tx) : state :=
  match txs with
  | [] => st
  | t :: r =>
      let st' := if known_tx st (t_id t) then st
                 else mkSt (best_h st) (best_hash st) (awaiting st ++ entries_of b t) (done_txids st) (emitted st) in
      add_txs st' b r
  end.

(** [block_confirmed]: entries whose threshold the best height has reached act *)
Definition block_confirmed (st : state) : state :=
  let reached := filter (fun e => threshold e <=? best_h st) (awaiting st) in
  let waiting := filter (fun e => negb (threshold e <=? best_h st)) (awaiting st) in
  mkSt (best_h st) (best_hash st) waiting
       (done_txids st ++ map e_txid reached)
       (emitted st ++ map (fun e => mkEm (e_txid e) (e_tag e) (e_height e) (best_h st)) reached).

Definition step (st : state) (o : op) : state :=
  match o with
  | TC b txs =>
      let st1 := add_txs st b txs in
      let st2 := if best_h st1 <? b_height b
                 then mkSt (b_height b) (b_hash b) (awaiting st1) (done_txids st1) (emitted st1) else st1 in
      block_confirmed st2
  | BB b =>
      if best_h st <? b_height b then
        block_confirmed (mkSt (b_height b) (b_hash b) (awaiting st) (done_txids st) (emitted st))
      else if negb (b_hash b =? best_hash st) then
        (* "Best block re-orged": drop what was confirmed above the new height *)
        mkSt (b_height b) (b_hash b) (filter (fun e => e_height e <=? b_height b) (awaiting st))
             (done_txids st) (emitted st)
      else st
  | BD f =>
      mkSt (b_height f) (b_hash f) (filter (fun e => e_height e <=? b_height f) (awaiting st))
           (done_txids st) (emitted st)
  | TU id =>
      match find (fun e => e_txid e =? id) (awaiting st) with
      | Some e0 =>
          mkSt (best_h st) (best_hash st) (filter (fun e => e_height e <? e_height e0) (awaiting st))
               (done_txids st) (emitted st)
      | None => st
      end
  | AU dep tag =>
      match find (fun e => e_txid e =? dep) (awaiting st) with
      | Some e0 =>
          (* the spend still awaits its threshold: queue the consequence as an entry of THAT transaction --
             its txid, its height, its block --, so that whatever retracts the spend retracts it too.
             (The real monitor matures such an entry at the next [block_confirmed]; the model does it at
             once, which is unobservable at [get_relevant_txids] and at any later block.) *)
          block_confirmed
            (mkSt (best_h st) (best_hash st)
               (awaiting st ++ [mkEntry dep (e_height e0) (e_hash e0) tag ANTI_REORG_DELAY])
               (done_txids st) (emitted st))
      | None =>
          match find (fun m => m_txid m =? dep) (emitted st) with
          | Some m0 =>
              (* the spend is irreversibly confirmed: conclude at once, on the strength of that burial *)
              mkSt (best_h st) (best_hash st) (awaiting st) (done_txids st)
                   (emitted st ++ [mkEm dep tag (m_conf m0) (m_at m0)])
          | None => st
          end
      end
  end.

Definition run (st : state) (ops : list op) : state := fold_left step ops st.

(** [transactions_confirmed] panics ("a reorg should have been processed first") when a transaction it
    still has an entry for is confirmed again in a different block; [blocks_disconnected] asserts that
    the fork point is below the best height *)
Definition op_safe (st : state) (o : op) : bool :=
  match o with
  | TC b txs =>
      forallb (fun t => forallb (fun e => negb (e_txid e =? t_id t) || (e_hash e =? b_hash b)) (awaiting st)) txs
  | BD f => b_height f <? best_h st
  | _ => true
  end.

(** [Confirm::get_relevant_txids] (monitor part) *)
Definition relevant_txids (st : state) : list (Z * Z * Z) :=
  map (fun e => (e_txid e, e_height e, e_hash e)) (awaiting st).
