(** C11: the chain-view bookkeeping of a [ChannelMonitor]
    (lightning/src/chain/channelmonitor.rs: [transactions_confirmed], [best_block_updated] incl. its
    reorg branch, [block_confirmed] maturation by [OnchainEventEntry::confirmation_threshold],
    [blocks_disconnected], [transaction_unconfirmed]) over an abstract chain.

    A transaction is abstracted to its id and the list of events the monitor derives from it when it
    confirms (which funding spend / HTLC resolution / maturing output it is -- that classification is
    C07's subject and is supplied as data here); an event is a tag and the number [delta] of
    confirmations it needs: [delta = ANTI_REORG_DELAY], or the CSV delay if larger, so that
    [confirmation_threshold = height + delta - 1] (lemma [threshold_is_delta] in Proofs/C11.v relates
    this to the rs2v-generated [confirmation_threshold]). No proofs in this file. *)
Require Import LdkV.Prim.U64 LdkV.Gen.Consts.
Open Scope Z_scope.

Record tx := mkTx { t_id : Z; t_evs : list (Z * Z) }.           (* (tag, delta) *)
Record blk := mkBlk { b_hash : Z; b_height : Z; b_txs : list tx }.

(** [OnchainEventEntry] *)
Record entry := mkEntry { e_txid : Z; e_height : Z; e_hash : Z; e_tag : Z; e_delta : Z }.
Definition threshold (e : entry) : Z := e_height e + e_delta e - 1.

(** an irreversible conclusion: which transaction and event, where the transaction had confirmed, and
    the best height at which the conclusion was drawn *)
Record emission := mkEm { m_txid : Z; m_tag : Z; m_conf : Z; m_at : Z }.

Record state := mkSt {
  best_h : Z; best_hash : Z;
  awaiting : list entry;      (* onchain_events_awaiting_threshold_conf *)
  done_txids : list Z;        (* funding_spend_confirmed / htlcs_resolved_on_chain.resolving_txid /
                                 spendable_txids_confirmed *)
  emitted : list emission     (* MonitorEvents / SpendableOutputs / resolved HTLCs: never retracted *)
}.

Inductive op :=
| TC (b : blk) (txs : list tx)   (* Confirm::transactions_confirmed(header of b, txs, height of b) *)
| BB (b : blk)                   (* Confirm::best_block_updated(header of b, height of b) *)
| BD (fork_point : blk)          (* Listen::blocks_disconnected(fork point) *)
| TU (txid : Z)                  (* Confirm::transaction_unconfirmed *)
| RL                             (* the monitor is serialized and read back (a restart) *)
| AU (dep : Z) (tag : Z).        (* ChannelMonitor::update_monitor with a counterparty-commitment update that
                                    arrives when transaction [dep] (the funding spend) is already confirmed:
                                    [fail_htlcs_from_update_after_funding_spend]. An update applied BEFORE
                                    [dep] confirms is not an operation here: it shows in the events [dep]
                                    yields when it confirms ([fail_unbroadcast_htlcs]). *)

(** Listen::block_connected = transactions_confirmed with the whole block *)
Definition BC (b : blk) : op := TC b (b_txs b).

Definition entries_of (b : blk) (t : tx) : list entry :=
  map (fun ev => mkEntry (t_id t) (b_height b) (b_hash b) (fst ev) (snd ev)) (t_evs t).

Definition known_tx (st : state) (id : Z) : bool :=
  existsb (fun e => e_txid e =? id) (awaiting st) || existsb (Z.eqb id) (done_txids st).

(** the ['tx_iter] loop: a transaction already recorded is skipped *)
Fixpoint add_txs (st : state) (b : blk) (txs : list tx) : state :=
  match txs with
  | [] => st
  | t :: r =>
      let st' := if known_tx st (t_id t) then st
                 else mkSt (best_h st) (best_hash st) (awaiting st ++ entries_of b t) (done_txids st) (emitted st) in
      add_txs st' b r
  end.

(** [block_confirmed]: entries whose threshold the best height has reached act *)
Definition block_confirmed (st : state) : state :=
  let reached := filter (fun e => threshold e <=? best_h st) (awaiting st) in
  let waiting := filter (fun e => negb (threshold e <=? best_h st)) (awaiting st) in
  mkSt (best_h st) (best_hash st) waiting
       (done_txids st ++ map e_txid reached)
       (emitted st ++ map (fun e => mkEm (e_txid e) (e_tag e) (e_height e) (best_h st)) reached).

Definition step (st : state) (o : op) : state :=
  match o with
  | TC b txs =>
      let st1 := add_txs st b txs in
      let st2 := if best_h st1 <? b_height b
                 then mkSt (b_height b) (b_hash b) (awaiting st1) (done_txids st1) (emitted st1) else st1 in
      block_confirmed st2
  | BB b =>
      if best_h st <? b_height b then
        block_confirmed (mkSt (b_height b) (b_hash b) (awaiting st) (done_txids st) (emitted st))
      else if negb (b_hash b =? best_hash st) then
        (* "Best block re-orged": drop what was confirmed above the new height *)
        mkSt (b_height b) (b_hash b) (filter (fun e => e_height e <=? b_height b) (awaiting st))
             (done_txids st) (emitted st)
      else st
  | BD f =>
      (* the fork point is the last block KEPT: [retain(|entry| entry.height <= new_height)] *)
      mkSt (b_height f) (b_hash f) (filter (fun e => e_height e <=? b_height f) (awaiting st))
           (done_txids st) (emitted st)
  | RL => st                     (* everything modelled here is part of the serialization *)
  | TU id =>
      match find (fun e => e_txid e =? id) (awaiting st) with
      | Some e0 =>
          mkSt (best_h st) (best_hash st) (filter (fun e => e_height e <? e_height e0) (awaiting st))
               (done_txids st) (emitted st)
      | None => st
      end
  | AU dep tag =>
      match find (fun e => e_txid e =? dep) (awaiting st) with
      | Some e0 =>
          (* the spend still awaits its threshold: queue the consequence as an entry of THAT transaction --
             its txid, its height, its block --, so that whatever retracts the spend retracts it too.
             (The real monitor matures such an entry at the next [block_confirmed]; the model does it at
             once, which is unobservable at [get_relevant_txids] and at any later block.) *)
          block_confirmed
            (mkSt (best_h st) (best_hash st)
               (awaiting st ++ [mkEntry dep (e_height e0) (e_hash e0) tag ANTI_REORG_DELAY])
               (done_txids st) (emitted st))
      | None =>
          match find (fun m => m_txid m =? dep) (emitted st) with
          | Some m0 =>
              (* the spend is irreversibly confirmed: conclude at once, on the strength of that burial *)
              mkSt (best_h st) (best_hash st) (awaiting st) (done_txids st)
                   (emitted st ++ [mkEm dep tag (m_conf m0) (m_at m0)])
          | None => st
          end
      end
  end.

Definition run (st : state) (ops : list op) : state := fold_left step ops st.

(** [transactions_confirmed] panics ("a reorg should have been processed first") when a transaction it
    still has an entry for is confirmed again in a different block; [blocks_disconnected] asserts that
    the fork point is below the best height *)
Definition op_safe (st : state) (o : op) : bool :=
  match o with
  | TC b txs =>
      forallb (fun t => forallb (fun e => negb (e_txid e =? t_id t) || (e_hash e =? b_hash b)) (awaiting st)) txs
  | BD f => b_height f <? best_h st
  | _ => true
  end.

(** [Confirm::get_relevant_txids] (monitor part) *)
Definition relevant_txids (st : state) : list (Z * Z * Z) :=
  map (fun e => (e_txid e, e_height e, e_hash e)) (awaiting st).

(** ** The confirmed, not yet locked alternative funding (a splice or RBF transaction)

    [alternative_funding_confirmed : Option<(Txid, u32)>] is kept NEXT TO the awaiting list and is retracted
    by its own comparisons: [blocks_disconnected] takes it away iff [conf_height > new_height] (recorded
    at the fork point's height or below: kept), [transaction_unconfirmed] iff the txid is the recorded
    one; the reorg branch of [best_block_updated] does not look at it. [pending] are the txids of the
    [pending_funding] scopes. *)
Record xstate := mkX { core : state; alt : option (Z * Z) }.

Definition alt_of_txs (pending : list Z) (b : blk) (txs : list tx) (a : option (Z * Z)) : option (Z * Z) :=
  match a with
  | Some _ => a
  | None =>
      match find (fun t => existsb (Z.eqb (t_id t)) pending) txs with
      | Some t => Some (t_id t, b_height b)
      | None => None
      end
  end.

Definition xstep (pending : list Z) (x : xstate) (o : op) : xstate :=
  mkX (step (core x) o)
      match o with
      | TC b txs => alt_of_txs pending b txs (alt x)
      | BD f => match alt x with
                | Some (t, h) => if b_height f <? h then None else Some (t, h)
                | None => None
                end
      | TU id => match alt x with
                 | Some (t, h) => if t =? id then None else Some (t, h)
                 | None => None
                 end
      | BB _ | RL | AU _ _ => alt x
      end.

Definition xrun (pending : list Z) (x : xstate) (ops : list op) : xstate := fold_left (xstep pending) ops x.

(** ** Which transactions of one call the monitor looks at ([ChannelMonitorImpl::filter_block])

    A transaction is kept iff one of its inputs spends a watched outpoint, or ANY of its inputs -- at any
    position -- spends an output of a transaction kept earlier in the same call ([matched_txn], by
    txid). [f_watch]: the outputs of the transaction the monitor registers in [outputs_to_watch] once
    it has processed it. *)
Record ftx := mkF { f_id : Z; f_ins : list (Z * Z); f_watch : list Z }.

Definition spends_watched (w : list (Z * Z)) (t : ftx) : bool :=
  existsb (fun i => existsb (fun o => (fst o =? fst i) && (snd o =? snd i)) w) (f_ins t).
Definition spends_matched (m : list Z) (t : ftx) : bool :=
  existsb (fun i => existsb (Z.eqb (fst i)) m) (f_ins t).

Fixpoint filter_block (w : list (Z * Z)) (m : list Z) (txs : list ftx) : list ftx :=
  match txs with
  | [] => []
  | t :: r =>
      if spends_watched w t || spends_matched m t then t :: filter_block w (f_id t :: m) r
      else filter_block w m r
  end.

(** the same transactions handed over one call each ([Confirm::transactions_confirmed] per transaction):
    only watched outpoints count, and what is watched grows with every transaction processed *)
Fixpoint per_tx (w : list (Z * Z)) (txs : list ftx) : list ftx :=
  match txs with
  | [] => []
  | t :: r =>
      if spends_watched w t then t :: per_tx (w ++ map (fun v => (f_id t, v)) (f_watch t)) r
      else per_tx w r
  end.

(** positions (from 0) of the kept transactions, as the hook [verif_filter_block] reports them *)
Fixpoint filter_positions (w : list (Z * Z)) (m : list Z) (pos : Z) (txs : list ftx) : list Z :=
  match txs with
  | [] => []
  | t :: r =>
      if spends_watched w t || spends_matched m t then pos :: filter_positions w (f_id t :: m) (pos + 1) r
      else filter_positions w m (pos + 1) r
  end.
