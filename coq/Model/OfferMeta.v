(** Model of the stateless metadata of BOLT 12 messages ([lightning/src/offers/signer.rs]):
    derivation ([MetadataMaterial::derive_metadata], [derive_metadata_and_keys]) and verification
    ([verify_recipient_metadata], [verify_payer_metadata], [verify_metadata], [hmac_for_message]),
    together with the record selection of [Offer::verify] ([offers/offer.rs]) and
    [InvoiceContents::payer_tlv_stream] ([offers/invoice.rs]).

    HMAC-SHA256 under the expanded key's [offers_base_key] and the secp256k1 map from a secret key
    to its public key are [Section] variables.  No proofs in this file. *)
Require Import LdkV.Prim.U64 LdkV.Model.Bolt12Merkle.
Open Scope Z_scope.

Definition NONCE_LEN : nat := 16.
Definition PAYMENT_ID_LEN : nat := 32.
Definition HMAC_LEN : nat := 32.

(** HMAC domain separators ([signer.rs]) *)
Definition DERIVED_METADATA_HMAC_INPUT : bytes := repeat 1 16.
Definition DERIVED_METADATA_AND_KEYS_HMAC_INPUT : bytes := repeat 2 16.
Definition WITHOUT_ENCRYPTED_PAYMENT_ID_HMAC_INPUT : bytes := repeat 3 16.
Definition WITH_ENCRYPTED_PAYMENT_ID_HMAC_INPUT : bytes := repeat 4 16.

(** IV bytes *)
Definition IV_OFFER_WITH_METADATA : bytes := [76;68;75;32;79;102;102;101;114;32;126;126;126;126;126;126].     (* "LDK Offer ~~~~~~" *)
Definition IV_OFFER_WITHOUT_METADATA : bytes := [76;68;75;32;79;102;102;101;114;32;118;50;126;126;126;126].  (* "LDK Offer v2~~~~" *)
Definition IV_INVREQ : bytes := [76;68;75;32;73;110;118;114;101;113;32;126;126;126;126;126].                  (* "LDK Invreq ~~~~~" *)
Definition IV_REFUND_WITH_METADATA : bytes := [76;68;75;32;82;101;102;117;110;100;32;126;126;126;126;126].    (* "LDK Refund ~~~~~" *)
Definition IV_REFUND_WITHOUT_METADATA : bytes := [76;68;75;32;82;101;102;117;110;100;32;118;50;126;126;126]. (* "LDK Refund v2~~~" *)

Fixpoint bytes_eqb (a b : bytes) : bool :=
  match a, b with
  | [], [] => true
  | x :: a', y :: b' => (x =? y) && bytes_eqb a' b'
  | _, _ => false
  end.

(** ** Record selection *)

Fixpoint drop_while {A} (p : A -> bool) (l : list A) : list A :=
  match l with [] => [] | x :: r => if p x then drop_while p r else l end.
Fixpoint take_while {A} (p : A -> bool) (l : list A) : list A :=
  match l with [] => [] | x :: r => if p x then x :: take_while p r else [] end.

(** [TlvStream::range(lo..hi)]: skip_while(not in range) . take_while(in range) *)
Definition in_range (lo hi : Z) (r : bytes) : bool := (lo <=? ty_of r) && (ty_of r <? hi).
Definition tlv_range (lo hi : Z) (rs : list bytes) : list bytes :=
  take_while (in_range lo hi) (drop_while (fun r => negb (in_range lo hi r)) rs).

(** [Offer::verify]: offer records without the metadata (4) and, when the keys are derived from
    the metadata, without the issuer id (22); then the experimental offer records. *)
Definition offer_records_for_metadata (derives_keys : bool) (rs : list bytes) : list bytes :=
  filter (fun r => negb (ty_of r =? 4) && negb ((ty_of r =? 22) && derives_keys)) (tlv_range 1 80 rs)
  ++ tlv_range 1000000000 2000000000 rs.

(** [InvoiceContents::payer_tlv_stream]: offer records, invoice-request records without the payer
    metadata (0 is outside 80..160 anyway) and, when the payer keys are derived, without the payer
    id (88); then the experimental offer and invoice-request records. *)
Definition payer_records_for_metadata (exclude_payer_id : bool) (rs : list bytes) : list bytes :=
  tlv_range 1 80 rs
  ++ filter (fun r => negb (ty_of r =? 0) && negb ((ty_of r =? 88) && exclude_payer_id)) (tlv_range 80 160 rs)
  ++ tlv_range 1000000000 3000000000 rs.

Section Metadata.
  Variable hmac : bytes -> bytes -> bytes.      (* key, message *)
  Variable pk_of_sk : bytes -> bytes.            (* secp256k1: public key of a secret key *)

  (** ** Verification *)

  (** [hmac_for_message]: the HMAC input up to the derivation marker; [None] = [Err(())]. *)
  Definition hmac_input (metadata iv : bytes) (records : list bytes) : option bytes :=
    if (List.length metadata <? NONCE_LEN)%nat then None
    else Some (iv ++ firstn NONCE_LEN metadata ++ List.concat records
               ++ (if (List.length metadata =? NONCE_LEN)%nat
                   then DERIVED_METADATA_AND_KEYS_HMAC_INPUT else DERIVED_METADATA_HMAC_INPUT)).

  Inductive verdict := VErr | VOkMetadata | VOkDerivedKeys (sk : bytes).

  (** [verify_metadata] *)
  Definition verify_metadata (metadata mac signing_pubkey : bytes) : verdict :=
    if (List.length metadata =? NONCE_LEN)%nat then
      (if bytes_eqb signing_pubkey (pk_of_sk mac) then VOkDerivedKeys mac else VErr)
    else
      (if (List.length metadata =? NONCE_LEN + HMAC_LEN)%nat && bytes_eqb (skipn NONCE_LEN metadata) mac
       then VOkMetadata else VErr).

  (** [verify_recipient_metadata] *)
  Definition verify_recipient_metadata (key metadata iv signing_pubkey : bytes) (records : list bytes) : verdict :=
    match hmac_input metadata iv records with
    | None => VErr
    | Some inp => verify_metadata metadata (hmac key (inp ++ WITHOUT_ENCRYPTED_PAYMENT_ID_HMAC_INPUT)) signing_pubkey
    end.

  (** [verify_payer_metadata_inner] *)
  Definition verify_payer_metadata (key metadata iv signing_pubkey : bytes) (records : list bytes) : verdict :=
    if (List.length metadata <? PAYMENT_ID_LEN)%nat then VErr else
    let enc := firstn PAYMENT_ID_LEN metadata in
    let rest := skipn PAYMENT_ID_LEN metadata in
    match hmac_input rest iv records with
    | None => VErr
    | Some inp => verify_metadata rest (hmac key (inp ++ WITH_ENCRYPTED_PAYMENT_ID_HMAC_INPUT ++ enc)) signing_pubkey
    end.

  (** ** Derivation ([MetadataMaterial]); [enc] is the encrypted payment id for payer metadata. *)
  Definition id_marker (enc : option bytes) : bytes :=
    match enc with
    | None => WITHOUT_ENCRYPTED_PAYMENT_ID_HMAC_INPUT
    | Some e => WITH_ENCRYPTED_PAYMENT_ID_HMAC_INPUT ++ e
    end.
  Definition enc_prefix (enc : option bytes) : bytes := match enc with None => [] | Some e => e end.

  Definition derive_metadata (key iv nonce : bytes) (enc : option bytes) (records : list bytes) : bytes :=
    enc_prefix enc ++ nonce
    ++ hmac key (iv ++ nonce ++ List.concat records ++ DERIVED_METADATA_HMAC_INPUT ++ id_marker enc).

  (** metadata and the derived secret key *)
  Definition derive_metadata_and_keys (key iv nonce : bytes) (enc : option bytes) (records : list bytes) : bytes * bytes :=
    (enc_prefix enc ++ nonce,
     hmac key (iv ++ nonce ++ List.concat records ++ DERIVED_METADATA_AND_KEYS_HMAC_INPUT ++ id_marker enc)).

  (** ** Whole-stream entry points *)

  (** value of the first record of type [t] *)
  Definition record_value (r : bytes) : bytes :=
    match bigsize_read r with
    | Some (_, tl) => match bigsize_read (skipn tl r) with
                      | Some (_, ll) => skipn (tl + ll) r
                      | None => []
                      end
    | None => []
    end.
  Fixpoint find_record (t : Z) (rs : list bytes) : option bytes :=
    match rs with [] => None | r :: rest => if ty_of r =? t then Some (record_value r) else find_record t rest end.

  (** [InvoiceRequest::verify_using_metadata] -> [Offer::verify_using_metadata] on the request's bytes *)
  Definition offer_verify_using_metadata (key : bytes) (rs : list bytes) : verdict :=
    match find_record 4 rs, find_record 22 rs with
    | Some md, Some issuer_id =>
        verify_recipient_metadata key md IV_OFFER_WITH_METADATA issuer_id
          (offer_records_for_metadata (List.length md =? NONCE_LEN)%nat rs)
    | _, _ => VErr
    end.

  (** [verify_using_recipient_data]: nonce from the blinded path's context *)
  Definition offer_verify_using_recipient_data (key nonce : bytes) (rs : list bytes) : verdict :=
    match find_record 22 rs with
    | Some issuer_id =>
        verify_recipient_metadata key nonce IV_OFFER_WITHOUT_METADATA issuer_id (offer_records_for_metadata true rs)
    | None => VErr
    end.

  (** [Bolt12Invoice::verify_using_metadata] for an invoice answering an invoice request *)
  Definition invoice_verify_using_metadata (key iv : bytes) (rs : list bytes) : verdict :=
    match find_record 0 rs, find_record 88 rs with
    | Some md, Some payer_id =>
        verify_payer_metadata key md iv payer_id
          (payer_records_for_metadata (List.length md =? PAYMENT_ID_LEN + NONCE_LEN)%nat rs)
    | _, _ => VErr
    end.
End Metadata.
