(** Hand transliteration of the CLTV predicates (C08), used (a) as the executable model in the
    functional correspondence against the real functions through the [_verif_hooks] feature and
    (b) as a cross-check of the rs2v-generated definitions ([Proofs/C08.v] proves them equal). *)
Require Import LdkV.Prim.U64 LdkV.Gen.Consts.
Open Scope Z_scope.

(** onion_payment.rs [check_incoming_htlc_cltv] *)
Definition h_check_incoming_htlc_cltv (cur_height outgoing_cltv_value cltv_expiry delta : Z) : rres unit :=
  if cltv_expiry <? outgoing_cltv_value + delta then RErr "IncorrectCLTVExpiry"
  else if cltv_expiry <=? cur_height + HTLC_FAIL_BACK_BUFFER then RErr "CLTVExpiryTooSoon"
  else if cur_height + CLTV_FAR_FAR_AWAY <? cltv_expiry then RErr "CLTVExpiryTooFar"
  else if outgoing_cltv_value <=? cur_height + LATENCY_GRACE_PERIOD_BLOCKS then RErr "OutgoingCLTVTooSoon"
  else ROk tt.

(** debug build: u32 additions must not overflow (evaluated in order, up to the first return) *)
Definition h_check_incoming_htlc_cltv_safe (cur_height outgoing_cltv_value cltv_expiry delta : Z) : bool :=
  if cltv_expiry <? outgoing_cltv_value + delta then true
  else (cur_height + HTLC_FAIL_BACK_BUFFER <? 2 ^ 32) &&
  (if cltv_expiry <=? cur_height + HTLC_FAIL_BACK_BUFFER then true
   else (cur_height + CLTV_FAR_FAR_AWAY <? 2 ^ 32) &&
   (if cur_height + CLTV_FAR_FAR_AWAY <? cltv_expiry then true
    else (cur_height + LATENCY_GRACE_PERIOD_BLOCKS <? 2 ^ 32))).

(** channelmanager.rs [MppPart::check_onchain_timeout] *)
Definition h_check_onchain_timeout (cltv_expiry height : Z) : bool :=
  cltv_expiry - HTLC_FAIL_BACK_BUFFER <=? height.
Definition h_check_onchain_timeout_safe (cltv_expiry height : Z) : bool :=
  0 <=? cltv_expiry - HTLC_FAIL_BACK_BUFFER.

(** onion_payment.rs [create_recv_pending_htlc_info], the final-hop "expiry too soon" test *)
Definition h_final_expiry_too_soon (cltv_expiry current_height : Z) : bool :=
  cltv_expiry <=? current_height + HTLC_FAIL_BACK_BUFFER + 1.

(** channelmonitor.rs [should_broadcast_holder_commitment_txn], the per-HTLC predicate *)
Definition h_should_broadcast (htlc_outbound : bool) (cltv_expiry height : Z) (has_preimage : bool) : bool :=
  (htlc_outbound && (cltv_expiry + LATENCY_GRACE_PERIOD_BLOCKS <=? height))
  || (negb htlc_outbound && (cltv_expiry <=? height + CLTV_CLAIM_BUFFER) && has_preimage).

(** channelmonitor.rs [OnchainEventEntry::confirmation_threshold]; [csv = None] for events without
    a CSV-encumbered output. *)
Definition h_confirmation_threshold (height : Z) (csv : option Z) : Z :=
  let conf_threshold := height + ANTI_REORG_DELAY - 1 in
  match csv with
  | Some c => Z.max conf_threshold (height + c - 1)
  | None => conf_threshold
  end.
