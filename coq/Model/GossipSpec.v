(** C17 — specification-level definitions used in the statements of [Props/C17.v]
    (no proofs here): the node/channel cross-reference invariant, graph equality "as graphs",
    and what a valid gossip message set / an admissible delivery order is. *)
From stdpp Require Import gmap.
From Coq Require Import ZArith String.
Require Import LdkV.Gen.GossipConsts LdkV.Model.Gossip.
Open Scope Z_scope.

(** ** Cross references *)
(** node [nid] lists channel [scid] *)
Definition lists (nodes : gmap Z node) (nid scid : Z) : Prop :=
  ∃ n, nodes !! nid = Some n ∧ scid ∈ n_chans n.
(** channel [scid] exists and has [nid] as one of its two ends *)
Definition ends (chans : gmap Z chan) (scid nid : Z) : Prop :=
  ∃ c, chans !! scid = Some c ∧ (c_one c = nid ∨ c_two c = nid).
Definition nodes_ok (nodes : gmap Z node) : Prop :=
  ∀ nid n, nodes !! nid = Some n → n_chans n ≠ [] ∧ NoDup (n_chans n).

Record wf' (chans : gmap Z chan) (nodes : gmap Z node) : Prop := {
  wf_sorted : ∀ scid c, chans !! scid = Some c → c_one c < c_two c;
  wf_nodes : nodes_ok nodes;
  wf_xref : ∀ nid scid, lists nodes nid scid ↔ ends chans scid nid
}.
(** every node has at least one channel, lists no channel twice, and
    [scid ∈ node.channels ↔ the channel exists and names the node] *)
Definition wf (g : graph) : Prop := wf' (g_chans g) (g_nodes g).

(** a node entry after channel [scid] has been taken off its list: the entry disappears when the
    list becomes empty *)
Definition node_without (o : option node) (scid : Z) : option node :=
  match o with
  | Some n => match filter (λ s, s ≠ scid) (n_chans n) with
              | [] => None
              | l => Some (Node l (n_ann n))
              end
  | None => None
  end.

(** what pruning at [min_time] does to one channel *)
Definition prune_chan (min_time : Z) (c : chan) : option chan :=
  let c' := drop_stale min_time c in
  if removable min_time c' then None else Some c'.

(** ** Directions and announcements stored in a graph *)
Definition g_dir (g : graph) (scid : Z) (two_to_one : bool) : option upd_info :=
  c ← g_chans g !! scid; chan_dir c two_to_one.
Definition g_nann (g : graph) (nid : Z) : option nann :=
  n ← g_nodes g !! nid; n_ann n.

(** ** Exact acceptance condition ([upd_guards]) and effect ([upd_result]) of a channel_update *)
Definition upd_guards (cf : cfg) (g : graph) (via : bool) (sg : option (option Z)) (m : chan_upd)
    (now : Z) (c : chan) : Prop :=
  g_chans g !! cu_scid m = Some c ∧
  (via = true → upd_dont_forward m = false) ∧
  cu_chain m = cfg_chain cf ∧
  (cfg_time_check cf = true →
     now - STALE_CHANNEL_UPDATE_AGE_LIMIT_SECS ≤ cu_ts m ≤ now + 60 * 60 * 24) ∧
  cu_hmax m ≤ MAX_VALUE_MSAT ∧
  (∀ cap, c_cap c = Some cap → cap ≤ MAX_VALUE_MSAT / 1000 ∧ cu_hmax m ≤ cap * 1000) ∧
  (∀ old, chan_dir c (dir_is_two_to_one m) = Some old → ui_ts old < cu_ts m) ∧
  (∀ s, sg = Some s → pk_ok cf (dir_node c (dir_is_two_to_one m)) = true
                      ∧ s = Some (dir_node c (dir_is_two_to_one m))).

Definition upd_result (g : graph) (sg : option (option Z)) (m : chan_upd) (c : chan) : graph :=
  Graph (<[cu_scid m := set_dir c (dir_is_two_to_one m) (Some (upd_info_of m (is_some_b sg)))]>
           (g_chans g))
        (g_nodes g) (g_rmc g) (g_rmn g).

(** the time range in which [remove_stale_channels_and_tracking_with_time] does anything *)
Definition prune_active (now : Z) : Prop :=
  STALE_CHANNEL_UPDATE_AGE_LIMIT_SECS ≤ now ≤ 2 ^ 32 - 1.

(** ** Authenticity: every piece of information in the graph is backed by a delivered message
    whose signatures verify under the announced keys (when verification was requested, i.e. the
    signed entry points were used) *)
Definition ann_authentic (cf : cfg) (a : chan_ann) (s : ann_sigs) : Prop :=
  pk_ok cf (ca_n1 a) = true ∧ sg_n1 s = true ∧ pk_ok cf (ca_n2 a) = true ∧ sg_n2 s = true ∧
  pk_ok cf (ca_b1 a) = true ∧ sg_b1 s = true ∧ pk_ok cf (ca_b2 a) = true ∧ sg_b2 s = true.

Definition chan_justified (cf : cfg) (ops : list op) (scid : Z) (c : chan) : Prop :=
  (∃ via sg a u now, OChanAnn via sg a u now ∈ ops ∧ ca_scid a = scid ∧
      c_one c = ca_n1 a ∧ c_two c = ca_n2 a ∧ c_features c = ca_features a ∧
      utxo_value u = inr (c_cap c) ∧ ca_chain a = cfg_chain cf ∧
      (∀ s, sg = Some s → ann_authentic cf a s)) ∨
  (∃ ts, OPartialAnn scid (c_cap c) ts (c_features c) (c_one c) (c_two c) ∈ ops).

Definition dir_justified (cf : cfg) (ops : list op) (scid : Z) (c : chan) (d : bool)
    (ui : upd_info) : Prop :=
  ∃ via sg m now, OChanUpd via sg m now false ∈ ops ∧ cu_scid m = scid ∧
    dir_is_two_to_one m = d ∧ ui = upd_info_of m (is_some_b sg) ∧ cu_chain m = cfg_chain cf ∧
    (∀ s, sg = Some s → s = Some (dir_node c d) ∧ pk_ok cf (dir_node c d) = true).

Definition nann_justified (cf : cfg) (ops : list op) (nid : Z) (a : nann) : Prop :=
  ∃ via sg m, ONodeAnn via sg m ∈ ops ∧ nm_nid m = nid ∧ na_ts a = nm_ts m ∧
    na_content a = nm_content m ∧ (∀ b, sg = Some b → b = true ∧ pk_ok cf nid = true).

Definition authentic (cf : cfg) (ops : list op) (g : graph) : Prop :=
  (∀ scid c, g_chans g !! scid = Some c →
     chan_justified cf ops scid c ∧
     ∀ d ui, chan_dir c d = Some ui → dir_justified cf ops scid c d ui) ∧
  (∀ nid n a, g_nodes g !! nid = Some n → n_ann n = Some a → nann_justified cf ops nid a).

(** ** Equality "as graphs"
    [NodeInfo.channels] is a [Vec] in insertion order and [announcement_received_time] is the wall
    clock at delivery: both depend on the delivery order/time by construction and carry no gossip
    content.  Graphs are compared with channel lists up to permutation and receipt time ignored. *)
Definition chan_content (c : chan) : chan :=
  Chan (c_features c) (c_one c) (c_two c) (c_cap c) (c_12 c) (c_21 c) (c_msg c) 0.
Definition node_equiv (n1 n2 : node) : Prop :=
  n_chans n1 ≡ₚ n_chans n2 ∧ n_ann n1 = n_ann n2.
Definition opt_rel {A} (R : A → A → Prop) (o1 o2 : option A) : Prop :=
  match o1, o2 with
  | Some a, Some b => R a b
  | None, None => True
  | _, _ => False
  end.
Definition graph_equiv (g1 g2 : graph) : Prop :=
  (∀ scid, chan_content <$> (g_chans g1 !! scid) = chan_content <$> (g_chans g2 !! scid)) ∧
  (∀ nid, opt_rel node_equiv (g_nodes g1 !! nid) (g_nodes g2 !! nid)) ∧
  g_rmc g1 = g_rmc g2 ∧ g_rmn g1 = g_rmn g2.

(** ** Gossip messages as delivered *)
(** the message carried by an op, with the delivery time erased *)
Definition strip (o : op) : op :=
  match o with
  | OChanAnn via sg a u _ => OChanAnn false sg a u 0
  | OChanUpd via sg m _ ov => OChanUpd false sg m 0 ov
  | ONodeAnn via sg m => ONodeAnn false sg m
  | o => o
  end.

(** a channel_announcement that passes every check on an empty graph: sorted distinct node ids,
    distinct bitcoin keys, our chain, four valid signatures when signed, and a UTXO oracle that is
    either absent or confirms the announced script *)
Definition ann_valid (cf : cfg) (sg : option ann_sigs) (a : chan_ann) (u : utxo) : Prop :=
  ca_n1 a < ca_n2 a ∧ ca_b1 a ≠ ca_b2 a ∧ ca_chain a = cfg_chain cf ∧
  (∀ s, sg = Some s → verify_ann cf a s = None) ∧
  (u = UNoLookup ∨ ∃ v, u = UOk v true).

Definition ann_cap (u : utxo) : option Z :=
  match u with UOk v _ => Some v | _ => None end.

(** the channel_update [m] is acceptable for the channel announced by [a] (with oracle [u]) *)
Definition upd_valid_for (cf : cfg) (a : chan_ann) (u : utxo) (via : bool)
    (sg : option (option Z)) (m : chan_upd) (now : Z) : Prop :=
  cu_scid m = ca_scid a ∧ cu_chain m = cfg_chain cf ∧ cu_hmax m ≤ MAX_VALUE_MSAT ∧
  (via = true → upd_dont_forward m = false) ∧
  (cfg_time_check cf = true →
     now - STALE_CHANNEL_UPDATE_AGE_LIMIT_SECS ≤ cu_ts m ≤ now + 60 * 60 * 24) ∧
  (∀ cap, ann_cap u = Some cap → cap ≤ MAX_VALUE_MSAT / 1000 ∧ cu_hmax m ≤ cap * 1000) ∧
  (∀ s, sg = Some s →
     let k := if dir_is_two_to_one m then ca_n2 a else ca_n1 a in
     pk_ok cf k = true ∧ s = Some k).

Definition nann_valid (cf : cfg) (sg : option bool) (m : node_ann) : Prop :=
  ∀ b, sg = Some b → pk_ok cf (nm_nid m) = true ∧ b = true.

Definition is_ann (o : op) (scid : Z) : Prop :=
  match o with OChanAnn _ _ a _ _ => ca_scid a = scid | _ => False end.
Definition ann_has_node (o : op) (nid : Z) : Prop :=
  match o with OChanAnn _ _ a _ _ => ca_n1 a = nid ∨ ca_n2 a = nid | _ => False end.

(** [l] is a list of deliveries of a valid message set *)
Record valid_set (cf : cfg) (l : list op) : Prop := {
  (* only gossip messages, each valid on its own *)
  vs_kinds : ∀ o, o ∈ l →
    match o with
    | OChanAnn via sg a u now => ann_valid cf sg a u
    | OChanUpd via sg m now ov =>
        ov = false ∧ ∃ via' sg' a u now', OChanAnn via' sg' a u now' ∈ l ∧
                                          upd_valid_for cf a u via sg m now
    | ONodeAnn via sg m =>
        nann_valid cf sg m ∧ ∃ o', o' ∈ l ∧ ann_has_node o' (nm_nid m)
    | _ => False
    end;
  (* one announcement per channel (the same message may be delivered many times) *)
  vs_ann_unique : ∀ v1 s1 a1 u1 t1 v2 s2 a2 u2 t2,
    OChanAnn v1 s1 a1 u1 t1 ∈ l → OChanAnn v2 s2 a2 u2 t2 ∈ l → ca_scid a1 = ca_scid a2 →
    s1 = s2 ∧ a1 = a2 ∧ u1 = u2;
  (* no two different updates with the same timestamp for the same channel direction *)
  vs_upd_distinct : ∀ v1 s1 m1 t1 o1 v2 s2 m2 t2 o2,
    OChanUpd v1 s1 m1 t1 o1 ∈ l → OChanUpd v2 s2 m2 t2 o2 ∈ l →
    cu_scid m1 = cu_scid m2 → dir_is_two_to_one m1 = dir_is_two_to_one m2 → cu_ts m1 = cu_ts m2 →
    s1 = s2 ∧ m1 = m2;
  (* no two different node announcements with the same timestamp for the same node *)
  vs_node_distinct : ∀ v1 s1 m1 v2 s2 m2,
    ONodeAnn v1 s1 m1 ∈ l → ONodeAnn v2 s2 m2 ∈ l →
    nm_nid m1 = nm_nid m2 → nm_ts m1 = nm_ts m2 → s1 = s2 ∧ m1 = m2
}.

(** every update comes after the announcement of its channel, every node announcement after some
    announcement of a channel of that node *)
Fixpoint admissible (seen : list op) (l : list op) : Prop :=
  match l with
  | [] => True
  | o :: l' =>
      match o with
      | OChanUpd _ _ m _ _ => ∃ o', o' ∈ seen ∧ is_ann o' (cu_scid m)
      | ONodeAnn _ _ m => ∃ o', o' ∈ seen ∧ ann_has_node o' (nm_nid m)
      | _ => True
      end ∧ admissible (seen ++ [o]) l'
  end.

(** the two delivery lists carry the same messages (any duplication) *)
Definition same_messages (l1 l2 : list op) : Prop :=
  ∀ o, o ∈ strip <$> l1 ↔ o ∈ strip <$> l2.
