(** C02, forward admission. Every arithmetic expression and decision used here is GENERATED from the
    Rust source on each run (tools/rs2v):
      Gen/CfgChecks.v  [internal_htlc_satisfies_config], [amt_to_forward_msat]
      Gen/CltvChecks.v [check_incoming_htlc_cltv]
      Gen/FwdChecks.v  [check_blinded_forward], [check_blinded_payment_constraints],
                       [did_channel_update], [prev_config_expired], [api_delta_rejected],
                       [unknown_chan_*], [EXPIRE_PREV_CONFIG_TICKS]
      Gen/Consts.v     [MIN_CLTV_EXPIRY_DELTA], ...
    What is written by hand below is only the glue those expressions sit in (state updates and the
    current-then-previous fallback), transliterated from
      lightning/src/ln/channel.rs  [FundedChannel::htlc_satisfies_config],
                                   [ChannelContext::update_config], [maybe_expire_prev_config]
      lightning/src/ln/channelmanager.rs [update_partial_channel_config] (reject-and-apply-nothing),
                                   [can_forward_htlc_should_intercept] (unknown-channel branch)
    and tied to the code by functional correspondence on a live channel of two real nodes
    (harness/src/bin/h_fwdadm.rs through the [_verif_hooks] feature). No proofs in this file. *)
Require Import LdkV.Prim.U64 LdkV.Prim.Rs2vLib LdkV.Gen.Consts LdkV.Gen.CltvChecks LdkV.Gen.CfgChecks
  LdkV.Gen.FwdChecks.
Open Scope Z_scope.

Definition cfg_in_range (c : ChannelConfig) : bool :=
  in_u 32 (cc_forwarding_fee_proportional_millionths c) && in_u 32 (cc_forwarding_fee_base_msat c) &&
  in_u 16 (cc_cltv_expiry_delta c).

(** Channel-side config state: [config.options] (its three forwarding parameters) and
    [prev_config : Option<(ChannelConfig, usize)>]. *)
Record cfg_state : Type := { cs_cur : ChannelConfig; cs_prev : option (ChannelConfig * Z) }.

(** channel.rs [update_config] *)
Definition update_config (s : cfg_state) (config : ChannelConfig) : cfg_state :=
  if did_channel_update (cs_cur s) config
  then {| cs_cur := config; cs_prev := Some (cs_cur s, 0) |}
  else {| cs_cur := config; cs_prev := cs_prev s |}.

(** channelmanager.rs [update_partial_channel_config] / [update_channel_config]: a delta below the
    minimum is an API error and nothing is applied. *)
Definition api_update_config (s : cfg_state) (c : ChannelConfig) : cfg_state * bool :=
  if api_delta_rejected (Some (cc_cltv_expiry_delta c)) then (s, false) else (update_config s c, true).

(** channel.rs [maybe_expire_prev_config], run once per [timer_tick_occurred]. *)
Definition maybe_expire_prev_config (s : cfg_state) : cfg_state :=
  match cs_prev s with
  | None => s
  | Some (c, n) =>
    if prev_config_expired (n + 1) then {| cs_cur := cs_cur s; cs_prev := None |}
    else {| cs_cur := cs_cur s; cs_prev := Some (c, n + 1) |}
  end.

(** channel.rs [htlc_satisfies_config]: current config, else ([or_else]) the previous one if there
    is one; the error reported is that of the LAST config tried. *)
Definition htlc_satisfies_config (s : cfg_state) (in_amt in_cltv amt_to_forward outgoing_cltv : Z) : rres unit :=
  match internal_htlc_satisfies_config in_amt in_cltv amt_to_forward outgoing_cltv (cs_cur s) with
  | ROk u => ROk u
  | RErr err =>
    match cs_prev s with
    | Some (prev, _) => internal_htlc_satisfies_config in_amt in_cltv amt_to_forward outgoing_cltv prev
    | None => RErr err
    end
  end.

(** Operations of the config state machine (the correspondence harness drives a live channel with the
    same operations). *)
Inductive cfg_op : Type :=
| OpUpdate (c : ChannelConfig)
| OpTick
| OpCheck (in_amt in_cltv amt_to_forward outgoing_cltv : Z).

Definition cfg_step (s : cfg_state) (o : cfg_op) : cfg_state :=
  match o with
  | OpUpdate c => fst (api_update_config s c)
  | OpTick => maybe_expire_prev_config s
  | OpCheck _ _ _ _ => s
  end.

(** channelmanager.rs [can_forward_htlc_should_intercept], the branch taken when the outgoing channel
    is not (yet) known: plain sanity checks. *)
Definition unknown_chan_sanity (in_amt in_cltv amt_to_forward outgoing_cltv : Z) : rres unit :=
  if unknown_chan_amt_exceeds amt_to_forward in_amt then RErr "FeeInsufficient"
  else if unknown_chan_cltv_delta_too_small (unknown_chan_cltv_delta in_cltv outgoing_cltv)
       then RErr "IncorrectCLTVExpiry"
  else ROk tt.

(** channel.rs [validate_update_fee] and [can_accept_incoming_htlc]: the two dust-exposure gates each,
    in the order of the code; the four comparisons are the generated (anchored) expressions. [l] / [r]
    are [local_stats] / [remote_stats] [.commitment_stats.dust_exposure_msat]. *)
Definition update_fee_dust_ok (l r max_dust : Z) : bool :=
  negb (fee_local_dust_over l r max_dust) && negb (fee_remote_dust_over l r max_dust).
Definition accept_htlc_dust_ok (l r max_dust : Z) : bool :=
  negb (accept_remote_dust_over l r max_dust) && negb (accept_local_dust_over l r max_dust).

(** channelmanager.rs [can_forward_htlc_should_intercept] when the onion names an SCID for which the
    node has NO channel (the [None =>] arm of [do_funded_channel_callback]), followed by the final
    [check_incoming_htlc_cltv]. The SCID is a phantom SCID, one handed out by [get_intercept_scid], or
    anything else; [forward_needs_intercept_to_unknown_chan] consults the two interception flags.
    The amount and CLTV sanity checks come FIRST and therefore apply to every outcome (phantom receive,
    interception); that order is pinned against the source by the plugin (structural pin) and the
    whole function by the scripted interception sweep of h_fwdm. [ROk b]: [b] = intercept. *)
Inductive scid_kind : Type := ScidPhantom | ScidIntercept | ScidOther.

Definition needs_intercept_unknown (k : scid_kind) (flag_intercept_scids flag_unknown_scids : bool) : bool :=
  match k with
  | ScidIntercept => flag_intercept_scids
  | ScidPhantom => false
  | ScidOther => flag_unknown_scids
  end.

Definition no_channel_admission (k : scid_kind) (flag_intercept_scids flag_unknown_scids : bool)
    (cur_height in_amt in_cltv amt_to_forward outgoing_cltv : Z) : rres bool :=
  if unknown_chan_amt_exceeds amt_to_forward in_amt then RErr "FeeInsufficient"
  else if unknown_chan_cltv_delta_too_small (unknown_chan_cltv_delta in_cltv outgoing_cltv)
       then RErr "IncorrectCLTVExpiry"
  else
    let outcome :=
      match k with
      | ScidPhantom => Some false
      | _ => if needs_intercept_unknown k flag_intercept_scids flag_unknown_scids then Some true else None
      end in
    match outcome with
    | None => RErr "UnknownNextPeer"
    | Some intercept =>
      match check_incoming_htlc_cltv cur_height outgoing_cltv in_cltv MIN_CLTV_EXPIRY_DELTA with
      | ROk _ => ROk intercept
      | RErr e => RErr e
      end
    end.
