(** C16 — hand transliteration of [PaymentPath::update_value_and_recompute_fees]
    (lightning/src/routing/router.rs), validated against the real method through the hook
    [routing::router::verif_hooks_router::update_value_and_recompute_fees].  The fee formula is the
    generated [compute_fees] ([Gen/RouterFees.v]).  No proofs here.

    A path hop is reduced to what the method reads and writes: the channel's fees and
    [htlc_minimum_msat], [hop_use_fee_msat] and [fee_msat].  The Rust walks the hops from the last
    one to the first; [recompute_rev] receives the hops in that (reversed) order. *)
Require Import LdkV.Prim.U64 LdkV.Prim.Rs2vLib LdkV.Gen.RouterFees.
Open Scope Z_scope.

Record phop := mkPhop {
  ph_fees : RoutingFees;
  ph_hmin : Z;
  ph_use_fee : Z;   (* hop_use_fee_msat *)
  ph_fee : Z        (* fee_msat *)
}.

(** One iteration for hop [h] ([last]: it is the final hop; [rest]: the hops before it, reversed).
    State carried between iterations, as in the Rust: [extra] = extra_contribution_msat,
    [total] = total_fee_paid_msat, [next_use] = hop_use_fee_msat of the hop processed just before
    (the next hop towards the payee).  [None] is the [unreachable!()] branch. *)
Fixpoint recompute_rev (value : Z) (rh : list phop) (last : bool) (extra total next_use : Z)
  : option (list phop * Z) :=
  match rh with
  | nil => Some (nil, extra)
  | h :: rest =>
      let cur_fees0 := if last then 0 else next_use in
      let amt0 := total + value in
      (* if let Some(extra_fees_msat) = htlc_minimum_msat.checked_sub(cur_hop_transferred_amount_msat) *)
      let '(amt, extra1, total1, cur_fees) :=
        match chk_sub (ph_hmin h) amt0 with
        | Some ex =>
            if last then (amt0 + ex, ex, total, cur_fees0)
            else (amt0 + ex, extra, total + ex, cur_fees0 + ex)
        | None => (amt0, extra, total, cur_fees0)
        end in
      let fee := if last then amt else cur_fees in
      match rest with
      | nil => (* i == 0: no fee for our own channel *)
          Some (mkPhop (ph_fees h) (ph_hmin h) (ph_use_fee h) fee :: nil, extra1)
      | _ =>
          match compute_fees amt (ph_fees h) with
          | Some new_fee =>
              match recompute_rev value rest false extra1 (total1 + new_fee) new_fee with
              | Some (hs, e) => Some (mkPhop (ph_fees h) (ph_hmin h) new_fee fee :: hs, e)
              | None => None
              end
          | None => None
          end
      end
  end.

(** [update_value_and_recompute_fees(value_msat)]: the updated hops (payer first) and the returned
    contribution [value_msat + extra_contribution_msat] *)
Definition recompute (hops : list phop) (value : Z) : option (list phop * Z) :=
  match recompute_rev value (List.rev hops) true 0 0 0 with
  | Some (hs, e) => Some (List.rev hs, value + e)
  | None => None
  end.

(** the amount each hop carries according to the resulting [fee_msat]s: its own fee plus everything
    carried by the hops after it *)
Fixpoint amounts (hops : list phop) : list Z :=
  match hops with
  | nil => nil
  | h :: t => let r := amounts t in (ph_fee h + match r with a :: _ => a | nil => 0 end) :: r
  end.

(** every forwarding node is paid what the policy of the next channel requires for the amount that
    channel carries, and every hop carries at least its minimum *)
Fixpoint pays_policy (hops : list phop) : Prop :=
  match hops with
  | nil => True
  | h :: t =>
      match amounts (h :: t) with a :: _ => ph_hmin h <= a | nil => True end /\
      match t, amounts t with
      | h' :: _, a' :: _ => exists req, compute_fees a' (ph_fees h') = Some req /\ req <= ph_fee h
      | _, _ => True
      end /\
      pays_policy t
  end.

Fixpoint pays_policy_b (hops : list phop) : bool :=
  match hops with
  | nil => true
  | h :: t =>
      match amounts (h :: t) with a :: _ => ph_hmin h <=? a | nil => true end &&
      match t, amounts t with
      | h' :: _, a' :: _ => match compute_fees a' (ph_fees h') with Some req => req <=? ph_fee h | None => false end
      | _, _ => true
      end &&
      pays_policy_b t
  end.

Definition last_hmin (hops : list phop) : Z :=
  match List.rev hops with h :: _ => ph_hmin h | nil => 0 end.

(** Exact form, for a raise at ANY position: the final hop carries [value]; every other hop
    carries the larger of its own minimum and what has to be forwarded (the amount of the next hop
    plus the policy fee of the next channel for that amount), the difference to the next hop's
    amount being the fee left with the node in between.  So a hop below its minimum is raised to
    exactly the minimum, the surplus is paid as fee, and every hop before it is computed for the
    RAISED amount. *)
Definition first_amount (hops : list phop) : Z :=
  match amounts hops with a :: _ => a | nil => 0 end.

Fixpoint exact_policy (value : Z) (hops : list phop) : Prop :=
  match hops with
  | nil => True
  | h :: t =>
      match t with
      | nil => ph_fee h = value
      | h' :: _ =>
          exists req, compute_fees (first_amount t) (ph_fees h') = Some req /\ 
            first_amount (h :: t) = Z.max (ph_hmin h) (first_amount t + req)
      end /\ exact_policy value t
  end.

(** two hops of the same channel policy (the recomputation only rewrites [hop_use_fee_msat] and
    [fee_msat]) *)
Definition same_policy (h h' : phop) : Prop := ph_fees h = ph_fees h' /\ ph_hmin h = ph_hmin h'.
