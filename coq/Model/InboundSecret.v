(** C04, part A — stateless payment secrets (lightning/src/ln/inbound_payment.rs).

    Transliteration of [construct_info_bytes], [construct_payment_secret], [create],
    [create_from_hash], [create_for_spontaneous_payment], [decrypt_info] and [verify], for
    [payment_metadata = None]. Byte strings are [list Z] ([Crypto/Bytes.v]). The cryptographic
    primitives are parameters ([prims]): the theorems of Proofs/C04.v are stated for abstract
    primitives with the algebraic laws they need as visible hypotheses; the correspondence check
    instantiates them with the executable HMAC-SHA256 / ChaCha20 / SHA-256 of [Crypto/].

    Bit operations are rendered arithmetically (exact on the domain where the Rust code does not
    return [Err] first): [bytes[0] |= method << 5] on a value below 2^61 is [+ method * 2^61];
    [expiry_bytes[0..2] |= delta] on a value below 2^48 is [+ delta * 2^48];
    [(info[0] & 0xE0) >> 5] is [word / 2^61]; [amt_bytes[0] &= 0x1f] is [word mod 2^61].
    No proofs in this file. *)
From LdkV Require Import Prim.U64 Crypto.Bytes Gen.ConstsC04.
Open Scope Z_scope.

Record prims : Type := {
  p_hmac : bytes -> bytes -> bytes;           (* key, message -> 32 bytes *)
  p_crypt : bytes -> bytes -> bytes -> bytes; (* [apply_chacha20]: key, 16-byte iv, data -> data *)
  p_hash : bytes -> bytes                     (* SHA-256 *)
}.

(** [ExpandedKey] (the keys used here) *)
Record keys : Type := {
  k_info : bytes; k_ldk : bytes; k_user : bytes; k_spont : bytes
}.

(** [enum Method] *)
Definition M_LdkPaymentHash : Z := 0.
Definition M_UserPaymentHash : Z := 1.
Definition M_LdkPaymentHashCustomFinalCltv : Z := 2.
Definition M_UserPaymentHashCustomFinalCltv : Z := 3.
Definition M_SpontaneousPayment : Z := 4.

Definition IV_LEN : nat := 16.

(** [calculate_absolute_expiry] *)
Definition absolute_expiry (highest_seen_timestamp invoice_expiry_delta_secs : Z) : Z :=
  highest_seen_timestamp + invoice_expiry_delta_secs + 7200.

(** no u64 overflow in [calculate_absolute_expiry] (a debug build panics otherwise) *)
Definition info_safe (now delta : Z) : bool := absolute_expiry now delta <? 2 ^ 64.

(** [construct_info_bytes]; [None] is [Err(())] *)
Definition info_bytes (min_value : option Z) (method delta now : Z) (cltv : option Z) : option bytes :=
  let amt := match min_value with Some a => a | None => 0 end in
  if match min_value with Some a => MAX_VALUE_MSAT <? a | None => false end then None
  else
    let expiry := absolute_expiry now delta in
    if match min_value with Some a => 2 ^ 61 - 1 <? a | None => false end then None
    else if match cltv with Some _ => 2 ^ 48 - 1 <? expiry | None => false end then None
    else Some (be64 (method * 2 ^ 61 + amt) ++
               be64 (match cltv with Some c => c * 2 ^ 48 + expiry | None => expiry end)).

(** the unpacking half of [verify] *)
Definition info_word0 (info : bytes) : Z := of_be64 (firstn 8 info).
Definition info_word1 (info : bytes) : Z := of_be64 (skipn 8 info).
Definition method_of (info : bytes) : Z := info_word0 info / 2 ^ 61.
Definition amt_of (info : bytes) : Z := info_word0 info mod 2 ^ 61.
Definition is_custom (m : Z) : bool := (m =? M_LdkPaymentHashCustomFinalCltv) || (m =? M_UserPaymentHashCustomFinalCltv).
Definition cltv_of (info : bytes) : option Z :=
  if is_custom (method_of info) then Some (info_word1 info / 2 ^ 48) else None.
Definition expiry_of (info : bytes) : Z :=
  if is_custom (method_of info) then info_word1 info mod 2 ^ 48 else info_word1 info.

Section WithPrims.
  Variable P : prims.

  (** [construct_payment_secret] *)
  Definition payment_secret (iv info info_key : bytes) : bytes := iv ++ p_crypt P info_key iv info.

  (** [decrypt_info] *)
  Definition decrypt_info (K : keys) (secret : bytes) : bytes * bytes :=
    let iv := firstn IV_LEN secret in
    (iv, p_crypt P (k_info K) iv (skipn IV_LEN secret)).

  (** [create]: [rand] is the 32-byte output of the entropy source. Returns (hash, secret). *)
  Definition create (K : keys) (min_value : option Z) (delta : Z) (rand : bytes) (now : Z) (cltv : option Z)
    : option (bytes * bytes) :=
    match info_bytes min_value
            (match cltv with Some _ => M_LdkPaymentHashCustomFinalCltv | None => M_LdkPaymentHash end)
            delta now cltv with
    | None => None
    | Some info =>
        let iv := firstn IV_LEN rand in
        let preimage := p_hmac P (k_ldk K) (iv ++ info) in
        Some (p_hash P preimage, payment_secret iv info (k_info K))
    end.

  (** the preimage [create] commits to (what [get_payment_preimage] / [verify] recover) *)
  Definition create_preimage (K : keys) (info rand : bytes) : bytes :=
    p_hmac P (k_ldk K) (firstn IV_LEN rand ++ info).

  (** [create_from_hash] *)
  Definition create_from_hash (K : keys) (min_value : option Z) (hash : bytes) (delta now : Z) (cltv : option Z)
    : option bytes :=
    match info_bytes min_value
            (match cltv with Some _ => M_UserPaymentHashCustomFinalCltv | None => M_UserPaymentHash end)
            delta now cltv with
    | None => None
    | Some info =>
        let iv := firstn IV_LEN (p_hmac P (k_user K) (info ++ hash)) in
        Some (payment_secret iv info (k_info K))
    end.

  (** [create_for_spontaneous_payment] *)
  Definition create_spontaneous (K : keys) (min_value : option Z) (delta now : Z) (cltv : option Z) : option bytes :=
    match info_bytes min_value M_SpontaneousPayment delta now cltv with
    | None => None
    | Some info =>
        let iv := firstn IV_LEN (p_hmac P (k_spont K) info) in
        Some (payment_secret iv info (k_info K))
    end.

  (** the authentication step of [verify] (done before any other check):
      [Some pre] = authentic, with the preimage for LDK-generated hashes *)
  Definition authenticate (K : keys) (hash iv info : bytes) : option (option bytes) :=
    let m := method_of info in
    if (m =? M_UserPaymentHash) || (m =? M_UserPaymentHashCustomFinalCltv) then
      if bytes_eqb iv (firstn IV_LEN (p_hmac P (k_user K) (info ++ hash))) then Some None else None
    else if (m =? M_LdkPaymentHash) || (m =? M_LdkPaymentHashCustomFinalCltv) then
      let pre := p_hmac P (k_ldk K) (iv ++ info) in
      if bytes_eqb hash (p_hash P pre) then Some (Some pre) else None
    else if m =? M_SpontaneousPayment then
      if bytes_eqb iv (firstn IV_LEN (p_hmac P (k_spont K) info)) then Some None else None
    else None.

  (** [verify]: [Some (preimage?, min_final_cltv_expiry_delta?)] is [Ok], [None] is [Err(())] *)
  Definition verify (K : keys) (hash secret : bytes) (total_msat now : Z) : option (option bytes * option Z) :=
    let '(iv, info) := decrypt_info K secret in
    match authenticate K hash iv info with
    | None => None
    | Some pre =>
        if total_msat <? amt_of info then None
        else if expiry_of info <? now then None
        else Some (pre, cltv_of info)
    end.
End WithPrims.
