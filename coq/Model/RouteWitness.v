(** C16 — a small single-path search used ONLY for the completeness clause ("when some single
    path has sufficient limits … the router does not report failure").  The search is not trusted:
    whatever it finds is passed through [route_check], so [single_path_witness] returns only paths
    that are valid routes on their own ([Proofs/C16.v]: [witness_sound]).  No proofs here. *)
Require Import LdkV.Prim.U64 LdkV.Prim.Rs2vLib LdkV.Gen.RouterFees LdkV.Model.RouteSpec.
Open Scope Z_scope.

(** best known way from a node to the payee: amount that must arrive at the node's outgoing
    channel, and the legs (edge, amount over it) from that node on *)
Record cand := mkCand { c_need : Z; c_legs : list (edge * Z) }.

Fixpoint lookup (tbl : list (Z * cand)) (v : Z) : option cand :=
  match tbl with
  | nil => None
  | (k, c) :: t => if k =? v then Some c else lookup t v
  end.

Fixpoint update (tbl : list (Z * cand)) (v : Z) (c : cand) : list (Z * cand) :=
  match tbl with
  | nil => (v, c) :: nil
  | (k, c0) :: t => if k =? v then (k, c) :: t else (k, c0) :: update t v c
  end.

(** try to extend the best way from [e_dst e] backwards over [e] *)
Definition relax (q : params) (tbl : list (Z * cand)) (e : edge) : list (Z * cand) :=
  match lookup tbl (e_dst e) with
  | None => tbl
  | Some cd =>
      let amt := c_need cd in
      let pos := if e_src e =? q_payer q then O else S O in
      let cap_ok := match e_cap e with Some c => amt <=? c | None => true end in
      if usable_b e && not_excluded_b q (e_id e) e && kind_ok_b q pos (e_kind e)
         && (e_hmin e <=? amt) && (amt <=? e_hmax e) && cap_ok
         && negb (e_dst e =? q_payer q)
         && (match c_legs cd, e_kind e with
             | nil, _ => true                 (* first leg found: the one into the payee *)
             | _ :: _, KBlinded => false      (* a blinded edge is only ever the tail *)
             | _ :: _, _ => true
             end)
      then
        let fee := if e_src e =? q_payer q then Some 0 else compute_fees amt (e_fees e) in
        match fee with
        | None => tbl
        | Some f =>
            let c' := mkCand (amt + f) ((e, amt) :: c_legs cd) in
            match lookup tbl (e_src e) with
            | Some old => if c_need old <=? c_need c' then tbl else update tbl (e_src e) c'
            | None => update tbl (e_src e) c'
            end
        end
      else tbl
  end.

Fixpoint rounds (n : nat) (q : params) (g : graph) (tbl : list (Z * cand)) : list (Z * cand) :=
  match n with
  | O => tbl
  | S n' => rounds n' q g (List.fold_left (relax q) g tbl)
  end.

(** turn legs (edge, amount) into route hops: [fee_msat] = amount difference, the CLTV delta of a
    hop is that of the next channel, the last one the final delta *)
Fixpoint hops_of (legs : list (edge * Z)) (final_cltv : Z) : list hop :=
  match legs with
  | nil => nil
  | (e, a) :: rest =>
      match rest with
      | nil => mkHop (e_id e) (e_dst e) a final_cltv :: nil
      | (e', a') :: _ => mkHop (e_id e) (e_dst e) (a - a') (e_cltv e') :: hops_of rest final_cltv
      end
  end.

Definition path_of (legs : list (edge * Z)) (final_cltv : Z) : path :=
  match List.rev legs with
  | (e, a) :: before =>
      if is_blinded (e_kind e)
      then mkPath (List.removelast (hops_of legs final_cltv)) (Some (e_id e, a))
      else mkPath (hops_of legs final_cltv) None
  | nil => mkPath nil None
  end.

Definition search (g : graph) (q : params) (final_cltv : Z) : option path :=
  let tbl := rounds (Nat.min (List.length g) 20) q g ((q_payee q, mkCand (q_value q) nil) :: nil) in
  match lookup tbl (q_payer q) with
  | Some c => match c_legs c with nil => None | _ => Some (path_of (c_legs c) final_cltv) end
  | None => None
  end.

Definition single_path_witness (g : graph) (q : params) (final_cltv : Z) : option path :=
  match search g q final_cltv with
  | Some p => if route_check g q (p :: nil) then Some p else None
  | None => None
  end.
