(** Executable model of lightning-block-sync (C20): [poll.rs] ([ChainPoller], [Validate],
    [check_builds_on]), [lib.rs] ([HeaderCache], [ChainNotifier], [SpvClient]) and [init.rs]
    ([synchronize_listeners]).  Function by function, branch by branch; no proofs in this file.

    Hashes are interned integers.  The *universe* [T : tree] plays the role of the hash function and
    of the header contents: a header is identified by its hash [x], and everything the hash commits
    to ([prev_blockhash], the work implied by [bits], whether the nonce satisfies the target, whether
    the block's real transaction list passes [check_witness_commitment]) is [T x].  What the hash does
    NOT commit to - the [height] and [chainwork] fields of [BlockHeaderData] - is part of the source's
    answer and may be wrong.  [n_height]/[n_cwork] are the TRUE height and chainwork. *)
Require Import LdkV.Prim.U64 LdkV.Gen.BlockSyncConsts.
Require Import Coq.FSets.FMapPositive Coq.Numbers.DecimalString Coq.Strings.Ascii.
Open Scope Z_scope.

Record node := { n_prev : Z; n_height : Z; n_bwork : Z; n_cwork : Z; n_pow : bool; n_wit : bool }.
Definition tree := Z -> option node.

(** [ValidatedBlockHeader]: block hash, the header fields we need, and the source-supplied metadata. *)
Record vh := { v_hash : Z; v_prev : Z; v_bwork : Z; v_height : Z; v_cwork : Z }.
Definition vh_eqb (a b : vh) : bool :=
  (v_hash a =? v_hash b) && (v_prev a =? v_prev b) && (v_bwork a =? v_bwork b)
  && (v_height a =? v_height b) && (v_cwork a =? v_cwork b).

Inductive ekind := Transient | Persistent.
Definition err := (ekind * string)%type.
Inductive res (A : Type) := Ok (a : A) | Err (e : err).
Arguments Ok {A} a.
Arguments Err {A} e.

(** * The block source: answers indexed by a global request counter. *)
Inductive tresp := TErr (e : err) | TAns (x : Z) (hint : option Z).
Inductive hresp := HErr (e : err) | HAns (x h w : Z).      (* header with hash x, claimed height, claimed chainwork *)
Inductive bresp := BErr (e : err) | BAns (x : Z) (full mk : bool). (* block whose header has hash x; full or header-only; tx list matches merkle root *)
Record oracle := {
  o_best : nat -> tresp;
  o_header : nat -> Z -> option Z -> hresp;
  o_block : nat -> Z -> bresp }.

(** * poll.rs *)
(** [impl Validate for BlockHeaderData]: proof of work first, then the hash comparison. *)
Definition validate_header (T : tree) (x h w requested : Z) : res vh :=
  match T x with
  | None => Err (Persistent, "block target correct but not attained"%string)
  | Some nd =>
    if n_pow nd then
      if x =? requested then
        Ok {| v_hash := requested; v_prev := n_prev nd; v_bwork := n_bwork nd; v_height := h; v_cwork := w |}
      else Err (Persistent, "invalid block hash"%string)
    else Err (Persistent, "block target correct but not attained"%string)
  end.

(** [impl Validate for BlockData]; returns whether a full block was delivered. *)
Definition validate_block (T : tree) (x : Z) (full mk : bool) (requested : Z) : res bool :=
  match T x with
  | None => Err (Persistent, "block target correct but not attained"%string)
  | Some nd =>
    if n_pow nd then
      if x =? requested then
        if full then
          if mk then
            if n_wit nd then Ok true else Err (Persistent, "invalid witness commitment"%string)
          else Err (Persistent, "invalid merkle root"%string)
        else Ok false
      else Err (Persistent, "invalid block hash"%string)
    else Err (Persistent, "block target correct but not attained"%string)
  end.

(** [ValidatedBlockHeader::check_builds_on] (networks other than mainnet: no difficulty rules). *)
Definition check_builds_on (v p : vh) : res unit :=
  if negb (v_prev v =? v_hash p) then Err (Persistent, "invalid previous block hash"%string)
  else if negb (v_height v =? v_height p + 1) then Err (Persistent, "invalid block height"%string)
  else if negb (v_cwork v =? v_cwork p + v_bwork v) then Err (Persistent, "invalid chainwork"%string)
  else Ok tt.

(** [ChainPoller::get_header] *)
Definition poller_get_header (T : tree) (src : oracle) (x : Z) (hint : option Z) (n : nat) : res vh * nat :=
  match o_header src n x hint with
  | HErr e => (Err e, S n)
  | HAns y h w => (validate_header T y h w x, S n)
  end.

(** [ChainPoller::look_up_previous_header] *)
Definition poller_prev (T : tree) (src : oracle) (v : vh) (n : nat) : res vh * nat :=
  if v_height v =? 0 then (Err (Persistent, "genesis block reached"%string), n)
  else
    match poller_get_header T src (v_prev v) (Some (v_height v - 1)) n with
    | (Err e, n') => (Err e, n')
    | (Ok p, n') =>
      match check_builds_on v p with
      | Err e => (Err e, n')
      | Ok _ => (Ok p, n')
      end
    end.

(** [ChainPoller::fetch_block] *)
Definition fetch_block (T : tree) (src : oracle) (v : vh) (n : nat) : res bool * nat :=
  match o_block src n (v_hash v) with
  | BErr e => (Err e, S n)
  | BAns y full mk => (validate_block T y full mk (v_hash v), S n)
  end.

Inductive chaintip := Common | Better (v : vh) | Worse (v : vh).

(** [ChainPoller::poll_chain_tip] *)
Definition poll_chain_tip (T : tree) (src : oracle) (best_known : vh) (n : nat) : res chaintip * nat :=
  match o_best src n with
  | TErr e => (Err e, S n)
  | TAns x hint =>
    if x =? v_hash best_known then (Ok Common, S n)
    else
      match poller_get_header T src x hint (S n) with
      | (Err e, n') => (Err e, n')
      | (Ok tip, n') =>
        if v_cwork best_known <? v_cwork tip then (Ok (Better tip), n') else (Ok (Worse tip), n')
      end
  end.

(** * lib.rs: HeaderCache (a HashMap keyed by block hash; modelled as a duplicate-free list) *)
Definition cache := list vh.
Definition c_lookup (c : cache) (x : Z) : option vh := find (fun v => v_hash v =? x) c.
Definition c_insert (c : cache) (v : vh) : cache := v :: filter (fun u => negb (v_hash u =? v_hash v)) c.
Definition c_retain_ge (c : cache) (cutoff : Z) : cache := filter (fun u => cutoff <=? v_height u) c.
(** [HeaderCache::block_connected] *)
Definition c_block_connected (c : cache) (v : vh) : cache :=
  c_retain_ge (c_insert c v) (sat_sub (v_height v) HEADER_CACHE_LIMIT).
(** [HeaderCache::insert_during_diff] *)
Definition c_insert_during_diff (c : cache) (v : vh) : cache :=
  let c' := c_insert c v in
  let best_height := fold_left (fun m u => Z.max m (v_height u)) c' 0 in
  c_retain_ge c' (sat_sub best_height HEADER_CACHE_LIMIT).
(** [HeaderCache::blocks_disconnected] *)
Definition c_blocks_disconnected (retain_on_disconnect : bool) (c : cache) (fork_point : vh) : cache :=
  if retain_on_disconnect then c else filter (fun u => v_height u <=? v_height fork_point) c.

(** * lib.rs: ChainNotifier *)
Inductive event := EDisc (x h : Z) | EConn (x h : Z) (full : bool).

(** [ChainNotifier::look_up_previous_header]: the cache first (with the same height and chainwork
    linkage checks that the poller applies to fetched headers), the poller otherwise. *)
Definition look_up_prev (T : tree) (src : oracle) (c : cache) (v : vh) (n : nat) : res vh * nat :=
  match c_lookup c (v_prev v) with
  | Some p =>
    if negb (v_height v =? v_height p + 1) then (Err (Persistent, "invalid block height"%string), n)
    else if negb (v_cwork v =? v_cwork p + v_bwork v) then (Err (Persistent, "invalid chainwork"%string), n)
    else (Ok p, n)
  | None => poller_prev T src v n
  end.

Inductive dres := DOk (common_ancestor : vh) (connected_asc : list vh) | DErr (e : err) | DOutOfFuel.

(** [ChainNotifier::find_difference_from_header].  [asc] accumulates [connected_blocks]; the Rust
    vector is in push order (descending heights) and is only ever consumed reversed, so the model
    keeps it ascending: Rust's [connected_blocks] = [rev asc]. *)
Fixpoint find_diff (fuel : nat) (T : tree) (src : oracle) (c : cache) (cur prev : vh) (asc : list vh) (n : nat)
  : dres * nat :=
  match fuel with
  | O => (DOutOfFuel, n)
  | S fuel' =>
    if v_hash cur =? v_hash prev then
      (* both walks met: the metadata supplied on the way down from the new tip must agree with
         what is known for the old chain *)
      if negb (v_height cur =? v_height prev) then (DErr (Persistent, "invalid block height"%string), n)
      else if negb (v_cwork cur =? v_cwork prev) then (DErr (Persistent, "invalid chainwork"%string), n)
      else (DOk cur asc, n)
    else
      let current_height := v_height cur in
      let previous_height := v_height prev in
      match (if current_height <=? previous_height then look_up_prev T src c prev n else (Ok prev, n)) with
      | (Err e, n1) => (DErr e, n1)
      | (Ok prev', n1) =>
        if previous_height <=? current_height then
          match look_up_prev T src c cur n1 with
          | (Err e, n2) => (DErr e, n2)
          | (Ok cur', n2) => find_diff fuel' T src c cur' prev' (cur :: asc) n2
          end
        else find_diff fuel' T src c cur prev' asc n1
      end
  end.

(** True height of a header (from the universe); used only for the fuel of [find_diff]. *)
Definition th (T : tree) (v : vh) : Z := match T (v_hash v) with Some nd => n_height nd | None => 0 end.
Definition fuel_for (T : tree) (a b : vh) : nat := S (Z.to_nat (th T a + th T b)).

(** [ChainNotifier::connect_blocks]; [blocks] ascending. Returns the error (if any), the tip reached
    ([new_tip] of the Rust code: the value carried by [Err((e, Some(new_tip)))]), cache, log, counter. *)
Fixpoint connect_blocks (T : tree) (src : oracle) (c : cache) (new_tip : vh) (blocks : list vh) (n : nat)
  : option err * vh * cache * list event * nat :=
  match blocks with
  | [] => (None, new_tip, c, [], n)
  | header :: rest =>
    match fetch_block T src header n with
    | (Err e, n1) => (Some e, new_tip, c, [], n1)
    | (Ok full, n1) =>
      let '(r, tip, c', log, n2) := connect_blocks T src (c_block_connected c header) header rest n1 in
      (r, tip, c', EConn (v_hash header) (v_height header) full :: log, n2)
    end
  end.

(** [ChainNotifier::disconnect_blocks] *)
Definition disconnect_blocks (retain : bool) (c : cache) (fork_point : vh) : cache * list event :=
  (c_blocks_disconnected retain c fork_point, [EDisc (v_hash fork_point) (v_height fork_point)]).

Inductive sres := SOk | SErr (e : err) (tip : option vh) | SFuel.

(** [ChainNotifier::synchronize_listener] *)
Definition sync_listener (T : tree) (src : oracle) (c : cache) (new_header old_header : vh) (n : nat)
  : sres * cache * list event * nat :=
  match find_diff (fuel_for T new_header old_header) T src c new_header old_header [] n with
  | (DErr e, n1) => (SErr e None, c, [], n1)
  | (DOutOfFuel, n1) => (SFuel, c, [], n1)
  | (DOk ca asc, n1) =>
    let '(c1, log1) := if vh_eqb ca old_header then (c, []) else disconnect_blocks false c ca in
    let '(r, tip, c2, log2, n2) := connect_blocks T src c1 ca asc n1 in
    match r with
    | None => (SOk, c2, log1 ++ log2, n2)
    | Some e => (SErr e (Some tip), c2, log1 ++ log2, n2)
    end
  end.

(** * lib.rs: SpvClient *)
Record client := { cl_tip : vh; cl_cache : cache }.

(** [SpvClient::update_chain_tip] *)
Definition update_chain_tip (T : tree) (src : oracle) (cl : client) (best_chain_tip : vh) (n : nat)
  : client * bool * list event * nat :=
  match sync_listener T src (cl_cache cl) best_chain_tip (cl_tip cl) n with
  | (SOk, c, log, n') => ({| cl_tip := best_chain_tip; cl_cache := c |}, true, log, n')
  | (SErr _ (Some tip), c, log, n') =>
    if negb (v_hash tip =? v_hash (cl_tip cl)) then ({| cl_tip := tip; cl_cache := c |}, true, log, n')
    else ({| cl_tip := cl_tip cl; cl_cache := c |}, false, log, n')
  | (SErr _ None, c, log, n') => ({| cl_tip := cl_tip cl; cl_cache := c |}, false, log, n')
  | (SFuel, c, log, n') => ({| cl_tip := cl_tip cl; cl_cache := c |}, false, log, n')
  end.

(** [SpvClient::poll_best_tip] *)
Definition poll_best_tip (T : tree) (src : oracle) (cl : client) (n : nat)
  : res (chaintip * bool) * client * list event * nat :=
  match poll_chain_tip T src (cl_tip cl) n with
  | (Err e, n1) => (Err e, cl, [], n1)
  | (Ok Common, n1) => (Ok (Common, false), cl, [], n1)
  | (Ok (Better tip), n1) =>
    let '(cl', b, log, n2) := update_chain_tip T src cl tip n1 in
    (Ok (Better tip, b), cl', log, n2)
  | (Ok (Worse tip), n1) => (Ok (Worse tip, false), cl, [], n1)
  end.

(** [k] successive polls (the source's answers, including which tip it reports as best, are indexed
    by the request counter, so one oracle describes any sequence of tip changes between polls). *)
Fixpoint poll_n (T : tree) (src : oracle) (cl : client) (n : nat) (k : nat) : client * list event * nat :=
  match k with
  | O => (cl, [], n)
  | S k' =>
    let '(_, cl1, log1, n1) := poll_best_tip T src cl n in
    let '(cl2, log2, n2) := poll_n T src cl1 n1 k' in
    (cl2, log1 ++ log2, n2)
  end.

(** * init.rs *)
Record locator := { l_hash : Z; l_height : Z; l_prev : list (option Z) }.

Fixpoint locator_prev_tips (idx : Z) (ps : list (option Z)) : list (Z * Z) :=
  match ps with
  | [] => []
  | Some x :: r => (idx + 1, x) :: locator_prev_tips (idx + 1) r
  | None :: r => locator_prev_tips (idx + 1) r
  end.

(** The candidate loop of [find_difference_from_best_block]. *)
Fixpoint resolve_locator (T : tree) (src : oracle) (c : cache) (lheight : Z) (cands : list (Z * Z)) (n : nat)
  : res (option vh) * cache * nat :=
  match cands with
  | [] => (Ok None, c, n)
  | (height_diff, x) :: rest =>
    match c_lookup c x with
    | Some v => (Ok (Some v), c, n)
    | None =>
      if lheight <? height_diff then
        (Err (Persistent, "BlockLocator had more previous_blocks than its height"%string), c, n)
      else
        match poller_get_header T src x (Some (lheight - height_diff)) n with
        | (Ok v, n') => (Ok (Some v), c_insert_during_diff c v, n')
        | (Err _, n') => resolve_locator T src c lheight rest n'
        end
    end
  end.

(** [ChainNotifier::find_difference_from_best_block] *)
Definition find_diff_from_best_block (T : tree) (src : oracle) (c : cache) (current : vh) (loc : locator) (n : nat)
  : dres * cache * nat :=
  match resolve_locator T src c (l_height loc) ((0, l_hash loc) :: locator_prev_tips 0 (l_prev loc)) n with
  | (Err e, c', n') => (DErr e, c', n')
  | (Ok None, c', n') => (DErr (Persistent, "could not resolve any block from BlockLocator"%string), c', n')
  | (Ok (Some found), c', n') =>
    let '(d, n'') := find_diff (fuel_for T current found) T src c' current found [] n' in (d, c', n'')
  end.

(** [validate_best_block_header] *)
Definition validate_best_block_header (T : tree) (src : oracle) (n : nat) : res vh * nat :=
  match o_best src n with
  | TErr e => (Err e, S n)
  | TAns x hint => poller_get_header T src x hint (S n)
  end.

(** First loop of [synchronize_listeners]: per listener, difference and disconnection.
    Result: per-listener (common ancestor height, log), the longest [connected_blocks], cache. *)
Fixpoint init_phase1 (T : tree) (src : oracle) (best : vh) (c : cache) (ls : list locator)
    (most : list vh) (n : nat)
  : option err * list (Z * list event) * list vh * cache * nat :=
  match ls with
  | [] => (None, [], most, c, n)
  | loc :: rest =>
    match find_diff_from_best_block T src c best loc n with
    | (DErr e, c1, n1) => (Some e, [], most, c1, n1)
    | (DOutOfFuel, c1, n1) => (Some (Persistent, "OUT OF FUEL"%string), [], most, c1, n1)
    | (DOk ca asc, c1, n1) =>
      let '(c2, log) := if negb (v_hash ca =? l_hash loc) then disconnect_blocks true c1 ca else (c1, []) in
      let most' := if (List.length most <? List.length asc)%nat then asc else most in
      let '(r, outs, most'', c3, n2) := init_phase1 T src best c2 rest most' n1 in
      (r, (v_height ca, log) :: outs, most'', c3, n2)
    end
  end.

Fixpoint fetch_all (T : tree) (src : oracle) (hs : list vh) (n : nat) : list (vh * res bool) * nat :=
  match hs with
  | [] => ([], n)
  | h :: r =>
    let '(b, n1) := fetch_block T src h n in
    let '(bs, n2) := fetch_all T src r n1 in
    ((h, b) :: bs, n2)
  end.

(** [let block = block_res?; header_cache.block_connected(..)] over the batch, in order. *)
Fixpoint collect_batch (c : cache) (rs : list (vh * res bool)) : res (list (vh * bool)) * cache :=
  match rs with
  | [] => (Ok [], c)
  | (h, Err e) :: _ => (Err e, c)
  | (h, Ok full) :: r =>
    match collect_batch (c_block_connected c h) r with
    | (Ok l, c') => (Ok ((h, full) :: l), c')
    | (Err e, c') => (Err e, c')
    end
  end.

Definition deliver (listener_height : Z) (blocks : list (vh * bool)) : list event :=
  map (fun hb => EConn (v_hash (fst hb)) (v_height (fst hb)) (snd hb))
      (filter (fun hb => listener_height <? v_height (fst hb)) blocks).

(** The [while !most_connected_blocks.is_empty()] loop; [fuel] bounds the number of batches. *)
Fixpoint init_phase2 (fuel : nat) (T : tree) (src : oracle) (c : cache) (outs : list (Z * list event))
    (asc : list vh) (n : nat)
  : option err * list (Z * list event) * cache * nat :=
  match asc with
  | [] => (None, outs, c, n)
  | _ =>
    match fuel with
    | O => (Some (Persistent, "OUT OF FUEL"%string), outs, c, n)
    | S fuel' =>
      let k := Z.to_nat MAX_BLOCKS_AT_ONCE in
      let '(rs, n1) := fetch_all T src (firstn k asc) n in
      match collect_batch c rs with
      | (Err e, c1) => (Some e, outs, c1, n1)
      | (Ok blocks, c1) =>
        let outs' := map (fun hl => (fst hl, snd hl ++ deliver (fst hl) blocks)) outs in
        init_phase2 fuel' T src c1 outs' (skipn k asc) n1
      end
    end
  end.

(** [init::synchronize_listeners]: result, per-listener logs, request counter. *)
Definition synchronize_listeners (T : tree) (src : oracle) (ls : list locator) (n : nat)
  : res (cache * vh) * list (list event) * nat :=
  match validate_best_block_header T src n with
  | (Err e, n0) => (Err e, map (fun _ => []) ls, n0)
  | (Ok best, n0) =>
    match init_phase1 T src best [] ls [] n0 with
    | (Some e, outs, _, _, n1) =>
      (Err e, map snd outs ++ repeat [] (List.length ls - List.length outs), n1)
    | (None, outs, most, c1, n1) =>
      match init_phase2 (List.length most) T src c1 outs most n1 with
      | (Some e, outs', _, n2) => (Err e, map snd outs', n2)
      | (None, outs', c2, n2) => (Ok (c2, best), map snd outs', n2)
      end
    end
  end.

(** * Composed listeners ([impl Listen for (T, U)] and the [Deref] wrappers of chain/mod.rs)
    A composite delivers every notification to every component, first component first.  Leaves are
    numbered left to right; [fan_trace] is the sequence of (leaf, notification) deliveries. *)
Inductive lshape := Leaf | Pair (a b : lshape).
Fixpoint nleaves (sh : lshape) : nat := match sh with Leaf => 1 | Pair a b => nleaves a + nleaves b end.
Fixpoint deliver_comp (sh : lshape) (off : nat) (e : event) : list (nat * event) :=
  match sh with
  | Leaf => [(off, e)]
  | Pair a b => deliver_comp a off e ++ deliver_comp b (off + nleaves a) e
  end.
Definition fan_trace (sh : lshape) (log : list event) : list (nat * event) := flat_map (deliver_comp sh 0) log.
Definition leaf_log (i : nat) (tr : list (nat * event)) : list event :=
  map snd (filter (fun p => Nat.eqb (fst p) i) tr).
Definition leaf_logs (sh : lshape) (log : list event) : list (list event) :=
  match sh with
  | Leaf => [log]   (* = the general case below ([leaf_logs_all]); spelled out to keep very long logs cheap *)
  | _ => map (fun i => leaf_log i (fan_trace sh log)) (seq 0 (nleaves sh))
  end.

(** * A scripted source over the universe: truthful except at scripted request indices. *)
(** [FS y dh dw]: answer as for block [y] with height/chainwork claims shifted; [FF dh dw]: answer for
    the requested block itself with shifted claims; [FM]: corrupt the transaction list; [FH]: flip
    full block / header only. *)
Inductive fault := FT | FP | FS (y dh dw : Z) | FF (dh dw : Z) | FM | FH.

Definition scripted (T : tree) (best : Z) (hint full : bool) (sc : nat -> option fault) : oracle :=
  {| o_best := fun n =>
       match sc n with
       | Some FT => TErr (Transient, "scripted transient"%string)
       | Some FP => TErr (Persistent, "scripted persistent"%string)
       | f =>
         let '(b, dh) := match f with Some (FS y dh _) => (y, dh) | Some (FF dh _) => (best, dh) | _ => (best, 0) end in
         match T b with
         | Some nd => TAns b (if hint then Some (Z.max 0 (n_height nd + dh)) else None)
         | None => TAns b None
         end
       end;
     o_header := fun n q _ =>
       match sc n with
       | Some FT => HErr (Transient, "scripted transient"%string)
       | Some FP => HErr (Persistent, "scripted persistent"%string)
       | f =>
         let '(y, dh, dw) := match f with Some (FS y dh dw) => (y, dh, dw) | Some (FF dh dw) => (q, dh, dw) | _ => (q, 0, 0) end in
         match T y with
         | Some nd => HAns y (Z.max 0 (n_height nd + dh)) (Z.max 0 (n_cwork nd + dw))
         | None => HErr (Transient, "header not found"%string)
         end
       end;
     o_block := fun n q =>
       match sc n with
       | Some FT => BErr (Transient, "scripted transient"%string)
       | Some FP => BErr (Persistent, "scripted persistent"%string)
       | f =>
         let y := match f with Some (FS y _ _) => y | _ => q end in
         let corrupt := match f with Some FM => true | _ => false end in
         let full' := match f with Some FH => negb full | _ => full end in
         match T y with
         | Some _ => BAns y full' (negb corrupt)
         | None => BErr (Transient, "block not found"%string)
         end
       end |}.

(** * Finite universes and printing (correspondence driver) *)
Definition tree_of_list (l : list (Z * node)) : tree :=
  let m := fold_left (fun m kv => PositiveMap.add (Z.to_pos (fst kv)) (snd kv) m) l (PositiveMap.empty node) in
  fun x => if x <=? 0 then None else PositiveMap.find (Z.to_pos x) m.

(** The same universe as a plain association list (first binding wins), with a boolean
    well-formedness check that is evaluated on every generated tree of real headers. *)
Definition tree_of_assoc (l : list (Z * node)) : tree :=
  fun x => option_map snd (find (fun kv => fst kv =? x) l).
Definition wf_listb (l : list (Z * node)) : bool :=
  forallb (fun kv =>
    let nd := snd kv in
    (0 <=? n_height nd) &&
    match tree_of_assoc l (n_prev nd) with
    | None => true
    | Some p => (n_height p =? n_height nd - 1) && (n_cwork nd =? n_cwork p + n_bwork nd)
    end) l.

Definition script_of_list (l : list (Z * fault)) : nat -> option fault :=
  let m := fold_left (fun m kv => PositiveMap.add (Z.to_pos (fst kv + 1)) (snd kv) m) l (PositiveMap.empty fault) in
  fun n => PositiveMap.find (Pos.of_succ_nat n) m.

Definition true_vh (x : Z) (nd : node) : vh :=
  {| v_hash := x; v_prev := n_prev nd; v_bwork := n_bwork nd; v_height := n_height nd; v_cwork := n_cwork nd |}.
Definition tv (T : tree) (x : Z) : vh :=
  match T x with Some nd => true_vh x nd | None => true_vh x {| n_prev := 0; n_height := 0; n_bwork := 0; n_cwork := 0; n_pow := false; n_wit := false |} end.

Local Open Scope string_scope.
Definition zs (z : Z) : string := NilZero.string_of_int (Z.to_int z).
Definition ns (n : nat) : string := zs (Z.of_nat n).
Fixpoint underscore (s : string) : string :=
  match s with
  | EmptyString => EmptyString
  | String c r => String (if Ascii.eqb c " "%char then "_"%char else c) (underscore r)
  end.
Definition show_err (e : err) : string :=
  (match fst e with Transient => "ET:" | Persistent => "EP:" end) ++ underscore (snd e).
Definition show_event (e : event) : string :=
  match e with
  | EDisc x h => "D" ++ zs x ++ "@" ++ zs h
  | EConn x h true => "C" ++ zs x ++ "@" ++ zs h
  | EConn x h false => "c" ++ zs x ++ "@" ++ zs h
  end.
Definition show_log (l : list event) : string := String.concat " " (map show_event l).
Definition show_vh (v : vh) : string := zs (v_hash v) ++ "@" ++ zs (v_height v) ++ "w" ++ zs (v_cwork v).
Definition show_poll_rc (r : res (chaintip * bool)) : string :=
  match r with
  | Err e => show_err e
  | Ok (Common, _) => "C"
  | Ok (Better v, b) => "B" ++ show_vh v ++ (if b then "+" else "-")
  | Ok (Worse v, b) => "W" ++ show_vh v ++ (if b then "+" else "-")
  end.

(** One scenario = start state + list of polls [(best, hint)] under one global fault script; the
    listener(s) are composites given by their shapes, one printed log per leaf. *)
Fixpoint run_polls (T : tree) (full : bool) (sc : nat -> option fault) (shapes : list lshape) (cl : client) (n : nat)
    (polls : list (Z * bool)) : list string :=
  match polls with
  | [] => []
  | (best, hint) :: rest =>
    let '(r, cl', log, n') := poll_best_tip T (scripted T best hint full sc) cl n in
    ("P " ++ show_poll_rc r ++ " " ++ ns n' ++ " | "
       ++ String.concat " | " (map show_log (flat_map (fun sh => leaf_logs sh log) shapes)))
      :: run_polls T full sc shapes cl' n' rest
  end.

Definition run_spv (T : tree) (full : bool) (start : Z) (shape : lshape) (faults : list (Z * fault)) (polls : list (Z * bool))
  : list string :=
  run_polls T full (script_of_list faults) [shape] {| cl_tip := tv T start; cl_cache := [] |} 0%nat polls.

Definition run_init (T : tree) (full : bool) (ls : list locator) (shapes : list lshape) (faults : list (Z * fault))
    (sync : Z * bool) (polls : list (Z * bool)) : list string :=
  let sc := script_of_list faults in
  let '(r, logs, n) := synchronize_listeners T (scripted T (fst sync) (snd sync) full sc) ls 0%nat in
  let per_leaf := flat_map (fun sl => leaf_logs (fst sl) (snd sl)) (combine shapes logs) in
  let line := "S " ++ (match r with Err e => show_err e | Ok (_, tip) => "Ok" ++ show_vh tip end)
              ++ " " ++ ns n ++ " | " ++ String.concat " | " (map show_log per_leaf) in
  match r with
  | Err _ => line :: map (fun _ => "P X") polls
  | Ok (c, tip) => line :: run_polls T full sc shapes {| cl_tip := tip; cl_cache := c |} n polls
  end.
