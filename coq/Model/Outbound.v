(** C03 — executable model of [OutboundPayments] (lightning/src/ln/outbound_payment.rs).

    A close transliteration, function by function and branch by branch, of
    [PendingOutboundPayment] with its [mark_fulfilled]/[mark_abandoned]/[remove]/[insert], and of
    [add_new_pending_payment]/[create_pending_payment], [add_new_awaiting_invoice],
    [send_payment] ([find_initial_route] -> add -> [pay_route_internal] -> [handle_pay_route_err]),
    [find_route_and_send_payment], [check_retry_payments], [claim_htlc], [finalize_claims],
    [fail_htlc], [abandon_payment], [remove_stale_payments], [insert_from_monitor_on_startup].

    Conventions. Payment ids, payment hashes/preimages and session privs are interned to [Z] by the
    harness. The router and [send_payment_along_path] are scripted: a router answer [ARoute k fees
    over res] splits the requested value into [k] paths with the given per-path fees and the given
    per-path result of [send_payment_along_path]. Session privs are allocated from the counter
    [ctr] (the harness' entropy source does the same). [htl] records for every allocated session
    priv the [HTLCSource] it belongs to (payment id, hash, path amount and fee): in the
    implementation this triple travels with the HTLC through the channel and the monitor and is
    what [claim_htlc]/[fail_htlc]/[insert_from_monitor_on_startup] are called with.

    Outputs are the [Event] constructors plus a few ghost markers ([OCreated], [OClaimHit],
    [OGone], [ONew]) which the theorems use to delimit the lifetime of a map entry.

    Not modelled: [Retry::Timeout] (wall clock), [Legacy], [AwaitingOffer], [InvoiceReceived],
    [StaticInvoiceReceived] entries, BOLT 12 invoices, blinded tails, trampoline, the
    [previously_failed_channels] bookkeeping inside [PaymentParameters], event completion actions.
    No proofs in this file. *)
Require Import LdkV.Prim.U64 LdkV.Gen.ConstsC03.
Open Scope Z_scope.

(** [PaymentFailureReason] *)
Definition R_RecipientRejected : Z := 0.
Definition R_UserAbandoned : Z := 1.
Definition R_RetriesExhausted : Z := 2.
Definition R_PaymentExpired : Z := 3.
Definition R_RouteNotFound : Z := 4.
Definition R_UnexpectedError : Z := 5.
Definition R_InvoiceRequestExpired : Z := 7.

(** [PendingOutboundPayment]. [retry]: [None] = manual retries, [Some n] = [Retry::Attempts(n)]. *)
Inductive payment : Type :=
| Retryable (retry : option Z) (attempts : Z) (has_params : bool) (parts : list Z) (hash : Z)
            (pending_amt : Z) (pending_fee : option Z) (total : Z) (rem_fee : option Z)
| Fulfilled (parts : list Z) (hash : option Z) (ticks : Z) (total : option Z) (fee : option Z)
| Abandoned (parts : list Z) (hash : Z) (reason : option Z) (total : option Z) (fee : option Z)
| AwaitingInvoice (ticks_remaining : Z) (retry : Z).

Inductive event : Type :=
| EvSent (id pre : Z) (amt fee : option Z)
| EvFailed (id : Z) (hash reason : option Z)
| EvPathOk (id sp : Z)
| EvPathFailed (id sp : Z) (perm initial : bool)
| EvProbeOk (id sp : Z)
| EvProbeFailed (id sp : Z).

(** send_payment_along_path results: Ok, Err(ChannelUnavailable), Err(MonitorUpdateInProgress) *)
Inductive sres : Type := SOk | SUnavail | SMuip.

Inductive out : Type :=
| OEv (e : event)
| OCreated (id : Z)                          (* ghost: a new map entry for [id] *)
| OClaimHit (id : Z)                         (* ghost: claim_htlc found an entry for [id] *)
| ONew (sp id hash amt fee : Z) (r : sres)   (* ghost: session priv allocated for a path *)
| ORes (r : Z)                               (* 0 Ok, 1 DuplicatePayment, 2 RouteNotFound *)
| OGone (id why : Z)                         (* ghost: the entry of [id] was removed without a
                                                PaymentFailed: 0 idempotency timeout, 1 probe resolved *)
| OPanic.                                    (* a debug_assert!/assert! of the Rust code fires *)

Inductive ans : Type :=
| ANoRoute
| ARoute (k : nat) (fees : list Z) (over : Z) (res : list sres).

Record hinfo : Type := { h_id : Z; h_hash : Z; h_amt : Z; h_fee : Z }.

Record state : Type := {
  pm : list (Z * payment);   (* pending_outbound_payments, sorted by id *)
  evq : list event;          (* pending_events (oldest first) *)
  ctr : Z;                   (* next session priv *)
  htl : list (Z * hinfo)     (* ghost: HTLCSource of every session priv handed out *)
}.

Definition init : state := {| pm := []; evq := []; ctr := 1; htl := [] |}.

(** ** association lists *)
Fixpoint get {A} (k : Z) (m : list (Z * A)) : option A :=
  match m with
  | [] => None
  | (k', v) :: t => if k =? k' then Some v else get k t
  end.

Fixpoint del {A} (k : Z) (m : list (Z * A)) : list (Z * A) :=
  match m with
  | [] => []
  | (k', v) :: t => if k =? k' then del k t else (k', v) :: del k t
  end.

Fixpoint ins {A} (k : Z) (v : A) (m : list (Z * A)) : list (Z * A) :=
  match m with
  | [] => [(k, v)]
  | (k', v') :: t => if k <? k' then (k, v) :: (k', v') :: t
                     else if k =? k' then (k, v) :: t
                     else (k', v') :: ins k v t
  end.

Definition set {A} (k : Z) (o : option A) (m : list (Z * A)) : list (Z * A) :=
  match o with Some v => ins k v m | None => del k m end.

(** the distinct keys (a HashMap has every key once) *)
Definition keys {A} (m : list (Z * A)) : list Z := nodup Z.eq_dec (map fst m).

(** ** session-priv sets *)
Definition mem (x : Z) (l : list Z) : bool := existsb (Z.eqb x) l.
Fixpoint rm (x : Z) (l : list Z) : list Z :=
  match l with [] => [] | y :: t => if x =? y then t else y :: rm x t end.
Definition is_nil {A} (l : list A) : bool := match l with [] => true | _ => false end.

(** ** PendingOutboundPayment methods *)
Definition parts_of (p : payment) : list Z :=
  match p with
  | Retryable _ _ _ parts _ _ _ _ _ => parts
  | Fulfilled parts _ _ _ _ => parts
  | Abandoned parts _ _ _ _ => parts
  | AwaitingInvoice _ _ => []
  end.

Definition is_fulfilled (p : payment) : bool := match p with Fulfilled _ _ _ _ _ => true | _ => false end.
Definition is_abandoned (p : payment) : bool := match p with Abandoned _ _ _ _ _ => true | _ => false end.
Definition is_awaiting (p : payment) : bool := match p with AwaitingInvoice _ _ => true | _ => false end.

Definition is_auto_retryable_now (p : payment) : bool :=
  match p with
  | Retryable (Some n) attempts true _ _ _ _ _ _ => attempts <? n
  | _ => false
  end.

Definition is_retryable_now (p : payment) : bool :=
  match p with
  | Retryable None _ _ _ _ _ _ _ _ => true
  | Retryable (Some n) attempts _ _ _ _ _ _ _ => attempts <? n
  | _ => false
  end.

Definition get_pending_fee (p : payment) : option Z :=
  match p with
  | Retryable _ _ _ _ _ _ pf _ _ => pf
  | Abandoned _ _ _ _ fee => fee
  | Fulfilled _ _ _ _ fee => fee
  | AwaitingInvoice _ _ => None
  end.

Definition total_msat (p : payment) : option Z :=
  match p with
  | Retryable _ _ _ _ _ _ _ tot _ => Some tot
  | Fulfilled _ _ _ tot _ => tot
  | Abandoned _ _ _ tot _ => tot
  | AwaitingInvoice _ _ => None
  end.

Definition payment_hash (p : payment) : option Z :=
  match p with
  | Retryable _ _ _ _ h _ _ _ _ => Some h
  | Fulfilled _ h _ _ _ => h
  | Abandoned _ h _ _ _ => Some h
  | AwaitingInvoice _ _ => None
  end.

(** [mark_fulfilled]; on a pre-HTLC entry the Rust code hits [debug_assert!(false)] (callers in
    this model never do that: see [claim_t]). *)
Definition mark_fulfilled (p : payment) : payment :=
  match p with
  | AwaitingInvoice _ _ => p
  | _ => Fulfilled (parts_of p) (payment_hash p) 0 (total_msat p) (get_pending_fee p)
  end.

Definition mark_abandoned (p : payment) (reason : Z) : payment :=
  match p with
  | Retryable _ _ _ parts h _ pf tot _ => Abandoned parts h (Some reason) (Some tot) pf
  | _ => p
  end.

(** [remove(session_priv, Some(path))] with [path.final_value_msat() = amt], [path.fee_msat() = fee] *)
Definition pm_remove (p : payment) (sp amt fee : Z) : payment * bool :=
  match p with
  | Retryable r a hp parts h pa pf tot rf =>
      if mem sp parts then
        (Retryable r a hp (rm sp parts) h (pa - amt) (option_map (fun f => f - fee) pf) tot
                   (option_map (fun m => sat_add 64 m fee) rf), true)
      else (p, false)
  | Fulfilled parts h t tot f =>
      if mem sp parts then (Fulfilled (rm sp parts) h t tot f, true) else (p, false)
  | Abandoned parts h r tot f =>
      (* the fee preserved from Retryable only covers the parts still in flight *)
      if mem sp parts then (Abandoned (rm sp parts) h r tot (option_map (fun x => sat_sub x fee) f), true) else (p, false)
  | AwaitingInvoice _ _ => (p, false)
  end.

Definition pm_insert (p : payment) (sp amt fee : Z) : payment * bool :=
  match p with
  | Retryable r a hp parts h pa pf tot rf =>
      if mem sp parts then (p, false)
      else (Retryable r a hp (parts ++ [sp]) h (pa + amt) (option_map (fun f => f + fee) pf) tot
                      (option_map (fun m => sat_sub m fee) rf), true)
  | _ => (p, false)
  end.

Definition inc_attempts (p : payment) : payment :=
  match p with
  | Retryable r a hp parts h pa pf tot rf => Retryable r (a + 1) hp parts h pa pf tot rf
  | _ => p
  end.

(** ** per-entry transitions: [ctr -> entry -> entry' * outputs] *)
Definition etrans : Type := Z -> option payment -> option payment * list out.

(** [abandon_payment] (also the [abandon_with_entry!] macro of find_route_and_send_payment) *)
Definition abandon_t (id reason : Z) : etrans := fun _ e =>
  match e with
  | None => (None, [])
  | Some p =>
      match mark_abandoned p reason with
      | Abandoned parts h r tot f =>
          if is_nil parts then (None, [OEv (EvFailed id (Some h) r)])
          else (Some (Abandoned parts h r tot f), [])
      | AwaitingInvoice _ _ => (None, [OEv (EvFailed id None (Some reason))])
      | p' => (Some p', [])
      end
  end.

(** [claim_htlc] *)
Definition claim_t (id pre sp amt fee : Z) (from_onchain : bool) : etrans := fun _ e =>
  match e with
  | None => (None, [])
  | Some (AwaitingInvoice _ _) => (e, [OPanic])
  | Some p =>
      let '(p1, ev1) :=
        if is_fulfilled p then (p, [])
        else (mark_fulfilled p, [OEv (EvSent id pre (total_msat p) (get_pending_fee p))]) in
      if from_onchain then
        let '(p2, removed) := pm_remove p1 sp amt fee in
        (Some p2, ev1 ++ (if removed then [OEv (EvPathOk id sp)] else []) ++ [OClaimHit id])
      else (Some p1, ev1 ++ [OClaimHit id])
  end.

(** [finalize_claims], one source *)
Definition finalize_t (id sp : Z) : etrans := fun _ e =>
  match e with
  | None => (None, [])
  | Some p =>
      if is_fulfilled p then
        let '(p1, removed) := pm_remove p sp 0 0 in
        (Some p1, if removed then [OEv (EvPathOk id sp)] else [])
      else (e, [OPanic])
  end.

(** [fail_htlc]; [perm] = the decoded [payment_failed_permanently], [probe] = [payment_is_probe] *)
Definition fail_t (id sp amt fee : Z) (perm probe : bool) : etrans := fun _ e =>
  match e with
  | None => (None, [])
  | Some (AwaitingInvoice _ _) => (e, [OPanic])
  | Some p =>
      let '(p1, removed) := pm_remove p sp amt fee in
      if negb removed then (e, [])
      else if is_fulfilled p1 then (Some p1, [])
      else
        let p2 :=
          if probe || negb (is_auto_retryable_now p1) || perm
          then mark_abandoned p1 (if perm then R_RecipientRejected else R_RetriesExhausted)
          else p1 in
        let pathev :=
          if probe then (if perm then EvProbeOk id sp else EvProbeFailed id sp)
          else EvPathFailed id sp perm false in
        if is_nil (parts_of p2) then
          match p2 with
          | Abandoned _ h r _ _ =>
              (None, OEv pathev :: (if probe then [OGone id 1] else [OEv (EvFailed id (Some h) r)]))
          | _ => (Some p2, [OEv pathev])
          end
        else (Some p2, [OEv pathev])
  end.

(** [remove_stale_payments], one entry; [q] = the pending events *)
Definition ev_related (id : Z) (ev : event) : bool :=
  match ev with
  | EvSent i _ _ _ => i =? id
  | EvPathOk i _ => i =? id
  | EvPathFailed i _ _ _ => i =? id
  | _ => false
  end.

Definition tick_t (q : list event) (id : Z) : etrans := fun _ e =>
  match e with
  | Some (Fulfilled parts h ticks tot f) =>
      let no_remaining_entries := is_nil parts && negb (existsb (ev_related id) q) in
      if no_remaining_entries then
        if ticks + 1 <=? IDEMPOTENCY_TIMEOUT_TICKS then (Some (Fulfilled parts h (ticks + 1) tot f), [])
        else (None, [OGone id 0])
      else (Some (Fulfilled parts h 0 tot f), [])
  | Some (AwaitingInvoice n r) =>
      if 0 <? n then (Some (AwaitingInvoice (n - 1) r), [])
      else (None, [OEv (EvFailed id None (Some R_InvoiceRequestExpired))])
  | _ => (e, [])
  end.

(** [insert_from_monitor_on_startup] *)
Definition startup_t (id hash sp amt fee : Z) : etrans := fun _ e =>
  let new_retryable := Retryable None 0 false [sp] hash amt (Some fee) amt None in
  match e with
  | None => (Some new_retryable, [OCreated id])
  | Some (AwaitingInvoice _ _) => (Some new_retryable, [])
  | Some p => (Some (fst (pm_insert p sp amt fee)), [])
  end.

(** the final [retain] pass of [check_retry_payments] *)
Definition retain_t (id : Z) : etrans := fun _ e =>
  match e with
  | None => (None, [])
  | Some p =>
      if negb (is_auto_retryable_now p) && is_nil (parts_of p) && negb (is_awaiting p) then
        match mark_abandoned p R_RetriesExhausted with
        | Abandoned _ h r _ _ => (None, [OEv (EvFailed id (Some h) r)])
        | p' => (Some p', [])
        end
      else (e, [])
  end.

(** ** routes *)
Definition sum (l : list Z) : Z := fold_right Z.add 0 l.

(** the scripted router: [k] paths for [fv] msat *)
Definition split_amts (fv : Z) (k : nat) (over : Z) : list Z :=
  let q := fv / Z.of_nat k in
  repeat q (k - 1) ++ [fv - Z.of_nat (k - 1) * q + over].

Record pathr : Type := { pr_amt : Z; pr_fee : Z; pr_res : sres }.

Fixpoint zip_paths (amts fees : list Z) (res : list sres) : list pathr :=
  match amts with
  | [] => []
  | a :: amts' =>
      {| pr_amt := a; pr_fee := hd 0 fees; pr_res := hd SOk res |} :: zip_paths amts' (tl fees) (tl res)
  end.

Definition paths_of (fv : Z) (k : nat) (fees : list Z) (over : Z) (res : list sres) : list pathr :=
  zip_paths (split_amts fv k over) fees res.

Definition unsent (r : sres) : bool := match r with SUnavail => true | _ => false end.
Definition is_sok (r : sres) : bool := match r with SOk => true | _ => false end.

(** insert every path with a fresh session priv ([ctr], [ctr+1], ...) *)
Fixpoint insert_all (id hash : Z) (p : payment) (sp : Z) (paths : list pathr) : payment * list out :=
  match paths with
  | [] => (p, [])
  | x :: t =>
      let p1 := fst (pm_insert p sp (pr_amt x) (pr_fee x)) in
      let '(p2, outs) := insert_all id hash p1 (sp + 1) t in
      (p2, ONew sp id hash (pr_amt x) (pr_fee x) (pr_res x) :: outs)
  end.

(** [remove_session_privs] + [push_path_failed_evs_and_scids] for the paths that were not sent *)
Fixpoint drop_unsent (id : Z) (p : payment) (sp : Z) (paths : list pathr) : payment * list out :=
  match paths with
  | [] => (p, [])
  | x :: t =>
      if unsent (pr_res x) then
        let p1 := fst (pm_remove p sp (pr_amt x) (pr_fee x)) in
        let '(p2, outs) := drop_unsent id p1 (sp + 1) t in
        (p2, OEv (EvPathFailed id sp false true) :: outs)
      else drop_unsent id p (sp + 1) t
  end.

Definition ok_amt (paths : list pathr) : Z :=
  sum (map (fun x => if unsent (pr_res x) then 0 else pr_amt x) paths).
Definition ok_fee (paths : list pathr) : Z :=
  sum (map (fun x => if unsent (pr_res x) then 0 else pr_fee x) paths).

(** [pay_route_internal]'s classification of the per-path results followed by
    [handle_pay_route_err]; [cont] is the recursive [find_route_and_send_payment]. *)
Definition after_pay {R} (cont : option payment -> Z -> option Z -> R) (done : option payment -> R)
    (id : Z) (p : payment) (sp0 : Z) (paths : list pathr) (fv : Z) (mf : option Z)
    : list out * R :=
  let has_ok := existsb (fun x => negb (unsent (pr_res x))) paths in
  let has_err := existsb (fun x => negb (is_sok (pr_res x))) paths in
  let has_unsent := existsb (fun x => unsent (pr_res x)) paths in
  if has_err && has_ok then
    if has_unsent then
      let '(p1, evs) := drop_unsent id p sp0 paths in
      (evs, cont (Some p1) (sat_sub fv (ok_amt paths)) (option_map (fun m => sat_sub m (ok_fee paths)) mf))
    else ([], done (Some p))
  else if has_err then
    let '(p1, evs) := drop_unsent id p sp0 paths in
    (evs, cont (Some p1) fv mf)
  else ([], done (Some p)).

Definition count_new (outs : list out) : Z :=
  Z.of_nat (List.length (filter (fun o => match o with ONew _ _ _ _ _ _ => true | _ => false end) outs)).

(** [find_route_and_send_payment]. The router is asked first, whatever the entry looks like; the
    remaining answers are returned. *)
Fixpoint frs (answers : list ans) (id : Z) (e : option payment) (ctr fv : Z) (mf : option Z)
    {struct answers} : option payment * list out * list ans :=
  match answers with
  | [] => (abandon_t id R_RouteNotFound ctr e, [])
  | ANoRoute :: rest => (abandon_t id R_RouteNotFound ctr e, rest)
  | ARoute k fees over res :: rest =>
      match e with
      | Some (Retryable r a hp parts h pa pf tot rf as p) =>
          let paths := paths_of fv k fees over res in
          let retry_amt := sum (map pr_amt paths) in
          if tot * 110 / 100 <? retry_amt + pa then (abandon_t id R_UnexpectedError ctr e, rest)
          else if negb (is_retryable_now p) then (abandon_t id R_RetriesExhausted ctr e, rest)
          else
            let '(p1, news) := insert_all id h p ctr paths in
            let p2 := inc_attempts p1 in
            let ctr' := ctr + Z.of_nat (List.length paths) in
            let '(evs, (e', outs, rest')) :=
              after_pay (fun e1 fv1 mf1 => frs rest id e1 ctr' fv1 mf1) (fun e1 => (e1, [], rest))
                        id p2 ctr paths fv mf in
            (e', news ++ evs ++ outs, rest')
      | _ => (e, [], rest)
      end
  end.

(** the first loop of [check_retry_payments], for one entry *)
Fixpoint retry_loop (fuel : nat) (answers : list ans) (id : Z) (e : option payment) (ctr : Z)
    : option payment * list out :=
  match fuel with
  | O => (e, [])
  | S f =>
      match e with
      | Some (Retryable r a hp parts h pa pf tot rf as p) =>
          if is_auto_retryable_now p && (pa <? tot) then
            let '(e1, outs1, rest) := frs answers id e ctr (tot - pa) rf in
            let '(e2, outs2) := retry_loop f rest id e1 (ctr + count_new outs1) in
            (e2, outs1 ++ outs2)
          else (e, [])
      | _ => (e, [])
      end
  end.

Definition retry_t (answers : list ans) (id : Z) : etrans := fun ctr e =>
  retry_loop (S (List.length answers)) answers id e ctr.

(** [add_new_pending_payment] / [create_pending_payment] with an explicit route *)
Definition add_t (id hash : Z) (retry : option Z) (paths : list (Z * Z)) (mf : option Z) : etrans :=
  fun ctr e =>
  match e with
  | Some _ => (e, [ORes 1])
  | None =>
      let ps := map (fun af => {| pr_amt := fst af; pr_fee := snd af; pr_res := SOk |}) paths in
      let p0 := Retryable retry 0 true [] hash 0 (Some 0) (sum (map pr_amt ps)) mf in
      let '(p1, news) := insert_all id hash p0 ctr ps in
      (Some p1, OCreated id :: ORes 0 :: news)
  end.

(** [add_new_awaiting_invoice] *)
Definition await_t (id ticks retry : Z) : etrans := fun _ e =>
  match e with
  | Some _ => (e, [ORes 1])
  | None => (Some (AwaitingInvoice ticks retry), [OCreated id; ORes 0])
  end.

(** [send_payment]: find_initial_route, add_new_pending_payment, pay_route_internal,
    handle_pay_route_err *)
Definition send_t (id hash retry amt : Z) (mf : option Z) (answers : list ans) : etrans := fun ctr e =>
  match answers with
  | [] | ANoRoute :: _ => (e, [ORes 2])
  | ARoute k fees over res :: rest =>
      match e with
      | Some _ => (e, [ORes 1])
      | None =>
          let paths := paths_of amt k fees over res in
          let p0 := Retryable (Some retry) 0 true [] hash 0 (Some 0) (sum (map pr_amt paths)) mf in
          let '(p1, news) := insert_all id hash p0 ctr paths in
          let ctr' := ctr + Z.of_nat (List.length paths) in
          let '(evs, (e', outs, _)) :=
            after_pay (fun e1 fv1 mf1 => frs rest id e1 ctr' fv1 mf1) (fun e1 => (e1, [], rest))
                      id p1 ctr paths amt mf in
          (e', OCreated id :: ORes 0 :: news ++ evs ++ outs)
      end
  end.

(** ** operations *)
Inductive op : Type :=
| OpAdd (id hash : Z) (retry : option Z) (paths : list (Z * Z)) (mf : option Z)
| OpAwait (id ticks retry : Z)
| OpSend (id hash retry amt : Z) (mf : option Z) (answers : list ans)
| OpCheckRetry (answers : list (Z * list ans))
| OpClaim (sp pre : Z) (from_onchain : bool)
| OpFinalize (sps : list Z)
| OpFail (sp : Z) (perm probe : bool)
| OpAbandon (id reason : Z)
| OpTick
| OpHandle (n : nat)
| OpStartup (sp : Z).

Definition events_of (outs : list out) : list event :=
  flat_map (fun o => match o with OEv e => [e] | _ => [] end) outs.

Definition news_of (outs : list out) : list (Z * hinfo) :=
  flat_map (fun o => match o with
                     | ONew sp id hash amt fee _ => [(sp, {| h_id := id; h_hash := hash; h_amt := amt; h_fee := fee |})]
                     | _ => [] end) outs.

Definition apply_e (id : Z) (t : etrans) (s : state) : state * list out :=
  let '(o, outs) := t (ctr s) (get id (pm s)) in
  ({| pm := set id o (pm s); evq := evq s ++ events_of outs; ctr := ctr s + count_new outs;
      htl := htl s ++ news_of outs |}, outs).

(** run a transition per id, left to right *)
Fixpoint apply_each (ids : list Z) (t : state -> Z -> etrans) (s : state) : state * list out :=
  match ids with
  | [] => (s, [])
  | id :: rest =>
      let '(s1, o1) := apply_e id (t s id) s in
      let '(s2, o2) := apply_each rest t s1 in
      (s2, o1 ++ o2)
  end.

Definition answers_for (id : Z) (l : list (Z * list ans)) : list ans :=
  match get id l with Some a => a | None => [] end.

Definition with_htlc (s : state) (sp : Z) (f : hinfo -> state * list out) : state * list out :=
  match get sp (htl s) with
  | Some h => f h
  | None => (s, [])
  end.

Definition step (s : state) (o : op) : state * list out :=
  match o with
  | OpAdd id hash retry paths mf => apply_e id (add_t id hash retry paths mf) s
  | OpAwait id ticks retry => apply_e id (await_t id ticks retry) s
  | OpSend id hash retry amt mf answers => apply_e id (send_t id hash retry amt mf answers) s
  | OpCheckRetry answers =>
      let '(s1, o1) := apply_each (keys (pm s)) (fun _ id => retry_t (answers_for id answers) id) s in
      let '(s2, o2) := apply_each (keys (pm s1)) (fun _ id => retain_t id) s1 in
      (s2, o1 ++ o2)
  | OpClaim sp pre from_onchain =>
      with_htlc s sp (fun h => apply_e (h_id h) (claim_t (h_id h) pre sp (h_amt h) (h_fee h) from_onchain) s)
  | OpFinalize sps =>
      fold_left (fun acc sp =>
                   let '(s0, o0) := acc in
                   let '(s1, o1) := with_htlc s0 sp (fun h => apply_e (h_id h) (finalize_t (h_id h) sp) s0) in
                   (s1, o0 ++ o1)) sps (s, [])
  | OpFail sp perm probe =>
      with_htlc s sp (fun h => apply_e (h_id h) (fail_t (h_id h) sp (h_amt h) (h_fee h) perm probe) s)
  | OpAbandon id reason => apply_e id (abandon_t id reason) s
  | OpTick => apply_each (keys (pm s)) (fun s0 id => tick_t (evq s0) id) s
  | OpHandle n =>
      ({| pm := pm s; evq := skipn n (evq s); ctr := ctr s; htl := htl s |}, [])
  | OpStartup sp =>
      with_htlc s sp (fun h => apply_e (h_id h) (startup_t (h_id h) (h_hash h) sp (h_amt h) (h_fee h)) s)
  end.

(** [run s ops]: final state and the outputs of every operation, in order *)
Fixpoint run (s : state) (ops : list op) : state * list (list out) :=
  match ops with
  | [] => (s, [])
  | o :: rest =>
      let '(s1, outs) := step s o in
      let '(s2, tr) := run s1 rest in
      (s2, outs :: tr)
  end.

Definition trace (ops : list op) : list out := List.concat (snd (run init ops)).

(** ** canonical rendering for the correspondence check *)
Definition oz (o : option Z) : Z := match o with Some z => z | None => -1 end.
Definition bz (b : bool) : Z := if b then 1 else 0.

Fixpoint insert_sorted (x : Z) (l : list Z) : list Z :=
  match l with [] => [x] | y :: t => if x <=? y then x :: l else y :: insert_sorted x t end.
Definition sort (l : list Z) : list Z := fold_right insert_sorted [] l.

(** [id; kind; retry; attempts; has_params; hash; pending_amt; pending_fee; total; rem_fee; ticks;
    reason; expiration_ticks] ++ sorted parts *)
Definition show_payment (id : Z) (p : payment) : list Z :=
  match p with
  | Retryable r a hp parts h pa pf tot rf =>
      [id; 0; oz r; a; bz hp; h; pa; oz pf; tot; oz rf; -1; -1; -1] ++ sort parts
  | Fulfilled parts h t tot f =>
      [id; 1; -1; 0; 0; oz h; -1; oz f; oz tot; -1; t; -1; -1] ++ sort parts
  | Abandoned parts h r tot f =>
      [id; 2; -1; 0; 0; h; -1; oz f; oz tot; -1; -1; oz r; -1] ++ sort parts
  | AwaitingInvoice n r =>
      [id; 3; r; 0; 0; -1; -1; -1; -1; -1; -1; -1; n]
  end.

Definition show_event (e : event) : list Z :=
  match e with
  | EvSent id pre amt fee => [1; id; pre; oz amt; oz fee]
  | EvFailed id h r => [2; id; oz h; oz r]
  | EvPathOk id sp => [3; id; sp]
  | EvPathFailed id sp perm initial => [4; id; sp; bz perm; bz initial]
  | EvProbeOk id sp => [5; id; sp]
  | EvProbeFailed id sp => [6; id; sp]
  end.

Definition sres_z (r : sres) : Z := match r with SOk => 0 | SUnavail => 1 | SMuip => 2 end.

Definition show_out (o : out) : list Z :=
  match o with
  | OEv e => show_event e
  | OCreated id => [10; id]
  | OClaimHit id => [11; id]
  | ONew sp id hash amt fee r => [12; id; sp; hash; amt; fee; sres_z r]
  | ORes r => [13; r]
  | OPanic => [14]
  | OGone id why => [15; id; why]
  end.

Definition show_state (s : state) : list (list Z) :=
  map (fun kv => show_payment (fst kv) (snd kv)) (pm s) ++ [[-2; Z.of_nat (List.length (evq s)); ctr s]].

(** per operation: the outputs, a separator [[-3]], then the state *)
Fixpoint run_show (s : state) (ops : list op) : list (list (list Z)) :=
  match ops with
  | [] => []
  | o :: rest =>
      let '(s1, outs) := step s o in
      (map show_out outs ++ [[-3]] ++ show_state s1) :: run_show s1 rest
  end.
