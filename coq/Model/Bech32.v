(** Model of the parts of the [bech32] crate (0.11.1) that [lightning-invoice] and
    [lightning::offers::parse] rely on: character set, character/case validation, human-readable
    part validation and expansion, the BCH checksum engine, checksum creation and verification,
    and the 8-bit <-> 5-bit regrouping with the two padding disciplines the callers use.

    Conventions.  A string is the list of its Unicode code points ([Z]); a field element ("fe",
    a bech32 symbol) is a [Z] in [0,32); the checksum residue is a [Z] in [0,2^30) (the crate keeps
    it in a [u32]).  No proofs in this file; see [Proofs/C18Bech32.v]. *)
Require Import LdkV.Prim.U64.
Open Scope Z_scope.

(** ** Character set ([primitives/gf32.rs]: [CHARS_LOWER], [CHARS_INV]) *)

(** "qpzry9x8gf2tvdw0s3jn54khce6mua7l" *)
Definition CHARSET : list Z :=
  [113; 112; 122; 114; 121; 57; 120; 56; 103; 102; 50; 116; 118; 100; 119; 48;
   115; 51; 106; 110; 53; 52; 107; 104; 99; 101; 54; 109; 117; 97; 55; 108].

Definition is_upper (c : Z) : bool := (65 <=? c) && (c <=? 90).
Definition is_lower (c : Z) : bool := (97 <=? c) && (c <=? 122).
Definition to_lower (c : Z) : Z := if is_upper c then c + 32 else c.

Fixpoint index_of (x : Z) (l : list Z) (i : Z) : option Z :=
  match l with
  | [] => None
  | y :: r => if x =? y then Some i else index_of x r (i + 1)
  end.

(** [Fe32::from_char]: both cases map to the same value; anything else (also non-ASCII) fails. *)
Definition fe_of_char (c : Z) : option Z := index_of (to_lower c) CHARSET 0.
(** [Fe32::to_char] (lower case). *)
Definition char_of_fe (v : Z) : Z := nth (Z.to_nat v) CHARSET 0.

Definition fe_ok (v : Z) : bool := (0 <=? v) && (v <? 32).

(** ** [check_characters] ([primitives/decode.rs])

    The crate scans the string from the end.  Until the first (i.e. right-most) ['1'] has been
    seen every character must be a bech32 character (error [InvalidChar], raised immediately);
    case is collected over the whole string; after the scan: [MixedCase], else the separator
    position, else [MissingSeparator].  [cc_scan] walks the reversed string; [n] is the index of
    the character at the head. *)
Fixpoint cc_scan (rs : list Z) (n : Z) (req : bool) (sep : option Z) (up lo : bool)
  : rres (option Z * bool * bool) :=
  match rs with
  | [] => ROk (sep, up, lo)
  | ch :: r =>
      let is_sep := (ch =? 49) && (match sep with None => true | Some _ => false end) in
      let req' := if is_sep then false else req in
      let sep' := if is_sep then Some n else sep in
      if req' && (match fe_of_char ch with None => true | Some _ => false end)
      then RErr "InvalidChar"
      else cc_scan r (n - 1) req' sep' (up || is_upper ch) (lo || is_lower ch)
  end.

Definition check_characters (s : list Z) : rres Z :=
  match cc_scan (rev s) (Z.of_nat (List.length s) - 1) true None false false with
  | RErr e => RErr e
  | ROk (sep, up, lo) =>
      if up && lo then RErr "MixedCase"
      else match sep with Some p => ROk p | None => RErr "MissingSeparator" end
  end.

(** ** [Hrp::parse] ([primitives/hrp.rs]); [MAX_HRP_LEN] = 83.  All characters reaching this
    function come out of [check_characters]; non-ASCII ones are rejected here. *)
Fixpoint hrp_scan (s : list Z) (up lo : bool) : rres unit :=
  match s with
  | [] => ROk tt
  | c :: r =>
      if negb ((0 <=? c) && (c <? 128)) then RErr "NonAsciiChar"
      else if negb ((33 <=? c) && (c <=? 126)) then RErr "InvalidAsciiByte"
      else if is_lower c then (if up then RErr "MixedCase" else hrp_scan r up true)
      else if is_upper c then (if lo then RErr "MixedCase" else hrp_scan r true lo)
      else hrp_scan r up lo
  end.

(** UTF-8 length of a code point (the length checks of the crate are on bytes). *)
Definition utf8_len (c : Z) : Z :=
  if c <? 128 then 1 else if c <? 2048 then 2 else if c <? 65536 then 3 else 4.
Definition str_len (s : list Z) : Z := fold_left (fun a c => a + utf8_len c) s 0.

Definition hrp_parse (h : list Z) : rres unit :=
  match h with
  | [] => RErr "Empty"
  | _ => if 83 <? str_len h then RErr "TooLong" else hrp_scan h false false
  end.

(** ** Checksum engine ([primitives/checksum.rs]), instance [Bech32] ([lib.rs]):
    [GENERATOR_SH], [TARGET_RESIDUE = 1], [CHECKSUM_LENGTH = 6]. *)
Definition GEN0 : Z := 0x3b6a57b2.
Definition GEN1 : Z := 0x26508e6d.
Definition GEN2 : Z := 0x1ea119fa.
Definition GEN3 : Z := 0x3d4233dd.
Definition GEN4 : Z := 0x2a1462b3.

Definition sel (b : bool) (g : Z) : Z := if b then g else 0.

(** the loop [for i in 0..5 { if xn & (1 << i) != 0 { residue ^= GENERATOR_SH[i] } }] *)
Definition gen_sel (xn : Z) : Z :=
  Z.lxor (Z.lxor (Z.lxor (Z.lxor (sel (Z.testbit xn 0) GEN0) (sel (Z.testbit xn 1) GEN1))
                         (sel (Z.testbit xn 2) GEN2)) (sel (Z.testbit xn 3) GEN3))
         (sel (Z.testbit xn 4) GEN4).

(** [Engine::input_fe].  [mul_by_x_then_add(6, e)] on the [u32] residue returns
    [xn = (r >> 25) & 0x1f], clears bits 25..29, shifts left by 5 inside 32 bits and ors [e] in.
    For every [u32] value [r] the cleared-and-shifted word equals [(r & (2^25-1)) << 5]
    (bits 30/31 would be shifted out of the [u32]), which is what is written here. *)
Definition polymod_step (r e : Z) : Z :=
  let xn := Z.land (Z.shiftr r 25) 31 in
  let r1 := Z.lor (Z.shiftl (Z.land r 33554431) 5) e in
  Z.lxor r1 (gen_sel xn).

(** [Engine::new] starts from 1. *)
Definition polymod_from (r : Z) (fes : list Z) : Z := fold_left polymod_step fes r.
Definition polymod (fes : list Z) : Z := polymod_from 1 fes.

(** [HrpFe32Iter]: high bits of every (lower-cased) character, a zero, then the low bits. *)
Definition hrp_expand (h : list Z) : list Z :=
  map (fun c => Z.shiftr (to_lower c) 5) h ++ [0] ++ map (fun c => Z.land (to_lower c) 31) h.

(** [PackedFe32::unpack]. *)
Definition unpack (r n : Z) : Z := Z.land (Z.shiftr r (n * 5)) 31.

(** [Checksummed::next] after the data: [input_target_residue] feeds the six symbols of
    [TARGET_RESIDUE] (= 0,0,0,0,0,1), then the six symbols of the residue are emitted, highest first. *)
Definition TARGET_RESIDUE : Z := 1.
Definition target_fes : list Z := map (fun i => unpack TARGET_RESIDUE i) [5; 4; 3; 2; 1; 0].
Definition create_checksum (h : list Z) (data : list Z) : list Z :=
  let r := polymod_from (polymod (hrp_expand h ++ data)) target_fes in
  map (fun i => unpack r i) [5; 4; 3; 2; 1; 0].

(** [UncheckedHrpstring::validate_checksum], the residue comparison. *)
Definition verify_checksum (h : list Z) (data_and_checksum : list Z) : bool :=
  polymod (hrp_expand h ++ data_and_checksum) =? TARGET_RESIDUE.

Fixpoint fes_of_chars (cs : list Z) : option (list Z) :=
  match cs with
  | [] => Some []
  | c :: r => match fe_of_char c, fes_of_chars r with
              | Some v, Some vs => Some (v :: vs)
              | _, _ => None
              end
  end.

(** [CheckedHrpstring::new::<Ck>(s)] for a checksum with 6 symbols and the given [CODE_LENGTH]
    ([Bolt11Bech32]: 7089).  Result: the hrp as written and the data symbols without checksum. *)
Definition decode_checked (code_length : Z) (s : list Z) : rres (list Z * list Z) :=
  match check_characters s with
  | RErr e => RErr e
  | ROk sep =>
      let h := firstn (Z.to_nat sep) s in
      let d := skipn (Z.to_nat sep + 1) s in
      match hrp_parse h with
      | RErr e => RErr e
      | ROk _ =>
          if code_length <? str_len s then RErr "CodeLength"
          else if Z.of_nat (List.length d) <? 6 then RErr "InvalidLength"
          else match fes_of_chars d with
               | None => RErr "InvalidChar"   (* excluded by [check_characters] *)
               | Some fes =>
                   if verify_checksum h fes
                   then ROk (h, firstn (List.length fes - 6) fes)
                   else RErr "InvalidResidue"
               end
      end
  end.

(** [CheckedHrpstring::new::<NoChecksum>(s)] as used for BOLT 12 strings. *)
Definition decode_nochecksum (s : list Z) : rres (list Z * list Z) :=
  match check_characters s with
  | RErr e => RErr e
  | ROk sep =>
      let h := firstn (Z.to_nat sep) s in
      let d := skipn (Z.to_nat sep + 1) s in
      match hrp_parse h with
      | RErr e => RErr e
      | ROk _ => match fes_of_chars d with
                 | None => RErr "InvalidChar"
                 | Some fes => ROk (h, fes)
                 end
      end
  end.

(** The string the encoder produces: lower-case hrp, ['1'], data and checksum characters. *)
Definition encode_checked (h : list Z) (data : list Z) : list Z :=
  map to_lower h ++ [49] ++ map char_of_fe (data ++ create_checksum h data).
Definition encode_nochecksum (h : list Z) (data : list Z) : list Z :=
  map to_lower h ++ [49] ++ map char_of_fe data.

(** ** 8 <-> 5 bit regrouping ([primitives/iter.rs]: [BytesToFes], [FesToBytes]).

    Both are modelled as a bit accumulator [(acc, nbits)] with [acc < 2^nbits], most significant
    bit first, which is the function the two iterator state machines compute. *)
Fixpoint to_u5_go (acc nbits : Z) (bs : list Z) : list Z :=
  match bs with
  | [] => if nbits =? 0 then [] else [Z.shiftl acc (5 - nbits)]   (* zero padding, < 5 bits *)
  | b :: r =>
      let acc1 := acc * 256 + b in
      let n1 := nbits + 8 in                                        (* 8 <= n1 <= 12 *)
      if n1 <? 10
      then Z.shiftr acc1 (n1 - 5) :: to_u5_go (Z.land acc1 (Z.ones (n1 - 5))) (n1 - 5) r
      else Z.shiftr acc1 (n1 - 5) :: Z.land (Z.shiftr acc1 (n1 - 10)) 31
             :: to_u5_go (Z.land acc1 (Z.ones (n1 - 10))) (n1 - 10) r
  end.
Definition to_u5 (bs : list Z) : list Z := to_u5_go 0 0 bs.

(** [FesToBytes]: trailing bits that do not fill a byte are dropped without any check. *)
Fixpoint from_u5_go (acc nbits : Z) (fes : list Z) : list Z :=
  match fes with
  | [] => []
  | v :: r =>
      let acc1 := acc * 32 + v in
      let n1 := nbits + 5 in                                        (* 5 <= n1 <= 12 *)
      if n1 <? 8 then from_u5_go acc1 n1 r
      else Z.shiftr acc1 (n1 - 8) :: from_u5_go (Z.land acc1 (Z.ones (n1 - 8))) (n1 - 8) r
  end.
Definition from_u5_lax (fes : list Z) : list Z := from_u5_go 0 0 fes.

(** [CheckedHrpstring::validate_segwit_padding]: at most 4 padding bits, all zero. *)
Definition padding_ok (fes : list Z) : rres unit :=
  match fes with
  | [] => ROk tt
  | _ =>
      let padding_len := (Z.of_nat (List.length fes) * 5) mod 8 in
      if 4 <? padding_len then RErr "TooMuch"
      else if negb (Z.land (last fes 0) (Z.ones padding_len) =? 0) then RErr "NonZero"
      else ROk tt
  end.

(** The BOLT 12 reading ([Bech32Encode::from_bech32_str]): padding validated, then regrouped. *)
Definition from_u5_strict (fes : list Z) : option (list Z) :=
  match padding_ok fes with ROk _ => Some (from_u5_lax fes) | RErr _ => None end.
