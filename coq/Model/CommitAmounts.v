(** C01, amount layer: hand transliteration of the parts of the commitment-amount computation that
    [tools/rs2v] does not translate (a trait method with a mutating [retain] closure, and output
    construction over [bitcoin] types):

    - [SpecTxBuilder::build_commitment_transaction]  (lightning/src/sign/tx_builder.rs)
    - [CommitmentTransaction::insert_non_htlc_outputs] + HTLC output values (lightning/src/ln/chan_utils.rs)
    - [FundedChannel::build_closing_transaction] arithmetic (lightning/src/ln/channel.rs)

    Everything these call ([commit_tx_fee_sat], [htlc_*_tx_weight], [total_anchors_sat],
    [saturating_sub_from_funder], constants) is the GENERATED code of [Gen/ChanUtilsFees.v],
    [Gen/TxBuilder.v], [Gen/Consts.v]. The definitions here are tied to the Rust by functional
    correspondence through [lightning::sign::tx_builder::verif_hooks_c01] (harness h_commit) and, for
    the closing transaction, by the trace harness (h_chan). No proofs in this file. *)
Require Import LdkV.Prim.U64 LdkV.Prim.Rs2vLib LdkV.Gen.Consts LdkV.Gen.ChanUtilsFees LdkV.Gen.TxBuilder.
Open Scope Z_scope.

(** The three supported channel types. *)
Definition CT_Static : ChannelTypeFeatures := mkChannelTypeFeatures false false.
Definition CT_Anchors : ChannelTypeFeatures := mkChannelTypeFeatures true false.
Definition CT_ZeroFee : ChannelTypeFeatures := mkChannelTypeFeatures false true.
Definition ct_ok (ct : ChannelTypeFeatures) : bool :=
  negb (ctf_supports_anchors_zero_fee_htlc_tx ct && ctf_supports_anchor_zero_fee_commitments ct).
Definition ct_of_Z (i : Z) : ChannelTypeFeatures :=
  if i =? 0 then CT_Static else if i =? 1 then CT_Anchors else CT_ZeroFee.

(** [HTLCOutputInCommitment] as far as amounts are concerned. [ho_tag] stands for the payload that the
    amount computation never looks at (cltv_expiry, payment_hash). *)
Record htlc_out : Type := mkHtlcOut { ho_offered : bool; ho_amount_msat : Z; ho_tag : Z }.

Definition htlc_sat (h : htlc_out) : Z := ho_amount_msat h / 1000.
Definition htlcs_msat (l : list htlc_out) : Z := sum_z (map ho_amount_msat l).
Definition htlcs_sat (l : list htlc_out) : Z := sum_z (map htlc_sat l).
Definition htlcs_rem (l : list htlc_out) : Z := sum_z (map (fun h => ho_amount_msat h mod 1000) l).

(** The [is_dust] closure of [build_commitment_transaction] (tx_builder.rs:994-1007). *)
Definition bc_is_dust (ct : ChannelTypeFeatures) (feerate_per_kw broadcaster_dust_limit_satoshis : Z)
    (offered : bool) (amount_msat : Z) : bool :=
  let htlc_tx_fee_sat :=
    if ctf_supports_anchors_zero_fee_htlc_tx ct then 0
    else
      let htlc_tx_weight := if offered then htlc_timeout_tx_weight ct else htlc_success_tx_weight ct in
      feerate_per_kw * htlc_tx_weight / 1000 in
  amount_msat / 1000 <? broadcaster_dust_limit_satoshis + htlc_tx_fee_sat.

Definition h_is_dust ct feerate dust (h : htlc_out) : bool :=
  bc_is_dust ct feerate dust (ho_offered h) (ho_amount_msat h).

Record commit_amounts : Type := mkCommitAmounts {
  ca_to_broadcaster_sat : Z;
  ca_to_countersignatory_sat : Z;
  ca_nondust : list htlc_out;       (* what is handed to [CommitmentTransaction::new] *)
  ca_dust : list htlc_out;          (* what [retain] dropped *)
  ca_commit_tx_fee_sat : Z;         (* [CommitmentStats] *)
  ca_local_balance_before_fee_msat : Z;
  ca_remote_balance_before_fee_msat : Z
}.

(** [SpecTxBuilder::build_commitment_transaction], amounts only. [None] = one of the three
    [checked_sub(..).unwrap()] panics. *)
Definition build_commitment (ct : ChannelTypeFeatures) (local holder_is_funder : bool)
    (channel_value_satoshis value_to_self_msat : Z) (htlcs_in_tx : list htlc_out)
    (feerate_per_kw broadcaster_dust_limit_satoshis : Z) : option commit_amounts :=
  (* the [retain] closure: totals over ALL htlcs, dust ones dropped *)
  let local_htlc_total_msat := htlcs_msat (filter (fun h => Bool.eqb (ho_offered h) local) htlcs_in_tx) in
  let remote_htlc_total_msat := htlcs_msat (filter (fun h => negb (Bool.eqb (ho_offered h) local)) htlcs_in_tx) in
  let nondust := filter (fun h => negb (h_is_dust ct feerate_per_kw broadcaster_dust_limit_satoshis h)) htlcs_in_tx in
  let dust := filter (h_is_dust ct feerate_per_kw broadcaster_dust_limit_satoshis) htlcs_in_tx in
  let commit_tx_fee_sat := commit_tx_fee_sat feerate_per_kw (Z.of_nat (List.length nondust)) ct in
  match chk_sub value_to_self_msat local_htlc_total_msat with
  | None => None
  | Some value_to_self_after_htlcs_msat =>
  match chk_sub (channel_value_satoshis * 1000) value_to_self_msat with
  | None => None
  | Some value_to_remote_msat =>
  match chk_sub value_to_remote_msat remote_htlc_total_msat with
  | None => None
  | Some value_to_remote_after_htlcs_msat =>
    let total_anchors_sat := total_anchors_sat ct in
    let '(local_balance_before_fee_msat, remote_balance_before_fee_msat) :=
      saturating_sub_from_funder holder_is_funder value_to_self_after_htlcs_msat
        value_to_remote_after_htlcs_msat (sat_mul 64 total_anchors_sat 1000) in
    let '(value_to_self, value_to_remote) :=
      saturating_sub_from_funder holder_is_funder (local_balance_before_fee_msat / 1000)
        (remote_balance_before_fee_msat / 1000) commit_tx_fee_sat in
    let to_broadcaster_value_sat := if local then value_to_self else value_to_remote in
    let to_countersignatory_value_sat := if local then value_to_remote else value_to_self in
    let to_broadcaster_value_sat :=
      if broadcaster_dust_limit_satoshis <=? to_broadcaster_value_sat then to_broadcaster_value_sat else 0 in
    let to_countersignatory_value_sat :=
      if broadcaster_dust_limit_satoshis <=? to_countersignatory_value_sat then to_countersignatory_value_sat else 0 in
    Some (mkCommitAmounts to_broadcaster_value_sat to_countersignatory_value_sat nondust dust
            commit_tx_fee_sat local_balance_before_fee_msat remote_balance_before_fee_msat)
  end end end.

(** Sufficient for: no u64 overflow in a debug build (the [+=] accumulations, [* 1000], the fee products). *)
Definition build_commitment_safe (ct : ChannelTypeFeatures) (local : bool)
    (channel_value_satoshis : Z) (htlcs_in_tx : list htlc_out)
    (feerate_per_kw broadcaster_dust_limit_satoshis : Z) : bool :=
  (channel_value_satoshis * 1000 <? 2 ^ 64) &&
  sum_safe 64 (map ho_amount_msat (filter (fun h => Bool.eqb (ho_offered h) local) htlcs_in_tx)) &&
  sum_safe 64 (map ho_amount_msat (filter (fun h => negb (Bool.eqb (ho_offered h) local)) htlcs_in_tx)) &&
  (broadcaster_dust_limit_satoshis + feerate_per_kw * htlc_success_tx_weight ct / 1000 <? 2 ^ 64) &&
  commit_tx_fee_sat_safe feerate_per_kw
    (Z.of_nat (List.length (filter (fun h => negb (h_is_dust ct feerate_per_kw broadcaster_dust_limit_satoshis h)) htlcs_in_tx))) ct.

(** Output VALUES of the transaction [CommitmentTransaction::new] builds ([build_htlc_outputs] +
    [insert_non_htlc_outputs]); the order is irrelevant to the property (compared as a multiset).
    [None] = the [Amount] subtraction of the P2A branch underflows (panic). *)
Definition anchors_in_tx (ct : ChannelTypeFeatures) (to_b to_c : Z) (nondust : list htlc_out) : list Z :=
  let tx_has_htlc_outputs := negb (htlcs_sat nondust =? 0) in
  if ctf_supports_anchors_zero_fee_htlc_tx ct then
    (if (0 <? to_b) || tx_has_htlc_outputs then [ANCHOR_OUTPUT_VALUE_SATOSHI] else []) ++
    (if (0 <? to_c) || tx_has_htlc_outputs then [ANCHOR_OUTPUT_VALUE_SATOSHI] else [])
  else [].

Definition commit_tx_outputs (ct : ChannelTypeFeatures) (channel_value_satoshis to_b to_c : Z)
    (nondust : list htlc_out) : option (list Z) :=
  let base :=
    map htlc_sat nondust ++
    (if 0 <? to_c then [to_c] else []) ++
    (if 0 <? to_b then [to_b] else []) ++
    anchors_in_tx ct to_b to_c nondust in
  if ctf_supports_anchor_zero_fee_commitments ct then
    let trimmed_sum_sat := channel_value_satoshis - htlcs_sat nondust - to_b - to_c in
    if trimmed_sum_sat <? 0 then None
    else Some (base ++ [Z.min P2A_MAX_VALUE trimmed_sum_sat])
  else Some base.

(** [FundedChannel::build_closing_transaction] (channel.rs): [(value_to_holder, value_to_counterparty,
    total_fee_satoshis)]. The [Err] cases are [debug_assert!] failures in a debug build. *)
Definition build_closing (holder_is_funder skip_remote_output : bool)
    (channel_value_satoshis value_to_self_msat proposed_total_fee_satoshis holder_dust_limit_satoshis : Z)
    : rres (Z * Z * Z) :=
  let total_fee_satoshis := proposed_total_fee_satoshis in
  let value_to_holder :=
    value_to_self_msat / 1000 - (if holder_is_funder then total_fee_satoshis else 0) in
  let value_to_counterparty :=
    (channel_value_satoshis * 1000 - value_to_self_msat) / 1000
    - (if holder_is_funder then 0 else total_fee_satoshis) in
  let total_fee_satoshis :=
    if value_to_holder <? 0 then total_fee_satoshis + (- value_to_holder)
    else if value_to_counterparty <? 0 then total_fee_satoshis + (- value_to_counterparty)
    else total_fee_satoshis in
  if value_to_counterparty <? 0 then RErr "Value to counterparty below 0"
  else
    let value_to_counterparty :=
      if skip_remote_output || (value_to_counterparty <=? holder_dust_limit_satoshis) then 0
      else value_to_counterparty in
    if value_to_holder <? 0 then RErr "Value to holder below 0"
    else
      let value_to_holder :=
        if value_to_holder <=? holder_dust_limit_satoshis then 0 else value_to_holder in
      ROk (value_to_holder, value_to_counterparty, total_fee_satoshis).

(** ** Specification-side vocabulary used by the theorems (no Rust counterpart). *)

(** Balance of the party that pays fee and anchors, after HTLCs, before anchors. *)
Definition funder_after_htlcs_msat (local holder_is_funder : bool) (channel_value_satoshis value_to_self_msat : Z)
    (htlcs : list htlc_out) : Z :=
  if holder_is_funder
  then value_to_self_msat - htlcs_msat (filter (fun h => Bool.eqb (ho_offered h) local) htlcs)
  else channel_value_satoshis * 1000 - value_to_self_msat
       - htlcs_msat (filter (fun h => negb (Bool.eqb (ho_offered h) local)) htlcs).

(** What the two parties would get before the sub-dust zeroing: [(value_to_self, value_to_remote)]. *)
Definition pre_dust_values (holder_is_funder : bool) (ca : commit_amounts) : Z * Z :=
  saturating_sub_from_funder holder_is_funder (ca_local_balance_before_fee_msat ca / 1000)
    (ca_remote_balance_before_fee_msat ca / 1000) (ca_commit_tx_fee_sat ca).

(** Whole-satoshi balance of the funder before the commitment fee. *)
Definition funder_before_fee_sat (holder_is_funder : bool) (ca : commit_amounts) : Z :=
  (if holder_is_funder then ca_local_balance_before_fee_msat ca else ca_remote_balance_before_fee_msat ca) / 1000.

(** Everything that is NOT paid to an output, itemised (msat): the commitment fee actually taken from the
    funder (all of it, or whatever was left: the saturating branch), nominal anchors that are not
    materialised, sub-dust balances that were zeroed, trimmed HTLCs, and the sub-satoshi remainders. *)
Definition fee_breakdown_msat (ct : ChannelTypeFeatures) (holder_is_funder : bool) (ca : commit_amounts) : Z :=
  let '(vs, vr) := pre_dust_values holder_is_funder ca in
  1000 * Z.min (ca_commit_tx_fee_sat ca) (funder_before_fee_sat holder_is_funder ca)
  + 1000 * (total_anchors_sat ct - sum_z (anchors_in_tx ct (ca_to_broadcaster_sat ca) (ca_to_countersignatory_sat ca) (ca_nondust ca)))
  + 1000 * (vs + vr - ca_to_broadcaster_sat ca - ca_to_countersignatory_sat ca)
  + htlcs_msat (ca_dust ca)
  + htlcs_rem (ca_nondust ca)
  + ca_local_balance_before_fee_msat ca mod 1000
  + ca_remote_balance_before_fee_msat ca mod 1000.
