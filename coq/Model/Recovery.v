(** C10 — further pieces of the reload logic of [ChannelManager::from_channel_manager_data], and an abstract
    crash-recovery machine over them. Definitions only (proofs in Proofs/C10b.v).
    - [seqZ]: the consecutive id lists the pipeline produces (C09: ids handed to the watch are gap-free);
    - [replay_filter], [drop_blocked]: the two id filters of the reload, as named predicates;
    - [stale_bookkeeping], [closed_monitor]: closed_channel_monitor_update_ids for a channel closed as
      OutdatedChannelManager and for a monitor without a channel in the manager;
    - [background_events]: what the reload queues for a resumed channel (the only things that can lead to
      monitor_updating_restored without outside help);
    - [dstate]/[dstep]: durable monitor log, completion reports, manager snapshots, crash + reload. *)
Require Import LdkV.Prim.U64 LdkV.Model.Restart.
Open Scope Z_scope.

Fixpoint seqZ (a : Z) (n : nat) : list Z := match n with O => [] | S k => a :: seqZ (a + 1) k end.

(** handle_in_flight_updates!: `let replay = update.update_id > $monitor.get_latest_update_id();` *)
Definition replay_filter (mon_id upd_id : Z) : bool := upd_id >? mon_id.
(** handle_in_flight_updates!: `update.update_id <= $monitor.get_latest_update_id()` counts as completed *)
Definition completed_filter (mon_id upd_id : Z) : bool := upd_id <=? mon_id.
(** on_startup_drop_completed_blocked_mon_updates_through: `if update.update.update_id <= loaded_mon_update_id { false } else { true }` *)
Definition drop_blocked (mon_id : Z) (blocked : list Z) : list Z := filter (fun i => negb (i <=? mon_id)) blocked.

(** stale branch: `let latest_update_id = monitor.get_latest_update_id().saturating_add(1); update.update_id = latest_update_id;
    closed_channel_monitor_update_ids.entry(channel_id).and_modify(|v| *v = cmp::max(latest_update_id, *v)).or_insert(latest_update_id)`.
    Returns (id of the ChannelForceClosed update, new map entry). u64 saturation is not modelled (ids stay far below 2^64). *)
Definition stale_bookkeeping (mon_id : Z) (entry : option Z) : Z * Z :=
  let id := mon_id + 1 in
  (id, match entry with Some v => Z.max id v | None => id end).
(** every later update of a closed channel: `*update_id += 1; *update_id` on the map entry *)
Fixpoint post_close_ids (entry : Z) (n : nat) : list Z :=
  match n with O => [] | S k => (entry + 1) :: post_close_ids (entry + 1) k end.

(** a ChannelMonitor without a channel in the manager:
    `if !monitor.no_further_updates_allowed() || monitor.get_latest_update_id() > 1 { should_queue_fc_update = !no_further..;
       let mut latest_update_id = monitor.get_latest_update_id(); if should_queue_fc_update { latest_update_id += 1 } ...entry... }
     if !should_queue_fc_update { continue; }  ChannelForceClosed with update_id latest + 1`
    Returns (map entry written by this monitor, id of the queued ChannelForceClosed update). *)
Definition closed_monitor (no_further_updates : bool) (latest : Z) : option Z * option Z :=
  if negb no_further_updates || (latest >? 1) then
    let q := negb no_further_updates in
    (Some (if q then latest + 1 else latest), if q then Some (latest + 1) else None)
  else (None, None).

(** background events the reload queues for one resumed channel *)
Inductive bg := BgReplay (id : Z) | BgAllComplete (highest : Z) | BgAttemptUnblock.
Definition background_events (c : csnap) (m : msnap) : list bg :=
  match reload c m with
  | Resumed r e b =>
      map BgReplay r ++ (match e with Some h => [BgAllComplete h] | None => [] end) ++
      (match b with [] => [] | _ => [BgAttemptUnblock] end)
  | _ => []
  end.

(** ---------- abstract crash-recovery machine, one channel, ids consecutive.
    [handed]: last update handed to the watch (in memory); [disk]: id of the durable monitor (full-monitor writes land
    in order); [comp]: highest id reported complete; the manager snapshot on disk: latest id [s_latest], in-flight ids
    ([s_comp], [s_latest]] ; [closed]: the channel was force-closed by a reload. *)
Record dstate := mkD { handed : Z; disk : Z; comp : Z; s_latest : Z; s_comp : Z; closed : bool }.
Inductive dop := DApply | DLand | DComplete | DWriteMgr | DCrash.

Definition snap_of (d : dstate) : csnap :=
  mkCsnap (s_latest d) (s_latest d) 0 0 0 (seqZ (s_comp d + 1) (Z.to_nat (s_latest d - s_comp d))) [].
Definition mon_of (d : dstate) : msnap := mkMsnap (disk d) 0 0 0.

Definition dstep (d : dstate) (o : dop) : dstate :=
  if closed d then d else
  match o with
  | DApply => mkD (handed d + 1) (disk d) (comp d) (s_latest d) (s_comp d) false
  | DLand => if disk d <? handed d then mkD (handed d) (disk d + 1) (comp d) (s_latest d) (s_comp d) false else d
  | DComplete => if comp d <? disk d then mkD (handed d) (disk d) (comp d + 1) (s_latest d) (s_comp d) false else d
  | DWriteMgr => mkD (handed d) (disk d) (comp d) (handed d) (comp d) false
  | DCrash =>
      match reload (snap_of d) (mon_of d) with
      | Closed _ => mkD (disk d + 1) (disk d + 1) (disk d + 1) (s_latest d) (s_comp d) true
      | Resumed r _ _ =>
          (* the replayed updates are handed again; the monitor on disk is where it was; nothing is reported yet *)
          mkD (s_latest d) (disk d) (Z.min (comp d) (disk d)) (s_latest d) (s_comp d) false
      | Dangerous => mkD (-1) (-1) (-1) (-1) (-1) true
      end
  end.
Definition dinit (base : Z) : dstate := mkD base base base base base false.
Definition drun (base : Z) (ops : list dop) : dstate := fold_left dstep ops (dinit base).
Definition dinv (d : dstate) : Prop :=
  closed d = false -> s_comp d <= comp d /\ comp d <= disk d /\ disk d <= handed d /\ s_comp d <= s_latest d /\ s_latest d <= handed d.
