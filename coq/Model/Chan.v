(** C01, protocol layer: one side of a channel as [FundedChannel] keeps it (lightning/src/ln/channel.rs),
    hand-modelled with the exact per-HTLC state enums. One definition per Rust entry point, same guard
    order for the guards that concern the update protocol:

      [included_in_commitment] (both enums), [get_commitment_feerate], [build_commitment_transaction]
      (HTLC set and [value_to_self] adjustments), [send_htlc], [update_add_htlc],
      [get_update_fulfill_htlc], [fail_htlc], [mark_outbound_htlc_removed] (update_fulfill/fail_htlc),
      [send_update_fee], [update_fee], [build_commitment_no_status_check], [commitment_signed] +
      [commitment_signed_update_monitor], [revoke_and_ack], [free_holding_cell_htlcs],
      [remove_uncommitted_htlcs_and_mark_paused], [channel_reestablish] (retransmission table),
      [get_last_commitment_update_for_send].

    Monitor updates always complete immediately here (C09 lifts that); splicing, quiescence, async
    signing, shutdown are out of scope. The model is tied to the code by trace correspondence: harness
    h_chan dumps the real channel after every step and [Model/ChanSys.v] must reproduce every dump and
    every commitment the signers saw. No proofs in this file. *)
Require Import LdkV.Prim.U64 LdkV.Prim.Rs2vLib LdkV.Gen.Consts LdkV.Gen.ChanUtilsFees LdkV.Gen.TxBuilder
  LdkV.Model.CommitAmounts.
Open Scope Z_scope.

(** [InboundHTLCState]; the removal reason is kept as "is it a fulfill". *)
Inductive in_st : Type :=
| IS_RemoteAnnounced
| IS_AwaitingRemoteRevokeToAnnounce
| IS_AwaitingAnnouncedRemoteRevoke
| IS_Committed
| IS_LocalRemoved (fulfill : bool).

(** [OutboundHTLCState]; the outcome is kept as "is it a success". *)
Inductive out_st : Type :=
| OS_LocalAnnounced
| OS_Committed
| OS_RemoteRemoved (success : bool)
| OS_AwaitingRemoteRevokeToRemove (success : bool)
| OS_AwaitingRemovedRemoteRevoke (success : bool).

(** [InboundHTLCState::included_in_commitment] *)
Definition in_included (s : in_st) (generated_by_local : bool) : bool :=
  match s with
  | IS_RemoteAnnounced => negb generated_by_local
  | IS_AwaitingRemoteRevokeToAnnounce => negb generated_by_local
  | IS_AwaitingAnnouncedRemoteRevoke => true
  | IS_Committed => true
  | IS_LocalRemoved _ => negb generated_by_local
  end.

(** [OutboundHTLCState::included_in_commitment] *)
Definition out_included (s : out_st) (generated_by_local : bool) : bool :=
  match s with
  | OS_LocalAnnounced => generated_by_local
  | OS_Committed => true
  | OS_RemoteRemoved _ => generated_by_local
  | OS_AwaitingRemoteRevokeToRemove _ => generated_by_local
  | OS_AwaitingRemovedRemoteRevoke _ => false
  end.

Definition in_preimage (s : in_st) : bool := match s with IS_LocalRemoved true => true | _ => false end.
Definition out_preimage (s : out_st) : bool :=
  match s with
  | OS_RemoteRemoved true | OS_AwaitingRemoteRevokeToRemove true | OS_AwaitingRemovedRemoteRevoke true => true
  | _ => false
  end.

(** Numeric codes used by the harness dump ([verif_hooks_c01::HtlcDump]). *)
Definition in_code (s : in_st) : Z :=
  match s with
  | IS_RemoteAnnounced => 0 | IS_AwaitingRemoteRevokeToAnnounce => 1 | IS_AwaitingAnnouncedRemoteRevoke => 2
  | IS_Committed => 3 | IS_LocalRemoved false => 4 | IS_LocalRemoved true => 5
  end.
Definition out_code (s : out_st) : Z :=
  match s with
  | OS_LocalAnnounced => 0 | OS_Committed => 1
  | OS_RemoteRemoved b => 2 + Z.b2z b
  | OS_AwaitingRemoteRevokeToRemove b => 4 + Z.b2z b
  | OS_AwaitingRemovedRemoteRevoke b => 6 + Z.b2z b
  end.

(** A pending HTLC: id, amount, and an opaque tag standing for (cltv_expiry, payment_hash, onion). *)
Record phtlc : Type := mkP { p_id : Z; p_amt : Z; p_tag : Z }.
Record in_htlc : Type := mkIn { ih : phtlc; ist : in_st }.
Record out_htlc : Type := mkOut { oh : phtlc; ost : out_st }.

(** [HTLCUpdateAwaitingACK] *)
Inductive hc_upd : Type :=
| HC_Add (amt tag : Z)
| HC_Claim (id : Z)
| HC_Fail (id : Z).

(** [FeeUpdateState] *)
Inductive fee_st : Type := FS_RemoteAnnounced | FS_AwaitingRemoteRevokeToAnnounce | FS_Outbound.
Definition fee_code (s : fee_st) : Z :=
  match s with FS_RemoteAnnounced => 0 | FS_AwaitingRemoteRevokeToAnnounce => 1 | FS_Outbound => 2 end.

(** The part of [FundedChannel] the update protocol depends on. *)
Record chan : Type := mkChan {
  c_funder : bool;                         (* funding.is_outbound() *)
  c_value_sat : Z;
  c_ct : ChannelTypeFeatures;
  c_holder_dust : Z;
  c_cp_dust : Z;
  c_self_msat : Z;                         (* funding.value_to_self_msat *)
  c_feerate : Z;
  c_pending_fee : option (Z * fee_st);
  c_hc_fee : option Z;
  c_in : list in_htlc;
  c_out : list out_htlc;
  c_hc : list hc_upd;
  c_next_holder_id : Z;
  c_next_cp_id : Z;
  c_holder_cn : Z;                         (* holder_commitment_point.next_transaction_number() *)
  c_cp_cn : Z;                             (* counterparty_next_commitment_transaction_number *)
  c_awaiting_raa : bool;
  c_disconnected : bool;
  c_resend_raa_first : bool                (* resend_order == RevokeAndACKFirst *)
}.

Definition set_htlcs (c : chan) (i : list in_htlc) (o : list out_htlc) : chan :=
  mkChan (c_funder c) (c_value_sat c) (c_ct c) (c_holder_dust c) (c_cp_dust c) (c_self_msat c) (c_feerate c)
    (c_pending_fee c) (c_hc_fee c) i o (c_hc c) (c_next_holder_id c) (c_next_cp_id c) (c_holder_cn c) (c_cp_cn c)
    (c_awaiting_raa c) (c_disconnected c) (c_resend_raa_first c).
Definition set_hc (c : chan) (h : list hc_upd) (f : option Z) : chan :=
  mkChan (c_funder c) (c_value_sat c) (c_ct c) (c_holder_dust c) (c_cp_dust c) (c_self_msat c) (c_feerate c)
    (c_pending_fee c) f (c_in c) (c_out c) h (c_next_holder_id c) (c_next_cp_id c) (c_holder_cn c) (c_cp_cn c)
    (c_awaiting_raa c) (c_disconnected c) (c_resend_raa_first c).
Definition set_fee (c : chan) (fr : Z) (p : option (Z * fee_st)) : chan :=
  mkChan (c_funder c) (c_value_sat c) (c_ct c) (c_holder_dust c) (c_cp_dust c) (c_self_msat c) fr
    p (c_hc_fee c) (c_in c) (c_out c) (c_hc c) (c_next_holder_id c) (c_next_cp_id c) (c_holder_cn c) (c_cp_cn c)
    (c_awaiting_raa c) (c_disconnected c) (c_resend_raa_first c).
Definition set_self (c : chan) (v : Z) : chan :=
  mkChan (c_funder c) (c_value_sat c) (c_ct c) (c_holder_dust c) (c_cp_dust c) v (c_feerate c)
    (c_pending_fee c) (c_hc_fee c) (c_in c) (c_out c) (c_hc c) (c_next_holder_id c) (c_next_cp_id c) (c_holder_cn c) (c_cp_cn c)
    (c_awaiting_raa c) (c_disconnected c) (c_resend_raa_first c).
Definition set_ids (c : chan) (h cp : Z) : chan :=
  mkChan (c_funder c) (c_value_sat c) (c_ct c) (c_holder_dust c) (c_cp_dust c) (c_self_msat c) (c_feerate c)
    (c_pending_fee c) (c_hc_fee c) (c_in c) (c_out c) (c_hc c) h cp (c_holder_cn c) (c_cp_cn c)
    (c_awaiting_raa c) (c_disconnected c) (c_resend_raa_first c).
Definition set_cns (c : chan) (h cp : Z) : chan :=
  mkChan (c_funder c) (c_value_sat c) (c_ct c) (c_holder_dust c) (c_cp_dust c) (c_self_msat c) (c_feerate c)
    (c_pending_fee c) (c_hc_fee c) (c_in c) (c_out c) (c_hc c) (c_next_holder_id c) (c_next_cp_id c) h cp
    (c_awaiting_raa c) (c_disconnected c) (c_resend_raa_first c).
Definition set_flags (c : chan) (arr disc raa1 : bool) : chan :=
  mkChan (c_funder c) (c_value_sat c) (c_ct c) (c_holder_dust c) (c_cp_dust c) (c_self_msat c) (c_feerate c)
    (c_pending_fee c) (c_hc_fee c) (c_in c) (c_out c) (c_hc c) (c_next_holder_id c) (c_next_cp_id c) (c_holder_cn c) (c_cp_cn c)
    arr disc raa1.

(** [ChannelState::can_generate_new_commitment] (monitor updates complete at once, no quiescence). *)
Definition can_generate_new_commitment (c : chan) : bool :=
  negb (c_awaiting_raa c) && negb (c_disconnected c).

(** ** What a commitment contains *)

(** [get_commitment_feerate] *)
Definition commitment_feerate (c : chan) (generated_by_local : bool) : Z :=
  match c_pending_fee c with
  | Some (f, FS_RemoteAnnounced) => if negb generated_by_local then f else c_feerate c
  | Some (f, FS_AwaitingRemoteRevokeToAnnounce) => if negb generated_by_local then f else c_feerate c
  | Some (f, FS_Outbound) => if generated_by_local then f else c_feerate c
  | None => c_feerate c
  end.

(** The view of a commitment that [ChannelContext::build_commitment_transaction] hands to the
    [TxBuilder]: number, feerate, the builder's [value_to_self_msat] after claims, and the included
    HTLCs as (outbound from the builder?, htlc), inbound ones first (the Rust's push order). *)
Record cview : Type := mkView {
  cv_number : Z;
  cv_feerate : Z;
  cv_to_self_msat : Z;
  cv_htlcs : list (bool * phtlc)
}.

Definition view_htlcs (c : chan) (g : bool) : list (bool * phtlc) :=
  map (fun h => (false, ih h)) (filter (fun h => in_included (ist h) g) (c_in c)) ++
  map (fun h => (true, oh h)) (filter (fun h => out_included (ost h) g) (c_out c)).

Definition value_to_self_claimed (c : chan) (g : bool) : Z :=
  sum_z (map (fun h => p_amt (ih h)) (filter (fun h => negb (in_included (ist h) g) && in_preimage (ist h)) (c_in c))).
Definition value_to_remote_claimed (c : chan) (g : bool) : Z :=
  sum_z (map (fun h => p_amt (oh h)) (filter (fun h => negb (out_included (ost h) g) && out_preimage (ost h)) (c_out c))).

Definition build_view (c : chan) (number : Z) (generated_by_local : bool) : cview :=
  mkView number (commitment_feerate c generated_by_local)
    (c_self_msat c + value_to_self_claimed c generated_by_local - value_to_remote_claimed c generated_by_local)
    (view_htlcs c generated_by_local).

(** The amounts of a view ([SpecTxBuilder::build_commitment_transaction] of [Model/CommitAmounts.v]). *)
Definition view_amounts (c : chan) (local : bool) (v : cview) : option commit_amounts :=
  build_commitment (c_ct c) local (c_funder c) (c_value_sat c) (cv_to_self_msat v)
    (map (fun oh => mkHtlcOut (Bool.eqb (fst oh) local) (p_amt (snd oh)) (p_tag (snd oh))) (cv_htlcs v))
    (cv_feerate v) (if local then c_holder_dust c else c_cp_dust c).

(** The commitment X signs for Y and the one Y builds to check the signature agree iff: same number,
    same feerate, the HTLC sets are equal with directions flipped, the two [value_to_self]s add up to
    the channel value. (The signature covers the transaction, which is a function of these.) *)
Fixpoint insert_h (x : bool * phtlc) (l : list (bool * phtlc)) : list (bool * phtlc) :=
  match l with
  | [] => [x]
  | y :: t =>
    if (Z.b2z (fst x) <? Z.b2z (fst y)) || (Bool.eqb (fst x) (fst y) && (p_id (snd x) <=? p_id (snd y)))
    then x :: l else y :: insert_h x t
  end.
Definition sort_h (l : list (bool * phtlc)) : list (bool * phtlc) := fold_right insert_h [] l.
Definition phtlc_eqb (a b : phtlc) : bool := (p_id a =? p_id b) && (p_amt a =? p_amt b) && (p_tag a =? p_tag b).
Fixpoint hl_eqb (a b : list (bool * phtlc)) : bool :=
  match a, b with
  | [], [] => true
  | x :: a', y :: b' => Bool.eqb (fst x) (fst y) && phtlc_eqb (snd x) (snd y) && hl_eqb a' b'
  | _, _ => false
  end.
Definition mirror_eqb (value_sat : Z) (signed mine : cview) : bool :=
  (cv_number signed =? cv_number mine) && (cv_feerate signed =? cv_feerate mine) &&
  (cv_to_self_msat signed + cv_to_self_msat mine =? value_sat * 1000) &&
  hl_eqb (sort_h (map (fun x => (negb (fst x), snd x)) (cv_htlcs signed))) (sort_h (cv_htlcs mine)).

(** ** Wire messages *)
Inductive msg : Type :=
| M_Add (h : phtlc)
| M_Fulfill (id : Z)
| M_Fail (id : Z)
| M_Fee (feerate : Z)
| M_Commit (v : cview)          (* commitment_signed, carrying (as a ghost) what was signed *)
| M_Raa
| M_Reest (next_local next_remote : Z).

(** ** Entry points *)

(** [build_commitment_no_status_check]: promote, build the counterparty's commitment, await their RAA. *)
Definition promote_for_sign (c : chan) : chan :=
  let i := map (fun h => match ist h with
                         | IS_AwaitingRemoteRevokeToAnnounce => mkIn (ih h) IS_AwaitingAnnouncedRemoteRevoke
                         | _ => h end) (c_in c) in
  let o := map (fun h => match ost h with
                         | OS_AwaitingRemoteRevokeToRemove b => mkOut (oh h) (OS_AwaitingRemovedRemoteRevoke b)
                         | _ => h end) (c_out c) in
  let c := set_htlcs c i o in
  match c_pending_fee c with
  | Some (f, FS_AwaitingRemoteRevokeToAnnounce) => set_fee c f None
  | _ => c
  end.

Definition build_commitment_no_status_check (c : chan) : chan * cview :=
  let c := promote_for_sign c in
  let v := build_view c (c_cp_cn c) true in
  (set_flags c true (c_disconnected c) true, v).

(** The [CommitmentUpdate] that accompanies a fresh signature is regenerated from the state
    ([get_last_commitment_update_for_send], reached through [monitor_updating_restored]): our
    [LocalAnnounced] adds, our [LocalRemoved] fulfills and fails (in list order), our pending fee. *)
Definition update_msgs (c : chan) : list msg :=
  map (fun h => M_Add (oh h)) (filter (fun h => match ost h with OS_LocalAnnounced => true | _ => false end) (c_out c)) ++
  map (fun h => M_Fulfill (p_id (ih h))) (filter (fun h => match ist h with IS_LocalRemoved true => true | _ => false end) (c_in c)) ++
  map (fun h => M_Fail (p_id (ih h))) (filter (fun h => match ist h with IS_LocalRemoved false => true | _ => false end) (c_in c)) ++
  (match c_funder c, c_pending_fee c with true, Some (f, _) => [M_Fee f] | _, _ => [] end).

Definition sign_and_send (c : chan) : chan * list msg :=
  let '(c', v) := build_commitment_no_status_check c in (c', update_msgs c' ++ [M_Commit v]).

(** [send_htlc] without the limit checks (those are [send_htlc_checked] in Proofs/C01Limits.v terms:
    [get_available_balances] is a generated function of this state). [Some true]: went out,
    [Some false]: holding cell. *)
Definition send_htlc (c : chan) (amt tag : Z) : rres (chan * bool) :=
  if amt =? 0 then RErr "ZeroAmount"
  else if c_disconnected c then RErr "PeerOffline"
  else if negb (can_generate_new_commitment c) then
    ROk (set_hc c (c_hc c ++ [HC_Add amt tag]) (c_hc_fee c), false)
  else
    let h := mkOut (mkP (c_next_holder_id c) amt tag) OS_LocalAnnounced in
    ROk (set_ids (set_htlcs c (c_in c) (c_out c ++ [h])) (c_next_holder_id c + 1) (c_next_cp_id c), true).

(** [send_htlc] with its limit test: [limit] / [minimum] are [next_outbound_htlc_limit_msat] /
    [next_outbound_htlc_minimum_msat] of [get_available_balances] (generated; [reported_limits] in
    Model/ChanSys.v computes them from this state). Same guard order as the Rust. *)
Definition send_htlc_checked (limit minimum : Z) (c : chan) (amt tag : Z) : rres (chan * bool) :=
  if amt =? 0 then RErr "ZeroAmount"
  else if amt <? minimum then RErr "HTLCMinimum"
  else if limit <? amt then RErr "HTLCMaximum"
  else send_htlc c amt tag.

(** [send_htlc_and_commit] *)
Definition send_htlc_and_commit (c : chan) (amt tag : Z) : rres (chan * list msg) :=
  match send_htlc c amt tag with
  | RErr e => RErr e
  | ROk (c', false) => ROk (c', [])
  | ROk (c', true) => ROk (sign_and_send c')
  end.

(** [update_add_htlc] (the checks of [validate_update_add_htlc] are amount-level, see design). *)
Definition update_add_htlc (c : chan) (h : phtlc) : rres chan :=
  if c_disconnected c then RErr "Peer sent update_add_htlc when we needed a channel_reestablish"
  else if p_amt h =? 0 then RErr "Remote side tried to send a 0-msat HTLC"
  else if negb (c_next_cp_id c =? p_id h) then RErr "Remote skipped HTLC ID"
  else ROk (set_ids (set_htlcs c (c_in c ++ [mkIn h IS_RemoteAnnounced]) (c_out c)) (c_next_holder_id c) (c_next_cp_id c + 1)).

Definition find_in (c : chan) (id : Z) : option in_htlc := find (fun h => p_id (ih h) =? id) (c_in c).
Definition hc_mentions (l : list hc_upd) (id : Z) : bool :=
  existsb (fun u => match u with HC_Claim i | HC_Fail i => i =? id | _ => false end) l.
Definition set_in_state (c : chan) (id : Z) (s : in_st) : chan :=
  set_htlcs c (map (fun h => if p_id (ih h) =? id then mkIn (ih h) s else h) (c_in c)) (c_out c).

(** [get_update_fulfill_htlc]: [Some true] = message to send, [Some false] = holding cell,
    [None] = duplicate claim (nothing happens). *)
Definition get_update_fulfill_htlc (c : chan) (id : Z) : chan * option bool :=
  match find_in c id with
  | None => (c, None)
  | Some h =>
    match ist h with
    | IS_LocalRemoved _ => (c, None)
    | _ =>
      if negb (can_generate_new_commitment c) then
        if hc_mentions (c_hc c) id then (c, None)
        else (set_hc c (c_hc c ++ [HC_Claim id]) (c_hc_fee c), Some false)
      else
        match ist h with
        | IS_Committed => (set_in_state c id (IS_LocalRemoved true), Some true)
        | _ => (c, None)
        end
    end
  end.

(** [get_update_fulfill_htlc_and_commit] *)
Definition claim_htlc (c : chan) (id : Z) : chan * list msg :=
  match get_update_fulfill_htlc c id with
  | (c', Some true) => sign_and_send c'
  | (c', _) => (c', [])
  end.

(** [fail_htlc]: [ROk (Some _)] = message, [ROk None] = holding cell, [RErr] = ignored. *)
Definition fail_htlc (c : chan) (id : Z) (force_holding_cell : bool) : rres (chan * bool) :=
  match find_in c id with
  | None => RErr "Ignore: unable to find"
  | Some h =>
    match ist h with
    | IS_Committed =>
      if force_holding_cell || negb (can_generate_new_commitment c) then
        if hc_mentions (c_hc c) id then RErr "Ignore: already pending"
        else ROk (set_hc c (c_hc c ++ [HC_Fail id]) (c_hc_fee c), false)
      else ROk (set_in_state c id (IS_LocalRemoved false), true)
    | IS_LocalRemoved _ => RErr "Ignore: already resolved"
    | _ => RErr "Ignore: not committed"
    end
  end.

(** [queue_fail_htlc] (what [ChannelManager::fail_htlc_backwards] ends in). *)
Definition queue_fail_htlc (c : chan) (id : Z) : chan :=
  match fail_htlc c id true with ROk (c', _) => c' | RErr _ => c end.

(** [mark_outbound_htlc_removed] via [update_fulfill_htlc] / [update_fail_htlc]. *)
Definition update_remove_htlc (c : chan) (id : Z) (success : bool) : rres chan :=
  if c_disconnected c then RErr "Peer sent update_fulfill/fail_htlc when we needed a channel_reestablish"
  else
    match find (fun h => p_id (oh h) =? id) (c_out c) with
    | None => RErr "Remote tried to fulfill/fail an HTLC we couldn't find"
    | Some h =>
      match ost h with
      | OS_LocalAnnounced => RErr "Remote tried to fulfill/fail HTLC before it had been committed"
      | OS_Committed =>
        ROk (set_htlcs c (c_in c)
               (map (fun h => if p_id (oh h) =? id then mkOut (oh h) (OS_RemoteRemoved success) else h) (c_out c)))
      | _ => RErr "Remote tried to fulfill/fail HTLC that they'd already fulfilled/failed"
      end
    end.

(** [send_update_fee] after [can_send_update_fee] said yes. [true]: message goes out. *)
Definition send_update_fee (c : chan) (feerate : Z) (force_holding_cell : bool) : chan * bool :=
  if force_holding_cell || negb (can_generate_new_commitment c) then
    (set_hc c (c_hc c) (Some feerate), false)
  else (set_fee c (c_feerate c) (Some (feerate, FS_Outbound)), true).

(** [ChannelManager::update_channel_fee] -> [queue_update_fee]: always through the holding cell. *)
Definition queue_update_fee (c : chan) (feerate : Z) : chan := fst (send_update_fee c feerate true).

(** [update_fee] *)
Definition update_fee (c : chan) (feerate : Z) : rres chan :=
  if c_funder c then RErr "Non-funding remote tried to update channel fee"
  else if c_disconnected c then RErr "Peer sent update_fee when we needed a channel_reestablish"
  else ROk (set_fee c (c_feerate c) (Some (feerate, FS_RemoteAnnounced))).

(** [free_holding_cell_htlcs]: [send_ok tag] (keyed by the payment, not the amount: two queued adds of equal
    amount may fare differently) stands for the outcome of the limit checks of the re-run
    [send_htlc] (an HTLC that no longer fits is failed backwards, i.e. dropped here). *)
Fixpoint free_hc_updates (send_ok : Z -> bool) (c : chan) (l : list hc_upd) (n : Z) : chan * Z :=
  match l with
  | [] => (c, n)
  | HC_Add amt tag :: t =>
    if send_ok tag then
      match send_htlc c amt tag with
      | ROk (c', true) => free_hc_updates send_ok c' t (n + 1)
      | _ => free_hc_updates send_ok c t n
      end
    else free_hc_updates send_ok c t n
  | HC_Claim id :: t =>
    match get_update_fulfill_htlc c id with
    | (c', _) => free_hc_updates send_ok c' t (n + 1)
    end
  | HC_Fail id :: t =>
    match fail_htlc c id false with
    | ROk (c', true) => free_hc_updates send_ok c' t (n + 1)
    | _ => free_hc_updates send_ok c t n
    end
  end.

Definition free_holding_cell_htlcs (send_ok : Z -> bool) (fee_ok : bool) (c : chan) : chan * list msg :=
  match c_hc c, c_hc_fee c with
  | [], None => (c, [])
  | l, hf =>
    let c0 := set_hc c [] hf in
    let '(c1, n) := free_hc_updates send_ok c0 l 0 in
    let '(c2, fee_sent) :=
      match hf with
      | Some f =>
        let c1' := set_hc c1 (c_hc c1) None in
        if fee_ok then send_update_fee c1' f false else (c1', false)
      | None => (c1, false)
      end in
    if (n =? 0) && negb fee_sent then (c2, []) else sign_and_send c2
  end.

(** [maybe_free_holding_cell_htlcs] *)
Definition maybe_free_holding_cell_htlcs (send_ok : Z -> bool) (fee_ok : bool) (c : chan) : chan * list msg :=
  if can_generate_new_commitment c then free_holding_cell_htlcs send_ok fee_ok c else (c, []).

(** [commitment_signed_update_monitor]: the state updates after a valid commitment_signed, and whether
    something now needs a commitment of ours ([need_commitment]). *)
Definition commitment_signed_update_monitor (c : chan) : chan * bool :=
  let c := set_cns c (c_holder_cn c - 1) (c_cp_cn c) in
  let need_fee := match c_pending_fee c with Some (_, FS_RemoteAnnounced) => true | _ => false end in
  let c := match c_pending_fee c with
           | Some (f, FS_RemoteAnnounced) => set_fee c (c_feerate c) (Some (f, FS_AwaitingRemoteRevokeToAnnounce))
           | _ => c end in
  let need_in := existsb (fun h => match ist h with IS_RemoteAnnounced => true | _ => false end) (c_in c) in
  let need_out := existsb (fun h => match ost h with OS_RemoteRemoved _ => true | _ => false end) (c_out c) in
  let i := map (fun h => match ist h with IS_RemoteAnnounced => mkIn (ih h) IS_AwaitingRemoteRevokeToAnnounce | _ => h end) (c_in c) in
  let o := map (fun h => match ost h with OS_RemoteRemoved b => mkOut (oh h) (OS_AwaitingRemoteRevokeToRemove b) | _ => h end) (c_out c) in
  let c := set_htlcs c i o in
  (* resend_order = CommitmentFirst *)
  (set_flags c (c_awaiting_raa c) (c_disconnected c) false, need_fee || need_in || need_out).

(** [commitment_signed]. The signature check is [mirror_eqb] between what the peer signed and what we
    build ([validate_commitment_signed]). Answer: RAA and, if something needs committing and we are not
    awaiting their RAA, our own commitment_signed. *)
Definition commitment_signed (c : chan) (signed : cview) : rres (chan * list msg) :=
  if c_disconnected c then RErr "Peer sent commitment_signed when we needed a channel_reestablish"
  else if negb (mirror_eqb (c_value_sat c) signed (build_view c (c_holder_cn c) false))
  then RErr "Invalid commitment tx signature from peer"
  else
    let '(c1, need_commitment) := commitment_signed_update_monitor c in
    if need_commitment && negb (c_awaiting_raa c1) then
      let '(c2, ms) := sign_and_send c1 in ROk (c2, M_Raa :: ms)
    else ROk (c1, [M_Raa]).

(** The state updates of [revoke_and_ack] before the holding cell is looked at, and
    [require_commitment]. *)
Definition revoke_and_ack_update (c : chan) : chan * bool :=
  let c := set_cns (set_flags c false (c_disconnected c) (c_resend_raa_first c)) (c_holder_cn c) (c_cp_cn c - 1) in
  let diff :=
    sum_z (map (fun h => p_amt (ih h)) (filter (fun h => match ist h with IS_LocalRemoved true => true | _ => false end) (c_in c)))
    - sum_z (map (fun h => p_amt (oh h)) (filter (fun h => match ost h with OS_AwaitingRemovedRemoteRevoke true => true | _ => false end) (c_out c))) in
  let i := filter (fun h => match ist h with IS_LocalRemoved _ => false | _ => true end) (c_in c) in
  let o := filter (fun h => match ost h with OS_AwaitingRemovedRemoteRevoke _ => false | _ => true end) (c_out c) in
  let req_in := existsb (fun h => match ist h with IS_AwaitingRemoteRevokeToAnnounce => true | _ => false end) i in
  let req_out := existsb (fun h => match ost h with OS_AwaitingRemoteRevokeToRemove _ => true | _ => false end) o in
  let i := map (fun h => match ist h with
                         | IS_AwaitingRemoteRevokeToAnnounce => mkIn (ih h) IS_AwaitingAnnouncedRemoteRevoke
                         | IS_AwaitingAnnouncedRemoteRevoke => mkIn (ih h) IS_Committed
                         | _ => h end) i in
  let o := map (fun h => match ost h with
                         | OS_LocalAnnounced => mkOut (oh h) OS_Committed
                         | OS_AwaitingRemoteRevokeToRemove b => mkOut (oh h) (OS_AwaitingRemovedRemoteRevoke b)
                         | _ => h end) o in
  let c := set_self (set_htlcs c i o) (c_self_msat c + diff) in
  match c_pending_fee c with
  | Some (f, FS_Outbound) => (set_fee c f None, req_in || req_out)
  | Some (f, FS_AwaitingRemoteRevokeToAnnounce) => (set_fee c f None, true)
  | _ => (c, req_in || req_out)
  end.

(** [revoke_and_ack] *)
Definition revoke_and_ack (send_ok : Z -> bool) (fee_ok : bool) (c : chan) : rres (chan * list msg) :=
  if c_disconnected c then RErr "Peer sent revoke_and_ack when we needed a channel_reestablish"
  else if negb (c_awaiting_raa c) then RErr "Received an unexpected revoke_and_ack"
  else
    let '(c1, require_commitment) := revoke_and_ack_update c in
    match maybe_free_holding_cell_htlcs send_ok fee_ok c1 with
    | (c2, (_ :: _) as ms) => ROk (c2, ms)
    | (c2, []) => if require_commitment then ROk (sign_and_send c2) else ROk (c2, [])
    end.

(** [remove_uncommitted_htlcs_and_mark_paused] *)
Definition peer_disconnected (c : chan) : chan :=
  if c_disconnected c then c
  else
    let dropped := Z.of_nat (List.length (filter (fun h => match ist h with IS_RemoteAnnounced => true | _ => false end) (c_in c))) in
    let i := filter (fun h => match ist h with IS_RemoteAnnounced => false | _ => true end) (c_in c) in
    let o := map (fun h => match ost h with OS_RemoteRemoved _ => mkOut (oh h) OS_Committed | _ => h end) (c_out c) in
    let c := set_ids (set_htlcs c i o) (c_next_holder_id c) (c_next_cp_id c - dropped) in
    let c := match c_pending_fee c with Some (_, FS_RemoteAnnounced) => set_fee c (c_feerate c) None | _ => c end in
    set_flags c (c_awaiting_raa c) true (c_resend_raa_first c).

Definition INITIAL_COMMITMENT_NUMBER : Z := 281474976710655. (* (1 << 48) - 1 *)

(** The [channel_reestablish] we send: [next_local_commitment_number] and
    [next_remote_commitment_number]. *)
Definition reestablish_msg (c : chan) : msg :=
  M_Reest (INITIAL_COMMITMENT_NUMBER - c_holder_cn c) (INITIAL_COMMITMENT_NUMBER - c_cp_cn c - 1).

(** [get_last_commitment_update_for_send] *)
Definition last_commitment_update (c : chan) : list msg :=
  update_msgs c ++ [M_Commit (build_view c (c_cp_cn c) true)].

(** [channel_reestablish]: the retransmission table (funded, ready channels). *)
Definition channel_reestablish (c : chan) (next_local next_remote : Z) : rres (chan * list msg) :=
  if negb (c_disconnected c) then RErr "Peer sent a loose channel_reestablish not after reconnect"
  else
    let our_commitment_transaction := INITIAL_COMMITMENT_NUMBER - c_holder_cn c - 1 in
    if next_remote + 1 <? our_commitment_transaction then RErr "Warn: very old local commitment transaction"
    else
      let c := set_flags c (c_awaiting_raa c) false (c_resend_raa_first c) in
      if negb ((next_remote =? our_commitment_transaction) || (next_remote + 1 =? our_commitment_transaction))
      then RErr "Peer attempted to reestablish channel expecting a future local commitment transaction"
      else
        let raa := if next_remote =? our_commitment_transaction then [] else [M_Raa] in
        let next_cp := INITIAL_COMMITMENT_NUMBER - c_cp_cn c + (if c_awaiting_raa c then 1 else 0) in
        if next_local =? next_cp then ROk (c, raa)
        else if next_local =? next_cp - 1 then
          let cu := last_commitment_update c in
          ROk (c, if c_resend_raa_first c then raa ++ cu else cu ++ raa)
        else if next_local <? next_cp then RErr "Peer attempted to reestablish channel with a very old remote commitment transaction"
        else RErr "Peer attempted to reestablish channel with a future remote commitment transaction".

(** [get_next_commitment_htlcs local None true] and [get_next_commitment_value_to_self_msat] as the
    inputs of the generated [get_available_balances] (what [list_channels] / [send_htlc] use:
    [local = false]). *)
Definition next_commitment_htlcs (c : chan) (local include_unknown : bool) : list HTLCAmountDirection :=
  map (fun h => mkHTLCAmountDirection false (p_amt (ih h)))
    (filter (fun h => match ist h with IS_LocalRemoved _ => local | _ => true end) (c_in c)) ++
  map (fun h => mkHTLCAmountDirection true (p_amt (oh h)))
    (filter (fun h => match ost h with
                      | OS_LocalAnnounced => include_unknown
                      | OS_Committed => true
                      | OS_RemoteRemoved _ => negb local
                      | _ => false end) (c_out c)) ++
  (if include_unknown
   then flat_map (fun u => match u with HC_Add amt _ => [mkHTLCAmountDirection true amt] | _ => [] end) (c_hc c)
   else []).

Definition next_commitment_value_to_self_msat (c : chan) (local : bool) : Z :=
  let inbound_claimed :=
    sum_z (map (fun h => p_amt (ih h))
      (filter (fun h => match ist h with IS_LocalRemoved true => negb local | _ => false end) (c_in c))) in
  let outbound_claimed :=
    sum_z (map (fun h => p_amt (oh h))
      (filter (fun h => match ost h with
                        | OS_RemoteRemoved true => local
                        | OS_AwaitingRemoteRevokeToRemove true => true
                        | OS_AwaitingRemovedRemoteRevoke true => true
                        | _ => false end) (c_out c))) in
  sat_add 64 (sat_sub (c_self_msat c) outbound_claimed) inbound_claimed.
