(** Byte strings for the executable cryptographic models in [Crypto/].

    A byte string is a [list Z] whose elements all lie in [0,256) ([bytes_wf]).  Everything here is
    meant to be run with [vm_compute] and compared byte for byte with the Rust implementation, so
    all arithmetic is on [Z] with bit operations ([Z.land], [Z.shiftr], ...), never on big [nat]s
    (a [nat] only ever counts list elements). *)
From Coq Require Import ZArith Bool String Ascii List Lia.
Import ListNotations.
Open Scope Z_scope.

Definition byte := Z.
Definition bytes := list Z.

(** ** Well-formedness *)

Definition byte_ok (b : Z) : bool := (0 <=? b) && (b <? 256).
Definition bytes_wf (l : bytes) : bool := forallb byte_ok l.

(** ** xor, zeros *)

Fixpoint xor_bytes (a b : bytes) : bytes :=
  match a, b with
  | x :: a', y :: b' => Z.lxor x y :: xor_bytes a' b'
  | _, _ => []
  end.

Definition zeros (n : nat) : bytes := repeat 0 n.

(** ** Fixed-width integer encodings.  The encoders truncate (they keep the low bits), so their
    output is well formed for every argument, also a negative or oversized one. *)

Definition b0 (x : Z) : Z := Z.land x 255.
Definition b1 (x : Z) : Z := Z.land (Z.shiftr x 8) 255.
Definition b2 (x : Z) : Z := Z.land (Z.shiftr x 16) 255.
Definition b3 (x : Z) : Z := Z.land (Z.shiftr x 24) 255.

Definition be16 (x : Z) : bytes := [b1 x; b0 x].
Definition le16 (x : Z) : bytes := [b0 x; b1 x].
Definition be32 (x : Z) : bytes := [b3 x; b2 x; b1 x; b0 x].
Definition le32 (x : Z) : bytes := [b0 x; b1 x; b2 x; b3 x].
Definition be64 (x : Z) : bytes := be32 (Z.shiftr x 32) ++ be32 x.
Definition le64 (x : Z) : bytes := le32 x ++ le32 (Z.shiftr x 32).

(** Big-/little-endian number of a whole byte string (any length). *)
Definition of_be (l : bytes) : Z := fold_left (fun acc b => acc * 256 + b) l 0.
Fixpoint of_le (l : bytes) : Z :=
  match l with
  | [] => 0
  | b :: r => b + 256 * of_le r
  end.

(** The fixed-width decoders read the first 2/4/8 bytes (fewer if the string is shorter). *)
Definition of_be16 (l : bytes) : Z := of_be (firstn 2 l).
Definition of_be32 (l : bytes) : Z := of_be (firstn 4 l).
Definition of_be64 (l : bytes) : Z := of_be (firstn 8 l).
Definition of_le16 (l : bytes) : Z := of_le (firstn 2 l).
Definition of_le32 (l : bytes) : Z := of_le (firstn 4 l).
Definition of_le64 (l : bytes) : Z := of_le (firstn 8 l).

(** Little-endian encoding on [n] bytes (used by Poly1305 for 16 bytes). *)
Fixpoint le_n (n : nat) (x : Z) : bytes :=
  match n with
  | O => []
  | S m => Z.land x 255 :: le_n m (Z.shiftr x 8)
  end.

(** ** Equality *)

Fixpoint bytes_eqb (a b : bytes) : bool :=
  match a, b with
  | [], [] => true
  | x :: a', y :: b' => (x =? y) && bytes_eqb a' b'
  | _, _ => false
  end.

(** ** Hex (lower case on output; both cases accepted on input; a character that is not a hex digit
    reads as 0; an odd trailing digit is dropped). *)

Definition hexdigit (n : Z) : ascii :=
  match n with
  | 0 => "0" | 1 => "1" | 2 => "2" | 3 => "3" | 4 => "4" | 5 => "5" | 6 => "6" | 7 => "7"
  | 8 => "8" | 9 => "9" | 10 => "a" | 11 => "b" | 12 => "c" | 13 => "d" | 14 => "e" | _ => "f"
  end%char.

Fixpoint hex_of_bytes (l : bytes) : string :=
  match l with
  | [] => EmptyString
  | b :: r => String (hexdigit (Z.land (Z.shiftr b 4) 15)) (String (hexdigit (Z.land b 15)) (hex_of_bytes r))
  end.

Definition nibble_of_ascii (c : ascii) : Z :=
  let n := Z.of_N (N_of_ascii c) in
  if (48 <=? n) && (n <=? 57) then n - 48
  else if (97 <=? n) && (n <=? 102) then n - 87
  else if (65 <=? n) && (n <=? 70) then n - 55
  else 0.

Fixpoint bytes_of_hex (s : string) : bytes :=
  match s with
  | String c1 (String c2 r) => (16 * nibble_of_ascii c1 + nibble_of_ascii c2) :: bytes_of_hex r
  | _ => []
  end.

(** ASCII text as bytes (for test vectors). *)
Fixpoint bytes_of_string (s : string) : bytes :=
  match s with
  | EmptyString => []
  | String c r => Z.of_N (N_of_ascii c) :: bytes_of_string r
  end.

(** Split into chunks of [n] elements (the last one may be shorter).  [fuel] only has to be at
    least the number of chunks; [chunks] supplies [length l]. *)
Fixpoint chunks_fuel (fuel n : nat) (l : bytes) : list bytes :=
  match fuel with
  | O => []
  | S f => match l with
           | [] => []
           | _ => firstn n l :: chunks_fuel f n (skipn n l)
           end
  end.
Definition chunks (n : nat) (l : bytes) : list bytes := chunks_fuel (length l) n l.

(** * Lemmas *)

Lemma byte_ok_iff b : byte_ok b = true <-> 0 <= b < 256.
Proof. unfold byte_ok. rewrite andb_true_iff, Z.leb_le, Z.ltb_lt. tauto. Qed.

Lemma bytes_wf_iff l : bytes_wf l = true <-> Forall (fun b => 0 <= b < 256) l.
Proof.
  unfold bytes_wf. rewrite forallb_forall, Forall_forall.
  split; intros H x Hx; apply byte_ok_iff; auto.
Qed.

Lemma bytes_wf_nil : bytes_wf [] = true.
Proof. reflexivity. Qed.

Lemma bytes_wf_cons b l : bytes_wf (b :: l) = byte_ok b && bytes_wf l.
Proof. reflexivity. Qed.

Lemma bytes_wf_app a b : bytes_wf (a ++ b) = bytes_wf a && bytes_wf b.
Proof. unfold bytes_wf. apply forallb_app. Qed.

Lemma bytes_wf_firstn n l : bytes_wf l = true -> bytes_wf (firstn n l) = true.
Proof.
  revert l. induction n as [|n IH]; intros [|b l] H; try reflexivity.
  cbn [firstn]. rewrite bytes_wf_cons in *. apply andb_true_iff in H as [Hb Hl].
  rewrite Hb. cbn. auto.
Qed.

Lemma bytes_wf_skipn n l : bytes_wf l = true -> bytes_wf (skipn n l) = true.
Proof.
  revert l. induction n as [|n IH]; intros [|b l] H; try reflexivity; try exact H.
  cbn [skipn]. rewrite bytes_wf_cons in H. apply andb_true_iff in H as [_ Hl]. auto.
Qed.

Lemma bytes_wf_zeros n : bytes_wf (zeros n) = true.
Proof. induction n as [|n IH]; [reflexivity|]. cbn. exact IH. Qed.

Lemma length_zeros n : length (zeros n) = n.
Proof. apply repeat_length. Qed.

Lemma land_255_ok x : byte_ok (Z.land x 255) = true.
Proof.
  apply byte_ok_iff. change 255 with (Z.ones 8). rewrite Z.land_ones by lia.
  change (2 ^ 8) with 256. apply Z.mod_pos_bound. lia.
Qed.

Lemma b0_ok x : byte_ok (b0 x) = true. Proof. apply land_255_ok. Qed.
Lemma b1_ok x : byte_ok (b1 x) = true. Proof. apply land_255_ok. Qed.
Lemma b2_ok x : byte_ok (b2 x) = true. Proof. apply land_255_ok. Qed.
Lemma b3_ok x : byte_ok (b3 x) = true. Proof. apply land_255_ok. Qed.

Lemma bytes_wf_be16 x : bytes_wf (be16 x) = true.
Proof. unfold be16. cbn [bytes_wf forallb]. now rewrite b0_ok, b1_ok. Qed.
Lemma bytes_wf_le16 x : bytes_wf (le16 x) = true.
Proof. unfold le16. cbn [bytes_wf forallb]. now rewrite b0_ok, b1_ok. Qed.
Lemma bytes_wf_be32 x : bytes_wf (be32 x) = true.
Proof. unfold be32. cbn [bytes_wf forallb]. now rewrite b0_ok, b1_ok, b2_ok, b3_ok. Qed.
Lemma bytes_wf_le32 x : bytes_wf (le32 x) = true.
Proof. unfold le32. cbn [bytes_wf forallb]. now rewrite b0_ok, b1_ok, b2_ok, b3_ok. Qed.
Lemma bytes_wf_be64 x : bytes_wf (be64 x) = true.
Proof. unfold be64. now rewrite bytes_wf_app, !bytes_wf_be32. Qed.
Lemma bytes_wf_le64 x : bytes_wf (le64 x) = true.
Proof. unfold le64. now rewrite bytes_wf_app, !bytes_wf_le32. Qed.

Lemma length_be16 x : length (be16 x) = 2%nat. Proof. reflexivity. Qed.
Lemma length_le16 x : length (le16 x) = 2%nat. Proof. reflexivity. Qed.
Lemma length_be32 x : length (be32 x) = 4%nat. Proof. reflexivity. Qed.
Lemma length_le32 x : length (le32 x) = 4%nat. Proof. reflexivity. Qed.
Lemma length_be64 x : length (be64 x) = 8%nat. Proof. reflexivity. Qed.
Lemma length_le64 x : length (le64 x) = 8%nat. Proof. reflexivity. Qed.

Lemma length_le_n n x : length (le_n n x) = n.
Proof. revert x. induction n as [|n IH]; intros x; cbn; [reflexivity|]. now rewrite IH. Qed.

Lemma bytes_wf_le_n n x : bytes_wf (le_n n x) = true.
Proof.
  revert x. induction n as [|n IH]; intros x; [reflexivity|].
  cbn [le_n]. rewrite bytes_wf_cons, land_255_ok. cbn. apply IH.
Qed.

(** *** xor *)

Lemma xor_bytes_length a b : length (xor_bytes a b) = Nat.min (length a) (length b).
Proof.
  revert b. induction a as [|x a IH]; intros [|y b]; cbn; try reflexivity.
  now rewrite IH.
Qed.

Lemma xor_bytes_length_eq a b : length a = length b -> length (xor_bytes a b) = length a.
Proof. intros H. rewrite xor_bytes_length, <- H. apply Nat.min_id. Qed.

Lemma xor_bytes_nil_r a : xor_bytes a [] = [].
Proof. destruct a; reflexivity. Qed.

(** [xor]ing twice with the same pad gives the data back (no range condition is needed for this). *)
Lemma xor_bytes_cancel a b : length a = length b -> xor_bytes (xor_bytes a b) b = a.
Proof.
  revert b. induction a as [|x a IH]; intros [|y b] H; cbn in *; try reflexivity; try discriminate.
  rewrite IH by congruence.
  rewrite Z.lxor_assoc, Z.lxor_nilpotent, Z.lxor_0_r. reflexivity.
Qed.

(** The statement other developments were told to expect (the [bytes_wf] premise is not used). *)
Lemma xor_bytes_involutive a b :
  length a = length b -> bytes_wf a = true -> xor_bytes (xor_bytes a b) b = a.
Proof. intros H _. now apply xor_bytes_cancel. Qed.

Lemma xor_bytes_comm a b : xor_bytes a b = xor_bytes b a.
Proof.
  revert b. induction a as [|x a IH]; intros [|y b]; cbn; try reflexivity.
  now rewrite IH, Z.lxor_comm.
Qed.

Lemma xor_bytes_zeros_r a n : length a = n -> xor_bytes a (zeros n) = a.
Proof.
  revert n. induction a as [|x a IH]; intros [|n] H; cbn in *; try reflexivity; try discriminate.
  rewrite Z.lxor_0_r. f_equal. apply IH. congruence.
Qed.

Lemma lxor_byte_ok x y : byte_ok x = true -> byte_ok y = true -> byte_ok (Z.lxor x y) = true.
Proof.
  rewrite !byte_ok_iff. intros Hx Hy.
  assert (Hn : 0 <= Z.lxor x y) by (apply Z.lxor_nonneg; lia).
  split; [exact Hn|].
  destruct (Z.eq_dec (Z.lxor x y) 0) as [E|E]; [lia|].
  change 256 with (2 ^ 8). apply Z.log2_lt_pow2; [lia|].
  eapply Z.le_lt_trans; [apply Z.log2_lxor; lia|].
  apply Z.max_lub_lt.
  - destruct (Z.eq_dec x 0) as [->|]; [cbn; lia|]. apply Z.log2_lt_pow2; lia.
  - destruct (Z.eq_dec y 0) as [->|]; [cbn; lia|]. apply Z.log2_lt_pow2; lia.
Qed.

Lemma bytes_wf_xor a b : bytes_wf a = true -> bytes_wf b = true -> bytes_wf (xor_bytes a b) = true.
Proof.
  revert b. induction a as [|x a IH]; intros [|y b] Ha Hb; try reflexivity.
  cbn [xor_bytes]. rewrite bytes_wf_cons in *.
  apply andb_true_iff in Ha as [Hx Ha]. apply andb_true_iff in Hb as [Hy Hb].
  rewrite lxor_byte_ok, IH by assumption. reflexivity.
Qed.

Lemma xor_bytes_app a1 a2 b1 b2 :
  length a1 = length b1 -> xor_bytes (a1 ++ a2) (b1 ++ b2) = xor_bytes a1 b1 ++ xor_bytes a2 b2.
Proof.
  revert b1. induction a1 as [|x a1 IH]; intros [|y b1] H; cbn in *; try reflexivity; try discriminate.
  f_equal. apply IH. congruence.
Qed.

Lemma xor_bytes_firstn a b : xor_bytes a b = xor_bytes a (firstn (length a) b).
Proof.
  revert b. induction a as [|x a IH]; intros [|y b]; cbn; try reflexivity.
  now rewrite <- IH.
Qed.

(** *** equality *)

Lemma bytes_eqb_refl a : bytes_eqb a a = true.
Proof. induction a as [|x a IH]; cbn; [reflexivity|]. now rewrite Z.eqb_refl, IH. Qed.

Lemma bytes_eqb_eq a b : bytes_eqb a b = true <-> a = b.
Proof.
  split; [|intros ->; apply bytes_eqb_refl].
  revert b. induction a as [|x a IH]; intros [|y b] H; cbn in H; try reflexivity; try discriminate.
  apply andb_true_iff in H as [Hxy H]. apply Z.eqb_eq in Hxy. subst. f_equal. auto.
Qed.

(** *** decoders invert encoders *)

Lemma b_split32 x : 0 <= x < 2 ^ 32 ->
  x = b0 x + 256 * (b1 x + 256 * (b2 x + 256 * b3 x)).
Proof.
  intros H. unfold b0, b1, b2, b3. change 255 with (Z.ones 8).
  rewrite !Z.land_ones, !Z.shiftr_div_pow2 by lia.
  change (2 ^ 8) with 256. change (2 ^ 16) with 65536. change (2 ^ 24) with 16777216.
  change (2 ^ 32) with 4294967296 in H.
  Z.div_mod_to_equations. lia.
Qed.

Lemma of_le32_le32 x : 0 <= x < 2 ^ 32 -> of_le32 (le32 x) = x.
Proof. intros H. unfold of_le32, le32. cbn [firstn of_le]. rewrite (b_split32 x H) at 5. lia. Qed.

Lemma of_be32_be32 x : 0 <= x < 2 ^ 32 -> of_be32 (be32 x) = x.
Proof.
  intros H. unfold of_be32, be32, of_be. cbn [firstn fold_left]. rewrite (b_split32 x H) at 5. lia.
Qed.

(** * Examples *)

Example ex_hex : hex_of_bytes [0; 1; 171; 255] = "0001abff"%string.
Proof. reflexivity. Qed.
Example ex_unhex : bytes_of_hex "0001abFF" = [0; 1; 171; 255].
Proof. reflexivity. Qed.
Example ex_be32 : be32 305419896 = [18; 52; 86; 120] /\ of_be32 [18; 52; 86; 120] = 305419896.
Proof. split; reflexivity. Qed.
Example ex_le64 : le64 72623859790382856 = [8; 7; 6; 5; 4; 3; 2; 1] /\ of_le64 [8; 7; 6; 5; 4; 3; 2; 1] = 72623859790382856.
Proof. split; reflexivity. Qed.
Example ex_be64 : be64 72623859790382856 = [1; 2; 3; 4; 5; 6; 7; 8] /\ of_be64 [1; 2; 3; 4; 5; 6; 7; 8] = 72623859790382856.
Proof. split; reflexivity. Qed.
Example ex_be16 : be16 4660 = [18; 52] /\ of_be16 [18; 52] = 4660.
Proof. split; reflexivity. Qed.
Example ex_xor : xor_bytes [1; 2; 3] [255; 255] = [254; 253].
Proof. reflexivity. Qed.
Example ex_chunks : chunks 2 [1; 2; 3; 4; 5] = [[1; 2]; [3; 4]; [5]].
Proof. reflexivity. Qed.
