(** HKDF-SHA256 (RFC 5869) with EMPTY info, in the shapes of rust-lightning's
    [crypto::utils::hkdf_extract_expand!] macro:

      prk = HMAC(salt, ikm);  T1 = HMAC(prk, 0x01);  T(i) = HMAC(prk, T(i-1) || i)

    The tree has exactly two instances: [hkdf_extract_expand_twice] (T1, T2) and
    [hkdf_extract_expand_8x] (T1..T8); there are no 3-/4-/5-/6-output variants.  The Noise
    handshake's [hkdf] is [hkdf_extract_expand_twice(ck, shared_secret)]. *)
From Coq Require Import ZArith Bool String List Lia.
From LdkV Require Import Crypto.Bytes Crypto.Sha256 Crypto.Hmac.
Import ListNotations.
Open Scope Z_scope.

Definition hkdf_extract (salt ikm : bytes) : bytes := hmac_sha256 salt ikm.

(** T(i) from T(i-1) ([prev = []] for i = 1). *)
Definition hkdf_next (prk prev : bytes) (i : Z) : bytes := hmac_sha256 prk (prev ++ [i]).

(** [n] consecutive output blocks starting with T(i), given T(i-1). *)
Fixpoint hkdf_expand_from (prk prev : bytes) (i : Z) (n : nat) : list bytes :=
  match n with
  | O => []
  | S m => let t := hkdf_next prk prev i in t :: hkdf_expand_from prk t (i + 1) m
  end.

(** T1..Tn for empty info (n <= 255). *)
Definition hkdf_expand_n (prk : bytes) (n : nat) : list bytes := hkdf_expand_from prk [] 1 n.

Definition hkdf_extract_expand_twice (salt ikm : bytes) : bytes * bytes :=
  let prk := hkdf_extract salt ikm in
  let t1 := hkdf_next prk [] 1 in
  let t2 := hkdf_next prk t1 2 in
  (t1, t2).

(** [hkdf_extract_expand_8x]: the eight keys as a list [k1; ...; k8]. *)
Definition hkdf_extract_expand_8x (salt ikm : bytes) : list bytes :=
  hkdf_expand_n (hkdf_extract salt ikm) 8.

Lemma hkdf_twice_as_expand salt ikm :
  hkdf_expand_n (hkdf_extract salt ikm) 2 =
  [fst (hkdf_extract_expand_twice salt ikm); snd (hkdf_extract_expand_twice salt ikm)].
Proof. reflexivity. Qed.

(** The first two of the eight keys are the two keys of [hkdf_extract_expand_twice]. *)
Lemma hkdf_8x_prefix salt ikm :
  firstn 2 (hkdf_extract_expand_8x salt ikm) =
  [fst (hkdf_extract_expand_twice salt ikm); snd (hkdf_extract_expand_twice salt ikm)].
Proof. reflexivity. Qed.

Lemma length_hkdf_twice_fst salt ikm : length (fst (hkdf_extract_expand_twice salt ikm)) = 32%nat.
Proof. unfold hkdf_extract_expand_twice, hkdf_next. cbn [fst]. apply length_hmac_sha256. Qed.

Lemma length_hkdf_twice_snd salt ikm : length (snd (hkdf_extract_expand_twice salt ikm)) = 32%nat.
Proof. unfold hkdf_extract_expand_twice, hkdf_next. cbn [snd]. apply length_hmac_sha256. Qed.

Lemma bytes_wf_hkdf_twice_fst salt ikm : bytes_wf (fst (hkdf_extract_expand_twice salt ikm)) = true.
Proof. unfold hkdf_extract_expand_twice, hkdf_next. cbn [fst]. apply bytes_wf_hmac_sha256. Qed.

Lemma bytes_wf_hkdf_twice_snd salt ikm : bytes_wf (snd (hkdf_extract_expand_twice salt ikm)) = true.
Proof. unfold hkdf_extract_expand_twice, hkdf_next. cbn [snd]. apply bytes_wf_hmac_sha256. Qed.

Lemma hkdf_expand_from_all32 prk prev i n :
  Forall (fun t => length t = 32%nat /\ bytes_wf t = true) (hkdf_expand_from prk prev i n).
Proof.
  revert prev i. induction n as [|n IH]; intros prev i; cbn [hkdf_expand_from]; constructor.
  - unfold hkdf_next. split; [apply length_hmac_sha256|apply bytes_wf_hmac_sha256].
  - apply IH.
Qed.

Lemma length_hkdf_expand_from prk prev i n : length (hkdf_expand_from prk prev i n) = n.
Proof. revert prev i. induction n as [|n IH]; intros prev i; cbn; [reflexivity|]. now rewrite IH. Qed.

Lemma length_hkdf_extract_expand_8x salt ikm : length (hkdf_extract_expand_8x salt ikm) = 8%nat.
Proof. apply length_hkdf_expand_from. Qed.

(** * Test vectors *)

(** RFC 5869 test case 1, extract step (its expand step uses a non-empty info, which
    rust-lightning never does). *)
Example hkdf_extract_rfc5869_1 :
  hex_of_bytes (hkdf_extract (bytes_of_hex "000102030405060708090a0b0c") (repeat 11 22)) =
  "077709362c2e32df0ddc3f0dc47bba6390b6c73bb50f9c3122ec844ad7c2b3e5"%string.
Proof. vm_compute. reflexivity. Qed.

(** RFC 5869 test case 3 (empty salt, empty info, L = 42): PRK, and OKM = T1 || first 10 bytes of T2. *)
Example hkdf_rfc5869_3 :
  hex_of_bytes (hkdf_extract [] (repeat 11 22)) =
    "19ef24a32c717b167f33a91d6f648bdf96596776afdb6377ac434c1c293ccb04"%string /\
  (let '(t1, t2) := hkdf_extract_expand_twice [] (repeat 11 22) in
   hex_of_bytes (t1 ++ firstn 10 t2)) =
    ("8da4e775a563c18f715f802a063c5a31b8a11f5c5ee1879ec3454e5f3c738d2d" ++
     "9d201395faa4b61a96c8")%string.
Proof. vm_compute. split; reflexivity. Qed.

Example hkdf_8x_ex :
  map hex_of_bytes (hkdf_extract_expand_8x (bytes_of_hex "000102030405060708090a0b0c") (repeat 11 22)) =
  [ "b2a3d45126d31fb6828ef00d76c6d54e9c2bd4785e49c6ad86e327d89d0de940";
    "8eeda1cbef2b03f30e053d5be784c2ab37f5a4de412baa10f01f456e9772aae7";
    "5734f7dda6560fdac61bc17a37fe5a0394aa9d554fa28df55a05db4da8f42c08";
    "e3bc2fc8d2db3a4627a31b80a1ecee153560f29107d536f10e54c8930d509948";
    "5cfdea1bce01afdb221bb0ef8c596434d599943df558cb44bdd2682eb0b59c32";
    "1646ebb99deeaea43783b0a664d98363c99d0a706c9c64c49e6586929f904760";
    "f8b14d8b578700b1db29a4341645db618f1bc8e140369b907e8ed6406d823057";
    "b2863554560358971b51d2802b159fefe0e8b670484dc319dcd81de2e1394383" ]%string.
Proof. vm_compute. reflexivity. Qed.
