(** Poly1305 one-time authenticator (RFC 8439 section 2.5), executable, arithmetic in [Z] modulo
    2^130 - 5.  Matches [chacha20_poly1305::poly1305::Poly1305] ([new(key); input(..)*; tag()]):
    the crate buffers partial blocks, so several [input] calls equal one call on the concatenation.

    [poly1305_spec] is the RFC text literally (full reduction after every block); [poly1305] is the
    version meant for [vm_compute]: it folds the bits above 2^130 back in (2^130 = 5 mod p) instead
    of dividing, and reduces fully once at the end.  [poly1305_eq_spec] proves them equal. *)
From Coq Require Import ZArith Bool String List Lia.
From LdkV Require Import Crypto.Bytes.
Import ListNotations.
Open Scope Z_scope.

Definition p1305 : Z := 2 ^ 130 - 5.
Definition poly_clamp (r : Z) : Z := Z.land r 0x0ffffffc0ffffffc0ffffffc0fffffff.

(** The (up to 16) bytes of a block as a little-endian number with a 1 byte appended. *)
Definition poly_block (chunk : bytes) : Z := of_le (chunk ++ [1]).

Definition poly_r (key : bytes) : Z := poly_clamp (of_le (firstn 16 key)).
Definition poly_s (key : bytes) : Z := of_le (firstn 16 (skipn 16 key)).

(** *** RFC-literal version *)
Definition poly_step_spec (r acc : Z) (chunk : bytes) : Z :=
  ((acc + poly_block chunk) * r) mod p1305.

Definition poly1305_spec (key msg : bytes) : bytes :=
  let acc := fold_left (poly_step_spec (poly_r key)) (chunks 16 msg) 0 in
  le_n 16 (acc + poly_s key).

(** *** Fast version *)
Definition poly_fold130 (x : Z) : Z := Z.land x (Z.ones 130) + 5 * Z.shiftr x 130.

Definition poly_step (r acc : Z) (chunk : bytes) : Z :=
  poly_fold130 ((acc + poly_block chunk) * r).

Definition poly1305 (key msg : bytes) : bytes :=
  let acc := fold_left (poly_step (poly_r key)) (chunks 16 msg) 0 in
  le_n 16 (acc mod p1305 + poly_s key).

(** * Lemmas *)

Lemma length_poly1305 key msg : length (poly1305 key msg) = 16%nat.
Proof. apply length_le_n. Qed.

Lemma bytes_wf_poly1305 key msg : bytes_wf (poly1305 key msg) = true.
Proof. apply bytes_wf_le_n. Qed.

Lemma poly_fold130_mod x : poly_fold130 x mod p1305 = x mod p1305.
Proof.
  unfold poly_fold130. rewrite Z.land_ones, Z.shiftr_div_pow2 by lia.
  rewrite (Z.div_mod x (2 ^ 130)) at 3 by (apply Z.pow_nonzero; lia).
  replace (2 ^ 130 * (x / 2 ^ 130) + x mod 2 ^ 130)
    with (x mod 2 ^ 130 + 5 * (x / 2 ^ 130) + (x / 2 ^ 130) * p1305) by (unfold p1305; ring).
  rewrite Z.mod_add; [reflexivity|]. unfold p1305. lia.
Qed.

Lemma poly_fold_eq r chunksl acc1 acc2 :
  acc1 mod p1305 = acc2 ->
  (fold_left (poly_step r) chunksl acc1) mod p1305 = fold_left (poly_step_spec r) chunksl acc2.
Proof.
  revert acc1 acc2. induction chunksl as [|c l IH]; intros acc1 acc2 H; cbn [fold_left]; [exact H|].
  apply IH. unfold poly_step, poly_step_spec. rewrite poly_fold130_mod, <- H.
  assert (Hp : p1305 <> 0) by (unfold p1305; lia).
  symmetry. rewrite <- Z.mul_mod_idemp_l, Z.add_mod_idemp_l, Z.mul_mod_idemp_l by exact Hp.
  reflexivity.
Qed.

Lemma poly1305_eq_spec key msg : poly1305 key msg = poly1305_spec key msg.
Proof.
  unfold poly1305, poly1305_spec. f_equal. f_equal.
  apply poly_fold_eq. reflexivity.
Qed.

Global Opaque poly1305 poly1305_spec poly_step poly_step_spec poly_fold130.

(** RFC 8439 section 2.5.2 *)
Example poly1305_rfc_2_5_2 :
  hex_of_bytes (poly1305
    (bytes_of_hex "85d6be7857556d337f4452fe42d506a80103808afb0db2fd4abff6af4149f51b")
    (bytes_of_string "Cryptographic Forum Research Group")) =
  "a8061dc1305136c6c22b8baf0c0127a9"%string.
Proof. vm_compute. reflexivity. Qed.

Example poly1305_spec_rfc_2_5_2 :
  hex_of_bytes (poly1305_spec
    (bytes_of_hex "85d6be7857556d337f4452fe42d506a80103808afb0db2fd4abff6af4149f51b")
    (bytes_of_string "Cryptographic Forum Research Group")) =
  "a8061dc1305136c6c22b8baf0c0127a9"%string.
Proof. vm_compute. reflexivity. Qed.

(** Empty message: the tag is [s]. *)
Example poly1305_empty :
  hex_of_bytes (poly1305
    (bytes_of_hex "85d6be7857556d337f4452fe42d506a80103808afb0db2fd4abff6af4149f51b") []) =
  "0103808afb0db2fd4abff6af4149f51b"%string.
Proof. vm_compute. reflexivity. Qed.

(** All-ones blocks with the maximal clamped [r]: exercises the carry folding (value cross-checked
    against the Rust crate by tools/corr_crypto.py). *)
Example poly1305_fast_eq_spec_ones :
  let key := repeat 255 32 in let msg := repeat 255 160 in
  poly1305 key msg = poly1305_spec key msg.
Proof. vm_compute. reflexivity. Qed.
