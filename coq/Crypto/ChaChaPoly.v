(** ChaCha20-Poly1305 AEAD (RFC 8439 section 2.8), executable, plus the variants rust-lightning
    builds from the same parts.

    [aead_encrypt key nonce ad pt] = ciphertext ++ 16-byte tag, as
    [chacha20_poly1305::ChaCha20Poly1305::new(key, nonce).encrypt(buf, Some(ad))] followed by
    appending the tag (what [peer_channel_encryptor] and [our_peer_storage] do).  [ad = []] models
    [None] (the crate treats them alike).

    rust-lightning specific constructions in [crypto/streams.rs]:
    - [ChaChaPolyWriteAdapter] / [ChaChaPolyReadAdapter] (onion-message and blinded-path payloads):
      key [rho], all-zero nonce, no AAD; they take 64 keystream bytes from byte offset 0, use the
      first 32 as Poly1305 key, and continue the stream at byte 64 (= block 1).  That is exactly the
      RFC AEAD with a zero nonce and empty AAD: [ldk_chachapoly_encrypt], [ldk_chachapoly_decrypt].
    - [chachapoly_encrypt_with_swapped_aad] / [ChaChaTriPolyReadAdapter]: NOT the RFC layout: the
      MAC input is ciphertext || pad16 || aad(32 bytes) || le64(len ct) || le64(32), i.e. data and
      AAD (and their lengths) swapped: [ldk_chachapoly_encrypt_swapped_aad], [ldk_tripoly_decrypt]. *)
From Coq Require Import ZArith Bool String List Lia.
From LdkV Require Import Crypto.Bytes Crypto.ChaCha20 Crypto.Poly1305.
Import ListNotations.
Open Scope Z_scope.

Definition pad16 (l : bytes) : bytes := zeros (Z.to_nat ((- Z.of_nat (length l)) mod 16)).

Definition aead_mac_data (ad ct : bytes) : bytes :=
  ad ++ pad16 ad ++ ct ++ pad16 ct ++ le64 (Z.of_nat (length ad)) ++ le64 (Z.of_nat (length ct)).

(** Poly1305 one-time key: first 32 bytes of keystream block 0. *)
Definition aead_otk (key nonce : bytes) : bytes := firstn 32 (chacha20_block key 0 nonce).

Definition aead_tag (key nonce ad ct : bytes) : bytes :=
  poly1305 (aead_otk key nonce) (aead_mac_data ad ct).

Definition aead_encrypt (key nonce ad pt : bytes) : bytes :=
  let ct := chacha20_xor key nonce 1 pt in
  ct ++ aead_tag key nonce ad ct.

Definition aead_decrypt (key nonce ad ct_and_tag : bytes) : option bytes :=
  let n := length ct_and_tag in
  if (n <? 16)%nat then None
  else
    let ct := firstn (n - 16) ct_and_tag in
    let tag := skipn (n - 16) ct_and_tag in
    if bytes_eqb (aead_tag key nonce ad ct) tag then Some (chacha20_xor key nonce 1 ct) else None.

(** ** rust-lightning's stream adapters *)

Definition ldk_chachapoly_encrypt (rho pt : bytes) : bytes := aead_encrypt rho zero_nonce [] pt.
Definition ldk_chachapoly_decrypt (rho c : bytes) : option bytes := aead_decrypt rho zero_nonce [] c.

Definition swapped_mac_data (aad ct : bytes) : bytes :=
  ct ++ pad16 ct ++ aad ++ le64 (Z.of_nat (length ct)) ++ le64 32.

(** [chachapoly_encrypt_with_swapped_aad(plaintext, key, aad)] ([aad] is 32 bytes there). *)
Definition ldk_chachapoly_encrypt_swapped_aad (key aad pt : bytes) : bytes :=
  let ct := chacha20_xor key zero_nonce 1 pt in
  ct ++ poly1305 (aead_otk key zero_nonce) (swapped_mac_data aad ct).

(** [ChaChaTriPolyReadAdapter]: decrypts and tells which MAC matched, tried in this order:
    0 = plain RFC tag without AAD, 1 = swapped-AAD tag with [aad_a], 2 = with [aad_b]. *)
Definition ldk_tripoly_decrypt (key aad_a aad_b c : bytes) : option (bytes * Z) :=
  let n := length c in
  if (n <? 16)%nat then None
  else
    let ct := firstn (n - 16) c in
    let tag := skipn (n - 16) c in
    let otk := aead_otk key zero_nonce in
    let pt := chacha20_xor key zero_nonce 1 ct in
    if bytes_eqb (poly1305 otk (aead_mac_data [] ct)) tag then Some (pt, 0)
    else if bytes_eqb (poly1305 otk (swapped_mac_data aad_a ct)) tag then Some (pt, 1)
    else if bytes_eqb (poly1305 otk (swapped_mac_data aad_b ct)) tag then Some (pt, 2)
    else None.

(** * Lemmas *)

Lemma length_aead_tag key nonce ad ct : length (aead_tag key nonce ad ct) = 16%nat.
Proof. apply length_poly1305. Qed.

Lemma length_aead_encrypt key nonce ad pt :
  length (aead_encrypt key nonce ad pt) = (length pt + 16)%nat.
Proof. unfold aead_encrypt. now rewrite app_length, length_chacha20_xor, length_aead_tag. Qed.

Lemma bytes_wf_aead_encrypt key nonce ad pt :
  bytes_wf pt = true -> bytes_wf (aead_encrypt key nonce ad pt) = true.
Proof.
  intros H. unfold aead_encrypt, aead_tag.
  now rewrite bytes_wf_app, bytes_wf_chacha20_xor, bytes_wf_poly1305.
Qed.

Lemma split_ct_tag (ct tag : bytes) :
  length tag = 16%nat ->
  firstn (length (ct ++ tag) - 16) (ct ++ tag) = ct /\ skipn (length (ct ++ tag) - 16) (ct ++ tag) = tag.
Proof.
  intros H. rewrite app_length, H.
  replace (length ct + 16 - 16)%nat with (length ct + 0)%nat by lia.
  split.
  - rewrite firstn_app_2. cbn. apply app_nil_r.
  - rewrite Nat.add_0_r, skipn_app, skipn_all, Nat.sub_diag. reflexivity.
Qed.

(** Decryption of an honest ciphertext returns the plaintext.  No side condition is needed: the
    model is total and the statement holds for every key, nonce, AAD and plaintext (any lengths). *)
Lemma aead_decrypt_encrypt key nonce ad pt :
  aead_decrypt key nonce ad (aead_encrypt key nonce ad pt) = Some pt.
Proof.
  unfold aead_decrypt.
  pose proof (length_aead_encrypt key nonce ad pt) as HL.
  destruct (Nat.ltb_spec (length (aead_encrypt key nonce ad pt)) 16) as [Hlt|_]; [lia|].
  unfold aead_encrypt in *.
  destruct (split_ct_tag (chacha20_xor key nonce 1 pt) (aead_tag key nonce ad (chacha20_xor key nonce 1 pt))
              (length_aead_tag _ _ _ _)) as [-> ->].
  rewrite bytes_eqb_refl. f_equal. apply chacha20_xor_involutive.
Qed.

(** The form announced to the other developments (hypotheses not needed, kept for compatibility). *)
Lemma aead_roundtrip key nonce ad pt :
  bytes_wf key = true -> bytes_wf nonce = true -> bytes_wf ad = true -> bytes_wf pt = true ->
  length key = 32%nat -> length nonce = 12%nat ->
  aead_decrypt key nonce ad (aead_encrypt key nonce ad pt) = Some pt.
Proof. intros. apply aead_decrypt_encrypt. Qed.

(** Conversely, whatever decrypts successfully is the honest encryption of the result. *)
Lemma aead_decrypt_Some_inv key nonce ad c pt :
  aead_decrypt key nonce ad c = Some pt -> c = aead_encrypt key nonce ad pt.
Proof.
  unfold aead_decrypt.
  destruct (Nat.ltb_spec (length c) 16) as [|Hge]; [discriminate|].
  destruct (bytes_eqb _ _) eqn:E; [|discriminate].
  intros [= <-]. apply bytes_eqb_eq in E.
  unfold aead_encrypt. rewrite chacha20_xor_involutive, E. symmetry. apply firstn_skipn.
Qed.

Lemma aead_decrypt_length key nonce ad c pt :
  aead_decrypt key nonce ad c = Some pt -> length c = (length pt + 16)%nat.
Proof. intros H. apply aead_decrypt_Some_inv in H. subst. apply length_aead_encrypt. Qed.

Lemma aead_decrypt_short key nonce ad c : (length c < 16)%nat -> aead_decrypt key nonce ad c = None.
Proof. intros H. unfold aead_decrypt. destruct (Nat.ltb_spec (length c) 16); [reflexivity|lia]. Qed.

Lemma bytes_wf_aead_decrypt key nonce ad c pt :
  bytes_wf c = true -> aead_decrypt key nonce ad c = Some pt -> bytes_wf pt = true.
Proof.
  unfold aead_decrypt. intros Hc.
  destruct (length c <? 16)%nat; [discriminate|].
  destruct (bytes_eqb _ _); [|discriminate].
  intros [= <-]. apply bytes_wf_chacha20_xor, bytes_wf_firstn, Hc.
Qed.

Lemma ldk_chachapoly_decrypt_encrypt rho pt : ldk_chachapoly_decrypt rho (ldk_chachapoly_encrypt rho pt) = Some pt.
Proof. unfold ldk_chachapoly_decrypt, ldk_chachapoly_encrypt. exact (aead_decrypt_encrypt _ _ _ _). Qed.

Lemma length_ldk_chachapoly_encrypt_swapped_aad key aad pt :
  length (ldk_chachapoly_encrypt_swapped_aad key aad pt) = (length pt + 16)%nat.
Proof.
  unfold ldk_chachapoly_encrypt_swapped_aad.
  now rewrite app_length, length_chacha20_xor, length_poly1305.
Qed.

(** * Test vectors *)

(** RFC 8439 section 2.8.2 *)
Definition aead_rfc_key : bytes := bytes_of_hex "808182838485868788898a8b8c8d8e8f909192939495969798999a9b9c9d9e9f".
Definition aead_rfc_nonce : bytes := bytes_of_hex "070000004041424344454647".
Definition aead_rfc_ad : bytes := bytes_of_hex "50515253c0c1c2c3c4c5c6c7".
Definition aead_rfc_out : string :=
  ("d31a8d34648e60db7b86afbc53ef7ec2a4aded51296e08fea9e2b5a736ee62d6" ++
   "3dbea45e8ca9671282fafb69da92728b1a71de0a9e060b2905d6a5b67ecd3b36" ++
   "92ddbd7f2d778b8c9803aee328091b58fab324e4fad675945585808b4831d7bc" ++
   "3ff4def08e4b7a9de576d26586cec64b6116" ++ "1ae10b594f09e26a7e902ecbd0600691")%string.

Example aead_otk_rfc_2_8_2 :
  hex_of_bytes (aead_otk aead_rfc_key aead_rfc_nonce) =
  "7bac2b252db447af09b67a55a4e955840ae1d6731075d9eb2a9375783ed553ff"%string.
Proof. vm_compute. reflexivity. Qed.

Example aead_encrypt_rfc_2_8_2 :
  hex_of_bytes (aead_encrypt aead_rfc_key aead_rfc_nonce aead_rfc_ad sunscreen) = aead_rfc_out.
Proof. vm_compute. reflexivity. Qed.

Example aead_decrypt_rfc_2_8_2 :
  aead_decrypt aead_rfc_key aead_rfc_nonce aead_rfc_ad (bytes_of_hex aead_rfc_out) = Some sunscreen.
Proof. vm_compute. reflexivity. Qed.

(** A flipped tag bit, a flipped ciphertext bit and a different AAD are all rejected. *)
Example aead_decrypt_rejects :
  aead_decrypt aead_rfc_key aead_rfc_nonce aead_rfc_ad
    (xor_bytes (bytes_of_hex aead_rfc_out) (zeros 129 ++ [1])) = None /\
  aead_decrypt aead_rfc_key aead_rfc_nonce aead_rfc_ad
    (xor_bytes (bytes_of_hex aead_rfc_out) (1 :: zeros 129)) = None /\
  aead_decrypt aead_rfc_key aead_rfc_nonce [] (bytes_of_hex aead_rfc_out) = None.
Proof. vm_compute. repeat split. Qed.

Example tripoly_which :
  let key := aead_rfc_key in
  let a := repeat 7 32 in let b := repeat 9 32 in
  ldk_tripoly_decrypt key a b (ldk_chachapoly_encrypt key sunscreen) = Some (sunscreen, 0) /\
  ldk_tripoly_decrypt key a b (ldk_chachapoly_encrypt_swapped_aad key a sunscreen) = Some (sunscreen, 1) /\
  ldk_tripoly_decrypt key a b (ldk_chachapoly_encrypt_swapped_aad key b sunscreen) = Some (sunscreen, 2) /\
  ldk_tripoly_decrypt key a b (ldk_chachapoly_encrypt_swapped_aad key (repeat 8 32) sunscreen) = None.
Proof. vm_compute. repeat split. Qed.
