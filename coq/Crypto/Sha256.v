(** SHA-256 (FIPS 180-4), executable over [Z] with explicit reduction mod 2^32.

    [sha256 : bytes -> bytes] returns the 32-byte digest.  This is an executable model used to
    compare other models byte for byte with rust-lightning (which uses [bitcoin_hashes::sha256]);
    it is not the object of any security proof. *)
From Coq Require Import ZArith Bool String List Lia.
From LdkV Require Import Crypto.Bytes.
Import ListNotations.
Open Scope Z_scope.

Definition mask32 : Z := 4294967295.
Definition m32 (x : Z) : Z := Z.land x mask32.

(** Right rotation of a 32-bit word by [n] in (0,32): the low [n] bits (mask [lo]) move to the top. *)
Definition rotr32 (n lo : Z) (x : Z) : Z :=
  Z.lor (Z.shiftr x n) (Z.shiftl (Z.land x lo) (32 - n)).

Definition bsig0 (x : Z) : Z :=
  Z.lxor (Z.lxor (rotr32 2 3 x) (rotr32 13 8191 x)) (rotr32 22 4194303 x).
Definition bsig1 (x : Z) : Z :=
  Z.lxor (Z.lxor (rotr32 6 63 x) (rotr32 11 2047 x)) (rotr32 25 33554431 x).
Definition ssig0 (x : Z) : Z :=
  Z.lxor (Z.lxor (rotr32 7 127 x) (rotr32 18 262143 x)) (Z.shiftr x 3).
Definition ssig1 (x : Z) : Z :=
  Z.lxor (Z.lxor (rotr32 17 131071 x) (rotr32 19 524287 x)) (Z.shiftr x 10).

(** Ch(e,f,g) = (e and f) xor (not e and g);  Maj(a,b,c) = (a and b) xor (a and c) xor (b and c),
    in forms that avoid a 32-bit complement. *)
Definition ch (e f g : Z) : Z := Z.lxor g (Z.land e (Z.lxor f g)).
Definition maj (a b c : Z) : Z := Z.lor (Z.land a b) (Z.land c (Z.lor a b)).

Definition K256 : list Z :=
  [ 0x428a2f98; 0x71374491; 0xb5c0fbcf; 0xe9b5dba5; 0x3956c25b; 0x59f111f1; 0x923f82a4; 0xab1c5ed5;
    0xd807aa98; 0x12835b01; 0x243185be; 0x550c7dc3; 0x72be5d74; 0x80deb1fe; 0x9bdc06a7; 0xc19bf174;
    0xe49b69c1; 0xefbe4786; 0x0fc19dc6; 0x240ca1cc; 0x2de92c6f; 0x4a7484aa; 0x5cb0a9dc; 0x76f988da;
    0x983e5152; 0xa831c66d; 0xb00327c8; 0xbf597fc7; 0xc6e00bf3; 0xd5a79147; 0x06ca6351; 0x14292967;
    0x27b70a85; 0x2e1b2138; 0x4d2c6dfc; 0x53380d13; 0x650a7354; 0x766a0abb; 0x81c2c92e; 0x92722c85;
    0xa2bfe8a1; 0xa81a664b; 0xc24b8b70; 0xc76c51a3; 0xd192e819; 0xd6990624; 0xf40e3585; 0x106aa070;
    0x19a4c116; 0x1e376c08; 0x2748774c; 0x34b0bcb5; 0x391c0cb3; 0x4ed8aa4a; 0x5b9cca4f; 0x682e6ff3;
    0x748f82ee; 0x78a5636f; 0x84c87814; 0x8cc70208; 0x90befffa; 0xa4506ceb; 0xbef9a3f7; 0xc67178f2 ].

Record st8 : Type := St8 { sa : Z; sb : Z; sc : Z; sd : Z; se : Z; sf : Z; sg : Z; sh : Z }.

Definition H0_256 : st8 :=
  St8 0x6a09e667 0xbb67ae85 0x3c6ef372 0xa54ff53a 0x510e527f 0x9b05688c 0x1f83d9ab 0x5be0cd19.

(** Message schedule.  [r] holds W[t-1], W[t-2], ... (most recent first); one step conses
    W[t] = ssig1 W[t-2] + W[t-7] + ssig0 W[t-15] + W[t-16]. *)
Definition sched_step (r : list Z) : list Z :=
  match r with
  | _ :: w2 :: _ :: _ :: _ :: _ :: w7 :: _ :: _ :: _ :: _ :: _ :: _ :: _ :: w15 :: w16 :: _ =>
      m32 (ssig1 w2 + w7 + ssig0 w15 + w16) :: r
  | _ => r
  end.

Fixpoint sched_iter (n : nat) (r : list Z) : list Z :=
  match n with
  | O => r
  | S m => sched_iter m (sched_step r)
  end.

(** The 64 schedule words of a block given as 16 big-endian words. *)
Definition schedule (w16 : list Z) : list Z := rev' (sched_iter 48 (rev' w16)).

Definition round (s : st8) (k w : Z) : st8 :=
  let '(St8 a b c d e f g h) := s in
  let t1 := h + bsig1 e + ch e f g + k + w in
  let t2 := bsig0 a + maj a b c in
  St8 (m32 (t1 + t2)) a b c (m32 (d + t1)) e f g.

Fixpoint rounds (ks ws : list Z) (s : st8) : st8 :=
  match ks, ws with
  | k :: ks', w :: ws' => rounds ks' ws' (round s k w)
  | _, _ => s
  end.

Definition compress (s : st8) (w16 : list Z) : st8 :=
  let '(St8 a b c d e f g h) := s in
  let '(St8 a' b' c' d' e' f' g' h') := rounds K256 (schedule w16) s in
  St8 (m32 (a + a')) (m32 (b + b')) (m32 (c + c')) (m32 (d + d'))
      (m32 (e + e')) (m32 (f + f')) (m32 (g + g')) (m32 (h + h')).

(** Big-endian 32-bit words of a byte string (a trailing partial word is dropped; padding makes the
    length a multiple of 64). *)
Fixpoint words_be (l : bytes) : list Z :=
  match l with
  | a :: b :: c :: d :: r =>
      Z.lor (Z.shiftl a 24) (Z.lor (Z.shiftl b 16) (Z.lor (Z.shiftl c 8) d)) :: words_be r
  | _ => []
  end.

Fixpoint blocks_fuel (fuel : nat) (s : st8) (ws : list Z) : st8 :=
  match fuel with
  | O => s
  | S f => match ws with
           | [] => s
           | _ => blocks_fuel f (compress s (firstn 16 ws)) (skipn 16 ws)
           end
  end.

(** Padding: 0x80, then zeros up to 56 mod 64, then the bit length as a big-endian 64-bit number. *)
Definition sha256_pad (msg : bytes) : bytes :=
  let len := Z.of_nat (length msg) in
  msg ++ 128 :: zeros (Z.to_nat ((55 - len) mod 64)) ++ be64 (8 * len).

Definition st8_bytes (s : st8) : bytes :=
  let '(St8 a b c d e f g h) := s in
  be32 a ++ be32 b ++ be32 c ++ be32 d ++ be32 e ++ be32 f ++ be32 g ++ be32 h.

(** Hashing continued from an arbitrary chaining value over already padded data; [sha256] is the
    instance starting from the standard initial value. *)
Definition sha256_blocks (s : st8) (padded : bytes) : st8 :=
  let ws := words_be padded in
  blocks_fuel (length ws) s ws.

Definition sha256 (msg : bytes) : bytes := st8_bytes (sha256_blocks H0_256 (sha256_pad msg)).

(** Double SHA-256 (Bitcoin's sha256d), for convenience. *)
Definition sha256d (msg : bytes) : bytes := sha256 (sha256 msg).

(** * Lemmas *)

Lemma length_st8_bytes s : length (st8_bytes s) = 32%nat.
Proof. destruct s. reflexivity. Qed.

Lemma bytes_wf_st8_bytes s : bytes_wf (st8_bytes s) = true.
Proof. destruct s. unfold st8_bytes. now rewrite !bytes_wf_app, !bytes_wf_be32. Qed.

Lemma length_sha256 msg : length (sha256 msg) = 32%nat.
Proof. apply length_st8_bytes. Qed.

Lemma bytes_wf_sha256 msg : bytes_wf (sha256 msg) = true.
Proof. apply bytes_wf_st8_bytes. Qed.

(** The heavy functions are opaque for unification / [simpl] / [cbn] (an [apply] or [reflexivity]
    on a symbolic term must not start unfolding 64 rounds); [vm_compute] ignores this and still
    evaluates them.  Use the lemmas above, or [Transparent] locally. *)
Global Opaque sha256 sha256_blocks compress rounds schedule round.

(** * Test vectors (FIPS 180-4 / NIST CAVP examples) *)

Example sha256_empty :
  hex_of_bytes (sha256 []) = "e3b0c44298fc1c149afbf4c8996fb92427ae41e4649b934ca495991b7852b855"%string.
Proof. vm_compute. reflexivity. Qed.

Example sha256_abc :
  hex_of_bytes (sha256 (bytes_of_string "abc")) =
  "ba7816bf8f01cfea414140de5dae2223b00361a396177a9cb410ff61f20015ad"%string.
Proof. vm_compute. reflexivity. Qed.

Example sha256_56 :
  hex_of_bytes (sha256 (bytes_of_string "abcdbcdecdefdefgefghfghighijhijkijkljklmklmnlmnomnopnopq")) =
  "248d6a61d20638b8e5c026930c3e6039a33ce45964ff2167f6ecedd419db06c1"%string.
Proof. vm_compute. reflexivity. Qed.

Example sha256_112 :
  hex_of_bytes (sha256 (bytes_of_string
    "abcdefghbcdefghicdefghijdefghijkefghijklfghijklmghijklmnhijklmnoijklmnopjklmnopqklmnopqrlmnopqrsmnopqrstnopqrstu")) =
  "cf5b16a778af8380036ce59e7b0492370b249b11e8f07a51afac45037afee9d1"%string.
Proof. vm_compute. reflexivity. Qed.

(** 1000 bytes 'a' (0x61). *)
Example sha256_1000a :
  hex_of_bytes (sha256 (repeat 97 1000)) =
  "41edece42d63e8d9bf515a9ba6932e1c20cbc9f5a5d134645adb5db1b9737ea3"%string.
Proof. vm_compute. reflexivity. Qed.

Example sha256d_empty :
  hex_of_bytes (sha256d []) = "5df6e0e2761359d30a8275058e299fcc0381534545f55cf43e41983f5d4c9456"%string.
Proof. vm_compute. reflexivity. Qed.
