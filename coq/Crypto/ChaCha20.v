(** ChaCha20 (RFC 8439 section 2.1-2.4), executable over [Z].

    Layout of the 16-word state: 4 constants, 8 key words (little endian), a 32-bit block counter,
    3 nonce words (12-byte nonce).  This is the only layout rust-lightning uses: it calls the
    [chacha20-poly1305] crate (0.2.x), whose [State::new(key, nonce: [u8;12], count: u32)] is exactly
    the RFC 8439 state.  There is NO 64-bit-counter / 8-byte-nonce ("djb") variant in the tree.
    For the all-zero nonce that the onion code uses the two layouts coincide anyway as long as the
    block counter stays below 2^32.

    How rust-lightning drives the crate (all modelled below):

    - [ChaCha20::new(key, nonce, seek)]: [seek] is a BYTE offset into the keystream
      (block [seek / 64], offset [seek mod 64]) -- see [chacha20_stream_seek], [chacha20_xor_seek].
      Onion keystreams: [ChaCha20::new(Key::new(rho), Nonce::new([0; 12]), 0)].
    - [ChaCha20::new_from_block(key, nonce, block)]: [block] is the RFC block counter
      -- [chacha20_stream], [chacha20_xor].
    - successive [apply_keystream] calls on one object continue the same keystream, i.e. they are
      one [chacha20_xor_seek] over the concatenated buffers.
    - [crypto::utils::apply_chacha20(key, nonce16, data)]: block counter = LE32 of [nonce16[0..4]],
      nonce = [nonce16[4..16]] -- [ldk_apply_chacha20].
    - Noise transport ([peer_channel_encryptor]): nonce = 4 zero bytes ++ LE64 n -- [noise_nonce].

    The counter is reduced mod 2^32 when the state is built; the Rust crate would panic (debug) or
    wrap (release) when a keystream crosses block 2^32, which needs a 256 GiB message. *)
From Coq Require Import ZArith Bool String List Lia.
From LdkV Require Import Crypto.Bytes.
Import ListNotations.
Open Scope Z_scope.

Definition cmask32 : Z := 4294967295.
Definition cm32 (x : Z) : Z := Z.land x cmask32.

(** Left rotation of a 32-bit word by [n]; [lo] = 2^(32-n) - 1 selects the bits that stay in range. *)
Definition rotl32 (n lo : Z) (x : Z) : Z :=
  Z.lor (Z.shiftl (Z.land x lo) n) (Z.shiftr x (32 - n)).

Definition qround (a b c d : Z) : Z * Z * Z * Z :=
  let a := cm32 (a + b) in let d := rotl32 16 65535 (Z.lxor d a) in
  let c := cm32 (c + d) in let b := rotl32 12 1048575 (Z.lxor b c) in
  let a := cm32 (a + b) in let d := rotl32 8 16777215 (Z.lxor d a) in
  let c := cm32 (c + d) in let b := rotl32 7 33554431 (Z.lxor b c) in
  (a, b, c, d).

Record st16 : Type := St16 {
  x0 : Z; x1 : Z; x2 : Z; x3 : Z; x4 : Z; x5 : Z; x6 : Z; x7 : Z;
  x8 : Z; x9 : Z; x10 : Z; x11 : Z; x12 : Z; x13 : Z; x14 : Z; x15 : Z }.

Definition double_round (s : st16) : st16 :=
  let '(St16 s0 s1 s2 s3 s4 s5 s6 s7 s8 s9 s10 s11 s12 s13 s14 s15) := s in
  let '(s0, s4, s8, s12) := qround s0 s4 s8 s12 in
  let '(s1, s5, s9, s13) := qround s1 s5 s9 s13 in
  let '(s2, s6, s10, s14) := qround s2 s6 s10 s14 in
  let '(s3, s7, s11, s15) := qround s3 s7 s11 s15 in
  let '(s0, s5, s10, s15) := qround s0 s5 s10 s15 in
  let '(s1, s6, s11, s12) := qround s1 s6 s11 s12 in
  let '(s2, s7, s8, s13) := qround s2 s7 s8 s13 in
  let '(s3, s4, s9, s14) := qround s3 s4 s9 s14 in
  St16 s0 s1 s2 s3 s4 s5 s6 s7 s8 s9 s10 s11 s12 s13 s14 s15.

Fixpoint iter_st (n : nat) (f : st16 -> st16) (s : st16) : st16 :=
  match n with
  | O => s
  | S m => iter_st m f (f s)
  end.

(** Little-endian 32-bit words of a byte string (a trailing partial word is dropped). *)
Fixpoint words_le (l : bytes) : list Z :=
  match l with
  | a :: b :: c :: d :: r =>
      Z.lor a (Z.lor (Z.shiftl b 8) (Z.lor (Z.shiftl c 16) (Z.shiftl d 24))) :: words_le r
  | _ => []
  end.

(** Initial state.  Total: missing key / nonce bytes read as zero words (callers pass 32 and 12). *)
Definition chacha20_init (key : bytes) (counter : Z) (nonce : bytes) : st16 :=
  let k := words_le key in
  let n := words_le nonce in
  St16 0x61707865 0x3320646e 0x79622d32 0x6b206574
       (nth 0 k 0) (nth 1 k 0) (nth 2 k 0) (nth 3 k 0)
       (nth 4 k 0) (nth 5 k 0) (nth 6 k 0) (nth 7 k 0)
       (cm32 counter) (nth 0 n 0) (nth 1 n 0) (nth 2 n 0).

(** Serialisation of (working state + initial state); [le32] keeps the low 32 bits of each sum. *)
Definition st16_add_bytes (w i : st16) : bytes :=
  le32 (x0 w + x0 i) ++ le32 (x1 w + x1 i) ++ le32 (x2 w + x2 i) ++ le32 (x3 w + x3 i) ++
  le32 (x4 w + x4 i) ++ le32 (x5 w + x5 i) ++ le32 (x6 w + x6 i) ++ le32 (x7 w + x7 i) ++
  le32 (x8 w + x8 i) ++ le32 (x9 w + x9 i) ++ le32 (x10 w + x10 i) ++ le32 (x11 w + x11 i) ++
  le32 (x12 w + x12 i) ++ le32 (x13 w + x13 i) ++ le32 (x14 w + x14 i) ++ le32 (x15 w + x15 i).

(** RFC 8439 section 2.3: the 64-byte keystream block number [counter]. *)
Definition chacha20_block (key : bytes) (counter : Z) (nonce : bytes) : bytes :=
  let i := chacha20_init key counter nonce in
  st16_add_bytes (iter_st 10 double_round i) i.

Fixpoint chacha20_blocks (key nonce : bytes) (counter : Z) (nb : nat) : bytes :=
  match nb with
  | O => []
  | S m => chacha20_block key counter nonce ++ chacha20_blocks key nonce (counter + 1) m
  end.

(** First [n] bytes of the keystream that starts at block [counter]. *)
Definition chacha20_stream (key nonce : bytes) (counter : Z) (n : nat) : bytes :=
  firstn n (chacha20_blocks key nonce counter (Nat.div (n + 63) 64)).

(** RFC 8439 section 2.4: encryption = decryption = xor with the keystream from block [counter]. *)
Definition chacha20_xor (key nonce : bytes) (counter : Z) (data : bytes) : bytes :=
  xor_bytes data (chacha20_stream key nonce counter (length data)).

(** ** The call shapes of rust-lightning *)

(** [ChaCha20::new(key, nonce, seek)] followed by [apply_keystream] over [n] bytes in total:
    [n] keystream bytes from BYTE offset [seek]. *)
Definition chacha20_stream_seek (key nonce : bytes) (seek : Z) (n : nat) : bytes :=
  let off := Z.to_nat (seek mod 64) in
  skipn off (chacha20_stream key nonce (seek / 64) (off + n)).

Definition chacha20_xor_seek (key nonce : bytes) (seek : Z) (data : bytes) : bytes :=
  xor_bytes data (chacha20_stream_seek key nonce seek (length data)).

(** [crypto::utils::apply_chacha20(key, nonce: [u8; 16], data)]. *)
Definition ldk_apply_chacha20 (key nonce16 data : bytes) : bytes :=
  chacha20_xor key (skipn 4 nonce16) (of_le32 nonce16) data.

(** The all-zero 12-byte nonce of the onion / blinded-path / PRNG call sites. *)
Definition zero_nonce : bytes := zeros 12.

(** The Noise transport nonce for message number [n]: 32 zero bits, then [n] as LE64. *)
Definition noise_nonce (n : Z) : bytes := zeros 4 ++ le64 n.

(** * Lemmas *)

Lemma length_st16_add_bytes w i : length (st16_add_bytes w i) = 64%nat.
Proof. reflexivity. Qed.

Lemma bytes_wf_st16_add_bytes w i : bytes_wf (st16_add_bytes w i) = true.
Proof. unfold st16_add_bytes. now rewrite !bytes_wf_app, !bytes_wf_le32. Qed.

Lemma length_chacha20_block key counter nonce : length (chacha20_block key counter nonce) = 64%nat.
Proof. apply length_st16_add_bytes. Qed.

Lemma bytes_wf_chacha20_block key counter nonce : bytes_wf (chacha20_block key counter nonce) = true.
Proof. apply bytes_wf_st16_add_bytes. Qed.

Lemma length_chacha20_blocks key nonce counter nb :
  length (chacha20_blocks key nonce counter nb) = (64 * nb)%nat.
Proof.
  revert counter. induction nb as [|nb IH]; intros counter; [reflexivity|].
  cbn [chacha20_blocks]. rewrite app_length, length_chacha20_block, IH. lia.
Qed.

Lemma bytes_wf_chacha20_blocks key nonce counter nb :
  bytes_wf (chacha20_blocks key nonce counter nb) = true.
Proof.
  revert counter. induction nb as [|nb IH]; intros counter; [reflexivity|].
  cbn [chacha20_blocks]. now rewrite bytes_wf_app, bytes_wf_chacha20_block, IH.
Qed.

Lemma ceil64_ge n : (n <= 64 * Nat.div (n + 63) 64)%nat.
Proof.
  pose proof (Nat.div_mod (n + 63) 64 ltac:(lia)) as H.
  pose proof (Nat.mod_upper_bound (n + 63) 64 ltac:(lia)). lia.
Qed.

Lemma length_chacha20_stream key nonce counter n : length (chacha20_stream key nonce counter n) = n.
Proof.
  unfold chacha20_stream. rewrite firstn_length, length_chacha20_blocks.
  apply Nat.min_l, ceil64_ge.
Qed.

Lemma chacha20_blocks_app key nonce c a b :
  chacha20_blocks key nonce c (a + b) =
  chacha20_blocks key nonce c a ++ chacha20_blocks key nonce (c + Z.of_nat a) b.
Proof.
  revert c. induction a as [|a IH]; intros c.
  - cbn [chacha20_blocks Nat.add app Z.of_nat]. now rewrite Z.add_0_r.
  - cbn [chacha20_blocks Nat.add]. rewrite IH, <- app_assoc.
    replace (c + 1 + Z.of_nat a) with (c + Z.of_nat (S a)) by lia. reflexivity.
Qed.

(** A shorter keystream is a prefix of a longer one (same key, nonce, starting block). *)
Lemma chacha20_stream_prefix key nonce c m n :
  (m <= n)%nat -> firstn m (chacha20_stream key nonce c n) = chacha20_stream key nonce c m.
Proof.
  intros H. unfold chacha20_stream. rewrite firstn_firstn, Nat.min_l by exact H.
  pose proof (ceil64_ge m) as Hm.
  assert (Hab : (Nat.div (m + 63) 64 <= Nat.div (n + 63) 64)%nat) by (apply Nat.div_le_mono; lia).
  set (a := Nat.div (m + 63) 64) in *. set (b := Nat.div (n + 63) 64) in *.
  replace b with (a + (b - a))%nat by lia.
  rewrite chacha20_blocks_app, firstn_app, length_chacha20_blocks.
  replace (m - 64 * a)%nat with 0%nat by lia.
  cbn [firstn]. apply app_nil_r.
Qed.

(** Keystream of [m + n] bytes = keystream of [m] bytes, then the rest. *)
Lemma chacha20_stream_firstn_skipn key nonce c m n :
  chacha20_stream key nonce c (m + n) =
  chacha20_stream key nonce c m ++ skipn m (chacha20_stream key nonce c (m + n)).
Proof.
  rewrite <- (chacha20_stream_prefix key nonce c m (m + n)) by lia.
  symmetry. apply firstn_skipn.
Qed.

Lemma bytes_wf_chacha20_stream key nonce counter n : bytes_wf (chacha20_stream key nonce counter n) = true.
Proof. apply bytes_wf_firstn, bytes_wf_chacha20_blocks. Qed.

Lemma length_chacha20_xor key nonce counter data : length (chacha20_xor key nonce counter data) = length data.
Proof. unfold chacha20_xor. apply xor_bytes_length_eq. now rewrite length_chacha20_stream. Qed.

Lemma bytes_wf_chacha20_xor key nonce counter data :
  bytes_wf data = true -> bytes_wf (chacha20_xor key nonce counter data) = true.
Proof. intros H. apply bytes_wf_xor; [exact H|apply bytes_wf_chacha20_stream]. Qed.

(** Decryption undoes encryption (same key, nonce and counter). *)
Lemma chacha20_xor_involutive key nonce counter data :
  chacha20_xor key nonce counter (chacha20_xor key nonce counter data) = data.
Proof.
  unfold chacha20_xor at 1. rewrite length_chacha20_xor. unfold chacha20_xor.
  apply xor_bytes_cancel. now rewrite length_chacha20_stream.
Qed.

Lemma length_chacha20_stream_seek key nonce seek n : length (chacha20_stream_seek key nonce seek n) = n.
Proof. unfold chacha20_stream_seek. rewrite skipn_length, length_chacha20_stream. lia. Qed.

Lemma bytes_wf_chacha20_stream_seek key nonce seek n :
  bytes_wf (chacha20_stream_seek key nonce seek n) = true.
Proof. apply bytes_wf_skipn, bytes_wf_chacha20_stream. Qed.

Lemma length_chacha20_xor_seek key nonce seek data :
  length (chacha20_xor_seek key nonce seek data) = length data.
Proof. unfold chacha20_xor_seek. apply xor_bytes_length_eq. now rewrite length_chacha20_stream_seek. Qed.

Lemma chacha20_xor_seek_involutive key nonce seek data :
  chacha20_xor_seek key nonce seek (chacha20_xor_seek key nonce seek data) = data.
Proof.
  unfold chacha20_xor_seek at 1. rewrite length_chacha20_xor_seek. unfold chacha20_xor_seek.
  apply xor_bytes_cancel. now rewrite length_chacha20_stream_seek.
Qed.

Lemma ldk_apply_chacha20_involutive key nonce16 data :
  ldk_apply_chacha20 key nonce16 (ldk_apply_chacha20 key nonce16 data) = data.
Proof. unfold ldk_apply_chacha20. exact (chacha20_xor_involutive _ _ _ _). Qed.

Lemma length_ldk_apply_chacha20 key nonce16 data : length (ldk_apply_chacha20 key nonce16 data) = length data.
Proof. unfold ldk_apply_chacha20. exact (length_chacha20_xor _ _ _ _). Qed.

(** Byte offset 0 is block 0. *)
Lemma chacha20_stream_seek_0 key nonce n : chacha20_stream_seek key nonce 0 n = chacha20_stream key nonce 0 n.
Proof. unfold chacha20_stream_seek. change (Z.to_nat (0 mod 64)) with 0%nat. reflexivity. Qed.

Lemma chacha20_xor_seek_0 key nonce data : chacha20_xor_seek key nonce 0 data = chacha20_xor key nonce 0 data.
Proof. unfold chacha20_xor_seek, chacha20_xor. now rewrite chacha20_stream_seek_0. Qed.

(** A block-aligned byte offset [64 * b] is block [b]. *)
Lemma chacha20_stream_seek_aligned key nonce b n :
  chacha20_stream_seek key nonce (64 * b) n = chacha20_stream key nonce b n.
Proof.
  unfold chacha20_stream_seek.
  replace ((64 * b) mod 64) with 0 by (rewrite Z.mul_comm, Z.mod_mul; lia).
  replace (64 * b / 64) with b by (rewrite Z.mul_comm, Z.div_mul; lia).
  reflexivity.
Qed.

(** The heavy functions are opaque for unification / [simpl] / [cbn] (so that an [apply] or
    [reflexivity] on a symbolic term cannot start unfolding twenty rounds of ChaCha); [vm_compute]
    ignores this and still evaluates them.  Use the lemmas above, or [Transparent] locally. *)
Global Opaque chacha20_block chacha20_init double_round qround.

Lemma length_noise_nonce n : length (noise_nonce n) = 12%nat.
Proof. reflexivity. Qed.

(** * Test vectors *)

Definition rfc_key : bytes :=
  bytes_of_hex "000102030405060708090a0b0c0d0e0f101112131415161718191a1b1c1d1e1f".

(** RFC 8439 section 2.3.2 *)
Example chacha20_block_rfc_2_3_2 :
  hex_of_bytes (chacha20_block rfc_key 1 (bytes_of_hex "000000090000004a00000000")) =
  ("10f1e7e4d13b5915500fdd1fa32071c4c7d1f4c733c068030422aa9ac3d46c4e" ++
   "d2826446079faa0914c2d705d98b02a2b5129cd1de164eb9cbd083e8a2503c4e")%string.
Proof. vm_compute. reflexivity. Qed.

Definition sunscreen : bytes := bytes_of_string
  "Ladies and Gentlemen of the class of '99: If I could offer you only one tip for the future, sunscreen would be it.".

Definition sunscreen_ct : string :=
  ("6e2e359a2568f98041ba0728dd0d6981e97e7aec1d4360c20a27afccfd9fae0b" ++
   "f91b65c5524733ab8f593dabcd62b3571639d624e65152ab8f530c359f0861d8" ++
   "07ca0dbf500d6a6156a38e088a22b65e52bc514d16ccf806818ce91ab7793736" ++
   "5af90bbf74a35be6b40b8eedf2785e42874d")%string.

(** RFC 8439 section 2.4.2 *)
Example chacha20_xor_rfc_2_4_2 :
  hex_of_bytes (chacha20_xor rfc_key (bytes_of_hex "000000000000004a00000000") 1 sunscreen) = sunscreen_ct.
Proof. vm_compute. reflexivity. Qed.

(** The same through the byte-offset entry point ([ChaCha20::new(key, nonce, 64)], as in the crate's
    own [rfc_standard] test), and with an offset that is not block aligned. *)
Example chacha20_xor_seek_64 :
  hex_of_bytes (chacha20_xor_seek rfc_key (bytes_of_hex "000000000000004a00000000") 64 sunscreen) = sunscreen_ct.
Proof. vm_compute. reflexivity. Qed.

Example chacha20_xor_seek_unaligned :
  chacha20_xor_seek rfc_key (bytes_of_hex "000000000000004a00000000") 77 (skipn 13 sunscreen) =
  skipn 13 (bytes_of_hex sunscreen_ct).
Proof. vm_compute. reflexivity. Qed.

Example ldk_apply_chacha20_layout :
  ldk_apply_chacha20 rfc_key (bytes_of_hex "01000000000000000000004a00000000") sunscreen =
  bytes_of_hex sunscreen_ct.
Proof. vm_compute. reflexivity. Qed.

Example noise_nonce_ex : noise_nonce 258 = [0; 0; 0; 0; 2; 1; 0; 0; 0; 0; 0; 0].
Proof. reflexivity. Qed.
