(** HMAC-SHA256 (RFC 2104), executable.  Matches [bitcoin_hashes::Hmac<sha256::Hash>] as used by
    rust-lightning: a key longer than the 64-byte block is first hashed, then keys are zero padded. *)
From Coq Require Import ZArith Bool String List Lia.
From LdkV Require Import Crypto.Bytes Crypto.Sha256.
Import ListNotations.
Open Scope Z_scope.

Definition hmac_block_key (key : bytes) : bytes :=
  let k := if (64 <? Z.of_nat (length key)) then sha256 key else key in
  k ++ zeros (64 - length k).

Definition hmac_sha256 (key msg : bytes) : bytes :=
  let k := hmac_block_key key in
  let ipad := map (fun b => Z.lxor b 54) k in
  let opad := map (fun b => Z.lxor b 92) k in
  sha256 (opad ++ sha256 (ipad ++ msg)).

Lemma length_hmac_sha256 key msg : length (hmac_sha256 key msg) = 32%nat.
Proof. apply length_sha256. Qed.

Lemma bytes_wf_hmac_sha256 key msg : bytes_wf (hmac_sha256 key msg) = true.
Proof. apply bytes_wf_sha256. Qed.

Lemma length_hmac_block_key key : length (hmac_block_key key) = 64%nat.
Proof.
  unfold hmac_block_key.
  destruct (64 <? Z.of_nat (length key)) eqn:E; rewrite app_length, length_zeros.
  - rewrite length_sha256. reflexivity.
  - apply Z.ltb_ge in E. lia.
Qed.

Global Opaque hmac_sha256 hmac_block_key.

(** * RFC 4231 test cases 1, 2, 3, and 6 (key longer than the block) *)

Example hmac_rfc4231_1 :
  hex_of_bytes (hmac_sha256 (repeat 11 20) (bytes_of_string "Hi There")) =
  "b0344c61d8db38535ca8afceaf0bf12b881dc200c9833da726e9376c2e32cff7"%string.
Proof. vm_compute. reflexivity. Qed.

Example hmac_rfc4231_2 :
  hex_of_bytes (hmac_sha256 (bytes_of_string "Jefe") (bytes_of_string "what do ya want for nothing?")) =
  "5bdcc146bf60754e6a042426089575c75a003f089d2739839dec58b964ec3843"%string.
Proof. vm_compute. reflexivity. Qed.

Example hmac_rfc4231_3 :
  hex_of_bytes (hmac_sha256 (repeat 170 20) (repeat 221 50)) =
  "773ea91e36800e46854db8ebd09181a72959098b3ef8c122d9635514ced565fe"%string.
Proof. vm_compute. reflexivity. Qed.

Example hmac_rfc4231_6 :
  hex_of_bytes (hmac_sha256 (repeat 170 131)
    (bytes_of_string "Test Using Larger Than Block-Size Key - Hash Key First")) =
  "60e431591ee0b67f0d8a26aacbf5b77f8e0bc6213728c5140546040f0ee37f54"%string.
Proof. vm_compute. reflexivity. Qed.
