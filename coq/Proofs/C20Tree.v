(** C20: facts about well-formed trees, paths and ancestors. *)
Require Import LdkV.Prim.U64 LdkV.Model.BlockSync LdkV.Model.BlockSyncSpec.
Open Scope Z_scope.
Local Open Scope list_scope.

Lemma last_cons_default {A} : forall (l : list A) b a, last (b :: l) a = last l b.
Proof.
  induction l as [|x l IH]; intros b a; [reflexivity|].
  change (last (b :: x :: l) a) with (last (x :: l) a). rewrite (IH x a), (IH x b). reflexivity.
Qed.

Section Tree.
Variable T : tree.
Hypothesis WF : wf_tree T.

Lemma path_end_in : forall a x l, path T a x l -> exists nd, T x = Some nd.
Proof. induction 1; eauto. Qed.

Lemma path_start_in : forall a x l, path T a x l -> exists nd, T a = Some nd.
Proof. destruct 1; eauto. Qed.

Lemma path_snoc : forall a y l, path T a y l ->
  forall x nd, T x = Some nd -> n_prev nd = y -> path T a x (l ++ [x]).
Proof.
  induction 1 as [a nda Ha | a b y l nda ndb Ha Hb Hp Hpath IH]; intros x nd Hx Hprev.
  - cbn. eapply path_cons; eauto. econstructor; eauto.
  - cbn. eapply path_cons; eauto.
Qed.

Lemma path_app : forall a b l1, path T a b l1 -> forall x l2, path T b x l2 -> path T a x (l1 ++ l2).
Proof.
  induction 1 as [a nda Ha | a b y l nda ndb Ha Hb Hp Hpath IH]; intros x l2 H2; cbn; auto.
  eapply path_cons; eauto.
Qed.

(** Decomposition from the top. *)
Lemma path_top : forall a x l, path T a x l -> l <> [] ->
  exists l0 nd, l = l0 ++ [x] /\ T x = Some nd /\ path T a (n_prev nd) l0.
Proof.
  induction 1 as [a nda Ha | a b y l nda ndb Ha Hb Hp Hpath IH]; intros Hne; [congruence|].
  destruct l as [|c l'].
  - assert (b = y) by (inversion Hpath; auto). subst y. exists [], ndb. repeat split; auto. rewrite Hp. econstructor; eauto.
  - destruct IH as (l0 & nd & El & Hx & Hp0); [congruence|].
    exists (b :: l0), nd. rewrite El. repeat split; auto. eapply path_cons; eauto.
Qed.

Lemma path_height : forall a x l, path T a x l ->
  forall nda ndx, T a = Some nda -> T x = Some ndx -> n_height ndx = n_height nda + Z.of_nat (List.length l).
Proof.
  induction 1 as [a nd Ha | a b y l nda ndb Ha Hb Hp Hpath IH]; intros nda' ndx Ha' Hx.
  - rewrite Ha in *. inversion Ha'; subst. inversion Hx; subst. cbn. lia.
  - rewrite Ha in Ha'. inversion Ha'; subst nda'. rewrite (IH ndb ndx Hb Hx).
    destruct (WF _ _ Hb) as (_ & Hpar). rewrite Hp in Hpar. destruct (Hpar _ Ha) as (Hh & _).
    cbn [List.length]. lia.
Qed.

(** Walking down from [x] is deterministic: two ancestors at the same distance coincide. *)
Lemma path_det : forall a x l, path T a x l ->
  forall a' l', path T a' x l' -> List.length l = List.length l' -> a = a' /\ l = l'.
Proof.
  induction 1 as [a nd Ha | a b y l nda ndb Ha Hb Hp Hpath IH]; intros a' l' H' Hlen.
  - destruct l'; [|discriminate]. inversion H'; subst. auto.
  - destruct l' as [|b' l1']; [discriminate|]. inversion H'; subst.
    destruct (IH b' l1') as (Eb & El); auto.
    subst b' l1'. split; auto. congruence.
Qed.

Lemma path_nil_inv : forall a x, path T a x [] -> a = x.
Proof. intros a x H. inversion H; auto. Qed.

Lemma anc_refl : forall x nd, T x = Some nd -> anc T x x.
Proof. intros. exists []. econstructor; eauto. Qed.

Lemma anc_up : forall d x nd, T x = Some nd -> anc T d (n_prev nd) -> anc T d x.
Proof. intros d x nd Hx (l & Hl). exists (l ++ [x]). eapply path_snoc; eauto. Qed.

Lemma anc_trans : forall a b c, anc T a b -> anc T b c -> anc T a c.
Proof. intros a b c (l1 & H1) (l2 & H2). exists (l1 ++ l2). eapply path_app; eauto. Qed.

Lemma anc_height : forall d x ndd ndx, anc T d x -> T d = Some ndd -> T x = Some ndx ->
  n_height ndd <= n_height ndx.
Proof. intros d x ndd ndx (l & Hl) Hd Hx. rewrite (path_height _ _ _ Hl _ _ Hd Hx). lia. Qed.

Lemma anc_same_height : forall d x ndd ndx, anc T d x -> T d = Some ndd -> T x = Some ndx ->
  n_height ndd = n_height ndx -> d = x.
Proof.
  intros d x ndd ndx (l & Hl) Hd Hx Hh. rewrite (path_height _ _ _ Hl _ _ Hd Hx) in Hh.
  destruct l; [eapply path_nil_inv; eauto | cbn in Hh; lia].
Qed.

(** A proper ancestor of [x] is an ancestor of [x]'s parent. *)
Lemma anc_down : forall d x nd, anc T d x -> T x = Some nd -> d <> x -> anc T d (n_prev nd).
Proof.
  intros d x nd (l & Hl) Hx Hne.
  destruct l as [|b l'].
  - apply path_nil_inv in Hl. congruence.
  - destruct (path_top _ _ _ Hl) as (l0 & nd' & El & Hx' & Hp); [congruence|].
    rewrite Hx in Hx'. inversion Hx'; subst nd'. exists l0. exact Hp.
Qed.

Lemma path_neq_nonnil : forall a x l, path T a x l -> a <> x -> l <> [].
Proof. intros a x l H Hne ->. apply path_nil_inv in H. congruence. Qed.

(** Prefixes of a path are paths. *)
Lemma path_firstn : forall a x l, path T a x l -> forall k, path T a (last (firstn k l) a) (firstn k l).
Proof.
  induction 1 as [a nd Ha | a b y l nda ndb Ha Hb Hp Hpath IH]; intros k.
  - rewrite firstn_nil. cbn. econstructor; eauto.
  - destruct k as [|k]; cbn [firstn].
    + cbn. econstructor; eauto.
    + specialize (IH k).
      rewrite last_cons_default. eapply path_cons; eauto.
Qed.

End Tree.
