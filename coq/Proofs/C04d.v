(** C04, part B (continued) — what PaymentClaimable announces stays true.

    - a set for which PaymentClaimable was emitted is never failed by a timer tick, whatever the
      previous hops skimmed ([claimable_not_timed_out]);
    - PaymentClaimed reports exactly the announced amount, which is the sum of the values of ALL
      announced parts; once an announced part is gone nothing is claimed any more
      ([claim_amount_is_announced]).
    Both by induction over operation lists. *)
From LdkV Require Import Prim.U64 Prim.Rs2vLib Gen.Consts Gen.ConstsC04 Gen.InboundChecks Model.InboundSecret Model.Inbound Proofs.C04b.
Open Scope Z_scope.

(** * a complete set is not touched by a tick (the test is on the sender-intended amounts) *)
Lemma tick_complete_silent hash e :
  py_parts e <> [] ->
  f_total (py_fields e) <= sum_intended (py_parts e) ->
  tick_payment (hash, e) =
    (Some (hash, {| py_purpose := py_purpose e; py_fields := py_fields e;
                    py_parts := map tick_part (py_parts e) |}), []).
Proof.
  intros Hne Ht. unfold tick_payment. destruct (py_parts e) as [|p0 t] eqn:Ep; [contradiction|].
  assert (Hsum : sum_intended (map tick_part (p0 :: t)) = sum_intended (p0 :: t)).
  { unfold sum_intended. rewrite map_map. reflexivity. }
  rewrite Hsum. checks.
  destruct (Z.leb_spec (f_total (py_fields e)) (sum_intended (p0 :: t))); [reflexivity|lia].
Qed.

Lemma core_tick l : map core (map tick_part l) = map core l.
Proof. rewrite map_map. reflexivity. Qed.

Theorem claimable_not_timed_out s0 o0 hash A d ops :
  In (OClaimable hash A d) (snd (step s0 o0)) ->
  forallb (quiet_for hash d) ops = true ->
  let s1 := fst (step s0 o0) in
  exists e e',
    get hash (claimable s1) = Some e /\
    get hash (claimable (fst (run s1 ops))) = Some e' /\ same_core e e' /\
    snd (tick_payment (hash, e')) = [] /\
    exists e'', fst (tick_payment (hash, e')) = Some (hash, e'') /\ same_core e' e''.
Proof.
  intros Hin Hq. cbv zeta.
  destruct (claim_window s0 o0 hash A d ops false Hin Hq) as (e & e' & Hg & Hg' & Hc & _ & _).
  destruct (claimable_only_if_complete s0 o0 hash A d Hin)
    as (pid & oc & cltv & value & intended & fl & purpose & mc & sk & up & e0 & _ & _ & _ & _ & _ & _ & Hg0 & Htot & _ & _ & _ & _ & _ & _ & Hex).
  rewrite Hg in Hg0. injection Hg0 as <-.
  exists e, e'. split; [exact Hg|]. split; [exact Hg'|]. split; [exact Hc|].
  destruct Hc as (Hcore & Hf & Hp).
  assert (Hne : py_parts e' <> []).
  { destruct Hex as [p [Hp0 _]]. intros Hn. rewrite Hn in Hcore. destruct (py_parts e); [destruct Hp0|discriminate]. }
  assert (Ht' : f_total (py_fields e') <= sum_intended (py_parts e')).
  { rewrite <- Hf, sum_intended_core, <- Hcore, <- sum_intended_core. exact Htot. }
  rewrite (tick_complete_silent hash e' Hne Ht'). cbn [fst snd]. split; [reflexivity|].
  eexists. split; [reflexivity|].
  unfold same_core. cbn [py_parts py_fields py_purpose]. rewrite core_tick. repeat split.
Qed.

(** * sorted association lists: what [get] finds is the only entry of that key *)
Definition lt_all {A} (k : Z) (m : list (Z * A)) : Prop := forall k' v', In (k', v') m -> k < k'.
Fixpoint sorted {A} (m : list (Z * A)) : Prop :=
  match m with [] => True | (k, _) :: t => lt_all k t /\ sorted t end.

Lemma get_lt_all {A} k (m : list (Z * A)) : lt_all k m -> get k m = None.
Proof.
  induction m as [|[k' v'] t IH]; intros H; [reflexivity|]. cbn [get].
  pose proof (H k' v' (or_introl eq_refl)). destruct (Z.eqb_spec k k'); [lia|].
  apply IH. intros k2 v2 H2. apply (H k2 v2). right. exact H2.
Qed.

Lemma get_in {A} k (m : list (Z * A)) v : get k m = Some v -> In (k, v) m.
Proof.
  induction m as [|[k' v'] t IH]; [discriminate|]. cbn [get]. destruct (Z.eqb_spec k k') as [->|Hne].
  - intros [= ->]. left. reflexivity.
  - intros H. right. apply IH. exact H.
Qed.

Lemma in_ins {A} k (v : A) m k' v' : In (k', v') (ins k v m) -> (k', v') = (k, v) \/ In (k', v') m.
Proof.
  induction m as [|[k0 v0] t IH]; cbn [ins In]; [intuition|].
  destruct (k <? k0); [cbn [In]; intuition|]. destruct (k =? k0); cbn [In]; [intuition|].
  intros [H|H]; [auto|]. destruct (IH H); auto.
Qed.

Lemma ins_sorted {A} k (v : A) m : sorted m -> sorted (ins k v m).
Proof.
  induction m as [|[k0 v0] t IH]; intros Hs; cbn [ins]; [cbn; split; [intros ? ? []|exact I]|].
  destruct Hs as [Hlt Hs]. destruct (Z.ltb_spec k k0).
  - cbn [sorted]. split; [|split; assumption].
    intros k' v' [[= <- <-]|Hin]; [assumption|]. specialize (Hlt _ _ Hin). lia.
  - destruct (Z.eqb_spec k k0) as [->|Hne].
    + cbn [sorted]. split; assumption.
    + cbn [sorted]. split; [|apply IH; exact Hs].
      intros k' v' Hin. destruct (in_ins _ _ _ _ _ Hin) as [[= -> ->]|Hin']; [lia|]. apply (Hlt _ _ Hin').
Qed.

Lemma in_del {A} k (m : list (Z * A)) k' v' : In (k', v') (del k m) -> In (k', v') m.
Proof.
  induction m as [|[k0 v0] t IH]; cbn [del]; [intuition|].
  destruct (k =? k0); cbn [In]; intuition.
Qed.

Lemma del_sorted {A} k (m : list (Z * A)) : sorted m -> sorted (del k m).
Proof.
  induction m as [|[k0 v0] t IH]; intros Hs; cbn [del]; [exact I|]. destruct Hs as [Hlt Hs].
  destruct (k =? k0); [apply IH; exact Hs|]. cbn [sorted]. split; [|apply IH; exact Hs].
  intros k' v' Hin. apply (Hlt k' v'). eapply in_del. exact Hin.
Qed.

Lemma in_map_payments f m k' v' :
  key_preserving f -> In (k', v') (fst (map_payments f m)) -> exists v, In (k', v) m.
Proof.
  intros Hk. induction m as [|[k v] t IH]; cbn [map_payments]; [intros []|].
  destruct (f (k, v)) as [o outs1] eqn:Ef. destruct (map_payments f t) as [m' outs2]. cbn [fst] in *.
  destruct o as [[k2 v2]|].
  - intros [[= -> ->]|Hin].
    + pose proof (Hk _ _ _ _ _ Ef) as ->. exists v. left. reflexivity.
    + destruct (IH Hin) as [v0 H0]. exists v0. right. exact H0.
  - intros Hin. destruct (IH Hin) as [v0 H0]. exists v0. right. exact H0.
Qed.

Lemma map_payments_sorted f m : key_preserving f -> sorted m -> sorted (fst (map_payments f m)).
Proof.
  intros Hk. induction m as [|[k v] t IH]; intros Hs; [exact I|]. destruct Hs as [Hlt Hs].
  pose proof (in_map_payments f t) as Hin. specialize (IH Hs).
  cbn [map_payments]. destruct (f (k, v)) as [o outs1] eqn:Ef. destruct (map_payments f t) as [m' outs2]. cbn [fst] in *.
  destruct o as [[k2 v2]|]; [|exact IH].
  pose proof (Hk _ _ _ _ _ Ef) as ->. cbn [sorted]. split; [|exact IH].
  intros k' v' H. destruct (Hin k' v' Hk H) as [v0 H0]. apply (Hlt _ _ H0).
Qed.

Lemma get_map_payments_removed f m hash e outs :
  key_preserving f -> sorted m -> get hash m = Some e -> f (hash, e) = (None, outs) ->
  get hash (fst (map_payments f m)) = None.
Proof.
  intros Hk. induction m as [|[k v] t IH]; intros Hs Hg Hf; [discriminate|]. destruct Hs as [Hlt Hs].
  cbn [get] in Hg. pose proof (in_map_payments f t) as Hin.
  cbn [map_payments]. destruct (f (k, v)) as [o outs1] eqn:Ef. destruct (map_payments f t) as [m' outs2] eqn:Em. cbn [fst] in *.
  destruct (Z.eqb_spec hash k) as [->|Hne].
  - injection Hg as ->. rewrite Hf in Ef. injection Ef as <- <-.
    apply get_lt_all. intros k' v' H. destruct (Hin k' v' Hk H) as [v0 H0]. apply (Hlt _ _ H0).
  - destruct o as [[k2 v2]|]; [|apply IH; assumption].
    pose proof (Hk _ _ _ _ _ Ef) as ->. cbn [get]. destruct (Z.eqb_spec hash k); [contradiction|]. apply IH; assumption.
Qed.

Lemma step_sorted s o : sorted (claimable s) -> sorted (claimable (fst (step s o))).
Proof.
  intros Hs. destruct o as [h pid oc cltv value intended fl purpose auth mc sk up| |bh|ch known|fh]; cbn [step].
  - unfold recv.
    repeat match goal with |- context [if ?b then (s, _) else _] => destruct b; [exact Hs|] end.
    destruct (get h (claimable s)) as [e0|].
    + destruct (negb (py_purpose e0 =? purpose)); [exact Hs|].
      destruct (check_incoming_mpp_part _ _ _ _) as [[parts' complete]|]; cbn [fst claimable]; [apply ins_sorted; exact Hs|exact Hs].
    + cbn [py_purpose]. rewrite Z.eqb_refl. cbn [negb].
      destruct (check_incoming_mpp_part _ _ _ _) as [[parts' complete]|]; cbn [fst claimable]; apply ins_sorted; exact Hs.
  - destruct (map_payments tick_payment (claimable s)) as [m outs] eqn:Em. cbn [fst claimable].
    replace m with (fst (map_payments tick_payment (claimable s))) by (rewrite Em; reflexivity).
    apply map_payments_sorted; [apply tick_key_preserving|exact Hs].
  - destruct (map_payments (block_payment bh) (claimable s)) as [m outs] eqn:Em. cbn [fst claimable].
    replace m with (fst (map_payments (block_payment bh) (claimable s))) by (rewrite Em; reflexivity).
    apply map_payments_sorted; [apply block_key_preserving|exact Hs].
  - unfold claim. destruct (get ch (claimable s)) as [e0|]; [|exact Hs].
    assert (Hd : sorted (del ch (claimable s))) by (apply del_sorted; exact Hs).
    destruct (negb known && _); [exact Hd|].
    destruct (claim_scan (py_parts e0) None 0) as [[valid expected] amt].
    destruct (py_parts e0); [exact Hd|]. destruct expected; [|exact Hd].
    destruct (valid && _); exact Hd.
  - unfold fail_back. destruct (get fh (claimable s)); [|exact Hs]. cbn [fst claimable]. apply del_sorted. exact Hs.
Qed.

Lemma run_sorted : forall ops s, sorted (claimable s) -> sorted (claimable (fst (run s ops))).
Proof.
  induction ops as [|o rest IH]; intros s Hs; cbn [run]; [exact Hs|].
  pose proof (step_sorted s o Hs) as H1. destruct (step s o) as [s1 outs]. cbn [fst] in *.
  specialize (IH s1 H1). destruct (run s1 rest) as [s2 tr]. exact IH.
Qed.

Lemma init_sorted h : sorted (claimable (init h)).
Proof. exact I. Qed.

(** * subsequences *)
Inductive subseq {A} : list A -> list A -> Prop :=
| ss_nil : subseq [] []
| ss_keep x l l' : subseq l l' -> subseq (x :: l) (x :: l')
| ss_skip x l l' : subseq l l' -> subseq l (x :: l').

Lemma subseq_refl {A} (l : list A) : subseq l l.
Proof. induction l; constructor; assumption. Qed.

Lemma subseq_nil {A} (l : list A) : subseq [] l.
Proof. induction l; constructor; assumption. Qed.

Lemma subseq_trans {A} (a b c : list A) : subseq a b -> subseq b c -> subseq a c.
Proof.
  intros Hab Hbc. revert a Hab. induction Hbc as [|x l l' H IH|x l l' H IH]; intros a Hab.
  - exact Hab.
  - inversion Hab; subst; [apply ss_keep; apply IH; assumption|apply ss_skip; apply IH; assumption].
  - apply ss_skip. apply IH. exact Hab.
Qed.

Lemma subseq_filter {A} (f : A -> bool) l : subseq (filter f l) l.
Proof. induction l as [|a t IH]; cbn [filter]; [constructor|]. destruct (f a); constructor; exact IH. Qed.

Lemma subseq_map {A B} (g : A -> B) l l' : subseq l l' -> subseq (map g l) (map g l').
Proof. induction 1; cbn [map]; constructor; assumption. Qed.

Lemma subseq_in {A} (l l' : list A) x : subseq l l' -> In x l -> In x l'.
Proof. induction 1; cbn [In]; intuition. Qed.

Lemma subseq_sum_le {A} (f : A -> Z) l l' :
  subseq l l' -> (forall x, In x l' -> 0 <= f x) -> sum (map f l) <= sum (map f l').
Proof.
  induction 1 as [|x l l' H IH|x l l' H IH]; intros Hpos; cbn [map sum fold_right]; [lia| |].
  - fold (sum (map f l)). fold (sum (map f l')). assert (sum (map f l) <= sum (map f l')) by (apply IH; intros y Hy; apply Hpos; right; exact Hy). lia.
  - fold (sum (map f l')). assert (sum (map f l) <= sum (map f l')) by (apply IH; intros y Hy; apply Hpos; right; exact Hy).
    pose proof (Hpos x (or_introl eq_refl)). lia.
Qed.

Lemma subseq_sum_eq {A} (f : A -> Z) l l' :
  subseq l l' -> (forall x, In x l' -> 0 < f x) -> sum (map f l) = sum (map f l') -> l = l'.
Proof.
  induction 1 as [|x l l' H IH|x l l' H IH]; intros Hpos Hs; [reflexivity| |].
  - cbn [map sum fold_right] in Hs. fold (sum (map f l)) in Hs. fold (sum (map f l')) in Hs.
    f_equal. apply IH; [intros y Hy; apply Hpos; right; exact Hy|lia].
  - exfalso. cbn [map sum fold_right] in Hs. fold (sum (map f l')) in Hs.
    assert (sum (map f l) <= sum (map f l')).
    { apply subseq_sum_le; [exact H|]. intros y Hy. assert (0 < f y) by (apply Hpos; right; exact Hy). lia. }
    pose proof (Hpos x (or_introl eq_refl)). lia.
Qed.

(** * after PaymentClaimable: only ever a sub-collection of the announced parts *)

(** operations during which the announced set can only shrink: ticks, blocks at ANY height,
    HTLCs / claims / fail-backs of other payments *)
Definition calm_for (hash : Z) (o : op) : bool :=
  match o with
  | Tick => true
  | Block _ => true
  | Recv h _ _ _ _ _ _ _ _ _ _ _ => negb (h =? hash)
  | Claim h _ => negb (h =? hash)
  | FailBack h => negb (h =? hash)
  end.

(** the entry of [hash] is gone, or holds a subsequence of the announced parts [L] (cores) *)
Definition shrunk (hash : Z) (L : list (Z * Z * Z * Z * option Z)) (s : state) : Prop :=
  match get hash (claimable s) with
  | None => True
  | Some e' => subseq (map core (py_parts e')) L
  end.

Lemma step_calm s o hash L :
  sorted (claimable s) -> shrunk hash L s -> calm_for hash o = true -> shrunk hash L (fst (step s o)).
Proof.
  intros Hs Hsh Hq. unfold shrunk in *.
  destruct o as [h pid oc cltv value intended fl purpose auth mc sk up| |bh|ch known|fh]; cbn [step].
  - (* an HTLC of another payment *)
    cbn [calm_for] in Hq. apply negb_true_iff, Z.eqb_neq in Hq. unfold recv.
    repeat match goal with |- context [if ?b then (s, _) else _] => destruct b; [exact Hsh|] end.
    destruct (get h (claimable s)) as [e0|] eqn:Eh.
    + destruct (negb (py_purpose e0 =? purpose)); [exact Hsh|].
      destruct (check_incoming_mpp_part _ _ _ _) as [[parts' complete]|]; cbn [fst claimable]; [|exact Hsh].
      rewrite get_ins_neq by congruence. exact Hsh.
    + cbn [py_purpose]. rewrite Z.eqb_refl. cbn [negb].
      destruct (check_incoming_mpp_part _ _ _ _) as [[parts' complete]|]; cbn [fst claimable];
        rewrite get_ins_neq by congruence; exact Hsh.
  - (* tick: the parts stay, or the whole entry goes *)
    destruct (map_payments tick_payment (claimable s)) as [m outs] eqn:Em. cbn [fst claimable].
    replace m with (fst (map_payments tick_payment (claimable s))) by (rewrite Em; reflexivity).
    destruct (get hash (claimable s)) as [e|] eqn:Eg.
    + destruct (tick_payment (hash, e)) as [[[k e']|] outs1] eqn:Et.
      * pose proof (tick_key_preserving _ _ _ _ _ Et) as ->.
        rewrite (get_map_payments tick_payment (claimable s) hash e e' outs1 tick_key_preserving Eg Et).
        assert (Hcore : map core (py_parts e') = map core (py_parts e)).
        { unfold tick_payment in Et. destruct (py_parts e) as [|p0 t] eqn:Ep; [discriminate|].
          destruct (mpp_complete_at_tick _ _).
          - injection Et as <- _. cbn [py_parts]. exact (core_tick (p0 :: t)).
          - destruct (existsb _ _); [discriminate|]. injection Et as <- _. cbn [py_parts]. exact (core_tick (p0 :: t)). }
        rewrite Hcore. exact Hsh.
      * rewrite (get_map_payments_removed tick_payment (claimable s) hash e outs1 tick_key_preserving Hs Eg Et). exact I.
    + rewrite (get_map_payments_other tick_payment (claimable s) hash tick_key_preserving Eg). exact I.
  - (* block: some parts are failed back *)
    destruct (map_payments (block_payment bh) (claimable s)) as [m outs] eqn:Em. cbn [fst claimable].
    replace m with (fst (map_payments (block_payment bh) (claimable s))) by (rewrite Em; reflexivity).
    destruct (get hash (claimable s)) as [e|] eqn:Eg.
    + destruct (block_payment bh (hash, e)) as [[[k e']|] outs1] eqn:Et.
      * pose proof (block_key_preserving bh _ _ _ _ _ Et) as ->.
        rewrite (get_map_payments (block_payment bh) (claimable s) hash e e' outs1 (block_key_preserving bh) Eg Et).
        assert (Hsub : subseq (py_parts e') (py_parts e)).
        { unfold block_payment in Et.
          destruct (filter (fun p => negb (pt_cltv p - HTLC_FAIL_BACK_BUFFER <=? bh)) (py_parts e)) as [|q t] eqn:Ef; [discriminate|].
          injection Et as <- _. cbn [py_parts]. rewrite <- Ef. apply subseq_filter. }
        eapply subseq_trans; [apply subseq_map; exact Hsub|exact Hsh].
      * rewrite (get_map_payments_removed (block_payment bh) (claimable s) hash e outs1 (block_key_preserving bh) Hs Eg Et). exact I.
    + rewrite (get_map_payments_other (block_payment bh) (claimable s) hash (block_key_preserving bh) Eg). exact I.
  - cbn [calm_for] in Hq. apply negb_true_iff, Z.eqb_neq in Hq. unfold claim.
    destruct (get ch (claimable s)) as [e0|]; [|exact Hsh].
    assert (Hd : match get hash (del ch (claimable s)) with None => True | Some e' => subseq (map core (py_parts e')) L end)
      by (rewrite get_del_neq by congruence; exact Hsh).
    destruct (negb known && _); [exact Hd|].
    destruct (claim_scan (py_parts e0) None 0) as [[valid expected] amt].
    destruct (py_parts e0); [exact Hd|]. destruct expected; [|exact Hd].
    destruct (valid && _); exact Hd.
  - cbn [calm_for] in Hq. apply negb_true_iff, Z.eqb_neq in Hq. unfold fail_back.
    destruct (get fh (claimable s)) as [e0|]; [|exact Hsh].
    cbn [fst claimable]. rewrite get_del_neq by congruence. exact Hsh.
Qed.

Lemma run_calm : forall ops s hash L,
  sorted (claimable s) -> shrunk hash L s -> forallb (calm_for hash) ops = true ->
  shrunk hash L (fst (run s ops)).
Proof.
  induction ops as [|o rest IH]; intros s hash L Hs Hsh Hq; cbn [run]; [exact Hsh|].
  cbn [forallb] in Hq. apply andb_true_iff in Hq as [Hq1 Hq2].
  pose proof (step_calm s o hash L Hs Hsh Hq1) as H1. pose proof (step_sorted s o Hs) as Hs1.
  destruct (step s o) as [s1 outs]. cbn [fst] in *.
  specialize (IH s1 hash L Hs1 H1 Hq2). destruct (run s1 rest) as [s2 tr]. exact IH.
Qed.

(** [claim_scan] over parts that all record the same received total *)
Lemma claim_scan_all A : forall parts exp acc,
  (forall p, In p parts -> pt_tvr p = Some A) -> (exp = None \/ exp = Some A) ->
  claim_scan parts exp acc = (true, match parts with [] => exp | _ => Some A end, acc + sum_value parts).
Proof. exact (claim_scan_ready A). Qed.

(** PaymentClaimed reports the announced amount, for ALL announced parts, or nothing is claimed. *)
Theorem claim_amount_is_announced s0 o0 hash A d ops known :
  sorted (claimable s0) ->
  In (OClaimable hash A d) (snd (step s0 o0)) ->
  forallb (calm_for hash) ops = true ->
  let s1 := fst (step s0 o0) in
  let outs := snd (step (fst (run s1 ops)) (Claim hash known)) in
  exists e,
    get hash (claimable s1) = Some e /\ A = sum_value (py_parts e) /\
    (forall A' pids, In (OClaimed hash A' pids) outs ->
       A' = A /\
       exists e', get hash (claimable (fst (run s1 ops))) = Some e' /\
                  sum_value (py_parts e') = A /\ pids = map pt_id (py_parts e') /\
                  subseq (map core (py_parts e')) (map core (py_parts e)) /\
                  (forall p, In p (py_parts e') -> In (OFulfill (pt_id p)) outs) /\
                  ((forall p, In p (py_parts e) -> 0 < pt_value p) ->
                   map core (py_parts e') = map core (py_parts e))) /\
    (* once an announced part (of positive value) is gone, nothing is claimed and nothing fulfilled *)
    (forall e', get hash (claimable (fst (run s1 ops))) = Some e' ->
       (forall p, In p (py_parts e) -> 0 < pt_value p) ->
       map core (py_parts e') <> map core (py_parts e) ->
       forall o, In o outs -> exists pid r, o = OFailPart pid r).
Proof.
  intros Hs0 Hin Hq. cbv zeta.
  destruct (claimable_only_if_complete s0 o0 hash A d Hin)
    as (pid & oc & cltv & value & intended & fl & purpose & mc & sk & up & e & _ & _ & _ & _ & _ & _ & Hg & _ & _ & HA & _ & Htvr & _ & _ & _).
  exists e. split; [exact Hg|]. split; [exact HA|].
  set (s1 := fst (step s0 o0)) in *.
  assert (Hs1 : sorted (claimable s1)) by (apply step_sorted; exact Hs0).
  assert (Hsh1 : shrunk hash (map core (py_parts e)) s1).
  { unfold shrunk. rewrite Hg. apply subseq_refl. }
  pose proof (run_calm ops s1 hash _ Hs1 Hsh1 Hq) as Hsh2. unfold shrunk in Hsh2.
  set (s2 := fst (run s1 ops)) in *.
  (* what the claim does *)
  cbn [step]. unfold claim.
  destruct (get hash (claimable s2)) as [e'|] eqn:Eg2; [|split; [intros A' pids []|intros e' [=]]].
  assert (Htvr' : forall p, In p (py_parts e') -> pt_tvr p = Some A).
  { intros p Hp. pose proof (subseq_in _ _ (core p) Hsh2 (in_map core _ _ Hp)) as Hc.
    apply in_map_iff in Hc as [q [Hq0 Hq1]]. specialize (Htvr q Hq1).
    unfold core in Hq0. injection Hq0 as _ _ _ _ Ht. rewrite <- Ht. exact Htvr. }
  assert (Hle : forall (Hpos : forall p, In p (py_parts e) -> 0 < pt_value p),
            sum_value (py_parts e') = A -> map core (py_parts e') = map core (py_parts e)).
  { intros Hpos Hsum.
    apply (subseq_sum_eq (fun c : Z * Z * Z * Z * option Z => let '(_, _, v, _, _) := c in v) _ _ Hsh2).
    - intros c Hc. apply in_map_iff in Hc as [q [<- Hq1]]. cbn [core]. apply Hpos. exact Hq1.
    - rewrite <- !sum_value_core. rewrite Hsum. exact HA. }
  destruct (negb known && negb match f_even (py_fields e') with [] => true | _ => false end).
  { cbn [snd]. split.
    - intros A' pids Hc. apply in_map_iff in Hc as [p [Hp _]]. discriminate.
    - intros e2 _ _ _ o Ho. apply in_map_iff in Ho as [p [<- _]]. eauto. }
  rewrite (claim_scan_all A (py_parts e') None 0 Htvr' (or_introl eq_refl)).
  destruct (py_parts e') as [|p0 t] eqn:Ep.
  { cbn [snd]. split; [intros A' pids []|intros e2 _ _ _ o []]. }
  rewrite <- Ep in *. checks. rewrite negb_involutive, Z.add_0_l. cbn [andb].
  destruct (Z.eqb_spec (sum_value (py_parts e')) A) as [Heq|Hneq]; cbn [snd].
  - split.
    + intros A' pids [Hc|Hc]; [|apply in_map_iff in Hc as [p [Hp _]]; discriminate].
      injection Hc as <- <-. split; [exact Heq|].
      exists e'. split; [reflexivity|]. split; [exact Heq|]. split; [rewrite Ep; reflexivity|].
      split; [exact Hsh2|]. split.
      * intros p Hp. right. apply in_map_iff. exists p. split; [reflexivity|exact Hp].
      * intros Hpos. apply Hle; assumption.
    + intros e2 [= <-] Hpos Hdiff. exfalso. apply Hdiff. apply Hle; assumption.
  - split.
    + intros A' pids Hc. rewrite Ep in Hc. apply in_map_iff in Hc as [p [Hp _]]. discriminate.
    + intros e2 _ _ _ o Ho. rewrite Ep in Ho. apply in_map_iff in Ho as [p [<- _]]. eauto.
Qed.

Lemma reachable_sorted h ops : sorted (claimable (fst (run (init h) ops))).
Proof. apply run_sorted. apply init_sorted. Qed.

(** * what acceptance of a part implies (the thresholds are the regenerated ones) *)
Lemma recv_accepted_window s hash pid onion_cltv cltv value intended fl purpose auth min_cltv sk up :
  (forall r, ~ In (OFailPart pid r) (snd (step s (Recv hash pid onion_cltv cltv value intended fl purpose auth min_cltv sk up)))) ->
  auth = true /\ onion_cltv <= cltv /\
  height s + HTLC_FAIL_BACK_BUFFER + 2 <= cltv /\
  (forall d, min_cltv = Some d -> height s + d <= cltv) /\
  final_hop_underpaid up intended value sk = false.
Proof.
  intros Hno. cbn [step] in Hno. unfold recv in Hno. checks.
  destruct (Z.ltb_spec cltv onion_cltv); [exfalso; eapply Hno; left; reflexivity|].
  destruct (Z.leb_spec cltv (height s + HTLC_FAIL_BACK_BUFFER + 1)); [exfalso; eapply Hno; left; reflexivity|].
  destruct (final_hop_underpaid up intended value sk) eqn:Eu; [exfalso; eapply Hno; left; reflexivity|].
  destruct auth; cbn [negb] in Hno; [|exfalso; eapply Hno; left; reflexivity].
  destruct min_cltv as [d|].
  - destruct (Z.ltb_spec cltv (height s + d)); [exfalso; eapply Hno; left; reflexivity|].
    repeat split; try lia. intros d0 [= <-]. lia.
  - repeat split; try lia. intros d0 [=].
Qed.

(** the numeric half of [inbound_payment::verify]: the committed total reaches the registered minimum
    and the payment is not expired by more than the ONE grace period [calculate_absolute_expiry] adds *)
Lemma verify_numeric_ok_spec total min_amt t0 delta now :
  verify_numeric_ok total min_amt t0 delta now = true <->
  min_amt <= total /\ now <= t0 + delta + 7200.
Proof.
  unfold verify_numeric_ok, verify_amount_too_low, verify_expired, calculate_absolute_expiry.
  rewrite andb_true_iff, !negb_true_iff, !Z.ltb_ge. tauto.
Qed.

(** a keysend HTLC only counts as authentic if its preimage hashes to the payment hash *)
Lemma keysend_claimable_needs_matching_preimage s hash A d pid onion_cltv cltv value intended fl purpose ks v min_cltv sk up :
  In (OClaimable hash A d)
     (snd (step s (Recv hash pid onion_cltv cltv value intended fl purpose (recv_auth ks v) min_cltv sk up))) ->
  match ks with Some hash_matches => hash_matches = true | None => v = true end.
Proof.
  intros Hin. destruct (claimable_only_if_complete s _ hash A d Hin)
    as (pid' & oc' & cltv' & value' & intended' & fl' & purpose' & mc' & sk' & up' & e' & Ho & _).
  injection Ho as _ _ _ _ _ _ _ Ha _ _ _. destruct ks as [m|]; cbn [recv_auth] in Ha; exact Ha.
Qed.

(** the hand model of part A (Model/InboundSecret.v) writes the expiry computation and the two numeric
    comparisons of [verify] by hand; they are the regenerated ones *)
Lemma secret_model_pins :
  (forall now delta, LdkV.Model.InboundSecret.absolute_expiry now delta = calculate_absolute_expiry now delta) /\
  (forall total a, (total <? a) = verify_amount_too_low total a) /\
  (forall e now, (e <? now) = verify_expired e now).
Proof. repeat split. Qed.
