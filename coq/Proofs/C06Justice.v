(** C06: the monitor's memory suffices to punish every revoked commitment of every history, the
    claim set is exactly the cheater-paying outputs, and second-stage spends are followed. *)
Require Import LdkV.Prim.U64 LdkV.Model.Shachain LdkV.Model.Justice LdkV.Proofs.C05Shachain.
Open Scope Z_scope.

Section Proofs.
  Variable H : bytes -> bytes.
  Variable seed : bytes.
  Variable commit : nat -> ccommit.
  Notation gen := (build_commitment_secret H seed).
  Notation history := (history H seed commit).
  Notation apply_all := (apply_all H).
  Notation apply_upd := (apply_upd H).

  Lemma apply_all_app m l1 l2 :
    apply_all m (l1 ++ l2) = match apply_all m l1 with Some m' => apply_all m' l2 | None => None end.
  Proof.
    revert m. induction l1 as [|u l1 IH]; intros m; cbn [Justice.apply_all app]; [reflexivity|].
    destruct (apply_upd m u); [apply IH|reflexivity].
  Qed.

  Lemma claimable_get_map_same cl t f hs : claimable_get cl t = Some hs ->
    claimable_get (claimable_map cl t f) t = Some (f hs).
  Proof.
    induction cl as [|[t' hs'] cl IH]; cbn [claimable_get claimable_map]; [discriminate|].
    destruct (Z.eqb_spec t' t) as [->|NE]; cbn [claimable_get].
    - rewrite Z.eqb_refl. intros E. injection E as <-. reflexivity.
    - destruct (Z.eqb_spec t' t); [contradiction|]. exact IH.
  Qed.

  Lemma claimable_get_map_other cl t f t2 : t2 <> t ->
    claimable_get (claimable_map cl t f) t2 = claimable_get cl t2.
  Proof.
    intros NE. induction cl as [|[t' hs'] cl IH]; cbn [claimable_get claimable_map]; [reflexivity|].
    destruct (Z.eqb_spec t' t) as [->|NE2]; cbn [claimable_get].
    - destruct (Z.eqb_spec t t2); [congruence|reflexivity].
    - destruct (Z.eqb_spec t' t2); [reflexivity|exact IH].
  Qed.

  (** ** Memory *)

  Hypothesis txid_inj : forall i j : nat, cc_txid (commit i) = cc_txid (commit j) -> i = j.

  (** the monitor after the history of [n] complete update rounds *)
  Record mem_inv (n : nat) (m : mon) : Prop := {
    mi_secrets : feed H seed n = Some (m_secrets m);
    mi_cur : m_cur m = Some (cc_txid (commit n));
    mi_prev : m_prev m = None;
    mi_latest : claimable_get (m_claimable m) (cc_txid (commit n)) = Some (cc_htlcs (commit n));
    mi_old : forall j : nat, (j < n)%nat ->
             claimable_get (m_claimable m) (cc_txid (commit j)) = Some (map drop_src (cc_htlcs (commit j)))
  }.

  Lemma history_inv : forall n : nat, Z.of_nat n <= 2 ^ 48 ->
    exists m, apply_all mon_init (history n) = Some m /\ mem_inv n m.
  Proof.
    induction n as [|k IH]; intros Hn.
    - eexists. split; [reflexivity|]. constructor; cbn; try reflexivity.
      + rewrite Z.eqb_refl. reflexivity.
      + intros j Hj. lia.
    - destruct (IH ltac:(lia)) as (m & Hm & [Hs Hc Hp Hl Ho]). cbn [Justice.history].
      rewrite apply_all_app, Hm. cbn [Justice.apply_all Justice.apply_upd m_secrets m_claimable m_cur m_prev].
      (* the secret of commitment k is accepted: it is the next one of the honest feed *)
      destruct (feed_inv H seed (S k) Hn) as (st & Hst & _). cbn [feed] in Hst. rewrite Hs in Hst.
      unfold FIRST_IDX in Hst. unfold FIRSTN. rewrite Hst.
      rewrite Hc. cbn [opt_eqb].
      assert (NE : cc_txid (commit (S k)) <> cc_txid (commit k)) by (intros E; apply txid_inj in E; lia).
      destruct (Z.eqb_spec (cc_txid (commit (S k))) (cc_txid (commit k))) as [E|_]; [contradiction|].
      eexists. split; [reflexivity|].
      constructor; cbn [m_secrets m_claimable m_cur m_prev claimable_map claimable_get].
      + cbn [feed]. rewrite Hs. exact Hst.
      + reflexivity.
      + reflexivity.
      + destruct (Z.eqb_spec (cc_txid (commit (S k))) (cc_txid (commit k))); [contradiction|].
        cbn [claimable_get]. rewrite Z.eqb_refl. reflexivity.
      + intros j Hj.
        destruct (Z.eqb_spec (cc_txid (commit (S k))) (cc_txid (commit k))); [contradiction|].
        cbn [claimable_get].
        destruct (Z.eqb_spec (cc_txid (commit (S k))) (cc_txid (commit j))) as [E|_];
          [apply txid_inj in E; lia|].
        destruct (Nat.eq_dec j k) as [->|NEj].
        * apply claimable_get_map_same. exact Hl.
        * rewrite claimable_get_map_other by (intros E; apply txid_inj in E; lia).
          apply Ho. lia.
  Qed.

  (** every revoked commitment of every history stays punishable: its secret is retrievable and
      its HTLC list (with output indices) is retained, only the sources are dropped *)
  Theorem memory_suffices (n : nat) : Z.of_nat n <= 2 ^ 48 ->
    exists m, apply_all mon_init (history n) = Some m /\
      get_min_seen_secret (m_secrets m) = 2 ^ 48 - Z.of_nat n /\
      forall j : nat, (j < n)%nat ->
        get_secret H (m_secrets m) (FIRSTN - Z.of_nat j) = Some (gen (FIRSTN - Z.of_nat j)) /\
        claimable_get (m_claimable m) (cc_txid (commit j)) = Some (map drop_src (cc_htlcs (commit j))).
  Proof.
    intros Hn. destruct (history_inv n Hn) as (m & Hm & [Hs Hc Hp Hl Ho]).
    destruct (shachain_refines_map H seed n Hn) as (st & Hst & Hmin & Hget).
    rewrite Hs in Hst. injection Hst as <-.
    exists m. split; [exact Hm|]. split; [exact Hmin|]. intros j Hj. split; [|apply Ho; exact Hj].
    unfold FIRSTN. destruct (Hget (2 ^ 48 - 1 - Z.of_nat j) ltac:(lia)) as [Hg _]. rewrite Hg.
    destruct (Z.leb_spec (2 ^ 48 - Z.of_nat n) (2 ^ 48 - 1 - Z.of_nat j)); [reflexivity|lia].
  Qed.
End Proofs.

(* ------------------------------------------------------------------------------------------ *)
(** * The claim set *)

Section Claims.
  Variable H : bytes -> bytes.

  Definition htlc_idxs (hs : list htlc) : list Z :=
    flat_map (fun h => match h_out h with Some i => [i] | None => [] end) hs.

  Lemma htlc_idxs_drop_src hs : htlc_idxs (map drop_src hs) = htlc_idxs hs.
  Proof.
    unfold htlc_idxs. induction hs as [|h hs IH]; cbn [map flat_map]; [reflexivity|].
    rewrite IH. reflexivity.
  Qed.

  (** the stored HTLC list describes the transaction: every indexed HTLC points at an existing
      output of the right value *)
  Definition htlcs_match (outs : list txout) (hs : list htlc) : Prop :=
    forall h i, In h hs -> h_out h = Some i ->
      0 <= i < Z.of_nat (List.length outs) /\
      o_value_sat (nth (Z.to_nat i) outs (mkOut OOtherScript (-1))) = h_amount_msat h / 1000.

  Lemma htlc_outs_all txid outs : forall hs acc, htlcs_match outs hs ->
    htlc_outs txid outs hs acc = (acc ++ map (pair txid) (htlc_idxs hs), true).
  Proof.
    induction hs as [|h hs IH]; intros acc Hm; cbn [htlc_outs htlc_idxs flat_map map].
    - rewrite app_nil_r. reflexivity.
    - assert (Hm' : htlcs_match outs hs) by (intros h' i Hin; apply Hm; right; exact Hin).
      destruct (h_out h) as [i|] eqn:Eo.
      + destruct (Hm h i (or_introl eq_refl) Eo) as [Hr Hv].
        destruct (Z.leb_spec (Z.of_nat (List.length outs)) i); [lia|]. rewrite Hv, Z.eqb_refl. cbn [negb orb].
        rewrite (IH _ Hm'). cbn [app map]. rewrite <- app_assoc. reflexivity.
      + cbn [app]. apply IH. exact Hm'.
  Qed.

  Lemma htlcs_match_drop_src outs hs : htlcs_match outs hs -> htlcs_match outs (map drop_src hs).
  Proof.
    intros Hm h i Hin Ho. apply in_map_iff in Hin. destruct Hin as (h0 & <- & Hin0).
    cbn [drop_src h_out h_amount_msat] in *. apply (Hm h0 i Hin0 Ho).
  Qed.

  (** If the monitor knows the secret of [tx]'s number and holds [tx]'s HTLC list, it claims
      exactly: every revokeable output of that number, then every HTLC output, in order. *)
  Lemma justice_claims m tx hs sec :
    get_min_seen_secret (m_secrets m) <= t_number tx ->
    get_secret H (m_secrets m) (t_number tx) = Some sec ->
    claimable_get (m_claimable m) (t_txid tx) = Some hs ->
    htlcs_match (t_outs tx) hs ->
    justice H m tx = revokeable_outs (t_txid tx) (t_number tx) 0 (t_outs tx)
                     ++ map (pair (t_txid tx)) (htlc_idxs hs).
  Proof.
    intros Hmin Hsec Hcl Hm. unfold justice.
    destruct (Z.leb_spec (get_min_seen_secret (m_secrets m)) (t_number tx)); [|lia].
    rewrite Hsec, Hcl, (htlc_outs_all _ _ _ _ Hm). reflexivity.
  Qed.

  (** which output indices [revokeable_outs] returns *)
  Lemma revokeable_outs_spec txid k : forall outs i0 op,
    In op (revokeable_outs txid k i0 outs) <->
    exists j : nat, (j < List.length outs)%nat /\ op = (txid, i0 + Z.of_nat j) /\
                    o_kind (nth j outs (mkOut OOtherScript (-1))) = ORevokeable k.
  Proof.
    induction outs as [|o outs IH]; intros i0 op; cbn [revokeable_outs List.length].
    - split; [intros []|intros (j & Hj & _); lia].
    - rewrite in_app_iff, IH. split.
      + intros [Hin|(j & Hj & -> & Hk)].
        * exists 0%nat. destruct (o_kind o) as [k'|] eqn:Ek; [|destruct Hin].
          destruct (Z.eqb_spec k' k) as [->|]; [|destruct Hin]. destruct Hin as [<-|[]].
          split; [lia|]. split; [f_equal; lia|exact Ek].
        * exists (S j). split; [lia|]. split; [f_equal; lia|exact Hk].
      + intros (j & Hj & -> & Hk). destruct j as [|j].
        * left. cbn [nth] in Hk. rewrite Hk, Z.eqb_refl. left. f_equal. lia.
        * right. exists j. split; [lia|]. split; [f_equal; lia|exact Hk].
  Qed.

  (** ** Second stage *)

  (** The cheater confirms an HTLC transaction spending output [v] of the revoked commitment
      (one input, 5 witness elements, at least one output): the tracked claim on [(ctxid, v)] is
      replaced by a claim on the HTLC transaction's output 0; nothing else changes. *)
  Lemma track_htlc_tx m k ctxid claims htxid v sec :
    get_secret H (m_secrets m) k = Some sec ->
    track H m k ctxid claims (mkStx htxid [(ctxid, v, 5)] 1) =
    filter (fun op => negb ((fst op =? ctxid) && (snd op =? v))) claims ++ [(htxid, 0)].
  Proof.
    intros Hs. unfold track, justice_htlc. rewrite Hs. cbn [s_ins s_txid s_nout second_stage_outs].
    rewrite Z.eqb_refl. cbn [andb Z.eqb Z.ltb Z.compare app]. f_equal.
    apply filter_ext. intros [t w]. unfold spends. cbn [s_ins existsb fst snd].
    rewrite orb_false_r, (Z.eqb_sym ctxid t), (Z.eqb_sym v w). reflexivity.
  Qed.

  (** a transaction that spends none of the tracked outpoints and is not an HTLC transaction of
      the revoked commitment changes nothing *)
  Lemma track_unrelated m k ctxid claims tx :
    (forall op, In op claims -> spends tx op = false) ->
    (forall inp, In inp (s_ins tx) -> fst (fst inp) <> ctxid) ->
    track H m k ctxid claims tx = claims.
  Proof.
    intros Hns Hnc. unfold track, justice_htlc.
    assert (E : forall i ins, (forall inp, In inp ins -> fst (fst inp) <> ctxid) ->
                second_stage_outs ctxid (s_txid tx) (s_nout tx) i ins = []).
    { intros i ins. revert i. induction ins as [|[[p q] w] ins IH]; intros i Hall; [reflexivity|].
      cbn [second_stage_outs]. destruct (Z.eqb_spec p ctxid) as [->|_].
      - exfalso. apply (Hall (ctxid, q, w)); [left; reflexivity|reflexivity].
      - cbn [andb app]. apply IH. intros inp Hin. apply Hall. right. exact Hin. }
    rewrite (E 0 _ Hnc).
    assert (Ef : filter (fun op => negb (spends tx op)) claims = claims).
    { clear E. induction claims as [|op cl IH]; [reflexivity|]. cbn [filter].
      rewrite (Hns op (or_introl eq_refl)). cbn [negb]. f_equal. apply IH.
      intros op' Hin. apply Hns. right. exact Hin. }
    rewrite Ef. destruct (get_secret H (m_secrets m) k); apply app_nil_r.
  Qed.

  (** any subset [S] of the commitment's outputs, spent one by one by the cheater's HTLC
      transactions [(htxid, v)]: what is tracked afterwards is (claims minus S) plus output 0 of
      each of those transactions *)
  Definition in_S (ctxid : Z) (S : list (Z * Z)) (op : Z * Z) : bool :=
    (fst op =? ctxid) && existsb (fun hv : Z * Z => snd hv =? snd op) S.

  Lemma track_subset m k ctxid sec : get_secret H (m_secrets m) k = Some sec ->
    forall (S : list (Z * Z)) claims,
    (forall hv, In hv S -> fst hv <> ctxid) ->
    fold_left (fun cl (hv : Z * Z) => track H m k ctxid cl (mkStx (fst hv) [(ctxid, snd hv, 5)] 1)) S claims =
    filter (fun op => negb (in_S ctxid S op)) claims ++ map (fun hv : Z * Z => (fst hv, 0)) S.
  Proof.
    intros Hs. induction S as [|[h v] S IH]; intros claims Hne; cbn [fold_left map].
    - rewrite app_nil_r. symmetry.
      assert (E : forall l : list (Z * Z), filter (fun op => negb (in_S ctxid [] op)) l = l).
      { induction l as [|op l IHl]; [reflexivity|]. cbn [filter]. unfold in_S at 1. cbn [existsb].
        rewrite andb_false_r. cbn [negb]. f_equal. exact IHl. }
      apply E.
    - cbn [fst snd]. rewrite (track_htlc_tx m k ctxid claims h v sec Hs).
      rewrite IH by (intros hv Hin; apply Hne; right; exact Hin).
      rewrite filter_app. cbn [filter]. unfold in_S at 2. cbn [fst snd].
      assert (Hh : h <> ctxid) by (apply (Hne (h, v)); left; reflexivity).
      destruct (Z.eqb_spec h ctxid) as [E|_]; [contradiction|]. cbn [andb negb].
      rewrite <- app_assoc. cbn [app]. f_equal.
      (* the two successive filters are the filter by the bigger set *)
      clear IH. induction claims as [|op cl IHc]; [reflexivity|]. cbn [filter].
      assert (E : in_S ctxid ((h, v) :: S) op =
                  ((fst op =? ctxid) && (snd op =? v)) || in_S ctxid S op).
      { unfold in_S. cbn [existsb snd]. rewrite (Z.eqb_sym v (snd op)).
        destruct (fst op =? ctxid), (snd op =? v), (existsb _ S); reflexivity. }
      rewrite E.
      destruct ((fst op =? ctxid) && (snd op =? v)); cbn [negb orb]; [exact IHc|].
      cbn [filter]. destruct (in_S ctxid S op); cbn [negb]; [exact IHc|f_equal; exact IHc].
  Qed.

  (** no outpoint is claimed twice *)
  Lemma revokeable_outs_ge txid k : forall outs i0 op, In op (revokeable_outs txid k i0 outs) -> i0 <= snd op /\ fst op = txid.
  Proof.
    induction outs as [|o outs IH]; intros i0 op Hin; cbn [revokeable_outs] in Hin; [destruct Hin|].
    apply in_app_iff in Hin. destruct Hin as [Hin|Hin].
    - destruct (o_kind o) as [k'|]; [|destruct Hin]. destruct (k' =? k); [|destruct Hin].
      destruct Hin as [<-|[]]. cbn. split; [lia|reflexivity].
    - destruct (IH _ _ Hin). split; [lia|assumption].
  Qed.

  Lemma revokeable_outs_nodup txid k : forall outs i0, NoDup (revokeable_outs txid k i0 outs).
  Proof.
    induction outs as [|o outs IH]; intros i0; cbn [revokeable_outs]; [constructor|].
    destruct (o_kind o) as [k'|]; [|apply IH]. destruct (k' =? k); [|apply IH].
    cbn [app]. constructor; [|apply IH]. intros Hin. apply revokeable_outs_ge in Hin. cbn in Hin. lia.
  Qed.

  Lemma nodup_app_intro {A} (l1 l2 : list A) :
    NoDup l1 -> NoDup l2 -> (forall x, In x l1 -> In x l2 -> False) -> NoDup (l1 ++ l2).
  Proof.
    induction l1 as [|a l1 IH]; intros H1 H2 Hd; cbn [app]; [exact H2|].
    inversion H1 as [|? ? Hn H1']; subst. constructor.
    - rewrite in_app_iff. intros [Hi|Hi]; [contradiction|]. apply (Hd a); [left; reflexivity|exact Hi].
    - apply IH; [exact H1'|exact H2|]. intros x Hx. apply Hd. right. exact Hx.
  Qed.

  Lemma claims_nodup txid k outs hs :
    NoDup (htlc_idxs hs) ->
    (forall i, In i (htlc_idxs hs) -> 0 <= i /\ o_kind (nth (Z.to_nat i) outs (mkOut OOtherScript (-1))) = OOtherScript) ->
    NoDup (revokeable_outs txid k 0 outs ++ map (pair txid) (htlc_idxs hs)).
  Proof.
    intros Hnd Hk. apply nodup_app_intro.
    - apply revokeable_outs_nodup.
    - clear Hk. induction Hnd as [|i l Hni Hnd IH]; cbn [map]; constructor; [|exact IH].
      intros Hin. apply in_map_iff in Hin. destruct Hin as (i' & E & Hi'). injection E as ->. contradiction.
    - intros op Hr Hh. apply in_map_iff in Hh. destruct Hh as (i & <- & Hi).
      apply revokeable_outs_spec in Hr. destruct Hr as (j & Hj & E & Hkind). injection E as E.
      destruct (Hk i Hi) as [Hi0 Hko]. subst i. rewrite ?Z.add_0_l, Nat2Z.id in Hko. congruence.
  Qed.
End Claims.

(* ------------------------------------------------------------------------------------------ *)
(** * The block filter and same-block second stage *)

Section Block.
  Variable H : bytes -> bytes.

  (** the child loop looks at EVERY input: the position of the input that spends an earlier matched
      transaction does not matter *)
  Lemma child_loop_spec matched : forall ins m,
    child_loop matched ins m =
    m || existsb (fun inp : Z * Z * Z => existsb (fun t => t =? fst (fst inp)) matched) ins.
  Proof.
    induction ins as [|inp tl IH]; intros m; cbn [child_loop existsb].
    - rewrite orb_false_r. reflexivity.
    - destruct m; [reflexivity|]. rewrite IH. reflexivity.
  Qed.

  Definition relevant (watched : list outpoint) (matched : list Z) (tx : stx) : bool :=
    spends_watched watched (s_ins tx) ||
    existsb (fun inp : Z * Z * Z => existsb (fun t => t =? fst (fst inp)) matched) (s_ins tx).

  Lemma filter_block_unfold watched matched tx tl :
    filter_block watched matched (tx :: tl) =
    if relevant watched matched tx then tx :: filter_block watched (s_txid tx :: matched) tl
    else filter_block watched matched tl.
  Proof. cbn [filter_block]. rewrite child_loop_spec. reflexivity. Qed.

  (** a transaction with an input (anywhere) spending an earlier matched transaction is relevant *)
  Lemma relevant_child watched matched tx inp :
    In inp (s_ins tx) -> In (fst (fst inp)) matched -> relevant watched matched tx = true.
  Proof.
    intros Hin Hm. unfold relevant. apply orb_true_iff. right.
    apply existsb_exists. exists inp. split; [exact Hin|].
    apply existsb_exists. exists (fst (fst inp)). split; [exact Hm|apply Z.eqb_refl].
  Qed.

  Definition spends_tx (ctxid : Z) (tx : stx) : bool :=
    existsb (fun inp : Z * Z * Z => fst (fst inp) =? ctxid) (s_ins tx).

  (** [U]: every txid that could make a transaction a "child" in this block; the transactions that
      do not spend the commitment are unrelated: they spend nothing watched and nothing of [U] *)
  Definition unrelated (watched : list outpoint) (U : list Z) (tx : stx) : Prop :=
    spends_watched watched (s_ins tx) = false /\
    forall inp, In inp (s_ins tx) -> ~ In (fst (fst inp)) U.

  Lemma relevant_unrelated watched U matched tx :
    (forall x, In x matched -> In x U) -> unrelated watched U tx -> relevant watched matched tx = false.
  Proof.
    intros Hsub [Hw Hno]. unfold relevant. rewrite Hw. cbn [orb].
    destruct (existsb _ (s_ins tx)) eqn:E; [|reflexivity]. exfalso.
    apply existsb_exists in E. destruct E as (inp & Hin & E).
    apply existsb_exists in E. destruct E as (t & Ht & E). apply Z.eqb_eq in E. subst t.
    apply (Hno inp Hin). apply Hsub. exact Ht.
  Qed.

  (** after the commitment was matched, the filter keeps exactly the transactions that spend it,
      whatever the position of the spending input and whatever else they spend *)
  Lemma filter_block_after_commitment watched U ctxid : forall S matched,
    In ctxid matched -> (forall x, In x matched -> In x U) ->
    (forall t, In t S -> In (s_txid t) U) ->
    (forall t, In t S -> spends_tx ctxid t = false -> unrelated watched U t) ->
    filter_block watched matched S = filter (spends_tx ctxid) S.
  Proof.
    induction S as [|t S IH]; intros matched Hc Hsub HU Hun; [reflexivity|].
    rewrite filter_block_unfold. cbn [filter].
    destruct (spends_tx ctxid t) eqn:Es.
    - unfold spends_tx in Es. apply existsb_exists in Es. destruct Es as (inp & Hin & E).
      apply Z.eqb_eq in E.
      rewrite (relevant_child watched matched t inp Hin) by (rewrite E; exact Hc).
      f_equal. apply IH.
      + right. exact Hc.
      + intros x [<-|Hx]; [apply HU; left; reflexivity|apply Hsub; exact Hx].
      + intros t' Ht'. apply HU. right. exact Ht'.
      + intros t' Ht'. apply Hun. right. exact Ht'.
    - rewrite (relevant_unrelated watched U matched t Hsub (Hun t (or_introl eq_refl) Es)).
      apply IH; try assumption.
      + intros t' Ht'. apply HU. right. exact Ht'.
      + intros t' Ht'. apply Hun. right. exact Ht'.
  Qed.

  (** ** Tracking over transactions with any number of inputs *)

  Lemma track_known m k ctxid claims tx sec : get_secret H (m_secrets m) k = Some sec ->
    track H m k ctxid claims tx =
    filter (fun op => negb (spends tx op)) claims ++ second_stage_outs ctxid (s_txid tx) (s_nout tx) 0 (s_ins tx).
  Proof. intros Hs. unfold track, justice_htlc. rewrite Hs. reflexivity. Qed.

  Definition second_stage (ctxid : Z) (tx : stx) : list outpoint :=
    second_stage_outs ctxid (s_txid tx) (s_nout tx) 0 (s_ins tx).

  Lemma filter_filter {A} (f g : A -> bool) l : filter f (filter g l) = filter (fun x => g x && f x) l.
  Proof.
    induction l as [|x l IH]; [reflexivity|]. cbn [filter]. destruct (g x); cbn [filter andb]; [|exact IH].
    destruct (f x); [f_equal|]; exact IH.
  Qed.

  Lemma filter_id {A} (f : A -> bool) l : (forall x, In x l -> f x = true) -> filter f l = l.
  Proof.
    induction l as [|x l IH]; intros Hall; [reflexivity|]. cbn [filter].
    rewrite (Hall x (or_introl eq_refl)). f_equal. apply IH. intros y Hy. apply Hall. right. exact Hy.
  Qed.

  (** For ANY list [S] of transactions (any number of inputs each, HTLC inputs at any position,
      extra fee inputs anywhere) none of which spends a second-stage output of another: after all of
      them, what is tracked is the claims none of them spent, plus every second-stage output. *)
  Lemma track_all m k ctxid sec : get_secret H (m_secrets m) k = Some sec ->
    forall (S : list stx) claims,
    (forall t t' op, In t S -> In t' S -> In op (second_stage ctxid t) -> spends t' op = false) ->
    fold_left (track H m k ctxid) S claims =
    filter (fun op => negb (existsb (fun t => spends t op) S)) claims ++ flat_map (second_stage ctxid) S.
  Proof.
    intros Hs. induction S as [|t S IH]; intros claims Hind; cbn [fold_left flat_map existsb].
    - rewrite app_nil_r. symmetry. apply filter_id. reflexivity.
    - rewrite (track_known m k ctxid claims t sec Hs). fold (second_stage ctxid t).
      rewrite IH by (intros a b op Ha Hb; apply Hind; right; assumption).
      rewrite filter_app, filter_filter, <- app_assoc. f_equal.
      + apply filter_ext. intros op. destruct (spends t op); reflexivity.
      + f_equal. apply filter_id. intros op Hop.
        destruct (existsb (fun t0 => spends t0 op) S) eqn:E; [|reflexivity]. exfalso.
        apply existsb_exists in E. destruct E as (t' & Ht' & E).
        rewrite (Hind t t' op (or_introl eq_refl) (or_intror Ht') Hop) in E. discriminate.
  Qed.

  (** which outpoints a multi-input transaction yields: input [i] (0-based, ANY position) spending
      the commitment with a 5-element witness, if the transaction has an output [i] *)
  Lemma second_stage_outs_spec ctxid htxid nout : forall ins i0 op,
    In op (second_stage_outs ctxid htxid nout i0 ins) <->
    exists j : nat, (j < List.length ins)%nat /\ op = (htxid, i0 + Z.of_nat j) /\
      fst (fst (nth j ins (0, 0, 0))) = ctxid /\ snd (nth j ins (0, 0, 0)) = 5 /\ i0 + Z.of_nat j < nout.
  Proof.
    induction ins as [|[[p q] w] ins IH]; intros i0 op; cbn [second_stage_outs List.length].
    - split; [intros []|intros (j & Hj & _); lia].
    - rewrite in_app_iff, IH. split.
      + intros [Hin|(j & Hj & -> & Hp & Hw & Hn)].
        * destruct (Z.eqb_spec p ctxid) as [->|]; [|destruct Hin].
          destruct (Z.eqb_spec w 5) as [->|]; [|destruct Hin].
          destruct (Z.ltb_spec i0 nout); [|destruct Hin]. destruct Hin as [<-|[]].
          exists 0%nat. cbn [nth fst snd]. repeat split; try lia. f_equal. lia.
        * exists (S j). cbn [nth]. repeat split; try lia; try assumption. f_equal. lia.
      + intros (j & Hj & -> & Hp & Hw & Hn). destruct j as [|j].
        * left. cbn [nth fst snd] in *. subst p w. rewrite !Z.eqb_refl.
          destruct (Z.ltb_spec i0 nout); [|lia]. left. f_equal. lia.
        * right. exists j. cbn [nth] in *. repeat split; try lia; try assumption. f_equal. lia.
  Qed.

  (** ** Same-block delivery

      The block holds the revoked commitment [C] (spending the watched funding outpoint) followed,
      in ANY order, by cheater transactions spending its outputs (inputs in any position, extra
      inputs allowed) and by unrelated transactions. Although the commitment's outputs were not
      watched when the block arrived, every one of the cheater's transactions is seen, and the
      tracked claims at the end of the block are: the justice claims none of them spent, plus all
      their second-stage outputs. *)
  Theorem same_block_second_stage m watched funding (tx : ctx) sec (C : stx) (S : list stx) (U : list Z) :
    get_min_seen_secret (m_secrets m) <= t_number tx ->
    get_secret H (m_secrets m) (t_number tx) = Some sec ->
    s_txid C = t_txid tx -> spends_outpoint funding (s_ins C) = true ->
    spends_watched watched (s_ins C) = true ->
    In (t_txid tx) U -> (forall t, In t S -> In (s_txid t) U) ->
    (forall t, In t S -> spends_tx (t_txid tx) t = false -> unrelated watched U t) ->
    (forall t t' op, In t S -> In t' S -> In op (second_stage (t_txid tx) t) -> spends t' op = false) ->
    process_block H m watched funding tx false [] (C :: S) =
    (true,
     filter (fun op => negb (existsb (fun t => spends t op) (filter (spends_tx (t_txid tx)) S))) (justice H m tx)
     ++ flat_map (second_stage (t_txid tx)) (filter (spends_tx (t_txid tx)) S)).
  Proof.
    intros Hmin Hsec HC Hf Hw HU HSU Hun Hind. unfold process_block.
    rewrite filter_block_unfold. unfold relevant. rewrite Hw. cbn [orb].
    rewrite (filter_block_after_commitment watched U (t_txid tx) S [s_txid C]).
    - cbn [scan negb andb]. rewrite Hf, HC, Z.eqb_refl. cbn [andb].
      set (S' := filter (spends_tx (t_txid tx)) S).
      assert (Hscan : forall l claims, scan H m funding tx true claims l =
                      (true, fold_left (track H m (t_number tx) (t_txid tx)) l claims)).
      { induction l as [|t l IH]; intros claims; [reflexivity|]. cbn [scan negb andb fold_left]. apply IH. }
      rewrite Hscan. f_equal. apply (track_all m (t_number tx) (t_txid tx) sec Hsec).
      intros t t' op Ht Ht' Hop. unfold S' in *. apply filter_In in Ht. apply filter_In in Ht'.
      apply (Hind t t' op); tauto.
    - left. exact HC.
    - intros x [<-|[]]. rewrite HC. exact HU.
    - exact HSU.
    - exact Hun.
  Qed.
End Block.

(** ** Everything together: any revoked commitment of any history *)
Section Together.
  Variable H : bytes -> bytes.
  Variable seed : bytes.
  Variable commit : nat -> ccommit.
  Hypothesis txid_inj : forall i j : nat, cc_txid (commit i) = cc_txid (commit j) -> i = j.

  Theorem all_outputs_claimed (n j : nat) (tx : ctx) : Z.of_nat n <= 2 ^ 48 -> (j < n)%nat ->
    t_txid tx = cc_txid (commit j) -> t_number tx = FIRSTN - Z.of_nat j ->
    htlcs_match (t_outs tx) (cc_htlcs (commit j)) ->
    exists m, apply_all H mon_init (history H seed commit n) = Some m /\
      justice H m tx = revokeable_outs (t_txid tx) (t_number tx) 0 (t_outs tx)
                       ++ map (pair (t_txid tx)) (htlc_idxs (cc_htlcs (commit j))).
  Proof.
    intros Hn Hj Ht Hk Hm.
    destruct (memory_suffices H seed commit txid_inj n Hn) as (m & Hmon & Hmin & Hall).
    destruct (Hall j Hj) as [Hsec Hcl]. exists m. split; [exact Hmon|].
    rewrite (justice_claims H m tx (map drop_src (cc_htlcs (commit j)))
               (build_commitment_secret H seed (FIRSTN - Z.of_nat j))).
    - rewrite htlc_idxs_drop_src. reflexivity.
    - rewrite Hmin, Hk. unfold FIRSTN. lia.
    - rewrite Hk. exact Hsec.
    - rewrite Ht. exact Hcl.
    - apply htlcs_match_drop_src. exact Hm.
  Qed.
End Together.
