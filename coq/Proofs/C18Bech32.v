(** C18, BOLT 11 part 1: the bech32 checksum detects every single-symbol substitution in strings of
    any length; 8<->5 bit regrouping round trip.  Lemmas only; statements are in Props/C18.v. *)
Require Import LdkV.Prim.U64 LdkV.Model.Bech32.
Open Scope Z_scope.

(** * Small finite-range tooling *)

Definition zrange (n : nat) : list Z := map Z.of_nat (seq 0 n).

Lemma in_zrange n x : 0 <= x < Z.of_nat n -> In x (zrange n).
Proof.
  intros Hx. unfold zrange. apply in_map_iff. exists (Z.to_nat x). split; [lia|].
  apply in_seq. lia.
Qed.

Lemma forallb_zrange n (p : Z -> bool) :
  forallb p (zrange n) = true -> forall x, 0 <= x < Z.of_nat n -> p x = true.
Proof. intros Hf x Hx. rewrite forallb_forall in Hf. apply Hf, in_zrange, Hx. Qed.

(** * Bit-level facts *)

Lemma lxor_cancel_l a x y : Z.lxor a x = Z.lxor a y -> x = y.
Proof.
  intros Hxy. apply (f_equal (Z.lxor a)) in Hxy.
  rewrite <- !Z.lxor_assoc, Z.lxor_nilpotent, !Z.lxor_0_l in Hxy. exact Hxy.
Qed.

Lemma lxor_cancel_r a x y : Z.lxor x a = Z.lxor y a -> x = y.
Proof. rewrite (Z.lxor_comm x), (Z.lxor_comm y). apply lxor_cancel_l. Qed.

Lemma lxor_bound n a b : 0 <= n -> 0 <= a < 2 ^ n -> 0 <= b < 2 ^ n -> 0 <= Z.lxor a b < 2 ^ n.
Proof.
  intros Hn Ha Hb.
  assert (Hnn : 0 <= Z.lxor a b) by (apply Z.lxor_nonneg; lia).
  split; [exact Hnn|].
  destruct (Z.eq_dec (Z.lxor a b) 0) as [E|E]; [rewrite E; apply Z.pow_pos_nonneg; lia|].
  assert (Hn0 : 0 < n).
  { destruct (Z.eq_dec n 0) as [En|En]; [|lia]. subst n. change (2 ^ 0) with 1 in *.
    assert (a = 0) by lia. assert (b = 0) by lia. subst. now rewrite Z.lxor_0_l in E. }
  apply Z.log2_lt_pow2; [lia|].
  eapply Z.le_lt_trans; [apply Z.log2_lxor; lia|].
  apply Z.max_lub_lt.
  - destruct (Z.eq_dec a 0) as [Ea|Ea]; [subst; exact Hn0|]. apply Z.log2_lt_pow2; lia.
  - destruct (Z.eq_dec b 0) as [Eb|Eb]; [subst; exact Hn0|]. apply Z.log2_lt_pow2; lia.
Qed.

Lemma land_shift_low x e : 0 <= e < 32 -> Z.land (x * 32) e = 0.
Proof.
  intros He. apply Z.bits_inj'. intros n Hn. rewrite Z.land_spec, Z.bits_0.
  destruct (Z.lt_ge_cases n 5) as [Hlt|Hge].
  - change 32 with (2 ^ 5). rewrite Z.mul_pow2_bits_low by lia. reflexivity.
  - replace e with (e mod 2 ^ 5) by (apply Z.mod_small; change (2 ^ 5) with 32; lia).
    rewrite Z.mod_pow2_bits_high by lia. apply andb_false_r.
Qed.

Lemma lor_shift_add x e : 0 <= e < 32 -> Z.lor (x * 32) e = x * 32 + e.
Proof.
  intros He. pose proof (land_shift_low x e He) as Hd.
  rewrite <- (Z.lxor_lor _ _ Hd). symmetry. apply Z.add_nocarry_lxor, Hd.
Qed.

Lemma land_lxor_distr_l a b c : Z.land (Z.lxor a b) c = Z.lxor (Z.land a c) (Z.land b c).
Proof.
  apply Z.bits_inj'. intros n Hn. rewrite !Z.land_spec, !Z.lxor_spec, !Z.land_spec.
  destruct (Z.testbit a n), (Z.testbit b n), (Z.testbit c n); reflexivity.
Qed.

Lemma mod32_lxor a b : (Z.lxor a b) mod 32 = Z.lxor (a mod 32) (b mod 32).
Proof.
  change 32 with (2 ^ 5). rewrite <- !Z.land_ones by lia. apply land_lxor_distr_l.
Qed.

(** * The generator selection: finite tables *)

Lemma gen_sel_range t : 0 <= t < 32 -> 0 <= gen_sel t < 1073741824.
Proof.
  intros Ht.
  assert (Hb : forallb (fun t => (0 <=? gen_sel t) && (gen_sel t <? 1073741824)) (zrange 32) = true)
    by (vm_compute; reflexivity).
  pose proof (forallb_zrange 32 _ Hb t Ht) as Hx. cbv beta in Hx. lia.
Qed.

Lemma gen_sel_low5_inj t1 t2 :
  0 <= t1 < 32 -> 0 <= t2 < 32 -> gen_sel t1 mod 32 = gen_sel t2 mod 32 -> t1 = t2.
Proof.
  intros H1 H2 He.
  assert (Hb : forallb (fun a => forallb (fun b =>
            negb (gen_sel a mod 32 =? gen_sel b mod 32) || (a =? b)) (zrange 32)) (zrange 32) = true)
    by (vm_compute; reflexivity).
  pose proof (forallb_zrange 32 _ Hb t1 H1) as Hx. cbv beta in Hx.
  pose proof (forallb_zrange 32 _ Hx t2 H2) as Hy. cbv beta in Hy.
  apply Z.eqb_eq in He. rewrite He in Hy. cbn [negb orb] in Hy. lia.
Qed.

(** * One engine step in arithmetic form *)

Definition st_ok (r : Z) : Prop := 0 <= r < 1073741824.
Definition fe_in (e : Z) : Prop := 0 <= e < 32.

Lemma fe_ok_iff e : fe_ok e = true <-> fe_in e.
Proof. unfold fe_ok, fe_in. lia. Qed.

Lemma step_arith r e : st_ok r -> fe_in e ->
  polymod_step r e = Z.lxor ((r mod 33554432) * 32 + e) (gen_sel (r / 33554432)).
Proof.
  unfold st_ok, fe_in, polymod_step. intros Hr He. cbv zeta.
  rewrite Z.shiftr_div_pow2 by lia. change (2 ^ 25) with 33554432.
  change 31 with (Z.ones 5). rewrite Z.land_ones by lia. change (2 ^ 5) with 32.
  rewrite (Z.mod_small (r / 33554432) 32) by lia.
  change 33554431 with (Z.ones 25). rewrite Z.land_ones by lia. change (2 ^ 25) with 33554432.
  rewrite Z.shiftl_mul_pow2 by lia. change (2 ^ 5) with 32.
  rewrite lor_shift_add by lia. reflexivity.
Qed.

Lemma step_ok r e : st_ok r -> fe_in e -> st_ok (polymod_step r e).
Proof.
  intros Hr He. rewrite step_arith by assumption. unfold st_ok, fe_in in *.
  change 1073741824 with (2 ^ 30). apply lxor_bound; [lia| |].
  - change (2 ^ 30) with 1073741824. lia.
  - change (2 ^ 30) with 1073741824. apply gen_sel_range. lia.
Qed.

Lemma step_low5 r e : st_ok r -> fe_in e ->
  polymod_step r e mod 32 = Z.lxor e (gen_sel (r / 33554432) mod 32).
Proof.
  intros Hr He. rewrite step_arith by assumption. rewrite mod32_lxor. f_equal.
  unfold fe_in in He. lia.
Qed.

(** The step is injective in the running residue ... *)
Lemma step_inj_state r1 r2 e : st_ok r1 -> st_ok r2 -> fe_in e ->
  polymod_step r1 e = polymod_step r2 e -> r1 = r2.
Proof.
  intros H1 H2 He Heq.
  assert (Ht : r1 / 33554432 = r2 / 33554432).
  { apply gen_sel_low5_inj; [unfold st_ok in *; lia | unfold st_ok in *; lia|].
    pose proof (f_equal (fun x => x mod 32) Heq) as Hm. cbv beta in Hm.
    rewrite !step_low5 in Hm by assumption. apply lxor_cancel_l in Hm. exact Hm. }
  rewrite !step_arith in Heq by assumption. rewrite Ht in Heq. apply lxor_cancel_r in Heq.
  unfold st_ok, fe_in in *. lia.
Qed.

(** ... and in the symbol fed. *)
Lemma step_inj_fe r e1 e2 : st_ok r -> fe_in e1 -> fe_in e2 ->
  polymod_step r e1 = polymod_step r e2 -> e1 = e2.
Proof.
  intros Hr H1 H2 Heq. rewrite !step_arith in Heq by assumption. apply lxor_cancel_r in Heq. lia.
Qed.

(** * Folding over symbol lists of any length *)

Definition fes_in (l : list Z) : Prop := Forall fe_in l.

Lemma forallb_fes_in l : forallb fe_ok l = true <-> fes_in l.
Proof.
  unfold fes_in. rewrite forallb_forall, Forall_forall. split; intros Hx x Hi.
  - apply fe_ok_iff, Hx, Hi.
  - apply fe_ok_iff, Hx, Hi.
Qed.

Lemma polymod_from_ok l : forall r, st_ok r -> fes_in l -> st_ok (polymod_from r l).
Proof.
  unfold polymod_from. induction l as [|e l IH]; intros r Hr Hl; cbn [fold_left]; [exact Hr|].
  inversion Hl; subst. apply IH; [apply step_ok; assumption | assumption].
Qed.

Lemma polymod_from_inj l : forall r1 r2, st_ok r1 -> st_ok r2 -> fes_in l ->
  polymod_from r1 l = polymod_from r2 l -> r1 = r2.
Proof.
  unfold polymod_from. induction l as [|e l IH]; intros r1 r2 H1 H2 Hl Heq; cbn [fold_left] in Heq; [exact Heq|].
  inversion Hl; subst. apply IH in Heq; [| apply step_ok; assumption | apply step_ok; assumption | assumption].
  eapply step_inj_state; eassumption.
Qed.

Lemma polymod_from_app r l1 l2 : polymod_from r (l1 ++ l2) = polymod_from (polymod_from r l1) l2.
Proof. unfold polymod_from. apply fold_left_app. Qed.

Lemma st_ok_1 : st_ok 1.
Proof. unfold st_ok. lia. Qed.

(** Replacing exactly one symbol, anywhere, in a sequence of any length changes the residue. *)
Lemma polymod_single_substitution pre a b post :
  fes_in pre -> fe_in a -> fe_in b -> fes_in post ->
  polymod (pre ++ a :: post) = polymod (pre ++ b :: post) -> a = b.
Proof.
  intros Hpre Ha Hb Hpost Heq. unfold polymod in Heq.
  rewrite !polymod_from_app in Heq.
  pose proof (polymod_from_ok pre 1 st_ok_1 Hpre) as Hs.
  change (polymod_from ?r (?x :: post)) with (polymod_from (polymod_step r x) post) in Heq.
  apply polymod_from_inj in Heq; [| apply step_ok; assumption | apply step_ok; assumption | assumption].
  eapply step_inj_fe; eassumption.
Qed.

(** * The human-readable part *)

Definition hrp_chars_ok (h : list Z) : bool := forallb (fun c => (33 <=? c) && (c <=? 126)) h.

Lemma to_lower_range c : 33 <= c <= 126 -> 33 <= to_lower c <= 126.
Proof. unfold to_lower, is_upper. intros Hc. destruct ((65 <=? c) && (c <=? 90)) eqn:E; lia. Qed.

Lemma hrp_expand_in h : hrp_chars_ok h = true -> fes_in (hrp_expand h).
Proof.
  unfold hrp_chars_ok, hrp_expand, fes_in. intros Hh. rewrite forallb_forall in Hh.
  apply Forall_app. split; [|apply Forall_app; split].
  - apply Forall_forall. intros x Hx. apply in_map_iff in Hx. destruct Hx as [c [Hc Hi]]. subst x.
    pose proof (Hh c Hi) as Hr. pose proof (to_lower_range c ltac:(lia)) as Hl.
    unfold fe_in. rewrite Z.shiftr_div_pow2 by lia. change (2 ^ 5) with 32. lia.
  - constructor; [unfold fe_in; lia | constructor].
  - apply Forall_forall. intros x Hx. apply in_map_iff in Hx. destruct Hx as [c [Hc Hi]]. subst x.
    unfold fe_in. change 31 with (Z.ones 5). rewrite Z.land_ones by lia. change (2 ^ 5) with 32. lia.
Qed.

Lemma hrp_scan_chars h : forall up lo, hrp_scan h up lo = ROk tt -> hrp_chars_ok h = true.
Proof.
  induction h as [|c h IH]; intros up lo Hs; [reflexivity|].
  cbn [hrp_scan] in Hs. cbn [hrp_chars_ok forallb].
  destruct ((0 <=? c) && (c <? 128)) eqn:E1; cbn [negb] in Hs; [|discriminate].
  destruct ((33 <=? c) && (c <=? 126)) eqn:E2; cbn [negb] in Hs; [|discriminate].
  cbn [andb]. fold (hrp_chars_ok h).
  destruct (is_lower c).
  - destruct up; [discriminate|]. eapply IH; eassumption.
  - destruct (is_upper c).
    + destruct lo; [discriminate|]. eapply IH; eassumption.
    + eapply IH; eassumption.
Qed.

Lemma hrp_parse_chars h : hrp_parse h = ROk tt -> hrp_chars_ok h = true.
Proof.
  unfold hrp_parse. destruct h as [|c h]; [discriminate|].
  destruct (83 <? str_len (c :: h)); [discriminate|]. apply hrp_scan_chars.
Qed.

(** * The statement used in Props: a valid checksummed symbol string with one data-part symbol
    (payload or checksum symbol) replaced by a different one is never valid. *)
Lemma checksum_single_error h pre a b post :
  hrp_chars_ok h = true ->
  forallb fe_ok (pre ++ a :: post) = true -> fe_ok b = true -> a <> b ->
  verify_checksum h (pre ++ a :: post) = true ->
  verify_checksum h (pre ++ b :: post) = false.
Proof.
  intros Hh Hall Hb Hne Hv.
  apply forallb_fes_in in Hall. unfold fes_in in Hall. apply Forall_app in Hall. destruct Hall as [Hpre Hap].
  inversion Hap as [|? ? Ha Hpost]; subst.
  unfold verify_checksum in *. apply Z.eqb_eq in Hv. apply Z.eqb_neq. intros Hv'.
  apply Hne. rewrite <- Hv' in Hv. rewrite !app_assoc in Hv.
  eapply polymod_single_substitution; [ | exact Ha | apply fe_ok_iff; exact Hb | exact Hpost | exact Hv].
  apply Forall_app. split; [apply hrp_expand_in, Hh | exact Hpre].
Qed.

(** * GF(2)-linearity of the engine step (jointly in residue and symbol) *)

Lemma gen_sel_lxor t1 t2 : 0 <= t1 < 32 -> 0 <= t2 < 32 ->
  gen_sel (Z.lxor t1 t2) = Z.lxor (gen_sel t1) (gen_sel t2).
Proof.
  intros H1 H2.
  assert (Hb : forallb (fun a => forallb (fun b =>
            gen_sel (Z.lxor a b) =? Z.lxor (gen_sel a) (gen_sel b)) (zrange 32)) (zrange 32) = true)
    by (vm_compute; reflexivity).
  pose proof (forallb_zrange 32 _ Hb t1 H1) as Hx. cbv beta in Hx.
  pose proof (forallb_zrange 32 _ Hx t2 H2) as Hy. cbv beta in Hy. lia.
Qed.

Lemma step_xor r e : st_ok r -> fe_in e ->
  polymod_step r e =
  Z.lxor (Z.lxor (Z.shiftl (Z.land r 33554431) 5) e) (gen_sel (Z.shiftr r 25)).
Proof.
  unfold st_ok, fe_in, polymod_step. intros Hr He. cbv zeta.
  assert (Ht : Z.land (Z.shiftr r 25) 31 = Z.shiftr r 25).
  { rewrite Z.shiftr_div_pow2 by lia. change (2 ^ 25) with 33554432.
    change 31 with (Z.ones 5). rewrite Z.land_ones by lia. change (2 ^ 5) with 32.
    apply Z.mod_small. lia. }
  rewrite Ht. f_equal.
  rewrite Z.shiftl_mul_pow2 by lia. change (2 ^ 5) with 32.
  symmetry. apply Z.lxor_lor, land_shift_low. lia.
Qed.

Lemma shiftr25_range r : st_ok r -> 0 <= Z.shiftr r 25 < 32.
Proof. unfold st_ok. intros Hr. rewrite Z.shiftr_div_pow2 by lia. change (2 ^ 25) with 33554432. lia. Qed.

Lemma st_ok_lxor r1 r2 : st_ok r1 -> st_ok r2 -> st_ok (Z.lxor r1 r2).
Proof. unfold st_ok. change 1073741824 with (2 ^ 30). apply lxor_bound. lia. Qed.

Lemma fe_in_lxor e1 e2 : fe_in e1 -> fe_in e2 -> fe_in (Z.lxor e1 e2).
Proof. unfold fe_in. change 32 with (2 ^ 5). apply lxor_bound. lia. Qed.

Lemma lxor_shuffle a1 a2 e1 e2 g1 g2 :
  Z.lxor (Z.lxor (Z.lxor a1 a2) (Z.lxor e1 e2)) (Z.lxor g1 g2) =
  Z.lxor (Z.lxor (Z.lxor a1 e1) g1) (Z.lxor (Z.lxor a2 e2) g2).
Proof.
  apply Z.bits_inj'. intros n Hn. rewrite !Z.lxor_spec.
  destruct (Z.testbit a1 n), (Z.testbit a2 n), (Z.testbit e1 n), (Z.testbit e2 n),
           (Z.testbit g1 n), (Z.testbit g2 n); reflexivity.
Qed.

Lemma step_lin r1 r2 e1 e2 : st_ok r1 -> st_ok r2 -> fe_in e1 -> fe_in e2 ->
  polymod_step (Z.lxor r1 r2) (Z.lxor e1 e2) = Z.lxor (polymod_step r1 e1) (polymod_step r2 e2).
Proof.
  intros H1 H2 He1 He2.
  rewrite (step_xor (Z.lxor r1 r2)) by (try apply st_ok_lxor; try apply fe_in_lxor; assumption).
  rewrite (step_xor r1), (step_xor r2) by assumption.
  rewrite land_lxor_distr_l, Z.shiftl_lxor, Z.shiftr_lxor.
  rewrite gen_sel_lxor by (apply shiftr25_range; assumption).
  apply lxor_shuffle.
Qed.

Lemma step_0_e e : fe_in e -> polymod_step 0 e = e.
Proof.
  intros He. rewrite step_arith; [|unfold st_ok; lia|exact He].
  change (0 mod 33554432) with 0. change (0 / 33554432) with 0. change (gen_sel 0) with 0.
  rewrite Z.lxor_0_r. lia.
Qed.

(** The homogeneous part: how a residue difference evolves under identical input symbols. *)
Definition lin (d : Z) : Z := polymod_step d 0.
Fixpoint lin_iter (n : nat) (d : Z) : Z := match n with O => d | S k => lin_iter k (lin d) end.

Lemma fe_in_0 : fe_in 0. Proof. unfold fe_in. lia. Qed.

Lemma step_diff r1 r2 e : st_ok r1 -> st_ok r2 -> fe_in e ->
  Z.lxor (polymod_step r1 e) (polymod_step r2 e) = lin (Z.lxor r1 r2).
Proof.
  intros H1 H2 He. unfold lin. rewrite <- (Z.lxor_nilpotent e). symmetry. apply step_lin; assumption.
Qed.

Lemma step_diff2 r1 r2 e1 e2 : st_ok r1 -> st_ok r2 -> fe_in e1 -> fe_in e2 ->
  Z.lxor (polymod_step r1 e1) (polymod_step r2 e2) = Z.lxor (lin (Z.lxor r1 r2)) (Z.lxor e1 e2).
Proof.
  intros H1 H2 He1 He2. rewrite <- step_lin by assumption.
  unfold lin.
  replace (Z.lxor e1 e2) with (Z.lxor 0 (Z.lxor e1 e2)) at 1 by apply Z.lxor_0_l.
  rewrite <- (Z.lxor_0_r (Z.lxor r1 r2)) at 1.
  rewrite step_lin; [| apply st_ok_lxor; assumption | unfold st_ok; lia | apply fe_in_0 | apply fe_in_lxor; assumption].
  rewrite step_0_e by (apply fe_in_lxor; assumption). reflexivity.
Qed.

Lemma lin_ok d : st_ok d -> st_ok (lin d).
Proof. intros Hd. apply step_ok; [exact Hd | apply fe_in_0]. Qed.

Lemma polymod_from_diff l : forall r1 r2, st_ok r1 -> st_ok r2 -> fes_in l ->
  Z.lxor (polymod_from r1 l) (polymod_from r2 l) = lin_iter (List.length l) (Z.lxor r1 r2).
Proof.
  unfold polymod_from. induction l as [|e l IH]; intros r1 r2 H1 H2 Hl; cbn [fold_left List.length lin_iter]; [reflexivity|].
  inversion Hl; subst. rewrite IH by (try apply step_ok; assumption).
  rewrite step_diff by assumption. reflexivity.
Qed.

(** ** Two substitutions at distance [d <= 84] (what one changed hrp character causes) *)

Definition te_inner (e1 d : Z) : bool := 32 <=? lin_iter (S (Z.to_nat d)) (e1 + 1).
Definition te_row (e1 : Z) : bool := forallb (te_inner e1) (zrange 84).

Lemma two_err_table_ok : forallb te_row (zrange 31) = true.
Proof. vm_compute. reflexivity. Qed.

Lemma te_row_unfold e1 : te_row e1 = forallb (te_inner e1) (zrange 84).
Proof. reflexivity. Qed.

Lemma lin_iter_snoc n d : lin_iter (S n) d = lin (lin_iter n d).
Proof. revert d. induction n as [|n IH]; intros d; [reflexivity|]. cbn [lin_iter] in *. apply IH. Qed.

Lemma two_err e1 d : 1 <= e1 < 32 -> (1 <= d <= 84)%nat -> 32 <= lin_iter d e1.
Proof.
  intros He Hd.
  assert (Hx : te_row (e1 - 1) = true).
  { apply (forallb_zrange 31 te_row two_err_table_ok). lia. }
  assert (Hy : te_inner (e1 - 1) (Z.of_nat d - 1) = true).
  { rewrite te_row_unfold in Hx. apply (forallb_zrange 84 (te_inner (e1 - 1)) Hx). lia. }
  unfold te_inner in Hy.
  replace (e1 - 1 + 1) with e1 in Hy by lia.
  replace (S (Z.to_nat (Z.of_nat d - 1))) with d in Hy by lia. lia.
Qed.

Lemma lxor_eq_0 a b : Z.lxor a b = 0 -> a = b.
Proof. apply Z.lxor_eq. Qed.

Lemma polymod_double_substitution pre a1 b1 mid a2 b2 post :
  fes_in pre -> fe_in a1 -> fe_in b1 -> fes_in mid -> fe_in a2 -> fe_in b2 -> fes_in post ->
  (List.length mid < 84)%nat -> a1 <> b1 ->
  polymod (pre ++ a1 :: mid ++ a2 :: post) <> polymod (pre ++ b1 :: mid ++ b2 :: post).
Proof.
  intros Hpre Ha1 Hb1 Hmid Ha2 Hb2 Hpost Hlen Hne Heq. unfold polymod in Heq.
  rewrite !polymod_from_app in Heq.
  pose proof (polymod_from_ok pre 1 st_ok_1 Hpre) as Hs. set (s := polymod_from 1 pre) in *.
  change (polymod_from s (?x :: ?l)) with (polymod_from (polymod_step s x) l) in Heq.
  rewrite !polymod_from_app in Heq.
  set (sa := polymod_step s a1) in *. set (sb := polymod_step s b1) in *.
  assert (Hsa : st_ok sa) by (apply step_ok; assumption).
  assert (Hsb : st_ok sb) by (apply step_ok; assumption).
  pose proof (polymod_from_ok mid sa Hsa Hmid) as Hma.
  pose proof (polymod_from_ok mid sb Hsb Hmid) as Hmb.
  change (polymod_from ?r (?x :: post)) with (polymod_from (polymod_step r x) post) in Heq.
  apply polymod_from_inj in Heq; [| apply step_ok; assumption | apply step_ok; assumption | assumption].
  assert (Hd : Z.lxor (polymod_step (polymod_from sa mid) a2) (polymod_step (polymod_from sb mid) b2) = 0)
    by (rewrite Heq; apply Z.lxor_nilpotent).
  rewrite step_diff2 in Hd by assumption.
  rewrite polymod_from_diff in Hd by assumption.
  assert (Hab : Z.lxor sa sb = Z.lxor a1 b1).
  { unfold sa, sb. rewrite step_diff2 by assumption. rewrite Z.lxor_nilpotent.
    unfold lin. rewrite step_0_e by apply fe_in_0. apply Z.lxor_0_l. }
  rewrite Hab in Hd. rewrite <- lin_iter_snoc in Hd.
  apply lxor_eq_0 in Hd.
  pose proof (fe_in_lxor a1 b1 Ha1 Hb1) as He1. pose proof (fe_in_lxor a2 b2 Ha2 Hb2) as He2.
  assert (Hnz : Z.lxor a1 b1 <> 0) by (intros Hz; apply Hne, lxor_eq_0, Hz).
  pose proof (two_err (Z.lxor a1 b1) (S (List.length mid)) ltac:(unfold fe_in in *; lia) ltac:(lia)) as Hge.
  unfold fe_in in *. lia.
Qed.

(** One changed hrp character (anything [Hrp::parse] accepts, not merely a case variant). *)
Lemma checksum_hrp_char hp c c' hs data :
  hrp_chars_ok (hp ++ c :: hs) = true -> (33 <=? c') && (c' <=? 126) = true ->
  (List.length (hp ++ c :: hs) <= 83)%nat ->
  to_lower c <> to_lower c' -> forallb fe_ok data = true ->
  verify_checksum (hp ++ c :: hs) data = true ->
  verify_checksum (hp ++ c' :: hs) data = false.
Proof.
  intros Hh Hc' Hlen Hne Hdata Hv.
  assert (Hh' : hrp_chars_ok (hp ++ c' :: hs) = true).
  { unfold hrp_chars_ok in *. rewrite forallb_app in *. cbn [forallb] in *.
    apply andb_true_iff in Hh. destruct Hh as [H1 H2]. apply andb_true_iff in H2. destruct H2 as [_ H3].
    rewrite H1, Hc', H3. reflexivity. }
  apply forallb_fes_in in Hdata.
  pose proof (hrp_expand_in _ Hh) as He. pose proof (hrp_expand_in _ Hh') as He'.
  unfold verify_checksum in *. apply Z.eqb_eq in Hv. apply Z.eqb_neq. rewrite <- Hv. clear Hv.
  unfold hrp_expand in *.
  set (hi := fun c0 : Z => Z.shiftr (to_lower c0) 5) in *.
  set (lo := fun c0 : Z => Z.land (to_lower c0) 31) in *.
  rewrite !map_app in *. cbn [map] in *.
  unfold fes_in in He, He'.
  repeat (rewrite ?Forall_app in He; rewrite ?Forall_app in He').
  destruct He as [[Hhp Hhic] [_ [Hlp Hloc]]]. destruct He' as [[_ Hhic'] [_ [_ Hloc']]].
  inversion Hhic as [|? ? Hhc Hhs]; subst. inversion Hloc as [|? ? Hlc Hls]; subst.
  inversion Hhic' as [|? ? Hhc' _]; subst. inversion Hloc' as [|? ? Hlc' _]; subst.
  repeat rewrite <- app_assoc. cbn [app].
  intros Heq. symmetry in Heq. revert Heq.
  destruct (Z.eq_dec (hi c) (hi c')) as [Ehi|Ehi].
  - (* same high bits: the low bits differ, one substitution *)
    rewrite <- Ehi. intros Heq.
    assert (Hlo : lo c = lo c').
    { replace (map hi hp ++ hi c :: map hi hs ++ 0 :: map lo hp ++ lo c :: map lo hs ++ data)
        with ((map hi hp ++ hi c :: map hi hs ++ 0 :: map lo hp) ++ lo c :: (map lo hs ++ data)) in Heq
        by (repeat (rewrite <- app_assoc; cbn [app]); reflexivity).
      replace (map hi hp ++ hi c :: map hi hs ++ 0 :: map lo hp ++ lo c' :: map lo hs ++ data)
        with ((map hi hp ++ hi c :: map hi hs ++ 0 :: map lo hp) ++ lo c' :: (map lo hs ++ data)) in Heq
        by (repeat (rewrite <- app_assoc; cbn [app]); reflexivity).
      eapply polymod_single_substitution; [ | exact Hlc | exact Hlc' | | exact Heq].
      - unfold fes_in. apply Forall_app; split; [exact Hhp|]. constructor; [exact Hhc|].
        apply Forall_app; split; [exact Hhs|]. constructor; [apply fe_in_0 | exact Hlp].
      - unfold fes_in. apply Forall_app; split; [exact Hls | exact Hdata]. }
    apply Hne. unfold hi, lo in *.
    pose proof (Z.div_mod (to_lower c) 32 ltac:(lia)) as D1.
    pose proof (Z.div_mod (to_lower c') 32 ltac:(lia)) as D2.
    rewrite !Z.shiftr_div_pow2 in Ehi by lia. change (2 ^ 5) with 32 in Ehi.
    change 31 with (Z.ones 5) in Hlo. rewrite !Z.land_ones in Hlo by lia. change (2 ^ 5) with 32 in Hlo.
    lia.
  - intros Heq.
    replace (map hi hp ++ hi c :: map hi hs ++ 0 :: map lo hp ++ lo c :: map lo hs ++ data)
      with (map hi hp ++ hi c :: (map hi hs ++ 0 :: map lo hp) ++ lo c :: (map lo hs ++ data)) in Heq
      by (repeat (rewrite <- app_assoc; cbn [app]); reflexivity).
    replace (map hi hp ++ hi c' :: map hi hs ++ 0 :: map lo hp ++ lo c' :: map lo hs ++ data)
      with (map hi hp ++ hi c' :: (map hi hs ++ 0 :: map lo hp) ++ lo c' :: (map lo hs ++ data)) in Heq
      by (repeat (rewrite <- app_assoc; cbn [app]); reflexivity).
    revert Heq. apply polymod_double_substitution; try assumption.
    + unfold fes_in. apply Forall_app; split; [exact Hhs|]. constructor; [apply fe_in_0 | exact Hlp].
    + unfold fes_in. apply Forall_app; split; [exact Hls | exact Hdata].
    + rewrite !app_length in *. cbn [List.length] in *. rewrite !map_length. lia.
Qed.

(** * Checksum creation followed by verification *)

Lemma step_small r e : 0 <= r < 33554432 -> fe_in e -> polymod_step r e = r * 32 + e.
Proof.
  intros Hr He. rewrite step_arith; [|unfold st_ok; lia|exact He].
  rewrite (Z.mod_small r) by lia. rewrite (Z.div_small r) by lia.
  change (gen_sel 0) with 0. apply Z.lxor_0_r.
Qed.

Definition pack6 (s5 s4 s3 s2 s1 s0 : Z) : Z :=
  ((((s5 * 32 + s4) * 32 + s3) * 32 + s2) * 32 + s1) * 32 + s0.

Lemma polymod_from_0_six s5 s4 s3 s2 s1 s0 :
  fe_in s5 -> fe_in s4 -> fe_in s3 -> fe_in s2 -> fe_in s1 -> fe_in s0 ->
  polymod_from 0 [s5; s4; s3; s2; s1; s0] = pack6 s5 s4 s3 s2 s1 s0.
Proof.
  intros H5 H4 H3 H2 H1 H0. unfold polymod_from, pack6. cbn [fold_left]. unfold fe_in in *.
  rewrite (step_small 0 s5) by (unfold fe_in; lia). rewrite Z.mul_0_l, Z.add_0_l.
  rewrite (step_small s5 s4) by (unfold fe_in; lia).
  rewrite (step_small _ s3) by (unfold fe_in; lia).
  rewrite (step_small _ s2) by (unfold fe_in; lia).
  rewrite (step_small _ s1) by (unfold fe_in; lia).
  rewrite (step_small _ s0) by (unfold fe_in; lia).
  reflexivity.
Qed.

Lemma polymod_from_six_split r s5 s4 s3 s2 s1 s0 : st_ok r ->
  fe_in s5 -> fe_in s4 -> fe_in s3 -> fe_in s2 -> fe_in s1 -> fe_in s0 ->
  polymod_from r [s5; s4; s3; s2; s1; s0] =
  Z.lxor (polymod_from r [0; 0; 0; 0; 0; 0]) (pack6 s5 s4 s3 s2 s1 s0).
Proof.
  intros Hr H5 H4 H3 H2 H1 H0.
  rewrite <- polymod_from_0_six by assumption.
  unfold polymod_from. cbn [fold_left].
  pose proof fe_in_0 as Z0. assert (S0 : st_ok 0) by (unfold st_ok; lia).
  repeat (rewrite <- step_lin; [| repeat apply step_ok; assumption | repeat apply step_ok; assumption | assumption | assumption]).
  rewrite Z.lxor_0_r, !Z.lxor_0_l. reflexivity.
Qed.

Lemma unpack_pack r : st_ok r ->
  pack6 (unpack r 5) (unpack r 4) (unpack r 3) (unpack r 2) (unpack r 1) (unpack r 0) = r.
Proof.
  unfold st_ok, pack6, unpack. intros Hr.
  change 31 with (Z.ones 5). rewrite !Z.land_ones by lia. rewrite !Z.shiftr_div_pow2 by lia.
  change (2 ^ (5 * 5)) with 33554432. change (2 ^ (4 * 5)) with 1048576. change (2 ^ (3 * 5)) with 32768.
  change (2 ^ (2 * 5)) with 1024. change (2 ^ (1 * 5)) with 32. change (2 ^ (0 * 5)) with 1. change (2 ^ 5) with 32.
  lia.
Qed.

Lemma unpack_in r n : 0 <= r -> 0 <= n -> fe_in (unpack r n).
Proof.
  intros Hr Hn. unfold unpack, fe_in. change 31 with (Z.ones 5). rewrite Z.land_ones by lia.
  change (2 ^ 5) with 32. pose proof (Z.mod_pos_bound (Z.shiftr r (n * 5)) 32). lia.
Qed.

Lemma create_checksum_in h data : hrp_chars_ok h = true -> forallb fe_ok data = true ->
  forallb fe_ok (create_checksum h data) = true /\ List.length (create_checksum h data) = 6%nat.
Proof.
  intros Hh Hd. split; [|reflexivity].
  apply forallb_fes_in. unfold create_checksum. cbv zeta.
  set (r := polymod_from _ target_fes).
  assert (Hr : st_ok r).
  { unfold r. apply polymod_from_ok.
    - apply polymod_from_ok; [apply st_ok_1|]. apply Forall_app. split; [apply hrp_expand_in, Hh | apply forallb_fes_in, Hd].
    - apply forallb_fes_in. reflexivity. }
  unfold fes_in. cbn [map]. unfold st_ok in Hr. repeat constructor; apply unpack_in; lia.
Qed.

Lemma checksum_roundtrip h data : hrp_chars_ok h = true -> forallb fe_ok data = true ->
  verify_checksum h (data ++ create_checksum h data) = true.
Proof.
  intros Hh Hd. unfold verify_checksum, create_checksum. cbv zeta.
  apply Z.eqb_eq. unfold polymod at 1. rewrite app_assoc, polymod_from_app.
  fold (polymod (hrp_expand h ++ data)).
  set (s := polymod (hrp_expand h ++ data)).
  assert (Hs : st_ok s).
  { unfold s, polymod. apply polymod_from_ok; [apply st_ok_1|]. apply Forall_app. split; [apply hrp_expand_in, Hh | apply forallb_fes_in, Hd]. }
  change target_fes with [0; 0; 0; 0; 0; 1].
  set (r := polymod_from s [0; 0; 0; 0; 0; 1]).
  assert (Hr : st_ok r).
  { unfold r. apply polymod_from_ok; [exact Hs|]. apply forallb_fes_in. reflexivity. }
  cbn [map].
  rewrite polymod_from_six_split; try exact Hs; try (apply unpack_in; unfold st_ok in Hr; lia).
  rewrite unpack_pack by exact Hr.
  unfold r. rewrite (polymod_from_six_split s 0 0 0 0 0 1); try exact Hs; try apply fe_in_0; [|unfold fe_in; lia].
  change (pack6 0 0 0 0 0 1) with 1.
  rewrite <- Z.lxor_assoc, Z.lxor_nilpotent, Z.lxor_0_l. reflexivity.
Qed.
