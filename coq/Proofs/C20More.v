(** C20: poll classification, linkage of adopted headers, delivery order of composite listeners,
    start-up synchronisation connects every block (full or header-only) up to the common tip. *)
Require Import LdkV.Prim.U64 LdkV.Model.BlockSync LdkV.Model.BlockSyncSpec LdkV.Model.ChainWalk.
Require Import LdkV.Proofs.C20Tree LdkV.Proofs.C20 LdkV.Proofs.C20Poll LdkV.Proofs.C20Init LdkV.Proofs.C20Fan LdkV.Proofs.C20Walk.
Open Scope Z_scope.
Local Open Scope list_scope.

(** [ChainPoller::poll_chain_tip]: Better iff STRICTLY more chainwork (never height), for any source. *)
Lemma poll_classification : forall T src bk n r n',
  poll_chain_tip T src bk n = (Ok r, n') ->
  match r with
  | Common => True
  | Better t => v_cwork bk < v_cwork t /\ v_hash t <> v_hash bk
  | Worse t => v_cwork t <= v_cwork bk /\ v_hash t <> v_hash bk
  end.
Proof.
  intros T src bk n r n'. unfold poll_chain_tip.
  destruct (o_best src n) as [e|x hint]; [discriminate|].
  destruct (Z.eqb_spec x (v_hash bk)) as [E|Hne]; [intros H; inversion H; exact I|].
  destruct (poller_get_header T src x hint (S n)) as [[tip|e] n1] eqn:G; [|discriminate].
  apply poller_get_header_spec in G. destruct G as (_ & Hh).
  destruct (Z.ltb_spec (v_cwork bk) (v_cwork tip)) as [L|L]; intros H0; inversion H0; subst; split; auto; lia.
Qed.

Lemma adopted_linked : forall T src cl n r cl' log n',
  wf_tree T -> good_client T cl ->
  poll_best_tip T src cl n = (r, cl', log, n') ->
  linked T (cl_tip cl') /\ Forall (linked T) (cl_cache cl') /\
  forall t moved, r = Ok (Better t, moved) ->
    v_cwork (cl_tip cl) < v_cwork t /\ (moved = true -> linked T t).
Proof.
  intros T src cl n r cl' log n' WF G P.
  destruct (notifications_form_chain T src cl n r cl' log n' WF G P) as ((Gt & Gc) & _ & _).
  split; [apply truthful_linked; auto|]. split.
  - eapply Forall_impl; [|exact Gc]. intros v Hv. apply truthful_linked; auto.
  - intros t moved ->. pose proof (more_work_only T src cl n _ cl' log n' WF G P) as M. cbn in M.
    destruct M as (M1 & _ & M3). split; auto. intros Hm. apply truthful_linked; auto. apply M3; auto.
Qed.

(** composite listeners: one notification reaches the leaves left to right, each exactly once *)
Lemma deliver_in_order : forall sh off e,
  deliver_comp sh off e = map (fun i => (i, e)) (seq off (nleaves sh)).
Proof.
  induction sh as [|a IHa b IHb]; intros off e; cbn [deliver_comp nleaves]; [reflexivity|].
  rewrite IHa, IHb, seq_app, map_app. reflexivity.
Qed.

Lemma fan_in_order : forall sh log, fan_trace sh log = flat_map (in_order (nleaves sh)) log.
Proof.
  intros sh log. unfold fan_trace, in_order. induction log as [|e log IH]; [reflexivity|].
  cbn [flat_map]. rewrite IH, deliver_in_order. reflexivity.
Qed.

(** a run of connections walks a path, whatever the full/header-only flags *)
Lemma lrun_conns : forall T p log q, lrun T p log q ->
  forallb (fun e => negb (is_disc e)) log = true ->
  forall nd, T (fst p) = Some nd -> path T (fst p) (fst q) (conn_hashes log).
Proof.
  induction 1 as [p | p e q l r St Run IH]; intros Hc nd Hp.
  - cbn. econstructor; eauto.
  - cbn [forallb] in Hc. apply andb_true_iff in Hc. destruct Hc as (He & Hl).
    inversion St; subst; cbn in He; try discriminate.
    cbn [conn_hashes flat_map app fst] in *. eapply path_cons; eauto.
Qed.

Lemma run_connects_all : forall T a ha log q nd,
  lrun T (a, ha) log q -> one_disc_then_conns log -> T a = Some nd ->
  anc T (fork_of a log) a /\ path T (fork_of a log) (fst q) (conn_hashes log).
Proof.
  intros T a ha log q nd Run (d & cs & E & Hlen & Hd & Hcs) Ha. subst log.
  destruct d as [|e d].
  - cbn [app] in *. assert (F : fork_of a cs = a).
    { destruct cs as [|[f h|b h fl] cs']; cbn in *; auto; discriminate. }
    rewrite F. split; [exists []; econstructor; eauto|].
    apply (lrun_conns T (a, ha) cs q Run Hcs nd Ha).
  - destruct d; [|cbn in Hlen; lia]. cbn [app] in *.
    cbn [forallb] in Hd. destruct e as [f h|b h fl]; [|cbn in Hd; discriminate].
    inversion Run as [|p0 e0 q0 l0 r0 St Run']; subst. inversion St; subst.
    cbn [fork_of conn_hashes flat_map app]. split; [eexists; eauto|].
    match goal with H : T f = Some ?n |- _ => apply (lrun_conns T _ cs q Run' Hcs n H) end.
Qed.

Lemma Forall2_with {A B} (P : A -> Prop) (Q R : A -> B -> Prop) : forall l1 l2,
  Forall P l1 -> Forall2 Q l1 l2 -> (forall x y, P x -> Q x y -> R x y) -> Forall2 R l1 l2.
Proof.
  intros l1 l2 HP HQ Himp. induction HQ; constructor; inversion HP; subst; auto.
Qed.

(** start-up: EVERY listener, wherever it was, is connected every block from its own fork point up to
    the common tip - header-only notifications included - and its fork point is on its old chain *)
Lemma init_connects_every_block : forall T src ls n c tip logs n',
  wf_tree T -> honest_meta T src -> Forall (locator_ok T) ls ->
  synchronize_listeners T src ls n = (Ok (c, tip), logs, n') ->
  Forall2 (fun loc log =>
             anc T (fork_of (l_hash loc) log) (l_hash loc) /\
             path T (fork_of (l_hash loc) log) (v_hash tip) (conn_hashes log)) ls logs.
Proof.
  intros T src ls n c tip logs n' WF HM HL S.
  destruct (init_common_tip T src ls n _ logs n' WF HM HL S) as (F2 & _).
  eapply Forall2_with; [exact HL | exact F2 |].
  intros loc log ((nd & Hnd & _) & _) (p & Run & One & Ep). subst p.
  apply (run_connects_all T (l_hash loc) (l_height loc) log (pos_of tip) nd Run One Hnd).
Qed.
