(** C16 — the arithmetic the path-count clause rests on: [get_route] only collects paths that
    contribute at least [minimal_value_contribution_msat] (regenerated from router.rs:
    [final_value_msat.div_ceil(max_path_count)]) and drops superfluous paths. *)
From Coq Require Import ZArith List Lia.
Require Import LdkV.Prim.U64 LdkV.Prim.Rs2vLib LdkV.Gen.RouterMpp LdkV.Model.RouteSpec.
Open Scope Z_scope.

Lemma div_ceil_mul V N : 0 < N -> V <= N * div_ceil V N.
Proof.
  intros HN. unfold div_ceil.
  pose proof (Z.div_mod (V + N - 1) N ltac:(lia)) as Hd.
  pose proof (Z.mod_pos_bound (V + N - 1) N HN) as Hm. lia.
Qed.

Lemma div_ceil_least V N m : 0 < N -> V <= N * m -> div_ceil V N <= m.
Proof.
  intros HN H. unfold div_ceil.
  apply Z.lt_succ_r. apply Z.div_lt_upper_bound; lia.
Qed.

Lemma sumz_ge m cs : Forall (fun c => m <= c) cs -> m * Z.of_nat (List.length cs) <= sumz cs.
Proof.
  induction 1 as [|c cs Hc _ IH]; [simpl; lia|].
  change (sumz (c :: cs)) with (c + sumz cs).
  change (List.length (c :: cs)) with (S (List.length cs)). rewrite Nat2Z.inj_succ. lia.
Qed.

(** the generated definition is the rounded-UP share (and the whole value without MPP) *)
Lemma min_contribution_div_ceil V N :
  minimal_value_contribution_msat true V N = div_ceil V N /\
  minimal_value_contribution_msat false V N = V.
Proof. split; reflexivity. Qed.

(** [max_path_count] paths of at least that contribution reach the value … *)
Theorem min_contribution_reaches_value V N cs :
  0 < N -> 0 <= V ->
  Forall (fun c => minimal_value_contribution_msat true V N <= c) cs ->
  N <= Z.of_nat (List.length cs) -> V <= sumz cs.
Proof.
  intros HN HV Hall Hlen. change (minimal_value_contribution_msat true V N) with (div_ceil V N) in Hall.
  pose proof (sumz_ge _ _ Hall) as Hs. pose proof (div_ceil_mul V N HN) as Hm.
  assert (0 <= div_ceil V N) by (unfold div_ceil; apply Z.div_pos; lia). nia.
Qed.

(** … hence a route without a superfluous path built from such paths has at most
    [max_path_count] of them *)
Theorem path_count_bound V N cs :
  0 < N -> 0 <= V ->
  Forall (fun c => minimal_value_contribution_msat true V N <= c) cs ->
  Forall (fun c => sumz cs - c < V) cs ->
  Z.of_nat (List.length cs) <= N.
Proof.
  intros HN HV Hall Hsup.
  destruct (Z_le_gt_dec (Z.of_nat (List.length cs)) N) as [|Hgt]; [assumption|exfalso].
  destruct cs as [|c cs]; [simpl in Hgt; lia|].
  inversion Hall as [|? ? _ Hall']; subst. inversion Hsup as [|? ? Hc _]; subst.
  change (sumz (c :: cs)) with (c + sumz cs) in Hc.
  change (List.length (c :: cs)) with (S (List.length cs)) in Hgt. rewrite Nat2Z.inj_succ in Hgt.
  pose proof (min_contribution_reaches_value V N cs HN HV Hall' ltac:(lia)). lia.
Qed.

(** with the rounded-DOWN share [max (V / N) 1] neither holds: 10 msat over at most 3 paths,
    pieces of 3: three do not reach 10, and four pieces make a route without a superfluous path *)
Theorem floor_contribution_refuted :
  exists V N cs, 0 < N /\ 0 <= V /\
    Forall (fun c => Z.max (V / N) 1 <= c) cs /\
    Forall (fun c => sumz cs - c < V) cs /\ V <= sumz cs /\
    N < Z.of_nat (List.length cs) /\ sumz (List.firstn (Z.to_nat N) cs) < V.
Proof.
  exists 10, 3, (3 :: 3 :: 3 :: 3 :: nil). vm_compute.
  repeat split; try discriminate; repeat constructor; discriminate.
Qed.
