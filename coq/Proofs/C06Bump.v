(** C06, [bumped_until_buried] continued: the regenerated bump rule ([Gen/Package.v] [feerate_bump]) and
    the timer ([PackageTemplate::get_height_timer], C07's Model/PackageTimer.v with its bounds in Proofs/C07Fee.v) over the claim timeline of Proofs/C06Fee.v:
    how many attempts happen before a deadline, the RBF rule between consecutive attempts, the bound of
    the fee by the claimed value, the refuted "never burns more than ..." (finding C06-F1), and when a
    request may be dropped (C11's table: only ANTI_REORG_DELAY deep). *)
Require Import LdkV.Prim.U64 LdkV.Prim.Rs2vLib LdkV.Gen.Consts LdkV.Gen.Package LdkV.Proofs.C06Fee.
Require LdkV.Model.PackageTimer LdkV.Proofs.C07Fee LdkV.Model.ChainView LdkV.Proofs.C11.
Open Scope Z_scope.

(** * (b) one forced bump: RBF rule, bounded by the value *)
Lemma force_bump_rbf w amt dust p sweep f r :
  0 < w -> 4 <= p ->
  feerate_bump w amt dust p FeerateStrategy_ForceBump sweep = Some (f, r) ->
  p * w / 1000 + INCREMENTAL_RELAY_FEE_SAT_PER_1000_WEIGHT * w / 1000 <= f /\
  r = f * 1000 / w /\
  (0 < dust -> f + dust <= amt).
Proof.
  intros Hw Hp Hb. unfold feerate_bump in Hb.
  destruct (compute_fee_from_spent_amounts amt w sweep) as [[nf nr]|]; [|discriminate].
  cbv zeta in Hb.
  assert (Hq : 1 <= p / 4) by (apply Z.div_le_lower_bound; lia).
  set (P := p * w / 1000) in *. set (R := INCREMENTAL_RELAY_FEE_SAT_PER_1000_WEIGHT * w / 1000) in *.
  destruct (p <? nr) eqn:Elt.
  - apply Z.ltb_lt in Elt. destruct (Z.eqb_spec nr p); [lia|]. cbv zeta in Hb.
    destruct (Z.ltb_spec (sat_sub amt (Z.max nf (P + R))) dust) as [|Hd]; [discriminate|].
    injection Hb as <- <-. split; [apply Z.le_max_r|]. split; [reflexivity|].
    intros Hdust. unfold sat_sub in Hd. lia.
  - cbv zeta in Hb. destruct (Z.eqb_spec (p + p / 4) p); [lia|]. cbv zeta in Hb.
    destruct (Z.ltb_spec (sat_sub amt (Z.max ((p + p / 4) * w / 1000) (P + R))) dust) as [|Hd]; [discriminate|].
    injection Hb as <- <-. split; [apply Z.le_max_r|]. split; [reflexivity|].
    intros Hdust. unfold sat_sub in Hd. lia.
Qed.

(** the feerate strictly increases (for any real transaction weight) *)
Lemma force_bump_rate_increases w amt dust p sweep f r :
  8 <= w -> 4 <= p ->
  feerate_bump w amt dust p FeerateStrategy_ForceBump sweep = Some (f, r) -> p < r.
Proof.
  intros Hw Hp Hb. destruct (force_bump_rbf w amt dust p sweep f r ltac:(lia) Hp Hb) as (Hf & -> & _).
  unfold INCREMENTAL_RELAY_FEE_SAT_PER_1000_WEIGHT in Hf.
  assert (H1 : p * w - 1000 < 1000 * (p * w / 1000)) by (pose proof (Z.mul_div_le (p * w) 1000 ltac:(lia)); pose proof (Z.mod_pos_bound (p * w) 1000 ltac:(lia)); pose proof (Z.div_mod (p * w) 1000 ltac:(lia)); lia).
  assert (H2 : 253 * w - 1000 < 1000 * (253 * w / 1000)) by (pose proof (Z.mod_pos_bound (253 * w) 1000 ltac:(lia)); pose proof (Z.div_mod (253 * w) 1000 ltac:(lia)); lia).
  assert (p + 1 <= f * 1000 / w); [|lia]. apply Z.div_le_lower_bound; [lia|]. nia.
Qed.

(* ------------------------------------------------------------------------------------------ *)
(** * (a), (b) along the whole timeline, with the REAL timer function

    [run_blocks] of Proofs/C06Fee.v with [timer h := get_height_timer inputs csh h] (C07's transliteration,
    validated by C07's check; C07 proves [cur < timer <= cur + LOW_FREQUENCY_BUMP_INTERVAL] of it), for
    any set of inputs of the claim. *)
Section Attempts.
  Variables (w amt dust : Z) (est : Z -> Z).
  Variables (inputs : list PackageTimer.pinput) (csh : Z).
  Hypothesis Hw : 8 <= w.
  Hypothesis Hdust : 0 < dust.

  Definition rtimer (h : Z) : Z := PackageTimer.get_height_timer inputs csh h.
  Notation run := (run_blocks w amt dust est rtimer).
  Notation L := LOW_FREQUENCY_BUMP_INTERVAL.

  Lemma rtimer_soon h : h < rtimer h <= h + L.
  Proof. pose proof (C07Fee.height_timer_spec inputs csh h) as H. cbv zeta in H. unfold rtimer. lia. Qed.

  (** every broadcast of the run: at the height its timer expired, forced bump of the previous one *)
  Lemma run_attempts c0 h0 : 4 <= c_rate c0 -> h0 < c_timer c0 ->
    forall n : nat,
    (forall k : nat, (k < n)%nat -> forall c, affordable w amt dust est c (h0 + Z.of_nat (S k))) ->
    let '(c, log) := run c0 h0 n in
    4 <= c_rate c /\
    h0 + Z.of_nat n < c_timer c <= c_timer c0 + L * Z.of_nat (List.length log) /\
    (* (b) the attempts: fee strictly up by at least the incremental relay fee, feerate strictly up,
       fee plus dust limit within the value claimed *)
    (forall pre h f r post, log = pre ++ (h, f, r) :: post ->
       let prev := match rev pre with [] => c_rate c0 | (_, _, r') :: _ => r' end in
       prev * w / 1000 + INCREMENTAL_RELAY_FEE_SAT_PER_1000_WEIGHT * w / 1000 <= f /\ prev < r /\ r = f * 1000 / w /\
       f + dust <= amt) /\
    (log = [] -> c_rate c = c_rate c0) /\
    (forall pre h f r, log = pre ++ [(h, f, r)] -> c_rate c = r).
  Proof.
    intros Hr0 Ht0. induction n as [|k IH]; intros Haff.
    - cbn [run_blocks List.length]. rewrite Z.add_0_r, Z.mul_0_r.
      split; [exact Hr0|]. split; [lia|]. split; [|split].
      + intros pre h f r post E. destruct pre; discriminate.
      + reflexivity.
      + intros pre h f r E. destruct pre; discriminate.
    - cbn [run_blocks]. specialize (IH ltac:(intros j Hj; apply Haff; lia)).
      destruct (run c0 h0 k) as [c1 log] eqn:Erun.
      destruct IH as (Hr1 & Ht1 & Hlog & Hnil & Hlast).
      set (h := h0 + Z.of_nat (S k)). unfold on_block.
      destruct (Z.leb_spec (c_timer c1) h) as [Hdue|Hnot].
      + pose proof (Haff k ltac:(lia) c1) as Ha. unfold affordable in Ha. fold h in Ha.
        destruct (feerate_bump w amt dust (c_rate c1) FeerateStrategy_ForceBump (est h)) as [[f r]|] eqn:Eb; [|contradiction].
        assert (Hw0 : 0 < w) by lia.
        destruct (force_bump_rbf w amt dust (c_rate c1) (est h) f r Hw0 Hr1 Eb) as (Hf & Er & Hv).
        pose proof (force_bump_rate_increases _ _ _ _ _ _ _ Hw Hr1 Eb) as Hinc.
        pose proof (rtimer_soon h) as Hts. cbn [c_rate c_timer].
        rewrite app_length. cbn [List.length]. rewrite Nat2Z.inj_add. cbn [Z.of_nat Pos.of_succ_nat].
        split; [lia|]. split; [unfold h in *; lia|]. split; [|split].
        * intros pre h' f' r' post E.
          destruct post as [|x post] using rev_ind.
          -- apply app_inj_tail in E. destruct E as [<- E]. injection E as <- <- <-.
             assert (Eprev : match rev log with [] => c_rate c0 | (_, _, r'0) :: _ => r'0 end = c_rate c1).
             { destruct log as [|y log'] using rev_ind.
               - cbn. symmetry. apply Hnil. reflexivity.
               - rewrite rev_app_distr. cbn. destruct y as [[hy fy] ry]. symmetry. apply (Hlast log' hy fy ry eq_refl). }
             cbv zeta. rewrite Eprev. repeat split; [exact Hf|exact Hinc|exact Er|exact (Hv Hdust)].
          -- clear IHpost. rewrite app_comm_cons, app_assoc in E. apply app_inj_tail in E. destruct E as [E _].
             apply (Hlog pre h' f' r' post E).
        * intros E. destruct log; discriminate.
        * intros pre h' f' r' E. apply app_inj_tail in E. destruct E as [_ E]. injection E as _ _ <-. reflexivity.
      + split; [exact Hr1|]. split; [unfold h in *; lia|]. split; [exact Hlog|]. split; assumption.
  Qed.

  (** (a) how many attempts: over [n] blocks more than (n - (first timer - start)) / LOW_FREQUENCY_BUMP_INTERVAL;
      so before a deadline [D] blocks away (the cheater's CSV / an HTLC's CLTV) at least that many
      ever-higher bids are out *)
  Lemma attempts_lower_bound c0 h0 (n : nat) : 4 <= c_rate c0 -> h0 < c_timer c0 ->
    (forall k : nat, (k < n)%nat -> forall c, affordable w amt dust est c (h0 + Z.of_nat (S k))) ->
    Z.of_nat n - (c_timer c0 - h0) < L * Z.of_nat (List.length (snd (run c0 h0 n))).
  Proof.
    intros Hr Ht Haff. pose proof (run_attempts c0 h0 Hr Ht n Haff) as H.
    destruct (run c0 h0 n) as [c log]. cbn [snd]. lia.
  Qed.
End Attempts.

(* ------------------------------------------------------------------------------------------ *)
(** * What the bump rule does NOT bound (finding C06-F1)

    "A claim never pays more than 80 % of the value it claims in fees" is refuted: with the estimate
    FLAT at the floor and the claim kept unconfirmed inside the window in which the timer fires every
    block, forced bumps of 25 % each take the fee of a 1000-weight claim on 1 000 000 sat from 253 sat
    past 800 000 sat; the only stop is the dust limit of the remaining output. *)
Lemma burn_bound_witness :
  exists n : nat,
    let '(c, log) := run_blocks 1000 1000000 546 (fun _ => 253) (fun h => h + 1) (mkClaim 253 253 101 100) 100 n in
    let '(c', log') := run_blocks 1000 1000000 546 (fun _ => 253) (fun h => h + 1) (mkClaim 253 253 101 100) 100 (n + 30) in
    8 * 1000000 <= 10 * c_fee c /\ c_fee c + 546 <= 1000000 /\
    (* ... and from then on nothing is re-issued any more: the next bump does not fit under the value *)
    log' = log.
Proof. exists 34%nat. vm_compute. repeat split; intros H; discriminate H. Qed.

(* ------------------------------------------------------------------------------------------ *)
(** * (c) when a request may be dropped

    A claim that confirmed is remembered as an entry of the awaiting-threshold-confirmation table
    ([OnchainEvent::Claim], [OnchainTxHandler]; same shape and -- see [C06_reorg_source_pins] -- the same
    height comparisons as the monitor's table, Model/ChainView.v) and the request is dropped when that
    entry matures. For ANY operation list (connections, disconnections, re-deliveries) every conclusion
    is drawn at a best height at least ANTI_REORG_DELAY - 1 above the height at which the transaction is
    confirmed: a request is never dropped for a claim (or a conflicting spend) less than
    ANTI_REORG_DELAY deep. With [C06_reorg_history_is_straight_line] the conclusions are those of the
    final chain. *)
Lemma dropped_only_when_buried h0 hash0 ops :
  Forall C11.op_ok ops ->
  forall m, In m (ChainView.emitted (ChainView.run (C11.fresh h0 hash0) ops)) ->
  ChainView.m_conf m + ANTI_REORG_DELAY - 1 <= ChainView.m_at m.
Proof.
  intros Hok m Hin.
  assert (H : C11.emitted_buried (ChainView.run (C11.fresh h0 hash0) ops)).
  { apply C11.buried_first; [exact Hok | constructor | constructor]. }
  unfold C11.emitted_buried in H. rewrite Forall_forall in H. exact (H m Hin).
Qed.
