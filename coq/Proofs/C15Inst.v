(** C15 — the laws the abstract theorems assume about the AEAD hold for the executable
    ChaCha20-Poly1305 instance (proved in [Crypto/ChaChaPoly.v], no side conditions), so the
    delivery / truncation / tamper theorems hold for the instance with no cryptographic hypothesis
    left except the explicit per-stream "does not authenticate" premise of the tamper theorem. *)
Require Import LdkV.Prim.U64 LdkV.Gen.NoiseConsts.
From Coq Require Import List.
Import ListNotations.
Require Import LdkV.Crypto.Bytes LdkV.Crypto.ChaCha20 LdkV.Crypto.ChaChaPoly.
Require Import LdkV.Model.Noise LdkV.Model.NoiseInst.
Open Scope Z_scope.

Lemma i_seal_len k n ad p : length (i_seal k n ad p) = (length p + 16)%nat.
Proof. unfold i_seal. apply length_aead_encrypt. Qed.

Lemma i_open_seal k n ad p : i_open k n ad (i_seal k n ad p) = Some p.
Proof. unfold i_open, i_seal. apply aead_decrypt_encrypt. Qed.

(** deterministic AEAD: whatever opens is the sealing of what it opens to — so a chunk that opens
    under the session key but differs from the honest one IS a sealing of a different plaintext
    under that key and nonce, i.e. a forgery in the INT-CTXT sense *)
Lemma i_open_inv k n ad c p : i_open k n ad c = Some p -> c = i_seal k n ad p.
Proof. unfold i_open, i_seal. apply aead_decrypt_Some_inv. Qed.

