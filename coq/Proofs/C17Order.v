(** C17 — order independence: the graph built from a valid message set is a function of the
    set (latest timestamp wins per channel direction and per node), whatever the admissible
    delivery order and duplication. *)
From stdpp Require Import gmap.
From Coq Require Import ZArith String Lia ZifyBool.
Require Import LdkV.Gen.GossipConsts LdkV.Model.Gossip LdkV.Model.GossipSpec.
Require Import LdkV.Proofs.C17Base LdkV.Proofs.C17Step LdkV.Proofs.C17Auth.
Open Scope Z_scope.

(** ** "latest timestamp wins, the first one accepted wins among equals" over a list *)
Section latest.
  Context {A : Type} (ts : A → Z).
  Definition newer (cur : option A) (x : A) : option A :=
    match cur with
    | Some b => if ts b <? ts x then Some x else Some b
    | None => Some x
    end.
  Definition latest (l : list A) : option A := foldl newer None l.

  Lemma latest_snoc l x : latest (l ++ [x]) = newer (latest l) x.
  Proof. unfold latest. by rewrite foldl_app. Qed.

  Lemma latest_None l : latest l = None ↔ l = [].
  Proof.
    split; [|by intros ->]. induction l as [|x l _] using rev_ind; [done|].
    rewrite latest_snoc. unfold newer. repeat case_match; done.
  Qed.

  Lemma latest_Some l b : latest l = Some b → b ∈ l ∧ ∀ x, x ∈ l → ts x ≤ ts b.
  Proof.
    revert b. induction l as [|x l IH] using rev_ind; intros b; [done|].
    rewrite latest_snoc. unfold newer. destruct (latest l) as [b0|] eqn:Hl.
    - destruct (IH b0 eq_refl) as [Hin Hmax]. case_match eqn:Hlt; intros [= <-].
      + split; [apply elem_of_app; right; apply elem_of_list_here|].
        intros y [Hy|Hy%elem_of_list_singleton]%elem_of_app; [|subst; lia].
        specialize (Hmax _ Hy). lia.
      + split; [apply elem_of_app; by left|].
        intros y [Hy|Hy%elem_of_list_singleton]%elem_of_app; [by apply Hmax|subst; lia].
    - apply latest_None in Hl as ->. intros [= <-]. split; [apply elem_of_list_here|].
      intros y Hy%elem_of_list_singleton. subst. lia.
  Qed.

  Lemma latest_set_eq l1 l2 :
    (∀ x, x ∈ l1 ↔ x ∈ l2) →
    (∀ x y, x ∈ l1 → y ∈ l1 → ts x = ts y → x = y) →
    latest l1 = latest l2.
  Proof.
    intros Hset Hdist. destruct (latest l1) as [b1|] eqn:H1, (latest l2) as [b2|] eqn:H2.
    - apply latest_Some in H1 as [Hin1 Hmax1]. apply latest_Some in H2 as [Hin2 Hmax2].
      f_equal. apply Hdist; [done|by apply Hset|].
      pose proof (Hmax1 b2 (proj2 (Hset _) Hin2)). pose proof (Hmax2 b1 (proj1 (Hset _) Hin1)). lia.
    - apply latest_None in H2 as ->. apply latest_Some in H1 as [Hin _].
      apply Hset in Hin. by apply elem_of_nil in Hin.
    - apply latest_None in H1 as ->. apply latest_Some in H2 as [Hin _].
      apply Hset in Hin. by apply elem_of_nil in Hin.
    - done.
  Qed.
End latest.

(** ** The denotation of a delivery list *)
Definition upd_of (scid : Z) (d : bool) (o : op) : option upd_info :=
  match o with
  | OChanUpd _ sg m _ _ =>
      if decide (cu_scid m = scid ∧ dir_is_two_to_one m = d)
      then Some (upd_info_of m (is_some_b sg)) else None
  | _ => None
  end.
Definition nann_info (sg : option bool) (m : node_ann) : nann :=
  NAnn (nm_ts m) (nm_content m)
       (if is_some_b sg && node_should_relay m then Some (nm_mid m) else None).
Definition nann_of (nid : Z) (o : op) : option nann :=
  match o with
  | ONodeAnn _ sg m => if decide (nm_nid m = nid) then Some (nann_info sg m) else None
  | _ => None
  end.
Definition best (p : list op) (scid : Z) (d : bool) : option upd_info :=
  latest ui_ts (omap (upd_of scid d) p).
Definition bestn (p : list op) (nid : Z) : option nann :=
  latest na_ts (omap (nann_of nid) p).

Lemma omap_snoc {A B} (f : A → option B) l x :
  omap f (l ++ [x]) = omap f l ++ match f x with Some y => [y] | None => [] end.
Proof. rewrite omap_app. simpl. by destruct (f x). Qed.

Lemma best_snoc p o scid d :
  best (p ++ [o]) scid d =
  match upd_of scid d o with Some u => newer ui_ts (best p scid d) u | None => best p scid d end.
Proof.
  unfold best. rewrite omap_snoc. destruct (upd_of scid d o).
  - by rewrite latest_snoc.
  - by rewrite app_nil_r.
Qed.
Lemma bestn_snoc p o nid :
  bestn (p ++ [o]) nid =
  match nann_of nid o with Some u => newer na_ts (bestn p nid) u | None => bestn p nid end.
Proof.
  unfold bestn. rewrite omap_snoc. destruct (nann_of nid o).
  - by rewrite latest_snoc.
  - by rewrite app_nil_r.
Qed.

(** ** Admissibility: what it says about a prefix *)
Definition dep_ok (seen : list op) (o : op) : Prop :=
  match o with
  | OChanUpd _ _ m _ _ => ∃ o', o' ∈ seen ∧ is_ann o' (cu_scid m)
  | ONodeAnn _ _ m => ∃ o', o' ∈ seen ∧ ann_has_node o' (nm_nid m)
  | _ => True
  end.

Lemma admissible_app seen p o rest :
  admissible seen (p ++ o :: rest) → dep_ok (seen ++ p) o.
Proof.
  revert seen. induction p as [|x p IH]; intros seen; simpl.
  - rewrite app_nil_r. intros [H _]. unfold dep_ok. by destruct o.
  - intros [_ H]. apply IH in H. by rewrite <-app_assoc in H.
Qed.

(** ** The invariant linking a delivered prefix to the graph *)
Definition chan_msg_of (sg : option ann_sigs) (a : chan_ann) : option Z :=
  if (ca_excess a <=? MAX_EXCESS_BYTES_FOR_RELAY) && is_some_b sg then Some (ca_mid a) else None.

Record inv (p : list op) (g : graph) : Prop := {
  inv_rmc : g_rmc g = ∅;
  inv_rmn : g_rmn g = ∅;
  inv_chan_some : ∀ scid c, g_chans g !! scid = Some c →
    ∃ via sg a u now, OChanAnn via sg a u now ∈ p ∧ ca_scid a = scid ∧
      c_features c = ca_features a ∧ c_one c = ca_n1 a ∧ c_two c = ca_n2 a ∧
      c_cap c = ann_cap u ∧ c_msg c = chan_msg_of sg a ∧
      c_12 c = best p scid false ∧ c_21 c = best p scid true;
  inv_chan_none : ∀ scid, g_chans g !! scid = None → ∀ o, o ∈ p → ¬ is_ann o scid;
  inv_node_some : ∀ nid n, g_nodes g !! nid = Some n →
    NoDup (n_chans n) ∧
    (∀ scid, scid ∈ n_chans n ↔ ∃ o, o ∈ p ∧ is_ann o scid ∧ ann_has_node o nid) ∧
    n_ann n = bestn p nid;
  inv_node_none : ∀ nid, g_nodes g !! nid = None → ∀ o, o ∈ p → ¬ ann_has_node o nid;
  inv_dep : ∀ o, o ∈ p → dep_ok p o
}.

Lemma dep_ok_mono seen o x : dep_ok seen o → dep_ok (seen ++ [x]) o.
Proof.
  unfold dep_ok. destruct o; try done; intros (o' & Hin & H); exists o';
    (split; [apply elem_of_app; by left|done]).
Qed.

Lemma inv_init : inv [] g_init.
Proof.
  split; simpl; try done.
  - intros scid _ o Ho. by apply elem_of_nil in Ho.
  - intros nid _ o Ho. by apply elem_of_nil in Ho.
  - intros o Ho. by apply elem_of_nil in Ho.
Qed.

Lemma elem_snoc {A} (l : list A) x y : y ∈ l ++ [x] ↔ y ∈ l ∨ y = x.
Proof. rewrite elem_of_app, elem_of_list_singleton. done. Qed.

(** an op that carries no message for [(scid, d)] / [nid] leaves the denotation unchanged *)
Lemma inv_unchanged p g o :
  inv p g → dep_ok p o →
  (∀ scid d, upd_of scid d o = None ∨ best (p ++ [o]) scid d = best p scid d) →
  (∀ nid, nann_of nid o = None ∨ bestn (p ++ [o]) nid = bestn p nid) →
  (∀ scid, is_ann o scid → ∃ o', o' ∈ p ∧ is_ann o' scid ∧
                            ∀ nid, ann_has_node o nid → ann_has_node o' nid) →
  inv (p ++ [o]) g.
Proof.
  intros [I1 I2 I3 I4 I5 I6 I7] Hdep Hb Hbn Hann.
  assert (∀ scid d, best (p ++ [o]) scid d = best p scid d) as Hb'.
  { intros scid d. destruct (Hb scid d) as [Hn|?]; [|done]. by rewrite best_snoc, Hn. }
  assert (∀ nid, bestn (p ++ [o]) nid = bestn p nid) as Hbn'.
  { intros nid. destruct (Hbn nid) as [Hn|?]; [|done]. by rewrite bestn_snoc, Hn. }
  split; try done.
  - intros scid c Hc. destruct (I3 _ _ Hc) as (via & sg & a & u & now & Hin & H).
    exists via, sg, a, u, now. rewrite !Hb'. split; [apply elem_snoc; by left|done].
  - intros scid Hc x [Hx| ->]%elem_snoc; [by eapply I4|].
    intros (o' & Hin & Hia & _)%Hann. by eapply I4.
  - intros nid n Hn. destruct (I5 _ _ Hn) as (Hnd & Hl & Ha). split_and!; [done| |by rewrite Hbn'].
    intros scid. rewrite Hl. split.
    + intros (x & Hx & H). exists x. split; [apply elem_snoc; by left|done].
    + intros (x & [Hx| ->]%elem_snoc & Hia & Hhn); [by exists x|].
      destruct (Hann _ Hia) as (o' & Hin & Hia' & Hnodes). exists o'. split_and!; [done..|by apply Hnodes].
  - intros nid Hn x [Hx| ->]%elem_snoc; [by eapply I6|].
    intros Hhn. destruct o; try done. simpl in Hhn.
    destruct (Hann (ca_scid a) eq_refl) as (o' & Hin & _ & Hnodes). eapply I6; [done..|]. by apply Hnodes.
  - intros x [Hx| ->]%elem_snoc; apply dep_ok_mono; [by apply I7|done].
Qed.

(** ** One delivery *)
Section step.
  Context (cf : cfg) (L : list op) (HL : valid_set cf L).

  Lemma ann_same via1 sg1 a1 u1 t1 via2 sg2 a2 u2 t2 :
    OChanAnn via1 sg1 a1 u1 t1 ∈ L → OChanAnn via2 sg2 a2 u2 t2 ∈ L → ca_scid a1 = ca_scid a2 →
    sg1 = sg2 ∧ a1 = a2 ∧ u1 = u2.
  Proof. apply (vs_ann_unique _ _ HL). Qed.

  Lemma utxo_value_valid sg a u : ann_valid cf sg a u → utxo_value u = inr (ann_cap u).
  Proof. intros (_ & _ & _ & _ & [->|[v ->]]); done. Qed.

  Lemma inv_step_ann p g via sg a u now :
    inv p g → (∀ x, x ∈ p ++ [OChanAnn via sg a u now] → x ∈ L) →
    inv (p ++ [OChanAnn via sg a u now]) (step cf g (OChanAnn via sg a u now)).2.
  Proof.
    intros Hinv Hsub. set (o := OChanAnn via sg a u now).
    assert (o ∈ L) as HoL by (apply Hsub, elem_snoc; by right).
    pose proof (vs_kinds _ _ HL o HoL) as Hval. simpl in Hval.
    destruct Hval as (Hlt & Hbtc & Hchain & Hsig & Hu).
    pose proof Hinv as [I1 I2 I3 I4 I5 I6 I7].
    destruct (g_chans g !! ca_scid a) as [c|] eqn:Hc.
    - (* a duplicate delivery: rejected, nothing changes *)
      destruct (I3 _ _ Hc) as (via0 & sg0 & a0 & u0 & now0 & Hin0 & Hscid & Hf & H1 & H2 & Hcap & _).
      assert (OChanAnn via0 sg0 a0 u0 now0 ∈ L) as Hin0L by (apply Hsub, elem_snoc; by left).
      destruct (ann_same _ _ _ _ _ _ _ _ _ _ Hin0L HoL Hscid) as (-> & -> & ->).
      assert (∃ e, step cf g o = (GErr e, g)) as [e Hstep].
      { simpl. unfold chan_ann_step, pre_check. rewrite Hc.
        assert ((ca_n2 a <=? ca_n1 a) = false) as -> by lia.
        assert ((ca_b1 a =? ca_b2 a) = false) as -> by lia.
        assert (negb (ca_chain a =? cfg_chain cf) = false) as -> by (rewrite Hchain, Z.eqb_refl; done).
        rewrite Hcap. destruct Hu as [->|[v ->]]; simpl.
        - by eexists.
        - rewrite H1, H2, !Z.eqb_refl. simpl. by eexists. }
      rewrite Hstep. simpl.
      apply inv_unchanged; [done|done|intros; by left|intros; by left|].
      intros scid Hia. simpl in Hia. exists (OChanAnn via0 sg a u now0). split_and!; done.
    - (* first delivery: the channel is created *)
      assert (step cf g o = (if via && is_some_b sg then GOk (VBool (ca_excess a <=? MAX_EXCESS_BYTES_FOR_RELAY)) else GOk VUnit,
                Graph (<[ca_scid a := Chan (ca_features a) (ca_n1 a) (ca_n2 a) (ann_cap u) None None (chan_msg_of sg a) now]> (g_chans g))
                      (push_node (push_node (g_nodes g) (ca_n1 a) (ca_scid a)) (ca_n2 a) (ca_scid a)) ∅ ∅)) as Hstep.
      { simpl. unfold chan_ann_step, pre_check. rewrite Hc.
        assert ((ca_n2 a <=? ca_n1 a) = false) as -> by lia.
        assert ((ca_b1 a =? ca_b2 a) = false) as -> by lia.
        assert (negb (ca_chain a =? cfg_chain cf) = false) as -> by (rewrite Hchain, Z.eqb_refl; done).
        assert (match sg with Some s => verify_ann cf a s | None => None end = None) as ->.
        { destruct sg as [s|]; [|done]. by apply Hsig. }
        unfold ann_intern. rewrite I1, I2, !lookup_empty. simpl.
        rewrite (utxo_value_valid sg a u) by done.
        unfold add_chan. rewrite Hc. simpl. rewrite I1, I2. done. }
      rewrite Hstep. simpl.
      assert (∀ x, x ∈ p → ¬ is_ann x (ca_scid a)) as Hnoann by (by apply I4).
      assert (∀ d, omap (upd_of (ca_scid a) d) p = []) as Hnoupd.
      { intros d. destruct (omap (upd_of (ca_scid a) d) p) as [|u0 l0] eqn:Ho; [done|]. exfalso.
        assert (u0 ∈ omap (upd_of (ca_scid a) d) p) as Hin by (rewrite Ho; apply elem_of_list_here).
        apply elem_of_list_omap in Hin as (x & Hx & Hux).
        destruct x; try done. simpl in Hux. case_decide as Hd; [|done]. destruct Hd as [Hs _].
        destruct (I7 _ Hx) as (o' & Hin' & Hia). rewrite Hs in Hia. by eapply Hnoann. }
      assert (∀ scid d, best (p ++ [o]) scid d = best p scid d) as Hb by (intros; by rewrite best_snoc).
      assert (∀ nid, bestn (p ++ [o]) nid = bestn p nid) as Hbn by (intros; by rewrite bestn_snoc).
      split; simpl; try done.
      + intros scid c [[<- <-]|[Hne Hcc]]%lookup_insert_Some.
        * exists via, sg, a, u, now. simpl. rewrite !Hb. unfold best. rewrite !Hnoupd.
          split_and!; try done. apply elem_snoc. by right.
        * destruct (I3 _ _ Hcc) as (via0 & sg0 & a0 & u0 & now0 & Hin0 & H).
          exists via0, sg0, a0, u0, now0. rewrite !Hb. split; [apply elem_snoc; by left|done].
      + intros scid [Hne Hcc]%lookup_insert_None x [Hx| ->]%elem_snoc; [by eapply I4|]. simpl. done.
      + intros nid n. rewrite !push_node_lookup.
        assert (∀ nid0, ¬ lists (g_nodes g) nid0 (ca_scid a)) as Hnl.
        { intros nid0 (n0 & Hn0 & Hin0). destruct (I5 _ _ Hn0) as (_ & Hl & _).
          apply Hl in Hin0 as (x & Hx & Hia & _). by eapply Hnoann. }
        (* the entry of [nid] after the two pushes *)
        assert (∀ nid0 (n0 : node),
          (if decide (nid0 = ca_n2 a) then Some (push_res (if decide (ca_n2 a = ca_n1 a) then Some (push_res (g_nodes g !! ca_n1 a) (ca_scid a)) else g_nodes g !! ca_n2 a) (ca_scid a))
           else if decide (nid0 = ca_n1 a) then Some (push_res (g_nodes g !! ca_n1 a) (ca_scid a)) else g_nodes g !! nid0) = Some n0 →
          (nid0 = ca_n1 a ∨ nid0 = ca_n2 a) ∧ n0 = push_res (g_nodes g !! nid0) (ca_scid a)
          ∨ nid0 ≠ ca_n1 a ∧ nid0 ≠ ca_n2 a ∧ g_nodes g !! nid0 = Some n0) as Hcases.
        { intros nid0 n0. rewrite (decide_False (P := ca_n2 a = ca_n1 a)) by lia.
          repeat case_decide; subst; intros ?; simplify_eq; auto. }
        intros Hn. apply Hcases in Hn as [[Hor ->]|(Hn1 & Hn2 & Hn)].
        * assert (ann_has_node o nid) as Hhn by (simpl; destruct Hor; auto).
          unfold push_res. destruct (g_nodes g !! nid) as [n0|] eqn:Hn0; simpl.
          -- destruct (I5 _ _ Hn0) as (Hnd & Hl & Ha). split_and!.
             ++ apply NoDup_app. split_and!; [done| |apply NoDup_singleton].
                intros x Hx ->%elem_of_list_singleton. apply (Hnl nid). by exists n0.
             ++ intros scid. rewrite elem_of_app, elem_of_list_singleton, Hl. split.
                ** intros [(x & Hx & H)| ->]; [exists x; split; [apply elem_snoc; by left|done]|].
                   exists o. split_and!; [apply elem_snoc; by right|done|done].
                ** intros (x & [Hx| ->]%elem_snoc & Hia & Hh); [left; by exists x|]. by right.
             ++ by rewrite Hbn.
          -- split_and!; [apply NoDup_singleton| |].
             ++ intros scid. rewrite elem_of_list_singleton. split.
                ** intros ->. exists o. split_and!; [apply elem_snoc; by right|done|done].
                ** intros (x & [Hx| ->]%elem_snoc & Hia & Hh); [|done]. exfalso. by eapply I6.
             ++ rewrite Hbn. unfold bestn. symmetry. apply latest_None.
                destruct (omap (nann_of nid) p) as [|u0 l0] eqn:Ho; [done|]. exfalso.
                assert (u0 ∈ omap (nann_of nid) p) as Hin by (rewrite Ho; apply elem_of_list_here).
                apply elem_of_list_omap in Hin as (x & Hx & Hux).
                destruct x; try done. simpl in Hux. case_decide as Hd; [|done].
                destruct (I7 _ Hx) as (o' & Hin' & Hia). rewrite Hd in Hia. by eapply I6.
        * destruct (I5 _ _ Hn) as (Hnd & Hl & Ha). split_and!; [done| |by rewrite Hbn].
          intros scid. rewrite Hl. split.
          -- intros (x & Hx & H). exists x. split; [apply elem_snoc; by left|done].
          -- intros (x & [Hx| ->]%elem_snoc & Hia & Hh); [by exists x|]. simpl in Hh. lia.
      + intros nid. rewrite !push_node_lookup. repeat case_decide; try done.
        intros Hn x [Hx| ->]%elem_snoc; [by eapply I6|]. simpl. lia.
      + intros x [Hx| ->]%elem_snoc; apply dep_ok_mono; [by apply I7|done].
  Qed.

  (** *** channel_update *)
  Lemma inv_set_chan p g o scid c c' :
    inv p g → dep_ok p o →
    (∀ s, ¬ is_ann o s) → (∀ n, ¬ ann_has_node o n) → (∀ n, nann_of n o = None) →
    g_chans g !! scid = Some c →
    c_features c' = c_features c → c_one c' = c_one c → c_two c' = c_two c →
    c_cap c' = c_cap c → c_msg c' = c_msg c →
    c_12 c' = best (p ++ [o]) scid false → c_21 c' = best (p ++ [o]) scid true →
    (∀ s d, s ≠ scid → best (p ++ [o]) s d = best p s d) →
    inv (p ++ [o]) (Graph (<[scid := c']> (g_chans g)) (g_nodes g) (g_rmc g) (g_rmn g)).
  Proof.
    intros [I1 I2 I3 I4 I5 I6 I7] Hdep Hna Hnn Hno Hc Hf H1 H2 Hcap Hmsg H12 H21 Hother.
    assert (∀ nid, bestn (p ++ [o]) nid = bestn p nid) as Hbn.
    { intros nid. by rewrite bestn_snoc, Hno. }
    split; simpl; try done.
    - intros s c0 [[<- <-]|[Hne Hcc]]%lookup_insert_Some.
      + destruct (I3 _ _ Hc) as (via0 & sg0 & a0 & u0 & now0 & Hin0 & ? & ? & ? & ? & ? & ? & _).
        exists via0, sg0, a0, u0, now0. split_and!; try congruence. apply elem_snoc. by left.
      + destruct (I3 _ _ Hcc) as (via0 & sg0 & a0 & u0 & now0 & Hin0 & H).
        exists via0, sg0, a0, u0, now0. rewrite !Hother by done.
        split; [apply elem_snoc; by left|done].
    - intros s [Hne Hcc]%lookup_insert_None x [Hx| ->]%elem_snoc; [by eapply I4|apply Hna].
    - intros nid n Hn. destruct (I5 _ _ Hn) as (Hnd & Hl & Ha). split_and!; [done| |by rewrite Hbn].
      intros s. rewrite Hl. split.
      + intros (x & Hx & H). exists x. split; [apply elem_snoc; by left|done].
      + intros (x & [Hx| ->]%elem_snoc & Hia & Hh); [by exists x|]. by apply Hna in Hia.
    - intros nid Hn x [Hx| ->]%elem_snoc; [by eapply I6|apply Hnn].
    - intros x [Hx| ->]%elem_snoc; apply dep_ok_mono; [by apply I7|done].
  Qed.

  Lemma inv_step_upd p g via sg m now ov :
    inv p g → (∀ x, x ∈ p ++ [OChanUpd via sg m now ov] → x ∈ L) →
    dep_ok p (OChanUpd via sg m now ov) →
    inv (p ++ [OChanUpd via sg m now ov]) (step cf g (OChanUpd via sg m now ov)).2.
  Proof.
    intros Hinv Hsub Hdep.
    assert (OChanUpd via sg m now ov ∈ L) as HoL by (apply Hsub, elem_snoc; by right).
    pose proof (vs_kinds _ _ HL _ HoL) as Hval. simpl in Hval.
    destruct Hval as (-> & via' & sg' & a & u & now' & HannL & Hvf).
    set (o := OChanUpd via sg m now false) in *.
    destruct Hvf as (Hscid & Hchain & Hmax & Hvia & Htime & Hcapv & Hsig).
    pose proof Hinv as [I1 I2 I3 I4 I5 I6 I7].
    pose proof Hdep as (o' & Ho'p & Hia).
    destruct (g_chans g !! cu_scid m) as [c|] eqn:Hc; [|exfalso; by eapply I4].
    destruct (I3 _ _ Hc) as (via0 & sg0 & a0 & u0 & now0 & Hin0 & Hscid0 & Hf & H1 & H2 & Hcap & Hmsg & H12 & H21).
    assert (OChanAnn via0 sg0 a0 u0 now0 ∈ L) as Hin0L by (apply Hsub, elem_snoc; by left).
    destruct (ann_same _ _ _ _ _ _ _ _ _ _ Hin0L HannL) as (-> & -> & ->); [congruence|].
    set (d := dir_is_two_to_one m).
    set (info := upd_info_of m (is_some_b sg)).
    assert (chan_dir c d = best p (cu_scid m) d) as Hdir.
    { unfold chan_dir. by destruct d. }
    assert (∀ s d0, upd_of s d0 o = if decide (cu_scid m = s ∧ d = d0) then Some info else None) as Hupd by (intros; reflexivity).
    assert (∀ s, ¬ is_ann o s) as Hna by (intros ? []; done).
    assert (∀ n, ¬ ann_has_node o n) as Hnn by done.
    assert (∀ n, nann_of n o = None) as Hno by done.
    destruct (step cf g o) as [[v|e] g'] eqn:Hstep; simpl.
    - (* accepted *)
      simpl in Hstep. apply chan_upd_accept in Hstep as (c0 & (Hc0 & _ & _ & _ & _ & _ & Hnew & _) & ->).
      rewrite Hc in Hc0. injection Hc0 as <-. unfold upd_result. fold d info.
      assert (newer ui_ts (best p (cu_scid m) d) info = Some info) as Hnewer.
      { rewrite <-Hdir. unfold newer. destruct (chan_dir c d) as [old|] eqn:Hold; [|done].
        specialize (Hnew old Hold). assert (ui_ts old <? ui_ts info = true) as -> by (simpl; lia). done. }
      apply inv_set_chan with (c := c); try done.
      + unfold set_dir. by case_match.
      + unfold set_dir. by case_match.
      + unfold set_dir. by case_match.
      + unfold set_dir. by case_match.
      + unfold set_dir. by case_match.
      + rewrite best_snoc, Hupd. unfold set_dir. destruct d eqn:Hd; simpl.
        * rewrite decide_False by (intros [_ ?]; done). done.
        * rewrite decide_True by done. by rewrite Hnewer.
      + rewrite best_snoc, Hupd. unfold set_dir. destruct d eqn:Hd; simpl.
        * rewrite decide_True by done. by rewrite Hnewer.
        * rewrite decide_False by (intros [_ ?]; done). done.
      + intros s d0 Hne. rewrite best_snoc, Hupd. rewrite decide_False; [done|]. intros [? _]. done.
    - (* rejected: the stored update is at least as new *)
      rewrite (step_err_unchanged _ _ _ _ _ Hstep).
      apply inv_unchanged; [done|done| |intros; by left|intros s Hs; by apply Hna in Hs].
      intros s d0. rewrite best_snoc, Hupd. case_decide as Hd0; [|by left]. right.
      destruct Hd0 as [<- <-].
      destruct (best p (cu_scid m) d) as [b|] eqn:Hb; simpl.
      + destruct (ui_ts b <? cu_ts m) eqn:Hlt; [|done]. exfalso.
        destruct (chan_upd_accepts cf g via sg m now c) as [v Hok]; [|simpl in Hstep; congruence].
        unfold upd_guards. fold d. split_and!; try done.
        * intros cap Hcc. apply Hcapv. congruence.
        * intros old Hold. rewrite Hdir in Hold. injection Hold as <-. simpl in Hlt. lia.
        * intros s0 Hs0. specialize (Hsig s0 Hs0). simpl in Hsig. fold d in Hsig.
          unfold dir_node. rewrite H1, H2. done.
      + exfalso.
        destruct (chan_upd_accepts cf g via sg m now c) as [v Hok]; [|simpl in Hstep; congruence].
        unfold upd_guards. fold d. split_and!; try done.
        * intros cap Hcc. apply Hcapv. congruence.
        * intros old Hold. rewrite Hdir in Hold. done.
        * intros s0 Hs0. specialize (Hsig s0 Hs0). simpl in Hsig. fold d in Hsig.
          unfold dir_node. rewrite H1, H2. done.
  Qed.

  (** *** node_announcement *)
  Lemma inv_set_node p g o nid n a' :
    inv p g → dep_ok p o →
    (∀ s, ¬ is_ann o s) → (∀ n, ¬ ann_has_node o n) → (∀ s d, upd_of s d o = None) →
    g_nodes g !! nid = Some n → a' = bestn (p ++ [o]) nid →
    (∀ n', n' ≠ nid → bestn (p ++ [o]) n' = bestn p n') →
    inv (p ++ [o]) (Graph (g_chans g) (<[nid := Node (n_chans n) a']> (g_nodes g)) (g_rmc g) (g_rmn g)).
  Proof.
    intros [I1 I2 I3 I4 I5 I6 I7] Hdep Hna Hnn Hno Hn Ha' Hother.
    assert (∀ s d, best (p ++ [o]) s d = best p s d) as Hb.
    { intros s d. by rewrite best_snoc, Hno. }
    split; simpl; try done.
    - intros s c Hc. destruct (I3 _ _ Hc) as (via0 & sg0 & a0 & u0 & now0 & Hin0 & H).
      exists via0, sg0, a0, u0, now0. rewrite !Hb. split; [apply elem_snoc; by left|done].
    - intros s Hc x [Hx| ->]%elem_snoc; [by eapply I4|apply Hna].
    - intros nid' n' [[<- <-]|[Hne Hn']]%lookup_insert_Some; simpl.
      + destruct (I5 _ _ Hn) as (Hnd & Hl & Ha). split_and!; [done| |done].
        intros s. rewrite Hl. split.
        * intros (x & Hx & H). exists x. split; [apply elem_snoc; by left|done].
        * intros (x & [Hx| ->]%elem_snoc & Hia & Hh); [by exists x|]. by apply Hna in Hia.
      + destruct (I5 _ _ Hn') as (Hnd & Hl & Ha). split_and!; [done| |by rewrite Hother].
        intros s. rewrite Hl. split.
        * intros (x & Hx & H). exists x. split; [apply elem_snoc; by left|done].
        * intros (x & [Hx| ->]%elem_snoc & Hia & Hh); [by exists x|]. by apply Hna in Hia.
    - intros nid' [Hne Hn']%lookup_insert_None x [Hx| ->]%elem_snoc; [by eapply I6|apply Hnn].
    - intros x [Hx| ->]%elem_snoc; apply dep_ok_mono; [by apply I7|done].
  Qed.

  Lemma node_ann_accepts g via sg m n :
    g_nodes g !! nm_nid m = Some n → (∀ a, n_ann n = Some a → na_ts a < nm_ts m) →
    nann_valid cf sg m →
    ∃ v, node_ann_step cf g via sg m =
         (GOk v, Graph (g_chans g)
                   (<[nm_nid m := Node (n_chans n) (Some (nann_info sg m))]> (g_nodes g))
                   (g_rmc g) (g_rmn g)).
  Proof.
    intros Hn Hts Hval.
    assert (∀ s, node_intern g m s =
                 (GOk VUnit, Graph (g_chans g)
                    (<[nm_nid m := Node (n_chans n)
                         (Some (NAnn (nm_ts m) (nm_content m)
                                  (if s && node_should_relay m then Some (nm_mid m) else None)))]>
                       (g_nodes g)) (g_rmc g) (g_rmn g))) as Hint.
    { intros s. unfold node_intern. rewrite Hn. destruct (n_ann n) as [a|] eqn:Ha; [|done].
      specialize (Hts a eq_refl).
      assert ((nm_ts m <? na_ts a) = false) as -> by lia.
      assert ((na_ts a =? nm_ts m) = false) as -> by lia. done. }
    unfold node_ann_step, nann_info. destruct sg as [b|]; simpl.
    - destruct (Hval b eq_refl) as [Hpk ->]. rewrite Hn, Hpk. simpl.
      assert (match n_ann n with Some a => na_ts a =? nm_ts m | None => false end = false) as ->.
      { destruct (n_ann n) as [a|] eqn:Ha; [|done]. specialize (Hts a eq_refl). lia. }
      rewrite Hint. destruct via; by eexists.
    - rewrite Hint. by eexists.
  Qed.

  Lemma inv_step_node p g via sg m :
    inv p g → (∀ x, x ∈ p ++ [ONodeAnn via sg m] → x ∈ L) →
    dep_ok p (ONodeAnn via sg m) →
    inv (p ++ [ONodeAnn via sg m]) (step cf g (ONodeAnn via sg m)).2.
  Proof.
    intros Hinv Hsub Hdep. set (o := ONodeAnn via sg m).
    assert (o ∈ L) as HoL by (apply Hsub, elem_snoc; by right).
    pose proof (vs_kinds _ _ HL _ HoL) as Hval. simpl in Hval. destruct Hval as (Hval & _).
    pose proof Hinv as [I1 I2 I3 I4 I5 I6 I7].
    pose proof Hdep as (o' & Ho'p & Hhn).
    destruct (g_nodes g !! nm_nid m) as [n|] eqn:Hn; [|exfalso; by eapply I6].
    destruct (I5 _ _ Hn) as (_ & _ & Hann).
    assert (∀ n0, nann_of n0 o = if decide (nm_nid m = n0) then Some (nann_info sg m) else None) as Hno by done.
    assert (∀ s, ¬ is_ann o s) as Hna by (intros ? []; done).
    assert (∀ n0, ¬ ann_has_node o n0) as Hnn by done.
    assert (∀ s d, upd_of s d o = None) as Hnu by done.
    destruct (bestn p (nm_nid m)) as [b|] eqn:Hb.
    - destruct (na_ts b <? nm_ts m) eqn:Hlt.
      + (* accepted *)
        destruct (node_ann_accepts g via sg m n) as [v Hok]; [done| |done|].
        { intros a0 Ha0. rewrite Hann in Ha0. injection Ha0 as <-. lia. }
        simpl. rewrite Hok. simpl. apply inv_set_node; try done.
        * rewrite bestn_snoc, Hno, decide_True by done. rewrite Hb. simpl. by rewrite Hlt.
        * intros n' Hne. rewrite bestn_snoc, Hno, decide_False by done. done.
      + (* rejected *)
        destruct (step cf g o) as [[v|e] g'] eqn:Hstep; simpl.
        * exfalso. simpl in Hstep. apply node_ann_accept in Hstep as (_ & v' & Hint).
          apply node_intern_ok in Hint as (n0 & Hn0 & Hts & _). rewrite Hn in Hn0. injection Hn0 as <-.
          specialize (Hts b Hann). lia.
        * rewrite (step_err_unchanged _ _ _ _ _ Hstep).
          apply inv_unchanged; [done|done|intros; by left| |intros s Hs; by apply Hna in Hs].
          intros n0. rewrite bestn_snoc, Hno. case_decide as Hd; [|by left]. right. subst n0.
          rewrite Hb. simpl. by rewrite Hlt.
    - (* first announcement of this node: accepted *)
      destruct (node_ann_accepts g via sg m n) as [v Hok]; [done| |done|].
      { intros a0 Ha0. rewrite Hann in Ha0. done. }
      simpl. rewrite Hok. simpl. apply inv_set_node; try done.
      + rewrite bestn_snoc, Hno, decide_True by done. by rewrite Hb.
      + intros n' Hne. rewrite bestn_snoc, Hno, decide_False by done. done.
  Qed.

  (** *** any delivery of a valid set *)
  Lemma inv_step p g o :
    inv p g → (∀ x, x ∈ p ++ [o] → x ∈ L) → dep_ok p o →
    inv (p ++ [o]) (step cf g o).2.
  Proof.
    intros Hinv Hsub Hdep.
    assert (o ∈ L) as HoL by (apply Hsub, elem_snoc; by right).
    pose proof (vs_kinds _ _ HL _ HoL) as Hval.
    destruct o; try done.
    - by apply inv_step_ann.
    - by apply inv_step_upd.
    - by apply inv_step_node.
  Qed.
End step.

(** ** The graph is determined by the delivered list *)
Lemma run_inv cf L :
  valid_set cf L → admissible [] L → inv L (run cf g_init L).
Proof.
  intros HL Hadm.
  assert (∀ p rest, L = p ++ rest → inv p (run cf g_init p)) as Hpre.
  { induction p as [|o p IH] using rev_ind; intros rest HLp; [apply inv_init|].
    rewrite run_snoc. rewrite <-app_assoc in HLp. simpl in HLp.
    apply (inv_step cf L HL).
    - by eapply IH.
    - intros x Hx. rewrite HLp.
      apply elem_snoc in Hx as [Hx| ->]; apply elem_of_app; [by left|right; apply elem_of_list_here].
    - rewrite HLp in Hadm. by apply admissible_app in Hadm. }
  apply (Hpre L []). by rewrite app_nil_r.
Qed.

(** ** Two deliveries of the same messages *)
Section same.
  Context (L1 L2 : list op) (Hsame : same_messages L1 L2).

  Lemma same_ann via sg a u now :
    OChanAnn via sg a u now ∈ L1 → ∃ via' now', OChanAnn via' sg a u now' ∈ L2.
  Proof.
    intros Hin. assert (strip (OChanAnn via sg a u now) ∈ strip <$> L2) as Hs.
    { apply Hsame. apply elem_of_list_fmap. by eexists. }
    apply elem_of_list_fmap in Hs as (o2 & Heq & Hin2). destruct o2; simpl in Heq; try done.
    injection Heq as <- <- <-. by eexists _, _.
  Qed.

  Lemma same_upd via sg m now ov :
    OChanUpd via sg m now ov ∈ L1 → ∃ via' now', OChanUpd via' sg m now' ov ∈ L2.
  Proof.
    intros Hin. assert (strip (OChanUpd via sg m now ov) ∈ strip <$> L2) as Hs.
    { apply Hsame. apply elem_of_list_fmap. by eexists. }
    apply elem_of_list_fmap in Hs as (o2 & Heq & Hin2). destruct o2; simpl in Heq; try done.
    injection Heq as <- <- <-. by eexists _, _.
  Qed.

  Lemma same_node via sg m :
    ONodeAnn via sg m ∈ L1 → ∃ via', ONodeAnn via' sg m ∈ L2.
  Proof.
    intros Hin. assert (strip (ONodeAnn via sg m) ∈ strip <$> L2) as Hs.
    { apply Hsame. apply elem_of_list_fmap. by eexists. }
    apply elem_of_list_fmap in Hs as (o2 & Heq & Hin2). destruct o2; simpl in Heq; try done.
    injection Heq as <- <-. by eexists.
  Qed.

  Lemma same_upd_set scid d x :
    x ∈ omap (upd_of scid d) L1 → x ∈ omap (upd_of scid d) L2.
  Proof.
    intros (o & Ho & Hx)%elem_of_list_omap. destruct o; try done.
    destruct (same_upd _ _ _ _ _ Ho) as (via' & now' & Hin2).
    apply elem_of_list_omap. eexists. split; [done|]. done.
  Qed.

  Lemma same_nann_set nid x :
    x ∈ omap (nann_of nid) L1 → x ∈ omap (nann_of nid) L2.
  Proof.
    intros (o & Ho & Hx)%elem_of_list_omap. destruct o; try done.
    destruct (same_node _ _ _ Ho) as (via' & Hin2).
    apply elem_of_list_omap. eexists. split; [done|]. done.
  Qed.

  Lemma same_is_ann o scid nid :
    o ∈ L1 → is_ann o scid → ∃ o2, o2 ∈ L2 ∧ is_ann o2 scid ∧ (ann_has_node o nid → ann_has_node o2 nid).
  Proof.
    intros Ho Hia. destruct o; try done. destruct (same_ann _ _ _ _ _ Ho) as (via' & now' & Hin2).
    eexists. split; [done|]. done.
  Qed.
End same.

Lemma same_messages_sym L1 L2 : same_messages L1 L2 → same_messages L2 L1.
Proof. intros H o. symmetry. apply H. Qed.

Lemma upd_distinct cf L scid d :
  valid_set cf L →
  ∀ x y, x ∈ omap (upd_of scid d) L → y ∈ omap (upd_of scid d) L → ui_ts x = ui_ts y → x = y.
Proof.
  intros HL x y (ox & Hox & Hx)%elem_of_list_omap (oy & Hoy & Hy)%elem_of_list_omap Hts.
  destruct ox as [| |v1 s1 m1 t1 o1| | | | |]; try done.
  destruct oy as [| |v2 s2 m2 t2 o2| | | | |]; try done.
  simpl in Hx, Hy. repeat case_decide; try done. simplify_eq.
  destruct (vs_upd_distinct _ _ HL _ _ _ _ _ _ _ _ _ _ Hox Hoy) as [-> ->]; naive_solver.
Qed.

Lemma nann_distinct cf L nid :
  valid_set cf L →
  ∀ x y, x ∈ omap (nann_of nid) L → y ∈ omap (nann_of nid) L → na_ts x = na_ts y → x = y.
Proof.
  intros HL x y (ox & Hox & Hx)%elem_of_list_omap (oy & Hoy & Hy)%elem_of_list_omap Hts.
  destruct ox as [| | |v1 s1 m1| | | |]; try done.
  destruct oy as [| | |v2 s2 m2| | | |]; try done.
  simpl in Hx, Hy. repeat case_decide; try done. simplify_eq.
  destruct (vs_node_distinct _ _ HL _ _ _ _ _ _ Hox Hoy) as [-> ->]; naive_solver.
Qed.

Lemma best_same cf L1 L2 scid d :
  valid_set cf L1 → same_messages L1 L2 → best L1 scid d = best L2 scid d.
Proof.
  intros HL Hs. unfold best. apply latest_set_eq.
  - intros x. split; [by apply same_upd_set|apply same_upd_set; by apply same_messages_sym].
  - by eapply upd_distinct.
Qed.

Lemma bestn_same cf L1 L2 nid :
  valid_set cf L1 → same_messages L1 L2 → bestn L1 nid = bestn L2 nid.
Proof.
  intros HL Hs. unfold bestn. apply latest_set_eq.
  - intros x. split; [by apply same_nann_set|apply same_nann_set; by apply same_messages_sym].
  - by eapply nann_distinct.
Qed.

(** one direction of the comparison *)
Lemma equiv_half cf L1 L2 g1 g2 :
  valid_set cf L1 → valid_set cf L2 → same_messages L1 L2 →
  inv L1 g1 → inv L2 g2 → wf g1 →
  (∀ scid c1, g_chans g1 !! scid = Some c1 →
     ∃ c2, g_chans g2 !! scid = Some c2 ∧ chan_content c1 = chan_content c2) ∧
  (∀ nid n1, g_nodes g1 !! nid = Some n1 →
     ∃ n2, g_nodes g2 !! nid = Some n2 ∧ n_ann n1 = n_ann n2 ∧
           ∀ s, s ∈ n_chans n1 → s ∈ n_chans n2).
Proof.
  intros HL1 HL2 Hs [A1 A2 A3 A4 A5 A6 A7] [B1 B2 B3 B4 B5 B6 B7] Hwf. split.
  - intros scid c1 Hc1.
    destruct (A3 _ _ Hc1) as (via & sg & a & u & now & Hin & Hscid & Hf & H1 & H2 & Hcap & Hmsg & H12 & H21).
    destruct (same_ann _ _ Hs _ _ _ _ _ Hin) as (via' & now' & Hin2).
    destruct (g_chans g2 !! scid) as [c2|] eqn:Hc2; [|exfalso; by eapply (B4 _ Hc2 _ Hin2)].
    exists c2. split; [done|].
    destruct (B3 _ _ Hc2) as (via0 & sg0 & a0 & u0 & now0 & Hin0 & Hscid0 & Hf' & H1' & H2' & Hcap' & Hmsg' & H12' & H21').
    destruct (vs_ann_unique _ _ HL2 _ _ _ _ _ _ _ _ _ _ Hin0 Hin2) as (-> & -> & ->); [congruence|].
    rewrite (best_same cf L1 L2) in H12, H21 by done.
    destruct c1, c2. unfold chan_content. simpl in *. congruence.
  - intros nid n1 Hn1. destruct (A5 _ _ Hn1) as (Hnd1 & Hl1 & Ha1).
    destruct Hwf as [_ Hok _]. destruct (Hok _ _ Hn1) as [Hne _].
    destruct (n_chans n1) as [|s0 l0] eqn:Hch; [done|].
    assert (s0 ∈ s0 :: l0) as Hs0 by apply elem_of_list_here.
    apply Hl1 in Hs0 as (o & Ho & Hia & Hhn).
    destruct (same_is_ann _ _ Hs o s0 nid Ho Hia) as (o2 & Ho2 & Hia2 & Hhn2).
    destruct (g_nodes g2 !! nid) as [n2|] eqn:Hn2; [|exfalso; eapply (B6 _ Hn2 _ Ho2); by apply Hhn2].
    exists n2. destruct (B5 _ _ Hn2) as (Hnd2 & Hl2 & Ha2). split_and!; [done| |].
    + rewrite Ha1, Ha2. by eapply bestn_same.
    + intros s Hin. apply Hl1 in Hin as (x & Hx & Hxa & Hxn).
      apply Hl2. destruct (same_is_ann _ _ Hs x s nid Hx Hxa) as (x2 & Hx2 & Hxa2 & Hxn2).
      exists x2. split_and!; [done..|by apply Hxn2].
Qed.

Lemma order_independent cf L1 L2 :
  valid_set cf L1 → valid_set cf L2 → admissible [] L1 → admissible [] L2 → same_messages L1 L2 →
  graph_equiv (run cf g_init L1) (run cf g_init L2).
Proof.
  intros HL1 HL2 Ha1 Ha2 Hs.
  pose proof (run_inv cf L1 HL1 Ha1) as I1. pose proof (run_inv cf L2 HL2 Ha2) as I2.
  pose proof (run_wf cf g_init L1 init_wf) as W1. pose proof (run_wf cf g_init L2 init_wf) as W2.
  destruct (equiv_half cf L1 L2 _ _ HL1 HL2 Hs I1 I2 W1) as [C12 N12].
  destruct (equiv_half cf L2 L1 _ _ HL2 HL1 (same_messages_sym _ _ Hs) I2 I1 W2) as [C21 N21].
  split_and!.
  - intros scid. destruct (g_chans (run cf g_init L1) !! scid) as [c1|] eqn:Hc1.
    + destruct (C12 _ _ Hc1) as (c2 & -> & He). simpl. by rewrite He.
    + destruct (g_chans (run cf g_init L2) !! scid) as [c2|] eqn:Hc2; [|done].
      destruct (C21 _ _ Hc2) as (c1 & Hc1' & _). congruence.
  - intros nid. destruct (g_nodes (run cf g_init L1) !! nid) as [n1|] eqn:Hn1.
    + destruct (N12 _ _ Hn1) as (n2 & Hn2 & Ha & Hsub). rewrite Hn2. simpl. split; [|done].
      destruct (N21 _ _ Hn2) as (n1' & Hn1' & _ & Hsub'). rewrite Hn1 in Hn1'. injection Hn1' as <-.
      apply NoDup_Permutation.
      * by apply (inv_node_some _ _ I1 _ _ Hn1).
      * by apply (inv_node_some _ _ I2 _ _ Hn2).
      * intros x. split; [apply Hsub|apply Hsub'].
    + destruct (g_nodes (run cf g_init L2) !! nid) as [n2|] eqn:Hn2; [|done].
      destruct (N21 _ _ Hn2) as (n1 & Hn1' & _). congruence.
  - by rewrite (inv_rmc _ _ I1), (inv_rmc _ _ I2).
  - by rewrite (inv_rmn _ _ I1), (inv_rmn _ _ I2).
Qed.
