(** C18, BOLT 12 stateless metadata: what a successful verification establishes, that derivation
    and verification agree, and that metadata derived for one (key, records) pair is refused for
    any other pair unless the MAC (or the key map) collides. *)
Require Import LdkV.Prim.U64 LdkV.Model.Bolt12Merkle LdkV.Model.OfferMeta.
Open Scope Z_scope.

Lemma bytes_eqb_eq a : forall b, bytes_eqb a b = true <-> a = b.
Proof.
  induction a as [|x a IH]; intros [|y b]; cbn [bytes_eqb]; split; intros Hx; try reflexivity; try discriminate.
  - apply andb_true_iff in Hx. destruct Hx as [Hxy Hab]. apply Z.eqb_eq in Hxy. apply IH in Hab. subst. reflexivity.
  - inversion Hx; subst. rewrite Z.eqb_refl. apply IH. reflexivity.
Qed.

Lemma bytes_eqb_refl a : bytes_eqb a a = true.
Proof. apply bytes_eqb_eq. reflexivity. Qed.

Section MetaProof.
  Variable hmac : bytes -> bytes -> bytes.
  Variable pk_of_sk : bytes -> bytes.

  Notation verify_metadata := (verify_metadata pk_of_sk).
  Notation verify_recipient_metadata := (verify_recipient_metadata hmac pk_of_sk).
  Notation verify_payer_metadata := (verify_payer_metadata hmac pk_of_sk).
  Notation derive_metadata := (derive_metadata hmac).
  Notation derive_metadata_and_keys := (derive_metadata_and_keys hmac).

  (** * What acceptance means *)

  Lemma verify_metadata_bound md mac pk :
    verify_metadata md mac pk <> VErr ->
    (List.length md = 48%nat /\ skipn 16 md = mac /\ verify_metadata md mac pk = VOkMetadata) \/
    (List.length md = 16%nat /\ pk = pk_of_sk mac /\ verify_metadata md mac pk = VOkDerivedKeys mac).
  Proof.
    unfold OfferMeta.verify_metadata, NONCE_LEN, HMAC_LEN. intros Hv.
    destruct (Nat.eqb_spec (List.length md) 16) as [E|E].
    - right. destruct (bytes_eqb pk (pk_of_sk mac)) eqn:Eb; [|congruence].
      apply bytes_eqb_eq in Eb. repeat split; assumption.
    - left. destruct (Nat.eqb_spec (List.length md) (16 + 32)) as [E2|E2]; cbn [andb] in *; [|congruence].
      destruct (bytes_eqb (skipn 16 md) mac) eqn:Eb; [|congruence].
      apply bytes_eqb_eq in Eb. repeat split; assumption.
  Qed.

  (** [verify_recipient_metadata]: metadata = nonce ‖ HMAC(key, iv ‖ nonce ‖ records ‖ markers),
      or (16-byte form) the signing key is the one derived from that HMAC. *)
  Lemma recipient_metadata_bound key md iv pk recs :
    verify_recipient_metadata key md iv pk recs <> VErr ->
    (List.length md = 48%nat /\
     skipn 16 md = hmac key ((iv ++ firstn 16 md ++ List.concat recs ++ DERIVED_METADATA_HMAC_INPUT)
                              ++ WITHOUT_ENCRYPTED_PAYMENT_ID_HMAC_INPUT)) \/
    (List.length md = 16%nat /\
     pk = pk_of_sk (hmac key ((iv ++ firstn 16 md ++ List.concat recs ++ DERIVED_METADATA_AND_KEYS_HMAC_INPUT)
                              ++ WITHOUT_ENCRYPTED_PAYMENT_ID_HMAC_INPUT))).
  Proof.
    unfold OfferMeta.verify_recipient_metadata, hmac_input, NONCE_LEN. intros Hv.
    destruct (Nat.ltb_spec (List.length md) 16) as [Hl|Hl]; [congruence|].
    apply verify_metadata_bound in Hv. destruct Hv as [[Hlen [Hs _]] | [Hlen [Hp _]]].
    - left. split; [exact Hlen|]. rewrite Hs. rewrite Hlen. reflexivity.
    - right. split; [exact Hlen|]. rewrite Hp. rewrite Hlen. reflexivity.
  Qed.

  Lemma payer_metadata_bound key md iv pk recs :
    verify_payer_metadata key md iv pk recs <> VErr ->
    let enc := firstn 32 md in let rest := skipn 32 md in
    (List.length rest = 48%nat /\
     skipn 16 rest = hmac key ((iv ++ firstn 16 rest ++ List.concat recs ++ DERIVED_METADATA_HMAC_INPUT)
                                ++ WITH_ENCRYPTED_PAYMENT_ID_HMAC_INPUT ++ enc)) \/
    (List.length rest = 16%nat /\
     pk = pk_of_sk (hmac key ((iv ++ firstn 16 rest ++ List.concat recs ++ DERIVED_METADATA_AND_KEYS_HMAC_INPUT)
                                ++ WITH_ENCRYPTED_PAYMENT_ID_HMAC_INPUT ++ enc))).
  Proof.
    unfold OfferMeta.verify_payer_metadata, hmac_input, NONCE_LEN, PAYMENT_ID_LEN. intros Hv. cbv zeta in *.
    destruct (Nat.ltb_spec (List.length md) 32) as [Hl|Hl]; [congruence|].
    destruct (Nat.ltb_spec (List.length (skipn 32 md)) 16) as [Hl2|Hl2]; [congruence|].
    apply verify_metadata_bound in Hv. destruct Hv as [[Hlen [Hs _]] | [Hlen [Hp _]]].
    - left. split; [exact Hlen|]. rewrite Hs. rewrite Hlen. reflexivity.
    - right. split; [exact Hlen|]. rewrite Hp. rewrite Hlen. reflexivity.
  Qed.

  (** * Derivation and verification agree *)

  Hypothesis hmac_len : forall k m, List.length (hmac k m) = 32%nat.

  Lemma firstn_app_exact {A} (a b : list A) n : List.length a = n -> firstn n (a ++ b) = a.
  Proof. intros <-. rewrite firstn_app, Nat.sub_diag, firstn_all, firstn_O, app_nil_r. reflexivity. Qed.
  Lemma skipn_app_exact {A} (a b : list A) n : List.length a = n -> skipn n (a ++ b) = b.
  Proof. intros <-. rewrite skipn_app, Nat.sub_diag, skipn_all, skipn_O. reflexivity. Qed.

  Lemma derive_verify_recipient key iv nonce pk recs : List.length nonce = 16%nat ->
    verify_recipient_metadata key (derive_metadata key iv nonce None recs) iv pk recs = VOkMetadata.
  Proof.
    intros Hn. unfold OfferMeta.derive_metadata, OfferMeta.verify_recipient_metadata, hmac_input, enc_prefix, id_marker.
    cbn [app]. unfold NONCE_LEN. rewrite app_length, Hn, hmac_len.
    cbn [Nat.ltb Nat.leb Nat.eqb Nat.add]. rewrite firstn_app_exact by exact Hn.
    unfold OfferMeta.verify_metadata, NONCE_LEN, HMAC_LEN. rewrite app_length, Hn, hmac_len.
    cbn [Nat.eqb Nat.add andb]. rewrite skipn_app_exact by exact Hn.
    repeat rewrite <- app_assoc. rewrite bytes_eqb_refl. reflexivity.
  Qed.

  Lemma derive_keys_verify_recipient key iv nonce recs : List.length nonce = 16%nat ->
    let '(md, sk) := derive_metadata_and_keys key iv nonce None recs in
    verify_recipient_metadata key md iv (pk_of_sk sk) recs = VOkDerivedKeys sk.
  Proof.
    intros Hn. unfold OfferMeta.derive_metadata_and_keys, OfferMeta.verify_recipient_metadata, hmac_input, enc_prefix, id_marker.
    cbn [app]. unfold NONCE_LEN. rewrite Hn. cbn [Nat.ltb Nat.leb Nat.eqb].
    rewrite <- Hn at 1. rewrite firstn_all.
    unfold OfferMeta.verify_metadata, NONCE_LEN. rewrite Hn. cbn [Nat.eqb].
    repeat rewrite <- app_assoc. rewrite bytes_eqb_refl. reflexivity.
  Qed.

  Lemma derive_verify_payer key iv nonce enc pk recs : List.length nonce = 16%nat -> List.length enc = 32%nat ->
    verify_payer_metadata key (derive_metadata key iv nonce (Some enc) recs) iv pk recs = VOkMetadata.
  Proof.
    intros Hn He. unfold OfferMeta.derive_metadata, OfferMeta.verify_payer_metadata, hmac_input, enc_prefix, id_marker.
    unfold NONCE_LEN, PAYMENT_ID_LEN. cbv zeta.
    rewrite !app_length, He, Hn, hmac_len. cbn [Nat.ltb Nat.leb Nat.add].
    rewrite (skipn_app_exact enc) by exact He. rewrite (firstn_app_exact enc) by exact He.
    rewrite app_length, Hn, hmac_len. cbn [Nat.ltb Nat.leb Nat.eqb Nat.add].
    rewrite firstn_app_exact by exact Hn.
    unfold OfferMeta.verify_metadata, NONCE_LEN, HMAC_LEN. rewrite app_length, Hn, hmac_len.
    cbn [Nat.eqb Nat.add andb]. rewrite skipn_app_exact by exact Hn.
    repeat rewrite <- app_assoc. rewrite bytes_eqb_refl. reflexivity.
  Qed.

  (** * Metadata made for other records or under another key is refused *)

  (** idealised MAC: no collisions across keys and messages *)
  Hypothesis hmac_inj : forall k m k' m', hmac k m = hmac k' m' -> k = k' /\ m = m'.
  Hypothesis pk_of_sk_inj : forall a b, pk_of_sk a = pk_of_sk b -> a = b.

  Lemma altered_refused_recipient key iv nonce recs key' pk recs' : List.length nonce = 16%nat ->
    verify_recipient_metadata key' (derive_metadata key iv nonce None recs) iv pk recs' <> VErr ->
    key' = key /\ List.concat recs' = List.concat recs.
  Proof.
    intros Hn Hv. apply recipient_metadata_bound in Hv.
    unfold OfferMeta.derive_metadata, enc_prefix, id_marker in Hv. cbn [app] in Hv.
    destruct Hv as [[_ Hs] | [Hl _]].
    - rewrite skipn_app_exact in Hs by exact Hn. rewrite firstn_app_exact in Hs by exact Hn.
      apply hmac_inj in Hs. destruct Hs as [Hk Hm]. split; [symmetry; exact Hk|].
      repeat rewrite <- app_assoc in Hm.
      apply app_inv_head in Hm. apply app_inv_head in Hm. apply app_inv_tail in Hm. symmetry. exact Hm.
    - rewrite app_length, Hn, hmac_len in Hl. discriminate Hl.
  Qed.

  Lemma altered_refused_recipient_keys key iv nonce recs key' recs' : List.length nonce = 16%nat ->
    let '(md, sk) := derive_metadata_and_keys key iv nonce None recs in
    verify_recipient_metadata key' md iv (pk_of_sk sk) recs' <> VErr ->
    key' = key /\ List.concat recs' = List.concat recs.
  Proof.
    intros Hn. unfold OfferMeta.derive_metadata_and_keys, enc_prefix, id_marker. cbn [app].
    intros Hv. apply recipient_metadata_bound in Hv.
    destruct Hv as [[Hl _] | [_ Hp]]; [rewrite Hn in Hl; discriminate Hl|].
    apply pk_of_sk_inj in Hp. rewrite firstn_all2 in Hp by lia.
    apply hmac_inj in Hp. destruct Hp as [Hk Hm]. split; [symmetry; exact Hk|].
    repeat rewrite <- app_assoc in Hm.
    apply app_inv_head in Hm. apply app_inv_head in Hm. apply app_inv_tail in Hm. symmetry. exact Hm.
  Qed.

  Lemma altered_refused_payer key iv nonce enc recs key' pk recs' :
    List.length nonce = 16%nat -> List.length enc = 32%nat ->
    verify_payer_metadata key' (derive_metadata key iv nonce (Some enc) recs) iv pk recs' <> VErr ->
    key' = key /\ List.concat recs' = List.concat recs.
  Proof.
    intros Hn He Hv. apply payer_metadata_bound in Hv. cbv zeta in Hv.
    unfold OfferMeta.derive_metadata, enc_prefix, id_marker in Hv.
    rewrite (skipn_app_exact enc) in Hv by exact He. rewrite (firstn_app_exact enc) in Hv by exact He.
    destruct Hv as [[_ Hs] | [Hl _]].
    - rewrite skipn_app_exact in Hs by exact Hn. rewrite firstn_app_exact in Hs by exact Hn.
      apply hmac_inj in Hs. destruct Hs as [Hk Hm]. split; [symmetry; exact Hk|].
      repeat rewrite <- app_assoc in Hm.
      apply app_inv_head in Hm. apply app_inv_head in Hm. apply app_inv_tail in Hm. symmetry. exact Hm.
    - rewrite app_length, Hn, hmac_len in Hl. discriminate Hl.
  Qed.
End MetaProof.

(** Statements in the form used by Props/C18.v *)
Lemma metadata_roundtrip_both (hmac : bytes -> bytes -> bytes) (pk_of_sk : bytes -> bytes) :
  (forall k m, List.length (hmac k m) = 32%nat) ->
  forall key iv nonce enc pk recs, List.length nonce = 16%nat -> List.length enc = 32%nat ->
    verify_recipient_metadata hmac pk_of_sk key (derive_metadata hmac key iv nonce None recs) iv pk recs = VOkMetadata /\
    verify_payer_metadata hmac pk_of_sk key (derive_metadata hmac key iv nonce (Some enc) recs) iv pk recs = VOkMetadata.
Proof.
  intros Hl key iv nonce enc pk recs Hn He.
  exact (conj (derive_verify_recipient hmac pk_of_sk Hl key iv nonce pk recs Hn)
              (derive_verify_payer hmac pk_of_sk Hl key iv nonce enc pk recs Hn He)).
Qed.

Lemma metadata_altered_refused_both (hmac : bytes -> bytes -> bytes) (pk_of_sk : bytes -> bytes) :
  (forall k m, List.length (hmac k m) = 32%nat) ->
  (forall k m k' m', hmac k m = hmac k' m' -> k = k' /\ m = m') ->
  forall key iv nonce enc recs key' pk recs', List.length nonce = 16%nat -> List.length enc = 32%nat ->
    (verify_recipient_metadata hmac pk_of_sk key' (derive_metadata hmac key iv nonce None recs) iv pk recs' <> VErr ->
       key' = key /\ List.concat recs' = List.concat recs) /\
    (verify_payer_metadata hmac pk_of_sk key' (derive_metadata hmac key iv nonce (Some enc) recs) iv pk recs' <> VErr ->
       key' = key /\ List.concat recs' = List.concat recs).
Proof.
  intros Hl Hi key iv nonce enc recs key' pk recs' Hn He.
  exact (conj (altered_refused_recipient hmac pk_of_sk Hl Hi key iv nonce recs key' pk recs' Hn)
              (altered_refused_payer hmac pk_of_sk Hl Hi key iv nonce enc recs key' pk recs' Hn He)).
Qed.
