(** C18, BOLT 12 stateless metadata: what a successful verification establishes, that derivation
    and verification agree, and that metadata derived for one (key, records) pair is refused for
    any other pair unless the MAC (or the key map) collides. *)
Require Import LdkV.Prim.U64 LdkV.Model.Bolt12Merkle LdkV.Model.OfferMeta.
Open Scope Z_scope.

Lemma bytes_eqb_eq a : forall b, bytes_eqb a b = true <-> a = b.
Proof.
  induction a as [|x a IH]; intros [|y b]; cbn [bytes_eqb]; split; intros Hx; try reflexivity; try discriminate.
  - apply andb_true_iff in Hx. destruct Hx as [Hxy Hab]. apply Z.eqb_eq in Hxy. apply IH in Hab. subst. reflexivity.
  - inversion Hx; subst. rewrite Z.eqb_refl. apply IH. reflexivity.
Qed.

Lemma bytes_eqb_refl a : bytes_eqb a a = true.
Proof. apply bytes_eqb_eq. reflexivity. Qed.

Section MetaProof.
  Variable hmac : bytes -> bytes -> bytes.
  Variable pk_of_sk : bytes -> bytes.

  Notation verify_metadata := (verify_metadata pk_of_sk).
  Notation verify_recipient_metadata := (verify_recipient_metadata hmac pk_of_sk).
  Notation verify_payer_metadata := (verify_payer_metadata hmac pk_of_sk).
  Notation derive_metadata := (derive_metadata hmac).
  Notation derive_metadata_and_keys := (derive_metadata_and_keys hmac).

  (** * What acceptance means *)

  Lemma verify_metadata_bound md mac pk :
    verify_metadata md mac pk <> VErr ->
    (List.length md = 48%nat /\ skipn 16 md = mac /\ verify_metadata md mac pk = VOkMetadata) \/
    (List.length md = 16%nat /\ pk = pk_of_sk mac /\ verify_metadata md mac pk = VOkDerivedKeys mac).
  Proof.
    unfold OfferMeta.verify_metadata, NONCE_LEN, HMAC_LEN. intros Hv.
    destruct (Nat.eqb_spec (List.length md) 16) as [E|E].
    - right. destruct (bytes_eqb pk (pk_of_sk mac)) eqn:Eb; [|congruence].
      apply bytes_eqb_eq in Eb. repeat split; assumption.
    - left. destruct (Nat.eqb_spec (List.length md) (16 + 32)) as [E2|E2]; cbn [andb] in *; [|congruence].
      destruct (bytes_eqb (skipn 16 md) mac) eqn:Eb; [|congruence].
      apply bytes_eqb_eq in Eb. repeat split; assumption.
  Qed.

  (** [verify_recipient_metadata]: metadata = nonce ‖ HMAC(key, iv ‖ nonce ‖ records ‖ markers),
      or (16-byte form) the signing key is the one derived from that HMAC. *)
  Lemma recipient_metadata_bound key md iv pk recs :
    verify_recipient_metadata key md iv pk recs <> VErr ->
    (List.length md = 48%nat /\
     skipn 16 md = hmac key ((iv ++ firstn 16 md ++ List.concat recs ++ DERIVED_METADATA_HMAC_INPUT)
                              ++ WITHOUT_ENCRYPTED_PAYMENT_ID_HMAC_INPUT)) \/
    (List.length md = 16%nat /\
     pk = pk_of_sk (hmac key ((iv ++ firstn 16 md ++ List.concat recs ++ DERIVED_METADATA_AND_KEYS_HMAC_INPUT)
                              ++ WITHOUT_ENCRYPTED_PAYMENT_ID_HMAC_INPUT))).
  Proof.
    unfold OfferMeta.verify_recipient_metadata, hmac_input, NONCE_LEN. intros Hv.
    destruct (Nat.ltb_spec (List.length md) 16) as [Hl|Hl]; [congruence|].
    apply verify_metadata_bound in Hv. destruct Hv as [[Hlen [Hs _]] | [Hlen [Hp _]]].
    - left. split; [exact Hlen|]. rewrite Hs. rewrite Hlen. reflexivity.
    - right. split; [exact Hlen|]. rewrite Hp. rewrite Hlen. reflexivity.
  Qed.

  Lemma payer_metadata_bound key md iv pk recs :
    verify_payer_metadata key md iv pk recs <> VErr ->
    let enc := firstn 32 md in let rest := skipn 32 md in
    (List.length rest = 48%nat /\
     skipn 16 rest = hmac key ((iv ++ firstn 16 rest ++ List.concat recs ++ DERIVED_METADATA_HMAC_INPUT)
                                ++ WITH_ENCRYPTED_PAYMENT_ID_HMAC_INPUT ++ enc)) \/
    (List.length rest = 16%nat /\
     pk = pk_of_sk (hmac key ((iv ++ firstn 16 rest ++ List.concat recs ++ DERIVED_METADATA_AND_KEYS_HMAC_INPUT)
                                ++ WITH_ENCRYPTED_PAYMENT_ID_HMAC_INPUT ++ enc))).
  Proof.
    unfold OfferMeta.verify_payer_metadata, hmac_input, NONCE_LEN, PAYMENT_ID_LEN. intros Hv. cbv zeta in *.
    destruct (Nat.ltb_spec (List.length md) 32) as [Hl|Hl]; [congruence|].
    destruct (Nat.ltb_spec (List.length (skipn 32 md)) 16) as [Hl2|Hl2]; [congruence|].
    apply verify_metadata_bound in Hv. destruct Hv as [[Hlen [Hs _]] | [Hlen [Hp _]]].
    - left. split; [exact Hlen|]. rewrite Hs. rewrite Hlen. reflexivity.
    - right. split; [exact Hlen|]. rewrite Hp. rewrite Hlen. reflexivity.
  Qed.

  (** * Derivation and verification agree *)

  Hypothesis hmac_len : forall k m, List.length (hmac k m) = 32%nat.

  Lemma firstn_app_exact {A} (a b : list A) n : List.length a = n -> firstn n (a ++ b) = a.
  Proof. intros <-. rewrite firstn_app, Nat.sub_diag, firstn_all, firstn_O, app_nil_r. reflexivity. Qed.
  Lemma skipn_app_exact {A} (a b : list A) n : List.length a = n -> skipn n (a ++ b) = b.
  Proof. intros <-. rewrite skipn_app, Nat.sub_diag, skipn_all, skipn_O. reflexivity. Qed.

  Lemma derive_verify_recipient key iv nonce pk recs : List.length nonce = 16%nat ->
    verify_recipient_metadata key (derive_metadata key iv nonce None recs) iv pk recs = VOkMetadata.
  Proof.
    intros Hn. unfold OfferMeta.derive_metadata, OfferMeta.verify_recipient_metadata, hmac_input, enc_prefix, id_marker.
    cbn [app]. unfold NONCE_LEN. rewrite app_length, Hn, hmac_len.
    cbn [Nat.ltb Nat.leb Nat.eqb Nat.add]. rewrite firstn_app_exact by exact Hn.
    unfold OfferMeta.verify_metadata, NONCE_LEN, HMAC_LEN. rewrite app_length, Hn, hmac_len.
    cbn [Nat.eqb Nat.add andb]. rewrite skipn_app_exact by exact Hn.
    repeat rewrite <- app_assoc. rewrite bytes_eqb_refl. reflexivity.
  Qed.

  Lemma derive_keys_verify_recipient key iv nonce recs : List.length nonce = 16%nat ->
    let '(md, sk) := derive_metadata_and_keys key iv nonce None recs in
    verify_recipient_metadata key md iv (pk_of_sk sk) recs = VOkDerivedKeys sk.
  Proof.
    intros Hn. unfold OfferMeta.derive_metadata_and_keys, OfferMeta.verify_recipient_metadata, hmac_input, enc_prefix, id_marker.
    cbn [app]. unfold NONCE_LEN. rewrite Hn. cbn [Nat.ltb Nat.leb Nat.eqb].
    rewrite <- Hn at 1. rewrite firstn_all.
    unfold OfferMeta.verify_metadata, NONCE_LEN. rewrite Hn. cbn [Nat.eqb].
    repeat rewrite <- app_assoc. rewrite bytes_eqb_refl. reflexivity.
  Qed.

  Lemma derive_verify_payer key iv nonce enc pk recs : List.length nonce = 16%nat -> List.length enc = 32%nat ->
    verify_payer_metadata key (derive_metadata key iv nonce (Some enc) recs) iv pk recs = VOkMetadata.
  Proof.
    intros Hn He. unfold OfferMeta.derive_metadata, OfferMeta.verify_payer_metadata, hmac_input, enc_prefix, id_marker.
    unfold NONCE_LEN, PAYMENT_ID_LEN. cbv zeta.
    rewrite !app_length, He, Hn, hmac_len. cbn [Nat.ltb Nat.leb Nat.add].
    rewrite (skipn_app_exact enc) by exact He. rewrite (firstn_app_exact enc) by exact He.
    rewrite app_length, Hn, hmac_len. cbn [Nat.ltb Nat.leb Nat.eqb Nat.add].
    rewrite firstn_app_exact by exact Hn.
    unfold OfferMeta.verify_metadata, NONCE_LEN, HMAC_LEN. rewrite app_length, Hn, hmac_len.
    cbn [Nat.eqb Nat.add andb]. rewrite skipn_app_exact by exact Hn.
    repeat rewrite <- app_assoc. rewrite bytes_eqb_refl. reflexivity.
  Qed.

  (** * Metadata made for other records or under another key is refused *)

  (** idealised MAC: no collisions across keys and messages *)
  Hypothesis hmac_inj : forall k m k' m', hmac k m = hmac k' m' -> k = k' /\ m = m'.
  Hypothesis pk_of_sk_inj : forall a b, pk_of_sk a = pk_of_sk b -> a = b.

  Lemma altered_refused_recipient key iv nonce recs key' pk recs' : List.length nonce = 16%nat ->
    verify_recipient_metadata key' (derive_metadata key iv nonce None recs) iv pk recs' <> VErr ->
    key' = key /\ List.concat recs' = List.concat recs.
  Proof.
    intros Hn Hv. apply recipient_metadata_bound in Hv.
    unfold OfferMeta.derive_metadata, enc_prefix, id_marker in Hv. cbn [app] in Hv.
    destruct Hv as [[_ Hs] | [Hl _]].
    - rewrite skipn_app_exact in Hs by exact Hn. rewrite firstn_app_exact in Hs by exact Hn.
      apply hmac_inj in Hs. destruct Hs as [Hk Hm]. split; [symmetry; exact Hk|].
      repeat rewrite <- app_assoc in Hm.
      apply app_inv_head in Hm. apply app_inv_head in Hm. apply app_inv_tail in Hm. symmetry. exact Hm.
    - rewrite app_length, Hn, hmac_len in Hl. discriminate Hl.
  Qed.

  Lemma altered_refused_recipient_keys key iv nonce recs key' recs' : List.length nonce = 16%nat ->
    let '(md, sk) := derive_metadata_and_keys key iv nonce None recs in
    verify_recipient_metadata key' md iv (pk_of_sk sk) recs' <> VErr ->
    key' = key /\ List.concat recs' = List.concat recs.
  Proof.
    intros Hn. unfold OfferMeta.derive_metadata_and_keys, enc_prefix, id_marker. cbn [app].
    intros Hv. apply recipient_metadata_bound in Hv.
    destruct Hv as [[Hl _] | [_ Hp]]; [rewrite Hn in Hl; discriminate Hl|].
    apply pk_of_sk_inj in Hp. rewrite firstn_all2 in Hp by lia.
    apply hmac_inj in Hp. destruct Hp as [Hk Hm]. split; [symmetry; exact Hk|].
    repeat rewrite <- app_assoc in Hm.
    apply app_inv_head in Hm. apply app_inv_head in Hm. apply app_inv_tail in Hm. symmetry. exact Hm.
  Qed.

  Lemma altered_refused_payer key iv nonce enc recs key' pk recs' :
    List.length nonce = 16%nat -> List.length enc = 32%nat ->
    verify_payer_metadata key' (derive_metadata key iv nonce (Some enc) recs) iv pk recs' <> VErr ->
    key' = key /\ List.concat recs' = List.concat recs.
  Proof.
    intros Hn He Hv. apply payer_metadata_bound in Hv. cbv zeta in Hv.
    unfold OfferMeta.derive_metadata, enc_prefix, id_marker in Hv.
    rewrite (skipn_app_exact enc) in Hv by exact He. rewrite (firstn_app_exact enc) in Hv by exact He.
    destruct Hv as [[_ Hs] | [Hl _]].
    - rewrite skipn_app_exact in Hs by exact Hn. rewrite firstn_app_exact in Hs by exact Hn.
      apply hmac_inj in Hs. destruct Hs as [Hk Hm]. split; [symmetry; exact Hk|].
      repeat rewrite <- app_assoc in Hm.
      apply app_inv_head in Hm. apply app_inv_head in Hm. apply app_inv_tail in Hm. symmetry. exact Hm.
    - rewrite app_length, Hn, hmac_len in Hl. discriminate Hl.
  Qed.
End MetaProof.

(** Statements in the form used by Props/C18.v *)
Lemma metadata_roundtrip_both (hmac : bytes -> bytes -> bytes) (pk_of_sk : bytes -> bytes) :
  (forall k m, List.length (hmac k m) = 32%nat) ->
  forall key iv nonce enc pk recs, List.length nonce = 16%nat -> List.length enc = 32%nat ->
    verify_recipient_metadata hmac pk_of_sk key (derive_metadata hmac key iv nonce None recs) iv pk recs = VOkMetadata /\
    verify_payer_metadata hmac pk_of_sk key (derive_metadata hmac key iv nonce (Some enc) recs) iv pk recs = VOkMetadata.
Proof.
  intros Hl key iv nonce enc pk recs Hn He.
  exact (conj (derive_verify_recipient hmac pk_of_sk Hl key iv nonce pk recs Hn)
              (derive_verify_payer hmac pk_of_sk Hl key iv nonce enc pk recs Hn He)).
Qed.

Lemma metadata_altered_refused_both (hmac : bytes -> bytes -> bytes) (pk_of_sk : bytes -> bytes) :
  (forall k m, List.length (hmac k m) = 32%nat) ->
  (forall k m k' m', hmac k m = hmac k' m' -> k = k' /\ m = m') ->
  forall key iv nonce enc recs key' pk recs', List.length nonce = 16%nat -> List.length enc = 32%nat ->
    (verify_recipient_metadata hmac pk_of_sk key' (derive_metadata hmac key iv nonce None recs) iv pk recs' <> VErr ->
       key' = key /\ List.concat recs' = List.concat recs) /\
    (verify_payer_metadata hmac pk_of_sk key' (derive_metadata hmac key iv nonce (Some enc) recs) iv pk recs' <> VErr ->
       key' = key /\ List.concat recs' = List.concat recs).
Proof.
  intros Hl Hi key iv nonce enc recs key' pk recs' Hn He.
  exact (conj (altered_refused_recipient hmac pk_of_sk Hl Hi key iv nonce recs key' pk recs' Hn)
              (altered_refused_payer hmac pk_of_sk Hl Hi key iv nonce enc recs key' pk recs' Hn He)).
Qed.

(** * Derived-key modes: the key record is bound by comparison of FULL encodings

    When the signing keys are derived (offer: keys from the path nonce or from 16-byte metadata;
    payer: 48-byte payer metadata), the key record itself (offer [issuer_id], type 22; request
    [payer_id], type 88) is excluded from the MAC input, so the comparison
    [signing_pubkey = pk_of_sk (hmac ...)] is the only thing that binds it.  The model compares the
    whole encodings (33 bytes for a compressed secp256k1 key, parity byte included). *)

Lemma swap_drop_while (p : bytes -> bool) r r' pre post : p r = p r' ->
  (exists s, drop_while p (pre ++ r :: post) = s ++ r :: post /\ drop_while p (pre ++ r' :: post) = s ++ r' :: post)
  \/ drop_while p (pre ++ r :: post) = drop_while p (pre ++ r' :: post).
Proof.
  intros Hp. induction pre as [|x pre IH]; cbn [app drop_while].
  - rewrite <- Hp. destruct (p r); [right; reflexivity | left; exists []; split; reflexivity].
  - destruct (p x); [exact IH | left; exists (x :: pre); split; reflexivity].
Qed.

Lemma take_while_stop (p : bytes -> bool) r pre post : p r = false ->
  take_while p (pre ++ r :: post) = take_while p pre.
Proof.
  intros Hp. induction pre as [|x pre IH]; cbn [app take_while]; [rewrite Hp; reflexivity|].
  destruct (p x); [rewrite IH; reflexivity | reflexivity].
Qed.

Lemma take_while_swap (p : bytes -> bool) r r' pre post : p r = p r' ->
  (exists s, take_while p (pre ++ r :: post) = s ++ r :: take_while p post /\
             take_while p (pre ++ r' :: post) = s ++ r' :: take_while p post)
  \/ take_while p (pre ++ r :: post) = take_while p (pre ++ r' :: post).
Proof.
  intros Hp. induction pre as [|x pre IH]; cbn [app take_while].
  - rewrite <- Hp. destruct (p r); [left; exists []; split; reflexivity | right; reflexivity].
  - destruct (p x); [|right; reflexivity].
    destruct IH as [[s [H1 H2]] | He]; [left; exists (x :: s); rewrite H1, H2; split; reflexivity | right; rewrite He; reflexivity].
Qed.

Lemma filter_swap_out (f : bytes -> bool) r r' s post : f r = false -> f r' = false ->
  filter f (s ++ r :: post) = filter f (s ++ r' :: post).
Proof. intros H1 H2. rewrite !filter_app. cbn [filter]. rewrite H1, H2. reflexivity. Qed.

(** Replacing the value of one record whose type is outside [lo,hi) does not change the range. *)
Lemma tlv_range_swap_outside lo hi r r' pre post :
  in_range lo hi r = false -> in_range lo hi r' = false ->
  tlv_range lo hi (pre ++ r :: post) = tlv_range lo hi (pre ++ r' :: post).
Proof.
  intros H1 H2. unfold tlv_range.
  destruct (swap_drop_while (fun x => negb (in_range lo hi x)) r r' pre post) as [[s [E1 E2]] | E];
    [rewrite H1, H2; reflexivity | | rewrite E; reflexivity].
  rewrite E1, E2. rewrite !take_while_stop by assumption. reflexivity.
Qed.

(** ... and inside the range the two results differ at most in that one record. *)
Lemma tlv_range_swap_inside lo hi r r' pre post : ty_of r = ty_of r' ->
  (exists s t, tlv_range lo hi (pre ++ r :: post) = s ++ r :: t /\ tlv_range lo hi (pre ++ r' :: post) = s ++ r' :: t)
  \/ tlv_range lo hi (pre ++ r :: post) = tlv_range lo hi (pre ++ r' :: post).
Proof.
  intros Ht. assert (Hin : in_range lo hi r = in_range lo hi r') by (unfold in_range; rewrite Ht; reflexivity).
  unfold tlv_range.
  destruct (swap_drop_while (fun x => negb (in_range lo hi x)) r r' pre post) as [[s [E1 E2]] | E];
    [rewrite Hin; reflexivity | | right; rewrite E; reflexivity].
  rewrite E1, E2.
  destruct (take_while_swap (in_range lo hi) r r' s post Hin) as [[s' [F1 F2]] | F];
    [left; exists s', (take_while (in_range lo hi) post); split; assumption | right; exact F].
Qed.

(** The records that enter the MAC in the path-derived mode do not depend on the value of the
    issuer-id record. *)
Lemma offer_records_ignore_issuer_id r r' pre post : ty_of r = 22 -> ty_of r' = 22 ->
  offer_records_for_metadata true (pre ++ r :: post) = offer_records_for_metadata true (pre ++ r' :: post).
Proof.
  intros H1 H2. unfold offer_records_for_metadata. f_equal.
  - destruct (tlv_range_swap_inside 1 80 r r' pre post ltac:(congruence)) as [[s [t [E1 E2]]] | E]; [|rewrite E; reflexivity].
    rewrite E1, E2. apply filter_swap_out; rewrite ?H1, ?H2; reflexivity.
  - apply tlv_range_swap_outside; unfold in_range; rewrite ?H1, ?H2; reflexivity.
Qed.

Lemma payer_records_ignore_payer_id r r' pre post : ty_of r = 88 -> ty_of r' = 88 ->
  payer_records_for_metadata true (pre ++ r :: post) = payer_records_for_metadata true (pre ++ r' :: post).
Proof.
  intros H1 H2. unfold payer_records_for_metadata. f_equal; [|f_equal].
  - apply tlv_range_swap_outside; unfold in_range; rewrite ?H1, ?H2; reflexivity.
  - destruct (tlv_range_swap_inside 80 160 r r' pre post ltac:(congruence)) as [[s [t [E1 E2]]] | E]; [|rewrite E; reflexivity].
    rewrite E1, E2. apply filter_swap_out; rewrite ?H1, ?H2; reflexivity.
  - apply tlv_range_swap_outside; unfold in_range; rewrite ?H1, ?H2; reflexivity.
Qed.

Section DerivedKeyBinding.
  Variable hmac : bytes -> bytes -> bytes.
  Variable pk_of_sk : bytes -> bytes.

  (** acceptance in the path-derived mode: the issuer-id record IS the full encoding of the derived key *)
  Lemma derived_key_binds_offer_record key nonce rs : List.length nonce = 16%nat ->
    offer_verify_using_recipient_data hmac pk_of_sk key nonce rs <> VErr ->
    find_record 22 rs =
      Some (pk_of_sk (hmac key ((IV_OFFER_WITHOUT_METADATA ++ firstn 16 nonce
                                   ++ List.concat (offer_records_for_metadata true rs)
                                   ++ DERIVED_METADATA_AND_KEYS_HMAC_INPUT)
                                  ++ WITHOUT_ENCRYPTED_PAYMENT_ID_HMAC_INPUT))).
  Proof.
    intros Hn Hv. unfold offer_verify_using_recipient_data in Hv.
    destruct (find_record 22 rs) as [id|]; [|congruence].
    apply recipient_metadata_bound in Hv. destruct Hv as [[Hl _] | [_ Hp]]; [rewrite Hn in Hl; discriminate Hl|].
    rewrite Hp. reflexivity.
  Qed.

  (** same for 16-byte offer metadata ([verify_using_metadata], keys derived from the metadata) *)
  Lemma derived_key_binds_offer_record_md key rs md : find_record 4 rs = Some md -> List.length md = 16%nat ->
    offer_verify_using_metadata hmac pk_of_sk key rs <> VErr ->
    find_record 22 rs =
      Some (pk_of_sk (hmac key ((IV_OFFER_WITH_METADATA ++ firstn 16 md
                                   ++ List.concat (offer_records_for_metadata true rs)
                                   ++ DERIVED_METADATA_AND_KEYS_HMAC_INPUT)
                                  ++ WITHOUT_ENCRYPTED_PAYMENT_ID_HMAC_INPUT))).
  Proof.
    intros Hm Hl Hv. unfold offer_verify_using_metadata in Hv. rewrite Hm in Hv.
    destruct (find_record 22 rs) as [id|]; [|congruence].
    unfold NONCE_LEN in Hv. rewrite Hl in Hv. cbn [Nat.eqb] in Hv.
    apply recipient_metadata_bound in Hv. destruct Hv as [[Hl' _] | [_ Hp]]; [rewrite Hl in Hl'; discriminate Hl'|].
    rewrite Hp. reflexivity.
  Qed.

  (** payer side: 48-byte payer metadata (encrypted payment id ‖ nonce), payer keys derived *)
  Lemma derived_key_binds_payer_record key iv rs md : find_record 0 rs = Some md -> List.length md = 48%nat ->
    invoice_verify_using_metadata hmac pk_of_sk key iv rs <> VErr ->
    find_record 88 rs =
      Some (pk_of_sk (hmac key ((iv ++ firstn 16 (skipn 32 md)
                                   ++ List.concat (payer_records_for_metadata true rs)
                                   ++ DERIVED_METADATA_AND_KEYS_HMAC_INPUT)
                                  ++ WITH_ENCRYPTED_PAYMENT_ID_HMAC_INPUT ++ firstn 32 md))).
  Proof.
    intros Hm Hl Hv. unfold invoice_verify_using_metadata in Hv. rewrite Hm in Hv.
    destruct (find_record 88 rs) as [id|]; [|congruence].
    unfold NONCE_LEN, PAYMENT_ID_LEN in Hv. rewrite Hl in Hv. cbn [Nat.eqb Nat.add] in Hv.
    apply payer_metadata_bound in Hv. cbv zeta in Hv.
    destruct Hv as [[Hl' _] | [_ Hp]]; [rewrite skipn_length, Hl in Hl'; discriminate Hl'|].
    rewrite Hp. reflexivity.
  Qed.

  Lemma find_record_swap t r pre post : ty_of r = t -> (forall x, In x pre -> ty_of x <> t) ->
    find_record t (pre ++ r :: post) = Some (record_value r).
  Proof.
    intros Hr Hpre. induction pre as [|x pre IH]; cbn [app find_record].
    - rewrite Hr, Z.eqb_refl. reflexivity.
    - destruct (Z.eqb_spec (ty_of x) t) as [E|E]; [exfalso; exact (Hpre x (or_introl eq_refl) E)|].
      apply IH. intros y Hy. apply Hpre. right. exact Hy.
  Qed.

  (** Hence: a stream and a copy of it in which only the VALUE of the issuer-id record differs
      (a flipped parity byte, or any other bit) cannot both be accepted. *)
  Lemma issuer_id_alteration_refused key nonce pre r r' post : List.length nonce = 16%nat ->
    ty_of r = 22 -> ty_of r' = 22 -> (forall x, In x pre -> ty_of x <> 22) ->
    offer_verify_using_recipient_data hmac pk_of_sk key nonce (pre ++ r :: post) <> VErr ->
    offer_verify_using_recipient_data hmac pk_of_sk key nonce (pre ++ r' :: post) <> VErr ->
    record_value r = record_value r'.
  Proof.
    intros Hn H1 H2 Hpre Hv Hv'.
    apply derived_key_binds_offer_record in Hv; [|exact Hn]. apply derived_key_binds_offer_record in Hv'; [|exact Hn].
    rewrite (find_record_swap 22 r pre post H1 Hpre) in Hv. rewrite (find_record_swap 22 r' pre post H2 Hpre) in Hv'.
    rewrite (offer_records_ignore_issuer_id r r' pre post H1 H2) in Hv. congruence.
  Qed.

  Lemma payer_id_alteration_refused key iv pre r r' post md :
    find_record 0 (pre ++ r :: post) = Some md -> find_record 0 (pre ++ r' :: post) = Some md -> List.length md = 48%nat ->
    ty_of r = 88 -> ty_of r' = 88 -> (forall x, In x pre -> ty_of x <> 88) ->
    invoice_verify_using_metadata hmac pk_of_sk key iv (pre ++ r :: post) <> VErr ->
    invoice_verify_using_metadata hmac pk_of_sk key iv (pre ++ r' :: post) <> VErr ->
    record_value r = record_value r'.
  Proof.
    intros Hm Hm' Hl H1 H2 Hpre Hv Hv'.
    apply (derived_key_binds_payer_record key iv _ md Hm Hl) in Hv.
    apply (derived_key_binds_payer_record key iv _ md Hm' Hl) in Hv'.
    rewrite (find_record_swap 88 r pre post H1 Hpre) in Hv. rewrite (find_record_swap 88 r' pre post H2 Hpre) in Hv'.
    rewrite (payer_records_ignore_payer_id r r' pre post H1 H2) in Hv. congruence.
  Qed.
End DerivedKeyBinding.
