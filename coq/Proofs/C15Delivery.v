(** C15 — proofs about the composed reader [Model/PeerRead.v]:
    - DELIVERY: the encrypted, arbitrarily fragmented stream produces exactly the events of the
      message gate applied to the plaintext message list, and both ends stay in lock-step;
    - a prefix of the stream (truncation) produces a prefix of those events;
    - TAMPER: a chunk that does not authenticate disconnects with no event;
    - a frame announcing fewer than [MIN_MSG_LEN] bytes disconnects;
    - INIT FIRST: for arbitrary input bytes the event order noise -> their Init -> deliveries holds;
    - NO PANIC: for arbitrary input bytes the reader ends [Alive] or [Disconnected]. *)
Require Import LdkV.Prim.U64 LdkV.Gen.NoiseConsts.
From Coq Require Import List.
Import ListNotations.
Require Import LdkV.Model.Noise LdkV.Model.Framing LdkV.Model.PeerGate LdkV.Model.PeerRead.
Require Import LdkV.Proofs.C15Framing LdkV.Proofs.C15Noise.
Open Scope Z_scope.

Section DeliveryProofs.
  Variable dh : bytes -> bytes -> bytes.
  Variable pub : bytes -> bytes.
  Variable pk_valid : bytes -> bool.
  Variable hkdf2 : bytes -> bytes -> bytes * bytes.
  Variable H : bytes -> bytes.
  Variable seal : bytes -> Z -> bytes -> bytes -> bytes.
  Variable open : bytes -> Z -> bytes -> bytes -> option bytes.
  Variable decode : bytes -> dres.
  Variable init_ok : bytes -> bool.
  Variable handler_ok : bytes -> bool.
  Variable our_node_secret : bytes.
  Variable our_ephemeral : bytes.

  Notation ph := (peer_handle dh pub pk_valid hkdf2 H seal open decode init_ok handler_ok
                              our_node_secret our_ephemeral).
  Notation gate_msg := (gate_msg decode init_ok handler_ok).
  Notation gate_trace := (gate_trace decode init_ok handler_ok).
  Notation enc_msg := (enc_msg hkdf2 seal).
  Notation enc_all := (enc_all hkdf2 seal).
  Notation dec_header := (dec_header hkdf2 open).
  Notation dec_body := (dec_body open).
  Notation rotate_send := (rotate_send hkdf2).
  Notation rotate_recv := (rotate_recv hkdf2).
  Notation fb := (feed_bytes pstate event ph).
  Notation cmpl := (complete pstate event ph).
  Notation athen := (andthen pstate event).

  (** reader state at a frame boundary *)
  Definition at_header (t : transport) (b : gstate) : rstate pstate :=
    mk_r (mk_p (Finished t) true b) 18%nat [].
  Definition at_body (t : transport) (b : gstate) (len : nat) : rstate pstate :=
    mk_r (mk_p (Finished t) false b) (len + 16)%nat [].

  Definition len_ok (m : bytes) : Prop := MIN_MSG_LEN <= blen m <= LN_MAX_MSG_LEN.

  (** ** one chunk *)
  Lemma header_chunk t b hdr rest :
    length hdr = 18%nat ->
    fb (at_header t b) (hdr ++ rest) =
    match dec_header t hdr with
    | None => mk_f (at_header t b) [] Disconnected
    | Some (len, t') =>
      if len <? MIN_MSG_LEN then mk_f (at_header t b) [] Disconnected
      else fb (at_body t' b (Z.to_nat len)) rest
    end.
  Proof.
    intros Hlen.
    rewrite feed_bytes_chunk; [|intros Hn; rewrite Hn in Hlen; discriminate | cbn; lia].
    unfold Framing.complete, at_header. cbn [r_s r_want r_buf app].
    unfold peer_handle. cbn [p_enc p_is_header p_gate get_noise_step].
    destruct (dec_header t hdr) as [[len t']|]; [|reflexivity].
    destruct (len <? MIN_MSG_LEN); [reflexivity|].
    rewrite andthen_alive. reflexivity.
  Qed.

  Lemma body_chunk t b (len : nat) body rest :
    length body = (len + 16)%nat ->
    fb (at_body t b len) (body ++ rest) =
    match dec_body t body with
    | None => mk_f (at_body t b len) [] Disconnected
    | Some (m, t') =>
      match gate_msg b m with
      | (evs, Some b') => athen (mk_f (at_header t' b') evs Alive) (fun st => fb st rest)
      | (evs, None) => mk_f (at_body t b len) evs Disconnected
      end
    end.
  Proof.
    intros Hlen.
    rewrite feed_bytes_chunk; [|intros Hn; rewrite Hn in Hlen; cbn in Hlen; lia | cbn; lia].
    unfold Framing.complete, at_body. cbn [r_s r_want r_buf app].
    unfold peer_handle. cbn [p_enc p_is_header p_gate get_noise_step].
    destruct (dec_body t body) as [[m t']|]; [|reflexivity].
    destruct (gate_msg b m) as [evs [b'|]]; reflexivity.
  Qed.

  Section WithAead.
    Hypothesis seal_len : forall k n ad p, length (seal k n ad p) = (length p + 16)%nat.
    Hypothesis open_seal : forall k n ad p, open k n ad (seal k n ad p) = Some p.

    (** ** DELIVERY on the whole stream *)
    Lemma delivery_bytes ms : forall ts tr b cs ts',
      synced ts tr -> Forall len_ok ms -> enc_all ts ms = Some (cs, ts') ->
      let r := fb (at_header tr b) (concat cs) in
      f_evs r = fst (gate_trace b ms) /\
      match snd (gate_trace b ms) with
      | Some b' =>
        f_status r = Alive /\
        exists tr', f_st r = at_header tr' b' /\ synced ts' tr' /\
                    t_sk tr' = t_sk tr /\ t_sn tr' = t_sn tr /\ t_sck tr' = t_sck tr
      | None => f_status r = Disconnected
      end.
    Proof.
      induction ms as [|m ms IH]; intros ts tr b cs ts' Hs Hok Hall.
      - cbn in Hall. inversion Hall; subst. cbn. split; [reflexivity|]. split; [reflexivity|].
        exists tr. auto.
      - cbn [Noise.enc_all] in Hall.
        inversion Hok as [|? ? Hm Hms]; subst.
        destruct (enc_dec_one hkdf2 seal open seal_len open_seal ts tr m Hs (proj2 Hm))
          as (hdr & body & ts1 & tr1 & tr2 & Henc & Hlh & Hlb & Hdh & Hdb & Hs2 & _ & _ & _ & Hu1 & Hu2 & Hu3).
        rewrite Henc in Hall.
        destruct (enc_all ts1 ms) as [[cs1 ts2]|] eqn:Hrest; [|discriminate].
        inversion Hall; subst cs ts'. clear Hall.
        cbn [concat]. rewrite <- app_assoc.
        rewrite header_chunk by exact Hlh. rewrite Hdh.
        destruct (Z.ltb_spec (blen m) MIN_MSG_LEN) as [Hbad|_]; [unfold len_ok in Hm; lia|].
        unfold blen. rewrite Nat2Z.id.
        rewrite body_chunk by exact Hlb. rewrite Hdb.
        cbn [PeerGate.gate_trace].
        destruct (gate_msg b m) as [evs [b1|]] eqn:Hg.
        + specialize (IH ts1 tr2 b1 cs1 ts2 Hs2 Hms Hrest).
          destruct (gate_trace b1 ms) as [evs' r'] eqn:Hgt.
          unfold Framing.andthen. cbn [f_status f_st f_evs].
          cbn [fst snd] in *. destruct IH as [He Hr].
          split; [rewrite He; reflexivity|].
          destruct r' as [b'|].
          * destruct Hr as [Ha [tr' [Hst [Hsy [Hv1 [Hv2 Hv3]]]]]].
            split; [exact Ha|]. exists tr'.
            split; [exact Hst|]. split; [exact Hsy|]. split; [congruence|]. split; congruence.
          * exact Hr.
        + cbn. split; reflexivity.
    Qed.

    (** DELIVERY, any fragmentation: for every message list [ms] (each within the length bounds;
        any number of messages, hence across any number of key rotations) and every way [fs] of
        cutting the sender's byte stream into [read_event] calls, the reader's events are exactly
        those of the gate applied to [ms]; if the gate did not disconnect, the reader is back at a
        frame boundary in lock-step with the sender and its own sending half untouched *)
    Theorem delivery ms ts tr b cs ts' fs :
      synced ts tr -> Forall len_ok ms -> enc_all ts ms = Some (cs, ts') ->
      concat fs = concat cs ->
      let '(c', evs) := feed_all pstate event ph (transport_conn tr b) fs in
      evs = fst (gate_trace b ms) /\
      match snd (gate_trace b ms) with
      | Some b' =>
        exists tr', c' = transport_conn tr' b' /\ synced ts' tr' /\
                    t_sk tr' = t_sk tr /\ t_sn tr' = t_sn tr /\ t_sck tr' = t_sck tr
      | None => c_status c' = Disconnected
      end.
    Proof.
      intros Hs Hok Hall Hfs.
      rewrite feed_all_concat, Hfs.
      unfold Framing.feed, transport_conn. cbn [c_status c_st].
      rewrite feed1_bytes.
      pose proof (delivery_bytes ms ts tr b cs ts' Hs Hok Hall) as Hd. cbn zeta in Hd.
      fold (at_header tr b).
      destruct Hd as [He Hr]. split; [exact He|].
      destruct (snd (gate_trace b ms)) as [b'|].
      - destruct Hr as [Ha [tr' [Hst Hrest]]]. exists tr'. split; [|exact Hrest].
        rewrite Ha, Hst. reflexivity.
      - exact Hr.
    Qed.

    (** TRUNCATION / partial arrival: after any prefix of the honest stream, in any fragmentation,
        the events so far are a prefix of the gate's events on [ms] — never a message that was not
        sent, never a partial one *)
    Theorem prefix_delivery ms ts tr b cs ts' fs q :
      synced ts tr -> Forall len_ok ms -> enc_all ts ms = Some (cs, ts') ->
      concat fs ++ q = concat cs ->
      exists later, fst (gate_trace b ms) =
                    snd (feed_all pstate event ph (transport_conn tr b) fs) ++ later.
    Proof.
      intros Hs Hok Hall Hfs.
      pose proof (delivery_bytes ms ts tr b cs ts' Hs Hok Hall) as Hd. cbn zeta in Hd.
      destruct Hd as [He _]. rewrite <- He, <- Hfs.
      rewrite feed_all_concat. unfold Framing.feed, transport_conn. cbn [c_status c_st snd].
      rewrite feed1_bytes. fold (at_header tr b).
      rewrite feed_bytes_app. unfold Framing.andthen.
      destruct (f_status (fb (at_header tr b) (concat fs))); cbn [f_evs];
        try (exists []; rewrite app_nil_r; reflexivity).
      eexists. reflexivity.
    Qed.
  End WithAead.

  (** ** TAMPER: no hypothesis on the primitives; the premise is that the offending chunk does not
      authenticate under the receiver's current key and nonce *)
  Lemma tampered_header tr b hdr' rest :
    length hdr' = 18%nat ->
    open (t_rk (rotate_recv tr)) (t_rn (rotate_recv tr)) [] hdr' = None ->
    let r := fb (at_header tr b) (hdr' ++ rest) in
    f_evs r = [] /\ f_status r = Disconnected.
  Proof.
    intros Hl Ho. cbn zeta. rewrite header_chunk by exact Hl.
    unfold Noise.dec_header. rewrite Ho. split; reflexivity.
  Qed.

  Lemma tampered_body tr b hdr len tr1 body' rest :
    length hdr = 18%nat -> dec_header tr hdr = Some (len, tr1) -> MIN_MSG_LEN <= len ->
    length body' = (Z.to_nat len + 16)%nat ->
    open (t_rk tr1) (t_rn tr1) [] body' = None ->
    let r := fb (at_header tr b) (hdr ++ body' ++ rest) in
    f_evs r = [] /\ f_status r = Disconnected.
  Proof.
    intros Hl Hd Hmin Hlb Ho. cbn zeta. rewrite header_chunk by exact Hl. rewrite Hd.
    destruct (Z.ltb_spec len MIN_MSG_LEN); [lia|].
    rewrite body_chunk by exact Hlb.
    unfold Noise.dec_body. rewrite Ho.
    destruct (LN_MAX_MSG_LEN + 16 <? blen body'); split; reflexivity.
  Qed.

  (** a frame announcing fewer than [MIN_MSG_LEN] bytes: disconnect, nothing delivered *)
  Lemma short_frame tr b hdr len tr1 rest :
    length hdr = 18%nat -> dec_header tr hdr = Some (len, tr1) -> len < MIN_MSG_LEN ->
    let r := fb (at_header tr b) (hdr ++ rest) in
    f_evs r = [] /\ f_status r = Disconnected.
  Proof.
    intros Hl Hd Hlt. cbn zeta. rewrite header_chunk by exact Hl. rewrite Hd.
    destruct (Z.ltb_spec len MIN_MSG_LEN); [|lia]. split; reflexivity.
  Qed.

  Section Tamper.
    Hypothesis seal_len : forall k n ad p, length (seal k n ad p) = (length p + 16)%nat.
    Hypothesis open_seal : forall k n ad p, open k n ad (seal k n ad p) = Some p.

    (** The honest sender has sent [ms1] and would next send [m] as [hdr ++ body]. Instead the
        stream continues with [f'] of the same length, different from [hdr ++ body], followed by
        anything. INT-CTXT premise: the part of [f'] that differs from the honest ciphertext does
        not open under the session key and the nonce the receiver is at (= the sender's).
        Then, in any fragmentation: the events are exactly those of [ms1] and the reader
        disconnects; nothing of [m] or of what follows is delivered. Covers bit flips at any
        offset of header or body, replay of an earlier frame, reordering, garbage. *)
    Theorem tamper_disconnects ms1 ts tr b cs1 ts1 b1 m hdr body ts2 f' rest fs :
      synced ts tr -> Forall len_ok ms1 -> len_ok m ->
      enc_all ts ms1 = Some (cs1, ts1) -> snd (gate_trace b ms1) = Some b1 ->
      enc_msg ts1 m = Some (hdr ++ body, ts2) -> length hdr = 18%nat ->
      length f' = length (hdr ++ body) -> f' <> hdr ++ body ->
      let k := t_sk (rotate_send ts1) in
      let n := t_sn (rotate_send ts1) in
      (firstn 18 f' <> hdr -> open k n [] (firstn 18 f') = None) ->
      (skipn 18 f' <> body -> open k (n + 1) [] (skipn 18 f') = None) ->
      concat fs = concat cs1 ++ f' ++ rest ->
      let '(c', evs) := feed_all pstate event ph (transport_conn tr b) fs in
      evs = fst (gate_trace b ms1) /\ c_status c' = Disconnected.
    Proof.
      intros Hs Hok Hm Hall Hg Henc Hlh Hlf Hne k n Hh Hb Hfs.
      rewrite feed_all_concat, Hfs.
      unfold Framing.feed, transport_conn. cbn [c_status c_st].
      rewrite feed1_bytes. fold (at_header tr b).
      rewrite feed_bytes_app.
      pose proof (delivery_bytes seal_len open_seal ms1 ts tr b cs1 ts1 Hs Hok Hall) as Hd.
      cbn zeta in Hd. destruct Hd as [He Hr]. rewrite Hg in Hr.
      destruct Hr as [Ha [tr1 [Hst [Hsy _]]]].
      unfold Framing.andthen. rewrite Ha, Hst. cbn [f_status f_st f_evs].
      (* the receiver's key and nonce are the sender's *)
      destruct (rotate_synced hkdf2 ts1 tr1 Hsy) as [[Hk [Hn _]] _].
      (* shape of the honest frame *)
      destruct (enc_dec_one hkdf2 seal open seal_len open_seal ts1 tr1 m Hsy (proj2 Hm))
        as (hdr0 & body0 & ts2' & tr1' & tr2' & Henc0 & Hlh0 & Hlb0 & Hdh0 & Hdb0 & _).
      rewrite Henc in Henc0. inversion Henc0 as [[Happ Hts]].
      assert (Hhdr : hdr = hdr0).
      { apply (f_equal (firstn 18)) in Happ. rewrite !firstn_app_exact in Happ by assumption. exact Happ. }
      assert (Hbody : body = body0) by (subst hdr0; apply app_inv_head in Happ; exact Happ).
      subst hdr0 body0.
      assert (Hf : f' = firstn 18 f' ++ skipn 18 f') by (symmetry; apply firstn_skipn).
      rewrite app_length, Hlh, Hlb0 in Hlf.
      assert (Hl18 : length (firstn 18 f') = 18%nat) by (rewrite firstn_length; lia).
      assert (Hlsk : length (skipn 18 f') = (length m + 16)%nat) by (rewrite skipn_length; lia).
      rewrite Hf, <- app_assoc.
      destruct (list_eq_dec Z.eq_dec (firstn 18 f') hdr) as [Heqh|Hneh].
      - (* header intact, body differs *)
        assert (Hnb : skipn 18 f' <> body).
        { intros Hbb. apply Hne. rewrite Hf, Heqh, Hbb. reflexivity. }
        rewrite Heqh.
        destruct (tampered_body tr1 b1 hdr (blen m) tr1' (skipn 18 f') rest) as [Hev Hstt];
          try assumption.
        + unfold len_ok in Hm. lia.
        + unfold blen. rewrite Nat2Z.id. exact Hlsk.
        + (* the receiver's nonce after the header is the sender's + 1 *)
          unfold Noise.dec_header in Hdh0.
          destruct (open (t_rk (rotate_recv tr1)) (t_rn (rotate_recv tr1)) [] hdr); [|discriminate].
          inversion Hdh0; subst tr1'. cbn [t_rk t_rn].
          rewrite <- Hk, <- Hn. apply Hb. exact Hnb.
        + cbn zeta in Hev, Hstt. rewrite Hev, Hstt, app_nil_r. split; [exact He | reflexivity].
      - destruct (tampered_header tr1 b1 (firstn 18 f') (skipn 18 f' ++ rest) Hl18) as [Hev Hstt].
        + rewrite <- Hk, <- Hn. apply Hh. exact Hneh.
        + cbn zeta in Hev, Hstt. rewrite Hev, Hstt, app_nil_r. split; [exact He | reflexivity].
    Qed.

    (** a message shorter than [MIN_MSG_LEN] put on the wire by the peer disconnects *)
    Theorem short_message_disconnects ts tr b m c ts' rest fs :
      synced ts tr -> blen m < MIN_MSG_LEN -> enc_msg ts m = Some (c, ts') ->
      concat fs = c ++ rest ->
      let '(c', evs) := feed_all pstate event ph (transport_conn tr b) fs in
      evs = [] /\ c_status c' = Disconnected.
    Proof.
      intros Hs Hlt Henc Hfs.
      assert (Hmax : blen m <= LN_MAX_MSG_LEN) by (unfold MIN_MSG_LEN, LN_MAX_MSG_LEN in *; lia).
      destruct (enc_dec_one hkdf2 seal open seal_len open_seal ts tr m Hs Hmax)
        as (hdr & body & ts1 & tr1 & tr2 & Henc0 & Hlh & Hlb & Hdh & _).
      rewrite Henc in Henc0. inversion Henc0; subst c ts'.
      rewrite feed_all_concat, Hfs.
      unfold Framing.feed, transport_conn. cbn [c_status c_st].
      rewrite feed1_bytes. fold (at_header tr b). rewrite <- app_assoc.
      destruct (short_frame tr b hdr (blen m) tr1 (body ++ rest) Hlh Hdh Hlt) as [Hev Hst].
      cbn zeta in Hev, Hst. rewrite Hev, Hst. split; reflexivity.
    Qed.
  End Tamper.

  (** ** NO PANIC and INIT FIRST, for arbitrary input *)

  (** states [PeerManager] creates: never an outbound encryptor that has not yet produced act one;
      [their_features] is only ever set once the handshake is over *)
  Definition pinv (p : pstate) : Prop :=
    match p_enc p with
    | OutPreActOne _ _ _ => False
    | Finished _ => True
    | _ => g_init (p_gate p) = false
    end.

  Definition phase_of (p : pstate) : Z :=
    match p_enc p with
    | Finished _ => if g_init (p_gate p) then 2 else 1
    | _ => 0
    end.

  Lemma order_run_app evs1 : forall p evs2,
    order_run p (evs1 ++ evs2) =
    match order_run p evs1 with Some p' => order_run p' evs2 | None => None end.
  Proof.
    induction evs1 as [|e evs1 IH]; intros p evs2; [reflexivity|].
    cbn [app order_run]. destruct (order_step p e); [apply IH | reflexivity].
  Qed.

  Lemma gate_msg_order g m :
    let '(evs, r) := gate_msg g m in
    match r with
    | Some g' => order_run (if g_init g then 2 else 1) evs = Some (if g_init g' then 2 else 1)
    | None => order_run (if g_init g then 2 else 1) evs <> None
    end.
  Proof.
    unfold PeerGate.gate_msg, deliver.
    destruct g as [ini batch]. cbn [g_init g_batch].
    destruct (decode m) as [k|e ty].
    - destruct k as [|chan size cs|chan| |pl|ty].
      + destruct (init_ok m); destruct ini; cbn; try discriminate; reflexivity.
      + destruct ini; cbn; try discriminate.
        destruct batch as [[[bc bs] bn]|]; cbn; try discriminate.
        destruct (size <=? 1); cbn; [reflexivity|].
        destruct (BATCH_SIZE_LIMIT <? size); cbn; [discriminate|].
        destruct cs; cbn; reflexivity.
      + destruct ini; cbn; try discriminate.
        destruct batch as [[[bc bs] bn]|]; cbn.
        * destruct (negb (beqb chan bc)); cbn; [discriminate|].
          destruct (bn + 1 =? bs); cbn; [|reflexivity].
          destruct (handler_ok m); cbn; [reflexivity | discriminate].
        * destruct (handler_ok m); cbn; [reflexivity | discriminate].
      + destruct ini; cbn; try discriminate.
        destruct batch as [[[bc bs] bn]|]; cbn; [discriminate | reflexivity].
      + destruct ini; cbn; try discriminate.
        destruct batch as [[[bc bs] bn]|]; cbn; [discriminate|].
        destruct (pl <? PING_PONGLEN_LIMIT); cbn; reflexivity.
      + destruct ini; cbn; try discriminate.
        destruct batch as [[[bc bs] bn]|]; cbn; [discriminate|].
        destruct (handler_ok m); cbn; [reflexivity | discriminate].
    - destruct (decode_policy e ty); destruct ini; cbn; try discriminate; reflexivity.
  Qed.

  (** every reply the gate enqueues fits a transport frame: a pong is sent only when
      [ponglen < PING_PONGLEN_LIMIT], and its encoding is [ponglen + 4 <= LN_MAX_MSG_LEN] bytes *)
  Lemma pong_fits pl : 0 <= pl < PING_PONGLEN_LIMIT -> blen (pong_msg pl) <= LN_MAX_MSG_LEN.
  Proof.
    clear dh pub pk_valid hkdf2 H seal open decode init_ok handler_ok our_node_secret our_ephemeral.
    intros H0. unfold blen, pong_msg, be16. rewrite !app_length, repeat_length. cbn [length].
    unfold PING_PONGLEN_LIMIT, LN_MAX_MSG_LEN in *. lia.
  Qed.

  Theorem replies_fit_frame g m :
    (forall pl, decode m = DOk (KPing pl) -> 0 <= pl) ->
    Forall (fun e => match e with EvReply r => blen r <= LN_MAX_MSG_LEN | _ => True end)
           (fst (gate_msg g m)).
  Proof.
    clear dh pub pk_valid hkdf2 H seal open our_node_secret our_ephemeral.
    intros Hpl. unfold PeerGate.gate_msg, deliver. destruct g as [ini batch]. cbn [g_init g_batch].
    destruct (decode m) as [k|e ty] eqn:Hd.
    - destruct k as [|chan size cs|chan| |pl|ty].
      + destruct (negb (init_ok m) || ini); cbn; repeat constructor.
      + destruct (negb ini); cbn; [repeat constructor|].
        destruct batch as [[[bc bs] bn]|]; cbn; [repeat constructor|].
        destruct (size <=? 1); cbn; [repeat constructor|].
        destruct (BATCH_SIZE_LIMIT <? size); cbn; [repeat constructor|].
        destruct cs; cbn; repeat constructor.
      + destruct (negb ini); cbn; [repeat constructor|].
        destruct batch as [[[bc bs] bn]|]; cbn.
        * destruct (negb (beqb chan bc)); cbn; [repeat constructor|].
          destruct (bn + 1 =? bs); cbn; [|repeat constructor].
          destruct (handler_ok m); cbn; repeat constructor.
        * destruct (handler_ok m); cbn; repeat constructor.
      + destruct (negb ini); cbn; [repeat constructor|].
        destruct batch as [[[bc bs] bn]|]; cbn; repeat constructor.
      + destruct (negb ini); cbn; [repeat constructor|].
        destruct batch as [[[bc bs] bn]|]; cbn; [repeat constructor|].
        destruct (Z.ltb_spec pl PING_PONGLEN_LIMIT); cbn; [|repeat constructor].
        repeat constructor. apply pong_fits. specialize (Hpl pl eq_refl). lia.
      + destruct (negb ini); cbn; [repeat constructor|].
        destruct batch as [[[bc bs] bn]|]; cbn; [repeat constructor|].
        destruct (handler_ok m); cbn; repeat constructor.
    - destruct (decode_policy e ty); cbn; repeat constructor.
  Qed.

  (** THE GATE, for every message kind including the batch path: while the peer's Init has not
      been accepted, no message reaches a handler, no batch is opened, and anything that decodes
      to something other than Init disconnects *)
  Theorem gate_closed_before_init g m :
    g_init g = false ->
    let '(evs, r) := gate_msg g m in
    ~ In EvDeliver evs /\
    (forall g', r = Some g' -> g_batch g' = g_batch g) /\
    (forall k, decode m = DOk k -> k <> KInit -> r = None).
  Proof.
    intros Hi. unfold PeerGate.gate_msg, deliver. destruct g as [ini batch]. cbn [g_init g_batch] in *. subst ini.
    destruct (decode m) as [k|e ty].
    - destruct k as [|chan size cs|chan| |pl|ty]; cbn.
      + destruct (init_ok m); cbn.
        * split; [intros [H0|[H0|[]]]; discriminate|]. split; [intros g' [= <-]; reflexivity|].
          intros k [= <-] Hk. contradiction.
        * split; [intros [H0|[]]; discriminate|]. split; [discriminate|]. intros; reflexivity.
      + split; [intros [H0|[]]; discriminate|]. split; [discriminate|]. intros; reflexivity.
      + split; [intros [H0|[]]; discriminate|]. split; [discriminate|]. intros; reflexivity.
      + split; [intros [H0|[]]; discriminate|]. split; [discriminate|]. intros; reflexivity.
      + split; [intros [H0|[]]; discriminate|]. split; [discriminate|]. intros; reflexivity.
      + split; [intros [H0|[]]; discriminate|]. split; [discriminate|]. intros; reflexivity.
    - destruct (decode_policy e ty); cbn.
      + split; [intros [H0|[H0|[]]]; discriminate|]. split; [intros g' [= <-]; reflexivity|]. intros k Hk; discriminate.
      + split; [intros [H0|[H0|[]]]; discriminate|]. split; [intros g' [= <-]; reflexivity|]. intros k Hk; discriminate.
      + split; [intros [H0|[]]; discriminate|]. split; [discriminate|]. intros k Hk; discriminate.
  Qed.

  Lemma peer_handle_inv p c : pinv p ->
    match ph p c with
    | CNext p' w evs => pinv p' /\ (0 < w)%nat /\ order_run (phase_of p) evs = Some (phase_of p')
    | CErr evs => order_run (phase_of p) evs <> None
    | CPanic => False
    end.
  Proof.
    unfold pinv, phase_of, peer_handle.
    destruct p as [e hdr ini]. cbn [p_enc p_is_header p_gate].
    destruct e as [ie their st|ie their st|st|iep re tk st|t]; cbn [get_noise_step]; intros Hinv.
    - contradiction.
    - (* act two *)
      cbn [Noise.process_act_two].
      destruct (inbound_noise_act dh pk_valid hkdf2 H open st c ie) as [[[re tk2] st1]|]; [|cbn; discriminate].
      destruct (hkdf_step hkdf2 _ _) as [st2 tk].
      destruct (hkdf2 (hs_ck st2) []) as [sk rk].
      cbn [p_enc p_gate]. rewrite Hinv. cbn. repeat split; lia.
    - (* act one *)
      cbn [Noise.process_act_one_with_keys].
      destruct (inbound_noise_act dh pk_valid hkdf2 H open st c our_node_secret) as [[[tp tk] st1]|]; [|cbn; discriminate].
      destruct (outbound_noise_act dh pub hkdf2 H seal st1 our_ephemeral tp) as [[res tk2] st2].
      cbn [p_enc p_gate]. rewrite Hinv. cbn. repeat split; lia.
    - (* act three *)
      cbn [Noise.process_act_three].
      destruct (negb (nth 0 c 0 =? 0)); [cbn; discriminate|].
      destruct (open tk 1 (hs_h st) (slice 1 50 c)) as [id|]; [|cbn; discriminate].
      destruct (negb (pk_valid id)); [cbn; discriminate|].
      destruct (hkdf_step hkdf2 _ _) as [st2 tk3].
      destruct (open tk3 0 (hs_h st2) (skipn 50 c)); [|cbn; discriminate].
      destruct (hkdf2 (hs_ck st2) []) as [rk sk].
      cbn [p_enc p_gate]. rewrite Hinv. cbn. repeat split; lia.
    - (* transport *)
      destruct hdr.
      + destruct (dec_header t c) as [[len t']|]; [|cbn; discriminate].
        destruct (len <? MIN_MSG_LEN); [cbn; discriminate|].
        cbn [p_enc p_gate]. split; [exact I|]. split; [lia | reflexivity].
      + destruct (dec_body t c) as [[m t']|]; [|cbn; discriminate].
        pose proof (gate_msg_order ini m) as Hg.
        destruct (gate_msg ini m) as [evs [b'|]]; cbn [p_enc p_gate].
        * split; [exact I|]. split; [lia | exact Hg].
        * exact Hg.
  Qed.

  Lemma reader_inv_init c0 : pinv (r_s (c_st c0)) ->
    (length (r_buf (c_st c0)) < r_want (c_st c0))%nat -> c_status c0 = Alive ->
    forall fs,
      let '(c', evs) := feed_all pstate event ph c0 fs in
      (c_status c' = Alive \/ c_status c' = Disconnected) /\
      order_run (phase_of (r_s (c_st c0))) evs <> None.
  Proof.
    intros Hinv Hlen Halive fs.
    pose proof (feed_all_safe pstate event ph pinv) as Hsafe.
    assert (Hok : forall s c, pinv s ->
      match ph s c with CNext s' w _ => pinv s' /\ (0 < w)%nat | CErr _ => True | CPanic => False end).
    { intros s c Hs. pose proof (peer_handle_inv s c Hs) as Hh.
      destruct (ph s c); [destruct Hh as [? [? ?]]; split; assumption | exact I | exact Hh]. }
    specialize (Hsafe Hok fs c0).
    assert (H0 : (c_status c0 = Alive /\ rinv pstate pinv (c_st c0)) \/ c_status c0 = Disconnected).
    { left. split; [exact Halive | split; assumption]. }
    specialize (Hsafe H0). cbn zeta in Hsafe.
    rewrite feed_all_concat in *.
    unfold Framing.feed in *. rewrite Halive in *. cbn [fst] in Hsafe.
    split.
    - cbn [c_status] in *. destruct Hsafe as [[Ha _]|Hd]; [left; exact Ha | right; exact Hd].
    - rewrite feed1_bytes.
      (* order automaton carried through the byte machine, under the invariant *)
      assert (Hsim : forall data st, pinv (r_s st) ->
        let r := fb st data in
        exists a', order_run (phase_of (r_s st)) (f_evs r) = Some a' /\
                   (f_status r = Alive -> a' = phase_of (r_s (f_st r)) /\ pinv (r_s (f_st r)))).
      { induction data as [|x d IHd]; intros st Hst.
        - cbn. exists (phase_of (r_s st)). split; [reflexivity | intros _; split; [reflexivity | exact Hst]].
        - cbn [Framing.feed_bytes]. unfold Framing.andthen.
          assert (Hp : exists a1, order_run (phase_of (r_s st)) (f_evs (push_byte pstate event ph st x)) = Some a1 /\
            (f_status (push_byte pstate event ph st x) = Alive ->
             a1 = phase_of (r_s (f_st (push_byte pstate event ph st x))) /\
             pinv (r_s (f_st (push_byte pstate event ph st x))))).
          { unfold Framing.push_byte.
            destruct (r_want st <=? length (r_buf st))%nat.
            - cbn. exists (phase_of (r_s st)). split; [reflexivity | discriminate].
            - destruct (length (r_buf st ++ [x]) =? r_want st)%nat.
              + unfold Framing.complete. pose proof (peer_handle_inv (r_s st) (r_buf st ++ [x]) Hst) as Hh.
                destruct (ph (r_s st) (r_buf st ++ [x])) as [s' w evs|evs|]; cbn.
                * destruct Hh as [Hi [_ Ho]]. exists (phase_of s'). split; [exact Ho | intros _; split; [reflexivity | exact Hi]].
                * destruct (order_run (phase_of (r_s st)) evs) as [a1|]; [|contradiction].
                  exists a1. split; [reflexivity | discriminate].
                * contradiction.
              + cbn. exists (phase_of (r_s st)). split; [reflexivity | intros _; split; [reflexivity | exact Hst]]. }
          destruct Hp as [a1 [Ha1 Hal]].
          destruct (f_status (push_byte pstate event ph st x)) eqn:Hstt.
          + destruct (Hal eq_refl) as [Hph Hpi].
            destruct (IHd _ Hpi) as [a2 [Ha2 Hal2]].
            cbn [f_evs f_status f_st]. exists a2. rewrite order_run_app, Ha1, Hph. split; assumption.
          + exists a1. split; [exact Ha1 | rewrite Hstt; discriminate].
          + exists a1. split; [exact Ha1 | rewrite Hstt; discriminate].
          + exists a1. split; [exact Ha1 | rewrite Hstt; discriminate]. }
      destruct (Hsim (concat fs) (c_st c0) Hinv) as [a' [Ha' _]].
      cbn [snd]. cbn zeta in Ha'. rewrite Ha'. discriminate.
  Qed.

  (** what [order_run] guarantees, spelled out: before any handler delivery there is their accepted
      Init, and before that the end of the handshake (where our Init is queued) *)
  Lemma order_run_meaning evs : forall p q,
    order_run p evs = Some q ->
    forall pre post, evs = pre ++ EvDeliver :: post ->
      (p = 2 \/ In EvInit pre) /\ (1 <= p \/ exists id, In (EvNoiseDone id) pre).
  Proof.
    induction evs as [|e evs IH]; intros p q Hrun pre post Heq.
    - destruct pre; discriminate.
    - cbn [order_run] in Hrun.
      destruct (order_step p e) as [p1|] eqn:Hstep; [|discriminate].
      destruct pre as [|e0 pre].
      + cbn in Heq. inversion Heq; subst e. cbn in Hstep.
        destruct (Z.eqb_spec p 2); [|discriminate]. split; left; lia.
      + cbn in Heq. inversion Heq; subst e0 evs.
        destruct (IH p1 q Hrun pre post eq_refl) as [H1 H2].
        split.
        * destruct H1 as [H1|H1]; [|right; right; exact H1].
          destruct e; cbn in Hstep;
            repeat match type of Hstep with context [if ?c then _ else _] => destruct c eqn:? end;
            inversion Hstep; subst; try (left; lia); try lia.
          right. left. reflexivity.
        * destruct H2 as [H2|[id H2]]; [|right; exists id; right; exact H2].
          destruct e; cbn in Hstep;
            repeat match type of Hstep with context [if ?c then _ else _] => destruct c eqn:? end;
            inversion Hstep; subst; try (left; lia); try lia.
          right. eexists. left. reflexivity.
  Qed.

  Theorem init_first_and_no_panic c0 fs :
    pinv (r_s (c_st c0)) -> phase_of (r_s (c_st c0)) = 0 ->
    (length (r_buf (c_st c0)) < r_want (c_st c0))%nat -> c_status c0 = Alive ->
    let '(c', evs) := feed_all pstate event ph c0 fs in
    (c_status c' = Alive \/ c_status c' = Disconnected) /\
    forall pre post, evs = pre ++ EvDeliver :: post ->
      In EvInit pre /\ exists id, In (EvNoiseDone id) pre.
  Proof.
    intros Hinv Hph Hlen Ha.
    pose proof (reader_inv_init c0 Hinv Hlen Ha fs) as Hr.
    destruct (feed_all pstate event ph c0 fs) as [c' evs].
    destruct Hr as [Hst Hord]. split; [exact Hst|].
    intros pre post Heq. rewrite Hph in Hord.
    destruct (order_run 0 evs) as [q|] eqn:Hq; [|contradiction].
    destruct (order_run_meaning evs 0 q Hq pre post Heq) as [[H1|H1] [H2|H2]]; try lia.
    split; assumption.
  Qed.

  Lemma inbound_conn_ok :
    let c := inbound_conn pub H our_node_secret in
    pinv (r_s (c_st c)) /\ phase_of (r_s (c_st c)) = 0 /\
    (length (r_buf (c_st c)) < r_want (c_st c))%nat /\ c_status c = Alive.
  Proof. cbn. repeat split; lia. Qed.

  Lemma outbound_conn_ok their ie act c :
    outbound_conn dh pub hkdf2 H seal their ie = Some (act, c) ->
    pinv (r_s (c_st c)) /\ phase_of (r_s (c_st c)) = 0 /\
    (length (r_buf (c_st c)) < r_want (c_st c))%nat /\ c_status c = Alive.
  Proof.
    unfold outbound_conn, Noise.get_act_one, Noise.new_outbound.
    destruct (outbound_noise_act dh pub hkdf2 H seal (init_hs H their) ie their) as [[res tk] st].
    intros Heq. inversion Heq; subst. cbn. repeat split; lia.
  Qed.

  Theorem init_first_inbound fs :
    let '(c', evs) := feed_all pstate event ph (inbound_conn pub H our_node_secret) fs in
    (c_status c' = Alive \/ c_status c' = Disconnected) /\
    forall pre post, evs = pre ++ EvDeliver :: post ->
      In EvInit pre /\ exists id, In (EvNoiseDone id) pre.
  Proof.
    destruct inbound_conn_ok as [Ha [Hb [Hc Hd]]].
    apply init_first_and_no_panic; assumption.
  Qed.

  Theorem init_first_outbound their ie act c0 fs :
    outbound_conn dh pub hkdf2 H seal their ie = Some (act, c0) ->
    let '(c', evs) := feed_all pstate event ph c0 fs in
    (c_status c' = Alive \/ c_status c' = Disconnected) /\
    forall pre post, evs = pre ++ EvDeliver :: post ->
      In EvInit pre /\ exists id, In (EvNoiseDone id) pre.
  Proof.
    intros Hc0. destruct (outbound_conn_ok their ie act c0 Hc0) as [Ha [Hb [Hc Hd]]].
    apply init_first_and_no_panic; assumption.
  Qed.
End DeliveryProofs.
