(** Message-level theorems: round trip for every well-formed schema, no over-read, dispatch. *)
Require Import LdkV.Prim.U64 LdkV.Codec.Combinators LdkV.Codec.Tlv LdkV.Codec.Wire LdkV.Proofs.C13Base LdkV.Proofs.C13Tlv.
Open Scope Z_scope.

(** soundness of the boolean equalities used by [schema_wf] *)
Lemma list_eqb_eq {A} (eqb : A -> A -> bool) : (forall a b, eqb a b = true -> a = b) ->
  forall l1 l2, list_eqb eqb l1 l2 = true -> l1 = l2.
Proof.
  intros H. induction l1 as [|a l1 IH]; intros [|b l2] E; cbn [list_eqb] in E; try discriminate; [reflexivity|].
  apply andb_true_iff in E. destruct E as [E1 E2]. f_equal; [apply H, E1|apply IH, E2].
Qed.
Lemma bc_eqb_eq a b : bc_eqb a b = true -> a = b.
Proof.
  destruct a, b; cbn [bc_eqb]; try discriminate; try reflexivity; intros H.
  - apply Nat.eqb_eq in H. congruence.
  - apply Z.eqb_eq in H. congruence.
Qed.
Lemma fc_eqb_eq a b : fc_eqb a b = true -> a = b.
Proof.
  destruct a, b; cbn [fc_eqb]; try discriminate; try reflexivity; intros H.
  - apply bc_eqb_eq in H. congruence.
  - apply (list_eqb_eq _ bc_eqb_eq) in H. congruence.
  - apply bc_eqb_eq in H. congruence.
  - apply bc_eqb_eq in H. congruence.
Qed.
Lemma bv_eqb_eq a b : bv_eqb a b = true -> a = b.
Proof.
  destruct a, b; cbn [bv_eqb]; try discriminate; intros H.
  - apply Z.eqb_eq in H. congruence.
  - apply (list_eqb_eq _ (fun x y => proj1 (Z.eqb_eq x y))) in H. congruence.
Qed.
Lemma kind_eqb_eq a b : kind_eqb a b = true -> a = b.
Proof.
  destruct a, b; cbn [kind_eqb]; try discriminate; try reflexivity; intros H.
  apply (list_eqb_eq _ bv_eqb_eq) in H. congruence.
Qed.
Lemma entry_eqb_eq a b : entry_eqb a b = true -> a = b.
Proof.
  unfold entry_eqb. intros H. apply andb_true_iff in H. destruct H as [H H3]. apply andb_true_iff in H. destruct H as [H1 H2].
  apply Z.eqb_eq in H1. apply kind_eqb_eq in H2. apply fc_eqb_eq in H3. destruct a, b; cbn in *; congruence.
Qed.
Lemma tail_eqb_eq a b : tail_eqb a b = true -> a = b.
Proof.
  destruct a, b; cbn [tail_eqb]; try discriminate; try reflexivity; intros H.
  apply (list_eqb_eq _ entry_eqb_eq) in H. congruence.
Qed.
Lemma named_eqb_codecs l1 : forall l2, list_eqb named_fc_eqb l1 l2 = true -> map snd l1 = map snd l2.
Proof.
  induction l1 as [|a l1 IH]; intros [|b l2] E; cbn [list_eqb] in E; try discriminate; [reflexivity|].
  apply andb_true_iff in E. destruct E as [E1 E2]. unfold named_fc_eqb in E1. apply andb_true_iff in E1. destruct E1 as [_ E1].
  cbn [map]. f_equal; [apply fc_eqb_eq, E1|apply IH, E2].
Qed.

Section WithOracle.
Variable pk_valid : bytes -> bool.
Notation fields_dec := (fields_dec pk_valid).
Notation fields_dom := (fields_dom pk_valid).
Notation msg_dec := (msg_dec pk_valid).
Notation msg_dom := (msg_dom pk_valid).
Notation side_dec := (side_dec pk_valid).

Lemma fields_rt cs : forall vs rest, forallb fc_prefix cs = true -> fields_dom cs vs = true ->
  fields_dec cs (fields_enc cs vs ++ rest) = ROk (vs, rest).
Proof.
  induction cs as [|c cs IH]; intros vs rest P D; destruct vs as [|v vs]; cbn [Wire.fields_dom] in D; try discriminate; [reflexivity|].
  cbn [forallb] in P. apply andb_true_iff in P. destruct P as [Pc Pcs]. apply andb_true_iff in D. destruct D as [Dv Dvs].
  cbn [fields_enc Wire.fields_dec]. rewrite <- app_assoc. rewrite (fdec_rt_prefix pk_valid) by assumption. cbn [rbind].
  rewrite IH by assumption. reflexivity.
Qed.
Lemma fields_consumed cs : forall b vs r, fields_dec cs b = ROk (vs, r) -> exists p, b = p ++ r.
Proof.
  induction cs as [|c cs IH]; intros b vs r; cbn [Wire.fields_dec].
  - intros Hd; inversion Hd; subst. exists []. reflexivity.
  - destruct (fdec pk_valid c b) as [[v r1]|e] eqn:E; cbn [rbind]; [|discriminate].
    destruct (fields_dec cs r1) as [[vs' r2]|e] eqn:E'; cbn [rbind]; [|discriminate].
    intros Hd; inversion Hd; subst. apply fdec_consumed in E. destruct E as [p1 E1].
    apply IH in E'. destruct E' as [p2 E2]. exists (p1 ++ p2). rewrite E1, E2, app_assoc. reflexivity.
Qed.

Lemma map_snd_prefix (l : list (string * fc)) :
  forallb (fun nf => fc_prefix (snd nf)) l = forallb fc_prefix (map snd l).
Proof. induction l as [|a l IH]; cbn [forallb map]; [reflexivity|]. rewrite IH. reflexivity. Qed.

(** ROUND TRIP: for every well-formed schema and every value in its domain, decoding the encoding
    gives back exactly the value and consumes all of it. *)
Theorem msg_roundtrip s m : schema_wf s = true -> msg_dom s m = true ->
  msg_dec s (msg_enc s m) = ROk (m, []).
Proof.
  unfold schema_wf, Wire.msg_dom, Wire.msg_dec, msg_enc. intros W D.
  repeat (apply andb_true_iff in W; destruct W as [W ?]).
  match goal with H : list_eqb named_fc_eqb _ _ = true |- _ => apply named_eqb_codecs in H; rename H into EF end.
  match goal with H : tail_eqb _ _ = true |- _ => apply tail_eqb_eq in H; rename H into ET end.
  match goal with H : forallb _ _ = true |- _ => rewrite map_snd_prefix in H; rename H into PF end.
  match goal with H : tail_wf _ = true |- _ => rename H into TW end.
  apply andb_true_iff in D. destruct D as [DF DT].
  unfold Wire.side_dec, side_enc. rewrite <- EF, <- ET. rewrite fields_rt by assumption. cbn [rbind].
  destruct m as [fx tl rs]. cbn [m_fixed m_tlvs m_rest] in *.
  destruct (sd_tail (s_write s)) as [es| |]; cbn [tail_enc Wire.tail_dom tail_wf m_tlvs m_rest] in *.
  - apply andb_true_iff in DT. destruct DT as [DT DR]. destruct rs; [|discriminate].
    rewrite (tlv_roundtrip pk_valid) by assumption. reflexivity.
  - destruct tl; [|discriminate]. reflexivity.
  - destruct tl; [|discriminate]. destruct rs; [|discriminate]. reflexivity.
Qed.

(** NO OVER-READ: whatever a message decoder returns as unread is a suffix of its input (decoding
    is a total function of the frame and cannot look beyond it). *)
Theorem msg_dec_suffix s b m r : msg_dec s b = ROk (m, r) -> exists p, b = p ++ r.
Proof.
  unfold Wire.msg_dec, Wire.side_dec.
  destruct (fields_dec (map snd (sd_fixed (s_read s))) b) as [[fx r1]|e] eqn:E; cbn [rbind]; [|discriminate].
  apply fields_consumed in E. destruct E as [p E]. destruct (sd_tail (s_read s)).
  - destruct (tlv_dec pk_valid es r1); cbn [rbind]; [|discriminate]. intros Hd; inversion Hd; subst. exists (p ++ r1). rewrite app_nil_r. reflexivity.
  - intros Hd; inversion Hd; subst. exists (p ++ r1). rewrite app_nil_r. reflexivity.
  - intros Hd; inversion Hd; subst. exists p. reflexivity.
Qed.

(** a fixed-size field that is cut short is a ShortRead *)
Lemma fixed_truncated n b : len b < n -> bdec pk_valid (BBytes n) b = RErr "ShortRead".
Proof. intros H. cbn [bdec]. rewrite read_n_short by exact H. reflexivity. Qed.
Lemma uint_truncated n b : len b < Z.of_nat n -> bdec pk_valid (BU n) b = RErr "ShortRead".
Proof. intros H. cbn [bdec]. rewrite read_u_short by exact H. reflexivity. Qed.

(** ------------------------------------------------------------------ dispatch *)
Lemma find_schema_in tbl : forall seen s, types_distinct seen tbl = true -> In s tbl -> find_schema tbl (s_type s) = Some s.
Proof.
  induction tbl as [|x tbl IH]; intros seen s D I; [destruct I|].
  cbn [types_distinct] in D. apply andb_true_iff in D. destruct D as [D1 D2]. cbn [find_schema].
  destruct I as [->|I]; [rewrite Z.eqb_refl; reflexivity|].
  destruct (Z.eqb_spec (s_type x) (s_type s)) as [E|E]; [|apply (IH _ _ D2 I)].
  exfalso. clear IH D1.
  assert (forall tbl seen, types_distinct seen tbl = true -> forall s, In s tbl -> existsb (Z.eqb (s_type s)) seen = false) as Q.
  { induction tbl0 as [|y tbl0 IH0]; intros seen0 D0 s0 I0; [destruct I0|].
    cbn [types_distinct] in D0. apply andb_true_iff in D0. destruct D0 as [Da Db]. destruct I0 as [->|I0].
    - apply negb_true_iff in Da. exact Da.
    - specialize (IH0 _ Db _ I0). cbn [existsb] in IH0. apply orb_false_iff in IH0. tauto. }
  specialize (Q _ _ D2 _ I). cbn [existsb] in Q. apply orb_false_iff in Q. destruct Q as [Q _].
  rewrite E, Z.eqb_refl in Q. discriminate.
Qed.

Theorem wire_roundtrip tbl s m : types_distinct [] tbl = true -> In s tbl -> schema_wf s = true -> msg_dom s m = true ->
  wire_dec pk_valid tbl (frame_enc s m) = ROk (WKnown s m).
Proof.
  intros D I W Dm. unfold wire_dec, frame_enc.
  assert (0 <= s_type s < 65536) as T.
  { unfold schema_wf in W. repeat (apply andb_true_iff in W; destruct W as [W ?]). lia. }
  rewrite read_u_enc by (change (256 ^ Z.of_nat 2) with 65536; exact T). cbn [rbind].
  rewrite (find_schema_in _ _ _ D I). rewrite msg_roundtrip by assumption. reflexivity.
Qed.

(** UNKNOWN MESSAGE TYPES: the payload is not looked at; [Message::Unknown ty] is returned. *)
Theorem wire_unknown tbl ty payload : find_schema tbl ty = None -> 0 <= ty < 65536 ->
  wire_dec pk_valid tbl (be_enc 2 ty ++ payload) = ROk (WUnknown ty).
Proof.
  intros F T. unfold wire_dec. rewrite read_u_enc by (change (256 ^ Z.of_nat 2) with 65536; exact T). cbn [rbind].
  rewrite F. reflexivity.
Qed.
Theorem wire_short b : len b < 2 -> wire_dec pk_valid [] b = RErr "ShortRead".
Proof. intros H. unfold wire_dec. rewrite read_u_short by exact H. reflexivity. Qed.

End WithOracle.
