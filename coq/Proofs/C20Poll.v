(** C20: [synchronize_listener], [update_chain_tip], [poll_best_tip] - for ARBITRARY block sources. *)
Require Import LdkV.Prim.U64 LdkV.Model.BlockSync LdkV.Model.BlockSyncSpec LdkV.Proofs.C20Tree LdkV.Proofs.C20.
Open Scope Z_scope.
Local Open Scope list_scope.

Lemma vh_eqb_spec a b : vh_eqb a b = true <-> a = b.
Proof.
  unfold vh_eqb. split.
  - intros H. destruct a, b; cbn in *. f_equal; lia.
  - intros ->. rewrite !Z.eqb_refl. reflexivity.
Qed.

Lemma Forall_firstn' {A} (P : A -> Prop) : forall l k, Forall P l -> Forall P (firstn k l).
Proof.
  induction l as [|x l IH]; intros k H; [rewrite firstn_nil; constructor|].
  destruct k; cbn; [constructor|]. inversion H; subst. constructor; auto.
Qed.

Lemma last_map {A B} (f : A -> B) : forall l d, last (map f l) (f d) = f (last l d).
Proof.
  induction l as [|x l IH]; intros d; [reflexivity|].
  cbn [map]. rewrite !last_cons_default. apply IH.
Qed.

Lemma last_in_or {A} : forall (l : list A) d, last l d = d \/ In (last l d) l.
Proof.
  induction l as [|x l IH]; intros d; [left; reflexivity|].
  rewrite last_cons_default. destruct (IH x) as [E|I]; right; [rewrite E; left; reflexivity | right; exact I].
Qed.

Lemma conn_events_no_disc : forall l fulls, forallb (fun e => negb (is_disc e)) (conn_events l fulls) = true.
Proof.
  unfold conn_events. intros l fulls. generalize (combine l fulls). induction l0; cbn; auto.
Qed.

Section Poll.
Variable T : tree.
Hypothesis WF : wf_tree T.

Lemma path_last : forall a x l, path T a x l -> last l a = x.
Proof.
  induction 1 as [a nd Ha | a b y l nda ndb Ha Hb Hp Hpath IH]; [reflexivity|].
  rewrite last_cons_default. exact IH.
Qed.

Lemma path_skipn : forall a x l, path T a x l -> forall k, path T (last (firstn k l) a) x (skipn k l).
Proof.
  induction 1 as [a nd Ha | a b y l nda ndb Ha Hb Hp Hpath IH]; intros k.
  - rewrite firstn_nil, skipn_nil. cbn. econstructor; eauto.
  - destruct k as [|k]; cbn [firstn skipn].
    + cbn. eapply path_cons; eauto.
    + rewrite last_cons_default. apply IH.
Qed.

(** The listener's view of connections along a path of truthful headers. *)
Lemma lrun_conns_vh : forall l av x fulls,
  truthful T av -> path T (v_hash av) x (map v_hash l) -> Forall (truthful T) l ->
  List.length fulls = List.length l ->
  lrun T (pos_of av) (conn_events l fulls) (pos_of (last l av)).
Proof.
  induction l as [|b l IH]; intros av x fulls Ha Hp Hl Hf.
  - destruct fulls; [|discriminate]. cbn. constructor.
  - destruct fulls as [|f fulls]; [discriminate|]. cbn [map] in Hp.
    inversion Hp as [|? ? ? ? nda' ndb Ha' Hb Hprev Hrest]; subst.
    inversion Hl as [|? ? Hb1 Hl2]; subst.
    destruct (truthful_node T _ Hb1) as (nb & B1 & B2 & B3 & B4 & _).
    destruct (truthful_node T _ Ha) as (na & A1 & _ & _ & A4 & _).
    rewrite Hb in B1. inversion B1; subst nb.
    destruct (WF _ _ Hb) as (_ & Hpar). rewrite Hprev in Hpar. destruct (Hpar _ A1) as (Hh & _).
    unfold conn_events. cbn [combine map fst snd]. unfold conn_event at 1.
    rewrite last_cons_default.
    econstructor; [|eapply IH; eauto].
    unfold pos_of. replace (v_height b) with (v_height av + 1) by lia.
    eapply ls_conn; eauto. lia.
Qed.

Definition disc_part (ca old : vh) : list event :=
  if v_hash ca =? v_hash old then [] else [EDisc (v_hash ca) (v_height ca)].

(** * [ChainNotifier::synchronize_listener]: what happened, whatever the source did. *)
Definition sync_outcome (new old : vh) (r : sres) (log : list event) : Prop :=
  ((exists e, r = SErr e None) /\ log = [])
  \/ exists ca asc k fulls,
       truthful T new /\ truthful T ca /\ Forall (truthful T) asc /\
       path T (v_hash ca) (v_hash new) (map v_hash asc) /\
       anc T (v_hash ca) (v_hash old) /\
       (forall d, anc T d (v_hash new) -> anc T d (v_hash old) -> anc T d (v_hash ca)) /\
       (k <= List.length asc)%nat /\ List.length fulls = k /\
       log = disc_part ca old ++ conn_events (firstn k asc) fulls /\
       ((r = SOk /\ k = List.length asc) \/
        (exists e, r = SErr e (Some (last (firstn k asc) ca)) /\ (k < List.length asc)%nat)).

Lemma sync_listener_spec src c new old n r c' log n' :
  Forall (truthful T) c -> genuine T new -> truthful T old ->
  sync_listener T src c new old n = (r, c', log, n') ->
  Forall (truthful T) c' /\ sync_outcome new old r log.
Proof.
  intros Hc Gn To. unfold sync_listener.
  pose proof (find_diff_fuel T WF src c Hc (fuel_for T new old) new old [] n Gn (truthful_genuine T _ To)) as Hfuel.
  destruct (find_diff (fuel_for T new old) T src c new old [] n) as [[ca asc|e|] n1] eqn:D.
  - clear Hfuel.
    destruct (find_diff_spec T WF src c Hc _ _ _ _ _ _ _ _ Gn To D) as (Tca & Tn & l & El & Fl & Pl & Al & Low).
    rewrite app_nil_r in El. subst l.
    assert (Heq : vh_eqb ca old = (v_hash ca =? v_hash old)).
    { destruct (v_hash ca =? v_hash old) eqn:E.
      - apply vh_eqb_spec. apply truthful_eq with T; auto. lia.
      - destruct (vh_eqb ca old) eqn:E2; auto. apply vh_eqb_spec in E2. subst. lia. }
    rewrite Heq. unfold disconnect_blocks.
    assert (Hdp : disc_part ca old = if v_hash ca =? v_hash old then [] else [EDisc (v_hash ca) (v_height ca)]) by reflexivity.
    destruct (v_hash ca =? v_hash old) eqn:E;
    match goal with |- context [connect_blocks T src ?c1 ca asc n1] =>
      assert (Hc1 : Forall (truthful T) c1) by (auto using c_blocks_disconnected_truthful);
      destruct (connect_blocks T src c1 ca asc n1) as [[[[r0 tip] c2] log2] n2] eqn:C;
      destruct (connect_blocks_spec T src _ _ _ _ _ _ _ _ _ Hc1 Fl C) as (Hc2 & k & fulls & Hk & Hlen & Elog & Etip & Hr1 & Hr2)
    end;
    (destruct r0 as [e|]; intros H; inversion H; subst; (split; [auto|]); right;
      exists ca, asc, (List.length fulls), fulls; rewrite Hdp; repeat split; auto;
      first [ solve [left; auto] | right; eexists; split; [reflexivity | apply Hr2; discriminate] ]).
  - intros H. inversion H; subst. split; auto. left. split; eauto.
  - exfalso. apply Hfuel; [unfold fuel_for; lia | reflexivity].
Qed.

(** The listener's view of whatever [synchronize_listener] emitted, and where it ends. *)
Definition sync_tip (new old : vh) (r : sres) : vh :=
  match r with
  | SOk => new
  | SErr _ (Some tip) => tip
  | _ => old
  end.

Lemma sync_outcome_lrun new old r log :
  truthful T old -> sync_outcome new old r log ->
  truthful T (sync_tip new old r) /\
  lrun T (pos_of old) log (pos_of (sync_tip new old r)) /\
  one_disc_then_conns log.
Proof.
  intros To [((e & ->) & ->)|(ca & asc & k & fulls & Tn & Tca & Fa & Pa & Aa & Low & Hk & Hlen & -> & Hr)].
  - cbn. repeat split; auto; [constructor|]. exists [], []. cbn. auto.
  - assert (Tip : sync_tip new old r = last (firstn k asc) ca).
    { destruct Hr as [(-> & ->)|(e & -> & _)]; cbn; auto.
      rewrite firstn_all.
      apply truthful_eq with T; auto.
      - destruct (last_in_or asc ca) as [->|I]; auto. rewrite Forall_forall in Fa. auto.
      - rewrite <- (last_map v_hash). symmetry. eapply path_last; eauto. }
    rewrite Tip.
    assert (Tlast : truthful T (last (firstn k asc) ca)).
    { destruct (last_in_or (firstn k asc) ca) as [->|I]; auto.
      pose proof (Forall_firstn' (truthful T) asc k Fa) as F. rewrite Forall_forall in F. auto. }
    split; auto. split.
    + (* lrun *)
      assert (Hconn : lrun T (pos_of ca) (conn_events (firstn k asc) fulls) (pos_of (last (firstn k asc) ca))).
      { eapply lrun_conns_vh; auto.
        - rewrite <- firstn_map. eapply path_firstn; eauto.
        - apply Forall_firstn'; auto.
        - rewrite firstn_length. lia. }
      unfold disc_part. destruct (v_hash ca =? v_hash old) eqn:E.
      * assert (ca = old) by (apply truthful_eq with T; auto; lia). subst ca. exact Hconn.
      * cbn [app]. econstructor; [|exact Hconn].
        destruct Aa as (lo & Plo).
        destruct (truthful_node T _ Tca) as (nca & C1 & _ & _ & C4 & _).
        unfold pos_of. rewrite C4. eapply ls_disc; eauto.
        eapply path_neq_nonnil; eauto. lia.
    + exists (disc_part ca old), (conn_events (firstn k asc) fulls). repeat split.
      * unfold disc_part. destruct (v_hash ca =? v_hash old); cbn; lia.
      * unfold disc_part. destruct (v_hash ca =? v_hash old); reflexivity.
      * apply conn_events_no_disc.
Qed.

(** A failed or partial synchronisation that reports "nothing connected" really emitted nothing. *)
Lemma sync_outcome_unmoved new old r log :
  truthful T old -> sync_outcome new old r log ->
  v_hash (sync_tip new old r) = v_hash old -> r <> SOk -> log = [].
Proof.
  intros To [((e & ->) & ->)|(ca & asc & k & fulls & Tn & Tca & Fa & Pa & Aa & Low & Hk & Hlen & -> & Hr)] Hh Hne; auto.
  destruct Hr as [(-> & _)|(e & -> & Hlt)]; [congruence|]. cbn in Hh.
  (* the tip reached has the old tip's hash: then it IS the old tip, it lies on the new chain, so the
     common ancestor is the old tip itself and nothing was connected *)
  pose proof (path_firstn T _ _ _ Pa k) as P1. pose proof (path_skipn _ _ _ Pa k) as P2.
  rewrite firstn_map in P1. rewrite firstn_map in P2.
  rewrite (last_map v_hash) in P1, P2. rewrite Hh in P1, P2.
  assert (Hold_new : anc T (v_hash old) (v_hash new)) by (eexists; eauto).
  destruct (truthful_node T _ To) as (no & O1 & _).
  assert (Hold_ca : anc T (v_hash old) (v_hash ca)) by (apply Low; auto; eapply anc_refl; eauto).
  destruct (truthful_node T _ Tca) as (nca & C1 & _).
  pose proof (anc_height T WF _ _ _ _ Hold_ca O1 C1) as H1.
  pose proof (path_height T WF _ _ _ P1 _ _ C1 O1) as H2.
  rewrite map_length, firstn_length in H2.
  assert (Hk0 : (k = 0)%nat) by lia. rewrite Hk0 in *.
  cbn in P1. apply path_nil_inv in P1.
  unfold disc_part. rewrite P1, Z.eqb_refl. destruct fulls; [reflexivity|discriminate].
Qed.

(** * [SpvClient::update_chain_tip] and [SpvClient::poll_best_tip] *)
Lemma update_chain_tip_spec src cl best n cl' moved log n' :
  good_client T cl -> genuine T best ->
  update_chain_tip T src cl best n = (cl', moved, log, n') ->
  good_client T cl' /\
  lrun T (pos_of (cl_tip cl)) log (pos_of (cl_tip cl')) /\
  one_disc_then_conns log /\
  (moved = false -> cl_tip cl' = cl_tip cl /\ log = []) /\
  (moved = true -> truthful T best /\ anc T (v_hash (cl_tip cl')) (v_hash best)).
Proof.
  intros (Tt & Hc) Gb. unfold update_chain_tip.
  destruct (sync_listener T src (cl_cache cl) best (cl_tip cl) n) as [[[r c'] log0] n0] eqn:S.
  destruct (sync_listener_spec _ _ _ _ _ _ _ _ _ Hc Gb Tt S) as (Hc' & Out).
  destruct (sync_outcome_lrun _ _ _ _ Tt Out) as (Ttip & Run & Shape).
  pose proof (sync_outcome_unmoved _ _ _ _ Tt Out) as Unm.
  assert (Hanc : r = SOk \/ (exists e tip, r = SErr e (Some tip)) ->
                 truthful T best /\ anc T (v_hash (sync_tip best (cl_tip cl) r)) (v_hash best)).
  { intros Hr. destruct Out as [((e & ->) & _)|(ca & asc & k & fulls & Tn & Tca & Fa & Pa & Aa & Low & Hk & Hlen & _ & Hr')].
    - destruct Hr as [|(? & ? & ?)]; discriminate.
    - split; auto.
      pose proof (path_skipn _ _ _ Pa k) as P2. rewrite firstn_map, (last_map v_hash) in P2.
      destruct Hr' as [(-> & ->)|(e & -> & _)]; cbn.
      + destruct (truthful_node T _ Tn) as (nn & N1 & _). eapply anc_refl; eauto.
      + eexists; eauto. }
  destruct r as [|e [tip|]|]; cbn [sync_tip] in *.
  - intros H. inversion H; subst. cbn. repeat split; auto; try discriminate; apply Hanc; auto.
  - destruct (v_hash tip =? v_hash (cl_tip cl)) eqn:E; cbn [negb]; intros H; inversion H; subst; cbn.
    + assert (tip = cl_tip cl) by (apply truthful_eq with T; auto; lia). subst tip.
      repeat split; auto; try discriminate. apply Unm; [lia | discriminate].
    + repeat split; auto; try discriminate; apply Hanc; right; eauto.
  - intros H. inversion H; subst. cbn. repeat split; auto; try discriminate.
    apply Unm; auto. discriminate.
  - intros H. inversion H; subst. cbn. repeat split; auto; try discriminate.
    apply Unm; auto. discriminate.
Qed.

Lemma poll_chain_tip_spec src best_known n ct n' :
  poll_chain_tip T src best_known n = (Ok ct, n') ->
  match ct with
  | Common => True
  | Better t => genuine T t /\ v_cwork best_known < v_cwork t /\ v_hash t <> v_hash best_known
  | Worse t => genuine T t /\ v_cwork t <= v_cwork best_known /\ v_hash t <> v_hash best_known
  end.
Proof.
  unfold poll_chain_tip. destruct (o_best src n) as [e|x hint]; [discriminate|].
  destruct (x =? v_hash best_known) eqn:E.
  - intros H. inversion H; subst. exact I.
  - destruct (poller_get_header T src x hint (S n)) as [[t|e] n1] eqn:G; [|discriminate].
    apply poller_get_header_spec in G. destruct G as (Gt & Ht).
    destruct (v_cwork best_known <? v_cwork t) eqn:W; intros H; inversion H; subst; repeat split; auto; lia.
Qed.

(** Main soundness statement for one poll, for an arbitrary source. *)
Theorem poll_sound src cl n r cl' log n' :
  good_client T cl ->
  poll_best_tip T src cl n = (r, cl', log, n') ->
  good_client T cl' /\
  lrun T (pos_of (cl_tip cl)) log (pos_of (cl_tip cl')) /\
  one_disc_then_conns log /\
  match r with
  | Ok (Better t, moved) =>
      v_cwork (cl_tip cl) < v_cwork t /\
      (moved = false -> cl_tip cl' = cl_tip cl /\ log = []) /\
      (moved = true -> truthful T t /\ anc T (v_hash (cl_tip cl')) (v_hash t))
  | Ok (Worse t, moved) => v_cwork t <= v_cwork (cl_tip cl) /\ moved = false /\ cl' = cl /\ log = []
  | Ok (Common, moved) => moved = false /\ cl' = cl /\ log = []
  | Err _ => cl' = cl /\ log = []
  end.
Proof.
  intros Good. unfold poll_best_tip.
  assert (Triv : lrun T (pos_of (cl_tip cl)) [] (pos_of (cl_tip cl)) /\ one_disc_then_conns [])
    by (split; [constructor | exists [], []; cbn; auto]).
  destruct (poll_chain_tip T src (cl_tip cl) n) as [[ct|e] n1] eqn:P.
  - apply poll_chain_tip_spec in P. destruct ct as [|t|t].
    + intros H. inversion H; subst. tauto.
    + destruct P as (Gt & Hw & _).
      destruct (update_chain_tip T src cl t n1) as [[[cl1 b] log1] n2] eqn:U.
      intros H. inversion H; subst.
      destruct (update_chain_tip_spec _ _ _ _ _ _ _ _ Good Gt U) as (G' & Run & Shape & Hf & Ht).
      repeat split; auto; try apply G'; try apply Hf; try apply Ht; auto.
    + destruct P as (Gt & Hw & _). intros H. inversion H; subst. tauto.
  - intros H. inversion H; subst. tauto.
Qed.

Lemma lrun_app : forall p l1 q l2 r, lrun T p l1 q -> lrun T q l2 r -> lrun T p (l1 ++ l2) r.
Proof. induction 1; intros; cbn; auto. econstructor; eauto. Qed.

Theorem poll_n_sound src : forall k cl n cl' log n',
  good_client T cl -> poll_n T src cl n k = (cl', log, n') ->
  good_client T cl' /\ lrun T (pos_of (cl_tip cl)) log (pos_of (cl_tip cl')).
Proof.
  induction k as [|k IH]; intros cl n cl' log n' Good H; cbn [poll_n] in H.
  - inversion H; subst. split; auto. constructor.
  - destruct (poll_best_tip T src cl n) as [[[r cl1] log1] n1] eqn:P.
    destruct (poll_n T src cl1 n1 k) as [[cl2 log2] n2] eqn:R.
    inversion H; subst.
    destruct (poll_sound _ _ _ _ _ _ _ Good P) as (G1 & Run1 & _).
    destruct (IH _ _ _ _ _ G1 R) as (G2 & Run2).
    split; auto. eapply lrun_app; eauto.
Qed.

(** Everything a poll notifies refers to proof-of-work-valid headers of the universe at their true
    heights. *)
Lemma lrun_events_valid : forall p log q, lrun T p log q ->
  Forall (fun e => match e with
                   | EConn b h _ => exists nd, T b = Some nd /\ n_pow nd = true /\ h = n_height nd
                   | EDisc f h => exists nd, T f = Some nd /\ h = n_height nd
                   end) log.
Proof.
  induction 1 as [|p e q l r St Run IH]; constructor; auto.
  inversion St; subst; eauto 6.
Qed.

End Poll.

(** * Statements as they appear in Props/C20.v *)
Lemma difference_correct : forall T src c fuel cur prev n,
  wf_tree T -> Forall (truthful T) c -> genuine T cur -> truthful T prev ->
  (Z.to_nat (th T cur + th T prev) < fuel)%nat ->
  match fst (find_diff fuel T src c cur prev [] n) with
  | DOutOfFuel => False
  | DErr _ => True
  | DOk ca asc =>
      truthful T ca /\ truthful T cur /\ Forall (truthful T) asc /\
      path T (v_hash ca) (v_hash cur) (map v_hash asc) /\
      anc T (v_hash ca) (v_hash prev) /\
      (forall d, anc T d (v_hash cur) -> anc T d (v_hash prev) -> anc T d (v_hash ca))
  end.
Proof.
  intros T src c fuel cur prev n WF Hc Gc Tp Hf.
  pose proof (find_diff_fuel T WF src c Hc fuel cur prev [] n Gc (truthful_genuine T _ Tp) Hf) as Hfuel.
  destruct (find_diff fuel T src c cur prev [] n) as [[ca asc|e|] n1] eqn:D; cbn [fst] in *; auto.
  destruct (find_diff_spec T WF src c Hc _ _ _ _ _ _ _ _ Gc Tp D) as (Tca & Tc & l & El & Fl & Pl & Al & Low).
  rewrite app_nil_r in El. subst l. auto 10.
Qed.

Lemma notifications_form_chain : forall T src cl n r cl' log n',
  wf_tree T -> good_client T cl ->
  poll_best_tip T src cl n = (r, cl', log, n') ->
  good_client T cl' /\
  lrun T (pos_of (cl_tip cl)) log (pos_of (cl_tip cl')) /\
  one_disc_then_conns log.
Proof.
  intros T src cl n r cl' log n' WF Good P.
  destruct (poll_sound T WF _ _ _ _ _ _ _ Good P) as (A & B & C & _). auto.
Qed.

Lemma poll_sequence : forall T src k cl n cl' log n',
  wf_tree T -> good_client T cl ->
  poll_n T src cl n k = (cl', log, n') ->
  good_client T cl' /\ lrun T (pos_of (cl_tip cl)) log (pos_of (cl_tip cl')).
Proof. intros T src k cl n cl' log n' WF. apply poll_n_sound; auto. Qed.

Lemma more_work_only : forall T src cl n r cl' log n',
  wf_tree T -> good_client T cl ->
  poll_best_tip T src cl n = (r, cl', log, n') ->
  match r with
  | Ok (Better t, moved) =>
      v_cwork (cl_tip cl) < v_cwork t /\
      (moved = false -> cl_tip cl' = cl_tip cl /\ log = []) /\
      (moved = true -> truthful T t /\ anc T (v_hash (cl_tip cl')) (v_hash t))
  | Ok (Worse t, moved) => v_cwork t <= v_cwork (cl_tip cl) /\ moved = false /\ cl' = cl /\ log = []
  | Ok (Common, moved) => moved = false /\ cl' = cl /\ log = []
  | Err _ => cl' = cl /\ log = []
  end.
Proof.
  intros T src cl n r cl' log n' WF Good P.
  destruct (poll_sound T WF _ _ _ _ _ _ _ Good P) as (_ & _ & _ & D). exact D.
Qed.

Lemma errors_leave_prefix : forall T src c new old n r c' log n',
  wf_tree T -> Forall (truthful T) c -> genuine T new -> truthful T old ->
  sync_listener T src c new old n = (r, c', log, n') ->
  Forall (truthful T) c' /\
  sync_outcome T new old r log /\
  truthful T (sync_tip new old r) /\
  lrun T (pos_of old) log (pos_of (sync_tip new old r)).
Proof.
  intros T src c new old n r c' log n' WF Hc Gn To S.
  destruct (sync_listener_spec T WF _ _ _ _ _ _ _ _ _ Hc Gn To S) as (Hc' & Out).
  destruct (sync_outcome_lrun T WF _ _ _ _ To Out) as (A & B & _). auto.
Qed.

Lemma invalid_refused : forall T,
  wf_tree T ->
  (forall x h w q v, validate_header T x h w q = Ok v ->
     exists nd, T x = Some nd /\ n_pow nd = true /\ x = q /\ v_hash v = q /\ v_prev v = n_prev nd) /\
  (forall src c v n p n', Forall (truthful T) c -> look_up_prev T src c v n = (Ok p, n') ->
     genuine T p /\ v_hash p = v_prev v /\ v_height v = v_height p + 1 /\ v_cwork v = v_cwork p + v_bwork v) /\
  (forall src cl n r cl' log n', good_client T cl -> poll_best_tip T src cl n = (r, cl', log, n') ->
     Forall (fun e => match e with
                      | EConn b h _ => exists nd, T b = Some nd /\ n_pow nd = true /\ h = n_height nd
                      | EDisc f h => exists nd, T f = Some nd /\ h = n_height nd
                      end) log).
Proof.
  intros T WF. split; [|split].
  - intros x h w q v H. unfold validate_header in H.
    destruct (T x) as [nd|] eqn:Hx; [|discriminate].
    destruct (n_pow nd) eqn:Hp; [|discriminate].
    destruct (x =? q) eqn:E; [|discriminate]. apply Z.eqb_eq in E. subst q.
    inversion H; subst v. cbn. eauto 10.
  - intros src c v n p n' Hc L. destruct (look_up_prev_spec T src c v n p n' Hc L) as (G & A & B & C). auto.
  - intros src cl n r cl' log n' Good P.
    destruct (poll_sound T WF _ _ _ _ _ _ _ Good P) as (_ & Run & _).
    eapply lrun_events_valid; eauto.
Qed.
