(** C03 — proofs, part 3: a part that is in flight (its send returned Ok or
    MonitorUpdateInProgress) stays in the payment's part set through every retry, and no
    PaymentFailed is emitted while a part is pending. *)
Require Import LdkV.Prim.U64 LdkV.Gen.ConstsC03 LdkV.Model.Outbound LdkV.Proofs.C03.
Open Scope Z_scope.

Lemma mem_In x l : mem x l = true <-> In x l.
Proof.
  unfold mem. rewrite existsb_exists. split.
  - intros [y [Hy He]]. apply Z.eqb_eq in He. subst. exact Hy.
  - intros H. exists x. split; [exact H|apply Z.eqb_refl].
Qed.

Lemma In_rm x y l : In y l -> y <> x -> In y (rm x l).
Proof.
  induction l as [|z t IH]; intros Hin Hne; [destruct Hin|]. cbn [rm].
  destruct (Z.eqb_spec x z).
  - subst z. destruct Hin as [->|H]; [contradiction|exact H].
  - destruct Hin as [->|H]; [left; reflexivity|right; apply IH; assumption].
Qed.

Lemma pm_remove_keeps p sp a f y :
  In y (parts_of p) -> y <> sp -> In y (parts_of (fst (pm_remove p sp a f))).
Proof.
  intros Hin Hne. destruct p; cbn [pm_remove parts_of] in *; try destruct (mem sp parts); cbn [fst parts_of];
    try apply In_rm; assumption.
Qed.

Lemma pm_insert_keeps p sp a f y : In y (parts_of p) -> In y (parts_of (fst (pm_insert p sp a f))).
Proof.
  intros Hin. destruct p; cbn [pm_insert parts_of] in *; try destruct (mem sp parts); cbn [fst parts_of]; try assumption.
  apply in_or_app. left. exact Hin.
Qed.

Definition is_retryable (p : payment) : bool := match p with Retryable _ _ _ _ _ _ _ _ _ => true | _ => false end.

Lemma pm_insert_adds p sp a f : is_retryable p = true -> In sp (parts_of (fst (pm_insert p sp a f))).
Proof.
  destruct p; try discriminate. intros _. cbn [pm_insert]. destruct (mem sp parts) eqn:E; cbn [fst parts_of].
  - apply mem_In. exact E.
  - apply in_or_app. right. left. reflexivity.
Qed.

Lemma pm_insert_retryable p sp a f : is_retryable (fst (pm_insert p sp a f)) = is_retryable p.
Proof. destruct p; cbn [pm_insert]; try destruct (mem sp parts); reflexivity. Qed.
Lemma pm_remove_retryable p sp a f : is_retryable (fst (pm_remove p sp a f)) = is_retryable p.
Proof. destruct p; cbn [pm_remove]; try destruct (mem sp parts); reflexivity. Qed.

Lemma insert_all_keeps id h : forall paths p c y,
  In y (parts_of p) -> In y (parts_of (fst (insert_all id h p c paths))).
Proof.
  induction paths as [|x t IH]; intros p c y Hin; cbn [insert_all]; [exact Hin|].
  specialize (IH (fst (pm_insert p c (pr_amt x) (pr_fee x))) (c + 1) y (pm_insert_keeps _ _ _ _ _ Hin)).
  destruct (insert_all id h _ (c + 1) t). exact IH.
Qed.

Lemma insert_all_adds id h : forall paths p c i x,
  is_retryable p = true -> nth_error paths i = Some x ->
  In (c + Z.of_nat i) (parts_of (fst (insert_all id h p c paths))).
Proof.
  induction paths as [|x0 t IH]; intros p c i x Hr Hn; [destruct i; discriminate|]. cbn [insert_all].
  destruct i as [|i].
  - pose proof (insert_all_keeps id h t (fst (pm_insert p c (pr_amt x0) (pr_fee x0))) (c + 1) c
                  (pm_insert_adds _ _ _ _ Hr)) as H.
    destruct (insert_all id h _ (c + 1) t). cbn [fst] in *. replace (c + Z.of_nat 0) with c by lia. exact H.
  - cbn [nth_error] in Hn.
    specialize (IH (fst (pm_insert p c (pr_amt x0) (pr_fee x0))) (c + 1) i x
                   (eq_trans (pm_insert_retryable _ _ _ _) Hr) Hn).
    destruct (insert_all id h _ (c + 1) t). cbn [fst] in *.
    replace (c + Z.of_nat (S i)) with (c + 1 + Z.of_nat i) by lia. exact IH.
Qed.

Lemma insert_all_retryable id h : forall paths p c, is_retryable (fst (insert_all id h p c paths)) = is_retryable p.
Proof.
  induction paths as [|x t IH]; intros p c; cbn [insert_all]; [reflexivity|].
  specialize (IH (fst (pm_insert p c (pr_amt x) (pr_fee x))) (c + 1)).
  destruct (insert_all id h _ (c + 1) t). cbn [fst] in *. rewrite IH. apply pm_insert_retryable.
Qed.

(** the session privs announced by [insert_all] *)
Lemma insert_all_news id h : forall paths p c sp i0 h0 a f r,
  In (ONew sp i0 h0 a f r) (snd (insert_all id h p c paths)) ->
  exists i x, nth_error paths i = Some x /\ sp = c + Z.of_nat i /\ r = pr_res x.
Proof.
  induction paths as [|x t IH]; intros p c sp i0 h0 a f r Hin; cbn [insert_all] in Hin; [destruct Hin|].
  specialize (IH (fst (pm_insert p c (pr_amt x) (pr_fee x))) (c + 1) sp i0 h0 a f r).
  destruct (insert_all id h _ (c + 1) t) as [p2 outs]. cbn [snd] in *.
  destruct Hin as [Hin|Hin].
  - injection Hin as <- _ _ _ _ <-. exists 0%nat, x. repeat split. lia.
  - destruct (IH Hin) as (i & x' & Hn & -> & ->). exists (S i), x'. repeat split; [exact Hn|lia].
Qed.

(** [drop_unsent] removes exactly the unsent paths' session privs *)
Lemma drop_unsent_keeps id : forall paths p c y,
  In y (parts_of p) ->
  (forall i x, nth_error paths i = Some x -> y = c + Z.of_nat i -> unsent (pr_res x) = false) ->
  In y (parts_of (fst (drop_unsent id p c paths))).
Proof.
  induction paths as [|x t IH]; intros p c y Hin Hok; cbn [drop_unsent]; [exact Hin|].
  assert (Hok' : forall i x', nth_error t i = Some x' -> y = c + 1 + Z.of_nat i -> unsent (pr_res x') = false).
  { intros i x' Hn He. apply (Hok (S i) x' Hn). lia. }
  destruct (unsent (pr_res x)) eqn:Eu.
  - assert (Hne : y <> c).
    { intros ->. specialize (Hok 0%nat x eq_refl). rewrite Eu in Hok. discriminate Hok. lia. }
    specialize (IH (fst (pm_remove p c (pr_amt x) (pr_fee x))) (c + 1) y (pm_remove_keeps _ _ _ _ _ Hin Hne) Hok').
    destruct (drop_unsent id _ (c + 1) t). exact IH.
  - apply IH; assumption.
Qed.

Lemma drop_unsent_retryable id : forall paths p c, is_retryable (fst (drop_unsent id p c paths)) = is_retryable p.
Proof.
  induction paths as [|x t IH]; intros p c; cbn [drop_unsent]; [reflexivity|].
  destruct (unsent (pr_res x)); [|apply IH].
  specialize (IH (fst (pm_remove p c (pr_amt x) (pr_fee x))) (c + 1)).
  destruct (drop_unsent id _ (c + 1) t). cbn [fst] in *. rewrite IH. apply pm_remove_retryable.
Qed.

Definition has_failed (outs : list out) : bool :=
  existsb (fun o => match o with OEv (EvFailed _ _ _) => true | _ => false end) outs.

Lemma has_failed_app a b : has_failed (a ++ b) = has_failed a || has_failed b.
Proof. apply existsb_app. Qed.

Lemma quiet_no_failed id outs : quiet id outs -> has_failed outs = false.
Proof.
  intros [Hn _]. unfold has_failed. induction outs as [|o t IH]; [reflexivity|].
  cbn [forallb] in Hn. apply andb_true_iff in Hn as [Ho Ht]. cbn [existsb]. rewrite (IH Ht), orb_false_r.
  destruct o as [e| | | | | |]; try reflexivity. destruct e; try reflexivity; discriminate.
Qed.

(** [abandon_payment] on an entry with a pending part: the entry stays, no PaymentFailed *)
Lemma abandon_keeps id reason c p y :
  In y (parts_of p) ->
  exists p', fst (abandon_t id reason c (Some p)) = Some p' /\ In y (parts_of p') /\
             has_failed (snd (abandon_t id reason c (Some p))) = false.
Proof.
  intros Hin. unfold abandon_t.
  destruct p as [r a hp parts h pa pf tot rf|parts h t tot f|parts h r tot f|n r]; cbn [mark_abandoned parts_of] in *.
  - destruct parts as [|z zs]; [destruct Hin|]. cbn [is_nil fst snd]. eexists. split; [reflexivity|]. split; [exact Hin|reflexivity].
  - eexists. split; [reflexivity|]. split; [exact Hin|reflexivity].
  - destruct parts as [|z zs]; [destruct Hin|]. cbn [is_nil fst snd]. eexists. split; [reflexivity|]. split; [exact Hin|reflexivity].
  - destruct Hin.
Qed.

(** [find_route_and_send_payment]: a part that is pending when it starts (allocated earlier, so
    below the counter) is still pending when it ends, and no PaymentFailed is emitted *)
Lemma frs_keeps id : forall answers p c fv mf y,
  In y (parts_of p) -> y < c ->
  exists p', fst (fst (frs answers id (Some p) c fv mf)) = Some p' /\ In y (parts_of p') /\
             has_failed (snd (fst (frs answers id (Some p) c fv mf))) = false.
Proof.
  induction answers as [|a rest IH]; intros p c fv mf y Hin Hlt.
  - cbn [frs fst snd]. apply abandon_keeps. exact Hin.
  - destruct a as [|k fees over res]; [cbn [frs fst snd]; apply abandon_keeps; exact Hin|].
    cbn [frs].
    destruct p as [r a hp parts h pa pf tot rf|parts h t tot f|parts h r tot f|n r];
      try (cbn [fst snd]; eexists; split; [reflexivity|]; split; [exact Hin|reflexivity]).
    destruct (tot * 110 / 100 <? sum (map pr_amt (paths_of fv k fees over res)) + pa);
      [cbn [fst snd]; apply abandon_keeps; exact Hin|].
    destruct (negb (is_retryable_now (Retryable r a hp parts h pa pf tot rf)));
      [cbn [fst snd]; apply abandon_keeps; exact Hin|].
    set (p0 := Retryable r a hp parts h pa pf tot rf) in *.
    set (paths := paths_of fv k fees over res).
    pose proof (insert_all_keeps id h paths p0 c y Hin) as Hk1.
    pose proof (insert_all_spec id h p0 c paths) as [Hq1 _].
    destruct (insert_all id h p0 c paths) as [p1 news]. cbn [fst snd] in *.
    assert (Hk2 : In y (parts_of (inc_attempts p1))) by (destruct p1; exact Hk1).
    unfold after_pay.
    pose proof (drop_unsent_keeps id paths (inc_attempts p1) c y Hk2) as Hk3.
    pose proof (drop_unsent_spec id (inc_attempts p1) c paths) as [Hq2 _].
    destruct (drop_unsent id (inc_attempts p1) c paths) as [p3 evs]. cbn [fst snd] in *.
    assert (Hk3' : In y (parts_of p3)) by (apply Hk3; intros i x _ He; lia).
    assert (Hc' : y < c + Z.of_nat (List.length paths)) by lia.
    destruct (existsb (fun x => negb (is_sok (pr_res x))) paths && existsb (fun x => negb (unsent (pr_res x))) paths).
    + destruct (existsb (fun x => unsent (pr_res x)) paths).
      * destruct (IH p3 (c + Z.of_nat (List.length paths)) (sat_sub fv (ok_amt paths))
                     (option_map (fun m => sat_sub m (ok_fee paths)) mf) y Hk3' Hc') as (p' & Hp' & Hy & Hf).
        destruct (frs rest id (Some p3) _ _ _) as [[e' outs] rest']. cbn [fst snd] in *.
        exists p'. split; [exact Hp'|]. split; [exact Hy|].
        rewrite !has_failed_app, (quiet_no_failed id news Hq1), (quiet_no_failed id evs Hq2), Hf. reflexivity.
      * cbn [fst snd]. exists (inc_attempts p1). split; [reflexivity|]. split; [exact Hk2|].
        rewrite !has_failed_app, (quiet_no_failed id news Hq1). reflexivity.
    + destruct (existsb (fun x => negb (is_sok (pr_res x))) paths).
      * destruct (IH p3 (c + Z.of_nat (List.length paths)) fv mf y Hk3' Hc') as (p' & Hp' & Hy & Hf).
        destruct (frs rest id (Some p3) _ _ _) as [[e' outs] rest']. cbn [fst snd] in *.
        exists p'. split; [exact Hp'|]. split; [exact Hy|].
        rewrite !has_failed_app, (quiet_no_failed id news Hq1), (quiet_no_failed id evs Hq2), Hf. reflexivity.
      * cbn [fst snd]. exists (inc_attempts p1). split; [reflexivity|]. split; [exact Hk2|].
        rewrite !has_failed_app, (quiet_no_failed id news Hq1). reflexivity.
Qed.

Lemma drop_unsent_outs id : forall paths p c o,
  In o (snd (drop_unsent id p c paths)) -> exists sp, o = OEv (EvPathFailed id sp false true).
Proof.
  induction paths as [|x t IH]; intros p c o Hin; cbn [drop_unsent] in Hin; [destruct Hin|].
  destruct (unsent (pr_res x)); [|exact (IH _ _ _ Hin)].
  specialize (IH (fst (pm_remove p c (pr_amt x) (pr_fee x))) (c + 1) o).
  destruct (drop_unsent id _ (c + 1) t) as [p2 outs]. cbn [snd] in *.
  destruct Hin as [<-|Hin]; [eexists; reflexivity|exact (IH Hin)].
Qed.

Lemma abandon_no_new id reason c e sp i0 h0 a f r : ~ In (ONew sp i0 h0 a f r) (snd (abandon_t id reason c e)).
Proof.
  intros H. unfold abandon_t in H. destruct e as [p|]; [|destruct H].
  destruct p; cbn [mark_abandoned] in H; try destruct (is_nil parts); cbn [snd] in H;
    repeat (destruct H as [H|H]; try discriminate); try destruct H.
Qed.

(** Every session priv [find_route_and_send_payment] hands out for a path whose send returned Ok
    or MonitorUpdateInProgress is a pending part of the payment when it returns — through every
    nested retry of the paths that failed to send. *)
Lemma frs_inflight_kept id : forall answers e c fv mf sp i0 h0 a f r,
  In (ONew sp i0 h0 a f r) (snd (fst (frs answers id e c fv mf))) -> unsent r = false ->
  exists p', fst (fst (frs answers id e c fv mf)) = Some p' /\ In sp (parts_of p').
Proof.
  induction answers as [|an rest IH]; intros e c fv mf sp i0 h0 a f r Hin Hr.
  - exfalso. cbn [frs fst snd] in Hin. exact (abandon_no_new _ _ _ _ _ _ _ _ _ _ Hin).
  - destruct an as [|k fees over res].
    + exfalso. cbn [frs fst snd] in Hin. exact (abandon_no_new _ _ _ _ _ _ _ _ _ _ Hin).
    + cbn [frs] in *. destruct e as [p|]; [|destruct Hin].
      destruct p as [r0 a0 hp parts h pa pf tot rf|parts h t tot f0|parts h r0 tot f0|n r0]; try destruct Hin.
      destruct (tot * 110 / 100 <? sum (map pr_amt (paths_of fv k fees over res)) + pa);
        [exfalso; exact (abandon_no_new _ _ _ _ _ _ _ _ _ _ Hin)|].
      destruct (negb (is_retryable_now (Retryable r0 a0 hp parts h pa pf tot rf)));
        [exfalso; exact (abandon_no_new _ _ _ _ _ _ _ _ _ _ Hin)|].
      set (p0 := Retryable r0 a0 hp parts h pa pf tot rf) in *.
      set (paths := paths_of fv k fees over res) in *.
      pose proof (insert_all_news id h paths p0 c sp i0 h0 a f r) as Hnews.
      pose proof (fun i x => insert_all_adds id h paths p0 c i x eq_refl) as Hadds.
      destruct (insert_all id h p0 c paths) as [p1 news]. cbn [fst snd] in *.
      unfold after_pay in *.
      pose proof (fun y H => drop_unsent_keeps id paths (inc_attempts p1) c y H) as Hkeep.
      pose proof (drop_unsent_outs id paths (inc_attempts p1) c) as Houts.
      destruct (drop_unsent id (inc_attempts p1) c paths) as [p3 evs]. cbn [fst snd] in *.
      assert (Hevs : ~ In (ONew sp i0 h0 a f r) evs) by (intros H; destruct (Houts _ H) as [? Hx]; discriminate).
      (* where the new part stands right after this attempt *)
      assert (Hnew : In (ONew sp i0 h0 a f r) news -> In sp (parts_of (inc_attempts p1)) /\ In sp (parts_of p3) /\
                                                       sp < c + Z.of_nat (List.length paths)).
      { intros Hn. destruct (Hnews Hn) as (i & x & Hnth & -> & ->).
        assert (H1 : In (c + Z.of_nat i) (parts_of (inc_attempts p1))).
        { specialize (Hadds i x Hnth). destruct p1; exact Hadds. }
        split; [exact H1|]. split.
        - apply Hkeep; [exact H1|]. intros j y Hj He.
          assert (j = i) by lia. subst j. rewrite Hnth in Hj. injection Hj as <-. exact Hr.
        - assert (i < List.length paths)%nat by (apply nth_error_Some; rewrite Hnth; discriminate). lia. }
      destruct (existsb (fun x => negb (is_sok (pr_res x))) paths && existsb (fun x => negb (unsent (pr_res x))) paths).
      * destruct (existsb (fun x => unsent (pr_res x)) paths).
        -- destruct (frs rest id (Some p3) (c + Z.of_nat (List.length paths)) (sat_sub fv (ok_amt paths))
                        (option_map (fun m => sat_sub m (ok_fee paths)) mf)) as [[e' outs] rest'] eqn:Ef.
           cbn [fst snd] in *.
           apply in_app_or in Hin as [Hin|Hin].
           ++ destruct (Hnew Hin) as (_ & H3 & Hlt).
              destruct (frs_keeps id rest p3 _ (sat_sub fv (ok_amt paths)) (option_map (fun m => sat_sub m (ok_fee paths)) mf) sp H3 Hlt)
                as (p' & Hp' & Hy & _).
              rewrite Ef in Hp'. cbn [fst] in Hp'. exists p'. split; assumption.
           ++ apply in_app_or in Hin as [Hin|Hin]; [contradiction|].
              pose proof (IH (Some p3) (c + Z.of_nat (List.length paths)) (sat_sub fv (ok_amt paths))
                             (option_map (fun m => sat_sub m (ok_fee paths)) mf) sp i0 h0 a f r) as H.
              rewrite Ef in H. cbn [fst snd] in H. exact (H Hin Hr).
        -- cbn [fst snd] in *. cbn [app] in Hin. rewrite !app_nil_r in Hin.
           destruct (Hnew Hin) as (H1 & _ & _). eexists. split; [reflexivity|exact H1].
      * destruct (existsb (fun x => negb (is_sok (pr_res x))) paths).
        -- destruct (frs rest id (Some p3) (c + Z.of_nat (List.length paths)) fv mf) as [[e' outs] rest'] eqn:Ef.
           cbn [fst snd] in *.
           apply in_app_or in Hin as [Hin|Hin].
           ++ destruct (Hnew Hin) as (_ & H3 & Hlt).
              destruct (frs_keeps id rest p3 _ fv mf sp H3 Hlt) as (p' & Hp' & Hy & _).
              rewrite Ef in Hp'. cbn [fst] in Hp'. exists p'. split; assumption.
           ++ apply in_app_or in Hin as [Hin|Hin]; [contradiction|].
              pose proof (IH (Some p3) (c + Z.of_nat (List.length paths)) fv mf sp i0 h0 a f r) as H.
              rewrite Ef in H. cbn [fst snd] in H. exact (H Hin Hr).
        -- cbn [fst snd] in *. cbn [app] in Hin. rewrite !app_nil_r in Hin.
           destruct (Hnew Hin) as (H1 & _ & _). eexists. split; [reflexivity|exact H1].
Qed.

(** the retry loop of [check_retry_payments] never fails a payment that has a pending part *)
Lemma retry_loop_keeps id : forall fuel answers p c y,
  In y (parts_of p) -> y < c ->
  exists p', fst (retry_loop fuel answers id (Some p) c) = Some p' /\ In y (parts_of p') /\
             has_failed (snd (retry_loop fuel answers id (Some p) c)) = false.
Proof.
  induction fuel as [|f IH]; intros answers p c y Hin Hlt; cbn [retry_loop].
  - eexists. split; [reflexivity|]. split; [exact Hin|reflexivity].
  - destruct p as [r a hp parts h pa pf tot rf|parts h t tot f0|parts h r tot f0|n r];
      try (eexists; split; [reflexivity|]; split; [exact Hin|reflexivity]).
    destruct (is_auto_retryable_now (Retryable r a hp parts h pa pf tot rf) && (pa <? tot));
      [|eexists; split; [reflexivity|]; split; [exact Hin|reflexivity]].
    destruct (frs_keeps id answers (Retryable r a hp parts h pa pf tot rf) c (tot - pa) rf y Hin Hlt) as (p1 & Hp1 & Hy1 & Hf1).
    destruct (frs answers id (Some (Retryable r a hp parts h pa pf tot rf)) c (tot - pa) rf) as [[e1 outs1] rest].
    cbn [fst snd] in *. subst e1.
    assert (Hc : y < c + count_new outs1).
    { unfold count_new. pose proof (Zle_0_nat (List.length (filter (fun o => match o with ONew _ _ _ _ _ _ => true | _ => false end) outs1))). lia. }
    destruct (IH rest p1 (c + count_new outs1) y Hy1 Hc) as (p2 & Hp2 & Hy2 & Hf2).
    destruct (retry_loop f rest id (Some p1) (c + count_new outs1)) as [e2 outs2]. cbn [fst snd] in *.
    exists p2. split; [exact Hp2|]. split; [exact Hy2|]. rewrite has_failed_app, Hf1, Hf2. reflexivity.
Qed.

(** No PaymentFailed while a part is pending — per transition. [abandon], the retry loop and the
    retain pass of check_retry_payments, the timer tick, startup insertion, claims and
    finalisations never emit PaymentFailed for an entry that has a pending part; [fail_htlc] only
    when the part it fails is the last one. *)
Lemma no_failed_while_pending id p y c :
  In y (parts_of p) ->
  (forall reason, has_failed (snd (abandon_t id reason c (Some p))) = false) /\
  has_failed (snd (retain_t id c (Some p))) = false /\
  (forall q, has_failed (snd (tick_t q id c (Some p))) = false) /\
  (forall answers, y < c -> has_failed (snd (retry_t answers id c (Some p))) = false) /\
  (forall sp amt fee perm probe, sp <> y -> has_failed (snd (fail_t id sp amt fee perm probe c (Some p))) = false).
Proof.
  intros Hin. split; [|split; [|split; [|split]]].
  - intros reason. destruct (abandon_keeps id reason c p y Hin) as (_ & _ & _ & H). exact H.
  - unfold retain_t. destruct p as [r a hp parts h pa pf tot rf|parts h t tot f|parts h r tot f|n r];
      cbn [parts_of] in Hin; try (destruct parts; [destruct Hin|]); try destruct Hin;
      cbn [parts_of is_nil andb]; rewrite ?andb_false_r; reflexivity.
  - intros q. unfold tick_t. destruct p as [r a hp parts h pa pf tot rf|parts h t tot f|parts h r tot f|n r];
      try reflexivity; [|destruct Hin].
    cbn [parts_of] in Hin. destruct parts; [destruct Hin|]. reflexivity.
  - intros answers Hlt. unfold retry_t.
    destruct (retry_loop_keeps id (S (List.length answers)) answers p c y Hin Hlt) as (_ & _ & _ & H). exact H.
  - intros sp amt fee perm probe Hne. unfold fail_t.
    destruct p as [r a hp parts h pa pf tot rf|parts h t tot f|parts h r tot f|n r]; cbn [parts_of] in Hin; [| | |destruct Hin].
    + cbn [pm_remove]. destruct (mem sp parts) eqn:Em; [|reflexivity]. cbn [negb is_fulfilled].
      assert (Hnn : is_nil (rm sp parts) = false).
      { pose proof (In_rm sp y parts Hin (fun H => Hne (eq_sym H))) as H. destruct (rm sp parts); [destruct H|reflexivity]. }
      destruct (probe || negb _ || perm); cbn [mark_abandoned parts_of]; rewrite Hnn; destruct probe, perm; reflexivity.
    + cbn [pm_remove]. destruct (mem sp parts); reflexivity.
    + cbn [pm_remove]. destruct (mem sp parts) eqn:Em; [|reflexivity]. cbn [negb is_fulfilled].
      assert (Hnn : is_nil (rm sp parts) = false).
      { pose proof (In_rm sp y parts Hin (fun H => Hne (eq_sym H))) as H. destruct (rm sp parts); [destruct H|reflexivity]. }
      cbn [is_auto_retryable_now negb orb]. destruct probe, perm; cbn [orb mark_abandoned parts_of]; rewrite Hnn; reflexivity.
Qed.

(** [send_payment]: the same for the first attempt *)
Lemma send_inflight_kept id hash retry amt mf answers c sp i0 h0 a f r :
  In (ONew sp i0 h0 a f r) (snd (send_t id hash retry amt mf answers c None)) -> unsent r = false ->
  exists p', fst (send_t id hash retry amt mf answers c None) = Some p' /\ In sp (parts_of p').
Proof.
  intros Hin Hr. unfold send_t in *.
  destruct answers as [|an rest]; [cbn [snd] in Hin; destruct Hin as [H|[]]; discriminate|].
  destruct an as [|k fees over res]; [cbn [snd] in Hin; destruct Hin as [H|[]]; discriminate|].
  set (paths := paths_of amt k fees over res) in *.
  set (p0 := Retryable (Some retry) 0 true [] hash 0 (Some 0) (sum (map pr_amt paths)) mf) in *.
  pose proof (insert_all_news id hash paths p0 c sp i0 h0 a f r) as Hnews.
  pose proof (fun i x => insert_all_adds id hash paths p0 c i x eq_refl) as Hadds.
  destruct (insert_all id hash p0 c paths) as [p1 news]. cbn [fst snd] in *.
  unfold after_pay in *.
  pose proof (fun y H => drop_unsent_keeps id paths p1 c y H) as Hkeep.
  pose proof (drop_unsent_outs id paths p1 c) as Houts.
  destruct (drop_unsent id p1 c paths) as [p3 evs]. cbn [fst snd] in *.
  assert (Hevs : ~ In (ONew sp i0 h0 a f r) evs) by (intros H; destruct (Houts _ H) as [? Hx]; discriminate).
  assert (Hnew : In (ONew sp i0 h0 a f r) news -> In sp (parts_of p1) /\ In sp (parts_of p3) /\
                                                   sp < c + Z.of_nat (List.length paths)).
  { intros Hn. destruct (Hnews Hn) as (i & x & Hnth & -> & ->).
    pose proof (Hadds i x Hnth) as H1. split; [exact H1|]. split.
    - apply Hkeep; [exact H1|]. intros j y Hj He.
      assert (j = i) by lia. subst j. rewrite Hnth in Hj. injection Hj as <-. exact Hr.
    - assert (i < List.length paths)%nat by (apply nth_error_Some; rewrite Hnth; discriminate). lia. }
  destruct (existsb (fun x => negb (is_sok (pr_res x))) paths && existsb (fun x => negb (unsent (pr_res x))) paths).
  - destruct (existsb (fun x => unsent (pr_res x)) paths).
    + destruct (frs rest id (Some p3) (c + Z.of_nat (List.length paths)) (sat_sub amt (ok_amt paths))
                  (option_map (fun m => sat_sub m (ok_fee paths)) mf)) as [[e' outs] rest'] eqn:Ef.
      cbn [fst snd] in *. destruct Hin as [H|[H|Hin]]; try discriminate.
      apply in_app_or in Hin as [Hin|Hin].
      * destruct (Hnew Hin) as (_ & H3 & Hlt).
        destruct (frs_keeps id rest p3 _ (sat_sub amt (ok_amt paths)) (option_map (fun m => sat_sub m (ok_fee paths)) mf) sp H3 Hlt)
          as (p' & Hp' & Hy & _).
        rewrite Ef in Hp'. cbn [fst] in Hp'. exists p'. split; assumption.
      * apply in_app_or in Hin as [Hin|Hin]; [contradiction|].
        pose proof (frs_inflight_kept id rest (Some p3) (c + Z.of_nat (List.length paths)) (sat_sub amt (ok_amt paths))
                      (option_map (fun m => sat_sub m (ok_fee paths)) mf) sp i0 h0 a f r) as H.
        rewrite Ef in H. cbn [fst snd] in H. exact (H Hin Hr).
    + cbn [fst snd] in *. destruct Hin as [H|[H|Hin]]; try discriminate.
      cbn [app] in Hin. rewrite !app_nil_r in Hin.
      destruct (Hnew Hin) as (H1 & _ & _). eexists. split; [reflexivity|exact H1].
  - destruct (existsb (fun x => negb (is_sok (pr_res x))) paths).
    + destruct (frs rest id (Some p3) (c + Z.of_nat (List.length paths)) amt mf) as [[e' outs] rest'] eqn:Ef.
      cbn [fst snd] in *. destruct Hin as [H|[H|Hin]]; try discriminate.
      apply in_app_or in Hin as [Hin|Hin].
      * destruct (Hnew Hin) as (_ & H3 & Hlt).
        destruct (frs_keeps id rest p3 _ amt mf sp H3 Hlt) as (p' & Hp' & Hy & _).
        rewrite Ef in Hp'. cbn [fst] in Hp'. exists p'. split; assumption.
      * apply in_app_or in Hin as [Hin|Hin]; [contradiction|].
        pose proof (frs_inflight_kept id rest (Some p3) (c + Z.of_nat (List.length paths)) amt mf sp i0 h0 a f r) as H.
        rewrite Ef in H. cbn [fst snd] in H. exact (H Hin Hr).
    + cbn [fst snd] in *. destruct Hin as [H|[H|Hin]]; try discriminate.
      cbn [app] in Hin. rewrite !app_nil_r in Hin.
      destruct (Hnew Hin) as (H1 & _ & _). eexists. split; [reflexivity|exact H1].
Qed.
