(** C02 — ordering invariants of the abstract forwarding model [Model/Fwd.v], for EVERY label list
    (message deliveries, completions in any order, on-chain events, manager writes, crashes).
    The invariant is a boolean predicate; preservation by each kind of step is checked by exhaustive
    case analysis over the finite fields of the state ([blockers] enters only through zero / non-zero,
    so the two shapes [O] and [S n] with [n] arbitrary cover every natural number). *)
From Coq Require Import Bool List Lia.
Import ListNotations.
Require Import LdkV.Model.Fwd.

Definition ust_eqb (a b : ust) : bool :=
  match a, b with NotIssued, NotIssued | InFlight, InFlight | Complete, Complete => true | _, _ => false end.
Definition up_eqb (a b : upst) : bool :=
  match a, b with
  | UCommitted, UCommitted | UClaimInFlight, UClaimInFlight | UClaimed, UClaimed | UFailed, UFailed => true
  | _, _ => false
  end.
Definition is_zero (n : nat) : bool := match n with O => true | S _ => false end.
Definition fulfilish (d : downst) : bool :=
  match d with DFulfilRecv | DFulfilCommitted | DFulfilRevoked | DChainClaimed => true | _ => false end.

(** ghost-free part of the invariant *)
Definition pure_ok (x : mem) : bool :=
  (* the upstream state mirrors the status of the preimage update *)
  (match uPre x with
   | InFlight => up_eqb (up x) UClaimInFlight
   | Complete => up_eqb (up x) UClaimed
   | NotIssued => up_eqb (up x) UCommitted || up_eqb (up x) UFailed
   end) &&
  (* I1: the forgetting update is at the persister only after the preimage update is complete *)
  implb (forget_at_persister x) (preimage_complete x) &&
  (* K: a fulfil known from downstream (message or chain) has been claimed upstream *)
  implb (fulfilish (down x)) (is_claimish (up x)) &&
  (* L *)
  implb (up_eqb (up x) UFailed)
        (match down x with DFailRevoked | DChainTimedOut | DOnChain => true | _ => false end) &&
  (* R: a forgetting update exists only for an HTLC that was claimed upstream *)
  implb (match dForget x with FNot => false | _ => true end) (is_claimish (up x)) &&
  (* S: C's revoke_and_ack is only processed once the update carrying the claimed preimage is complete *)
  implb (match dForget x with FNot => false | _ => true end) (ust_eqb (dClaimed x) Complete) &&
  (* P: without a blocker the preimage update is already complete *)
  implb (match down x with DFulfilRecv | DFulfilCommitted => true | _ => false end && is_zero (blockers x))
        (preimage_complete x).

(** part of the invariant that relates memory to the world *)
Definition fail_ok (x : mem) (gh : ghost) : bool :=
  implb (up_eqb (up x) UFailed) (c_failed gh || timeout_buried gh).
Definition gh_ok (x : mem) (gh : ghost) : bool :=
  fail_ok x gh &&
  implb (c_paid gh) (is_claimish (up x)) &&
  implb (c_paid gh) (ust_eqb (dClaimed x) Complete) &&
  negb (c_paid gh && (c_failed gh || timeout_buried gh)) &&
  (* a burial is always the burial of something in a confirmed commitment *)
  implb (timeout_buried gh) (match d_conf gh with None => false | Some _ => true end).

(** facts that never revert *)
Definition mono (a b : mem) : bool :=
  implb (ust_eqb (uPre a) Complete) (ust_eqb (uPre b) Complete) &&
  implb (ust_eqb (dClaimed a) Complete) (ust_eqb (dClaimed b) Complete).
Definition gh_mono (a b : ghost) : bool :=
  implb (c_paid a) (c_paid b) && implb (c_failed a) (c_failed b) && implb (timeout_buried a) (timeout_buried b) &&
  match d_conf a with None => true | Some o => match d_conf b with Some o' => Bool.eqb o o' | None => false end end.

Definition all_bool := [true; false].
Definition all_conf : list (option bool) := [None; Some true; Some false].
Definition all_ghost : list ghost :=
  flat_map (fun a => flat_map (fun b => flat_map (fun c => map (fun d =>
    {| c_paid := a; c_failed := b; timeout_buried := c; d_conf := d |}) all_conf) all_bool) all_bool) all_bool.
Definition local_labels : list label :=
  [LForward; LFulfil true; LFulfil false; LCommitFulfil true; LCommitFulfil false; LRaaFulfil true; LRaaFulfil false;
   LFailMsg; LCommitFail; LRaaFail; LCompleteU; LCompleteClaimed; LCompleteForget; LDupBlocker; LFreeDup; LDiscD;
   LCloseD HolderCurrent true; LCloseD HolderCurrent false; LCloseD HolderPrevious true; LCloseD HolderPrevious false;
   LCloseD CounterpartyCurrent true; LCloseD CounterpartyCurrent false;
   LCloseD CounterpartyPrevious true; LCloseD CounterpartyPrevious false;
   LChainPreimage true; LChainPreimage false; LChainNoOutputBuried; LChainTimeoutSpendBuried].

Definition is_local (l : label) : bool := match l with LPersistMgr | LCrash _ _ _ => false | _ => true end.

Lemma all_ghost_complete gh : In gh all_ghost.
Proof. destruct gh as [[] [] [] [[]|]]; cbn; tauto. Qed.
Lemma local_labels_complete l : is_local l = true -> In l local_labels.
Proof. destruct l as [ |[]|[]|[]| | | | | | | | | |[] []|[]| | | |lu lc lf]; cbn; intros; try discriminate; tauto. Qed.

(** one local step preserves everything, for this memory and every ghost / label *)
Definition local_ok (x : mem) : bool :=
  forallb (fun gh =>
    forallb (fun l =>
      let '(x', gh') := lstep x gh l in
      implb (pure_ok x && gh_ok x gh)
            (pure_ok x' && gh_ok x' gh' && mono x x' && gh_mono gh gh')) local_labels) all_ghost.

Lemma local_ok_all x : local_ok x = true.
Proof.
  destruct x as [u d p c f b].
  destruct b as [|n]; destruct u, d, p, c, f; vm_compute; reflexivity.
Qed.

Lemma lstep_inv x gh l :
  is_local l = true -> pure_ok x = true -> gh_ok x gh = true ->
  let '(x', gh') := lstep x gh l in
  pure_ok x' = true /\ gh_ok x' gh' = true /\ mono x x' = true /\ gh_mono gh gh' = true.
Proof.
  intros Hl Hp Hg. assert (H := local_ok_all x). unfold local_ok in H.
  rewrite forallb_forall in H. specialize (H gh (all_ghost_complete gh)).
  rewrite forallb_forall in H. specialize (H l (local_labels_complete l Hl)).
  destruct (lstep x gh l) as [x' gh']. rewrite Hp, Hg in H. cbn [andb implb] in H.
  rewrite !andb_true_iff in H. tauto.
Qed.

(** restart: for every written manager [s0] and every disk content consistent with the invariant *)
Definition restart_ok (s0 : mem) : bool :=
  forallb (fun gh =>
    forallb (fun eU => forallb (fun eC => forallb (fun eF =>
      implb (pure_ok s0 && fail_ok s0 gh &&
             implb eF eU && implb eF eC &&
             implb (ust_eqb (uPre s0) Complete) eU && implb (ust_eqb (dClaimed s0) Complete) eC &&
             implb (c_paid gh) eC && negb (c_paid gh && (c_failed gh || timeout_buried gh)) &&
             implb (timeout_buried gh) (match d_conf gh with None => false | Some _ => true end))
            (let x' := restart s0 eU eC eF in
             pure_ok x' && gh_ok x' gh && mono s0 x' &&
             implb eU (ust_eqb (uPre x') Complete) && implb eC (ust_eqb (dClaimed x') Complete)))
      all_bool) all_bool) all_bool) all_ghost.

Lemma restart_ok_all s0 : restart_ok s0 = true.
Proof.
  destruct s0 as [u d p c f b].
  destruct b as [|n]; destruct u, d, p, c, f; vm_compute; reflexivity.
Qed.

Lemma all_bool_complete b : In b all_bool.
Proof. destruct b; cbn; tauto. Qed.

Lemma restart_inv s0 gh eU eC eF :
  pure_ok s0 = true -> fail_ok s0 gh = true ->
  implb eF eU = true -> implb eF eC = true ->
  implb (ust_eqb (uPre s0) Complete) eU = true -> implb (ust_eqb (dClaimed s0) Complete) eC = true ->
  implb (c_paid gh) eC = true -> negb (c_paid gh && (c_failed gh || timeout_buried gh)) = true ->
  implb (timeout_buried gh) (match d_conf gh with None => false | Some _ => true end) = true ->
  let x' := restart s0 eU eC eF in
  pure_ok x' = true /\ gh_ok x' gh = true /\ mono s0 x' = true /\
  implb eU (ust_eqb (uPre x') Complete) = true /\ implb eC (ust_eqb (dClaimed x') Complete) = true.
Proof.
  intros H1 H2 H3 H4 H5 H6 H7 H8 H9. assert (H := restart_ok_all s0). unfold restart_ok in H.
  rewrite forallb_forall in H. specialize (H gh (all_ghost_complete gh)).
  rewrite forallb_forall in H. specialize (H eU (all_bool_complete eU)).
  rewrite forallb_forall in H. specialize (H eC (all_bool_complete eC)).
  rewrite forallb_forall in H. specialize (H eF (all_bool_complete eF)).
  rewrite H1, H2, H3, H4, H5, H6, H7, H8, H9 in H. cbn [andb implb] in H.
  cbv zeta. rewrite !andb_true_iff in H. tauto.
Qed.

(** the system invariant *)
Definition Inv (s : sys) : Prop :=
  pure_ok (m s) = true /\ gh_ok (m s) (g s) = true /\
  pure_ok (snap s) = true /\ fail_ok (snap s) (g s) = true /\ mono (snap s) (m s) = true.

Lemma inv_init : Inv init.
Proof. repeat split. Qed.

Lemma fail_ok_mono x gh gh' : fail_ok x gh = true -> gh_mono gh gh' = true -> fail_ok x gh' = true.
Proof.
  unfold fail_ok, gh_mono. destruct gh as [a b c d], gh' as [a' b' c' d']; cbn.
  destruct (up_eqb (up x) UFailed), a, b, c, a', b', c', d as [[]|], d' as [[]|]; cbn; intros; try reflexivity; discriminate.
Qed.

Lemma mono_trans a b c : mono a b = true -> mono b c = true -> mono a c = true.
Proof.
  unfold mono. destruct (uPre a), (uPre b), (uPre c), (dClaimed a), (dClaimed b), (dClaimed c); cbn;
    intros; try reflexivity; discriminate.
Qed.

Lemma mono_refl a : mono a a = true.
Proof. unfold mono. destruct (uPre a), (dClaimed a); reflexivity. Qed.

(** what a crash leaves on disk is consistent with the invariant *)
Lemma landed_facts s lu lc lf :
  Inv s ->
  let x := m s in
  let eU := landedU x lu in let eF := landedF x lf in let eC := landedC x lc lf in
  implb eF eU = true /\ implb eF eC = true /\
  implb (ust_eqb (uPre (snap s)) Complete) eU = true /\
  implb (ust_eqb (dClaimed (snap s)) Complete) eC = true /\
  implb (c_paid (g s)) eC = true.
Proof.
  intros (Hp & Hg & _ & _ & Hm). cbv zeta.
  assert (H1 : implb (forget_at_persister (m s)) (preimage_complete (m s)) = true).
  { unfold pure_ok in Hp. rewrite !andb_true_iff in Hp. tauto. }
  assert (H2 : implb (c_paid (g s)) (ust_eqb (dClaimed (m s)) Complete) = true).
  { unfold gh_ok in Hg. rewrite !andb_true_iff in Hg. tauto. }
  assert (H5 : implb (match dForget (m s) with FNot => false | _ => true end) (ust_eqb (dClaimed (m s)) Complete) = true).
  { unfold pure_ok in Hp. rewrite !andb_true_iff in Hp. tauto. }
  unfold mono in Hm. apply andb_true_iff in Hm. destruct Hm as (H3 & H4).
  clear Hp Hg.
  unfold landedU, landedF, landedC, forget_at_persister, preimage_complete in *.
  destruct (uPre (m s)), (dClaimed (m s)), (dForget (m s)), (uPre (snap s)), (dClaimed (snap s)),
    (c_paid (g s)), lu, lc, lf; cbn in *; repeat split; try reflexivity; discriminate.
Qed.

Lemma step_inv s l : Inv s -> Inv (step s l).
Proof.
  intros HI. assert (HI' := HI). destruct HI as (Hp & Hg & Hsp & Hsf & Hm).
  destruct (is_local l) eqn:Hl.
  - assert (H := lstep_inv (m s) (g s) l Hl Hp Hg).
    assert (Hs : step s l = let '(x', g') := lstep (m s) (g s) l in {| m := x'; snap := snap s; g := g' |})
      by (destruct l; try reflexivity; discriminate).
    rewrite Hs. destruct (lstep (m s) (g s) l) as [x' g']. destruct H as (H1 & H2 & H3 & H4).
    unfold Inv. cbn [Fwd.m Fwd.snap Fwd.g]. repeat split; try assumption.
    + eapply fail_ok_mono; eassumption.
    + eapply mono_trans; eassumption.
  - destruct l; try discriminate.
    + (* LPersistMgr *)
      unfold Inv. cbn [step Fwd.m Fwd.snap Fwd.g]. repeat split; try assumption.
      * unfold gh_ok in Hg. rewrite !andb_true_iff in Hg. tauto.
      * apply mono_refl.
    + (* LCrash *)
      cbn [step]. destruct (landed_facts s lu lc lf HI') as (F1 & F2 & F3 & F4 & F5).
      assert (HX : negb (c_paid (g s) && (c_failed (g s) || timeout_buried (g s))) = true).
      { unfold gh_ok in Hg. rewrite !andb_true_iff in Hg. tauto. }
      assert (HY : implb (timeout_buried (g s)) (match d_conf (g s) with None => false | Some _ => true end) = true).
      { unfold gh_ok in Hg. rewrite !andb_true_iff in Hg. tauto. }
      destruct (restart_inv (snap s) (g s) _ _ _ Hsp Hsf F1 F2 F3 F4 F5 HX HY) as (R1 & R2 & R3 & _ & _).
      unfold Inv. cbn [Fwd.m Fwd.snap Fwd.g]. repeat split; assumption.
Qed.

Lemma run_inv ls : forall s, Inv s -> Inv (run s ls).
Proof.
  unfold run. induction ls as [|l ls IH]; intros s Hs; cbn [fold_left]; [exact Hs|].
  apply IH. apply step_inv. exact Hs.
Qed.

Lemma reachable_inv ls : Inv (run init ls).
Proof. apply run_inv. apply inv_init. Qed.

(** ** The four statements *)

(** the RAA-carrying update of the downstream channel reaches the persister only when the preimage
    update of the upstream channel has been reported complete; hence whatever a crash leaves on disk,
    "D forgot" implies "U knows" *)
Lemma preimage_before_forget ls :
  let s := run init ls in
  (forget_at_persister (m s) = true -> preimage_complete (m s) = true) /\
  (forall lu lf, landedF (m s) lf = true -> landedU (m s) lu = true).
Proof.
  cbv zeta. assert (HI := reachable_inv ls). split.
  - destruct HI as (Hp & _). unfold pure_ok in Hp. rewrite !andb_true_iff in Hp.
    destruct Hp as ((((((_ & H) & _) & _) & _) & _) & _). intros Hf. rewrite Hf in H. exact H.
  - intros lu lf. destruct (landed_facts _ lu false lf HI) as (F1 & _). cbv zeta in F1.
    intros Hf. rewrite Hf in F1. exact F1.
Qed.

(** whenever the preimage was learned downstream (by message or from the chain), and whenever C has
    irrevocably been paid, the upstream claim is in flight or durable — in every reachable state,
    including the state right after any crash *)
Lemma claim_whenever_known ls :
  let s := run init ls in
  (fulfilish (down (m s)) = true -> is_claimish (up (m s)) = true) /\
  (c_paid (g s) = true -> is_claimish (up (m s)) = true).
Proof.
  cbv zeta. destruct (reachable_inv ls) as (Hp & Hg & _). split.
  - unfold pure_ok in Hp. rewrite !andb_true_iff in Hp. destruct Hp as (((((_ & H) & _) & _) & _) & _).
    intros Hf. rewrite Hf in H. exact H.
  - unfold gh_ok in Hg. rewrite !andb_true_iff in Hg. destruct Hg as ((((_ & H) & _) & _) & _).
    intros Hc. rewrite Hc in H. exact H.
Qed.

(** an in-flight claim becomes durable as soon as the persister reports the update *)
Lemma claim_progress ls :
  let s := run init ls in
  up (m s) = UClaimInFlight -> up (m (step s LCompleteU)) = UClaimed.
Proof.
  cbv zeta. destruct (reachable_inv ls) as (Hp & _). intros Hu.
  unfold pure_ok in Hp. rewrite !andb_true_iff in Hp. destruct Hp as ((((((H & _) & _) & _) & _) & _) & _).
  cbn [step]. unfold lstep. destruct (m (run init ls)) as [u d p c f b].
  cbn [Fwd.up Fwd.uPre] in *. subst u. destruct p; cbn in H; try discriminate.
  cbn. unfold release. cbn. destruct f; reflexivity.
Qed.

(** an upstream fail exists only if C's failure is irrevocable, or a commitment of D confirmed and either
    it has NO output for the HTLC and is buried, or it has one and B's timeout spend of it is buried -
    classified by what the CONFIRMED transaction contains *)
Lemma fail_only_when_safe ls :
  let s := run init ls in
  up (m s) = UFailed ->
  c_failed (g s) = true \/
  (d_conf (g s) = Some false /\ timeout_buried (g s) = true) \/
  (d_conf (g s) = Some true /\ timeout_buried (g s) = true).
Proof.
  cbv zeta. destruct (reachable_inv ls) as (_ & Hg & _). intros Hu.
  unfold gh_ok, fail_ok in Hg. rewrite !andb_true_iff in Hg. destruct Hg as ((((H & _) & _) & _) & Hc).
  rewrite Hu in H. cbn in H. apply orb_true_iff in H. destruct H as [H|H]; [left; exact H|].
  rewrite H in Hc. cbn in Hc. destruct (d_conf (g (run init ls))) as [[]|]; [right; right; auto | right; left; auto | discriminate].
Qed.

(** the two burial labels are exactly what they say: each fires only for its own kind of confirmed
    commitment, whichever of the four commitments it is *)
Lemma burial_needs_matching_output x gh :
  (fst (lstep x gh LChainNoOutputBuried) <> x -> d_conf gh = Some false) /\
  (fst (lstep x gh LChainTimeoutSpendBuried) <> x -> d_conf gh = Some true).
Proof.
  unfold lstep. destruct (down x), (d_conf gh) as [[]|]; split; intros H; try reflexivity; try (exfalso; apply H; reflexivity);
    destruct (c_paid gh); try reflexivity; exfalso; apply H; reflexivity.
Qed.

(** a simple ledger: what B nets on the two links once both are settled *)
Definition net (s : sys) (in_amt out_amt : nat) : option nat :=
  if c_paid (g s) then (if is_claimish (up (m s)) then Some (in_amt - out_amt) else None)
  else Some 0.

Lemma no_loss ls in_amt out_amt fee :
  out_amt + fee <= in_amt ->
  let s := run init ls in
  (* never both *)
  (c_paid (g s) = true -> c_failed (g s) = false /\ timeout_buried (g s) = false /\ up (m s) <> UFailed) /\
  (up (m s) = UFailed -> c_paid (g s) = false) /\
  exists v, net s in_amt out_amt = Some v /\ (c_paid (g s) = true -> fee <= v).
Proof.
  intros Hfee. cbv zeta. assert (HI := reachable_inv ls). destruct HI as (Hp & Hg & _).
  assert (Hk := claim_whenever_known ls). cbv zeta in Hk. destruct Hk as (_ & Hk).
  unfold gh_ok in Hg. rewrite !andb_true_iff in Hg. destruct Hg as ((((Hf & _) & _) & Hx) & _).
  set (s := run init ls) in *.
  assert (A : c_paid (g s) = true -> c_failed (g s) = false /\ timeout_buried (g s) = false /\ up (m s) <> UFailed).
  { intros Hc. specialize (Hk Hc). rewrite Hc in Hx.
    destruct (c_failed (g s)), (timeout_buried (g s)); cbn in Hx; try discriminate.
    repeat split; try reflexivity. intros E. rewrite E in Hk. discriminate. }
  split; [exact A|]. split.
  - intros Hu. destruct (c_paid (g s)) eqn:E; [|reflexivity]. destruct (A eq_refl) as (_ & _ & Hn). contradiction.
  - unfold net. destruct (c_paid (g s)) eqn:E.
    + rewrite (Hk eq_refl). exists (in_amt - out_amt). split; [reflexivity|]. intros _. lia.
    + exists 0. split; [reflexivity|]. discriminate.
Qed.
