(** C05, shachain part: [CounterpartyCommitmentSecrets] refines "a map from index to secret".
    All statements are for an arbitrary hash function [H] (no property of [H] is used except in
    the explicitly marked forgery lemma, which takes injectivity as a hypothesis). *)
Require Import LdkV.Prim.U64 LdkV.Model.Shachain.
Open Scope Z_scope.

(* ------------------------------------------------------------------------------------------ *)
(** * Bits *)

Lemma land_pow2 a b : 0 <= b ->
  Z.land a (2 ^ b) = if Z.testbit a b then 2 ^ b else 0.
Proof.
  intros Hb. apply Z.bits_inj'. intros n Hn.
  rewrite Z.land_spec.
  destruct (Z.eq_dec n b) as [->|Hne].
  - rewrite Z.pow2_bits_true by lia.
    destruct (Z.testbit a b); [rewrite Z.pow2_bits_true by lia | rewrite Z.bits_0]; reflexivity.
  - rewrite Z.pow2_bits_false by lia. rewrite andb_false_r.
    destruct (Z.testbit a b); [rewrite Z.pow2_bits_false by lia | rewrite Z.bits_0]; reflexivity.
Qed.

Lemma bit_set_testbit idx b : 0 <= b -> bit_set idx b = Z.testbit idx b.
Proof.
  intros Hb. unfold bit_set. rewrite Z.shiftl_1_l, land_pow2 by lia.
  assert (0 < 2 ^ b) by (apply Z.pow_pos_nonneg; lia).
  destruct (Z.testbit idx b).
  - apply Z.eqb_refl.
  - apply Z.eqb_neq. lia.
Qed.

Lemma low_bits_zero_mod x p : 0 <= p ->
  (forall b, 0 <= b < p -> Z.testbit x b = false) -> x mod 2 ^ p = 0.
Proof.
  intros Hp Hz. apply Z.bits_inj_0. intros n.
  destruct (Z.neg_nonneg_cases n) as [Hn|Hn]; [apply Z.testbit_neg_r; lia|].
  destruct (Z_lt_le_dec n p).
  - rewrite Z.mod_pow2_bits_low by lia. apply Hz; lia.
  - apply Z.mod_pow2_bits_high; lia.
Qed.

Lemma mod_zero_low_bits x p b : 0 <= b < p -> x mod 2 ^ p = 0 -> Z.testbit x b = false.
Proof.
  intros Hb Hm. rewrite <- (Z.mod_pow2_bits_low x p b) by lia. rewrite Hm. apply Z.bits_0.
Qed.

Lemma testbit_odd_mul q p : 0 <= p -> Z.testbit (2 ^ p * (2 * q + 1)) p = true.
Proof.
  intros Hp. rewrite Z.mul_comm, Z.mul_pow2_bits by lia. replace (p - p) with 0 by lia.
  rewrite Z.bit0_odd. rewrite Z.add_comm, Z.odd_add_mul_2. reflexivity.
Qed.

Lemma mul_pow2_mod q p : 0 <= p -> (2 ^ p * q) mod 2 ^ p = 0.
Proof. intros. rewrite Z.mul_comm. apply Z.mod_mul. apply Z.pow_nonzero; lia. Qed.

Lemma testbit_true_decomp x p : 0 <= p -> 0 <= x ->
  x mod 2 ^ p = 0 -> Z.testbit x p = true -> exists q, 0 <= q /\ x = 2 ^ p * (2 * q + 1).
Proof.
  intros Hp Hx Hm Hb.
  assert (Hpos : 0 < 2 ^ p) by (apply Z.pow_pos_nonneg; lia).
  apply Z.testbit_true in Hb; [|lia].
  exists (x / 2 ^ p / 2). split.
  - apply Z.div_pos; [apply Z.div_pos|]; lia.
  - pose proof (Z.div_mod x (2 ^ p) ltac:(lia)) as E1.
    pose proof (Z.div_mod (x / 2 ^ p) 2 ltac:(lia)) as E2.
    rewrite Hm in E1. rewrite Hb in E2. rewrite <- E2. lia.
Qed.

(* ------------------------------------------------------------------------------------------ *)
(** * [place_secret] *)

Section WithH.
  Variable H : bytes -> bytes.
  Notation derive_loop := (derive_loop H).
  Notation gen := (build_commitment_secret H).

  Lemma place_loop_spec idx : forall fuel i,
    0 <= i -> i + Z.of_nat fuel = 48 ->
    let p := place_loop fuel i idx in
    i <= p <= 48 /\ (p < 48 -> Z.testbit idx p = true) /\
    (forall b, i <= b < p -> Z.testbit idx b = false).
  Proof.
    induction fuel as [|f IH]; intros i Hi Hsum; cbn [place_loop].
    - repeat split; try lia.
    - rewrite bit_set_testbit by lia. destruct (Z.testbit idx i) eqn:Eb.
      + repeat split; try lia. intros; assumption.
      + specialize (IH (i + 1) ltac:(lia) ltac:(lia)). cbn zeta in IH.
        destruct IH as (Hr & Hset & Hlow). repeat split; try lia; try assumption.
        intros b Hb. destruct (Z.eq_dec b i) as [->|]; [assumption|apply Hlow; lia].
  Qed.

  Lemma place_spec idx :
    let p := place_secret idx in
    0 <= p <= 48 /\ (p < 48 -> Z.testbit idx p = true) /\
    (forall b, 0 <= b < p -> Z.testbit idx b = false).
  Proof. apply (place_loop_spec idx 48%nat 0); lia. Qed.

  Lemma place_range idx : 0 <= place_secret idx <= 48.
  Proof. apply place_spec. Qed.

  Lemma place_mod idx : idx mod 2 ^ place_secret idx = 0.
  Proof.
    destruct (place_spec idx) as (Hr & _ & Hlow). apply low_bits_zero_mod; [lia|exact Hlow].
  Qed.

  (** arithmetic reading: an index in slot [p < 48] is an odd multiple of [2^p]; slot 48 is index 0 *)
  Lemma place_arith idx : 0 <= idx < 2 ^ 48 ->
    (place_secret idx = 48 /\ idx = 0) \/
    (place_secret idx < 48 /\ exists q, 0 <= q /\ idx = 2 ^ place_secret idx * (2 * q + 1)).
  Proof.
    intros Hidx. destruct (place_spec idx) as (Hr & Hset & Hlow). cbn zeta in *.
    pose proof (place_mod idx) as Hm.
    destruct (Z.eq_dec (place_secret idx) 48) as [E|NE].
    - left. split; [exact E|]. rewrite E in Hm. rewrite Z.mod_small in Hm; lia.
    - right. split; [lia|]. apply testbit_true_decomp; try lia. apply Hset; lia.
  Qed.

  Lemma place_of_odd_mul p q : 0 <= p < 48 -> 0 <= q ->
    place_secret (2 ^ p * (2 * q + 1)) = p.
  Proof.
    intros Hp Hq. set (x := 2 ^ p * (2 * q + 1)).
    destruct (place_spec x) as (Hr & Hset & Hlow). cbn zeta in *.
    destruct (Z.lt_trichotomy (place_secret x) p) as [Hlt|[E|Hgt]]; [|exact E|].
    - exfalso. specialize (Hset ltac:(lia)).
      rewrite (mod_zero_low_bits x p) in Hset; [discriminate|lia|apply mul_pow2_mod; lia].
    - exfalso. specialize (Hlow p ltac:(lia)). unfold x in Hlow.
      rewrite testbit_odd_mul in Hlow; [discriminate|lia].
  Qed.

  Lemma place_zero : place_secret 0 = 48.
  Proof. reflexivity. Qed.

  (* ---------------------------------------------------------------------------------------- *)
  (** * [derive_secret] / [build_commitment_secret] *)

  Lemma derive_loop_low_zero idx res : forall n,
    (forall b, 0 <= b < Z.of_nat n -> Z.testbit idx b = false) -> derive_loop n idx res = res.
  Proof.
    induction n as [|b IH]; intros Hz; cbn [Shachain.derive_loop]; [reflexivity|].
    unfold derive_step. rewrite bit_set_testbit by lia. rewrite Hz by lia.
    apply IH. intros; apply Hz; lia.
  Qed.

  (** If [a] and [idx] agree on the bits [pos .. n-1] and [idx] has no bit below [pos], then
      deriving [a] from the top is deriving [idx] from the top followed by the low [pos] bits of [a]. *)
  Lemma derive_loop_split a idx (pos : nat) : forall (n : nat) res, (pos <= n)%nat ->
    (forall b, Z.of_nat pos <= b < Z.of_nat n -> Z.testbit a b = Z.testbit idx b) ->
    (forall b, 0 <= b < Z.of_nat pos -> Z.testbit idx b = false) ->
    derive_loop n a res = derive_loop pos a (derive_loop n idx res).
  Proof.
    intros n res Hle. revert res. induction Hle as [|n Hle IH]; intros res Hag Hz.
    - rewrite (derive_loop_low_zero idx res pos Hz). reflexivity.
    - cbn [Shachain.derive_loop]. unfold derive_step.
      rewrite !bit_set_testbit by lia. rewrite (Hag (Z.of_nat n)) by lia.
      apply IH; [intros; apply Hag; lia|exact Hz].
  Qed.

  (** The relation the store relies on: the secret of [a] is derived from the secret of any
      index [idx] that is [a] with its low [pos] bits cleared. *)
  Lemma derive_from_prefix seed a idx pos : 0 <= pos <= 48 -> 0 <= a -> 0 <= idx ->
    a / 2 ^ pos = idx / 2 ^ pos -> idx mod 2 ^ pos = 0 ->
    derive_secret H (gen seed idx) pos a = gen seed a.
  Proof.
    intros Hpos Ha Hidx Hdiv Hmod. unfold derive_secret, build_commitment_secret.
    symmetry. apply derive_loop_split.
    - lia.
    - intros b Hb. rewrite Z2Nat.id in Hb by lia.
      replace b with ((b - pos) + pos) by lia.
      rewrite <- !Z.div_pow2_bits by lia. rewrite Hdiv. reflexivity.
    - intros b Hb. rewrite Z2Nat.id in Hb by lia. apply (mod_zero_low_bits idx pos); assumption.
  Qed.

  (* ---------------------------------------------------------------------------------------- *)
  (** * The mask of [get_secret] *)

  Lemma testbit_above x n k : 0 <= x < 2 ^ k -> 0 <= k <= n -> Z.testbit x n = false.
  Proof.
    intros Hx Hk. apply Z.testbit_false; [lia|].
    rewrite Z.div_small; [reflexivity|]. split; [lia|].
    apply Z.lt_le_trans with (2 ^ k); [lia|]. apply Z.pow_le_mono_r; lia.
  Qed.

  Lemma mask_clear j i : 0 <= j < 2 ^ 64 -> 0 <= i <= 63 ->
    Z.land j (u64_not (Z.shiftl 1 i - 1)) = 2 ^ i * (j / 2 ^ i).
  Proof.
    intros Hj Hi. unfold u64_not. rewrite Z.shiftl_1_l.
    replace (2 ^ 64 - 1 - (2 ^ i - 1)) with (Z.shiftl (Z.ones (64 - i)) i).
    2:{ rewrite Z.shiftl_mul_pow2, Z.ones_equiv by lia.
        replace (2 ^ 64) with (2 ^ (64 - i) * 2 ^ i) by (rewrite <- Z.pow_add_r by lia; f_equal; lia).
        lia. }
    rewrite (Z.mul_comm (2 ^ i)), <- Z.shiftl_mul_pow2, <- Z.shiftr_div_pow2 by lia.
    apply Z.bits_inj'. intros n Hn.
    rewrite Z.land_spec, !Z.shiftl_spec by lia.
    destruct (Z_lt_le_dec n i).
    - rewrite !(Z.testbit_neg_r _ (n - i)) by lia. apply andb_false_r.
    - rewrite Z.shiftr_spec by lia. replace (n - i + i) with n by lia.
      destruct (Z_lt_le_dec n 64).
      + rewrite Z.ones_spec_low by lia. apply andb_true_r.
      + rewrite Z.ones_spec_high by lia. rewrite (testbit_above j n 64) by lia. reflexivity.
  Qed.

  (* ---------------------------------------------------------------------------------------- *)
  (** * List plumbing *)

  Lemma list_eqb_refl (l : bytes) : bytes_eqb l l = true.
  Proof.
    unfold bytes_eqb. induction l as [|x l IH]; cbn [list_eqb]; [reflexivity|].
    rewrite Z.eqb_refl, IH. reflexivity.
  Qed.

  Lemma bytes_eqb_eq (a b : bytes) : bytes_eqb a b = true -> a = b.
  Proof.
    unfold bytes_eqb. revert b. induction a as [|x a IH]; intros [|y b]; cbn [list_eqb]; intros E;
      try reflexivity; try discriminate.
    apply andb_true_iff in E. destruct E as [E1 E2]. apply Z.eqb_eq in E1. subst y.
    f_equal. apply IH. exact E2.
  Qed.

  Lemma upd_nth_length {A} (f : A -> A) l : forall n, List.length (upd_nth n f l) = List.length l.
  Proof. induction l as [|x l IH]; intros [|n]; cbn [upd_nth List.length]; try reflexivity. rewrite IH. reflexivity. Qed.

  Lemma nth_upd_nth_eq {A} (f : A -> A) d l : forall n, (n < List.length l)%nat ->
    nth n (upd_nth n f l) d = f (nth n l d).
  Proof.
    induction l as [|x l IH]; intros [|n] Hn; cbn [upd_nth nth List.length] in *; try lia; try reflexivity.
    apply IH. lia.
  Qed.

  Lemma nth_upd_nth_neq {A} (f : A -> A) d l : forall n k, n <> k ->
    nth k (upd_nth n f l) d = nth k l d.
  Proof.
    induction l as [|x l IH]; intros [|n] [|k] Hne; cbn [upd_nth nth]; try reflexivity; try congruence.
    apply IH. congruence.
  Qed.

  Lemma forallb_firstn_nth {A} (f : A -> bool) d : forall l k,
    (forall i, (i < k)%nat -> (i < List.length l)%nat -> f (nth i l d) = true) ->
    forallb f (firstn k l) = true.
  Proof.
    induction l as [|x l IH]; intros [|k] Hall; cbn [firstn forallb]; try reflexivity.
    pose proof (Hall 0%nat ltac:(lia) ltac:(cbn; lia)) as H0. cbn [nth] in H0. rewrite H0. cbn [andb]. apply IH.
    intros i Hi Hl. apply (Hall (S i)); cbn; lia.
  Qed.

  Lemma forallb_firstn_nth_inv {A} (f : A -> bool) d : forall l k,
    forallb f (firstn k l) = true ->
    forall i, (i < k)%nat -> (i < List.length l)%nat -> f (nth i l d) = true.
  Proof.
    induction l as [|x l IH]; intros [|k] Hall i Hi Hl; cbn [firstn forallb List.length] in *; try lia.
    apply andb_true_iff in Hall. destruct Hall as [Hx Hall].
    destruct i as [|i]; cbn [nth]; [exact Hx|]. apply (IH k Hall); lia.
  Qed.

  (* ---------------------------------------------------------------------------------------- *)
  (** * [get_min_seen_secret] *)

  Definition min_step (m : Z) (sl : slot) : Z := if snd sl <? m then snd sl else m.

  Lemma fold_min_le s : forall init, fold_left min_step s init <= init.
  Proof.
    induction s as [|sl s IH]; intros init; cbn [fold_left]; [lia|].
    specialize (IH (min_step init sl)). unfold min_step in *. destruct (Z.ltb_spec (snd sl) init); lia.
  Qed.

  Lemma fold_min_lower s lo : forall init, lo <= init -> (forall sl, In sl s -> lo <= snd sl) ->
    lo <= fold_left min_step s init.
  Proof.
    induction s as [|sl s IH]; intros init Hi Hall; cbn [fold_left]; [lia|].
    apply IH.
    - unfold min_step. destruct (Z.ltb_spec (snd sl) init); [apply Hall; left; reflexivity|lia].
    - intros sl' Hin. apply Hall. right. exact Hin.
  Qed.

  Lemma fold_min_le_elem s : forall init sl, In sl s -> fold_left min_step s init <= snd sl.
  Proof.
    induction s as [|x s IH]; intros init sl Hin; [destruct Hin|]. cbn [fold_left].
    destruct Hin as [->|Hin].
    - pose proof (fold_min_le s (min_step init sl)). unfold min_step in *.
      destruct (Z.ltb_spec (snd sl) init); lia.
    - apply IH. exact Hin.
  Qed.

  Lemma min_seen_unfold s : get_min_seen_secret s = fold_left min_step s (2 ^ 48).
  Proof. reflexivity. Qed.
End WithH.

(* ------------------------------------------------------------------------------------------ *)
(** * The slot invariant and the refinement theorem *)

Section Refinement.
  Variable H : bytes -> bytes.
  Variable seed : bytes.
  Notation gen := (build_commitment_secret H seed).
  Notation place := place_secret.

  Definition dflt : slot := (zero32, EMPTY_IDX).

  (** Slot [p] after the indices [2^48-1 .. m] were provided: empty if no index in that range
      belongs to slot [p], otherwise it holds the least (i.e. latest provided) such index with
      its correctly generated secret. *)
  Definition slot_ok (m p : Z) (sl : slot) : Prop :=
    (sl = dflt /\ forall b, m <= b < 2 ^ 48 -> place b <> p) \/
    (exists a, sl = (gen a, a) /\ m <= a < 2 ^ 48 /\ place a = p /\
               forall b, m <= b < a -> place b <> p).

  Definition inv (m : Z) (s : store) : Prop :=
    List.length s = 49%nat /\
    forall p, (p < 49)%nat -> slot_ok m (Z.of_nat p) (nth p s dflt).

  Lemma empty_idx_val : EMPTY_IDX = 2 ^ 48.
  Proof. reflexivity. Qed.

  Lemma inv_init : inv (2 ^ 48) new_store.
  Proof.
    split; [reflexivity|]. intros p Hp. left. split.
    - unfold new_store. apply nth_repeat.
    - intros b Hb. lia.
  Qed.

  Lemma slot_ok_snd_ge m p sl : 0 <= m <= 2 ^ 48 -> slot_ok m p sl -> m <= snd sl.
  Proof.
    intros Hm [[-> _]|(a & -> & Ha & _)]; cbn [snd dflt]; [rewrite empty_idx_val|]; lia.
  Qed.

  Lemma inv_min_seen m s : 0 <= m <= 2 ^ 48 -> inv m s -> get_min_seen_secret s = m.
  Proof.
    intros Hm [Hlen Hall]. rewrite min_seen_unfold. apply Z.le_antisymm.
    - destruct (Z.eq_dec m (2 ^ 48)) as [->|Hne]; [apply fold_min_le|].
      (* index [m] itself sits in its slot *)
      pose proof (place_range m) as Hpr.
      assert (Hp : (Z.to_nat (place m) < 49)%nat) by lia.
      specialize (Hall _ Hp). rewrite Z2Nat.id in Hall by lia.
      assert (E : snd (nth (Z.to_nat (place m)) s dflt) = m).
      { destruct Hall as [[_ Hnone]|(a & -> & Ha & Hpa & Hleast)].
        - exfalso. apply (Hnone m); [lia|reflexivity].
        - cbn [snd]. destruct (Z.eq_dec a m) as [->|]; [reflexivity|].
          exfalso. apply (Hleast m); [lia|reflexivity]. }
      rewrite <- E. apply fold_min_le_elem. apply nth_In. lia.
    - apply fold_min_lower; [lia|]. intros sl Hin.
      destruct (In_nth _ _ dflt Hin) as (k & Hk & <-).
      apply (slot_ok_snd_ge m (Z.of_nat k)); [lia|]. apply Hall. lia.
  Qed.

  (** one [provide_secret] of the next index in sequence *)
  Lemma provide_step m s : 1 <= m <= 2 ^ 48 -> inv m s ->
    exists s', provide_secret H s (m - 1) (gen (m - 1)) = Some s' /\ inv (m - 1) s'.
  Proof.
    intros Hm Hinv. pose proof Hinv as [Hlen Hall].
    set (idx := m - 1). set (pos := place idx).
    pose proof (place_range idx) as Hpr. fold pos in Hpr.
    pose proof (place_mod idx) as Hmod. fold pos in Hmod.
    assert (Hpow : 0 < 2 ^ pos) by (apply Z.pow_pos_nonneg; lia).
    unfold provide_secret. fold pos.
    (* the consistency loop passes *)
    assert (Hchk : forallb (fun sl : slot => bytes_eqb (derive_secret H (gen idx) pos (snd sl)) (fst sl))
                     (firstn (Z.to_nat pos) s) = true).
    { apply (forallb_firstn_nth _ dflt). intros i Hi Hil.
      assert (Hi' : Z.of_nat i < pos) by lia.
      set (P := 2 ^ Z.of_nat i).
      assert (HP : 0 < P) by (apply Z.pow_pos_nonneg; lia).
      (* [idx + 2^i] belongs to slot [i] and lies below [2^48] *)
      assert (Hdecomp : exists q, 0 <= q /\ idx = 2 ^ pos * q).
      { exists (idx / 2 ^ pos). split; [apply Z.div_pos; lia|].
        pose proof (Z.div_mod idx (2 ^ pos) ltac:(lia)). lia. }
      destruct Hdecomp as (q & Hq & Eidx).
      assert (Esplit : 2 ^ pos = P * 2 * 2 ^ (pos - Z.of_nat i - 1)).
      { unfold P. replace pos with (Z.of_nat i + 1 + (pos - Z.of_nat i - 1)) at 1 by lia.
        rewrite !Z.pow_add_r by lia. rewrite Z.pow_1_r. reflexivity. }
      set (R := 2 ^ (pos - Z.of_nat i - 1)) in *.
      assert (HR : 0 < R) by (apply Z.pow_pos_nonneg; lia).
      assert (Ecand : idx + P = P * (2 * (R * q) + 1)) by (rewrite Eidx, Esplit; ring).
      assert (Hplc : place (idx + P) = Z.of_nat i).
      { rewrite Ecand. apply place_of_odd_mul; [lia|]. apply Z.mul_nonneg_nonneg; lia. }
      assert (Hlt48 : idx + 2 ^ pos <= 2 ^ 48).
      { assert (E48 : 2 ^ 48 = 2 ^ pos * 2 ^ (48 - pos)) by (rewrite <- Z.pow_add_r by lia; f_equal; lia).
        assert (0 < 2 ^ (48 - pos)) by (apply Z.pow_pos_nonneg; lia).
        rewrite Eidx, E48 in *. unfold idx in *. nia. }
      assert (HPlt : P < 2 ^ pos) by (rewrite Esplit; nia).
      destruct (Hall i ltac:(lia)) as [[_ Hnone]|(a & -> & Ha & Hpa & Hleast)].
      - exfalso. apply (Hnone (idx + P)); [unfold idx in *; lia|exact Hplc].
      - cbn [fst snd].
        assert (Hale : a <= idx + P).
        { destruct (Z_le_gt_dec a (idx + P)); [assumption|].
          exfalso. apply (Hleast (idx + P)); [unfold idx in *; lia|exact Hplc]. }
        rewrite (derive_from_prefix H seed a idx pos); try lia.
        + apply list_eqb_refl.
        + (* same multiple of 2^pos *)
          rewrite Eidx. rewrite (Z.mul_comm (2 ^ pos) q), Z.div_mul by lia.
          symmetry. apply Z.div_unique with (a - 2 ^ pos * q); [|ring].
          left. unfold idx in *. lia. }
    rewrite Hchk. rewrite (inv_min_seen m s) by (assumption || lia).
    destruct (Z.leb_spec m idx) as [Hbad|_]; [unfold idx in Hbad; lia|].
    eexists. split; [reflexivity|].
    (* the invariant is re-established *)
    split; [unfold set_nth; rewrite upd_nth_length; exact Hlen|].
    intros p Hp. unfold set_nth.
    destruct (Nat.eq_dec (Z.to_nat pos) p) as [<-|Hne].
    - rewrite nth_upd_nth_eq by lia. right. exists idx. rewrite Z2Nat.id by lia.
      repeat split; try (unfold idx; lia).
    - rewrite nth_upd_nth_neq by exact Hne.
      assert (Hpne : Z.of_nat p <> pos) by lia.
      destruct (Hall p Hp) as [[E Hnone]|(a & E & Ha & Hpa & Hleast)].
      + left. split; [exact E|]. intros b Hb.
        destruct (Z.eq_dec b idx) as [->|]; [fold pos; lia|apply Hnone; unfold idx in *; lia].
      + right. exists a. repeat split; try assumption; try (unfold idx; lia).
        intros b Hb.
        destruct (Z.eq_dec b idx) as [->|]; [fold pos; lia|apply Hleast; unfold idx in *; lia].
  Qed.

  Lemma feed_inv : forall n, Z.of_nat n <= 2 ^ 48 ->
    exists s, feed H seed n = Some s /\ inv (2 ^ 48 - Z.of_nat n) s.
  Proof.
    induction n as [|k IH]; intros Hn.
    - exists new_store. split; [reflexivity|]. rewrite Z.sub_0_r. apply inv_init.
    - destruct (IH ltac:(lia)) as (s & Hs & Hinv). cbn [feed]. rewrite Hs.
      destruct (provide_step (2 ^ 48 - Z.of_nat k) s ltac:(lia) Hinv) as (s' & Hp & Hinv').
      exists s'. unfold FIRST_IDX.
      replace (2 ^ 48 - 1 - Z.of_nat k) with (2 ^ 48 - Z.of_nat k - 1) by lia.
      split; [exact Hp|].
      replace (2 ^ 48 - Z.of_nat (S k)) with (2 ^ 48 - Z.of_nat k - 1) by lia. exact Hinv'.
  Qed.

  (* ---------------------------------------------------------------------------------------- *)
  (** * [get_secret] under the invariant *)

  (** [idx & !((1 << i) - 1)] *)
  Definition trunc (i j : Z) : Z := 2 ^ i * (j / 2 ^ i).

  Lemma trunc_le i j : 0 <= i -> 0 <= j -> 0 <= trunc i j <= j.
  Proof.
    intros Hi Hj. unfold trunc. assert (0 < 2 ^ i) by (apply Z.pow_pos_nonneg; lia).
    pose proof (Z.div_mod j (2 ^ i) ltac:(lia)). pose proof (Z.mod_pos_bound j (2 ^ i) ltac:(lia)).
    assert (0 <= j / 2 ^ i) by (apply Z.div_pos; lia). nia.
  Qed.

  (** the slots of a suffix of the array, starting at position [i] *)
  Definition suffix_ok (m i : Z) (rest : store) : Prop :=
    forall k, (k < List.length rest)%nat -> slot_ok m (i + Z.of_nat k) (nth k rest dflt).

  Lemma suffix_ok_tl m i sl rest : suffix_ok m i (sl :: rest) -> suffix_ok m (i + 1) rest.
  Proof.
    intros Hs k Hk. specialize (Hs (S k) ltac:(cbn; lia)). cbn [nth] in Hs.
    replace (i + 1 + Z.of_nat k) with (i + Z.of_nat (S k)) by lia. exact Hs.
  Qed.

  (** whatever slot matches, the answer is the generated secret, and the index is not below [m] *)
  Lemma get_loop_sound m j : 0 <= m -> 0 <= j < 2 ^ 48 -> forall rest i x,
    0 <= i -> i + Z.of_nat (List.length rest) <= 49 -> suffix_ok m i rest ->
    get_loop H i rest j = Some x -> x = gen j /\ m <= j.
  Proof.
    intros Hm Hj. induction rest as [|sl rest IH]; intros i x Hi Hlen Hok Hget; cbn [get_loop] in Hget.
    - discriminate.
    - cbn [List.length] in Hlen.
      assert (Hj64 : 0 <= j < 2 ^ 64).
      { split; [lia|]. apply Z.lt_trans with (2 ^ 48); [lia|]. apply Z.pow_lt_mono_r; lia. }
      rewrite mask_clear in Hget by lia. fold (trunc i j) in Hget.
      pose proof (trunc_le i j ltac:(lia) ltac:(lia)) as Htr.
      destruct (Z.eqb_spec (trunc i j) (snd sl)) as [E|NE].
      + injection Hget as <-.
        pose proof (Hok 0%nat ltac:(cbn; lia)) as H0. cbn [nth] in H0. rewrite Z.add_0_r in H0.
        destruct H0 as [[-> _]|(a & -> & Ha & Hpa & _)]; cbn [fst snd dflt] in *.
        * rewrite empty_idx_val in E. lia.
        * subst a. split; [|lia].
          apply derive_from_prefix; try lia.
          -- unfold trunc. assert (0 < 2 ^ i) by (apply Z.pow_pos_nonneg; lia).
             rewrite (Z.mul_comm (2 ^ i)), Z.div_mul by lia. reflexivity.
          -- unfold trunc. apply mul_pow2_mod. lia.
      + apply (IH (i + 1) x); [lia|lia|eapply suffix_ok_tl; exact Hok|exact Hget].
  Qed.

  (** if some slot matches, the loop does not fall through *)
  Lemma get_loop_complete j : 0 <= j < 2 ^ 48 -> forall rest i,
    0 <= i -> i + Z.of_nat (List.length rest) <= 49 ->
    (exists k, (k < List.length rest)%nat /\ snd (nth k rest dflt) = trunc (i + Z.of_nat k) j) ->
    get_loop H i rest j <> None.
  Proof.
    intros Hj. induction rest as [|sl rest IH]; intros i Hi Hlen (k & Hk & Ek); cbn [List.length] in *; [lia|].
    cbn [get_loop].
    assert (Hj64 : 0 <= j < 2 ^ 64).
    { split; [lia|]. apply Z.lt_trans with (2 ^ 48); [lia|]. apply Z.pow_lt_mono_r; lia. }
    rewrite mask_clear by lia. fold (trunc i j).
    destruct (Z.eqb_spec (trunc i j) (snd sl)) as [E|NE]; [discriminate|].
    destruct k as [|k].
    - cbn [nth] in Ek. rewrite Z.add_0_r in Ek. congruence.
    - apply IH; try lia. exists k. split; [lia|]. cbn [nth] in Ek. rewrite Ek. f_equal. lia.
  Qed.

  (** some slot matches every index that was provided *)
  Lemma exists_match m s j : 0 <= m -> inv m s -> m <= j < 2 ^ 48 ->
    forall (d : nat) i, i + Z.of_nat d = 48 -> 0 <= i -> m <= trunc i j ->
    exists k, (k < 49)%nat /\ snd (nth k s dflt) = trunc (Z.of_nat k) j.
  Proof.
    intros Hm [Hlen Hall] Hj. induction d as [|d IH]; intros i Hsum Hi Htr.
    - (* i = 48: only index 0 truncates to itself here *)
      assert (i = 48) by lia. subst i.
      assert (E0 : trunc 48 j = 0) by (unfold trunc; rewrite Z.div_small by lia; lia).
      exists 48%nat. split; [lia|]. change (Z.of_nat 48) with 48. rewrite E0.
      destruct (Hall 48%nat ltac:(lia)) as [[_ Hnone]|(a & -> & Ha & Hpa & _)].
      + exfalso. apply (Hnone 0); [lia|apply place_zero].
      + cbn [snd]. change (Z.of_nat 48) with 48 in Hpa.
        destruct (place_arith a ltac:(lia)) as [[_ ->]|[Hlt _]]; [reflexivity|lia].
    - destruct (Z_le_gt_dec m (trunc (i + 1) j)) as [Hnext|Hnext].
      + apply (IH (i + 1)); lia.
      + (* bit [i] of [j] is set and [trunc i j] is exactly the content of slot [i] *)
        set (P := 2 ^ i). assert (HP : 0 < P) by (apply Z.pow_pos_nonneg; lia).
        set (q := j / P).
        assert (Hq : 0 <= q) by (apply Z.div_pos; lia).
        assert (E1 : trunc i j = P * q) by reflexivity.
        assert (E2 : trunc (i + 1) j = P * (2 * (q / 2))).
        { unfold trunc. rewrite Z.pow_add_r, Z.pow_1_r by lia. fold P.
          rewrite <- Z.div_div by lia. fold q. ring. }
        pose proof (Z.div_mod q 2 ltac:(lia)) as Eq2.
        pose proof (Z.mod_pos_bound q 2 ltac:(lia)) as Hq2.
        assert (Hodd : q = 2 * (q / 2) + 1) by nia.
        set (q' := q / 2) in *. assert (Hq' : 0 <= q') by (apply Z.div_pos; lia).
        assert (Hc : place (trunc i j) = i).
        { rewrite E1, Hodd. apply place_of_odd_mul; lia. }
        pose proof (trunc_le i j ltac:(lia) ltac:(lia)) as Hcle.
        exists (Z.to_nat i). split; [lia|]. rewrite Z2Nat.id by lia.
        destruct (Hall (Z.to_nat i) ltac:(lia)) as [[_ Hnone]|(a & -> & Ha & Hpa & Hleast)];
          rewrite Z2Nat.id in * by lia.
        * exfalso. apply (Hnone (trunc i j)); [lia|exact Hc].
        * cbn [snd].
          destruct (Z.lt_trichotomy a (trunc i j)) as [Hlt|[E|Hgt]]; [|exact E|].
          -- exfalso.
             destruct (place_arith a ltac:(lia)) as [[E48 _]|[_ (qa & Hqa & Ea)]]; [lia|].
             rewrite Hpa in Ea. fold P in Ea.
             assert (qa < q') by nia.
             assert (a <= P * (2 * q' - 1)) by nia. nia.
          -- exfalso. apply (Hleast (trunc i j)); [lia|exact Hc].
  Qed.

  (** The store answers exactly like the map [j |-> gen j] restricted to the provided range. *)
  Lemma inv_get_secret m s j : 0 <= m <= 2 ^ 48 -> inv m s -> 0 <= j < 2 ^ 48 ->
    get_secret H s j = if m <=? j then Some (gen j) else None.
  Proof.
    intros Hm Hinv Hj. pose proof Hinv as [Hlen Hall].
    assert (Hsuf : suffix_ok m 0 s).
    { intros k Hk. rewrite Z.add_0_l. apply Hall. lia. }
    unfold get_secret. destruct (get_loop H 0 s j) as [x|] eqn:Eg.
    - destruct (get_loop_sound m j ltac:(lia) Hj s 0 x ltac:(lia) ltac:(lia) Hsuf Eg) as [-> Hge].
      destruct (Z.leb_spec m j); [reflexivity|lia].
    - destruct (Z.leb_spec m j) as [Hge|_]; [|reflexivity].
      exfalso. revert Eg. apply (get_loop_complete j Hj); try lia.
      destruct (exists_match m s j ltac:(lia) Hinv ltac:(lia) 48%nat 0 ltac:(lia) ltac:(lia)) as (k & Hk & Ek).
      + unfold trunc. rewrite Z.pow_0_r, Z.div_1_r. lia.
      + exists k. split; [lia|]. rewrite Z.add_0_l. exact Ek.
  Qed.

  Lemma inv_get_secret_no_panic m s j : 0 <= m <= 2 ^ 48 -> inv m s -> 0 <= j < 2 ^ 48 ->
    get_secret_panics H s j = false.
  Proof.
    intros Hm Hinv Hj. unfold get_secret_panics. rewrite (inv_get_secret m s j Hm Hinv Hj).
    rewrite (inv_min_seen m s Hm Hinv). destruct (Z.leb_spec m j); [reflexivity|].
    destruct (Z.ltb_spec j m); [reflexivity|lia].
  Qed.

  (** * Main statement *)
  Theorem shachain_refines_map (n : nat) : Z.of_nat n <= 2 ^ 48 ->
    exists s, feed H seed n = Some s /\
      get_min_seen_secret s = 2 ^ 48 - Z.of_nat n /\
      forall j, 0 <= j < 2 ^ 48 ->
        get_secret H s j = (if 2 ^ 48 - Z.of_nat n <=? j then Some (gen j) else None) /\
        get_secret_panics H s j = false.
  Proof.
    intros Hn. destruct (feed_inv n Hn) as (s & Hs & Hinv). exists s.
    split; [exact Hs|]. split; [apply inv_min_seen; [lia|exact Hinv]|].
    intros j Hj. split; [apply inv_get_secret|apply (inv_get_secret_no_panic (2 ^ 48 - Z.of_nat n))]; (lia || assumption).
  Qed.
End Refinement.

(* ------------------------------------------------------------------------------------------ *)
(** * What [provide_secret] accepts, for an arbitrary store *)

Section Provide.
  Variable H : bytes -> bytes.
  Notation place := place_secret.

  (** accepted => consistent with every lower slot; and the only possible change is slot [pos] *)
  Lemma provide_accepts s idx secret s' :
    provide_secret H s idx secret = Some s' ->
    (forall i, (Z.of_nat i < place idx) -> (i < List.length s)%nat ->
       derive_secret H secret (place idx) (snd (nth i s dflt)) = fst (nth i s dflt)) /\
    (s' = s \/ (idx < get_min_seen_secret s /\ s' = set_nth (Z.to_nat (place idx)) (secret, idx) s)).
  Proof.
    unfold provide_secret. intros Hp.
    destruct (forallb _ (firstn (Z.to_nat (place idx)) s)) eqn:Hall; [|discriminate].
    split.
    - intros i Hi Hl.
      pose proof (forallb_firstn_nth_inv _ dflt s _ Hall i ltac:(lia) Hl) as E. cbn beta in E.
      apply bytes_eqb_eq. exact E.
    - destruct (Z.leb_spec (get_min_seen_secret s) idx); injection Hp as <-; [left; reflexivity|].
      right. split; [lia|reflexivity].
  Qed.

  (** a mismatch with any lower slot => refused *)
  Lemma provide_rejects s idx secret i :
    Z.of_nat i < place idx -> (i < List.length s)%nat ->
    derive_secret H secret (place idx) (snd (nth i s dflt)) <> fst (nth i s dflt) ->
    provide_secret H s idx secret = None.
  Proof.
    intros Hi Hl Hne. destruct (provide_secret H s idx secret) as [s'|] eqn:E; [|reflexivity].
    exfalso. apply Hne. apply (proj1 (provide_accepts s idx secret s' E)); assumption.
  Qed.
End Provide.

(* ------------------------------------------------------------------------------------------ *)
(** * A forged secret for the next index needs a hash collision *)

Section Forgery.
  Variable H : bytes -> bytes.
  Variable seed : bytes.
  Notation gen := (build_commitment_secret H seed).
  Notation place := place_secret.

  (** deriving an index whose only set bit below [n] is bit [i]: one flip, one hash *)
  Lemma derive_loop_single_bit a i res : forall n : nat, 0 <= i < Z.of_nat n ->
    (forall b, 0 <= b < Z.of_nat n -> Z.testbit a b = (b =? i)) ->
    derive_loop H n a res = H (flip_bit i res).
  Proof.
    induction n as [|b IH]; intros Hi Hbits; [lia|]. cbn [derive_loop]. unfold derive_step.
    rewrite bit_set_testbit by lia. rewrite Hbits by lia.
    destruct (Z.eqb_spec (Z.of_nat b) i) as [E|NE].
    - subst i. apply derive_loop_low_zero. intros c Hc. rewrite Hbits by lia.
      apply Z.eqb_neq. lia.
    - apply IH; [lia|]. intros c Hc. apply Hbits. lia.
  Qed.

  Lemma bits_of_idx_plus_pow idx pos i b : 0 <= i < pos -> 0 <= b < pos -> 0 <= idx ->
    idx mod 2 ^ pos = 0 -> Z.testbit (idx + 2 ^ i) b = (b =? i).
  Proof.
    intros Hi Hb Hidx Hm.
    assert (Hpos : 0 < 2 ^ pos) by (apply Z.pow_pos_nonneg; lia).
    assert (Hlt : 2 ^ i < 2 ^ pos) by (apply Z.pow_lt_mono_r; lia).
    assert (Hpi : 0 < 2 ^ i) by (apply Z.pow_pos_nonneg; lia).
    rewrite <- (Z.mod_pow2_bits_low (idx + 2 ^ i) pos b) by lia.
    replace ((idx + 2 ^ i) mod 2 ^ pos) with (2 ^ i).
    - rewrite Z.pow2_bits_eqb by lia. apply Z.eqb_sym.
    - rewrite Z.add_mod, Hm, Z.add_0_l, Z.mod_mod by lia. symmetry. apply Z.mod_small. lia.
  Qed.

  (** the content of the lower slots when the next index to provide is [m - 1] *)
  Lemma lower_slot_content m s i : 1 <= m <= 2 ^ 48 -> inv H seed m s ->
    0 <= Z.of_nat i < place (m - 1) ->
    nth i s dflt = (gen (m - 1 + 2 ^ Z.of_nat i), m - 1 + 2 ^ Z.of_nat i).
  Proof.
    intros Hm [Hlen Hall] Hi. set (idx := m - 1) in *. set (pos := place idx) in *.
    pose proof (place_range idx) as Hpr. fold pos in Hpr.
    pose proof (place_mod idx) as Hmod. fold pos in Hmod.
    assert (Hpow : 0 < 2 ^ pos) by (apply Z.pow_pos_nonneg; lia).
    set (P := 2 ^ Z.of_nat i). assert (HP : 0 < P) by (apply Z.pow_pos_nonneg; lia).
    assert (Hdecomp : exists q, 0 <= q /\ idx = 2 ^ pos * q).
    { exists (idx / 2 ^ pos). split; [apply Z.div_pos; unfold idx; lia|].
      pose proof (Z.div_mod idx (2 ^ pos) ltac:(lia)). lia. }
    destruct Hdecomp as (q & Hq & Eidx).
    assert (Esplit : 2 ^ pos = P * 2 * 2 ^ (pos - Z.of_nat i - 1)).
    { unfold P. replace pos with (Z.of_nat i + 1 + (pos - Z.of_nat i - 1)) at 1 by lia.
      rewrite !Z.pow_add_r by lia. rewrite Z.pow_1_r. reflexivity. }
    set (R := 2 ^ (pos - Z.of_nat i - 1)) in *.
    assert (HR : 0 < R) by (apply Z.pow_pos_nonneg; lia).
    assert (Ecand : idx + P = P * (2 * (R * q) + 1)) by (rewrite Eidx, Esplit; ring).
    assert (Hplc : place (idx + P) = Z.of_nat i).
    { rewrite Ecand. apply place_of_odd_mul; [lia|]. apply Z.mul_nonneg_nonneg; lia. }
    assert (Hlt48 : idx + 2 ^ pos <= 2 ^ 48).
    { assert (E48 : 2 ^ 48 = 2 ^ pos * 2 ^ (48 - pos)) by (rewrite <- Z.pow_add_r by lia; f_equal; lia).
      assert (0 < 2 ^ (48 - pos)) by (apply Z.pow_pos_nonneg; lia).
      rewrite Eidx, E48 in *. unfold idx in *. nia. }
    assert (HPlt : P < 2 ^ pos) by (rewrite Esplit; nia).
    assert (Hi49 : (i < 49)%nat) by lia.
    destruct (Hall i Hi49) as [[_ Hnone]|(a & -> & Ha & Hpa & Hleast)].
    - exfalso. apply (Hnone (idx + P)); [unfold idx in *; lia|exact Hplc].
    - assert (Hale : a <= idx + P).
      { destruct (Z_le_gt_dec a (idx + P)); [assumption|].
        exfalso. apply (Hleast (idx + P)); [unfold idx in *; lia|exact Hplc]. }
      assert (a = idx + P); [|subst a; reflexivity].
      destruct (place_arith a ltac:(lia)) as [[E48 _]|[_ (qa & Hqa & Ea)]]; [lia|].
      rewrite Hpa in Ea. fold P in Ea.
      assert (Hgt : idx < a) by (unfold idx in *; lia).
      rewrite Ea, Ecand in *. rewrite Eidx, Esplit in Hgt.
      assert (R * q <= qa) by nia. assert (qa <= R * q) by nia. nia.
  Qed.

  (** If a store that was fed honestly down to index [m] accepts [secret] for index [m - 1], then
      for every slot below that index's slot, [secret] and the honestly generated secret collide
      under [H] after the same bit flip. With a collision-resistant [H] (and [flip_bit] being
      injective on 32-byte values) an accepted secret IS the generated one whenever the index is
      even; for odd indices there is no lower slot and nothing can be checked at that time (the
      channel checks those against the announced commitment point instead). *)
  Lemma forged_secret_collides m s secret s' i : 1 <= m <= 2 ^ 48 -> inv H seed m s ->
    provide_secret H s (m - 1) secret = Some s' ->
    0 <= Z.of_nat i < place (m - 1) ->
    H (flip_bit (Z.of_nat i) secret) = H (flip_bit (Z.of_nat i) (gen (m - 1))).
  Proof.
    intros Hm Hinv Hp Hi. pose proof Hinv as [Hlen _].
    pose proof (place_range (m - 1)) as Hpr. pose proof (place_mod (m - 1)) as Hmod.
    destruct (provide_accepts H s (m - 1) secret s' Hp) as [Hcons _].
    specialize (Hcons i ltac:(lia) ltac:(lia)).
    rewrite (lower_slot_content m s i Hm Hinv Hi) in Hcons. cbn [fst snd] in Hcons.
    assert (Hbits : forall b, 0 <= b < Z.of_nat (Z.to_nat (place (m - 1))) ->
                    Z.testbit (m - 1 + 2 ^ Z.of_nat i) b = (b =? Z.of_nat i)).
    { intros b Hb. rewrite Z2Nat.id in Hb by lia.
      apply (bits_of_idx_plus_pow (m - 1) (place (m - 1))); lia. }
    unfold derive_secret in Hcons.
    rewrite (derive_loop_single_bit (m - 1 + 2 ^ Z.of_nat i) (Z.of_nat i) secret (Z.to_nat (place (m - 1)))) in Hcons;
      [|rewrite Z2Nat.id by lia; lia|exact Hbits].
    rewrite Hcons.
    (* the generated secret of the slot's index, from the generated secret of [m - 1] *)
    assert (Hpow : 0 < 2 ^ place (m - 1)) by (apply Z.pow_pos_nonneg; lia).
    assert (HP : 0 < 2 ^ Z.of_nat i) by (apply Z.pow_pos_nonneg; lia).
    assert (HPlt : 2 ^ Z.of_nat i < 2 ^ place (m - 1)) by (apply Z.pow_lt_mono_r; lia).
    rewrite <- (derive_from_prefix H seed (m - 1 + 2 ^ Z.of_nat i) (m - 1) (place (m - 1))); try lia.
    - unfold derive_secret. apply derive_loop_single_bit; [rewrite Z2Nat.id by lia; lia|exact Hbits].
    - pose proof (Z.div_mod (m - 1) (2 ^ place (m - 1)) ltac:(lia)) as Ed. rewrite Hmod in Ed.
      symmetry. apply Z.div_unique with (2 ^ Z.of_nat i); [left; lia|].
      rewrite Z.add_0_r in Ed. rewrite <- Ed. ring.
  Qed.

  Lemma forged_after_feed (n : nat) s secret s' (i : nat) : Z.of_nat n < 2 ^ 48 ->
    feed H seed n = Some s ->
    provide_secret H s (2 ^ 48 - Z.of_nat n - 1) secret = Some s' ->
    Z.of_nat i < place (2 ^ 48 - Z.of_nat n - 1) ->
    H (flip_bit (Z.of_nat i) secret) = H (flip_bit (Z.of_nat i) (gen (2 ^ 48 - Z.of_nat n - 1))).
  Proof.
    intros Hn Hf Hp Hi. destruct (feed_inv H seed n ltac:(lia)) as (s0 & Hs0 & Hinv).
    rewrite Hf in Hs0. injection Hs0 as <-.
    apply (forged_secret_collides (2 ^ 48 - Z.of_nat n) s secret s' i); try assumption; lia.
  Qed.
End Forgery.

