(** C07, arithmetic layer: fee bumping ([feerate_bump], [compute_fee_from_spent_amounts],
    [compute_package_feerate]), the bump timer ([get_height_timer]) and the confirmation threshold.
    All definitions about the Rust code are the rs2v-generated ones of [Gen/Package.v], [Gen/CltvChecks.v], [Gen/PackageFeerate.v] (regenerated
    from the source on every run) except the two input walks of [Model/PackageTimer.v]. *)
Require Import LdkV.Prim.U64 LdkV.Prim.Rs2vLib LdkV.Gen.Consts LdkV.Gen.Package LdkV.Gen.CltvChecks
  LdkV.Gen.PackageFeerate LdkV.Model.PackageTimer .
Open Scope Z_scope.

(** * Ranges *)

(** 21e6 BTC in satoshi; the consensus maximum block weight; the smallest weight the monotonicity
    theorem covers (every real claim transaction weighs more than 400). *)
Definition MAX_MONEY_SAT : Z := 21000000 * 100000000.
Definition MAX_WEIGHT : Z := 4000000.
Definition W0 : Z := 8.
(** Bound on [previous_feerate * predicted_weight] (1000 x the previous fee): 2^63 is about
    9.2e18, i.e. a previous fee of 9.2e15 sat, more than four times all bitcoin. It is an invariant
    of fee-bump trajectories ([trajectory_in_range] below). *)
Definition MAX_PREV_RATE_X_WEIGHT : Z := 2 ^ 63.

Definition fb_in_range (w amt dust p sweep : Z) : Prop :=
  W0 <= w <= MAX_WEIGHT /\ 0 <= amt <= MAX_MONEY_SAT /\ 0 <= dust < 2 ^ 63 /\
  0 <= p /\ p * w <= MAX_PREV_RATE_X_WEIGHT /\ FEERATE_FLOOR_SATS_PER_KW <= sweep < 2 ^ 32.

Definition prev_fee (p w : Z) : Z := p * w / 1000.
Definition min_relay_fee (w : Z) : Z := INCREMENTAL_RELAY_FEE_SAT_PER_1000_WEIGHT * w / 1000.

(** The feerate [compute_fee_from_spent_amounts] can afford: the estimator's (bounded) answer capped
    by what half of the claimed value pays for. *)
Definition affordable_rate (amt w sweep : Z) : Z :=
  Z.min sweep (compute_feerate_sat_per_1000_weight (amt / 2) w).

Lemma mul_bounds a b A B : 0 <= a <= A -> 0 <= b <= B -> 0 <= a * b <= A * B.
Proof. intros Ha Hb. split; [apply Z.mul_nonneg_nonneg; lia|]. apply Z.mul_le_mono_nonneg; lia. Qed.

Lemma div_lower a b q : 0 < b -> b * q <= a -> q <= a / b.
Proof. intros Hb H. apply Z.div_le_lower_bound; assumption. Qed.

Lemma cf_bounds fee w : 0 <= fee -> 0 < w ->
  0 <= compute_feerate_sat_per_1000_weight fee w < 2 ^ 32 /\
  compute_feerate_sat_per_1000_weight fee w <= fee * 1000 / w.
Proof.
  intros Hf Hw. unfold compute_feerate_sat_per_1000_weight, try_into_u, in_u.
  assert (0 <= fee * 1000 / w) by (apply Z.div_pos; lia).
  destruct (Z.leb_spec 0 (fee * 1000 / w)); [|lia].
  destruct (Z.ltb_spec (fee * 1000 / w) (2 ^ 32)); cbn [andb unwrap_or]; lia.
Qed.

(** * [compute_fee_from_spent_amounts] *)

Lemma cs_spec amt w sweep fee rate :
  0 < w -> 0 <= amt -> 0 <= sweep ->
  compute_fee_from_spent_amounts amt w sweep = Some (fee, rate) ->
  rate = affordable_rate amt w sweep /\ FEERATE_FLOOR_SATS_PER_KW <= rate /\ rate <= sweep /\
  fee = rate * w / 1000 /\ fee <= amt / 2.
Proof.
  intros Hw Ha Hs. unfold compute_fee_from_spent_amounts, affordable_rate.
  set (r := Z.min sweep (compute_feerate_sat_per_1000_weight (amt / 2) w)).
  destruct (Z.ltb_spec r FEERATE_FLOOR_SATS_PER_KW) as [|Hfl]; [discriminate|].
  intros [= <- <-].
  destruct (cf_bounds (amt / 2) w ltac:(apply Z.div_pos; lia) Hw) as [Hb Hle].
  assert (Hr1 : r <= sweep) by (unfold r; lia).
  assert (Hr2 : r <= amt / 2 * 1000 / w) by (unfold r; lia).
  repeat split; try assumption.
  (* fee <= amt/2 : r*w <= (amt/2*1000/w)*w <= amt/2*1000 *)
  assert (H0 : 0 <= r) by (unfold FEERATE_FLOOR_SATS_PER_KW in Hfl; lia).
  assert (Hm : r * w <= amt / 2 * 1000).
  { transitivity (amt / 2 * 1000 / w * w).
    - apply Z.mul_le_mono_nonneg_r; lia.
    - rewrite Z.mul_comm. apply Z.mul_div_le. lia. }
  apply Z.div_le_upper_bound; lia.
Qed.

Lemma cs_none amt w sweep :
  compute_fee_from_spent_amounts amt w sweep = None <->
  affordable_rate amt w sweep < FEERATE_FLOOR_SATS_PER_KW.
Proof.
  unfold compute_fee_from_spent_amounts, affordable_rate.
  destruct (Z.ltb_spec (Z.min sweep (compute_feerate_sat_per_1000_weight (amt / 2) w)) FEERATE_FLOOR_SATS_PER_KW);
    split; intros; try reflexivity; try discriminate; lia.
Qed.

(** * The candidate chosen by the strategy (the [match feerate_strategy] of [feerate_bump]) *)

Definition candidate (w p : Z) (strat : FeerateStrategy) (new_fee new_rate : Z) : Z * Z :=
  match strat with
  | FeerateStrategy_RetryPrevious => (prev_fee p w, p)
  | FeerateStrategy_HighestOfPreviousOrNew =>
      if p <? new_rate then (new_fee, new_rate) else (prev_fee p w, p)
  | FeerateStrategy_ForceBump =>
      if p <? new_rate then (new_fee, new_rate)
      else ((p + p / 4) * w / 1000, p + p / 4)
  end.

Lemma feerate_bump_unfold w amt dust p strat sweep :
  feerate_bump w amt dust p strat sweep =
  match compute_fee_from_spent_amounts amt w sweep with
  | Some (nf, nr) =>
      let '(cf, cr) := candidate w p strat nf nr in
      if cr =? p then Some (cf, cr)
      else
        let f := Z.max cf (prev_fee p w + min_relay_fee w) in
        if sat_sub amt f <? dust then None else Some (f, f * 1000 / w)
  | None => None
  end.
Proof.
  unfold feerate_bump, candidate, prev_fee, min_relay_fee.
  destruct (compute_fee_from_spent_amounts amt w sweep) as [[nf nr]|]; [|reflexivity].
  destruct strat; try destruct (p <? nr); reflexivity.
Qed.

(** the core rounding fact: paying the old (floored) fee plus the (floored) relay increment keeps
    the feerate, once the weight is at least [W0] *)
Lemma rate_kept w p f :
  W0 <= w -> 0 <= p -> prev_fee p w + min_relay_fee w <= f -> p <= f * 1000 / w.
Proof.
  unfold W0, prev_fee, min_relay_fee, INCREMENTAL_RELAY_FEE_SAT_PER_1000_WEIGHT. intros Hw Hp Hf.
  apply div_lower; [lia|].
  rewrite (Z.mul_comm w p).
  pose proof (Z.div_mod (p * w) 1000 ltac:(lia)) as E1.
  pose proof (Z.mod_pos_bound (p * w) 1000 ltac:(lia)) as B1.
  pose proof (Z.div_mod (253 * w) 1000 ltac:(lia)) as E2.
  pose proof (Z.mod_pos_bound (253 * w) 1000 ltac:(lia)) as B2.
  set (a := p * w) in *. set (q1 := a / 1000) in *. set (q2 := 253 * w / 1000) in *.
  lia.
Qed.

Lemma candidate_spec w amt p strat sweep nf nr cf cr :
  W0 <= w -> 0 <= amt -> 0 <= p -> 0 <= sweep ->
  compute_fee_from_spent_amounts amt w sweep = Some (nf, nr) ->
  candidate w p strat nf nr = (cf, cr) ->
  p <= cr /\ (cr = p -> cf = prev_fee p w) /\
  (strat = FeerateStrategy_RetryPrevious -> cr = p) /\
  (strat = FeerateStrategy_ForceBump -> p < cr).
Proof.
  intros Hw Ha Hp Hs Hcs Hc.
  assert (Hw0 : 0 < w) by (unfold W0 in Hw; lia).
  destruct (cs_spec _ _ _ _ _ Hw0 Ha Hs Hcs) as (_ & Hfl & _ & _ & _).
  unfold FEERATE_FLOOR_SATS_PER_KW in Hfl.
  unfold candidate in Hc. destruct strat.
  - injection Hc as <- <-. split; [lia|]. split; [reflexivity|]. split; [reflexivity|discriminate].
  - destruct (Z.ltb_spec p nr); injection Hc as <- <-.
    + split; [lia|]. split; [intros E; exfalso; lia|]. split; discriminate.
    + split; [lia|]. split; [reflexivity|]. split; discriminate.
  - destruct (Z.ltb_spec p nr); injection Hc as <- <-.
    + split; [lia|]. split; [intros E; exfalso; lia|]. split; [discriminate|]. intros _. lia.
    + assert (1 <= p / 4) by (apply div_lower; lia).
      split; [lia|]. split; [intros E; exfalso; lia|]. split; [discriminate|]. intros _. lia.
Qed.

(** * Main results about [feerate_bump] *)

(** Every [Some] answer: the feerate never decreases; either nothing changed (same feerate, same
    fee as computed for the previous broadcast: a plain re-broadcast), or the new absolute fee is at
    least the previous fee plus the incremental relay fee of the transaction (BIP-125 rules 3 and
    4), the reported feerate is the one that fee really pays, and the claim output stays at or
    above the dust limit. [RetryPrevious] always re-broadcasts; [ForceBump] always really bumps. *)
Lemma fee_bump_some w amt dust p strat sweep fee' rate' :
  fb_in_range w amt dust p sweep ->
  feerate_bump w amt dust p strat sweep = Some (fee', rate') ->
  p <= rate' /\
  ((fee' = prev_fee p w /\ rate' = p) \/
   (prev_fee p w + min_relay_fee w <= fee' /\ rate' = fee' * 1000 / w /\ dust <= sat_sub amt fee')) /\
  (strat = FeerateStrategy_RetryPrevious -> fee' = prev_fee p w /\ rate' = p) /\
  (strat = FeerateStrategy_ForceBump -> prev_fee p w + min_relay_fee w <= fee').
Proof.
  intros (Hw & Ha & Hd & Hp & Hpw & Hs) H. rewrite feerate_bump_unfold in H.
  destruct (compute_fee_from_spent_amounts amt w sweep) as [[nf nr]|] eqn:Hcs; [|discriminate].
  destruct (candidate w p strat nf nr) as [cf cr] eqn:Hc.
  unfold FEERATE_FLOOR_SATS_PER_KW in Hs.
  destruct (candidate_spec w amt p strat sweep nf nr cf cr ltac:(lia) ltac:(lia) ltac:(lia) ltac:(lia) Hcs Hc)
    as (Hge & Heq & Hretry & Hforce).
  destruct (Z.eqb_spec cr p) as [E|NE].
  - injection H as <- <-. subst cr. specialize (Heq eq_refl).
    split; [lia|]. split; [left; split; [exact Heq|reflexivity]|].
    split; [intros _; split; [exact Heq|reflexivity]|].
    intros Hst. specialize (Hforce Hst). lia.
  - cbv zeta in H.
    set (f := Z.max cf (prev_fee p w + min_relay_fee w)) in *.
    destruct (Z.ltb_spec (sat_sub amt f) dust) as [|Hdust]; [discriminate|].
    injection H as <- <-.
    assert (Hf : prev_fee p w + min_relay_fee w <= f) by (unfold f; lia).
    split; [apply rate_kept; lia|].
    split; [right; split; [exact Hf|split; [reflexivity|lia]]|].
    split; [intros Hst; specialize (Hretry Hst); contradiction|].
    intros _. exact Hf.
Qed.

(** [None] exactly when the affordable feerate is under the floor, or a real bump is due and paying
    for it would leave the claim output below the dust limit. *)
Lemma fee_bump_none w amt dust p strat sweep :
  feerate_bump w amt dust p strat sweep = None <->
  (affordable_rate amt w sweep < FEERATE_FLOOR_SATS_PER_KW \/
   exists nf nr cf cr,
     compute_fee_from_spent_amounts amt w sweep = Some (nf, nr) /\
     candidate w p strat nf nr = (cf, cr) /\ cr <> p /\
     sat_sub amt (Z.max cf (prev_fee p w + min_relay_fee w)) < dust).
Proof.
  rewrite feerate_bump_unfold.
  destruct (compute_fee_from_spent_amounts amt w sweep) as [[nf nr]|] eqn:Hcs.
  - destruct (candidate w p strat nf nr) as [cf cr] eqn:Hc.
    destruct (Z.eqb_spec cr p) as [E|NE].
    + split; [discriminate|]. intros [Hfl | (nf' & nr' & cf' & cr' & H1 & H2 & H3 & _)].
      * apply cs_none in Hfl. congruence.
      * injection H1 as <- <-. rewrite Hc in H2. injection H2 as <- <-. contradiction.
    + cbv zeta.
      destruct (Z.ltb_spec (sat_sub amt (Z.max cf (prev_fee p w + min_relay_fee w))) dust) as [Hlt|Hge].
      * split; [|reflexivity]. intros _. right. exists nf, nr, cf, cr. repeat split; assumption.
      * split; [discriminate|]. intros [Hfl | (nf' & nr' & cf' & cr' & H1 & H2 & H3 & H4)].
        -- apply cs_none in Hfl. congruence.
        -- injection H1 as <- <-. rewrite Hc in H2. injection H2 as <- <-. lia.
  - split; [|reflexivity]. intros _. left. apply cs_none. exact Hcs.
Qed.

(** No arithmetic panic in range: every checked [u64]/[u32] operation stays in range, no division
    by zero, and the [debug_assert!(new_feerate >= previous_feerate)] holds. *)
Lemma fee_bump_safe w amt dust p strat sweep :
  fb_in_range w amt dust p sweep ->
  feerate_bump_safe w amt dust p strat sweep = true.
Proof.
  intros (Hw & Ha & Hd & Hp & Hpw' & Hs).
  unfold W0, MAX_WEIGHT, MAX_MONEY_SAT, MAX_PREV_RATE_X_WEIGHT, FEERATE_FLOOR_SATS_PER_KW in *.
  assert (Hw0 : 0 < w) by lia.
  assert (Hh : 0 <= amt / 2 <= 1050000000000000) by (split; [apply Z.div_pos; lia | apply Z.div_le_upper_bound; lia]).
  destruct (cf_bounds (amt / 2) w ltac:(lia) Hw0) as [Hcf _].
  set (c := compute_feerate_sat_per_1000_weight (amt / 2) w) in *.
  assert (Hpw : 0 <= p * w <= 2 ^ 63) by (split; [apply Z.mul_nonneg_nonneg; lia | exact Hpw']).
  assert (Hpb : p <= p * w) by (rewrite <- (Z.mul_1_r p) at 1; apply Z.mul_le_mono_nonneg_l; lia).
  assert (Hq : 0 <= p / 4) by (apply Z.div_pos; lia).
  assert (Hqw : 0 <= p / 4 * w /\ p / 4 * w * 4 <= p * w).
  { split; [apply Z.mul_nonneg_nonneg; lia|].
    replace (p / 4 * w * 4) with (p / 4 * 4 * w) by ring.
    apply Z.mul_le_mono_nonneg_r; lia. }
  assert (Hbw : 0 <= (p + p / 4) * w <= 2 ^ 63 + 2 ^ 61).
  { replace ((p + p / 4) * w) with (p * w + p / 4 * w) by ring. lia. }
  pose proof (mul_bounds (Z.min sweep c) w (2 ^ 32) 4000000 ltac:(lia) ltac:(lia)) as Hrw.
  assert (Hpf : 0 <= p * w / 1000 <= 9223372036854776).
  { split; [apply Z.div_pos; lia | apply Z.div_le_upper_bound; lia]. }
  assert (Hbf : 0 <= (p + p / 4) * w / 1000 <= 11529215046068470).
  { split; [apply Z.div_pos; lia | apply Z.div_le_upper_bound; lia]. }
  assert (Hrf : 0 <= Z.min sweep c * w / 1000 <= 17179869184000).
  { split; [apply Z.div_pos; lia | apply Z.div_le_upper_bound; lia]. }
  assert (Hmr : 0 <= 253 * w / 1000 <= 1012000).
  { split; [apply Z.div_pos; lia | apply Z.div_le_upper_bound; lia]. }
  unfold feerate_bump_safe, compute_fee_from_spent_amounts_safe, compute_feerate_sat_per_1000_weight_safe,
    compute_fee_from_spent_amounts, INCREMENTAL_RELAY_FEE_SAT_PER_1000_WEIGHT, FEERATE_FLOOR_SATS_PER_KW.
  fold c. cbv zeta.
  repeat rewrite andb_true_iff. repeat split; try (apply Z.ltb_lt; lia).
  - apply negb_true_iff. apply Z.eqb_neq. lia.
  - destruct (Z.ltb_spec (Z.min sweep c) 253) as [|Hfl]; [reflexivity|].
    assert (Hdiv : forall f, 0 <= f <= 11529215046068470 ->
              ((Z.max f (p * w / 1000 + 253 * w / 1000) * 1000 <? 2 ^ 64) && negb (w =? 0)) = true).
    { intros f Hf. apply andb_true_iff. split; [apply Z.ltb_lt; lia|].
      apply negb_true_iff. apply Z.eqb_neq. lia. }
    assert (Hmrs : (253 * w <? 2 ^ 64) = true) by (apply Z.ltb_lt; lia).
    assert (Hsum : (p * w / 1000 + 253 * w / 1000 <? 2 ^ 64) = true) by (apply Z.ltb_lt; lia).
    assert (Hpws : (p * w <? 2 ^ 64) = true) by (apply Z.ltb_lt; lia).
    destruct strat.
    + rewrite Hpws. cbn [andb]. rewrite Z.leb_refl, Z.eqb_refl. reflexivity.
    + destruct (Z.ltb_spec p (Z.min sweep c)) as [Hlt|Hnlt].
      * cbn [andb]. destruct (Z.leb_spec p (Z.min sweep c)); [|lia]. cbn [andb].
        destruct (Z.eqb_spec (Z.min sweep c) p); [reflexivity|].
        rewrite Hmrs, Hsum. cbn [andb].
        destruct (_ <? dust); [reflexivity|]. apply Hdiv. lia.
      * rewrite Hpws. cbn [andb]. rewrite Z.leb_refl, Z.eqb_refl. reflexivity.
    + destruct (Z.ltb_spec p (Z.min sweep c)) as [Hlt|Hnlt].
      * cbn [andb]. destruct (Z.leb_spec p (Z.min sweep c)); [|lia]. cbn [andb].
        destruct (Z.eqb_spec (Z.min sweep c) p); [reflexivity|].
        rewrite Hmrs, Hsum. cbn [andb].
        destruct (_ <? dust); [reflexivity|]. apply Hdiv. lia.
      * assert ((p + p / 4 <? 2 ^ 64) = true) as -> by (apply Z.ltb_lt; lia).
        assert (((p + p / 4) * w <? 2 ^ 64) = true) as -> by (apply Z.ltb_lt; lia).
        cbn [andb]. destruct (Z.leb_spec p (p + p / 4)); [|lia]. cbn [andb].
        destruct (Z.eqb_spec (p + p / 4) p); [reflexivity|].
        rewrite Hmrs, Hsum. cbn [andb].
        destruct (_ <? dust); [reflexivity|]. apply Hdiv. lia.
Qed.

(** * Trajectories: successive bumps of one claim at a fixed weight *)

(** What the package remembers between broadcasts is only the feerate; the fee of the previous
    broadcast is recomputed from it. [fee_tracked w f r]: [r] is the feerate recorded for a broadcast
    that paid fee [f] -- either [f] was computed from [r] (first broadcast, re-broadcast) or [r]
    was computed from [f] (bump). *)
Definition fee_tracked (w f r : Z) : Prop :=
  0 <= r /\ (f = prev_fee r w \/ (0 <= f /\ r = f * 1000 / w)).

Lemma rounding_loss w f : 0 < w -> 0 <= f ->
  prev_fee (f * 1000 / w) w <= f <= prev_fee (f * 1000 / w) w + w / 1000 + 1.
Proof.
  intros Hw Hf. unfold prev_fee.
  pose proof (Z.div_mod (f * 1000) w ltac:(lia)) as E1.
  pose proof (Z.mod_pos_bound (f * 1000) w ltac:(lia)) as B1.
  set (r := f * 1000 / w) in *. rewrite (Z.mul_comm w r) in E1.
  pose proof (Z.div_mod (r * w) 1000 ltac:(lia)) as E2.
  pose proof (Z.mod_pos_bound (r * w) 1000 ltac:(lia)) as B2.
  pose proof (Z.div_mod w 1000 ltac:(lia)) as E3.
  pose proof (Z.mod_pos_bound w 1000 ltac:(lia)) as B3.
  set (a := r * w) in *. set (q := a / 1000) in *. set (q3 := w / 1000) in *.
  lia.
Qed.

Lemma fee_tracked_bounds w f r : 0 < w -> fee_tracked w f r ->
  prev_fee r w <= f <= prev_fee r w + w / 1000 + 1.
Proof.
  intros Hw (Hr & [E | (Hf & E)]).
  - subst f. assert (0 <= w / 1000) by (apply Z.div_pos; lia). lia.
  - subst r. apply rounding_loss; assumption.
Qed.

(** One more call on the same claim. Rates never go down. The absolute fee of a real bump exceeds
    the fee actually paid before ([f]) by the relay increment up to the rounding slack
    [w/1000 + 1] -- in particular it strictly increases; a re-broadcast pays the fee recomputed from
    the recorded rate, which is [f] or at most [w/1000 + 1] sat less (see [rebroadcast_can_dip]). *)
Lemma fee_bump_chain w amt dust f r strat sweep f' r' :
  fb_in_range w amt dust r sweep -> fee_tracked w f r ->
  feerate_bump w amt dust r strat sweep = Some (f', r') ->
  r <= r' /\ fee_tracked w f' r' /\
  ((r' = r /\ f - (w / 1000 + 1) <= f' <= f) \/
   (f + min_relay_fee w - (w / 1000 + 1) <= f' /\ f < f')).
Proof.
  intros Hr Ht H.
  pose proof Hr as (Hw & Ha & Hd & Hp & Hpw & Hs).
  assert (Hw0 : 0 < w) by (unfold W0 in Hw; lia).
  destruct (fee_bump_some _ _ _ _ _ _ _ _ Hr H) as (Hge & Hcase & _ & _).
  pose proof (fee_tracked_bounds w f r Hw0 Ht) as Hb.
  assert (Hpf : 0 <= prev_fee r w) by (unfold prev_fee; apply Z.div_pos; [apply Z.mul_nonneg_nonneg|]; lia).
  assert (Hmr : w / 1000 + 1 < min_relay_fee w).
  { unfold min_relay_fee, INCREMENTAL_RELAY_FEE_SAT_PER_1000_WEIGHT. unfold W0 in Hw. lia. }
  split; [exact Hge|]. destruct Hcase as [(E1 & E2) | (H1 & H2 & H3)].
  - subst f' r'. split; [split; [lia | left; reflexivity]|]. left. split; [reflexivity | lia].
  - split; [split; [lia | right; split; [lia | exact H2]]|]. right. lia.
Qed.

(** The first broadcast of a claim ([compute_package_output] with [feerate_previous = 0]). *)
Lemma first_broadcast_tracked amt w sweep f r :
  0 < w -> 0 <= amt -> 0 <= sweep ->
  compute_fee_from_spent_amounts amt w sweep = Some (f, r) -> fee_tracked w f r.
Proof.
  intros Hw Ha Hs H. destruct (cs_spec _ _ _ _ _ Hw Ha Hs H) as (_ & Hfl & _ & Hf & _).
  unfold FEERATE_FLOOR_SATS_PER_KW in Hfl. split; [lia|]. left. exact Hf.
Qed.

(** A whole trajectory: the claim is first broadcast, then [feerate_bump] is called with an
    arbitrary list of (strategy, bounded estimate) pairs; a [None] answer leaves the recorded
    feerate unchanged (no transaction is produced). [bumps] returns the successive (fee, feerate)
    answers. *)
Fixpoint bumps (w amt dust r : Z) (steps : list (FeerateStrategy * Z)) : list (Z * Z) :=
  match steps with
  | [] => []
  | (strat, sweep) :: t =>
      match feerate_bump w amt dust r strat sweep with
      | Some (f', r') => (f', r') :: bumps w amt dust r' t
      | None => bumps w amt dust r t
      end
  end.

Fixpoint chain_ok (w f r : Z) (l : list (Z * Z)) : Prop :=
  match l with
  | [] => True
  | (f', r') :: t =>
      r <= r' /\
      ((r' = r /\ f - (w / 1000 + 1) <= f' <= f) \/ (f + min_relay_fee w - (w / 1000 + 1) <= f' /\ f < f')) /\
      chain_ok w f' r' t
  end.

Definition steps_in_range (steps : list (FeerateStrategy * Z)) : Prop :=
  Forall (fun se => FEERATE_FLOOR_SATS_PER_KW <= snd se < 2 ^ 32) steps.

(** the range hypothesis on [previous_feerate * weight] is preserved along a trajectory as long as
    the dust limit is positive (as [compute_package_output] asserts) *)
Lemma range_kept w amt dust r strat sweep f' r' :
  fb_in_range w amt dust r sweep -> 0 < dust ->
  feerate_bump w amt dust r strat sweep = Some (f', r') ->
  0 <= r' /\ r' * w <= MAX_PREV_RATE_X_WEIGHT.
Proof.
  intros Hr Hd0 H. pose proof Hr as (Hw & Ha & Hd & Hp & Hpw & Hs).
  destruct (fee_bump_some _ _ _ _ _ _ _ _ Hr H) as (Hge & Hcase & _ & _).
  split; [lia|]. destruct Hcase as [(E1 & E2) | (H1 & H2 & H3)].
  - subst r'. exact Hpw.
  - unfold sat_sub in H3. assert (f' <= amt) by lia.
    unfold W0 in Hw. subst r'. rewrite Z.mul_comm.
    transitivity (f' * 1000); [apply Z.mul_div_le; lia|].
    unfold MAX_PREV_RATE_X_WEIGHT, MAX_MONEY_SAT in *. lia.
Qed.

Lemma trajectory w amt dust steps : forall f r,
  W0 <= w <= MAX_WEIGHT -> 0 <= amt <= MAX_MONEY_SAT -> 0 < dust < 2 ^ 63 ->
  0 <= r -> r * w <= MAX_PREV_RATE_X_WEIGHT -> fee_tracked w f r ->
  steps_in_range steps ->
  chain_ok w f r (bumps w amt dust r steps).
Proof.
  induction steps as [|[strat sweep] t IH]; intros f r Hw Ha Hd Hr Hrw Ht Hst; [exact I|].
  inversion Hst as [|x l Hs Ht' E]; subst. cbn [snd] in Hs. cbn [bumps].
  assert (Hrange : fb_in_range w amt dust r sweep) by (unfold fb_in_range; repeat split; lia).
  destruct (feerate_bump w amt dust r strat sweep) as [[f' r']|] eqn:Hb.
  - destruct (fee_bump_chain _ _ _ _ _ _ _ _ _ Hrange Ht Hb) as (Hge & Ht2 & Hcase).
    destruct (range_kept _ _ _ _ _ _ _ _ Hrange ltac:(lia) Hb) as (Hr' & Hrw').
    cbn [chain_ok]. split; [exact Hge|]. split; [exact Hcase|].
    apply IH; assumption.
  - apply IH; assumption.
Qed.

(** feerates along a trajectory are sorted, whatever the estimator does *)
Fixpoint rates_sorted (r : Z) (l : list (Z * Z)) : Prop :=
  match l with [] => True | (_, r') :: t => r <= r' /\ rates_sorted r' t end.
Lemma chain_ok_sorted w l : forall f r, chain_ok w f r l -> rates_sorted r l.
Proof.
  induction l as [|[f' r'] t IH]; intros f r H; [exact I|].
  destruct H as (H1 & _ & H3). split; [exact H1 | exact (IH _ _ H3)].
Qed.

(** A re-broadcast can pay (slightly) less than the bumped transaction it re-issues: the package
    only remembers the floored feerate. Witness: weight 1200, 1,000,000 sat claimed; first
    broadcast at 500 sat/kw pays 600; a forced bump (estimator unchanged) pays 903 and records
    752 sat/kw; a [RetryPrevious] re-broadcast then pays 902. *)
Lemma rebroadcast_can_dip :
  exists w amt dust f0 r0 f1 r1 f2 r2,
    compute_fee_from_spent_amounts amt w 500 = Some (f0, r0) /\
    feerate_bump w amt dust r0 FeerateStrategy_ForceBump 500 = Some (f1, r1) /\
    feerate_bump w amt dust r1 FeerateStrategy_RetryPrevious 500 = Some (f2, r2) /\
    r2 = r1 /\ f2 < f1 /\ fb_in_range w amt dust r1 500.
Proof.
  exists 1200, 1000000, 546, 600, 500, 903, 752, 902, 752.
  repeat split; try (vm_compute; reflexivity); vm_compute; intros; discriminate.
Qed.

(** * [compute_package_feerate] (anchor channels: the feerate handed to the bump-transaction
      event handler) *)
Lemma package_feerate_spec prev strat est :
  0 <= prev -> FEERATE_FLOOR_SATS_PER_KW <= est -> est * 5 < 2 ^ 32 ->
  compute_package_feerate_safe prev strat est = true /\
  0 <= compute_package_feerate prev strat est < 2 ^ 32 /\
  (prev = 0 -> compute_package_feerate prev strat est = est) /\
  (prev <> 0 -> Z.min prev (2 ^ 32 - 1) <= compute_package_feerate prev strat est) /\
  (prev <> 0 -> strat = FeerateStrategy_RetryPrevious ->
     compute_package_feerate prev strat est = Z.min prev (2 ^ 32 - 1)) /\
  (prev <> 0 -> strat <> FeerateStrategy_RetryPrevious -> est <= compute_package_feerate prev strat est).
Proof.
  intros Hp He H5. unfold FEERATE_FLOOR_SATS_PER_KW in He.
  unfold compute_package_feerate_safe, compute_package_feerate.
  destruct (Z.eqb_spec prev 0) as [E|NE]; cbn [negb].
  - subst prev. repeat split; try lia; try reflexivity; intros; try contradiction.
  - assert (Hu : unwrap_or (try_into_u 32 prev) (2 ^ 32 - 1) = Z.min prev (2 ^ 32 - 1)).
    { unfold try_into_u, in_u. destruct (Z.leb_spec 0 prev); [|lia].
      destruct (Z.ltb_spec prev (2 ^ 32)); cbn [andb unwrap_or]; lia. }
    rewrite Hu. set (q := Z.min prev (2 ^ 32 - 1)).
    assert (Hq : 0 < q < 2 ^ 32) by (unfold q; lia).
    assert (Hq4 : 0 <= q / 4) by (apply Z.div_pos; lia).
    unfold sat_add.
    destruct strat.
    + repeat split; try lia; try reflexivity; intros; try contradiction; try congruence.
    + repeat split; try lia; try reflexivity; intros; try contradiction; try discriminate.
    + destruct (Z.ltb_spec q est).
      * repeat split; try lia; try reflexivity; intros; try contradiction; try discriminate.
      * assert ((est * 5 <? 2 ^ 32) = true) as -> by (apply Z.ltb_lt; lia). cbn [andb].
        destruct (Z.ltb_spec (est * 5) (Z.min (2 ^ 32 - 1) (q + q / 4)));
          repeat split; try lia; try reflexivity; intros; try contradiction; try discriminate;
          try (apply Z.ltb_lt; lia).
Qed.

(** * [get_height_timer] *)

Lemma tftc_bounds cur t :
  cur + HIGH_FREQUENCY_BUMP_INTERVAL <= timer_for_target_conf cur t <= cur + LOW_FREQUENCY_BUMP_INTERVAL /\
  (t <= cur + MIDDLE_FREQUENCY_BUMP_INTERVAL -> timer_for_target_conf cur t = cur + HIGH_FREQUENCY_BUMP_INTERVAL) /\
  (t <= cur + LOW_FREQUENCY_BUMP_INTERVAL -> timer_for_target_conf cur t <= cur + MIDDLE_FREQUENCY_BUMP_INTERVAL).
Proof.
  unfold timer_for_target_conf, HIGH_FREQUENCY_BUMP_INTERVAL, MIDDLE_FREQUENCY_BUMP_INTERVAL, LOW_FREQUENCY_BUMP_INTERVAL.
  destruct (Z.leb_spec t (cur + 3)); [lia|]. destruct (Z.leb_spec t (cur + 15)); lia.
Qed.

Lemma step_bounds csh cur a i :
  cur + HIGH_FREQUENCY_BUMP_INTERVAL <= a ->
  cur + HIGH_FREQUENCY_BUMP_INTERVAL <= height_timer_step csh cur a i <= a.
Proof.
  intros Ha. unfold height_timer_step.
  destruct i; cbn [target_conf]; try lia;
    match goal with |- context [timer_for_target_conf cur ?t] => pose proof (tftc_bounds cur t) end; lia.
Qed.

Lemma fold_bounds csh cur l : forall a,
  cur + HIGH_FREQUENCY_BUMP_INTERVAL <= a ->
  cur + HIGH_FREQUENCY_BUMP_INTERVAL <= fold_left (height_timer_step csh cur) l a <= a.
Proof.
  induction l as [|i t IH]; intros a Ha; cbn [fold_left]; [lia|].
  pose proof (step_bounds csh cur a i Ha) as Hs. specialize (IH _ (proj1 Hs)). lia.
Qed.

Lemma fold_le_step csh cur l i : In i l -> forall a,
  cur + HIGH_FREQUENCY_BUMP_INTERVAL <= a ->
  fold_left (height_timer_step csh cur) l a <= height_timer_step csh cur a i.
Proof.
  induction l as [|j t IH]; intros Hin a Ha; [contradiction|]. cbn [fold_left].
  pose proof (step_bounds csh cur a j Ha) as Hs.
  destruct Hin as [->|Hin].
  - apply (fold_bounds csh cur t _ (proj1 Hs)).
  - specialize (IH Hin _ (proj1 Hs)).
    (* the step is monotone in the accumulator *)
    assert (Hm : height_timer_step csh cur (height_timer_step csh cur a j) i <= height_timer_step csh cur a i).
    { unfold height_timer_step at 1 3. destruct i; cbn [target_conf]; lia. }
    lia.
Qed.

Lemma height_timer_spec inputs csh cur :
  let ht := get_height_timer inputs csh cur in
  cur < ht /\ cur + HIGH_FREQUENCY_BUMP_INTERVAL <= ht <= cur + LOW_FREQUENCY_BUMP_INTERVAL /\
  (forall i t, In i inputs -> target_conf csh i = Some t ->
     (t <= cur + MIDDLE_FREQUENCY_BUMP_INTERVAL -> ht = cur + HIGH_FREQUENCY_BUMP_INTERVAL) /\
     (t <= cur + LOW_FREQUENCY_BUMP_INTERVAL -> ht <= cur + MIDDLE_FREQUENCY_BUMP_INTERVAL)) /\
  (In HolderFunding inputs -> ht = cur + HIGH_FREQUENCY_BUMP_INTERVAL).
Proof.
  cbv zeta. unfold get_height_timer.
  assert (H0 : cur + HIGH_FREQUENCY_BUMP_INTERVAL <= cur + LOW_FREQUENCY_BUMP_INTERVAL)
    by (unfold HIGH_FREQUENCY_BUMP_INTERVAL, LOW_FREQUENCY_BUMP_INTERVAL; lia).
  pose proof (fold_bounds csh cur inputs _ H0) as Hb.
  split; [unfold HIGH_FREQUENCY_BUMP_INTERVAL in *; lia|]. split; [exact Hb|]. split.
  - intros i t Hin Ht. pose proof (fold_le_step csh cur inputs i Hin _ H0) as Hle.
    pose proof (tftc_bounds cur t) as (_ & T1 & T2).
    assert (Hs : height_timer_step csh cur (cur + LOW_FREQUENCY_BUMP_INTERVAL) i <= timer_for_target_conf cur t).
    { unfold height_timer_step. destruct i; cbn [target_conf] in *; try discriminate; injection Ht as <-; lia. }
    split; intros Hd; [specialize (T1 Hd) | specialize (T2 Hd)]; lia.
  - intros Hin. pose proof (fold_le_step csh cur inputs HolderFunding Hin _ H0) as Hle.
    cbn [height_timer_step] in Hle. lia.
Qed.

Lemma height_timer_safe inputs csh cur :
  0 <= cur -> cur + LOW_FREQUENCY_BUMP_INTERVAL < 2 ^ 32 ->
  Forall (fun i => match i with
                   | CounterpartyReceivedHTLC e | HolderHTLCTimeout e => e + MIN_CLTV_EXPIRY_DELTA < 2 ^ 32
                   | _ => True end) inputs ->
  get_height_timer_safe inputs csh cur = true.
Proof.
  intros Hc Hl Hall. unfold get_height_timer_safe.
  apply andb_true_iff. split; [apply Z.ltb_lt; exact Hl|].
  apply forallb_forall. intros i Hin. rewrite Forall_forall in Hall. specialize (Hall i Hin).
  assert (Ht : forall t, timer_for_target_conf_safe cur t = true).
  { intros t. unfold timer_for_target_conf_safe.
    unfold LOW_FREQUENCY_BUMP_INTERVAL, MIDDLE_FREQUENCY_BUMP_INTERVAL, HIGH_FREQUENCY_BUMP_INTERVAL in *.
    destruct (Z.leb_spec t (cur + 3)); [|destruct (Z.leb_spec t (cur + 15))];
      repeat (apply andb_true_iff; split); apply Z.ltb_lt; lia. }
  unfold height_timer_step_safe. destruct i; cbn [target_conf]; try reflexivity; try apply Ht.
  - apply andb_true_iff. split; [apply Z.ltb_lt; exact Hall | apply Ht].
  - apply andb_true_iff. split; [apply Z.ltb_lt; exact Hall | apply Ht].
  - apply Z.ltb_lt. unfold LOW_FREQUENCY_BUMP_INTERVAL, HIGH_FREQUENCY_BUMP_INTERVAL in *. lia.
Qed.

(** * [confirmation_threshold] (the same statement as C08's [threshold_ge], proved here as well so that
      this development does not depend on another property's proof file) *)
Lemma threshold_ge height kind delay csv :
  confirmation_threshold height kind delay csv >= height + ANTI_REORG_DELAY - 1 /\
  (kind = OnchainEventKind_MaturingDelayedPaymentOutput ->
     confirmation_threshold height kind delay csv >= height + delay - 1) /\
  (forall c, kind = OnchainEventKind_SpendConfirmation -> csv = Some c ->
     confirmation_threshold height kind delay csv >= height + c - 1).
Proof.
  unfold confirmation_threshold. destruct kind, csv as [c|]; repeat split; intros; try discriminate;
    try (match goal with H : Some _ = Some _ |- _ => injection H as <- end); lia.
Qed.

Lemma threshold_spec h kind tsd csv :
  h + ANTI_REORG_DELAY - 1 <= confirmation_threshold h kind tsd csv /\
  (kind = OnchainEventKind_MaturingDelayedPaymentOutput -> h + tsd - 1 <= confirmation_threshold h kind tsd csv) /\
  (forall c, kind = OnchainEventKind_SpendConfirmation -> csv = Some c ->
     h + c - 1 <= confirmation_threshold h kind tsd csv) /\
  (1 <= h -> 0 <= tsd < 2 ^ 16 -> (forall c, csv = Some c -> 0 <= c < 2 ^ 16) -> h + 2 ^ 16 < 2 ^ 32 ->
     confirmation_threshold_safe h kind tsd csv = true).
Proof.
  destruct (threshold_ge h kind tsd csv) as (T1 & T2 & T3).
  split; [lia|]. split; [intros E; specialize (T2 E); lia|].
  split; [intros c E1 E2; specialize (T3 c E1 E2); lia|].
  unfold confirmation_threshold_safe, ANTI_REORG_DELAY.
  intros Hh Ht Hc Hr.
  destruct kind, csv as [c|]; try specialize (Hc c eq_refl);
    repeat (apply andb_true_iff; split); try reflexivity;
    try (apply Z.ltb_lt; lia); try (apply Z.leb_le; lia).
Qed.
