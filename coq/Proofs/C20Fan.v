(** C20: a composed listener hands every component exactly the notifications the composite received. *)
Require Import LdkV.Prim.U64 LdkV.Model.BlockSync.
Local Open Scope list_scope.

Lemma leaf_log_app i a b : leaf_log i (a ++ b) = leaf_log i a ++ leaf_log i b.
Proof. unfold leaf_log. rewrite filter_app, map_app. reflexivity. Qed.

Lemma deliver_comp_leaf : forall sh off e i,
  leaf_log i (deliver_comp sh off e) = if ((off <=? i) && (i <? off + nleaves sh))%nat then [e] else [].
Proof.
  induction sh as [|a IHa b IHb]; intros off e i; cbn [deliver_comp nleaves].
  - unfold leaf_log. cbn [filter fst].
    destruct (Nat.eqb_spec off i); destruct (Nat.leb_spec off i); destruct (Nat.ltb_spec i (off + 1));
      cbn [andb map snd]; try reflexivity; lia.
  - rewrite leaf_log_app, IHa, IHb.
    destruct (Nat.leb_spec off i); destruct (Nat.ltb_spec i (off + nleaves a));
      destruct (Nat.leb_spec (off + nleaves a) i); destruct (Nat.ltb_spec i (off + nleaves a + nleaves b));
      destruct (Nat.ltb_spec i (off + (nleaves a + nleaves b))); cbn; try reflexivity; lia.
Qed.

Lemma fanout_each_leaf : forall sh log i, (i < nleaves sh)%nat -> leaf_log i (fan_trace sh log) = log.
Proof.
  intros sh log i Hi. unfold fan_trace. induction log as [|e log IH]; [reflexivity|].
  cbn [flat_map]. rewrite leaf_log_app, IH, deliver_comp_leaf.
  replace ((0 <=? i) && (i <? 0 + nleaves sh))%nat with true; [reflexivity|].
  symmetry. apply andb_true_iff. split; [apply Nat.leb_le|apply Nat.ltb_lt]; lia.
Qed.

Lemma leaf_logs_all : forall sh log, leaf_logs sh log = repeat log (nleaves sh).
Proof.
  intros sh log. unfold leaf_logs. destruct sh as [|a b]; [reflexivity|]. set (sh := Pair a b).
  assert (G : forall n k, (k + n <= nleaves sh)%nat ->
             map (fun i => leaf_log i (fan_trace sh log)) (seq k n) = repeat log n).
  { induction n as [|n IHn]; intros k Hk; [reflexivity|]. cbn [seq map repeat].
    rewrite fanout_each_leaf by lia. f_equal. apply IHn. lia. }
  apply G. lia.
Qed.
