(** C14, return path: a failure built at hop [i] and re-wrapped by the hops before it is decoded by
    the sender to hop [i], its code and its data; whatever the sender attributes to a hop carries a
    valid HMAC under that hop's [um] key. *)
From Coq Require Import ZArith List Bool Lia.
Require Import LdkV.Crypto.Bytes LdkV.Model.OnionFail.
Import ListNotations.
Open Scope nat_scope.

(** * Byte-level facts *)

Lemma be16_split x : (0 <= x < 65536)%Z -> (b1 x * 256 + b0 x = x)%Z.
Proof.
  intros H. unfold b0, b1. change 255%Z with (Z.ones 8).
  rewrite !Z.land_ones, Z.shiftr_div_pow2 by lia. change (2 ^ 8)%Z with 256%Z.
  Z.div_mod_to_equations. lia.
Qed.

Lemma of_be16_be16_app x t : (0 <= x < 65536)%Z -> of_be16 (be16 x ++ t) = x.
Proof.
  intros H. unfold of_be16, be16, of_be. cbn [app firstn fold_left].
  rewrite <- (be16_split x H) at 3. lia.
Qed.

Section Return.
  Variable ks : bytes -> nat -> bytes.
  Variable hmac : bytes -> bytes -> bytes.
  Hypothesis ks_length : forall k n, length (ks k n) = n.
  Hypothesis hmac_length : forall k m, length (hmac k m) = 32.

  Notation crypt_data := (crypt_data ks).
  Notation crypt_failure_packet := (crypt_failure_packet ks).
  Notation failure_plain := (failure_plain hmac).
  Notation build_failure_packet := (build_failure_packet ks hmac).
  Notation wrap_failure := (wrap_failure ks hmac).
  Notation failure_at_sender := (failure_at_sender ks hmac).
  Notation failure_loop := (failure_loop ks hmac).
  Notation process_onion_failure := (process_onion_failure ks hmac).

  Lemma crypt_data_length k d : length (crypt_data k d) = length d.
  Proof. unfold OnionFail.crypt_data. rewrite xor_bytes_length, ks_length. apply Nat.min_id. Qed.

  (** encrypting twice with the same hop key gives the packet back *)
  Lemma crypt_data_involutive k d : crypt_data k (crypt_data k d) = d.
  Proof.
    unfold OnionFail.crypt_data at 1. rewrite crypt_data_length. unfold OnionFail.crypt_data.
    apply xor_bytes_cancel. now rewrite ks_length.
  Qed.

  (** ** The legacy part of the sender's loop looks only at the packet bytes *)

  Fixpoint data_loop (keys : list fkeys) (idx : nat) (d : bytes) : attributed :=
    match keys with
    | [] => NoHopMatched d
    | k :: tl =>
        let d := crypt_data k d in
        if negb (bytes_eqb (hmac (fk_um k) (skipn 32 d)) (firstn 32 d)) then data_loop tl (S idx) d
        else match read_err_packet d with
             | None => Unreadable idx
             | Some failuremsg =>
                 match failuremsg with
                 | c1 :: c0 :: rest => Attributed idx (of_be16 [c1; c0]) rest
                 | _ => MissingCode idx
                 end
             end
    end.

  Lemma failure_loop_data keys : forall idx cnt p af ht,
    fst (failure_loop keys idx cnt p af ht) = data_loop keys idx (e_data p).
  Proof.
    induction keys as [|k tl IH]; intros idx cnt p af ht; [reflexivity|].
    cbn [OnionFail.failure_loop data_loop].
    set (st := attribution_step hmac k idx cnt (crypt_failure_packet k p) af ht).
    assert (Hd : e_data (fst (fst st)) = crypt_data k (e_data p)).
    { unfold st, attribution_step. destruct af; [reflexivity|].
      destruct (e_attr (crypt_failure_packet k p)) as [a|]; [|reflexivity].
      destruct (idx <? cnt); [|reflexivity].
      destruct (attr_verify hmac a (e_data (crypt_failure_packet k p)) k (cnt - idx - 1)); reflexivity. }
    rewrite Hd.
    destruct (negb (bytes_eqb (hmac (fk_um k) (skipn 32 (crypt_data k (e_data p)))) (firstn 32 (crypt_data k (e_data p))))).
    - rewrite IH, Hd. reflexivity.
    - destruct (read_err_packet (crypt_data k (e_data p))) as [[|c1 [|c0 rest]]|]; reflexivity.
  Qed.

  Lemma process_onion_failure_data keys p :
    32 <= length (e_data p) -> fst (process_onion_failure keys p) = data_loop keys 0 (e_data p).
  Proof.
    intros H. unfold OnionFail.process_onion_failure.
    destruct (length (e_data p) <? 32) eqn:E; [apply Nat.ltb_lt in E; lia|].
    apply failure_loop_data.
  Qed.

  (** ** What travels back *)

  Lemma wrap_failure_data k t p : e_data (wrap_failure k t p) = crypt_data k (e_data p).
  Proof.
    unfold OnionFail.wrap_failure, OnionFail.process_failure_packet, OnionFail.crypt_failure_packet.
    cbn [e_data]. destruct (keeps_attribution _); reflexivity.
  Qed.

  Lemma build_failure_packet_data k code d t :
    e_data (build_failure_packet k code d t) =
    crypt_data k (failure_plain k code d DEFAULT_MIN_FAILURE_PACKET_LEN).
  Proof. reflexivity. Qed.

  (** the bytes of the failure after the hops in [before] (sender side first) have wrapped [inner] *)
  Definition wrapped (before : list fkeys) (inner : bytes) : bytes :=
    fold_right (fun k x => crypt_data k x) inner before.

  Lemma failure_at_sender_data before ki code d t :
    e_data (failure_at_sender before ki code d t) =
    wrapped (map fst before) (crypt_data ki (failure_plain ki code d DEFAULT_MIN_FAILURE_PACKET_LEN)).
  Proof.
    unfold OnionFail.failure_at_sender, wrapped.
    induction before as [|kh tl IH]; cbn [fold_right map]; [apply build_failure_packet_data|].
    now rewrite wrap_failure_data, IH.
  Qed.

  Lemma wrapped_length before inner : length (wrapped before inner) = length inner.
  Proof. induction before as [|k tl IH]; cbn; [reflexivity|]. now rewrite crypt_data_length. Qed.

  (** ** Reading back the plaintext *)

  Lemma failure_plain_length k code d m : 32 <= length (failure_plain k code d m).
  Proof. unfold OnionFail.failure_plain. rewrite app_length, hmac_length. lia. Qed.

  Lemma read_failure_plain k code d m :
    (0 <= code < 65536)%Z -> (2 + Z.of_nat (length d) < 65535)%Z -> (Z.of_nat m < 65535)%Z ->
    read_err_packet (failure_plain k code d m) = Some (be16 code ++ d).
  Proof.
    intros Hc Hd Hm. unfold read_err_packet.
    pose proof (failure_plain_length k code d m) as Hl.
    destruct (length (failure_plain k code d m) <? 32) eqn:E; [apply Nat.ltb_lt in E; lia|].
    unfold OnionFail.failure_plain. rewrite skipn_app, skipn_all2, hmac_length, Nat.sub_diag by (rewrite hmac_length; lia).
    cbn [app skipn]. unfold failure_body.
    set (fl := 2 + length d). set (pl := m - fl).
    assert (Hfl : (0 <= Z.of_nat fl < 65535)%Z) by lia.
    assert (Hpl : (0 <= Z.of_nat pl < 65535)%Z) by lia.
    (* first collection: the failure message *)
    unfold read_collection at 1.
    rewrite !app_length, length_be16.
    destruct (2 + _ <? 2) eqn:E1; [apply Nat.ltb_lt in E1; lia|]. clear E1.
    rewrite of_be16_be16_app by lia.
    destruct (Z.of_nat fl =? 65535)%Z eqn:E2; [apply Z.eqb_eq in E2; lia|]. clear E2.
    change (skipn 2 (be16 (Z.of_nat fl) ++ ?t)) with t.
    rewrite Nat2Z.id.
    match goal with |- context [(Z.of_nat (length ?r) <? _)%Z] => assert (Hr : fl <= length r) end.
    { rewrite !app_length, length_be16. unfold fl. lia. }
    match goal with |- context [(?a <? ?b)%Z] => destruct (a <? b)%Z eqn:E3; [apply Z.ltb_lt in E3; lia|] end. clear E3.
    replace (firstn fl (be16 code ++ d ++ be16 (Z.of_nat pl) ++ zeros pl)) with (be16 code ++ d).
    2:{ rewrite app_assoc. symmetry. rewrite firstn_app, firstn_all2 by (rewrite app_length, length_be16; unfold fl; lia).
        replace (fl - length (be16 code ++ d)) with 0 by (rewrite app_length, length_be16; unfold fl; lia).
        now rewrite app_nil_r. }
    replace (skipn fl (be16 code ++ d ++ be16 (Z.of_nat pl) ++ zeros pl)) with (be16 (Z.of_nat pl) ++ zeros pl).
    2:{ rewrite app_assoc. symmetry. rewrite skipn_app, skipn_all2 by (rewrite app_length, length_be16; unfold fl; lia).
        replace (fl - length (be16 code ++ d)) with 0 by (rewrite app_length, length_be16; unfold fl; lia).
        reflexivity. }
    (* second collection: the pad *)
    unfold read_collection.
    rewrite app_length, length_be16, length_zeros.
    destruct (2 + pl <? 2) eqn:E4; [apply Nat.ltb_lt in E4; lia|]. clear E4.
    rewrite of_be16_be16_app by lia.
    destruct (Z.of_nat pl =? 65535)%Z eqn:E5; [apply Z.eqb_eq in E5; lia|]. clear E5.
    change (skipn 2 (be16 (Z.of_nat pl) ++ ?t)) with t. rewrite length_zeros.
    destruct (Z.of_nat pl <? Z.of_nat pl)%Z eqn:E6; [apply Z.ltb_lt in E6; lia|].
    reflexivity.
  Qed.

  Lemma failure_plain_hmac_ok k code d m :
    hmac (fk_um k) (skipn 32 (failure_plain k code d m)) = firstn 32 (failure_plain k code d m).
  Proof.
    unfold OnionFail.failure_plain.
    rewrite skipn_app, skipn_all2, hmac_length, Nat.sub_diag by (rewrite hmac_length; lia).
    rewrite firstn_app, firstn_all2, hmac_length, Nat.sub_diag by (rewrite hmac_length; lia).
    cbn [skipn firstn]. now rewrite !app_nil_r.
  Qed.

  (** ** Attribution *)

  (** No hop before the failing one sees, after removing its own layer, a packet whose first 32
      bytes happen to be the HMAC of the rest under its [um] key.  For a pseudorandom stream and
      HMAC-SHA256 such a coincidence has probability 2^-256 per hop. *)
  Fixpoint no_spurious_match (before : list fkeys) (inner : bytes) : Prop :=
    match before with
    | [] => True
    | k :: tl =>
        hmac (fk_um k) (skipn 32 (wrapped tl inner)) <> firstn 32 (wrapped tl inner) /\
        no_spurious_match tl inner
    end.

  Lemma data_loop_attributed before : forall idx ki after code d,
    (0 <= code < 65536)%Z -> (2 + Z.of_nat (length d) < 65535)%Z ->
    let inner := crypt_data ki (failure_plain ki code d DEFAULT_MIN_FAILURE_PACKET_LEN) in
    no_spurious_match before inner ->
    data_loop (before ++ ki :: after) idx (wrapped before inner) = Attributed (idx + length before) code d.
  Proof.
    induction before as [|k tl IH]; intros idx ki after code d Hc Hd inner Hns; subst inner.
    - cbn [app wrapped fold_right data_loop length]. rewrite crypt_data_involutive.
      unfold OnionFail.failure_plain at 1 2.
      rewrite skipn_app, skipn_all2, hmac_length, Nat.sub_diag by (rewrite hmac_length; lia).
      rewrite firstn_app, firstn_all2, hmac_length, Nat.sub_diag by (rewrite hmac_length; lia).
      cbn [skipn firstn]. rewrite !app_nil_r. rewrite bytes_eqb_refl. cbn [negb].
      rewrite read_failure_plain by (try assumption; unfold DEFAULT_MIN_FAILURE_PACKET_LEN; lia).
      unfold be16 at 1. cbn [app].
      f_equal; [lia|]. change [b1 code; b0 code] with (be16 code ++ []). now apply of_be16_be16_app.
    - cbn [app wrapped fold_right data_loop length].
      set (inner := crypt_data ki (failure_plain ki code d DEFAULT_MIN_FAILURE_PACKET_LEN)) in *.
      fold (wrapped tl inner).
      rewrite crypt_data_involutive.
      cbn [no_spurious_match] in Hns. destruct Hns as [Hk Hns].
      destruct (bytes_eqb (hmac (fk_um k) (skipn 32 (wrapped tl inner))) (firstn 32 (wrapped tl inner))) eqn:E.
      + apply bytes_eqb_eq in E. contradiction.
      + cbn [negb]. pose proof (IH (S idx) ki after code d Hc Hd Hns) as H'. cbv zeta in H'.
        subst inner. rewrite H'. f_equal. lia.
  Qed.

  (** C14, attribution.  For every path, every failing position, every code and data that fit a
      failure message: what hop [i] built and the hops before it re-wrapped is decoded by the sender
      as coming from hop [i], with the code and the data - barring a spurious HMAC match at an
      earlier hop. *)
  Theorem failure_attributed before ki after code d hold_i :
    (0 <= code < 65536)%Z -> (2 + Z.of_nat (length d) < 65535)%Z ->
    no_spurious_match (map fst before)
      (crypt_data ki (failure_plain ki code d DEFAULT_MIN_FAILURE_PACKET_LEN)) ->
    fst (process_onion_failure (map fst before ++ ki :: after) (failure_at_sender before ki code d hold_i))
    = Attributed (length before) code d.
  Proof.
    intros Hc Hd Hns.
    rewrite process_onion_failure_data.
    - rewrite failure_at_sender_data, data_loop_attributed by assumption. now rewrite map_length.
    - rewrite failure_at_sender_data, wrapped_length, crypt_data_length. apply failure_plain_length.
  Qed.

  (** the packet bytes after the sender has removed the layers of hops [0..j] *)
  Definition peeled_to (keys : list fkeys) (j : nat) (d : bytes) : bytes :=
    fold_left (fun x k => crypt_data k x) (firstn (S j) keys) d.

  Lemma data_loop_sound keys : forall idx d j c m,
    data_loop keys idx d = Attributed j c m ->
    exists k, idx <= j /\ nth_error keys (j - idx) = Some k /\
      let x := peeled_to keys (j - idx) d in
      hmac (fk_um k) (skipn 32 x) = firstn 32 x /\
      exists c1 c0, read_err_packet x = Some (c1 :: c0 :: m) /\ c = of_be16 [c1; c0].
  Proof.
    induction keys as [|k tl IH]; intros idx d j c m H; [discriminate|].
    cbn [data_loop] in H.
    destruct (bytes_eqb (hmac (fk_um k) (skipn 32 (crypt_data k d))) (firstn 32 (crypt_data k d))) eqn:E; cbn [negb] in H.
    - apply bytes_eqb_eq in E.
      destruct (read_err_packet (crypt_data k d)) as [[|c1 [|c0 rest]]|] eqn:ER; try discriminate.
      injection H as <- <- <-. exists k. rewrite Nat.sub_diag. split; [lia|]. split; [reflexivity|].
      unfold peeled_to. cbn [firstn fold_left]. split; [exact E|]. now exists c1, c0.
    - destruct (IH _ _ _ _ _ H) as (k' & Hle & Hn & Hx).
      exists k'. split; [lia|].
      replace (j - idx) with (S (j - S idx)) by lia. split; [exact Hn|].
      unfold peeled_to in *. cbn [firstn fold_left]. exact Hx.
  Qed.

  (** C14, no false attribution.  Whatever packet arrives: if the sender names hop [j] with a code
      and data, then after removing the layers of hops [0..j] the packet's first 32 bytes are the
      HMAC of the rest under hop [j]'s [um] key, and the code and data are read from that plaintext. *)
  Theorem attribution_sound keys p j c m :
    fst (process_onion_failure keys p) = Attributed j c m ->
    exists k, nth_error keys j = Some k /\
      let x := peeled_to keys j (e_data p) in
      hmac (fk_um k) (skipn 32 x) = firstn 32 x /\
      exists c1 c0, read_err_packet x = Some (c1 :: c0 :: m) /\ c = of_be16 [c1; c0].
  Proof.
    unfold OnionFail.process_onion_failure.
    destruct (length (e_data p) <? 32); [discriminate|].
    rewrite failure_loop_data. intros H.
    destruct (data_loop_sound _ _ _ _ _ _ H) as (k & _ & Hn & Hx).
    rewrite Nat.sub_0_r in *. now exists k.
  Qed.
End Return.
