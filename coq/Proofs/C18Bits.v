(** C18: the 8-bit <-> 5-bit regrouping of the bech32 crate ([BytesToFes] / [FesToBytes]) is a
    round trip on byte strings of any length, the padding emitted satisfies the strict BIP-173
    rule that BOLT 12 parsing enforces, and the strict reader refuses anything else. *)
Require Import LdkV.Prim.U64 LdkV.Model.Bech32.
Open Scope Z_scope.

Definition byte_in (b : Z) : Prop := 0 <= b < 256.
Definition byte_okb (b : Z) : bool := (0 <=? b) && (b <? 256).

Lemma byte_okb_iff b : byte_okb b = true <-> byte_in b.
Proof. unfold byte_okb, byte_in. lia. Qed.

(** Unfolding equations *)
Lemma to_u5_go_nil acc n : to_u5_go acc n [] = if n =? 0 then [] else [Z.shiftl acc (5 - n)].
Proof. reflexivity. Qed.

Lemma to_u5_go_cons1 acc n b r : n + 8 < 10 ->
  to_u5_go acc n (b :: r) =
  Z.shiftr (acc * 256 + b) (n + 8 - 5) :: to_u5_go (Z.land (acc * 256 + b) (Z.ones (n + 8 - 5))) (n + 8 - 5) r.
Proof. intros Hn. cbn [to_u5_go]. cbv zeta. destruct (Z.ltb_spec (n + 8) 10); [reflexivity | lia]. Qed.

Lemma to_u5_go_cons2 acc n b r : 10 <= n + 8 ->
  to_u5_go acc n (b :: r) =
  Z.shiftr (acc * 256 + b) (n + 8 - 5) :: Z.land (Z.shiftr (acc * 256 + b) (n + 8 - 10)) 31
    :: to_u5_go (Z.land (acc * 256 + b) (Z.ones (n + 8 - 10))) (n + 8 - 10) r.
Proof. intros Hn. cbn [to_u5_go]. cbv zeta. destruct (Z.ltb_spec (n + 8) 10); [lia | reflexivity]. Qed.

Lemma from_u5_go_cons1 acc n v r : n + 5 < 8 ->
  from_u5_go acc n (v :: r) = from_u5_go (acc * 32 + v) (n + 5) r.
Proof. intros Hn. cbn [from_u5_go]. cbv zeta. destruct (Z.ltb_spec (n + 5) 8); [reflexivity | lia]. Qed.

Lemma from_u5_go_cons2 acc n v r : 8 <= n + 5 ->
  from_u5_go acc n (v :: r) =
  Z.shiftr (acc * 32 + v) (n + 5 - 8) :: from_u5_go (Z.land (acc * 32 + v) (Z.ones (n + 5 - 8))) (n + 5 - 8) r.
Proof. intros Hn. cbn [from_u5_go]. cbv zeta. destruct (Z.ltb_spec (n + 5) 8); [lia | reflexivity]. Qed.

(** The byte that is split between the two accumulators. *)
Definition inflight (acc' acc n : Z) : list Z := if n =? 0 then [] else [acc' * 2 ^ n + acc].

Definition rt_inv (acc' n' acc n : Z) : Prop :=
  (n = 0 /\ n' = 0 /\ acc = 0 /\ acc' = 0) \/
  (1 <= n <= 4 /\ n' = 8 - n /\ 0 <= acc < 2 ^ n /\ 0 <= acc' < 2 ^ n').

Ltac closed_pows :=
  repeat match goal with
  | |- context [Z.pow 2 ?k] =>
      let v := eval cbv in (Z.pow 2 k) in progress change (Z.pow 2 k) with v
  | H : context [Z.pow 2 ?k] |- _ =>
      let v := eval cbv in (Z.pow 2 k) in progress change (Z.pow 2 k) with v in H
  end.

Ltac bits_arith :=
  rewrite ?Z.shiftr_div_pow2, ?Z.shiftl_mul_pow2, ?Z.land_ones by lia;
  change 31 with (Z.ones 5); rewrite ?Z.land_ones by lia; closed_pows.

Lemma regroup_roundtrip_go bs : forall acc' n' acc n,
  Forall byte_in bs -> rt_inv acc' n' acc n ->
  from_u5_go acc' n' (to_u5_go acc n bs) = inflight acc' acc n ++ bs.
Proof.
  induction bs as [|b r IH]; intros acc' n' acc n Hbs Hinv.
  - rewrite to_u5_go_nil. unfold inflight.
    destruct Hinv as [[-> [-> [-> ->]]] | [Hn [-> [Ha Ha']]]]; [reflexivity|].
    assert (Hn' : n = 1 \/ n = 2 \/ n = 3 \/ n = 4) by lia.
    destruct Hn' as [-> | [-> | [-> | ->]]]; cbn [Z.eqb];
      (rewrite from_u5_go_cons2 by lia; cbn [from_u5_go app]; f_equal; closed_pows;
       bits_arith; lia).
  - inversion Hbs as [|? ? Hb Hr]; subst. unfold byte_in in Hb.
    destruct Hinv as [[-> [-> [-> ->]]] | [Hn [-> [Ha Ha']]]].
    + (* no byte in flight *)
      rewrite to_u5_go_cons1 by lia. rewrite from_u5_go_cons1 by lia.
      change (0 + 8 - 5) with 3. change (0 + 5) with 5.
      rewrite IH; [| exact Hr | right; bits_arith; lia].
      unfold inflight. cbn [Z.eqb app]. f_equal. bits_arith. lia.
    + assert (Hn' : n = 1 \/ n = 2 \/ n = 3 \/ n = 4) by lia.
      destruct Hn' as [-> | [-> | [-> | ->]]]; closed_pows.
      * rewrite to_u5_go_cons1 by lia. change (1 + 8 - 5) with 4. change (8 - 1) with 7.
        rewrite from_u5_go_cons2 by lia. change (7 + 5 - 8) with 4.
        rewrite IH; [| exact Hr | right; bits_arith; lia].
        unfold inflight. cbn [Z.eqb app]. f_equal; [bits_arith; lia|]. f_equal. bits_arith. lia.
      * rewrite to_u5_go_cons2 by lia. change (2 + 8 - 5) with 5. change (2 + 8 - 10) with 0. change (8 - 2) with 6.
        rewrite from_u5_go_cons2 by lia. change (6 + 5 - 8) with 3.
        rewrite from_u5_go_cons2 by lia. change (3 + 5 - 8) with 0.
        rewrite IH; [| exact Hr | left; bits_arith; lia].
        unfold inflight. cbn [Z.eqb app]. f_equal; [bits_arith; lia|]. f_equal. bits_arith. lia.
      * rewrite to_u5_go_cons2 by lia. change (3 + 8 - 5) with 6. change (3 + 8 - 10) with 1. change (8 - 3) with 5.
        rewrite from_u5_go_cons2 by lia. change (5 + 5 - 8) with 2.
        rewrite from_u5_go_cons1 by lia. change (2 + 5) with 7.
        rewrite IH; [| exact Hr | right; bits_arith; lia].
        unfold inflight. cbn [Z.eqb app]. f_equal; [bits_arith; lia|]. f_equal. bits_arith. lia.
      * rewrite to_u5_go_cons2 by lia. change (4 + 8 - 5) with 7. change (4 + 8 - 10) with 2. change (8 - 4) with 4.
        rewrite from_u5_go_cons2 by lia. change (4 + 5 - 8) with 1.
        rewrite from_u5_go_cons1 by lia. change (1 + 5) with 6.
        rewrite IH; [| exact Hr | right; bits_arith; lia].
        unfold inflight. cbn [Z.eqb app]. f_equal; [bits_arith; lia|]. f_equal. bits_arith. lia.
Qed.

Lemma forallb_byte_in bs : forallb byte_okb bs = true -> Forall byte_in bs.
Proof.
  rewrite forallb_forall, Forall_forall. intros Hx x Hi. apply byte_okb_iff, Hx, Hi.
Qed.

Lemma bits_roundtrip_lax bs : forallb byte_okb bs = true -> from_u5_lax (to_u5 bs) = bs.
Proof.
  intros Hbs. unfold from_u5_lax, to_u5.
  rewrite regroup_roundtrip_go; [reflexivity | apply forallb_byte_in, Hbs | left; repeat split; reflexivity].
Qed.

(** ** The padding that [to_u5] emits *)

Lemma last_cons_nonempty {A} (x : A) l d : l <> [] -> last (x :: l) d = last l d.
Proof. destruct l; [congruence | reflexivity]. Qed.

Lemma to_u5_go_shape bs : forall acc n, 0 <= n <= 4 ->
  exists pad, 0 <= pad <= 4 /\
    Z.of_nat (List.length (to_u5_go acc n bs)) * 5 = n + 8 * Z.of_nat (List.length bs) + pad /\
    last (to_u5_go acc n bs) 0 mod 2 ^ pad = 0.
Proof.
  induction bs as [|b r IH]; intros acc n Hn.
  - rewrite to_u5_go_nil. destruct (Z.eqb_spec n 0) as [->|Hn0].
    + exists 0. cbn. repeat split; lia.
    + exists (5 - n). cbn [List.length last]. repeat split; try lia.
      rewrite Z.shiftl_mul_pow2 by lia. apply Z.mod_mul. apply Z.pow_nonzero; lia.
  - destruct (Z.lt_ge_cases (n + 8) 10) as [Hlt|Hge].
    + rewrite to_u5_go_cons1 by exact Hlt.
      destruct (IH (Z.land (acc * 256 + b) (Z.ones (n + 8 - 5))) (n + 8 - 5) ltac:(lia)) as [pad [Hp [Hl Hz]]].
      exists pad. cbn [List.length]. repeat split; try lia.
      rewrite last_cons_nonempty; [exact Hz|].
      intros E. rewrite E in Hl. cbn [List.length] in Hl. lia.
    + rewrite to_u5_go_cons2 by exact Hge.
      destruct (IH (Z.land (acc * 256 + b) (Z.ones (n + 8 - 10))) (n + 8 - 10) ltac:(lia)) as [pad [Hp [Hl Hz]]].
      exists pad. cbn [List.length]. repeat split; try lia.
      destruct (to_u5_go (Z.land (acc * 256 + b) (Z.ones (n + 8 - 10))) (n + 8 - 10) r) as [|y l] eqn:E.
      * cbn [List.length] in Hl. assert (pad = 0) by lia. subst pad. cbn [last]. apply Z.mod_1_r.
      * rewrite last_cons_nonempty by discriminate. rewrite last_cons_nonempty by discriminate. exact Hz.
Qed.

Lemma to_u5_padding_ok bs : padding_ok (to_u5 bs) = ROk tt.
Proof.
  unfold to_u5. destruct (to_u5_go_shape bs 0 0 ltac:(lia)) as [pad [Hp [Hl Hz]]].
  unfold padding_ok. destruct (to_u5_go 0 0 bs) as [|y l] eqn:E; [reflexivity|].
  assert (Hpl : (Z.of_nat (List.length (y :: l)) * 5) mod 8 = pad).
  { rewrite Hl. rewrite Z.add_0_l, Z.add_comm, Z.mul_comm, Z.mod_add by lia. apply Z.mod_small. lia. }
  rewrite Hpl. destruct (Z.ltb_spec 4 pad); [lia|].
  rewrite Z.land_ones by lia. rewrite Hz. reflexivity.
Qed.

(** [from_u5 (to_u5 bytes) = Some bytes] for the strict (BOLT 12) reader. *)
Lemma bits_roundtrip_strict bs : forallb byte_okb bs = true -> from_u5_strict (to_u5 bs) = Some bs.
Proof.
  intros Hbs. unfold from_u5_strict. rewrite to_u5_padding_ok. f_equal. apply bits_roundtrip_lax, Hbs.
Qed.

(** What the strict reader refuses: five or more padding bits, or a non-zero padding bit. *)
Lemma strict_rejects fes bs : from_u5_strict fes = Some bs ->
  fes = [] \/
  ((Z.of_nat (List.length fes) * 5) mod 8 <= 4 /\
   Z.land (last fes 0) (Z.ones ((Z.of_nat (List.length fes) * 5) mod 8)) = 0).
Proof.
  intros Hs. revert Hs. unfold from_u5_strict, padding_ok. destruct fes as [|v r]; [left; reflexivity|]. intros Hs. right.
  set (pl := (Z.of_nat (List.length (v :: r)) * 5) mod 8) in *.
  destruct (Z.ltb_spec 4 pl) as [Hgt|Hle]; [discriminate|].
  destruct (Z.eqb_spec (Z.land (last (v :: r) 0) (Z.ones pl)) 0) as [Hz|Hnz];
    cbn [negb] in Hs; [split; [lia | exact Hz] | discriminate].
Qed.

(** The padding that [to_u5] emits is shorter than one symbol. *)
Lemma to_u5_length bs :
  exists pad, 0 <= pad <= 4 /\ Z.of_nat (List.length (to_u5 bs)) * 5 = 8 * Z.of_nat (List.length bs) + pad.
Proof.
  destruct (to_u5_go_shape bs 0 0 ltac:(lia)) as [pad [Hp [Hl _]]]. exists pad. split; [exact Hp|].
  unfold to_u5. lia.
Qed.

(** Statements in the form used by Props/C18.v *)
Lemma bits_roundtrip_both bs : forallb byte_okb bs = true ->
  from_u5_lax (to_u5 bs) = bs /\ from_u5_strict (to_u5 bs) = Some bs.
Proof. intros Hb. split; [exact (bits_roundtrip_lax bs Hb) | exact (bits_roundtrip_strict bs Hb)]. Qed.

Lemma bits_padding bs :
  exists pad, 0 <= pad <= 4 /\
    Z.of_nat (List.length (to_u5 bs)) * 5 = 8 * Z.of_nat (List.length bs) + pad /\
    padding_ok (to_u5 bs) = ROk tt.
Proof.
  destruct (to_u5_length bs) as [pad [Hp Hl]]. exists pad.
  exact (conj Hp (conj Hl (to_u5_padding_ok bs))).
Qed.
