(** C09 proofs, part a: list facts, the structural invariant [IA] of the monitor-update pipeline
    (ids, durability tracking, ChainMonitor queues, events) and its preservation by the primitives of
    [Model/MonUpd.v]. *)
Require Import LdkV.Prim.U64 LdkV.Model.MonUpd.
Open Scope Z_scope.

(** ---------- lists *)
Lemma nilb_true {A} (l : list A) : nilb l = true <-> l = [].
Proof. destruct l; cbn; split; congruence. Qed.
Lemma nilb_false {A} (l : list A) : nilb l = false <-> l <> [].
Proof. destruct l; cbn; split; congruence. Qed.

Lemma memz_In x l : memz x l = true <-> In x l.
Proof.
  induction l as [|y t IH]; cbn; [split; [discriminate|tauto]|].
  rewrite orb_true_iff, IH, Z.eqb_eq. tauto.
Qed.

Lemma In_remz y x l : In y (remz x l) <-> In y l /\ y <> x.
Proof.
  induction l as [|z t IH]; cbn; [tauto|].
  destruct (Z.eqb_spec z x) as [->|Hne]; cbn; rewrite IH; intuition congruence.
Qed.

Lemma remz_nil_app x : remz x ([] ++ [x]) = [].
Proof. cbn. rewrite Z.eqb_refl. reflexivity. Qed.

Fixpoint consec (a : Z) (l : list Z) : Prop :=
  match l with [] => True | x :: t => x = a /\ consec (a + 1) t end.

Definition zlen {A} (l : list A) : Z := Z.of_nat (List.length l).
Arguments zlen : simpl never.
Lemma zlen_nil {A} : zlen (@nil A) = 0. Proof. reflexivity. Qed.
Lemma zlen_cons {A} (x : A) l : zlen (x :: l) = zlen l + 1.
Proof. unfold zlen. cbn [List.length]. lia. Qed.
Lemma zlen_app {A} (l1 l2 : list A) : zlen (l1 ++ l2) = zlen l1 + zlen l2.
Proof. unfold zlen. rewrite app_length. lia. Qed.
Lemma zlen_map {A B} (f : A -> B) l : zlen (map f l) = zlen l.
Proof. unfold zlen. rewrite map_length. reflexivity. Qed.
Lemma zlen_nonneg {A} (l : list A) : 0 <= zlen l.
Proof. unfold zlen. lia. Qed.

Lemma consec_app a l1 l2 : consec a (l1 ++ l2) <-> consec a l1 /\ consec (a + zlen l1) l2.
Proof.
  revert a. induction l1 as [|x t IH]; intros a; cbn [app consec].
  - rewrite zlen_nil, Z.add_0_r. tauto.
  - rewrite IH, zlen_cons. replace (a + 1 + zlen t) with (a + (zlen t + 1)) by lia. tauto.
Qed.

Lemma consec_In a l i : consec a l -> In i l -> a <= i < a + zlen l.
Proof.
  revert a. induction l as [|x t IH]; intros a Hc Hi; [destruct Hi|].
  cbn in Hc. destruct Hc as [-> Hc]. rewrite zlen_cons. pose proof (zlen_nonneg t).
  destruct Hi as [<-|Hi]; [lia|]. apply (IH _ Hc) in Hi. lia.
Qed.

Lemma consec_shift a l : consec a l -> consec (a + 1) (map (fun x => x + 1) l).
Proof.
  revert a. induction l as [|x t IH]; intros a Hc; cbn in *; [exact I|].
  destruct Hc as [-> Hc]. split; [reflexivity|]. apply IH. exact Hc.
Qed.

Definition ids (l : list upd) : list Z := map uid l.
Arguments ids : simpl never.
Lemma ids_app l1 l2 : ids (l1 ++ l2) = ids l1 ++ ids l2.
Proof. apply map_app. Qed.
Lemma ids_bump l : ids (map bump l) = map (fun x => x + 1) (ids l).
Proof. unfold ids. rewrite !map_map. reflexivity. Qed.

(** ---------- the structural invariant *)
Definition H (s : st) : list Z := ids (handed (gh s)).
Definition lasth (s : st) : Z := base (gh s) + zlen (H s) - 1.

(** [IAg extra s]: [extra] are the ids of updates already numbered by the channel but not yet handed to the
    watch nor queued as blocked (an update under construction); [IA s := IAg [] s]. *)
Record IAg (extra : list Z) (s : st) : Prop := {
  ia_first : exists t, H s = base (gh s) :: t;
  ia_consec : consec (base (gh s)) (H s ++ extra ++ ids (blocked (ch s)));
  ia_latest : latest (ch s) = lasth s + zlen extra + zlen (blocked (ch s));
  ia_infl : forall i, In i (H s) -> ~ In i (done (gh s)) -> In i (inflight (mg s)) \/ i = base (gh s);
  ia_pend : forall i, In i (H s) -> ~ In i (done (gh s)) -> In i (cmp (cm s)) \/ In i (ids (cmq (cm s)));
  ia_cmq : consec (applied (cm s) + 1) (ids (cmq (cm s)));
  ia_applied : applied (cm s) + zlen (cmq (cm s)) = lasth s;
  ia_base : base (gh s) <= applied (cm s);
  ia_nodef : deferred (cm s) = false -> cmq (cm s) = [];
  ia_evq : forall h, In h (evq (cm s)) ->
             base (gh s) <= h <= applied (cm s) /\ forall i, In i (H s) -> i <= h -> In i (done (gh s))
}.
Notation IA := (IAg []).

Definition alldone (s : st) : Prop := forall i, In i (H s) -> In i (done (gh s)).

Lemma H_on_ch f s : H (on_ch f s) = H s. Proof. reflexivity. Qed.
Lemma H_on_mg f s : H (on_mg f s) = H s. Proof. reflexivity. Qed.
Lemma H_on_cm f s : H (on_cm f s) = H s. Proof. reflexivity. Qed.
Lemma lasth_on_ch f s : lasth (on_ch f s) = lasth s. Proof. reflexivity. Qed.
Lemma lasth_on_mg f s : lasth (on_mg f s) = lasth s. Proof. reflexivity. Qed.
Lemma lasth_on_cm f s : lasth (on_cm f s) = lasth s. Proof. reflexivity. Qed.
#[export] Hint Rewrite H_on_ch H_on_mg H_on_cm lasth_on_ch lasth_on_mg lasth_on_cm : st.

Lemma IA_H_range e s i : IAg e s -> In i (H s) -> base (gh s) <= i <= lasth s.
Proof.
  intros I Hi. pose proof (ia_consec _ _ I) as Hc. apply consec_app in Hc. destruct Hc as [Hc _].
  pose proof (consec_In _ _ _ Hc Hi). unfold lasth. lia.
Qed.

Lemma IA_cmq_gt e s i : IAg e s -> In i (ids (cmq (cm s))) -> applied (cm s) < i.
Proof. intros I Hi. pose proof (consec_In _ _ _ (ia_cmq _ _ I) Hi). lia. Qed.

(** the id the next update must carry *)
Lemma IA_next e x s : IAg (x :: e) s -> x = lasth s + 1.
Proof.
  intros I. pose proof (ia_consec _ _ I) as Hc. apply consec_app in Hc. destruct Hc as [_ Hc].
  cbn in Hc. destruct Hc as [-> _]. unfold lasth. lia.
Qed.

(** when nothing is pending or queued at the ChainMonitor, everything handed is durable *)
Lemma IA_quiet_alldone e s : IAg e s -> cmp (cm s) = [] -> cmq (cm s) = [] -> alldone s.
Proof.
  intros I Hc Hq i Hi. destruct (in_dec Z.eq_dec i (done (gh s))) as [Hd|Hd]; [exact Hd|].
  destruct (ia_pend _ _ I i Hi Hd) as [Hx|Hx]; [rewrite Hc in Hx|rewrite Hq in Hx]; destruct Hx.
Qed.

(** ---------- changes that do not touch the structure keep [IAg] *)
Definition same_struct (s t : st) : Prop :=
  latest (ch t) = latest (ch s) /\ blocked (ch t) = blocked (ch s) /\ inflight (mg t) = inflight (mg s) /\
  cm t = cm s /\ handed (gh t) = handed (gh s) /\ done (gh t) = done (gh s) /\ base (gh t) = base (gh s).

Lemma same_struct_refl s : same_struct s s.
Proof. repeat split. Qed.
Lemma same_struct_trans s t u : same_struct s t -> same_struct t u -> same_struct s u.
Proof.
  intros (a1 & a2 & a3 & a4 & a5 & a6 & a7) (b1 & b2 & b3 & b4 & b5 & b6 & b7).
  repeat split; congruence.
Qed.

Lemma IA_same_struct e s t : same_struct s t -> IAg e s -> IAg e t.
Proof.
  intros (Hl & Hb & Hi & Hc & Hh & Hd & Hbase) I.
  assert (HH : H t = H s) by (unfold H; rewrite Hh; reflexivity).
  assert (HL : lasth t = lasth s) by (unfold lasth; rewrite HH, Hbase; reflexivity).
  destruct I as [I1 I2 I3 I4 I5 I6 I7 IB I8 I9].
  constructor; rewrite ?HH, ?HL, ?Hl, ?Hb, ?Hi, ?Hc, ?Hd, ?Hbase; assumption.
Qed.

(** bumping [latest] to number one more update under construction *)
Lemma IA_number e s f :
  IAg e s -> (latest (f (ch s)) = latest (ch s) + 1 /\ blocked (f (ch s)) = blocked (ch s)) ->
  blocked (ch s) = [] ->
  IAg (e ++ [latest (ch s) + 1]) (on_ch f s).
Proof.
  intros I Hf Hb. destruct Hf as [Hl Hbl]. destruct I as [I1 I2 I3 I4 I5 I6 I7 IB I8 I9].
  constructor; autorewrite with st; cbn; rewrite ?Hbl, ?Hl; try assumption.
  - rewrite Hb in I2 |- *. rewrite Hb in I3. cbn [ids map] in *. rewrite app_nil_r in *.
    rewrite app_assoc. apply consec_app. split; [exact I2|].
    cbn. split; [|exact I]. rewrite I3, zlen_app, zlen_nil. unfold lasth. lia.
  - rewrite zlen_app, zlen_cons, zlen_nil. lia.
Qed.

(** ---------- outputs *)
Definition watched (o : list out) : list upd :=
  flat_map (fun x => match x with OWatch u => [u] | _ => [] end) o.
Definition is_rel (x : out) : Prop := match x with ORel _ _ => True | _ => False end.
Definition has_rel (o : list out) : Prop := exists k d, In (ORel k d) o.
Definition no_event (o : list out) : Prop := forall h, ~ In (OCmEvent h) o.

Lemma watched_app o1 o2 : watched (o1 ++ o2) = watched o1 ++ watched o2.
Proof. unfold watched. apply flat_map_app. Qed.
Lemma watched_rels o : Forall is_rel o -> watched o = [].
Proof. induction 1 as [|x t Hx _ IH]; [reflexivity|]. destruct x; cbn in *; try tauto. Qed.
Lemma no_event_rels o : Forall is_rel o -> no_event o.
Proof. intros Hf h Hin. rewrite Forall_forall in Hf. apply Hf in Hin. exact Hin. Qed.
Lemma Forall_is_rel_map k (l : list Z) : Forall is_rel (map (ORel k) l).
Proof. induction l; cbn; constructor; cbn; auto. Qed.

(** the frozen-state invariant: an unfrozen channel holds nothing back and has nothing in flight *)
Definition clear (s : st) : Prop :=
  inflight (mg s) = [] /\ alldone s /\ blocked (ch s) = [] /\
  p_raa (ch s) = false /\ p_cs (ch s) = false /\ p_cr (ch s) = false /\ p_fwd (ch s) = [] /\ acts (mg s) = [].
Definition IC (s : st) : Prop := mip (ch s) = false -> clear s.

Lemma restored_spec s :
  let '(s', o) := restored s in
  same_struct s s' /\ mg s' = mg s /\ Forall is_rel o /\ mip (ch s') = false /\
  p_raa (ch s') = false /\ p_cs (ch s') = false /\ p_cr (ch s') = false /\ p_fwd (ch s') = [] /\
  arr (ch s') = arr (ch s) /\ pd (ch s') = pd (ch s) /\ hold (ch s') = hold (ch s).
Proof.
  unfold restored. cbn.
  split; [|split; [reflexivity|split; [|repeat split]]].
  - unfold same_struct. destruct (pd (ch s)); cbn; repeat split.
  - destruct (pd (ch s)), (raa_first (ch s)), (p_raa (ch s)), (p_cs (ch s)), (p_cr (ch s)),
      (funder (gh s) && negb (confirmed (gh s))); cbn; repeat constructor; apply Forall_is_rel_map.
Qed.

Lemma try_resume_spec s :
  let '(s', o) := try_resume s in
  same_struct s s' /\ Forall is_rel o /\ acts (mg s') = [] /\
  arr (ch s') = arr (ch s) /\ pd (ch s') = pd (ch s) /\ hold (ch s') = hold (ch s) /\
  (blocked (ch s) = [] -> mip (ch s') = false /\ p_raa (ch s') = false /\ p_cs (ch s') = false /\
                          p_cr (ch s') = false /\ p_fwd (ch s') = []) /\
  (blocked (ch s) <> [] -> ch s' = ch s).
Proof.
  unfold try_resume.
  destruct (nilb (blocked (ch (on_mg (m_acts []) s)))) eqn:Hb; cbn in Hb.
  - pose proof (restored_spec (on_mg (m_acts []) s)) as R.
    destruct (restored (on_mg (m_acts []) s)) as [s2 o].
    destruct R as (R1 & R2 & R3 & R4 & R5 & R6 & R7 & R8 & R9 & R10 & R11).
    apply nilb_true in Hb.
    assert (S : same_struct s s2) by (eapply same_struct_trans; [|exact R1]; repeat split).
    assert (F : Forall is_rel (o ++ map (ORel RAction) (acts (mg s))))
      by (apply Forall_app; split; [exact R3|apply Forall_is_rel_map]).
    assert (A : acts (mg s2) = []) by (rewrite R2; reflexivity).
    repeat match goal with |- _ /\ _ => split end; auto.
    intros Hne. congruence.
  - apply nilb_false in Hb. cbn.
    repeat match goal with |- _ /\ _ => split end; auto; try reflexivity.
    + repeat split.
    + apply Forall_is_rel_map.
    + intros He. congruence.
Qed.

Definition Post (s : st) (r : st * list out) : Prop :=
  let '(s', o) := r in
  IA s' /\ handed (gh s') = handed (gh s) ++ watched o /\ (has_rel o -> alldone s') /\
  (forall h, In (OCmEvent h) o -> cmp (cm s') = [] /\ h = applied (cm s')) /\ IC s' /\
  base (gh s') = base (gh s).

Lemma eff_completed v s : eff v s = VCompleted ->
  inflight (mg s) = [] /\ cmp (cm s) = [] /\ cmq (cm s) = [].
Proof.
  unfold eff. destruct v; [|discriminate].
  destruct (nilb (inflight (mg s))) eqn:A, (nilb (cmp (cm s))) eqn:B, (nilb (cmq (cm s))) eqn:C; cbn; try discriminate.
  intros _. apply nilb_true in A. apply nilb_true in B. apply nilb_true in C. auto.
Qed.

Lemma has_rel_cons_watch u o : has_rel (OWatch u :: o) -> has_rel o.
Proof. intros (k & d & [Hx|Hx]); [discriminate|exists k, d; exact Hx]. Qed.
Lemma not_has_rel_watch u : ~ has_rel [OWatch u].
Proof. intros (k & d & [Hx|[]]). discriminate. Qed.

Lemma handle_new_update_spec u v s :
  IAg [uid u] s -> mip (ch s) = true -> Post s (handle_new_update u v s).
Proof.
  intros I Hm. pose proof (IA_next _ _ _ I) as Hid.
  destruct I as [I1 I2 I3 I4 I5 I6 I7 IB I8 I9].
  rewrite zlen_cons, zlen_nil in I3.
  assert (HH : forall s1, handed (gh s1) = handed (gh s) ++ [u] -> base (gh s1) = base (gh s) ->
               H s1 = H s ++ [uid u] /\ lasth s1 = lasth s + 1).
  { intros s1 E1 E2. unfold lasth, H. rewrite E1, E2, ids_app, zlen_app. change (ids [u]) with [uid u].
    change (zlen [uid u]) with 1. split; [reflexivity|lia]. }
  unfold handle_new_update.
  set (s1 := on_gh (fun g => g_handed (handed g ++ [u]) g) (on_mg (fun m => m_inflight (inflight m ++ [uid u]) m) s)).
  destruct (HH s1 eq_refl eq_refl) as [H1 L1].
  assert (Hgt : forall h, In h (evq (cm s)) -> h < uid u).
  { intros h Hh. destruct (I9 h Hh) as [[_ Hle] _]. pose proof (zlen_nonneg (cmq (cm s))). lia. }
  assert (G1 : exists t, H s ++ [uid u] = base (gh s) :: t).
  { destruct I1 as [t Ht]. rewrite Ht. exists (t ++ [uid u]). reflexivity. }
  assert (G2 : consec (base (gh s)) ((H s ++ [uid u]) ++ [] ++ ids (blocked (ch s)))).
  { rewrite <- app_assoc. exact I2. }
  assert (G4 : forall i, In i (H s ++ [uid u]) -> ~ In i (done (gh s)) ->
                 In i (inflight (mg s) ++ [uid u]) \/ i = base (gh s)).
  { intros i Hi Hd. apply in_app_or in Hi. destruct Hi as [Hi|[<-|[]]].
    - destruct (I4 i Hi Hd) as [Hx|Hx]; [left; apply in_or_app; left; exact Hx|right; exact Hx].
    - left. apply in_or_app. right. left. reflexivity. }
  assert (G10 : forall a, applied (cm s) <= a -> forall h, In h (evq (cm s)) ->
                 base (gh s) <= h <= a /\ (forall i, In i (H s ++ [uid u]) -> i <= h -> In i (done (gh s)))).
  { intros a Ha h Hh. destruct (I9 h Hh) as [Hr Hd]. specialize (Hgt h Hh). split; [lia|].
    intros i Hi Hle. apply in_app_or in Hi. destruct Hi as [Hi|[<-|[]]]; [apply Hd; assumption|lia]. }
  cbn [deferred cm s1 on_gh on_mg].
  destruct (deferred (cm s)) eqn:Hdef.
  - (* deferred: queued *)
    unfold Post. cbn [watched flat_map app].
    split; [|split; [reflexivity|split; [intros Hr; destruct (not_has_rel_watch _ Hr)|split; [intros h [Hx|[]]; discriminate|split; [intros Hx; cbn in Hx; congruence|reflexivity]]]]].
    constructor; autorewrite with st; rewrite ?H1, ?L1; cbn; try assumption.
    + rewrite zlen_nil. lia.
    + intros i Hi Hd. apply in_app_or in Hi. destruct Hi as [Hi|[<-|[]]].
      * destruct (I5 i Hi Hd) as [Hx|Hx]; [left; exact Hx|right; rewrite ids_app; apply in_or_app; left; exact Hx].
      * right. rewrite ids_app. apply in_or_app. right. left. reflexivity.
    + rewrite ids_app. apply consec_app. split; [exact I6|]. unfold ids at 2. cbn. split; [|exact I]. unfold ids. rewrite zlen_map. lia.
    + rewrite zlen_app, zlen_cons, zlen_nil. lia.
    + intros Hx. congruence.
    + apply G10. lia.
  - (* immediate *)
    pose proof (I8 eq_refl) as Hq.
    destruct (eff v s) eqn:Heff.
    + (* Completed *)
      destruct (eff_completed _ _ Heff) as (Ei & Ec & _).
      cbn -[try_resume]. rewrite Ei. cbn -[try_resume]. rewrite Z.eqb_refl. cbn -[try_resume].
      match goal with |- context [try_resume ?x] => set (s3 := x) end.
      assert (D3 : forall i, In i (H s ++ [uid u]) -> In i (done (gh s) ++ [uid u])).
      { intros i Hi. apply in_app_or in Hi. destruct Hi as [Hi|[<-|[]]]; [|apply in_or_app; right; left; reflexivity].
        apply in_or_app. left. destruct (in_dec Z.eq_dec i (done (gh s))) as [Hx|Hx]; [exact Hx|].
        destruct (I5 i Hi Hx) as [Hy|Hy]; [rewrite Ec in Hy|rewrite Hq in Hy]; destruct Hy. }
      destruct (HH s3 eq_refl eq_refl) as [H3 L3].
      assert (IA3 : IA s3).
      { constructor; rewrite ?H3, ?L3; cbn; rewrite ?Hq, ?Ei; try assumption.
        - rewrite zlen_nil. lia.
        - intros i Hi Hd. exfalso. apply Hd, D3, Hi.
        - intros i Hi Hd. exfalso. apply Hd, D3, Hi.
        - exact I.
        - rewrite zlen_nil. lia.
        - rewrite Hq, zlen_nil in I7. lia.
        - intros _. reflexivity.
        - intros h Hh. destruct (G10 (uid u) ltac:(rewrite Hq, zlen_nil in I7; lia) h Hh) as [Hr Hd]. split; [exact Hr|].
          intros i Hi Hle. apply in_or_app. left. apply Hd; assumption. }
      assert (AD3 : alldone s3).
      { apply (IA_quiet_alldone _ _ IA3); cbn; assumption. }
      pose proof (try_resume_spec s3) as R. destruct (try_resume s3) as [s4 o].
      destruct R as (R1 & R2 & R3 & R4 & R5 & R6 & R7 & R8).
      unfold Post. change (watched (OWatch u :: o)) with ([u] ++ watched o). rewrite (watched_rels _ R2).
      destruct R1 as (Q1 & Q2 & Q3 & Q4 & Q5 & Q6 & Q7).
      split; [eapply IA_same_struct; [|exact IA3]; repeat split; assumption|].
      split; [rewrite Q5; reflexivity|].
      split; [intros _ i Hi; unfold H in Hi; rewrite Q5 in Hi; rewrite Q6; apply AD3; exact Hi|].
      split; [intros h [Hx|Hx]; [discriminate|destruct (no_event_rels _ R2 h Hx)]|].
      split; [|rewrite Q7; reflexivity].
      intros Hmip. destruct (blocked (ch s3)) eqn:Hb3.
      * destruct (R7 eq_refl) as (A1 & A2 & A3 & A4 & A5).
        unfold clear. rewrite Q2, Q3. subst s3. cbn. rewrite Ei. cbn. rewrite Z.eqb_refl.
        repeat split; try assumption.
        intros i Hi. unfold H in Hi. rewrite Q5 in Hi. rewrite Q6. apply AD3. exact Hi.
      * rewrite (R8 ltac:(discriminate)) in Hmip. cbn in Hmip. congruence.
    + (* InProgress *)
      unfold Post. cbn [watched flat_map app].
      split; [|split; [reflexivity|split; [intros Hr; destruct (not_has_rel_watch _ Hr)|split; [intros h [Hx|[]]; discriminate|split; [intros Hx; cbn in Hx; congruence|reflexivity]]]]].
      constructor; autorewrite with st; rewrite ?H1, ?L1; cbn; rewrite ?Hq; try assumption.
      * rewrite zlen_nil. lia.
      * intros i Hi Hd. apply in_app_or in Hi. destruct Hi as [Hi|[<-|[]]].
        -- destruct (I5 i Hi Hd) as [Hx|Hx]; [left; apply in_or_app; left; exact Hx|right; rewrite Hq in Hx; exact Hx].
        -- left. apply in_or_app. right. left. reflexivity.
      * exact I.
      * rewrite zlen_nil. lia.
      * rewrite Hq, zlen_nil in I7. lia.
      * intros _. reflexivity.
      * apply G10. rewrite Hq, zlen_nil in I7. lia.
Qed.

(** ---------- a freshly numbered update goes to the watch, or to the end of the blocked queue *)
Definition tweak (s t : st) : Prop :=
  latest (ch t) = latest (ch s) + 1 /\ blocked (ch t) = blocked (ch s) /\ inflight (mg t) = inflight (mg s) /\
  cm t = cm s /\ handed (gh t) = handed (gh s) /\ done (gh t) = done (gh s) /\ base (gh t) = base (gh s) /\
  mip (ch t) = true.

Lemma Post_transport s t r :
  handed (gh t) = handed (gh s) -> base (gh t) = base (gh s) -> Post t r -> Post s r.
Proof. destruct r as [s' o]. unfold Post. intros E1 E2. rewrite E1, E2. tauto. Qed.

Lemma push_or_handle_spec s t u v :
  IA s -> tweak s t -> uid u = latest (ch t) -> Post s (push_or_handle u v t).
Proof.
  intros I (T1 & T2 & T3 & T4 & T5 & T6 & T7 & T8) Hu.
  assert (HH : H t = H s) by (unfold H; rewrite T5; reflexivity).
  assert (HL : lasth t = lasth s) by (unfold lasth; rewrite HH, T7; reflexivity).
  destruct I as [I1 I2 I3 I4 I5 I6 I7 IB I8 I9]. rewrite zlen_nil in I3.
  unfold push_or_handle. destruct (nilb (blocked (ch t))) eqn:Hb.
  - apply nilb_true in Hb. apply (Post_transport s t); [assumption|assumption|].
    apply handle_new_update_spec; [|exact T8].
    rewrite T2 in Hb. rewrite Hb in *.
    constructor; rewrite ?HH, ?HL, ?T2, ?T3, ?T4, ?T6, ?T7, ?Hb; try assumption.
    + cbn. rewrite app_nil_r in *. apply consec_app. split; [exact I2|]. cbn. split; [|exact I].
      rewrite Hu, T1, I3. change (zlen (@nil upd)) with 0. unfold lasth. lia.
    + rewrite zlen_cons, !zlen_nil. lia.
  - apply nilb_false in Hb. unfold Post. cbn.
    split; [|split; [rewrite app_nil_r; exact T5|split; [intros (k & d & []) |split; [intros h []|split; [intros Hx; cbn in Hx; congruence|exact T7]]]]].
    constructor; autorewrite with st; cbn; rewrite ?HH, ?HL, ?T2, ?T3, ?T4, ?T6, ?T7; try assumption.
    + rewrite ids_app, app_assoc. apply consec_app. split; [exact I2|]. cbn. split; [|exact I].
      rewrite zlen_app. unfold lasth in *. unfold ids. rewrite zlen_map. lia.
    + rewrite zlen_app. change (zlen [u]) with 1. change (zlen (@nil Z)) with 0. lia.
Qed.

Lemma Post_flags s s' o :
  IA s -> same_struct s s' -> Forall is_rel o -> (o <> [] -> alldone s) -> IC s' -> Post s (s', o).
Proof.
  intros I S F A C. unfold Post. pose proof S as (Q1 & Q2 & Q3 & Q4 & Q5 & Q6 & Q7).
  split; [eapply IA_same_struct; eassumption|].
  split; [rewrite (watched_rels _ F), app_nil_r; exact Q5|].
  split; [intros (k & d & Hin) i Hi; unfold H in Hi; rewrite Q5 in Hi; rewrite Q6; apply A; [intros ->; destruct Hin|exact Hi]|].
  split; [intros h Hin; destruct (no_event_rels _ F h Hin)|].
  split; [exact C|exact Q7].
Qed.

(** ChainMonitor::channel_monitor_updated *)
Lemma cm_completed_spec id s : IA s -> IC s -> Post s (cm_completed id s).
Proof.
  intros I C. destruct I as [I1 I2 I3 I4 I5 I6 I7 IB I8 I9].
  unfold cm_completed.
  set (s1 := on_cm (fun k => k_cmp (remz id (cmp k)) k) s).
  set (s2 := if memz id (cmp (cm s)) then on_gh (fun g => g_done (done g ++ [id]) g) s1 else s1).
  assert (E : H s2 = H s /\ lasth s2 = lasth s /\ base (gh s2) = base (gh s) /\ ch s2 = ch s /\ mg s2 = mg s /\
              handed (gh s2) = handed (gh s) /\
              cmp (cm s2) = remz id (cmp (cm s)) /\ cmq (cm s2) = cmq (cm s) /\ applied (cm s2) = applied (cm s) /\
              evq (cm s2) = evq (cm s) /\ deferred (cm s2) = deferred (cm s) /\
              (forall i, In i (done (gh s)) -> In i (done (gh s2))) /\
              (forall i, In i (done (gh s2)) -> In i (done (gh s)) \/ (i = id /\ In id (cmp (cm s))))).
  { subst s2 s1. destruct (memz id (cmp (cm s))) eqn:Hm; cbn; repeat split; auto.
    - intros i Hi. apply in_or_app. left. exact Hi.
    - intros i Hi. apply in_app_or in Hi. destruct Hi as [Hi|[<-|[]]]; [left; exact Hi|right; split; [reflexivity|apply memz_In; exact Hm]]. }
  destruct E as (E1 & E2 & E3 & E4 & E5 & E6 & E7 & E8 & E9 & E10 & E11 & E12 & E13).
  assert (IA2 : forall ev, (forall h, In h ev -> base (gh s) <= h <= applied (cm s) /\ forall i, In i (H s) -> i <= h -> In i (done (gh s2))) ->
                forall s3, ch s3 = ch s2 -> mg s3 = mg s2 -> gh s3 = gh s2 -> cmq (cm s3) = cmq (cm s2) -> applied (cm s3) = applied (cm s2) ->
                cmp (cm s3) = cmp (cm s2) -> deferred (cm s3) = deferred (cm s2) -> evq (cm s3) = ev -> IA s3).
  { intros ev Hev s3 F1 F2 F3 F4 F5 F6 F7 F8.
    assert (HH3 : H s3 = H s) by (unfold H; rewrite F3; exact E1).
    assert (HL3 : lasth s3 = lasth s) by (unfold lasth; rewrite HH3, F3, E3; reflexivity).
    constructor; rewrite ?HH3, ?HL3, ?F1, ?F2, ?F3, ?F4, ?F5, ?F6, ?F7, ?F8, ?E3, ?E4, ?E5, ?E7, ?E8, ?E9, ?E11; try assumption.
    - intros i Hi Hd. apply I4; [exact Hi|]. intros Hx. apply Hd, E12, Hx.
    - intros i Hi Hd. destruct (I5 i Hi) as [Hx|Hx]; [intros Hx; apply Hd, E12, Hx| |right; exact Hx].
      left. apply In_remz. split; [exact Hx|]. intros ->. apply Hd.
      assert (Hm : memz id (cmp (cm s)) = true) by (apply memz_In; exact Hx).
      subst s2. rewrite Hm. cbn. apply in_or_app. right. left. reflexivity. }
  destruct (nilb (cmp (cm s2))) eqn:Hn.
  - apply nilb_true in Hn.
    assert (Hnew : forall i, In i (H s) -> i <= applied (cm s) -> In i (done (gh s2))).
    { intros i Hi Hle. destruct (in_dec Z.eq_dec i (done (gh s2))) as [Hd|Hd]; [exact Hd|]. exfalso.
      destruct (I5 i Hi) as [Hx|Hx]; [intros Hx; apply Hd, E12, Hx| |].
      - assert (Hy : In i (remz id (cmp (cm s)))).
        { apply In_remz. split; [exact Hx|]. intros ->. apply Hd.
          assert (Hm : memz id (cmp (cm s)) = true) by (apply memz_In; exact Hx).
          subst s2. rewrite Hm. cbn. apply in_or_app. right. left. reflexivity. }
        rewrite <- E7, Hn in Hy. destruct Hy.
      - pose proof (consec_In _ _ _ I6 Hx). lia. }
    unfold Post. cbn [watched flat_map app]. rewrite app_nil_r.
    split; [|split; [cbn; exact E6|split; [intros (k & d & [Hx|[]]); discriminate|split; [|split; [|cbn; exact E3]]]]].
    + apply (IA2 (evq (cm s) ++ [applied (cm s2)])); try reflexivity.
      intros h Hh. apply in_app_or in Hh. destruct Hh as [Hh|[<-|[]]].
      * destruct (I9 h Hh) as [Hr Hd]. split; [exact Hr|]. intros i Hi Hle. apply E12, Hd; assumption.
      * rewrite E9. split; [lia|]. exact Hnew.
      * cbn. rewrite E10. reflexivity.
    + intros h [Hx|[]]. injection Hx as <-. cbn. split; [exact Hn|reflexivity].
    + intros Hm. cbn in Hm. rewrite E4 in Hm. destruct (C Hm) as (C1 & C2 & C3).
      unfold clear. cbn. rewrite E4, E5. split; [exact C1|split; [|exact C3]].
      intros i Hi. unfold H in Hi. cbn in Hi. fold (H s2) in Hi. rewrite E1 in Hi. apply E12, C2, Hi.
  - unfold Post. cbn [watched flat_map app]. rewrite app_nil_r.
    split; [|split; [exact E6|split; [intros (k & d & [])|split; [intros h []|split; [|exact E3]]]]].
    + apply (IA2 (evq (cm s))); try reflexivity; [|exact E10].
      intros h Hh. destruct (I9 h Hh) as [Hr Hd]. split; [exact Hr|]. intros i Hi Hle. apply E12, Hd; assumption.
    + intros Hm. rewrite E4 in Hm. destruct (C Hm) as (C1 & C2 & C3).
      unfold clear. rewrite E4, E5. split; [exact C1|split; [|exact C3]].
      intros i Hi. rewrite E1 in Hi. apply E12, C2, Hi.
Qed.

(** ChannelManager::channel_monitor_updated for one MonitorEvent::Completed *)
Definition evq_ok (h : Z) (s : st) : Prop :=
  base (gh s) <= h <= applied (cm s) /\ forall i, In i (H s) -> i <= h -> In i (done (gh s)).

Lemma process_event_spec h s : IA s -> IC s -> evq_ok h s -> Post s (process_event h s).
Proof.
  intros I C [Hr Hd]. unfold process_event.
  set (s1 := on_mg (fun m => m_inflight (filter (fun i => h <? i) (inflight m)) m) s).
  assert (I1 : IA s1).
  { destruct I as [I1 I2 I3 I4 I5 I6 I7 IB I8 I9]. constructor; autorewrite with st; cbn; try assumption.
    intros i Hi Hn. destruct (I4 i Hi Hn) as [Hx|Hx]; [|right; exact Hx]. left. apply filter_In. split; [exact Hx|].
    apply Z.ltb_lt. destruct (Z.lt_ge_cases h i) as [Hlt|Hge]; [exact Hlt|]. exfalso. apply Hn, Hd; [exact Hi|lia]. }
  assert (C1 : mip (ch s) = false -> clear s1).
  { intros Hm. destruct (C Hm) as (A1 & A2 & A3). unfold clear. cbn. rewrite A1. cbn. repeat split; tauto. }
  destruct (nilb (inflight (mg s1))) eqn:Hn.
  - apply nilb_true in Hn. cbn [mip ch s1 on_mg].
    destruct (mip (ch s)) eqn:Hm.
    + assert (AD : alldone s1).
      { intros i Hi. destruct (in_dec Z.eq_dec i (done (gh s1))) as [Hx|Hx]; [exact Hx|]. exfalso.
        destruct (ia_infl _ _ I1 i Hi Hx) as [Hy|Hy]; [rewrite Hn in Hy; destruct Hy|].
        apply Hx. cbn. apply Hd; [exact Hi|]. cbn in Hy. lia. }
      pose proof (try_resume_spec s1) as R. destruct (try_resume s1) as [s4 o].
      destruct R as (R1 & R2 & R3 & R4 & R5 & R6 & R7 & R8).
      apply (Post_transport s s1); [reflexivity|reflexivity|].
      apply Post_flags; try assumption; [intros _; exact AD|].
      intros Hmip. destruct (blocked (ch s1)) eqn:Hb.
      * destruct (R7 eq_refl) as (A1 & A2 & A3 & A4 & A5).
        destruct R1 as (Q1 & Q2 & Q3 & Q4 & Q5 & Q6 & Q7).
        unfold clear. rewrite Q2, Q3, Hn. repeat split; try assumption.
        intros i Hi. unfold H in Hi. rewrite Q5 in Hi. rewrite Q6. apply AD, Hi.
      * rewrite (R8 ltac:(discriminate)) in Hmip. cbn in Hmip. congruence.
    + apply (Post_transport s s1); [reflexivity|reflexivity|].
      apply Post_flags; [exact I1|apply same_struct_refl|constructor|intros []; reflexivity|intros _; apply C1; reflexivity].
  - apply (Post_transport s s1); [reflexivity|reflexivity|].
    apply Post_flags; [exact I1|apply same_struct_refl|constructor|intros []; reflexivity|].
    intros Hm. apply C1. exact Hm.
Qed.

Lemma process_event_frame h s :
  let '(s1, o) := process_event h s in
  handed (gh s1) = handed (gh s) /\ done (gh s1) = done (gh s) /\ cm s1 = cm s /\ base (gh s1) = base (gh s).
Proof.
  unfold process_event.
  set (s1 := on_mg (fun m => m_inflight (filter (fun i => h <? i) (inflight m)) m) s).
  destruct (nilb (inflight (mg s1))); [|repeat split].
  destruct (mip (ch s1)); [|repeat split].
  pose proof (try_resume_spec s1) as R. destruct (try_resume s1) as [s4 o].
  destruct R as ((Q1 & Q2 & Q3 & Q4 & Q5 & Q6 & Q7) & _). repeat split; assumption.
Qed.

Lemma has_rel_app o1 o2 : has_rel (o1 ++ o2) -> has_rel o1 \/ has_rel o2.
Proof. intros (k & d & Hin). apply in_app_or in Hin. destruct Hin; [left|right]; exists k, d; assumption. Qed.

Lemma Post_seq_quiet s s1 o1 s2 o2 :
  Post s (s1, o1) -> Post s1 (s2, o2) ->
  handed (gh s2) = handed (gh s1) -> done (gh s2) = done (gh s1) -> cm s2 = cm s1 ->
  Post s (s2, o1 ++ o2).
Proof.
  unfold Post. intros (A1 & A2 & A3 & A4 & A5 & A6) (B1 & B2 & B3 & B4 & B5 & B6) Eh Ed Ec.
  split; [exact B1|].
  assert (W2 : watched o2 = []).
  { rewrite Eh in B2. rewrite <- (app_nil_r (handed (gh s1))) in B2 at 1. apply app_inv_head in B2. symmetry. exact B2. }
  split; [rewrite watched_app, W2, app_nil_r, Eh; exact A2|].
  split; [|split; [|split; [exact B5|congruence]]].
  - intros Hr. apply has_rel_app in Hr. destruct Hr as [Hr|Hr]; [|apply B3, Hr].
    intros i Hi. unfold H in Hi. rewrite Eh in Hi. rewrite Ed. apply (A3 Hr), Hi.
  - intros h Hin. apply in_app_or in Hin. destruct Hin as [Hin|Hin]; [|apply B4, Hin].
    rewrite Ec. apply A4, Hin.
Qed.

Lemma process_events_spec hs s :
  IA s -> IC s -> (forall h, In h hs -> evq_ok h s) -> Post s (process_events hs s).
Proof.
  revert s. induction hs as [|h t IH]; intros s I C Hok.
  - cbn [process_events]. apply (Post_flags s s []); [exact I|apply same_struct_refl|constructor|intros []; reflexivity|exact C].
  - cbn [process_events].
    pose proof (process_event_spec h s I C (Hok h (or_introl eq_refl))) as P1.
    pose proof (process_event_frame h s) as F1.
    destruct (process_event h s) as [s1 o1]. destruct F1 as (F1 & F2 & F3 & F4).
    assert (Hok1 : forall h', In h' t -> evq_ok h' s1).
    { intros h' Hh. destruct (Hok h' (or_intror Hh)) as [Hr Hd]. unfold evq_ok, H. rewrite F1, F2, F3, F4. split; assumption. }
    pose proof P1 as (J1 & _ & _ & _ & J5 & _).
    pose proof (IH s1 J1 J5 Hok1) as P2.
    destruct (process_events t s1) as [s2 o2] eqn:E2.
    (* the remaining events hand nothing to the watch and complete nothing *)
    assert (Fr : handed (gh s2) = handed (gh s1) /\ done (gh s2) = done (gh s1) /\ cm s2 = cm s1).
    { clear -E2. revert s1 s2 o2 E2. induction t as [|h' t' IHt]; intros s1 s2 o2 E2; cbn in E2.
      - injection E2 as <- <-. repeat split.
      - pose proof (process_event_frame h' s1) as F. destruct (process_event h' s1) as [sa oa].
        destruct (process_events t' sa) as [sb ob] eqn:Eb. injection E2 as <- <-.
        destruct F as (G1 & G2 & G3 & _). destruct (IHt _ _ _ Eb) as (K1 & K2 & K3).
        repeat split; congruence. }
    destruct Fr as (Fr1 & Fr2 & Fr3).
    eapply Post_seq_quiet; eassumption.
Qed.
