(** C07, part C: conservation of the claimable balances (Model/OnchainClaims.v).

    Step 1: the monitor's bookkeeping after any operation list is a function of the list of all
    event entries ever created and of the best height ([run_rel]).
    Step 2: per HTLC, the entries are none (output unspent) or those of its one confirmed spend.
    Step 3: per HTLC and for the main output, [balance + handed out + lost = owed] by case analysis on
    which thresholds the best height has passed. *)
Require Import LdkV.Prim.U64 LdkV.Gen.Consts LdkV.Gen.Package LdkV.Gen.CltvChecks LdkV.Model.PackageTimer
  LdkV.Model.OnchainClaims LdkV.Proofs.C07Claims.
Open Scope Z_scope.

(** * Generic list facts *)

Lemma sumz_app a b : sumz (a ++ b) = sumz a + sumz b.
Proof. unfold sumz. induction a as [|x t IH]; cbn [app fold_right]; [lia | rewrite IH; lia]. Qed.

Lemma filter_filter_impl {A} (f g : A -> bool) l :
  (forall x, g x = true -> f x = true) -> filter g (filter f l) = filter g l.
Proof.
  intros H. induction l as [|x t IH]; [reflexivity|]. cbn [filter].
  destruct (f x) eqn:Ef; cbn [filter]; destruct (g x) eqn:Eg; try rewrite IH; try reflexivity.
  rewrite (H x Eg) in Ef. discriminate.
Qed.

Lemma existsb_filter_about {A} (p a f : A -> bool) l :
  (forall x, p x = true -> a x = true) ->
  existsb p (filter f l) = existsb p (filter f (filter a l)).
Proof.
  intros H. induction l as [|x t IH]; [reflexivity|]. cbn [filter].
  destruct (a x) eqn:Ea; cbn [filter]; destruct (f x) eqn:Ef; cbn [existsb]; try rewrite IH; try reflexivity.
  destruct (p x) eqn:Ep; [rewrite (H x Ep) in Ea; discriminate | reflexivity].
Qed.

(** * Step 1 *)

Definition opt_nat_eqb (a b : option nat) : bool :=
  match a, b with Some x, Some y => Nat.eqb x y | None, None => true | _, _ => false end.

Lemma opt_nat_eqb_eq a b : opt_nat_eqb a b = true <-> a = b.
Proof.
  destruct a as [x|], b as [y|]; cbn; split; intros H; try discriminate; try reflexivity.
  - apply Nat.eqb_eq in H. subst. reflexivity.
  - injection H as ->. apply Nat.eqb_refl.
Qed.

Definition resolves (e : entry) : option nat :=
  match en_ev e with EvHTLCUpdate i | EvHTLCSpend i _ _ => Some i | _ => None end.
Definition gross_p (P : option nat -> bool) (e : entry) : Z :=
  match en_ev e with EvMaturing g s _ => if P s then g else 0 | _ => 0 end.
Definition sum_p (P : option nat -> bool) (l : list (Z * option nat)) : Z :=
  sumz (map (fun p => if P (snd p) then fst p else 0) l).
Definition gross_src (src : option nat) : entry -> Z := gross_p (fun s => opt_nat_eqb s src).
Definition sum_src (src : option nat) : list (Z * option nat) -> Z := sum_p (fun s => opt_nat_eqb s src).

Lemma mature_fold l : forall st,
  let st' := fold_left mature_one l st in
  best st' = best st /\ awaiting st' = awaiting st /\ known st' = known st /\
  (forall i, In i (resolved st') <-> In i (resolved st) \/ exists e, In e l /\ resolves e = Some i) /\
  (forall P, sum_p P (spendable st') = sum_p P (spendable st) + sumz (map (gross_p P) l)).
Proof.
  induction l as [|e t IH]; intros st; cbv zeta.
  - cbn [fold_left]. repeat split; try reflexivity.
    + intros H; left; exact H.
    + intros [H | (e & [] & _)]; exact H.
    + intros P. cbn [map]. unfold sumz. cbn [fold_right]. lia.
  - cbn [fold_left]. specialize (IH (mature_one st e)). cbv zeta in IH.
    destruct IH as (Hb & Ha & Hk & Hr & Hs).
    assert (Eb : best (mature_one st e) = best st) by (unfold mature_one; destruct (en_ev e); reflexivity).
    assert (Ea : awaiting (mature_one st e) = awaiting st) by (unfold mature_one; destruct (en_ev e); reflexivity).
    assert (Ek : known (mature_one st e) = known st) by (unfold mature_one; destruct (en_ev e); reflexivity).
    repeat split; try congruence.
    + intros H. apply Hr in H as [H | (e' & He' & Hres)].
      * unfold mature_one, resolves in *. destruct (en_ev e) eqn:Ee; cbn [resolved] in H.
        -- left; exact H.
        -- destruct H as [<- | H]; [right; exists e; split; [left; reflexivity | unfold resolves; rewrite Ee; reflexivity] | left; exact H].
        -- destruct H as [<- | H]; [right; exists e; split; [left; reflexivity | unfold resolves; rewrite Ee; reflexivity] | left; exact H].
        -- left; exact H.
      * right. exists e'. split; [right; exact He' | exact Hres].
    + intros [H | (e' & [<- | He'] & Hres)]; apply Hr.
      * left. unfold mature_one. destruct (en_ev e); cbn [resolved]; try exact H; right; exact H.
      * left. unfold mature_one, resolves in *. destruct (en_ev e); try discriminate; injection Hres as <-; cbn [resolved]; left; reflexivity.
      * right. exists e'. split; assumption.
    + intros P. rewrite Hs. cbn [map].
      replace (sumz (gross_p P e :: map (gross_p P) t)) with (gross_p P e + sumz (map (gross_p P) t))
        by (unfold sumz; reflexivity).
      assert (sum_p P (spendable (mature_one st e)) = sum_p P (spendable st) + gross_p P e); [|lia].
      unfold mature_one, gross_p. destruct (en_ev e) as [csv | i | i p csv | g s d]; cbn [spendable]; try lia.
      unfold sum_p. cbn [map fst snd]. unfold sumz. cbn [fold_right]. lia.
Qed.

(** the relation between a state and the list [cr] of all entries created so far *)
Definition rel (st : mstate) (cr : list entry) : Prop :=
  awaiting st = filter (fun e => best st <? threshold e) cr /\
  (forall i, In i (resolved st) <-> exists e, In e cr /\ threshold e <= best st /\ resolves e = Some i) /\
  (forall P, sum_p P (spendable st) =
             sumz (map (gross_p P) (filter (fun e => threshold e <=? best st) cr))).

Lemma filter_split_sum (f : entry -> Z) (cr : list entry) (B B' : Z) :
  B <= B' ->
  sumz (map f (filter (fun e => threshold e <=? B') cr)) =
  sumz (map f (filter (fun e => threshold e <=? B) cr)) +
  sumz (map f (filter (fun e => threshold e <=? B') (filter (fun e => B <? threshold e) cr))).
Proof.
  intros HB. induction cr as [|e t IH]; [reflexivity|]. cbn [filter].
  destruct (Z.leb_spec (threshold e) B'), (Z.leb_spec (threshold e) B), (Z.ltb_spec B (threshold e));
    try lia; cbn [filter map]; try (destruct (Z.leb_spec (threshold e) B'); try lia); cbn [map];
    unfold sumz in *; cbn [fold_right]; lia.
Qed.

(** [block_confirmed] after the best height moved from [B] to [B' >= B] and entries [new] were added *)
Lemma block_confirmed_rel st cr new B' :
  rel st cr -> best st <= B' ->
  rel (block_confirmed (mkState B' (awaiting st ++ new) (resolved st) (spendable st) (known st))) (cr ++ new) /\
  best (block_confirmed (mkState B' (awaiting st ++ new) (resolved st) (spendable st) (known st))) = B' /\
  known (block_confirmed (mkState B' (awaiting st ++ new) (resolved st) (spendable st) (known st))) = known st.
Proof.
  intros (Ha & Hr & Hs) HB. unfold block_confirmed. cbn [best awaiting resolved spendable known].
  set (reached := filter (fun e => threshold e <=? B') (awaiting st ++ new)).
  set (waiting := filter (fun e => negb (threshold e <=? B')) (awaiting st ++ new)).
  destruct (mature_fold reached (mkState B' waiting (resolved st) (spendable st) (known st)))
    as (Eb & Ea & Ek & Er & Es). cbn [best awaiting resolved spendable known] in *.
  split; [|split; assumption].
  unfold rel. rewrite Eb, Ea. split; [|split].
  - unfold waiting. rewrite Ha, !filter_app. f_equal.
    + rewrite filter_filter_impl.
      * apply filter_ext. intros e. destruct (Z.leb_spec (threshold e) B'), (Z.ltb_spec B' (threshold e)); try lia; reflexivity.
      * intros e He. apply negb_true_iff in He. apply Z.leb_gt in He. apply Z.ltb_lt. lia.
    + apply filter_ext. intros e. destruct (Z.leb_spec (threshold e) B'), (Z.ltb_spec B' (threshold e)); try lia; reflexivity.
  - intros i. rewrite Er. split.
    + intros [H | (e & He & Hres)].
      * apply Hr in H as (e & He & Ht & Hres). exists e. split; [apply in_or_app; left; exact He | split; [lia | exact Hres]].
      * unfold reached in He. apply filter_In in He as (He & Ht). apply Z.leb_le in Ht.
        exists e. split; [|split; assumption].
        apply in_app_or in He as [He | He]; apply in_or_app; [left | right; exact He].
        rewrite Ha in He. apply filter_In in He. tauto.
    + intros (e & He & Ht & Hres).
      destruct (Z.leb_spec (threshold e) (best st)) as [Hold | Hnew].
      * apply in_app_or in He as [He | He].
        -- left. apply Hr. exists e. repeat split; assumption.
        -- right. exists e. split; [|exact Hres]. unfold reached. apply filter_In. split; [apply in_or_app; right; exact He | apply Z.leb_le; exact Ht].
      * right. exists e. split; [|exact Hres]. unfold reached. apply filter_In. split; [|apply Z.leb_le; exact Ht].
        apply in_app_or in He as [He | He]; apply in_or_app; [left | right; exact He].
        rewrite Ha. apply filter_In. split; [exact He | apply Z.ltb_lt; lia].
  - intros P. rewrite Es, Hs. unfold reached. rewrite !filter_app, !map_app, !sumz_app.
    rewrite (filter_split_sum (gross_p P) cr (best st) B' HB). rewrite Ha. lia.
Qed.

(** entries created by an operation list, the height reached, the preimages learnt *)
Definition init_entries (c : closure) : list entry :=
  mkEntry (c_height c) (EvFundingSpend (delayed_of c)) ::
  (if 0 <? c_main c then [mkEntry (c_height c) (EvMaturing (c_main c) None (delayed_of c))] else []).

Fixpoint created_from (c : closure) (b : Z) (ops : list op) : list entry :=
  match ops with
  | [] => []
  | OpPreimage _ :: t => created_from c b t
  | OpBlock adv txs :: t =>
      let h := if adv then b + 1 else b in flat_map (spend_entries c h) txs ++ created_from c h t
  end.
Fixpoint best_from (b : Z) (ops : list op) : Z :=
  match ops with
  | [] => b
  | OpPreimage _ :: t => best_from b t
  | OpBlock adv _ :: t => best_from (if adv then b + 1 else b) t
  end.
Fixpoint known_from (k : list nat) (ops : list op) : list nat :=
  match ops with [] => k | OpPreimage i :: t => known_from (i :: k) t | OpBlock _ _ :: t => known_from k t end.

Lemma best_from_ge ops : forall b, b <= best_from b ops.
Proof.
  induction ops as [|[adv txs|i] t IH]; intros b; cbn [best_from]; [lia | | apply IH].
  destruct adv; [specialize (IH (b + 1)); lia | apply IH].
Qed.

Lemma fold_rel c ops : forall st cr,
  rel st cr ->
  rel (fold_left (step c) ops st) (cr ++ created_from c (best st) ops) /\
  best (fold_left (step c) ops st) = best_from (best st) ops /\
  known (fold_left (step c) ops st) = known_from (known st) ops.
Proof.
  induction ops as [|[adv txs|i] t IH]; intros st cr Hrel; cbn [fold_left created_from best_from known_from].
  - rewrite app_nil_r. split; [exact Hrel | split; reflexivity].
  - cbn [step]. cbv zeta. set (h := if adv then best st + 1 else best st).
    assert (Hh : best st <= h) by (unfold h; destruct adv; lia).
    destruct (block_confirmed_rel st cr (flat_map (spend_entries c h) txs) h Hrel Hh)
      as (Hrel' & Hb' & Hk').
    destruct (IH _ _ Hrel') as (H1 & H2 & H3). rewrite Hb' in *. rewrite Hk' in *.
    rewrite <- app_assoc in H1. split; [exact H1 | split; [exact H2 | exact H3]].
  - cbn [step].
    assert (Hrel' : rel (mkState (best st) (awaiting st) (resolved st) (spendable st) (i :: known st)) cr)
      by (unfold rel in *; cbn [best awaiting resolved spendable]; exact Hrel).
    destruct (IH _ _ Hrel') as (H1 & H2 & H3). cbn [best known] in *. split; [exact H1 | split; [exact H2 | exact H3]].
Qed.

Definition created (c : closure) (ops : list op) : list entry :=
  init_entries c ++ created_from c (c_height c) ops.

Lemma run_rel c k0 ops :
  let st := run c k0 ops in
  rel st (created c ops) /\ best st = best_from (c_height c) ops /\ known st = known_from k0 ops.
Proof.
  cbv zeta. unfold run, created.
  assert (Hinit : rel (init c k0) (init_entries c) /\ best (init c k0) = c_height c /\ known (init c k0) = k0).
  { unfold init.
    assert (R0 : rel (mkState (c_height c) [] [] [] k0) []).
    { repeat split; cbn; try reflexivity; try tauto. intros (e & [] & _). }
    destruct (block_confirmed_rel _ [] (init_entries c) (c_height c) R0 ltac:(cbn; lia)) as (H1 & H2 & H3).
    cbn [awaiting resolved spendable known app] in *. fold (init_entries c). split; [exact H1 | split; [exact H2 | exact H3]]. }
  destruct Hinit as (Hr & Hb & Hk).
  destruct (fold_rel c ops _ _ Hr) as (H1 & H2 & H3). rewrite Hb in *. rewrite Hk in *.
  split; [exact H1 | split; [exact H2 | exact H3]].
Qed.

(** * Step 2: the entries about one HTLC *)

Definition about (e : entry) : option nat :=
  match en_ev e with
  | EvFundingSpend _ => None
  | EvHTLCUpdate i | EvHTLCSpend i _ _ => Some i
  | EvMaturing _ src _ => src
  end.
Definition about_b (i : nat) (e : entry) : bool := opt_nat_eqb (about e) (Some i).

Fixpoint spends_from (b : Z) (ops : list op) : list (Z * spend) :=
  match ops with
  | [] => []
  | OpPreimage _ :: t => spends_from b t
  | OpBlock adv txs :: t =>
      let h := if adv then b + 1 else b in map (fun s => (h, s)) txs ++ spends_from h t
  end.

Definition entries_of (c : closure) (p : Z * spend) : list entry := spend_entries c (fst p) (snd p).

Lemma created_from_spends c ops : forall b,
  created_from c b ops = flat_map (entries_of c) (spends_from b ops).
Proof.
  induction ops as [|[adv txs|i] t IH]; intros b; cbn [created_from spends_from]; [reflexivity | | apply IH].
  cbv zeta. rewrite flat_map_app, IH. f_equal.
  induction txs as [|s r IHr]; [reflexivity|]. cbn [flat_map map]. rewrite IHr. reflexivity.
Qed.

Lemma spend_entries_about c h s e : In e (spend_entries c h s) -> about e = Some (sp_idx s).
Proof.
  unfold spend_entries. destruct (nth_error (c_htlcs c) (sp_idx s)) as [ht|]; [|intros []].
  intros [<- | Hin].
  - destruct (h_outbound ht), (sp_preimage s); reflexivity.
  - destruct (sp_ours s); [destruct Hin as [<- | []]; reflexivity | destruct Hin].
Qed.

Lemma filter_about_same c h s : filter (about_b (sp_idx s)) (spend_entries c h s) = spend_entries c h s.
Proof.
  pose proof (spend_entries_about c h s) as H. induction (spend_entries c h s) as [|e t IH]; [reflexivity|].
  cbn [filter]. unfold about_b at 1. rewrite (H e (or_introl eq_refl)).
  assert (opt_nat_eqb (Some (sp_idx s)) (Some (sp_idx s)) = true) as -> by (apply opt_nat_eqb_eq; reflexivity).
  f_equal. apply IH. intros e' He'. apply H. right. exact He'.
Qed.

Lemma filter_about_other c h s i : sp_idx s <> i -> filter (about_b i) (spend_entries c h s) = [].
Proof.
  intros Hne. pose proof (spend_entries_about c h s) as H. induction (spend_entries c h s) as [|e t IH]; [reflexivity|].
  cbn [filter]. unfold about_b at 1. rewrite (H e (or_introl eq_refl)).
  destruct (opt_nat_eqb (Some (sp_idx s)) (Some i)) eqn:E.
  - apply opt_nat_eqb_eq in E. injection E as E. contradiction.
  - apply IH. intros e' He'. apply H. right. exact He'.
Qed.

Definition idx_of (p : Z * spend) : nat := sp_idx (snd p).
Definition find_spend (i : nat) (l : list (Z * spend)) : option (Z * spend) :=
  find (fun p => Nat.eqb (idx_of p) i) l.

Lemma filter_about_absent c i l :
  ~ In i (map idx_of l) -> filter (about_b i) (flat_map (entries_of c) l) = [].
Proof.
  induction l as [|p t IH]; intros Hn; [reflexivity|]. cbn [flat_map]. rewrite filter_app.
  cbn [map] in Hn. unfold entries_of at 1. rewrite filter_about_other; [|intros E; apply Hn; left; exact E].
  apply IH. intros H. apply Hn. right. exact H.
Qed.

Lemma entries_about c i l :
  NoDup (map idx_of l) ->
  filter (about_b i) (flat_map (entries_of c) l) =
  match find_spend i l with Some p => entries_of c p | None => [] end.
Proof.
  induction l as [|p t IH]; intros Hn; [reflexivity|].
  cbn [flat_map map] in *. inversion Hn as [|x xs Hnotin Hn' E]; subst.
  rewrite filter_app. unfold find_spend. cbn [find]. destruct (Nat.eqb_spec (idx_of p) i) as [E | NE].
  - unfold entries_of at 1. unfold idx_of in E. rewrite <- E, filter_about_same.
    rewrite E. rewrite filter_about_absent; [apply app_nil_r|]. unfold idx_of in Hnotin. rewrite <- E. exact Hnotin.
  - unfold entries_of at 1. rewrite filter_about_other by exact NE. cbn [app]. apply IH. exact Hn'.
Qed.

Lemma init_entries_about c i : filter (about_b i) (init_entries c) = [].
Proof. unfold init_entries. destruct (0 <? c_main c); reflexivity. Qed.

(** * Step 3: per-output arithmetic *)

Definition counted_opt (b : option balance) : Z := match b with Some x => counted x | None => 0 end.

(** [htlc_balance] as a function of the awaiting list, the resolved flag and the preimage flag *)
Definition htlc_balance_on (aw : list entry) (res kn : bool) (i : nat) (h : htlc) : option balance :=
  if negb (h_output h) then None else
  let timeout_spend_pending := existsb (fun e => match en_ev e with EvHTLCUpdate j => Nat.eqb i j | _ => false end) aw in
  let preimage_spend_pending := existsb (fun e => match en_ev e with EvHTLCSpend j true _ => Nat.eqb i j | _ => false end) aw in
  let delayed_output_pending :=
    existsb (fun e => match en_ev e with EvMaturing _ (Some j) (Some _) => Nat.eqb i j | _ => false end) aw in
  if delayed_output_pending then Some (BalAwaiting (h_amt h))
  else if res then None
  else if h_outbound h then
    if timeout_spend_pending then Some (BalAwaiting (h_amt h)) else Some (BalMaybeTimeout (h_amt h))
  else if kn then
    if preimage_spend_pending then Some (BalAwaiting (h_amt h)) else Some (BalContentious (h_amt h))
  else Some (BalMaybePreimage (h_amt h)).

Lemma htlc_balance_on_eq st i h :
  htlc_balance st i h = htlc_balance_on (awaiting st) (existsb (Nat.eqb i) (resolved st)) (knows st i) i h.
Proof. reflexivity. Qed.

Lemma htlc_balance_on_about f cr res kn i h :
  htlc_balance_on (filter f cr) res kn i h = htlc_balance_on (filter f (filter (about_b i) cr)) res kn i h.
Proof.
  unfold htlc_balance_on.
  rewrite (existsb_filter_about (fun e => match en_ev e with EvHTLCUpdate j => Nat.eqb i j | _ => false end) (about_b i) f cr).
  2:{ intros e. unfold about_b, about. destruct (en_ev e); try discriminate. intros H. apply Nat.eqb_eq in H. subst. apply opt_nat_eqb_eq. reflexivity. }
  rewrite (existsb_filter_about (fun e => match en_ev e with EvHTLCSpend j true _ => Nat.eqb i j | _ => false end) (about_b i) f cr).
  2:{ intros e. unfold about_b, about. destruct (en_ev e) as [| |j [|] csv|]; try discriminate. intros H. apply Nat.eqb_eq in H. subst. apply opt_nat_eqb_eq. reflexivity. }
  rewrite (existsb_filter_about (fun e => match en_ev e with EvMaturing _ (Some j) (Some _) => Nat.eqb i j | _ => false end) (about_b i) f cr).
  2:{ intros e. unfold about_b, about. destruct (en_ev e) as [| | |g [j|] [d|]]; try discriminate. intros H. apply Nat.eqb_eq in H. subst. apply opt_nat_eqb_eq. reflexivity. }
  reflexivity.
Qed.

(** the value attributed to HTLC [i] by the balances and the spendable outputs, from its entries *)
Definition resolved_on (E : list entry) (B : Z) (i : nat) : bool :=
  existsb (fun e => (threshold e <=? B) && opt_nat_eqb (resolves e) (Some i)) E.
Definition value_on (E : list entry) (B : Z) (kn : bool) (i : nat) (h : htlc) : Z :=
  counted_opt (htlc_balance_on (filter (fun e => B <? threshold e) E) (resolved_on E B i) kn i h) +
  sumz (map (gross_src (Some i)) (filter (fun e => threshold e <=? B) E)).

Definition owed (kn : bool) (h : htlc) : Z :=
  if h_output h && (h_outbound h || kn) then h_amt h else 0.

(** the spend of HTLC [i] is of a kind that can exist on chain, given what the node knows *)
Definition spend_ok (c : closure) (kn : bool) (s : spend) (h : htlc) : Prop :=
  h_output h = true /\
  (sp_ours s = true -> if h_outbound h then sp_preimage s = false else (sp_preimage s = true /\ kn = true)) /\
  (sp_ours s = false -> sp_preimage s = h_outbound h).

Lemma thr_other h e : en_height e = h ->
  match en_ev e with EvHTLCUpdate _ | EvMaturing _ _ None | EvHTLCSpend _ _ None | EvFundingSpend None => True | _ => False end ->
  threshold e = h + ANTI_REORG_DELAY - 1.
Proof.
  intros <-. unfold threshold, confirmation_threshold.
  destruct (en_ev e) as [[c|] | i | i p [c|] | g s [d|]]; intros H; try contradiction; reflexivity.
Qed.

Lemma value_unspent B kn i h : value_on [] B kn i h = owed kn h.
Proof.
  unfold value_on, owed, resolved_on, htlc_balance_on, gross_src. cbn [filter existsb map sumz fold_right].
  destruct (h_output h), (h_outbound h), kn; cbn; unfold sumz; cbn; lia.
Qed.

Lemma value_spent c B kn h s ht :
  nth_error (c_htlcs c) (sp_idx s) = Some ht -> spend_ok c kn s ht -> 0 <= c_csv c ->
  let E := spend_entries c h s in
  value_on E B kn (sp_idx s) ht +
  (if negb (sp_ours s) && (h_outbound ht || kn) && resolved_on E B (sp_idx s) then h_amt ht else 0)
  = owed kn ht.
Proof.
  intros Hnth (Hout & Hours & Htheirs) Hcsv. cbv zeta. unfold spend_entries. rewrite Hnth.
  unfold owed. rewrite Hout. cbn [andb].
  set (i := sp_idx s).
  destruct (sp_ours s) eqn:Eo.
  - (* our own claim *)
    specialize (Hours eq_refl). destruct (h_outbound ht) eqn:Eb.
    + (* timeout of an HTLC we offered *)
      rewrite Hours. cbn [negb andb orb].
      unfold value_on, resolved_on, htlc_balance_on, delayed_of, gross_src. rewrite Hout, Eb. cbn [negb].
      destruct (c_side c);
        cbn [filter existsb map threshold en_ev en_height resolves gross_p];
        unfold threshold, confirmation_threshold, ANTI_REORG_DELAY; cbn [en_ev en_height];
        repeat match goal with
               | |- context [?a <? ?b] => destruct (Z.ltb_spec a b)
               | |- context [?a <=? ?b] => destruct (Z.leb_spec a b)
               end; try lia;
        cbn [filter existsb map en_ev resolves gross_p andb orb opt_nat_eqb counted_opt counted];
        rewrite ?Nat.eqb_refl; cbn [andb orb counted_opt counted]; unfold sumz; cbn [fold_right]; try lia.
    + (* preimage claim of an HTLC offered to us *)
      destruct Hours as (Hp & Hk). rewrite Hp, Hk. cbn [negb andb orb].
      unfold value_on, resolved_on, htlc_balance_on, delayed_of, gross_src. rewrite Hout, Eb. cbn [negb].
      destruct (c_side c);
        cbn [filter existsb map threshold en_ev en_height resolves gross_p];
        unfold threshold, confirmation_threshold, ANTI_REORG_DELAY; cbn [en_ev en_height];
        repeat match goal with
               | |- context [?a <? ?b] => destruct (Z.ltb_spec a b)
               | |- context [?a <=? ?b] => destruct (Z.leb_spec a b)
               end; try lia;
        cbn [filter existsb map en_ev resolves gross_p andb orb opt_nat_eqb counted_opt counted];
        rewrite ?Nat.eqb_refl; cbn [andb orb counted_opt counted]; unfold sumz; cbn [fold_right]; try lia.
  - (* the counterparty's claim *)
    specialize (Htheirs eq_refl). rewrite Htheirs. cbn [negb andb].
    unfold value_on, resolved_on, htlc_balance_on, gross_src. rewrite Hout. cbn [negb].
    destruct (h_outbound ht) eqn:Eb, kn, (c_side c);
      cbn [filter existsb map threshold en_ev en_height resolves gross_p app];
      unfold threshold, confirmation_threshold, ANTI_REORG_DELAY; cbn [en_ev en_height];
      repeat match goal with
             | |- context [?a <? ?b] => destruct (Z.ltb_spec a b)
             | |- context [?a <=? ?b] => destruct (Z.leb_spec a b)
             end; try lia;
      cbn [filter existsb map en_ev resolves gross_p andb orb opt_nat_eqb counted_opt counted];
      rewrite ?Nat.eqb_refl; cbn [andb orb counted_opt counted]; unfold sumz; cbn [fold_right]; try lia.
Qed.

(** * Assembly *)

Fixpoint sum_idx (f : nat -> htlc -> Z) (i : nat) (hs : list htlc) : Z :=
  match hs with [] => 0 | h :: t => f i h + sum_idx f (S i) t end.

Lemma sum_idx_ext f g hs : forall k,
  (forall i h, nth_error hs (i - k) = Some h -> (k <= i)%nat -> f i h = g i h) -> sum_idx f k hs = sum_idx g k hs.
Proof.
  induction hs as [|h t IH]; intros k H; [reflexivity|]. cbn [sum_idx].
  rewrite (H k h) by (try rewrite Nat.sub_diag; try reflexivity; lia). f_equal.
  apply IH. intros i h' Hn Hk. apply H; [|lia].
  replace (i - k)%nat with (S (i - S k)) by lia. exact Hn.
Qed.

Lemma sum_idx_add f g hs : forall k, sum_idx (fun i h => f i h + g i h) k hs = sum_idx f k hs + sum_idx g k hs.
Proof. induction hs as [|h t IH]; intros k; cbn [sum_idx]; [lia | rewrite IH; lia]. Qed.

Lemma balances_from_sum st hs : forall k,
  sumz (map counted (htlc_balances_from st k hs)) = sum_idx (fun i h => counted_opt (htlc_balance st i h)) k hs.
Proof.
  induction hs as [|h t IH]; intros k; [reflexivity|]. cbn [htlc_balances_from sum_idx].
  rewrite map_app, sumz_app, IH. destruct (htlc_balance st k h); cbn [map counted_opt]; unfold sumz; cbn [fold_right]; lia.
Qed.

(** single-point sum *)
Lemma sum_idx_point (g : Z) (j : nat) hs : forall k,
  sum_idx (fun i _ => if Nat.eqb j i then g else 0) k hs =
  if (Nat.leb k j) && (Nat.ltb j (k + List.length hs)) then g else 0.
Proof.
  induction hs as [|h t IH]; intros k; cbn [sum_idx List.length].
  - destruct (Nat.leb_spec k j), (Nat.ltb_spec j (k + 0)); cbn; try lia; reflexivity.
  - rewrite IH. destruct (Nat.eqb_spec j k), (Nat.leb_spec k j), (Nat.leb_spec (S k) j),
      (Nat.ltb_spec j (S k + List.length t)), (Nat.ltb_spec j (k + S (List.length t))); cbn; try lia.
Qed.

Lemma sum_idx_zero hs : forall k, sum_idx (fun _ _ => 0) k hs = 0.
Proof. induction hs as [|h t IH]; intros k; cbn [sum_idx]; [reflexivity | rewrite IH; reflexivity]. Qed.

Lemma sum_idx_swap (F : nat -> entry -> Z) (l : list entry) hs k :
  sumz (map (fun e => sum_idx (fun i _ => F i e) k hs) l) = sum_idx (fun i _ => sumz (map (F i) l)) k hs.
Proof.
  induction l as [|e r IH].
  - cbn [map]. unfold sumz. cbn [fold_right]. symmetry. apply sum_idx_zero.
  - cbn [map]. replace (sumz (sum_idx (fun i _ => F i e) k hs :: map (fun e0 => sum_idx (fun i _ => F i e0) k hs) r))
      with (sum_idx (fun i _ => F i e) k hs + sumz (map (fun e0 => sum_idx (fun i _ => F i e0) k hs) r)) by (unfold sumz; reflexivity).
    rewrite IH, <- sum_idx_add. apply sum_idx_ext. intros i h _ _. unfold sumz. reflexivity.
Qed.

Definition is_none (s : option nat) : bool := match s with None => true | Some _ => false end.

(** every entry's source is a valid HTLC index *)
Definition in_range (n : nat) (e : entry) : Prop := forall j, about e = Some j -> (j < n)%nat.

Lemma gross_partition n hs e : List.length hs = n -> in_range n e ->
  gross_p (fun _ => true) e = gross_p is_none e + sum_idx (fun i _ => gross_src (Some i) e) 0 hs.
Proof.
  intros Hn Hr. unfold gross_src, gross_p. destruct (en_ev e) as [csv | i | i p csv | g [j|] d] eqn:Ee.
  1-3: (rewrite sum_idx_zero; reflexivity).
  - cbn [is_none opt_nat_eqb]. rewrite sum_idx_point.
    assert (j < n)%nat by (apply Hr; unfold about; rewrite Ee; reflexivity).
    destruct (Nat.leb_spec 0 j), (Nat.ltb_spec j (0 + List.length hs)); cbn; try lia.
  - cbn [is_none opt_nat_eqb].
    rewrite sum_idx_zero. lia.
Qed.

Lemma spend_entries_in_range c h s e : In e (spend_entries c h s) -> in_range (List.length (c_htlcs c)) e.
Proof.
  intros Hin j Hj. rewrite (spend_entries_about c h s e Hin) in Hj. injection Hj as <-.
  unfold spend_entries in Hin. destruct (nth_error (c_htlcs c) (sp_idx s)) eqn:E; [|destruct Hin].
  apply nth_error_Some. congruence.
Qed.

Lemma created_in_range c ops e : In e (created c ops) -> in_range (List.length (c_htlcs c)) e.
Proof.
  unfold created. intros Hin. apply in_app_or in Hin as [Hin | Hin].
  - intros j Hj. unfold init_entries in Hin. destruct Hin as [<- | Hin]; [discriminate|].
    destruct (0 <? c_main c); [destruct Hin as [<- | []]; discriminate | destruct Hin].
  - rewrite created_from_spends in Hin. apply in_flat_map in Hin as (p & _ & Hp).
    apply (spend_entries_in_range c (fst p) (snd p)). exact Hp.
Qed.

Lemma sum_map_ext_in (f g : entry -> Z) l : (forall e, In e l -> f e = g e) -> sumz (map f l) = sumz (map g l).
Proof.
  induction l as [|e t IH]; intros H; [reflexivity|]. cbn [map]. unfold sumz in *. cbn [fold_right].
  rewrite (H e (or_introl eq_refl)), IH; [reflexivity|]. intros e' He'. apply H. right. exact He'.
Qed.

Lemma sum_map_add (f g : entry -> Z) l : sumz (map (fun e => f e + g e) l) = sumz (map f l) + sumz (map g l).
Proof. induction l as [|e t IH]; [reflexivity|]. cbn [map]. unfold sumz in *. cbn [fold_right]. lia. Qed.

(** entries not about [i] contribute nothing to HTLC [i] *)
Lemma sum_gross_about (f : entry -> bool) i cr :
  sumz (map (gross_src (Some i)) (filter f cr)) =
  sumz (map (gross_src (Some i)) (filter f (filter (about_b i) cr))).
Proof.
  induction cr as [|e t IH]; [reflexivity|]. cbn [filter].
  destruct (about_b i e) eqn:Ea; cbn [filter]; destruct (f e); cbn [map]; unfold sumz in *; cbn [fold_right]; try lia.
  assert (gross_src (Some i) e = 0); [|lia].
  unfold about_b, about in Ea. unfold gross_src, gross_p. destruct (en_ev e) as [| | |g s d]; try reflexivity.
  rewrite Ea. reflexivity.
Qed.

Lemma resolved_about (B : Z) i cr :
  existsb (fun e => (threshold e <=? B) && opt_nat_eqb (resolves e) (Some i)) cr =
  existsb (fun e => (threshold e <=? B) && opt_nat_eqb (resolves e) (Some i)) (filter (about_b i) cr).
Proof.
  induction cr as [|e t IH]; [reflexivity|]. cbn [filter existsb].
  destruct (about_b i e) eqn:Ea; cbn [existsb]; rewrite IH; [reflexivity|].
  assert (opt_nat_eqb (resolves e) (Some i) = false) as ->; [|rewrite andb_false_r; reflexivity].
  unfold about_b, about in Ea. unfold resolves. destruct (en_ev e); try reflexivity; exact Ea.
Qed.

(** well-formed operation lists: every HTLC output is spent at most once, by a spend that can exist *)
Fixpoint ops_ok (c : closure) (k : list nat) (ops : list op) : Prop :=
  match ops with
  | [] => True
  | OpPreimage i :: t => ops_ok c (i :: k) t
  | OpBlock _ txs :: t =>
      Forall (fun s => exists ht, nth_error (c_htlcs c) (sp_idx s) = Some ht /\
                                  spend_ok c (existsb (Nat.eqb (sp_idx s)) k) s ht) txs /\
      ops_ok c k t
  end.

Definition wf (c : closure) (k0 : list nat) (ops : list op) : Prop :=
  0 <= c_main c /\ 0 <= c_csv c /\ ops_ok c k0 ops /\
  NoDup (map idx_of (spends_from (c_height c) ops)).

Lemma known_from_mono ops : forall k i, In i k -> In i (known_from k ops).
Proof. induction ops as [|[adv txs|j] t IH]; intros k i H; cbn [known_from]; [exact H | apply IH; exact H | apply IH; right; exact H]. Qed.

Lemma spend_ok_mono c kn s ht : spend_ok c kn s ht -> forall kn', (kn = true -> kn' = true) -> spend_ok c kn' s ht.
Proof.
  intros (A & B & C) kn' H. split; [exact A|]. split; [|exact C].
  intros Ho. specialize (B Ho). destruct (h_outbound ht); [exact B|]. destruct B as (B1 & B2). split; [exact B1 | apply H; exact B2].
Qed.

Lemma ops_ok_spends c ops : forall b k p,
  ops_ok c k ops -> In p (spends_from b ops) ->
  exists ht, nth_error (c_htlcs c) (idx_of p) = Some ht /\
             spend_ok c (existsb (Nat.eqb (idx_of p)) (known_from k ops)) (snd p) ht.
Proof.
  induction ops as [|[adv txs|j] t IH]; intros b k p Hok Hin; cbn [spends_from ops_ok known_from] in *; [destruct Hin | |].
  - cbv zeta in Hin. destruct Hok as (Hf & Hok). apply in_app_or in Hin as [Hin | Hin].
    + apply in_map_iff in Hin as (s & <- & Hs). rewrite Forall_forall in Hf. destruct (Hf s Hs) as (ht & Hn & Hsp).
      exists ht. split; [exact Hn|]. unfold idx_of. cbn [snd]. apply (spend_ok_mono _ _ _ _ Hsp).
      intros E. apply existsb_exists in E as (x & Hx & Ex). apply existsb_exists. exists x. split; [apply known_from_mono; exact Hx | exact Ex].
    + apply (IH _ k p Hok Hin).
  - apply (IH b (j :: k) p Hok Hin).
Qed.

Lemma find_spend_in i l p : find_spend i l = Some p -> In p l /\ idx_of p = i.
Proof. unfold find_spend. intros H. apply find_some in H as (H1 & H2). apply Nat.eqb_eq in H2. split; assumption. Qed.

(** what the counterparty irrevocably took of what the node could have won *)
Definition lost_of (c : closure) (ops : list op) (B : Z) (kn : bool) (i : nat) (h : htlc) : Z :=
  match find_spend i (spends_from (c_height c) ops) with
  | Some p =>
      if negb (sp_ours (snd p)) && (h_outbound h || kn) && (fst p + ANTI_REORG_DELAY - 1 <=? B) then h_amt h else 0
  | None => 0
  end.

Lemma resolved_on_theirs c h s ht B :
  nth_error (c_htlcs c) (sp_idx s) = Some ht -> sp_ours s = false -> sp_preimage s = h_outbound ht ->
  resolved_on (spend_entries c h s) B (sp_idx s) = (h + ANTI_REORG_DELAY - 1 <=? B).
Proof.
  intros Hn Ho Hp. unfold spend_entries. rewrite Hn, Ho, Hp.
  unfold resolved_on. destruct (h_outbound ht), (c_side c);
    cbn [existsb app resolves en_ev opt_nat_eqb threshold en_height];
    unfold confirmation_threshold, ANTI_REORG_DELAY; rewrite Nat.eqb_refl, andb_true_r, orb_false_r; reflexivity.
Qed.

(** per HTLC: balance + handed out + lost = owed *)
Lemma htlc_conserved c k0 ops i ht :
  wf c k0 ops -> nth_error (c_htlcs c) i = Some ht ->
  let st := run c k0 ops in
  counted_opt (htlc_balance st i ht) + sum_src (Some i) (spendable st) +
  lost_of c ops (best st) (knows st i) i ht = owed (knows st i) ht.
Proof.
  intros (Hm & Hcsv & Hok & Hnd) Hnth. cbv zeta.
  destruct (run_rel c k0 ops) as ((Ha & Hr & Hs) & Hb & Hk). cbv zeta in *.
  set (st := run c k0 ops) in *. set (B := best st) in *. set (kn := knows st i).
  set (cr := created c ops) in *.
  set (E := filter (about_b i) cr).
  assert (HE : E = match find_spend i (spends_from (c_height c) ops) with Some p => entries_of c p | None => [] end).
  { unfold E, cr, created. rewrite filter_app, init_entries_about, created_from_spends. cbn [app]. apply entries_about. exact Hnd. }
  assert (Hbal : htlc_balance st i ht = htlc_balance_on (filter (fun e => B <? threshold e) E) (resolved_on E B i) kn i ht).
  { rewrite htlc_balance_on_eq, Ha. fold B. rewrite htlc_balance_on_about. fold E. f_equal.
    unfold resolved_on, E. rewrite <- resolved_about.
    destruct (existsb (Nat.eqb i) (resolved st)) eqn:E1; symmetry.
    - apply existsb_exists in E1 as (x & Hx & Ex). apply Nat.eqb_eq in Ex. subst x.
      apply Hr in Hx as (e & He & Ht & Hres). apply existsb_exists. exists e. split; [exact He|].
      apply andb_true_iff. split; [apply Z.leb_le; exact Ht | apply opt_nat_eqb_eq; exact Hres].
    - destruct (existsb _ cr) eqn:E2; [|reflexivity]. exfalso.
      apply existsb_exists in E2 as (e & He & Hp). apply andb_true_iff in Hp as (Ht & Hres).
      apply Z.leb_le in Ht. apply opt_nat_eqb_eq in Hres.
      assert (In i (resolved st)) by (apply Hr; exists e; repeat split; assumption).
      assert (existsb (Nat.eqb i) (resolved st) = true); [|congruence].
      apply existsb_exists. exists i. split; [assumption | apply Nat.eqb_refl]. }
  assert (Hsp : sum_src (Some i) (spendable st) = sumz (map (gross_src (Some i)) (filter (fun e => threshold e <=? B) E))).
  { unfold sum_src. rewrite Hs. fold B. fold (gross_src (Some i)). unfold E. apply sum_gross_about. }
  rewrite Hbal, Hsp. fold (value_on E B kn i ht).
  unfold lost_of. rewrite HE. destruct (find_spend i (spends_from (c_height c) ops)) as [p|] eqn:Ef.
  - destruct (find_spend_in _ _ _ Ef) as (Hin & Hidx).
    destruct (ops_ok_spends c ops _ _ p Hok Hin) as (ht' & Hn' & Hspok).
    rewrite Hidx in Hn'. assert (ht' = ht) by congruence. subst ht'.
    assert (Hkn : existsb (Nat.eqb (idx_of p)) (known_from k0 ops) = kn).
    { unfold kn, knows. rewrite Hk, Hidx. reflexivity. }
    rewrite Hkn in Hspok. unfold entries_of. unfold idx_of in Hidx.
    pose proof (value_spent c B kn (fst p) (snd p) ht) as V. rewrite Hidx in V.
    specialize (V Hnth Hspok Hcsv). cbv zeta in V. rewrite <- V. f_equal.
    destruct (sp_ours (snd p)) eqn:Eo; [reflexivity|]. cbn [negb andb].
    destruct Hspok as (_ & _ & Htheirs). specialize (Htheirs Eo).
    pose proof (resolved_on_theirs c (fst p) (snd p) ht B) as R. rewrite Hidx in R.
    rewrite (R Hnth Eo Htheirs). reflexivity.
  - rewrite value_unspent. lia.
Qed.

(** the node's main output *)
Lemma main_conserved c k0 ops :
  wf c k0 ops ->
  let st := run c k0 ops in
  sumz (map counted (main_balance c st)) + sum_p is_none (spendable st) = c_main c.
Proof.
  intros (Hm & Hcsv & Hok & Hnd). cbv zeta.
  destruct (run_rel c k0 ops) as ((Ha & Hr & Hs) & Hb & Hk). cbv zeta in *.
  set (st := run c k0 ops) in *. set (B := best st) in *.
  assert (Hnone : forall (p : entry -> bool) f, (forall e, p e = true -> about e = None) ->
            existsb p (filter f (created c ops)) = existsb p (filter f (init_entries c))).
  { intros p f Hp. unfold created. rewrite filter_app, existsb_app.
    assert (existsb p (filter f (created_from c (c_height c) ops)) = false) as ->; [|apply orb_false_r].
    destruct (existsb p _) eqn:E; [|reflexivity]. exfalso.
    apply existsb_exists in E as (e & He & Hpe). apply filter_In in He as (He & _).
    rewrite created_from_spends in He. apply in_flat_map in He as (q & _ & Hq).
    specialize (Hp e Hpe). unfold entries_of in Hq. rewrite (spend_entries_about _ _ _ _ Hq) in Hp. discriminate. }
  assert (Hsum : sum_p is_none (spendable st) = sumz (map (gross_p is_none) (filter (fun e => threshold e <=? B) (init_entries c)))).
  { rewrite Hs. fold B. unfold created. rewrite filter_app, map_app, sumz_app.
    assert (sumz (map (gross_p is_none) (filter (fun e => threshold e <=? B) (created_from c (c_height c) ops))) = 0) as ->; [|lia].
    rewrite created_from_spends.
    assert (Hz : forall l, (forall e, In e l -> exists j, about e = Some j) -> sumz (map (gross_p is_none) (filter (fun e => threshold e <=? B) l)) = 0).
    { induction l as [|e t IH]; intros H; [reflexivity|]. cbn [filter]. destruct (threshold e <=? B); cbn [map]; unfold sumz in *; cbn [fold_right].
      - destruct (H e (or_introl eq_refl)) as (j & Hj). unfold gross_p, about in *. destruct (en_ev e) as [| | |g s d]; try (rewrite IH; [lia | intros; apply H; right; assumption]).
        subst s. cbn [is_none]. rewrite IH; [lia | intros; apply H; right; assumption].
      - apply IH. intros; apply H; right; assumption. }
    apply Hz. intros e He. apply in_flat_map in He as (q & _ & Hq). exists (sp_idx (snd q)). unfold entries_of in Hq. apply (spend_entries_about _ _ _ _ Hq). }
  rewrite Hsum. unfold main_balance, ev_is. rewrite Ha. fold B.
  rewrite (Hnone (fun e => match en_ev e with EvFundingSpend _ => true | _ => false end)) by (intros e; unfold about; destruct (en_ev e); try discriminate; reflexivity).
  rewrite (Hnone (fun e => match en_ev e with EvMaturing _ None None => true | _ => false end)) by (intros e; unfold about; destruct (en_ev e) as [| | |g [j|] [d|]]; try discriminate; reflexivity).
  unfold init_entries, delayed_of.
  destruct (c_side c), (Z.ltb_spec 0 (c_main c));
    cbn [filter existsb map threshold en_ev en_height gross_p is_none];
    unfold threshold, confirmation_threshold, ANTI_REORG_DELAY; cbn [en_ev en_height];
    repeat match goal with
           | |- context [?a <? ?b] => destruct (Z.ltb_spec a b)
           | |- context [?a <=? ?b] => destruct (Z.leb_spec a b)
           end; try lia;
    cbn [filter existsb map en_ev gross_p is_none orb counted]; unfold sumz; cbn [fold_right]; lia.
Qed.

Definition owed_total (c : closure) (st : mstate) : Z :=
  c_main c + sum_idx (fun i h => owed (knows st i) h) 0 (c_htlcs c).
Definition lost_total (c : closure) (ops : list op) (st : mstate) : Z :=
  sum_idx (fun i h => lost_of c ops (best st) (knows st i) i h) 0 (c_htlcs c).

Theorem balances_conserve c k0 ops :
  wf c k0 ops ->
  let st := run c k0 ops in
  balance_total c st + spendable_total st + lost_total c ops st = owed_total c st.
Proof.
  intros Hwf. cbv zeta. set (st := run c k0 ops).
  pose proof (main_conserved c k0 ops Hwf) as Hmain. cbv zeta in Hmain. fold st in Hmain.
  destruct (run_rel c k0 ops) as ((Ha & Hr & Hs) & Hb & Hk). cbv zeta in *. fold st in Ha, Hr, Hs, Hb, Hk.
  (* split the spendable total by source *)
  assert (Hsplit : spendable_total st = sum_p is_none (spendable st) + sum_idx (fun i _ => sum_src (Some i) (spendable st)) 0 (c_htlcs c)).
  { assert (spendable_total st = sum_p (fun _ => true) (spendable st)) as ->.
    { unfold spendable_total, sum_p. f_equal. }
    rewrite !Hs. unfold sum_src.
    rewrite (sum_idx_ext (fun i _ => sum_p (fun s => opt_nat_eqb s (Some i)) (spendable st))
                         (fun i _ => sumz (map (gross_src (Some i)) (filter (fun e => threshold e <=? best st) (created c ops)))))
      by (intros i h _ _; apply Hs).
    rewrite <- sum_idx_swap, <- sum_map_add. apply sum_map_ext_in. intros e He.
    apply filter_In in He as (He & _). apply (gross_partition (List.length (c_htlcs c))); [reflexivity|].
    apply (created_in_range c ops). exact He. }
  unfold balance_total, balances, owed_total, lost_total.
  rewrite map_app, sumz_app, balances_from_sum, Hsplit.
  assert (Hper : sum_idx (fun i h => counted_opt (htlc_balance st i h)) 0 (c_htlcs c) +
                 sum_idx (fun i _ => sum_src (Some i) (spendable st)) 0 (c_htlcs c) +
                 sum_idx (fun i h => lost_of c ops (best st) (knows st i) i h) 0 (c_htlcs c) =
                 sum_idx (fun i h => owed (knows st i) h) 0 (c_htlcs c)).
  { rewrite <- !sum_idx_add. apply sum_idx_ext. intros i h Hn _. rewrite Nat.sub_0_r in Hn.
    apply (htlc_conserved c k0 ops i h Hwf Hn). }
  lia.
Qed.

(** once the balances have drained, everything owed was handed out as spendable or lost *)
Corollary balances_drained c k0 ops :
  wf c k0 ops -> balances c (run c k0 ops) = [] ->
  spendable_total (run c k0 ops) + lost_total c ops (run c k0 ops) = owed_total c (run c k0 ops).
Proof.
  intros Hwf Hb. pose proof (balances_conserve c k0 ops Hwf) as H. cbv zeta in H.
  unfold balance_total in H. rewrite Hb in H. cbn in H. lia.
Qed.

(** * Several HTLCs, one payment hash *)

Lemma known_from_app ops1 : forall k ops2, known_from k (ops1 ++ ops2) = known_from (known_from k ops1) ops2.
Proof. induction ops1 as [|[adv txs|i] t IH]; intros k ops2; cbn [app known_from]; [reflexivity | apply IH | apply IH]. Qed.

Lemma known_from_preimages l : forall k i, In i l -> In i (known_from k (map OpPreimage l)).
Proof.
  induction l as [|x t IH]; intros k i Hin; [destruct Hin|]. cbn [map known_from].
  destruct Hin as [-> | Hin]; [apply known_from_mono; left; reflexivity | apply IH; exact Hin].
Qed.

(** Once the preimage of a payment hash is provided, the monitor knows it for EVERY HTLC of the
    commitment that carries this hash ... *)
Lemma same_hash_all_known c k0 ops H i h :
  nth_error (c_htlcs c) i = Some h -> h_hash h = H ->
  knows (run c k0 (ops ++ learn c H)) i = true.
Proof.
  intros Hn Hh. destruct (run_rel c k0 (ops ++ learn c H)) as (_ & _ & Hk). unfold knows. rewrite Hk.
  rewrite known_from_app. apply existsb_exists. exists i. split; [|apply Nat.eqb_refl].
  unfold learn. apply known_from_preimages. apply (indices_with_hash_in H (c_htlcs c) 0 i h); [rewrite Nat.sub_0_r; exact Hn | lia | exact Hh].
Qed.

(** ... so every one of them that still has an unspent output is being claimed: two HTLCs with equal
    hashes yield two claims. *)
Lemma same_hash_all_claimed c k0 ops H i h :
  0 <= c_height c ->
  nth_error (c_htlcs c) i = Some h -> h_hash h = H -> h_output h = true -> h_outbound h = false ->
  spent_b (run c k0 (ops ++ learn c H)) i = false ->
  In i (claiming c (run c k0 (ops ++ learn c H))).
Proof.
  intros Hc Hn Hh Ho Hb Hs. apply claiming_spec. exists h. split; [exact Hn|]. split; [exact Hs|].
  exists ByPreimage. rewrite (same_hash_all_known c k0 ops H i h Hn Hh).
  split; [unfold claim_request; rewrite Ho, Hb; reflexivity|].
  destruct (run_rel c k0 (ops ++ learn c H)) as (_ & Hbest & _). rewrite Hbest.
  pose proof (best_from_ge (ops ++ learn c H) (c_height c)) as Hge.
  unfold claim_released. rewrite claim_locktime_value by lia.
  destruct (c_side c); apply negb_true_iff; apply Z.ltb_ge; lia.
Qed.

(** * Funding scopes *)

Lemma confirmed_scope_pending current pending s :
  In s pending -> NoDup (map s_funding pending) ->
  confirmed_scope current pending (Some (s_funding s)) = s.
Proof.
  intros Hin Hnd. unfold confirmed_scope. induction pending as [|p r IH]; [destruct Hin|].
  cbn [find]. cbn [map] in Hnd. inversion Hnd as [|? ? Hnot Hnd']; subst.
  destruct Hin as [-> | Hin].
  - rewrite Z.eqb_refl. reflexivity.
  - destruct (Z.eqb_spec (s_funding p) (s_funding s)) as [E | _].
    + exfalso. apply Hnot. rewrite E. apply in_map. exact Hin.
    + apply IH; assumption.
Qed.

Lemma confirmed_scope_current current pending : confirmed_scope current pending None = current.
Proof. reflexivity. Qed.

(** The balance the monitor reports for its own output of a confirmed commitment is the value of that
    output in the commitment of the scope whose funding the commitment spends -- whichever scope that
    is: the current one (nothing recorded) or any pending one (recorded as confirmed). *)
Lemma main_balance_of_spent_scope sd h csv hs current pending st :
  (forall b, In b (main_balance (closure_in sd h csv hs current pending None) st) -> b = BalAwaiting (scope_main sd current)) /\
  (forall s, In s pending -> NoDup (map s_funding pending) ->
     forall b, In b (main_balance (closure_in sd h csv hs current pending (Some (s_funding s))) st) ->
               b = BalAwaiting (scope_main sd s)).
Proof.
  split.
  - intros b Hb. unfold main_balance, closure_in in Hb. cbn [c_side c_main] in Hb. rewrite confirmed_scope_current in Hb.
    destruct (ev_is _ st); [|destruct Hb]. destruct sd.
    + destruct Hb as [<- | []]. reflexivity.
    + destruct (ev_is _ st); [|destruct Hb]. destruct Hb as [<- | []]. reflexivity.
  - intros s Hin Hnd b Hb. unfold main_balance, closure_in in Hb. cbn [c_side c_main] in Hb.
    rewrite (confirmed_scope_pending current pending s Hin Hnd) in Hb.
    destruct (ev_is _ st); [|destruct Hb]. destruct sd.
    + destruct Hb as [<- | []]. reflexivity.
    + destruct (ev_is _ st); [|destruct Hb]. destruct Hb as [<- | []]. reflexivity.
Qed.
