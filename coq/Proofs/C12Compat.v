(** C12: compatibility, rejection, version-prefix and injectivity theorems of the persistence TLV layer. *)
Require Import LdkV.Prim.U64 LdkV.Codec.Combinators LdkV.Codec.Tlv LdkV.Codec.Persist.
Require Import LdkV.Proofs.C13Base LdkV.Proofs.C13Tlv LdkV.Gen.PersistSchemas LdkV.Proofs.C12.
Open Scope Z_scope.

Lemma tlv_enc_app es1 : forall v1 es2 v2, List.length es1 = List.length v1 ->
  tlv_enc (es1 ++ es2) (v1 ++ v2) = tlv_enc es1 v1 ++ tlv_enc es2 v2.
Proof.
  induction es1 as [|e es1 IH]; intros [|x v1] es2 v2 L; cbn [List.length] in L; try discriminate; [reflexivity|].
  cbn [app tlv_enc]. rewrite IH by lia. rewrite app_assoc. reflexivity.
Qed.

Lemma asc_join es1 : forall lo es2, tys_ascending lo es1 = true -> tys_ascending (hi lo es1) es2 = true ->
  tys_ascending lo (es1 ++ es2) = true.
Proof.
  induction es1 as [|e es1 IH]; intros lo es2 A B; cbn [app hi] in *; [exact B|].
  pose proof (asc_head _ _ _ A) as [A1 [A2 A3]]. cbn [tys_ascending]. rewrite A2, (IH _ _ A3 B).
  destruct (Z.ltb_spec lo (e_ty e)); [|lia]. destruct (Z.ltb_spec (e_ty e) (2 ^ 64)); [|lia]. reflexivity.
Qed.

(** the value an absent optional field reads as *)
Definition absent_value (e : entry) : option fv :=
  match e_kind e with KOptVec => Some [] | KDefault d => Some d | _ => None end.

Section WithOracle.
Variable pk : bytes -> bool.

(** FORWARD COMPATIBILITY of the old reader: a writer that ADDS an odd TLV [e] anywhere in the schema
    (as eef008b did) is still read by the OLD schema, with the same values for all old fields. *)
Theorem odd_extension_old_reader es1 e es2 v1 ov v2 :
  tlvs_wf (es1 ++ e :: es2) = true -> e_ty e mod 2 = 1 ->
  tlv_dom pk es1 v1 = true -> entry_dom pk e ov = true -> tlv_dom pk es2 v2 = true ->
  tlv_dec pk (es1 ++ es2) (tlv_enc (es1 ++ e :: es2) (v1 ++ ov :: v2)) = ROk (v1 ++ v2).
Proof.
  intros W O D1 De D2. destruct (asc_app _ _ _ W) as [W1 W2]. pose proof (asc_head _ _ _ W2) as [T [F A2]].
  assert (Wold : tlvs_wf (es1 ++ es2) = true).
  { apply asc_join; [exact W1|]. apply (asc_weaken _ (e_ty e)); [lia|exact A2]. }
  rewrite tlv_enc_app by (apply tlv_dom_length with (pk_valid := pk); exact D1). cbn [tlv_enc].
  destruct (is_absent e ov) eqn:AB.
  - destruct (absent_spec pk _ _ AB De) as [S1 _]. rewrite S1. cbn [app].
    rewrite <- tlv_enc_app by (apply tlv_dom_length with (pk_valid := pk); exact D1).
    apply tlv_roundtrip; [exact Wold|apply tlv_dom_app; assumption].
  - destruct (present_spec pk _ _ AB De) as [v [-> [S1 [_ S3]]]]. rewrite S1.
    unfold Tlv.val_ok in S3. apply andb_true_iff in S3. destruct S3 as [_ PL]. apply Z.ltb_lt in PL.
    apply tlv_unknown_odd_ignored; try assumption; lia.
Qed.

(** BACKWARD COMPATIBILITY of the new reader: data written by the OLD schema reads under the new one,
    the added optional field taking its documented absent value (None / the empty vector). *)
Theorem old_data_new_reader es1 e es2 v1 v2 :
  tlvs_wf (es1 ++ e :: es2) = true -> (e_kind e = KOpt \/ e_kind e = KOptVec) ->
  tlv_dom pk es1 v1 = true -> tlv_dom pk es2 v2 = true ->
  tlv_dec pk (es1 ++ e :: es2) (tlv_enc (es1 ++ es2) (v1 ++ v2)) = ROk (v1 ++ absent_value e :: v2).
Proof.
  intros W K D1 D2.
  assert (L : List.length es1 = List.length v1) by (apply tlv_dom_length with (pk_valid := pk); exact D1).
  assert (E : entry_enc e (absent_value e) = [] /\ entry_dom pk e (absent_value e) = true).
  { unfold entry_enc, absent_value, Tlv.entry_dom. destruct K as [-> | ->]; split; reflexivity. }
  destruct E as [E1 E2].
  replace (tlv_enc (es1 ++ es2) (v1 ++ v2)) with (tlv_enc (es1 ++ e :: es2) (v1 ++ absent_value e :: v2)).
  2:{ rewrite !tlv_enc_app by exact L. cbn [tlv_enc]. rewrite E1. reflexivity. }
  apply tlv_roundtrip; [exact W|]. apply tlv_dom_app; [exact D1|]. cbn [Tlv.tlv_dom]. rewrite E2, D2. reflexivity.
Qed.

(** a REQUIRED field that the writer never reached is rejected (never a partially filled object) *)
Lemma missing_check_false es last : forall e, In e es -> is_req (e_kind e) = true -> lt_opt last (e_ty e) = true ->
  missing_check es last = false.
Proof.
  induction es as [|x es IH]; intros e I R L; [destruct I|]. cbn [missing_check].
  destruct I as [-> | I].
  - rewrite R, L. reflexivity.
  - destruct (is_req (e_kind x) && lt_opt last (e_ty x)); [reflexivity|]. apply (IH e); assumption.
Qed.

Theorem required_missing_rejected es1 e es2 v1 :
  tlvs_wf (es1 ++ e :: es2) = true -> e_kind e = KReq -> tlv_dom pk es1 v1 = true ->
  tlv_dec pk (es1 ++ e :: es2) (tlv_enc es1 v1) = RErr "InvalidValue".
Proof.
  intros W K D1. destruct (asc_app _ _ _ W) as [W1 W2]. pose proof (asc_head _ _ _ W2) as [T _].
  unfold Tlv.tlv_dec.
  destruct (loop_enc pk (es1 ++ e :: es2) es1 (e :: es2) v1 [] (-1) None [] (List.length (tlv_enc es1 v1)) []) as [last' [Q1 [Q2 _]]].
  - reflexivity.
  - lia.
  - exact W.
  - exact D1.
  - exact I.
  - intros d [].
  - intros d [].
  - rewrite app_nil_r. lia.
  - rewrite app_nil_r in Q1. rewrite Q1, tlv_loop_nil. cbn [rbind].
    rewrite (missing_check_false _ last' e); [reflexivity| | |].
    + apply in_or_app. right. left. reflexivity.
    + rewrite K. reflexivity.
    + destruct last'; cbn [last_le lt_opt] in *; [|reflexivity]. destruct (Z.ltb_spec z (e_ty e)); [reflexivity|lia].
Qed.

Corollary required_empty_stream_rejected es e : In e es -> e_kind e = KReq -> tlv_dec pk es [] = RErr "InvalidValue".
Proof.
  intros I K. unfold Tlv.tlv_dec. cbn [List.length]. rewrite tlv_loop_nil. cbn [rbind].
  rewrite (missing_check_false es None e I); [reflexivity|rewrite K; reflexivity|reflexivity].
Qed.

(** INJECTIVITY: the encoder reads every field from its own slot, so two states that differ in any
    field have different encodings; this is why a wrong-accessor write is observable. *)
Theorem tlv_enc_injective es a b : tlvs_wf es = true -> tlv_dom pk es a = true -> tlv_dom pk es b = true ->
  tlv_enc es a = tlv_enc es b -> a = b.
Proof.
  intros W Da Db E. pose proof (tlv_roundtrip pk es a W Da) as Ra. pose proof (tlv_roundtrip pk es b W Db) as Rb.
  rewrite E in Ra. rewrite Ra in Rb. inversion Rb. reflexivity.
Qed.
Theorem suffix_enc_injective es a b : tlvs_wf es = true -> tlv_dom pk es a = true -> tlv_dom pk es b = true ->
  len (tlv_enc es a) < 2 ^ 64 -> len (tlv_enc es b) < 2 ^ 64 ->
  suffix_enc es a = suffix_enc es b -> a = b.
Proof.
  intros W Da Db La Lb E. pose proof (suffix_roundtrip pk es a [] W Da La) as Ra. pose proof (suffix_roundtrip pk es b [] W Db Lb) as Rb.
  rewrite !app_nil_r in *. rewrite E in Ra. rewrite Ra in Rb. inversion Rb. reflexivity.
Qed.

End WithOracle.

(** instantiation on the regenerated schemas: any split [es1 ++ es2] of any persistence schema and any
    new odd entry that fits between the two halves *)
Lemma persist_odd_extension pk name es1 es2 e v1 ov v2 :
  In (name, es1 ++ es2) persist_schemas ->
  e_ty e mod 2 = 1 -> hi (-1) es1 < e_ty e < 2 ^ 64 -> tys_ascending (e_ty e) es2 = true -> fc_wf (e_fc e) = true ->
  tlv_dom pk es1 v1 = true -> entry_dom pk e ov = true -> tlv_dom pk es2 v2 = true ->
  tlv_dec pk (es1 ++ es2) (tlv_enc (es1 ++ e :: es2) (v1 ++ ov :: v2)) = ROk (v1 ++ v2) /\
  ((e_kind e = KOpt \/ e_kind e = KOptVec) ->
   tlv_dec pk (es1 ++ e :: es2) (tlv_enc (es1 ++ es2) (v1 ++ v2)) = ROk (v1 ++ absent_value e :: v2)).
Proof.
  intros I O T A2 F D1 De D2.
  pose proof persist_schemas_wf as W. rewrite forallb_forall in W. specialize (W _ I). cbn [snd] in W.
  destruct (asc_app _ _ _ W) as [W1 _].
  assert (Wnew : tlvs_wf (es1 ++ e :: es2) = true).
  { apply asc_join; [exact W1|]. cbn [tys_ascending]. rewrite F, A2.
    destruct (Z.ltb_spec (hi (-1) es1) (e_ty e)); [|lia]. destruct (Z.ltb_spec (e_ty e) (2 ^ 64)); [|lia]. reflexivity. }
  split; [apply odd_extension_old_reader; assumption|]. intros K. apply old_data_new_reader; assumption.
Qed.

(** ------------------------------------------------------------------ version prefix *)
Lemma ver_roundtrip supported ver min_ver r : min_ver <= supported ->
  ver_dec supported (ver_enc ver min_ver ++ r) = ROk (ver, r).
Proof.
  intros H. unfold ver_dec, ver_enc. cbn [app]. rewrite !read_u1_cons. cbn [rbind].
  rewrite read_u1_cons. cbn [rbind]. destruct (Z.ltb_spec supported min_ver); [lia|reflexivity].
Qed.
Lemma ver_too_new_rejected supported ver min_ver r : supported < min_ver ->
  ver_dec supported (ver :: min_ver :: r) = RErr "UnknownVersion".
Proof.
  intros H. unfold ver_dec. rewrite read_u1_cons. cbn [rbind]. rewrite read_u1_cons. cbn [rbind].
  destruct (Z.ltb_spec supported min_ver); [reflexivity|lia].
Qed.
Lemma ver_truncated supported b : len b < 2 -> ver_dec supported b = RErr "ShortRead".
Proof.
  intros H. unfold ver_dec. destruct b as [|x [|y t]].
  - reflexivity.
  - rewrite read_u1_cons. cbn [rbind]. reflexivity.
  - rewrite !len_cons in H. pose proof (len_nonneg t). lia.
Qed.

Definition version_ok (p : string * Z * Z) : bool := let '(_, v, m) := p in (0 <=? m) && (m <=? v) && (v <? 256).
Lemma persist_versions_ok : forallb version_ok persist_versions = true.
Proof. vm_compute. reflexivity. Qed.
Lemma persist_version_prefix name v m : In (name, v, m) persist_versions ->
  (forall r, ver_dec v (ver_enc v m ++ r) = ROk (v, r)) /\
  (forall ver' min' r, v < min' -> ver_dec v (ver' :: min' :: r) = RErr "UnknownVersion").
Proof.
  intros I. pose proof persist_versions_ok as W. rewrite forallb_forall in W. specialize (W _ I). unfold version_ok in W.
  apply andb_true_iff in W. destruct W as [W _]. apply andb_true_iff in W. destruct W as [_ W]. apply Z.leb_le in W.
  split; [intros r; apply ver_roundtrip; exact W|intros; apply ver_too_new_rejected; assumption].
Qed.

(** ------------------------------------------------------------------ default_value fields
    A [(default_value, d)] field that is ABSENT from the stream reads as exactly [d].  Route: the loop
    treats a default_value entry like an option entry (same type, same codec, not required); only the
    final struct-building step differs. *)
Definition relax_kind (k : kind) : kind := match k with KDefault _ => KOpt | k' => k' end.
Definition relax (e : entry) : entry := mk_entry (e_ty e) (relax_kind (e_kind e)) (e_fc e).
Definition fill (e : entry) (ov : option fv) : option fv :=
  match e_kind e, ov with KDefault d, None => Some d | _, _ => ov end.
Definition fill_all (es : list entry) (vals : list (option fv)) : list (option fv) :=
  map (fun p => fill (fst p) (snd p)) (combine es vals).

Lemma is_req_relax k : is_req (relax_kind k) = is_req k.
Proof. destruct k; reflexivity. Qed.
Lemma find_entry_relax es t : find_entry (map relax es) t = option_map relax (find_entry es t).
Proof.
  induction es as [|e es IH]; cbn [map find_entry option_map]; [reflexivity|].
  cbn [relax e_ty]. destruct (e_ty e =? t); [reflexivity|exact IH].
Qed.
Lemma order_check_relax es last typ : order_check (map relax es) last typ = order_check es last typ.
Proof.
  induction es as [|e es IH]; cbn [map order_check]; [reflexivity|].
  cbn [relax e_ty e_kind]. rewrite is_req_relax, IH. reflexivity.
Qed.
Lemma missing_check_relax es last : missing_check (map relax es) last = missing_check es last.
Proof.
  induction es as [|e es IH]; cbn [map missing_check]; [reflexivity|].
  cbn [relax e_ty e_kind]. rewrite is_req_relax, IH. reflexivity.
Qed.
Lemma asc_relax es : forall lo, tys_ascending lo (map relax es) = tys_ascending lo es.
Proof. induction es as [|e es IH]; intros lo; cbn [map tys_ascending]; [reflexivity|]. cbn [relax e_ty e_fc]. rewrite IH. reflexivity. Qed.
Lemma entry_enc_relax e ov : entry_enc (relax e) ov = entry_enc e ov.
Proof. unfold entry_enc. cbn [relax e_kind e_ty e_fc]. destruct (e_kind e), ov as [[|x v]|]; reflexivity. Qed.
Lemma tlv_enc_relax es : forall vals, tlv_enc (map relax es) vals = tlv_enc es vals.
Proof.
  induction es as [|e es IH]; intros [|v vals]; cbn [map tlv_enc]; try reflexivity. rewrite entry_enc_relax, IH. reflexivity.
Qed.

Lemma tlv_loop_relax pk es : forall fuel last acc b,
  tlv_loop pk (map relax es) fuel last acc b = tlv_loop pk es fuel last acc b.
Proof.
  induction fuel as [|fuel IH]; intros last acc b.
  - destruct b; reflexivity.
  - destruct b as [|x t]; [reflexivity|].
    rewrite !(tlv_loop_S pk) by discriminate. unfold tlv_body.
    destruct (bigsize_dec (x :: t)) as [[typ r1]|e]; cbn [rbind]; [|reflexivity].
    rewrite order_check_relax.
    destruct (negb (lt_opt last typ)); [reflexivity|]. destruct (negb (order_check es last typ)); [reflexivity|].
    destruct (bigsize_dec r1) as [[lenv r2]|e]; cbn [rbind]; [|reflexivity].
    rewrite find_entry_relax. destruct (find_entry es typ) as [e|]; cbn [option_map].
    + cbn [relax e_fc]. destruct (fdec pk (e_fc e) (ztake lenv r2)) as [[v lft]|e0]; cbn [rbind]; [|reflexivity].
      destruct (len (ztake lenv r2) - len lft =? lenv); [apply IH|reflexivity].
    + destruct (typ mod 2 =? 0); [reflexivity|]. destruct (len r2 <? lenv); [reflexivity|apply IH].
Qed.

Lemma field_of_relax acc e : field_of acc e = fill e (field_of acc (relax e)).
Proof.
  unfold field_of, fill. cbn [relax e_kind e_ty]. destruct (e_kind e); cbn [relax_kind]; destruct (lookup acc (e_ty e)); reflexivity.
Qed.
Lemma fill_all_map es (g : entry -> option fv) : map (fun e => fill e (g e)) es = fill_all es (map g es).
Proof. unfold fill_all. induction es as [|e es IH]; cbn [map combine fst snd]; [reflexivity|]. rewrite IH. reflexivity. Qed.

Theorem default_value_roundtrip pk es vals : tlvs_wf es = true -> tlv_dom pk (map relax es) vals = true ->
  tlv_dec pk es (tlv_enc es vals) = ROk (fill_all es vals).
Proof.
  intros W D.
  assert (R : tlv_dec pk (map relax es) (tlv_enc es vals) = ROk vals).
  { rewrite <- tlv_enc_relax. apply tlv_roundtrip; [unfold tlvs_wf; rewrite asc_relax; exact W|exact D]. }
  unfold Tlv.tlv_dec in *. rewrite tlv_loop_relax in R.
  destruct (tlv_loop pk es (List.length (tlv_enc es vals)) None [] (tlv_enc es vals)) as [[acc last]|e]; cbn [rbind] in *; [|discriminate].
  rewrite missing_check_relax in R. destruct (missing_check es last); [|discriminate].
  inversion R as [E]. f_equal. rewrite map_map.
  rewrite <- (fill_all_map es (fun e => field_of acc (relax e))).
  apply map_ext. intros e. apply field_of_relax.
Qed.

(** on the regenerated schemas *)
Lemma persist_default_roundtrip pk name es vals : In (name, es) persist_schemas ->
  tlv_dom pk (map relax es) vals = true -> tlv_dec pk es (tlv_enc es vals) = ROk (fill_all es vals).
Proof.
  intros I D. apply default_value_roundtrip; [|exact D].
  pose proof persist_schemas_wf as W. rewrite forallb_forall in W. apply (W _ I).
Qed.

(** ------------------------------------------------------------------ whole objects of the simple class *)
Theorem prefixed_object_roundtrip pk supported ver min_ver l es vs vals rest :
  min_ver <= supported -> seq_dom pk l vs = true -> tlvs_wf es = true -> tlv_dom pk es vals = true ->
  len (tlv_enc es vals) < 2 ^ 64 ->
  obj_dec pk supported l es (obj_enc ver min_ver l es vs vals ++ rest) = ROk (ver, vs, vals, rest).
Proof.
  intros V Ds W D L. unfold obj_dec, obj_enc. rewrite <- !app_assoc.
  rewrite ver_roundtrip by exact V. cbn [rbind].
  rewrite (seq_rt pk) by exact Ds. cbn [rbind].
  rewrite (suffix_roundtrip pk) by assumption. reflexivity.
Qed.
Theorem prefixed_object_version_rejected pk supported ver min_ver l es r : supported < min_ver ->
  obj_dec pk supported l es (ver :: min_ver :: r) = RErr "UnknownVersion".
Proof. intros H. unfold obj_dec. rewrite ver_too_new_rejected by exact H. reflexivity. Qed.
