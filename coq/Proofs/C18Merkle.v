(** C18, BOLT 12: the merkle root of [offers/merkle.rs] commits to the list of non-signature TLV
    records.  For a collision-free, 32-byte-valued hash [H] (explicit hypotheses), two record lists
    with strictly ascending types that have the same root have the same non-signature records.

    Shape of the argument.  Every hash in the tree is [H (T ‖ T ‖ x ‖ y)] with [T = H "LnBranch"]
    and the children in ascending order, so equal hashes give equal *unordered* child pairs.  A
    per-record hash (children: an "LnLeaf" hash and an "LnNonce" hash) can never equal an inner
    node (children: two "LnBranch" hashes) because the tags differ, which also separates trees of
    different size.  Hence equal roots give equal multisets of records; strictly ascending types
    turn the multiset into the list. *)
Require Import LdkV.Prim.U64 LdkV.Model.Bolt12Merkle.
Require Import Coq.Sorting.Permutation Coq.Sorting.Sorted.
Open Scope Z_scope.

(** * List facts *)

Lemma app_inj_len {A} (a : list A) : forall b c d,
  List.length a = List.length c -> a ++ b = c ++ d -> a = c /\ b = d.
Proof.
  induction a as [|x a IH]; intros b c d Hl He; destruct c as [|y c]; cbn in Hl; try lia.
  - split; [reflexivity | exact He].
  - cbn [app] in He. inversion He; subst. destruct (IH b c d ltac:(lia) H1) as [-> ->]. split; reflexivity.
Qed.

Section MerkleProof.
  Variable H : bytes -> bytes.
  Hypothesis H_len : forall m, List.length (H m) = 32%nat.
  Hypothesis H_inj : forall a b, H a = H b -> a = b.

  Notation tagged := (tagged H).
  Notation leaf_tag := (leaf_tag H).
  Notation branch_tag := (branch_tag H).
  Notation nonce_tag := (nonce_tag H).
  Notation leaf_hash := (leaf_hash H).
  Notation nonce_hash := (nonce_hash H).
  Notation branch := (branch H).
  Notation per_tlv := (per_tlv H).

  Lemma tagged_inj t m t' m' :
    List.length t = List.length t' -> tagged t m = tagged t' m' -> t = t' /\ m = m'.
  Proof.
    intros Hl He. unfold Bolt12Merkle.tagged in He. apply H_inj in He.
    destruct (app_inj_len t _ t' _ Hl He) as [-> He2].
    destruct (app_inj_len t' _ t' _ eq_refl He2) as [_ ->]. split; reflexivity.
  Qed.

  Lemma tagged_len t m : List.length (tagged t m) = 32%nat.
  Proof. apply H_len. Qed.

  Lemma leaf_ne_branch : leaf_tag <> branch_tag.
  Proof. unfold Bolt12Merkle.leaf_tag, Bolt12Merkle.branch_tag. intros He. apply H_inj in He. discriminate He. Qed.

  Lemma leaf_ne_nonce f : leaf_tag <> nonce_tag f.
  Proof. unfold Bolt12Merkle.leaf_tag, Bolt12Merkle.nonce_tag. intros He. apply H_inj in He. discriminate He. Qed.

  Lemma tag_len_leaf : List.length leaf_tag = 32%nat. Proof. apply H_len. Qed.
  Lemma tag_len_branch : List.length branch_tag = 32%nat. Proof. apply H_len. Qed.
  Lemma tag_len_nonce f : List.length (nonce_tag f) = 32%nat. Proof. apply H_len. Qed.

  (** equal branch hashes: equal unordered pairs of children *)
  Lemma branch_eq a b c d :
    List.length a = 32%nat -> List.length b = 32%nat -> List.length c = 32%nat -> List.length d = 32%nat ->
    branch a b = branch c d -> (a = c /\ b = d) \/ (a = d /\ b = c).
  Proof.
    intros La Lb Lc Ld He. unfold Bolt12Merkle.branch in He.
    apply tagged_inj in He; [|reflexivity]. destruct He as [_ He].
    destruct (lex_lt a b), (lex_lt c d).
    - destruct (app_inj_len a b c d ltac:(lia) He) as [-> ->]. left. split; reflexivity.
    - destruct (app_inj_len a b d c ltac:(lia) He) as [-> ->]. right. split; reflexivity.
    - destruct (app_inj_len b a c d ltac:(lia) He) as [-> ->]. right. split; reflexivity.
    - destruct (app_inj_len b a d c ltac:(lia) He) as [-> ->]. left. split; reflexivity.
  Qed.

  Lemma branch_len a b : List.length (branch a b) = 32%nat.
  Proof. apply H_len. Qed.

  (** every branch hash is a [branch_tag]-tagged hash *)
  Lemma branch_form a b : exists m, branch a b = tagged branch_tag m.
  Proof. unfold Bolt12Merkle.branch. eexists. reflexivity. Qed.

  (** * Trees *)

  Inductive tree := TLeaf (r : bytes) | TNode (a b : tree).

  (** [f] is the first record of the stream (it determines the nonce tag). *)
  Fixpoint thash (f : bytes) (t : tree) : bytes :=
    match t with
    | TLeaf r => per_tlv (nonce_tag f) r
    | TNode a b => branch (thash f a) (thash f b)
    end.
  Fixpoint trecs (t : tree) : list bytes :=
    match t with TLeaf r => [r] | TNode a b => trecs a ++ trecs b end.

  Lemma thash_len f t : List.length (thash f t) = 32%nat.
  Proof. destruct t; apply H_len. Qed.

  Lemma thash_form f t : exists m, thash f t = tagged branch_tag m.
  Proof. destruct t; cbn [thash]; [unfold Bolt12Merkle.per_tlv|]; apply branch_form. Qed.

  Lemma leaf_hash_not_tree f r t : leaf_hash r <> thash f t.
  Proof.
    destruct (thash_form f t) as [m Hm]. rewrite Hm. unfold Bolt12Merkle.leaf_hash. intros He.
    apply tagged_inj in He; [|rewrite tag_len_leaf, tag_len_branch; reflexivity].
    destruct He as [He _]. exact (leaf_ne_branch He).
  Qed.

  Lemma leaf_hash_not_nonce r f r' : leaf_hash r <> nonce_hash (nonce_tag f) r'.
  Proof.
    unfold Bolt12Merkle.leaf_hash, Bolt12Merkle.nonce_hash. intros He.
    apply tagged_inj in He; [|rewrite tag_len_leaf, tag_len_nonce; reflexivity].
    destruct He as [He _]. exact (leaf_ne_nonce f He).
  Qed.

  Lemma leaf_hash_inj r r' : leaf_hash r = leaf_hash r' -> r = r'.
  Proof.
    unfold Bolt12Merkle.leaf_hash. intros He. apply tagged_inj in He; [|reflexivity]. apply He.
  Qed.

  (** Equal tree hashes, possibly under different nonce tags: same records up to order. *)
  Lemma thash_perm t : forall f f' t', thash f t = thash f' t' -> Permutation (trecs t) (trecs t').
  Proof.
    induction t as [r | a IHa b IHb]; intros f f' t' He; destruct t' as [r' | a' b']; cbn [thash trecs] in *.
    - unfold Bolt12Merkle.per_tlv in He.
      apply branch_eq in He; try apply tagged_len.
      destruct He as [[Hl _] | [Hl _]].
      + apply leaf_hash_inj in Hl. subst. apply Permutation_refl.
      + exfalso. exact (leaf_hash_not_nonce _ _ _ Hl).
    - unfold Bolt12Merkle.per_tlv in He.
      apply branch_eq in He; try apply tagged_len; try apply thash_len.
      destruct He as [[Hl _] | [Hl _]]; exfalso; exact (leaf_hash_not_tree _ _ _ Hl).
    - unfold Bolt12Merkle.per_tlv in He. symmetry in He.
      apply branch_eq in He; try apply tagged_len; try apply thash_len.
      destruct He as [[Hl _] | [Hl _]]; exfalso; exact (leaf_hash_not_tree _ _ _ Hl).
    - apply branch_eq in He; try apply thash_len.
      destruct He as [[Ha Hb] | [Ha Hb]].
      + apply Permutation_app; [eapply IHa | eapply IHb]; eassumption.
      + eapply Permutation_trans; [|apply Permutation_app_comm].
        apply Permutation_app; [eapply IHa | eapply IHb]; eassumption.
  Qed.

  (** * The level-wise construction builds such a tree *)

  Fixpoint pair_upT (l : list tree) : list tree :=
    match l with
    | a :: b :: r => TNode a b :: pair_upT r
    | _ => l
    end.
  Fixpoint merkleT (fuel : nat) (l : list tree) (d : tree) : tree :=
    match fuel with
    | O => hd d l
    | S k => match l with
             | [x] => x
             | _ => merkleT k (pair_upT l) d
             end
    end.

  Lemma pair_up_ind (P : list tree -> Prop) :
    P [] -> (forall x, P [x]) -> (forall a b r, P r -> P (a :: b :: r)) -> forall l, P l.
  Proof.
    intros H0 H1 H2. fix IH 1. intros l. destruct l as [|a [|b r]]; [exact H0 | apply H1 | apply H2, IH].
  Qed.

  Lemma map_pair_upT f l : map (thash f) (pair_upT l) = pair_up H (map (thash f) l).
  Proof.
    induction l as [| x | a b r IH] using pair_up_ind; [reflexivity | reflexivity|].
    cbn [pair_upT map pair_up thash]. rewrite IH. reflexivity.
  Qed.

  Lemma recs_pair_upT l : List.concat (map trecs (pair_upT l)) = List.concat (map trecs l).
  Proof.
    induction l as [| x | a b r IH] using pair_up_ind; [reflexivity | reflexivity|].
    cbn [pair_upT map List.concat trecs]. rewrite IH, app_assoc. reflexivity.
  Qed.

  Lemma length_pair_upT l : (2 <= List.length l)%nat ->
    (1 <= List.length (pair_upT l) <= List.length l - 1)%nat.
  Proof.
    induction l as [| x | a b r IH] using pair_up_ind; cbn [List.length]; try lia.
    intros _. cbn [pair_upT List.length].
    destruct r as [|c [|e r']]; cbn [pair_upT List.length] in *; lia.
  Qed.

  Lemma merkleT_spec f d fuel : forall l,
    (1 <= List.length l)%nat -> (List.length l <= Nat.max 1 fuel)%nat ->
    thash f (merkleT fuel l d) = merkle H fuel (map (thash f) l) /\
    trecs (merkleT fuel l d) = List.concat (map trecs l).
  Proof.
    induction fuel as [|k IH]; intros l H1 H2.
    - destruct l as [|x [|y r]]; cbn [List.length] in *; try lia.
      cbn [merkleT merkle hd map List.concat]. rewrite app_nil_r. split; reflexivity.
    - destruct l as [|x [|y r]]; cbn [List.length] in *; try lia.
      + cbn [merkleT merkle map List.concat]. rewrite app_nil_r. split; reflexivity.
      + cbn [merkleT map merkle].
        pose proof (length_pair_upT (x :: y :: r) ltac:(cbn [List.length]; lia)) as Hl.
        cbn [List.length] in Hl.
        destruct (IH (pair_upT (x :: y :: r)) ltac:(lia) ltac:(lia)) as [Ha Hb].
        rewrite Ha, Hb. rewrite map_pair_upT, recs_pair_upT. split; reflexivity.
  Qed.

  Lemma concat_trecs_leaves rs : List.concat (map trecs (map TLeaf rs)) = rs.
  Proof. induction rs as [|r rs IH]; [reflexivity|]. cbn [map List.concat trecs app]. rewrite IH. reflexivity. Qed.

  (** the root is the hash of a tree whose leaves are exactly the non-signature records *)
  Lemma root_hash_tree rs h : root_hash H rs = Some h ->
    exists f t, thash f t = h /\ trecs t = non_sig rs.
  Proof.
    unfold root_hash. destruct rs as [|first rest]; [discriminate|]. cbv zeta.
    set (ns := non_sig (first :: rest)).
    destruct ns as [|n0 ns'] eqn:E; [discriminate|].
    cbn [map]. intros Hs. inversion Hs as [Hh]. clear Hs.
    exists first, (merkleT (List.length (n0 :: ns')) (map TLeaf (n0 :: ns')) (TLeaf n0)).
    destruct (merkleT_spec first (TLeaf n0) (List.length (n0 :: ns')) (map TLeaf (n0 :: ns'))) as [Ha Hb].
    - rewrite map_length. cbn [List.length]. lia.
    - rewrite map_length. lia.
    - rewrite Ha, Hb, concat_trecs_leaves. split; [|reflexivity].
      rewrite map_map. cbn [thash]. cbn [map List.length]. rewrite map_length. reflexivity.
  Qed.

  (** * From multiset to list: strictly ascending types *)

  Definition ty_lt (a b : bytes) : Prop := ty_of a < ty_of b.

  Lemma ascending_head a l : ascending (a :: l) = true -> Forall (fun b => a < b) l.
  Proof.
    revert a. induction l as [|b l IH]; intros a Ha; [constructor|].
    cbn [ascending] in Ha. apply andb_true_iff in Ha. destruct Ha as [Hab Hl].
    constructor; [lia|]. apply IH in Hl. eapply Forall_impl; [|exact Hl]. cbv beta. intros; lia.
  Qed.

  Lemma ascending_sorted rs : ascending (map ty_of rs) = true -> StronglySorted ty_lt rs.
  Proof.
    induction rs as [|a rs IH]; intros Ha; [constructor|].
    constructor.
    - apply IH. cbn [map ascending] in Ha. destruct (map ty_of rs) eqn:E; [reflexivity|].
      apply andb_true_iff in Ha. apply Ha.
    - cbn [map] in Ha. apply ascending_head in Ha. rewrite Forall_map in Ha. exact Ha.
  Qed.

  Lemma sorted_filter p rs : StronglySorted ty_lt rs -> StronglySorted ty_lt (filter p rs).
  Proof.
    induction 1 as [|a l Hs IH Hf]; [constructor|]. cbn [filter]. destruct (p a); [|exact IH].
    constructor; [exact IH|]. rewrite Forall_forall in *. intros x Hx. apply filter_In in Hx. apply Hf, Hx.
  Qed.

  Lemma perm_sorted_eq l : forall l', Permutation l l' ->
    StronglySorted ty_lt l -> StronglySorted ty_lt l' -> l = l'.
  Proof.
    induction l as [|a l IH]; intros l' Hp Hs Hs'.
    - apply Permutation_nil in Hp. subst. reflexivity.
    - destruct l' as [|b l']; [apply Permutation_sym, Permutation_nil in Hp; discriminate|].
      inversion Hs as [|? ? Hsl Hfa]; subst. inversion Hs' as [|? ? Hsl' Hfb]; subst.
      assert (Hab : a = b).
      { pose proof (Permutation_in a Hp (or_introl eq_refl)) as Hin.
        pose proof (Permutation_in b (Permutation_sym Hp) (or_introl eq_refl)) as Hin'.
        destruct Hin as [Hin|Hin]; [symmetry; exact Hin|].
        destruct Hin' as [Hin'|Hin']; [exact Hin'|].
        rewrite Forall_forall in Hfa, Hfb. pose proof (Hfb a Hin). pose proof (Hfa b Hin').
        unfold ty_lt in *. lia. }
      subst b. f_equal. apply IH; [eapply Permutation_cons_inv; exact Hp | exact Hsl | exact Hsl'].
  Qed.

  (** * The theorem *)
  Lemma merkle_injective rs rs' h :
    ascending (map ty_of rs) = true -> ascending (map ty_of rs') = true ->
    root_hash H rs = Some h -> root_hash H rs' = Some h ->
    non_sig rs = non_sig rs'.
  Proof.
    intros Ha Ha' Hr Hr'.
    destruct (root_hash_tree rs h Hr) as [f [t [Ht Hrecs]]].
    destruct (root_hash_tree rs' h Hr') as [f' [t' [Ht' Hrecs']]].
    rewrite <- Ht' in Ht. apply thash_perm in Ht. rewrite Hrecs, Hrecs' in Ht.
    apply perm_sorted_eq; [exact Ht | |]; unfold non_sig; apply sorted_filter, ascending_sorted; assumption.
  Qed.

  (** The signed digest commits to the tag (message kind) and to the root. *)
  Lemma sig_digest_inj tag root tag' root' :
    sig_digest H tag root = sig_digest H tag' root' -> tag = tag' /\ root = root'.
  Proof.
    unfold sig_digest. intros He. apply tagged_inj in He; [|rewrite !H_len; reflexivity].
    destruct He as [Ht Hr]. apply H_inj in Ht. split; assumption.
  Qed.

  (** Any change inside a non-signature record of a signed stream changes the digest. *)
  Lemma digest_binds_records tag tag' rs rs' root root' :
    ascending (map ty_of rs) = true -> ascending (map ty_of rs') = true ->
    root_hash H rs = Some root -> root_hash H rs' = Some root' ->
    sig_digest H tag root = sig_digest H tag' root' ->
    tag = tag' /\ non_sig rs = non_sig rs'.
  Proof.
    intros Ha Ha' Hr Hr' Hd. apply sig_digest_inj in Hd. destruct Hd as [-> ->].
    split; [reflexivity|]. eapply merkle_injective; eassumption.
  Qed.
End MerkleProof.
