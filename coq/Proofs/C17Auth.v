(** C17 — authenticity: whatever the graph holds is backed by a delivered message whose
    signatures verify under the announced keys (invariant over all operation lists). *)
From stdpp Require Import gmap.
From Coq Require Import ZArith String Lia ZifyBool.
Require Import LdkV.Gen.GossipConsts LdkV.Model.Gossip LdkV.Model.GossipSpec.
Require Import LdkV.Proofs.C17Base LdkV.Proofs.C17Step.
Open Scope Z_scope.

Lemma verify_ann_None cf a s : verify_ann cf a s = None ↔ ann_authentic cf a s.
Proof.
  unfold verify_ann, ann_authentic. split.
  - intros H. repeat case_match; try done. split_and!; by apply negb_false_iff.
  - intros (->&->&->&->&->&->&->&->). done.
Qed.

(** ** What an accepted announcement does *)
Lemma add_chan_ok g scid ci us v g' :
  add_chan g scid ci us = (GOk v, g') →
  g_chans g' = <[scid := ci]> (g_chans g) ∧ nodes_shrink (g_nodes g) (g_nodes g') ∧
  g_rmc g' = g_rmc g ∧ g_rmn g' = g_rmn g.
Proof.
  unfold add_chan. destruct (g_chans g !! scid) as [old|].
  - destruct us; [|done]. intros [= _ <-]. simpl. split_and!; try done.
    eapply nodes_shrink_trans; [apply remove_in_nodes_shrink|].
    eapply nodes_shrink_trans; apply nodes_shrink_push.
  - intros [= _ <-]. simpl. split_and!; try done.
    eapply nodes_shrink_trans; apply nodes_shrink_push.
Qed.

Lemma chan_ann_accept cf g via sg a u now v g' :
  chan_ann_step cf g via sg a u now = (GOk v, g') →
  ca_n1 a < ca_n2 a ∧ ca_b1 a ≠ ca_b2 a ∧ ca_chain a = cfg_chain cf ∧
  (∀ s, sg = Some s → ann_authentic cf a s) ∧
  g_rmc g !! ca_scid a = None ∧ g_rmn g !! ca_n1 a = None ∧ g_rmn g !! ca_n2 a = None ∧
  ∃ cap v', utxo_value u = inr cap ∧
    add_chan g (ca_scid a)
      (Chan (ca_features a) (ca_n1 a) (ca_n2 a) cap None None
            (if (ca_excess a <=? MAX_EXCESS_BYTES_FOR_RELAY) && is_some_b sg
             then Some (ca_mid a) else None) now)
      (is_some_b cap) = (GOk v', g').
Proof.
  unfold chan_ann_step. destruct (pre_check cf g a u) as [e|] eqn:Hpre; [done|].
  destruct (match sg with Some s => verify_ann cf a s | None => None end) as [e|] eqn:Hver; [done|].
  destruct (ann_intern g a (is_some_b sg) u now) as [r g1] eqn:Hint.
  destruct r as [v1|e]; [|done]. intros Hres.
  assert (g1 = g') as -> by (by case_match; simplify_eq).
  assert (ca_n1 a < ca_n2 a ∧ ca_b1 a ≠ ca_b2 a ∧ ca_chain a = cfg_chain cf) as (H1 & H2 & H3).
  { unfold pre_check in Hpre. repeat case_match; try done; split_and!; lia. }
  split_and!; try done.
  - intros s ->. by apply verify_ann_None.
  - unfold ann_intern in Hint. destruct (g_rmc g !! ca_scid a); [done|done].
  - unfold ann_intern in Hint. destruct (g_rmc g !! ca_scid a); [done|].
    destruct (g_rmn g !! ca_n1 a); [done|done].
  - unfold ann_intern in Hint. destruct (g_rmc g !! ca_scid a); [done|].
    destruct (g_rmn g !! ca_n1 a); [done|]. destruct (g_rmn g !! ca_n2 a); [done|done].
  - unfold ann_intern in Hint. case_match; [done|].
    destruct (utxo_value u) as [e|cap]; [done|]. by exists cap, v1.
Qed.

Lemma node_intern_ok g m s v g' :
  node_intern g m s = (GOk v, g') →
  ∃ n, g_nodes g !! nm_nid m = Some n ∧
       (∀ a, n_ann n = Some a → na_ts a < nm_ts m) ∧
       g' = Graph (g_chans g)
              (<[nm_nid m := Node (n_chans n)
                   (Some (NAnn (nm_ts m) (nm_content m)
                            (if s && node_should_relay m then Some (nm_mid m) else None)))]>
                 (g_nodes g))
              (g_rmc g) (g_rmn g).
Proof.
  unfold node_intern. destruct (g_nodes g !! nm_nid m) as [n|]; [|done].
  destruct (n_ann n) as [a|] eqn:Ha.
  - destruct (nm_ts m <? na_ts a) eqn:H0; [done|]. destruct (na_ts a =? nm_ts m) eqn:H1; [done|].
    intros [= _ <-]. exists n. split_and!; try done. intros a' ?; simplify_eq. lia.
  - intros [= _ <-]. exists n. split_and!; try done. intros a' Ha'. congruence.
Qed.

Lemma node_ann_accept cf g via sg m v g' :
  node_ann_step cf g via sg m = (GOk v, g') →
  (∀ b, sg = Some b → b = true ∧ pk_ok cf (nm_nid m) = true) ∧
  ∃ v', node_intern g m (is_some_b sg) = (GOk v', g').
Proof.
  unfold node_ann_step. destruct sg as [b|].
  - case_match; [done|]. destruct (pk_ok cf (nm_nid m)) eqn:Hpk; [|done]. simpl.
    destruct b; [|done]. simpl.
    destruct (node_intern g m true) as [[v1|e] g1] eqn:Hint; [|done].
    intros Hres. assert (g1 = g') as -> by (by case_match; simplify_eq).
    split; [by intros ? [= <-]|]. by exists v1.
  - intros H. split; [done|]. by exists v.
Qed.

(** ** The invariant *)
Lemma justified_mono cf ops o :
  (∀ scid c, chan_justified cf ops scid c → chan_justified cf (ops ++ [o]) scid c) ∧
  (∀ scid c d ui, dir_justified cf ops scid c d ui → dir_justified cf (ops ++ [o]) scid c d ui) ∧
  (∀ nid a, nann_justified cf ops nid a → nann_justified cf (ops ++ [o]) nid a).
Proof.
  split_and!.
  - intros scid c [(via & sg & a & u & now & Hin & H)|(ts & Hin)].
    + left. exists via, sg, a, u, now. split; [apply elem_of_app; by left|done].
    + right. exists ts. apply elem_of_app; by left.
  - intros scid c d ui (via & sg & m & now & Hin & H). exists via, sg, m, now.
    split; [apply elem_of_app; by left|done].
  - intros nid a (via & sg & m & Hin & H). exists via, sg, m.
    split; [apply elem_of_app; by left|done].
Qed.

Lemma dir_justified_chan cf ops scid c c' d ui :
  c_one c' = c_one c → c_two c' = c_two c →
  dir_justified cf ops scid c d ui → dir_justified cf ops scid c' d ui.
Proof.
  intros H1 H2 (via & sg & m & now & ? & ? & ? & ? & ? & Hs). exists via, sg, m, now.
  split_and!; try done. intros s Hsg. unfold dir_node in *. rewrite H1, H2. by apply Hs.
Qed.

Lemma chan_justified_chan cf ops scid c c' :
  c_features c' = c_features c → c_one c' = c_one c → c_two c' = c_two c → c_cap c' = c_cap c →
  chan_justified cf ops scid c → chan_justified cf ops scid c'.
Proof.
  intros H0 H1 H2 H3 [(via & sg & a & u & now & ? & ? & ? & ? & ? & ? & ?)|(ts & Hin)].
  - left. exists via, sg, a, u, now. rewrite H0, H1, H2, H3. done.
  - right. exists ts. by rewrite H0, H1, H2, H3.
Qed.

Lemma dir_node_set_dir c d u d' : dir_node (set_dir c d u) d' = dir_node c d'.
Proof. unfold dir_node, set_dir. by destruct d, d'. Qed.

(** removal-type steps *)
Lemma authentic_shrink cf ops g g' :
  authentic cf ops g → g_shrink g g' → authentic cf ops g'.
Proof.
  intros [Hc Hn] [Hsc Hsn]. split.
  - intros scid c' Hc'. destruct (Hsc _ _ Hc') as (c & Hcc & (H0&H1&H2&H3&_&_&Hd)).
    destruct (Hc _ _ Hcc) as [Hj Hdj]. split.
    + by eapply chan_justified_chan.
    + intros d ui Hui. destruct (Hd d) as [Hnone|He]; [by rewrite Hnone in Hui|].
      rewrite He in Hui. eapply dir_justified_chan; [done..|]. by apply Hdj.
  - intros nid n' a Hn' Ha. destruct (Hsn _ _ Hn') as [Hnone|(n & Hnn & He)].
    + by rewrite Hnone in Ha.
    + rewrite He in Ha. by eapply Hn.
Qed.

Lemma authentic_weaken cf ops o g : authentic cf ops g → authentic cf (ops ++ [o]) g.
Proof.
  destruct (justified_mono cf ops o) as (M1 & M2 & M3).
  intros [Hc Hn]. split.
  - intros scid c Hcc. destruct (Hc _ _ Hcc) as [Hj Hd]. split; [by apply M1|].
    intros d ui Hui. apply M2. by apply Hd.
  - intros nid n a Hnn Ha. apply M3. by eapply Hn.
Qed.

Lemma authentic_add cf ops g scid ci us v g' :
  authentic cf ops g → c_12 ci = None → c_21 ci = None → chan_justified cf ops scid ci →
  add_chan g scid ci us = (GOk v, g') → authentic cf ops g'.
Proof.
  intros [Hc Hn] H12 H21 Hj (Hch & Hnd & _ & _)%add_chan_ok. split.
  - intros s c. rewrite Hch. intros [[<- <-]|[Hne Hcc]]%lookup_insert_Some.
    + split; [done|]. intros d ui. unfold chan_dir. destruct d; congruence.
    + by apply Hc.
  - intros nid n' a Hn' Ha. destruct (Hnd _ _ Hn') as [Hnone|(n & Hnn & He)].
    + by rewrite Hnone in Ha.
    + rewrite He in Ha. by eapply Hn.
Qed.

Lemma step_authentic cf ops g o :
  authentic cf ops g → authentic cf (ops ++ [o]) (step cf g o).2.
Proof.
  intros Hauth. pose proof (authentic_weaken cf ops o g Hauth) as Hauth'.
  assert (o ∈ ops ++ [o]) as Hin by (apply elem_of_app; right; apply elem_of_list_here).
  destruct (step cf g o) as [[v|e] g'] eqn:Hstep; simpl;
    [|by rewrite (step_err_unchanged _ _ _ _ _ Hstep)].
  destruct o as [via sg a u now|scid cap ts f n1 n2|via sg m now ov|via sg m|scid perm now|nid perm now|now|];
    simpl in Hstep.
  - apply chan_ann_accept in Hstep as (H1 & H2 & H3 & H4 & _ & _ & _ & cap & v' & Hu & Hadd).
    eapply authentic_add; [done| | | |done]; try done.
    left. exists via, sg, a, u, now. split_and!; done.
  - unfold partial_ann_step in Hstep. case_match; [done|].
    eapply authentic_add; [done| | | |done]; try done.
    right. exists ts. done.
  - destruct ov.
    + assert (g' = g) as ->; [|done].
      pose proof (verify_only_unchanged cf g via sg m now) as Hv. by rewrite Hstep in Hv.
    + apply chan_upd_accept in Hstep as (c & (Hc & _ & Hchain & _ & _ & _ & _ & Hsig) & ->).
      destruct Hauth' as [Hcs Hns]. split; [|done]. simpl.
      intros s c'. intros [[<- <-]|[Hne Hcc]]%lookup_insert_Some; [|by apply Hcs].
      destruct (Hcs _ _ Hc) as [Hj Hd]. split.
      * eapply chan_justified_chan; [..|done]; unfold set_dir; by case_match.
      * intros d ui Hui. destruct (decide (d = dir_is_two_to_one m)) as [->|Hne].
        -- assert (ui = upd_info_of m (is_some_b sg)) as ->.
           { unfold set_dir, chan_dir in Hui. destruct (dir_is_two_to_one m); simpl in Hui; congruence. }
           exists via, sg, m, now. split_and!; try done.
           intros s0 Hs0. destruct (Hsig _ Hs0) as [Hpk ->].
           rewrite dir_node_set_dir. done.
        -- assert (chan_dir c d = Some ui) as Hold.
           { unfold set_dir, chan_dir in *. destruct (dir_is_two_to_one m), d; simpl in *; done. }
           eapply dir_justified_chan; [..|by apply Hd]; unfold set_dir; by case_match.
  - apply node_ann_accept in Hstep as (Hsig & v' & Hint).
    apply node_intern_ok in Hint as (n & Hn & _ & ->).
    destruct Hauth' as [Hcs Hns]. split; [done|]. simpl.
    intros nid n' a' [[<- <-]|[Hne Hnn]]%lookup_insert_Some; [|by apply Hns].
    simpl. intros [= <-]. exists via, sg, m. split_and!; done.
  - injection Hstep as _ <-. destruct perm; [|done].
    eapply authentic_shrink; [done|apply remove_channel_shrink].
  - injection Hstep as _ <-. destruct perm; [|done].
    eapply authentic_shrink; [done|apply fail_node_shrink].
  - injection Hstep as _ <-. eapply authentic_shrink; [done|apply prune_shrink].
  - injection Hstep as _ <-. done.
Qed.

Lemma run_snoc cf g ops o : run cf g (ops ++ [o]) = (step cf (run cf g ops) o).2.
Proof. unfold run. by rewrite foldl_app. Qed.

Lemma init_authentic cf : authentic cf [] g_init.
Proof.
  split.
  - intros scid c Hc. simpl in Hc. by rewrite lookup_empty in Hc.
  - intros nid n a Hn. simpl in Hn. by rewrite lookup_empty in Hn.
Qed.

Lemma run_authentic cf ops : authentic cf ops (run cf g_init ops).
Proof.
  induction ops as [|o ops IH] using rev_ind; [apply init_authentic|].
  rewrite run_snoc. by apply step_authentic.
Qed.
