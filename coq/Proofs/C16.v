(** C16 — the route checker decides exactly the route specification. *)
Require Import LdkV.Prim.U64 LdkV.Prim.Rs2vLib LdkV.Gen.RouterFees LdkV.Model.RouteSpec.
Open Scope Z_scope.

(** ** Generic reflection lemmas *)
Lemma forallb_Forall {A} (p : A -> bool) (P : A -> Prop) (l : list A) :
  (forall x, p x = true <-> P x) -> (forallb p l = true <-> Forall P l).
Proof.
  intros H. induction l as [|x t IH]; simpl.
  - split; [constructor|reflexivity].
  - rewrite andb_true_iff, IH, H. split.
    + intros [? ?]. constructor; assumption.
    + intros HF. inversion HF; subst. split; assumption.
Qed.

Lemma existsb_Exists {A} (p : A -> bool) (P : A -> Prop) (l : list A) :
  (forall x, p x = true <-> P x) -> (existsb p l = true <-> Exists P l).
Proof.
  intros H. induction l as [|x t IH]; simpl.
  - split; [discriminate|intros HE; inversion HE].
  - rewrite orb_true_iff, IH, H. split.
    + intros [?|?]; [apply Exists_cons_hd|apply Exists_cons_tl]; assumption.
    + intros HE. inversion HE; subst; [left|right]; assumption.
Qed.

Lemma forallb2_Forall2 {A B} (p : A -> B -> bool) (P : A -> B -> Prop) l1 l2 :
  (forall x y, p x y = true <-> P x y) -> (forallb2 p l1 l2 = true <-> Forall2 P l1 l2).
Proof.
  intros H. revert l2. induction l1 as [|x t IH]; intros [|y t2]; simpl.
  - split; [constructor|reflexivity].
  - split; [discriminate|intros HF; inversion HF].
  - split; [discriminate|intros HF; inversion HF].
  - rewrite andb_true_iff, IH, H. split.
    + intros [? ?]. constructor; assumption.
    + intros HF. inversion HF; subst. split; assumption.
Qed.

Lemma sequence_Some {A} (l : list (option A)) (all : list A) :
  sequence l = Some all <-> l = List.map Some all.
Proof.
  revert all. induction l as [|[x|] t IH]; intros all; simpl.
  - split.
    + intros [= <-]. reflexivity.
    + destruct all; [reflexivity|discriminate].
  - destruct (sequence t) as [r|] eqn:Hs.
    + split.
      * intros [= <-]. simpl. f_equal. apply IH. reflexivity.
      * destruct all as [|y all']; [discriminate|]. simpl. intros [= -> Ht].
        apply IH in Ht. injection Ht as ->. reflexivity.
    + split; [discriminate|]. destruct all as [|y all']; [discriminate|]. simpl.
      intros [= -> Ht]. apply IH in Ht. discriminate.
  - split; [discriminate|]. destruct all; discriminate.
Qed.

Lemma mem_z_In x l : mem_z x l = true <-> In x l.
Proof.
  unfold mem_z. induction l as [|y t IH]; simpl.
  - split; [discriminate|intros []].
  - rewrite orb_true_iff, IH, Z.eqb_eq. split; intros [?|?]; auto.
Qed.

(** ** Clause by clause *)
Lemma kind_ok_iff q pos k : kind_ok_b q pos k = true <-> kind_ok q pos k.
Proof.
  destruct k; simpl.
  - apply Nat.eqb_eq.
  - rewrite orb_true_iff, !negb_true_iff, Nat.eqb_neq. reflexivity.
  - rewrite negb_true_iff, Nat.eqb_neq. reflexivity.
  - split; auto.
Qed.

Lemma not_excluded_iff q named e : not_excluded_b q named e = true <-> not_excluded q named e.
Proof.
  unfold not_excluded_b, not_excluded. destruct (is_blinded (e_kind e)).
  - rewrite negb_true_iff, <-not_true_iff_false, mem_z_In; reflexivity.
  - rewrite andb_true_iff, !negb_true_iff, <-!not_true_iff_false, !mem_z_In; reflexivity.
Qed.

Lemma usable_iff e : usable_b e = true <-> usable e.
Proof. unfold usable_b, usable. rewrite !andb_true_iff. tauto. Qed.

Lemma fee_ok_iff l : fee_ok_b l = true <-> fee_ok l.
Proof.
  unfold fee_ok_b, fee_ok. destruct (r_next l) as [[a f]|]; [|split; auto].
  destruct (compute_fees a f) as [req|].
  - rewrite Z.leb_le. split.
    + intros H. exists req. split; [reflexivity|assumption].
    + intros (req' & [= <-] & H). assumption.
  - split; [discriminate|]. intros (req' & H & _). discriminate.
Qed.

Lemma leg_ok_iff q l : leg_ok_b q l = true <-> leg_ok q l.
Proof.
  unfold leg_ok_b, leg_ok.
  rewrite !andb_true_iff, usable_iff, not_excluded_iff, kind_ok_iff, Z.leb_le, fee_ok_iff. tauto.
Qed.

Lemma raised_iff overpay l :
  ((r_amt l =? e_hmin (r_e l)) &&
   match r_next l with
   | Some (a, f) => match compute_fees a f with Some req => req <? r_fee l | None => false end
   | None => overpay
   end) = true <-> raised overpay l.
Proof.
  unfold raised. rewrite andb_true_iff, Z.eqb_eq.
  destruct (r_next l) as [[a f]|]; [|tauto].
  destruct (compute_fees a f) as [req|].
  - rewrite Z.ltb_lt. split.
    + intros [? ?]. split; [assumption|]. exists req. split; [reflexivity|assumption].
    + intros [? (req' & [= <-] & ?)]. split; assumption.
  - split; [intros [_ ?]; discriminate|]. intros [_ (req' & ? & _)]. discriminate.
Qed.

Lemma exempt_iff overpay later : exempt_b overpay later = true <-> exempt overpay later.
Proof. unfold exempt_b, exempt. apply existsb_Exists. intros l. apply raised_iff. Qed.

Lemma limit_ok_iff overpay all lt : limit_ok_b overpay all lt = true <-> limit_ok overpay all lt.
Proof.
  unfold limit_ok_b, limit_ok. rewrite orb_true_iff, andb_true_iff, exempt_iff, Z.leb_le.
  destruct (e_cap (r_e (fst lt))) as [c|].
  - rewrite Z.leb_le. reflexivity.
  - tauto.
Qed.

Lemma path_shape_ok_iff q p ls : path_shape_ok_b q p ls = true <-> path_shape_ok q p ls.
Proof.
  unfold path_shape_ok_b, path_shape_ok. rewrite !andb_true_iff, !Z.leb_le, negb_true_iff.
  assert ((match p_hops p with nil => true | _ => false end) = false <-> p_hops p <> nil) as ->.
  { destruct (p_hops p); split; try discriminate; auto. intros H. exfalso. apply H. reflexivity. }
  assert (match last_dst ls with Some d => d =? q_payee q | None => false end = true
          <-> last_dst ls = Some (q_payee q)) as ->.
  { destruct (last_dst ls) as [d|].
    - rewrite Z.eqb_eq. split; [intros ->; reflexivity|intros [= ->]; reflexivity].
    - split; discriminate. }
  tauto.
Qed.

(** ** The theorem *)
Theorem checker_exact g q r : route_check g q r = true <-> route_valid g q r.
Proof.
  unfold route_check, route_valid.
  destruct (sequence (List.map (resolve g q) r)) as [all|] eqn:Hseq.
  - apply sequence_Some in Hseq.
    set (total := sumz (List.map final_amt all)).
    set (overpay := q_value q <? total).
    split.
    + intros H. exists all. split; [assumption|]. fold total. fold overpay.
      rewrite !andb_true_iff in H.
      destruct H as [[[[[[[H1 H2] H3] H4] H5] H6] H7] H8].
      repeat split.
      * destruct r; [discriminate|]. discriminate.
      * apply Z.leb_le. assumption.
      * refine (proj1 (forallb2_Forall2 _ _ _ _ _) H3). intros. apply path_shape_ok_iff.
      * refine (proj1 (forallb_Forall _ _ _ _) H4). intros ls.
        apply forallb_Forall. intros l. apply leg_ok_iff.
      * refine (proj1 (forallb_Forall _ _ _ _) H5). intros lt. apply limit_ok_iff.
      * apply Z.leb_le. assumption.
      * refine (proj1 (forallb_Forall _ _ _ _) H7). intros ls. apply Z.ltb_lt.
      * destruct (q_max_fee q); [apply Z.leb_le; assumption|exact I].
    + intros (all' & Hall & H). rewrite Hseq in Hall.
      assert (all' = all) as ->.
      { clear -Hall. revert all' Hall. induction all as [|x t IH]; intros [|y t'] H; simpl in H;
          try discriminate; [reflexivity|]. injection H as -> Ht. f_equal. apply IH. assumption. }
      fold total in H. fold overpay in H.
      destruct H as (H1 & H2 & H3 & H4 & H5 & H6 & H7 & H8).
      rewrite !andb_true_iff. repeat split.
      * destruct r; [exfalso; apply H1; reflexivity|reflexivity].
      * apply Z.leb_le. assumption.
      * refine (proj2 (forallb2_Forall2 _ _ _ _ _) H3). intros. apply path_shape_ok_iff.
      * refine (proj2 (forallb_Forall _ _ _ _) H4). intros ls.
        apply forallb_Forall. intros l. apply leg_ok_iff.
      * refine (proj2 (forallb_Forall _ _ _ _) H5). intros lt. apply limit_ok_iff.
      * apply Z.leb_le. assumption.
      * refine (proj2 (forallb_Forall _ _ _ _) H7). intros ls. apply Z.ltb_lt.
      * destruct (q_max_fee q); [apply Z.leb_le; assumption|reflexivity].
  - split; [discriminate|]. intros (all & Hall & _).
    apply sequence_Some in Hall. rewrite Hall in Hseq. discriminate.
Qed.

(** ** The witness search only returns valid single-path routes *)
Require Import LdkV.Model.RouteWitness.
Theorem witness_sound g q fc p :
  single_path_witness g q fc = Some p -> route_valid g q (p :: nil).
Proof.
  unfold single_path_witness. destruct (search g q fc) as [p'|]; [|discriminate].
  destruct (route_check g q (p' :: nil)) eqn:Hc; [|discriminate].
  intros [= <-]. apply checker_exact. assumption.
Qed.

(** ** The judge the check runs: [route_diagnose] names the first failing clause, and is 0 exactly
    when the verified checker accepts *)
Lemma forallb2_andb {A} (p q : A -> bool) (all : list (list A)) :
  forallb (forallb (fun x => p x && q x)) all = forallb (forallb p) all && forallb (forallb q) all.
Proof.
  assert (forall l, forallb (fun x => p x && q x) l = forallb p l && forallb q l) as H1.
  { induction l as [|x t IH]; [reflexivity|]. simpl. rewrite IH.
    destruct (p x), (q x), (forallb p t), (forallb q t); reflexivity. }
  induction all as [|l t IH]; [reflexivity|]. simpl. rewrite IH, H1.
  destruct (forallb p l), (forallb q l), (forallb (forallb p) t), (forallb (forallb q) t); reflexivity.
Qed.

Theorem diagnose_zero_iff g q r : route_diagnose g q r = 0 <-> route_check g q r = true.
Proof.
  unfold route_diagnose, route_check.
  destruct (sequence (List.map (resolve g q) r)) as [all|]; [|split; discriminate].
  change (forallb (forallb (leg_ok_b q)) all) with
    (forallb (forallb (fun l => usable_b (r_e l) && not_excluded_b q (r_id l) (r_e l) &&
                                kind_ok_b q (r_pos l) (e_kind (r_e l)) && (e_hmin (r_e l) <=? r_amt l) && fee_ok_b l)) all).
  rewrite !forallb2_andb.
  set (total := sumz (List.map final_amt all)).
  set (overpay := q_value q <? total).
  generalize (match r with nil => true | _ => false end) as b2.
  generalize (Z.of_nat (List.length r) <=? q_max_paths q) as b3.
  generalize (forallb2 (path_shape_ok_b q) r all) as b4.
  generalize (forallb (forallb (fun l => usable_b (r_e l))) all) as b5.
  generalize (forallb (forallb (fun l => not_excluded_b q (r_id l) (r_e l))) all) as b6.
  generalize (forallb (forallb (fun l => kind_ok_b q (r_pos l) (e_kind (r_e l)))) all) as b7.
  generalize (forallb (forallb (fun l => e_hmin (r_e l) <=? r_amt l)) all) as b8.
  generalize (forallb (forallb fee_ok_b) all) as b9.
  generalize (forallb (limit_ok_b overpay all) (List.flat_map tails all)) as b10.
  generalize (q_value q <=? total) as b11.
  generalize (forallb (fun ls => total - final_amt ls <? q_value q) all) as b12.
  generalize (match q_max_fee q with
              | Some m => sumz (List.map path_fees all) + (total - q_value q) <=? m
              | None => true
              end) as b13.
  intros. destruct b2, b3, b4, b5, b6, b7, b8, b9, b10, b11, b12, b13; simpl; split; intros H;
    first [discriminate H | reflexivity].
Qed.

Theorem route_ok_sound g q r : route_ok g q r = true -> route_valid g q r.
Proof. apply checker_exact. Qed.

Theorem judge_sound g q r : route_diagnose g q r = 0 -> route_valid g q r.
Proof. intros H. apply checker_exact, diagnose_zero_iff, H. Qed.

Theorem judge_complete g q r : route_valid g q r -> route_diagnose g q r = 0.
Proof. intros H. apply diagnose_zero_iff, checker_exact, H. Qed.

(** what acceptance means hop by hop *)
Theorem route_ok_legs g q r :
  route_ok g q r = true ->
  exists all, List.map (resolve g q) r = List.map Some all /\
    1 <= Z.of_nat (List.length r) <= q_max_paths q /\
    q_value q <= sumz (List.map final_amt all) /\
    (forall ls l, In ls all -> In l ls ->
       usable (r_e l) /\ not_excluded q (r_id l) (r_e l) /\ kind_ok q (r_pos l) (e_kind (r_e l)) /\
       e_hmin (r_e l) <= r_amt l /\ fee_ok l) /\
    (forall p ls, In (p, ls) (List.combine r all) ->
       Z.of_nat (List.length (p_hops p)) <= q_max_len q /\
       sumz (List.map h_cltv (p_hops p)) <= q_max_cltv q /\ last_dst ls = Some (q_payee q)) /\
    match q_max_fee q with
    | Some m => sumz (List.map path_fees all) + (sumz (List.map final_amt all) - q_value q) <= m
    | None => True
    end.
Proof.
  intros H. apply route_ok_sound in H. destruct H as (all & Hres & Hne & Hcnt & Hshape & Hlegs & _ & Hval & _ & Hfee).
  exists all. split; [assumption|]. split.
  { split; [|assumption]. destruct r; [exfalso; apply Hne; reflexivity|]. simpl List.length. lia. }
  split; [assumption|]. split.
  { intros ls l Hls Hl. rewrite Forall_forall in Hlegs. specialize (Hlegs ls Hls).
    rewrite Forall_forall in Hlegs. exact (Hlegs l Hl). }
  split; [|assumption].
  clear -Hshape. induction Hshape as [|p ls r' all' Hp _ IH]; simpl; [intros ? ? []|].
  intros p0 ls0 [[= <- <-]|Hin]; [|apply IH; assumption].
  destruct Hp as (_ & Hd & Hl & Hc). repeat split; assumption.
Qed.
