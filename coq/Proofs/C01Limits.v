(** C01: the protocol's acceptance check ([get_next_commitment_stats], generated) implies the
    preconditions of the commitment builder, hence conservation for every commitment that passes it;
    [send_htlc]'s limit test against [get_available_balances]. *)
Require Import LdkV.Prim.U64 LdkV.Prim.Rs2vLib LdkV.Gen.Consts LdkV.Gen.ChanUtilsFees LdkV.Gen.TxBuilder
  LdkV.Model.CommitAmounts LdkV.Proofs.C01Amounts.
From Coq Require Import Permutation.
Open Scope Z_scope.

Definition dirs_out_msat (hs : list HTLCAmountDirection) : Z :=
  sum_z (filter_map (fun htlc => then_some (htlc_outbound htlc) (htlc_amount_msat htlc)) hs).
Definition dirs_in_msat (hs : list HTLCAmountDirection) : Z :=
  sum_z (filter_map (fun htlc => then_some (negb (htlc_outbound htlc)) (htlc_amount_msat htlc)) hs).
Definition dirs_nondust (local : bool) (fr dust : Z) (ct : ChannelTypeFeatures) (hs : list HTLCAmountDirection) : Z :=
  Z.of_nat (List.length (List.filter (fun htlc => negb (is_dust htlc local fr dust ct)) hs)).

(** The HTLCs as the builder gets them: offered = outbound from the holder on the holder's own
    commitment. *)
Fixpoint to_outs (local : bool) (i : Z) (hs : list HTLCAmountDirection) : list htlc_out :=
  match hs with
  | [] => []
  | h :: t => mkHtlcOut (Bool.eqb (htlc_outbound h) local) (htlc_amount_msat h) i :: to_outs local (i + 1) t
  end.

Lemma filter_map_then_some_sum (p : HTLCAmountDirection -> bool) hs :
  sum_z (filter_map (fun h => then_some (p h) (htlc_amount_msat h)) hs)
  = sum_z (map htlc_amount_msat (filter p hs)).
Proof.
  induction hs as [|h t IH]; [reflexivity|].
  unfold filter_map in *. cbn [flat_map filter]. unfold then_some at 1.
  destruct (p h); cbn [app map]; rewrite ?sum_z_cons; rewrite IH; reflexivity.
Qed.

Lemma to_outs_local_msat local i hs :
  htlcs_msat (filter (fun h => Bool.eqb (ho_offered h) local) (to_outs local i hs)) = dirs_out_msat hs.
Proof.
  unfold dirs_out_msat. rewrite filter_map_then_some_sum. revert i.
  induction hs as [|h t IH]; intros i; [reflexivity|].
  cbn [to_outs filter ho_offered]. unfold htlcs_msat in *.
  destruct (htlc_outbound h), local; cbn [Bool.eqb filter map ho_amount_msat]; rewrite ?sum_z_cons, IH; reflexivity.
Qed.

Lemma to_outs_remote_msat local i hs :
  htlcs_msat (filter (fun h => negb (Bool.eqb (ho_offered h) local)) (to_outs local i hs)) = dirs_in_msat hs.
Proof.
  unfold dirs_in_msat. rewrite filter_map_then_some_sum. revert i.
  induction hs as [|h t IH]; intros i; [reflexivity|].
  cbn [to_outs filter ho_offered]. unfold htlcs_msat in *.
  destruct (htlc_outbound h), local; cbn [Bool.eqb negb filter map ho_amount_msat]; rewrite ?sum_z_cons, IH; reflexivity.
Qed.

Lemma to_outs_length local i hs : List.length (to_outs local i hs) = List.length hs.
Proof. revert i. induction hs as [|h t IH]; intros i; cbn [to_outs List.length]; [reflexivity|]. rewrite IH. reflexivity. Qed.

Lemma to_outs_amounts local i hs :
  Forall (fun h => 0 <= htlc_amount_msat h) hs -> amounts_nonneg (to_outs local i hs).
Proof.
  intros H. revert i. induction H as [|h t Hh Ht IH]; intros i; cbn [to_outs]; constructor; [exact Hh | apply IH].
Qed.

(** Same number of non-dust HTLCs under the builder's dust test and under the generated [is_dust]. *)
Lemma to_outs_nondust ct local fr dust i hs :
  (ctf_supports_anchor_zero_fee_commitments ct = true -> fr = 0) ->
  Z.of_nat (List.length (filter (fun h => negb (h_is_dust ct fr dust h)) (to_outs local i hs)))
  = dirs_nondust local fr dust ct hs.
Proof.
  intros Hz. unfold dirs_nondust. revert i.
  induction hs as [|h t IH]; intros i; [reflexivity|].
  cbn [to_outs filter]. unfold h_is_dust at 1. cbn [ho_offered ho_amount_msat].
  rewrite (is_dust_agree ct local fr dust (htlc_outbound h) (htlc_amount_msat h) Hz).
  replace (mkHTLCAmountDirection (htlc_outbound h) (htlc_amount_msat h)) with h by (destruct h; reflexivity).
  destruct (is_dust h local fr dust ct); cbn [negb List.length]; rewrite ?Nat2Z.inj_succ, IH; reflexivity.
Qed.

Record stats_range (v s : Z) (hs : list HTLCAmountDirection) (addl fr dust : Z) : Prop := {
  sr_v : 0 <= v /\ v * 1000 < 2 ^ 64;
  sr_s : 0 <= s;
  sr_amts : Forall (fun h => 0 <= htlc_amount_msat h) hs;
  sr_addl : 0 <= addl <= 2 ^ 10;
  sr_fr : 0 <= fr < 2 ^ 32;
  sr_dust : 0 <= dust < 2 ^ 63;
  sr_len : Z.of_nat (List.length hs) <= 2 ^ 20
}.

(** What an [Ok] of [get_next_commitment_stats] (without fee spike) means. *)
Lemma stats_ok_spec local funder v s hs addl fr lim dust ct st :
  stats_range v s hs addl fr dust ->
  get_next_commitment_stats local funder v s hs addl fr false lim dust ct = ROk st ->
  let fee := commit_tx_fee_sat fr (dirs_nondust local fr dust ct hs + addl) ct in
  let anchors := total_anchors_sat ct in
  s <= v * 1000 /\ dirs_out_msat hs <= s /\ dirs_in_msat hs <= v * 1000 - s /\
  (if funder
   then anchors * 1000 + fee * 1000 <= s - dirs_out_msat hs /\
        ncs_holder_balance_msat st = s - dirs_out_msat hs - anchors * 1000 - fee * 1000 /\
        ncs_counterparty_balance_msat st = v * 1000 - s - dirs_in_msat hs
   else anchors * 1000 + fee * 1000 <= v * 1000 - s - dirs_in_msat hs /\
        ncs_holder_balance_msat st = s - dirs_out_msat hs /\
        ncs_counterparty_balance_msat st = v * 1000 - s - dirs_in_msat hs - anchors * 1000 - fee * 1000).
Proof.
  intros [Hv Hs Ham Haddl Hfr Hd Hlen] H. cbv zeta.
  unfold get_next_commitment_stats in H.
  fold (dirs_out_msat hs) in H. fold (dirs_in_msat hs) in H.
  unfold chk_sub, ok_or in H.
  destruct (Z.leb_spec s (v * 1000)) as [Hsv|]; [|discriminate].
  destruct (Z.leb_spec (dirs_out_msat hs) s) as [Ho|]; [|discriminate].
  destruct (Z.leb_spec (dirs_in_msat hs) (v * 1000 - s)) as [Hi|]; [|discriminate].
  rewrite sat_mul_anchors in H.
  assert (0 <= dirs_nondust local fr dust ct hs <= 2 ^ 20) as Hnd.
  { unfold dirs_nondust. pose proof (filter_length_le (fun htlc => negb (is_dust htlc local fr dust ct)) hs). lia. }
  set (fee := commit_tx_fee_sat fr (dirs_nondust local fr dust ct hs + addl) ct) in *.
  assert (0 <= fee) as Hfee0 by (apply commit_tx_fee_nonneg; lia).
  assert (fee * 1000 < 2 ^ 64) as Hfeeb.
  { unfold fee, commit_tx_fee_sat, COMMITMENT_TX_WEIGHT_PER_HTLC.
    pose proof (weights_pos ct) as (_ & _ & Hb & _).
    assert (fr * (commitment_tx_base_weight ct + (dirs_nondust local fr dust ct hs + addl) * 172) / 1000
            <= fr * (commitment_tx_base_weight ct + (dirs_nondust local fr dust ct hs + addl) * 172)) by
      (apply Z.div_le_upper_bound; nia).
    nia. }
  assert (sat_mul 64 fee 1000 = fee * 1000) as Hsm by (unfold sat_mul; lia).
  pose proof (total_anchors_vals ct) as HA.
  assert (0 <= total_anchors_sat ct * 1000) as HA0 by (rewrite HA; destruct (ctf_supports_anchors_zero_fee_htlc_tx ct); lia).
  unfold checked_sub_from_funder, chk_sub, ok_or in H.
  cbn [andb] in H.
  destruct funder.
  - destruct (Z.leb_spec (total_anchors_sat ct * 1000) (s - dirs_out_msat hs)) as [Ha|]; [|discriminate].
    destruct (get_dust_exposure_stats local hs fr lim dust ct) as [dexp extra].
    destruct (has_output true _ _ fr _ dust ct); cbn [negb] in H; [|discriminate].
    fold (dirs_nondust local fr dust ct hs) in H. fold fee in H. rewrite Hsm in H.
    destruct (Z.leb_spec (fee * 1000) (s - dirs_out_msat hs - total_anchors_sat ct * 1000)) as [Hf|]; [|discriminate].
    injection H as <-. cbn [ncs_holder_balance_msat ncs_counterparty_balance_msat].
    repeat split; lia.
  - destruct (Z.leb_spec (total_anchors_sat ct * 1000) (v * 1000 - s - dirs_in_msat hs)) as [Ha|]; [|discriminate].
    destruct (get_dust_exposure_stats local hs fr lim dust ct) as [dexp extra].
    destruct (has_output false _ _ fr _ dust ct); cbn [negb] in H; [|discriminate].
    fold (dirs_nondust local fr dust ct hs) in H. fold fee in H. rewrite Hsm in H.
    destruct (Z.leb_spec (fee * 1000) (v * 1000 - s - dirs_in_msat hs - total_anchors_sat ct * 1000)) as [Hf|]; [|discriminate].
    injection H as <-. cbn [ncs_holder_balance_msat ncs_counterparty_balance_msat].
    repeat split; lia.
Qed.

(** A commitment that passes the check can be built, conserves the channel value, and is not in the
    saturating branch: the funder pays the whole fee. *)
Lemma accepted_commitment_conserves local funder v s hs fr lim dust ct st :
  stats_range v s hs 0 fr dust -> ct_ok ct = true ->
  (ctf_supports_anchor_zero_fee_commitments ct = true -> fr = 0) ->
  get_next_commitment_stats local funder v s hs 0 fr false lim dust ct = ROk st ->
  let htlcs := to_outs local 0 hs in
  commit_pre ct local funder v s htlcs fr dust /\
  anchors_affordable ct local funder v s htlcs /\
  exists ca outs fee_paid,
    build_commitment ct local funder v s htlcs fr dust = Some ca /\
    commit_tx_outputs ct v (ca_to_broadcaster_sat ca) (ca_to_countersignatory_sat ca) (ca_nondust ca) = Some outs /\
    sum_z outs + fee_paid = v /\ 0 <= fee_paid /\
    ca_commit_tx_fee_sat ca <= funder_before_fee_sat funder ca /\
    (* what the check calls the balances is what the builder pays out, before dust zeroing *)
    pre_dust_values funder ca = (ncs_holder_balance_msat st / 1000, ncs_counterparty_balance_msat st / 1000).
Proof.
  intros Hr Hct Hz H. cbv zeta.
  pose proof (stats_ok_spec _ _ _ _ _ _ _ _ _ _ _ Hr H) as Hs. cbv zeta in Hs.
  destruct Hs as (Hsv & Ho & Hi & Hf).
  destruct Hr as [Hv Hs0 Ham Haddl Hfr Hd Hlen].
  assert (commit_pre ct local funder v s (to_outs local 0 hs) fr dust) as Hpre.
  { constructor; try assumption; try lia.
    - apply to_outs_amounts. exact Ham.
    - rewrite to_outs_local_msat. exact Ho.
    - rewrite to_outs_remote_msat. exact Hi.
    - rewrite to_outs_length. lia. }
  assert (anchors_affordable ct local funder v s (to_outs local 0 hs)) as Haff.
  { unfold anchors_affordable, funder_after_htlcs_msat. rewrite to_outs_local_msat, to_outs_remote_msat.
    assert (0 <= commit_tx_fee_sat fr (dirs_nondust local fr dust ct hs + 0) ct).
    { apply commit_tx_fee_nonneg; [lia|]. unfold dirs_nondust. lia. }
    destruct funder; lia. }
  split; [exact Hpre|]. split; [exact Haff|].
  destruct (build_commitment_some _ _ _ _ _ _ _ _ Hpre) as (ca & Hb & _ & Hnd & _ & Hfee).
  destruct (commit_tx_outputs_conserve _ _ _ _ _ _ _ _ _ Hpre Hb Haff) as (outs & fp & Ho' & Hsum & Hfp & _).
  exists ca, outs, fp. split; [exact Hb|]. split; [exact Ho'|]. split; [exact Hsum|]. split; [exact Hfp|].
  pose proof (build_commitment_inv _ _ _ _ _ _ _ _ _ Hpre Hb) as Hinv. cbv zeta in Hinv.
  destruct Hinv as (Hbal & Hfee0 & vs & vr & Epre & Hvs & _).
  rewrite to_outs_local_msat, to_outs_remote_msat in Hbal.
  assert (ca_commit_tx_fee_sat ca = commit_tx_fee_sat fr (dirs_nondust local fr dust ct hs + 0) ct) as Efee.
  { rewrite Hfee, Hnd, (to_outs_nondust ct local fr dust 0 hs Hz). f_equal. lia. }
  rewrite <- Efee in Hf.
  unfold funder_before_fee_sat. rewrite Epre.
  set (A := total_anchors_sat ct) in *. set (fee := ca_commit_tx_fee_sat ca) in *.
  destruct funder.
  - destruct Hbal as [El Er]. destruct Hvs as [Evs Evr]. destruct Hf as (Hf1 & Hh & Hc).
    assert (ca_local_balance_before_fee_msat ca = s - dirs_out_msat hs - A * 1000) as El' by lia.
    assert (fee <= ca_local_balance_before_fee_msat ca / 1000) as Hle.
    { apply Z.div_le_lower_bound; lia. }
    split; [exact Hle|].
    rewrite Evs, Evr, Hh, Hc, Er. f_equal.
    rewrite El'. replace (s - dirs_out_msat hs - A * 1000 - fee * 1000) with ((s - dirs_out_msat hs - A * 1000) + (- fee) * 1000) by lia.
    rewrite Z.div_add by lia. rewrite <- El'. lia.
  - destruct Hbal as [El Er]. destruct Hvs as [Evs Evr]. destruct Hf as (Hf1 & Hh & Hc).
    assert (ca_remote_balance_before_fee_msat ca = v * 1000 - s - dirs_in_msat hs - A * 1000) as Er' by lia.
    assert (fee <= ca_remote_balance_before_fee_msat ca / 1000) as Hle.
    { apply Z.div_le_lower_bound; lia. }
    split; [exact Hle|].
    rewrite Evs, Evr, Hh, Hc, El. f_equal.
    rewrite Er'. replace (v * 1000 - s - dirs_in_msat hs - A * 1000 - fee * 1000) with ((v * 1000 - s - dirs_in_msat hs - A * 1000) + (- fee) * 1000) by lia.
    rewrite Z.div_add by lia. rewrite <- Er'. lia.
Qed.

(** ** Witnesses of the two findings on the unchanged tree (see design/C01.md) *)

(** F2: the NON-funder's reported limit is not honoured by a funder peer. State of schedule
    [f1a] (anchors channel of 100000 sat, feerate 1000, zero reserves): the funder (node 0) has
    99000 sat of which 96871999 msat are in a committed outbound HTLC; node 1 owns 1000 sat.
    Node 1's [get_available_balances] (generated) reports limit = 1000000 >= minimum; once that HTLC
    is committed, node 0's forward-time check ([can_accept_incoming_htlc]: the generated
    [get_next_commitment_stats] on its own commitment with ONE additional fee-spike-buffer HTLC) is
    [Err], while the same check without the buffer HTLC is [Ok]. *)
Lemma limit_not_accepted_by_funder_peer_witness :
  let k := mkChannelConstraints 354 0 354 0 1 100000000 50 in
  let sender := get_channel_stats false false 100000 1000000 [mkHTLCAmountDirection false 96871999] 0 1000 false
                  (Some 1000) (1000 * 197628) k CT_Anchors in
  let receiver_htlcs := [mkHTLCAmountDirection false 1000000; mkHTLCAmountDirection true 96871999] in
  (exists st, sender = ROk st /\
     ab_next_outbound_htlc_limit_msat (cs_available_balances st) = 1000000 /\
     ab_next_outbound_htlc_minimum_msat (cs_available_balances st) <= 1000000) /\
  is_ok (get_next_commitment_stats true true 100000 99000000 receiver_htlcs 1 1000 false (Some 1000) 354 CT_Anchors) = false /\
  is_ok (get_next_commitment_stats true true 100000 99000000 receiver_htlcs 0 1000 false (Some 1000) 354 CT_Anchors) = true.
Proof.
  cbv zeta. split; [eexists; split; [vm_compute; reflexivity|]; vm_compute; split; [reflexivity|discriminate]|].
  split; vm_compute; reflexivity.
Qed.

(** F1: with the balances of schedule [f2b] (funder holds 1540 sat) the closing transaction for the
    funder's own minimum fee at 5000 sat/kw (3370 sat) cannot be built: [build_closing_transaction]
    errs where a cooperative close paying the affordable fee was possible. *)
Lemma coop_close_fee_above_funder_balance_witness :
  is_ok (build_closing true false 100000 1540000 3370 354) = false /\
  is_ok (build_closing true false 100000 1540000 1540 354) = true.
Proof. split; vm_compute; reflexivity. Qed.

(** ** The "keep at least one output" guard of the send limits *)

Lemma sat_mul_small a : 0 <= a -> a * 1000 < 2 ^ 64 -> sat_mul 64 a 1000 = a * 1000.
Proof. intros. unfold sat_mul. lia. Qed.

(** [has_output] only improves when the holder keeps more. *)
Lemma has_output_mono funder hb1 hb2 cb fr nd dust ct :
  hb1 <= hb2 -> has_output funder hb1 cb fr nd dust ct = true -> has_output funder hb2 cb fr nd dust ct = true.
Proof.
  unfold has_output, saturating_sub_from_funder, sat_sub. intros Hle.
  destruct funder.
  - destruct (Z.ltb_spec (Z.max 0 (hb1 - sat_mul 64 (commit_tx_fee_sat fr nd ct) 1000)) (dust * 1000)) as [H1|H1];
    destruct (Z.ltb_spec (Z.max 0 (hb2 - sat_mul 64 (commit_tx_fee_sat fr nd ct) 1000)) (dust * 1000)) as [H2|H2];
    cbn [andb negb]; auto. lia.
  - destruct (Z.ltb_spec hb1 (dust * 1000)) as [H1|H1]; destruct (Z.ltb_spec hb2 (dust * 1000)) as [H2|H2];
    cbn [andb negb]; auto. lia.
Qed.

Record guard_range (hb cb fr nd dust : Z) : Prop := {
  gr_hb : 0 <= hb < 2 ^ 64;
  gr_cb : 0 <= cb < 2 ^ 64;
  gr_fr : 0 <= fr < 2 ^ 32;
  gr_nd : 0 <= nd <= 2 ^ 20;
  gr_dust : 0 <= dust < 2 ^ 40
}.

(** Smallest amount (msat) that is NOT dust on the commitment of the side given by [local], for a
    broadcaster dust limit [dust]. *)
Definition min_nondust_msat (local : bool) (fr dust : Z) (ct : ChannelTypeFeatures) : Z :=
  (dust + (if local then snd (second_stage_tx_fees_sat ct fr) else fst (second_stage_tx_fees_sat ct fr))) * 1000.

Lemma second_stage_bounds ct fr : 0 <= fr < 2 ^ 32 ->
  0 <= fst (second_stage_tx_fees_sat ct fr) < 2 ^ 42 /\ 0 <= snd (second_stage_tx_fees_sat ct fr) < 2 ^ 42.
Proof.
  intros Hfr. unfold second_stage_tx_fees_sat.
  destruct (_ || _); cbn [fst snd]; [lia|].
  pose proof (weights_pos ct) as (Hs & Ht & _).
  split; (split; [apply Z.div_pos; nia | apply Z.div_lt_upper_bound; nia]).
Qed.

(** One call of [adjust_boundaries_if_max_dust_htlc_produces_no_output] for the commitment of side
    [local] with broadcaster dust limit [dust]: the interval only shrinks, and every positive amount
    inside the new interval that the holder owns is either non-dust on that commitment (it becomes an
    output) or leaves that commitment with an output. *)
Lemma adjust_boundaries_keeps_output local funder hb cb fr nd dust ct mn cap mn' cap' :
  guard_range hb cb fr nd dust ->
  adjust_boundaries_if_max_dust_htlc_produces_no_output local funder hb cb fr nd dust ct mn cap = (mn', cap') ->
  mn <= mn' /\ cap' <= cap /\
  forall a, 0 < a -> mn' <= a <= cap' -> a <= hb ->
    min_nondust_msat local fr dust ct <= a \/ has_output funder (hb - a) cb fr nd dust ct = true.
Proof.
  intros [Hhb Hcb Hfr Hnd Hd]. unfold adjust_boundaries_if_max_dust_htlc_produces_no_output, min_nondust_msat.
  pose proof (second_stage_bounds ct fr Hfr) as [Hs Ht].
  destruct (second_stage_tx_fees_sat ct fr) as [sf tf]. cbn [fst snd] in *.
  set (m := dust + (if local then tf else sf)).
  assert (0 <= m < 2 ^ 43) as Hm by (unfold m; destruct local; lia).
  rewrite (sat_mul_small m) by lia.
  destruct (has_output funder (sat_sub hb (sat_sub (m * 1000) 1)) cb fr nd dust ct) eqn:Eho; cbn [negb].
  - intros [= <- <-]. split; [lia|]. split; [lia|].
    intros a Ha Hin Hle. destruct (Z_le_gt_dec (m * 1000) a) as [|Hlt]; [left; assumption|right].
    apply (has_output_mono funder (sat_sub hb (sat_sub (m * 1000) 1))); [unfold sat_sub; lia | exact Eho].
  - destruct (Z.leb_spec (m * 1000) cap) as [Hc|Hc].
    + intros [= <- <-]. split; [lia|]. split; [lia|]. intros a Ha Hin Hle. left. lia.
    + intros [= <- <-]. split; [lia|]. split; [lia|].
      intros a Ha Hin Hle. right.
      (* nothing but the holder's own balance can give an output here *)
      unfold has_output in Eho |- *. unfold saturating_sub_from_funder in *.
      set (fee0 := commit_tx_fee_sat fr nd ct) in *.
      assert (0 <= fee0) as Hf0 by (apply commit_tx_fee_nonneg; lia).
      assert (nd = 0 /\ ctf_supports_anchor_zero_fee_commitments ct = false) as [End Ez].
      { destruct funder; cbv beta iota in Eho; rewrite negb_false_iff, !andb_true_iff in Eho;
        destruct Eho as (((E1 & E2) & E3) & E4); apply Z.eqb_eq in E3; rewrite negb_true_iff in E4; auto. }
      assert (fee0 * 1000 < 2 ^ 64) as Hfb.
      { unfold fee0, commit_tx_fee_sat, COMMITMENT_TX_WEIGHT_PER_HTLC. pose proof (weights_pos ct) as (_ & _ & Hb & _).
        assert (fr * (commitment_tx_base_weight ct + nd * 172) / 1000 <= fr * (commitment_tx_base_weight ct + nd * 172))
          by (apply Z.div_le_upper_bound; nia). nia. }
      rewrite (sat_mul_small fee0) in * by lia.
      assert (fee0 = commit_tx_fee_sat fr 0 ct) as Ef0 by (unfold fee0; rewrite End; reflexivity).
      rewrite <- Ef0 in Hin.
      destruct funder; cbv beta iota; rewrite Ez; cbn [negb]; rewrite andb_true_r;
        rewrite negb_true_iff, !andb_false_iff; left; left; apply Z.ltb_ge; unfold sat_sub in *; lia.
Qed.

(** Both calls together, as [get_available_balances] makes them: the guard for the HOLDER's commitment
    uses the holder's dust limit and the HTLC-timeout fee, the guard for the COUNTERPARTY's commitment the
    counterparty's dust limit and the HTLC-success fee. Every sendable amount keeps an output on BOTH
    commitments (or is itself one). *)
Lemma send_limits_keep_an_output funder hb cb lnd rnd fr k ct mn cap mn' cap' :
  guard_range hb cb fr lnd (cst_holder_dust_limit_satoshis k) ->
  guard_range hb cb fr rnd (cst_counterparty_dust_limit_satoshis k) ->
  adjust_min_max_htlc_if_max_dust_htlc_produces_no_output funder hb cb lnd rnd fr k ct mn cap = (mn', cap') ->
  mn <= mn' /\ cap' <= cap /\
  forall a, 0 < a -> mn' <= a <= cap' -> a <= hb ->
    (min_nondust_msat true fr (cst_holder_dust_limit_satoshis k) ct <= a \/
     has_output funder (hb - a) cb fr lnd (cst_holder_dust_limit_satoshis k) ct = true) /\
    (min_nondust_msat false fr (cst_counterparty_dust_limit_satoshis k) ct <= a \/
     has_output funder (hb - a) cb fr rnd (cst_counterparty_dust_limit_satoshis k) ct = true).
Proof.
  intros Hl Hr. unfold adjust_min_max_htlc_if_max_dust_htlc_produces_no_output.
  destruct (adjust_boundaries_if_max_dust_htlc_produces_no_output true funder hb cb fr lnd _ ct mn cap) as [mn1 cap1] eqn:E1.
  destruct (adjust_boundaries_if_max_dust_htlc_produces_no_output false funder hb cb fr rnd _ ct mn1 cap1) as [mn2 cap2] eqn:E2.
  intros [= <- <-].
  destruct (adjust_boundaries_keeps_output _ _ _ _ _ _ _ _ _ _ _ _ Hl E1) as (Ha1 & Hb1 & Hc1).
  destruct (adjust_boundaries_keeps_output _ _ _ _ _ _ _ _ _ _ _ _ Hr E2) as (Ha2 & Hb2 & Hc2).
  split; [lia|]. split; [lia|]. intros a Ha Hin Hle. split.
  - apply Hc1; lia.
  - apply Hc2; lia.
Qed.
