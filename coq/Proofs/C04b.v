(** C04, part B — proofs about the receiver state machine (Model/Inbound.v). *)
From LdkV Require Import Prim.U64 Prim.Rs2vLib Gen.Consts Gen.ConstsC04 Gen.InboundChecks Model.Inbound.
Open Scope Z_scope.

(** the comparisons regenerated from the Rust source (Gen/InboundChecks.v) are unfolded where a
    proof needs to know what they say: if the source changes one of them, that proof fails *)
Ltac checks := unfold mpp_complete_at_tick, mpp_already_complete, mpp_complete_on_arrival, claim_amount_mismatch,
                 recv_cltv_too_soon, recv_current_height, min_final_cltv_too_soon, min_final_cltv_expected_height in *;
               cbn [unwrap_z unwrap_or] in *.

(** [final_hop_underpaid]: without [accept_underpaying_htlcs] the part must carry at least the
    sender-intended amount; with it, at least that amount less the fee the previous hop declares
    to have skimmed *)
Lemma underpaid_spec up intended value sk :
  final_hop_underpaid up intended value sk = false <->
  (up = false /\ intended <= value) \/
  (up = true /\ intended <= sat_add 64 value (unwrap_or sk 0)).
Proof.
  unfold final_hop_underpaid. destruct up; cbn [negb andb orb].
  - rewrite Z.ltb_ge. intuition discriminate.
  - rewrite orb_false_r, Z.ltb_ge. intuition discriminate.
Qed.

(** * association lists *)
Lemma get_ins_eq {A} k (v : A) m : get k (ins k v m) = Some v.
Proof.
  induction m as [|[k' v'] t IH]; cbn [ins get]; [rewrite Z.eqb_refl; reflexivity|].
  destruct (Z.ltb_spec k k'); cbn [get]; [rewrite Z.eqb_refl; reflexivity|].
  destruct (Z.eqb_spec k k'); cbn [get]; [rewrite Z.eqb_refl; reflexivity|].
  destruct (Z.eqb_spec k k'); [contradiction|exact IH].
Qed.

Lemma get_ins_neq {A} k k0 (v : A) m : k0 <> k -> get k0 (ins k v m) = get k0 m.
Proof.
  intros Hne. induction m as [|[k' v'] t IH]; cbn [ins get].
  - destruct (Z.eqb_spec k0 k); [contradiction|reflexivity].
  - destruct (Z.ltb_spec k k'); cbn [get].
    + destruct (Z.eqb_spec k0 k); [contradiction|reflexivity].
    + destruct (Z.eqb_spec k k'); cbn [get].
      * subst k'. destruct (Z.eqb_spec k0 k); [contradiction|reflexivity].
      * destruct (Z.eqb_spec k0 k'); [reflexivity|exact IH].
Qed.

Lemma get_del_neq {A} k k0 (m : list (Z * A)) : k0 <> k -> get k0 (del k m) = get k0 m.
Proof.
  intros Hne. induction m as [|[k' v'] t IH]; cbn [del get]; [reflexivity|].
  destruct (Z.eqb_spec k k').
  - subst k'. destruct (Z.eqb_spec k0 k); [contradiction|exact IH].
  - cbn [get]. destruct (Z.eqb_spec k0 k'); [reflexivity|exact IH].
Qed.

Lemma get_del_eq {A} k (m : list (Z * A)) : get k (del k m) = None.
Proof.
  induction m as [|[k' v'] t IH]; cbn [del get]; [reflexivity|].
  destruct (Z.eqb_spec k k'); [exact IH|]. cbn [get]. destruct (Z.eqb_spec k k'); [contradiction|exact IH].
Qed.

(** [map_payments] with a key-preserving function *)
Definition key_preserving (f : Z * payment -> option (Z * payment) * list out) : Prop :=
  forall k v k' v' outs, f (k, v) = (Some (k', v'), outs) -> k' = k.

Lemma get_map_payments f m hash e e' outs :
  key_preserving f -> get hash m = Some e -> f (hash, e) = (Some (hash, e'), outs) ->
  get hash (fst (map_payments f m)) = Some e'.
Proof.
  intros Hk. induction m as [|[k v] t IH]; intros Hg Hf; [discriminate|].
  cbn [get] in Hg. cbn [map_payments].
  destruct (f (k, v)) as [o outs1] eqn:Ef. destruct (map_payments f t) as [m' outs2] eqn:Em.
  cbn [fst] in *. destruct (Z.eqb_spec hash k) as [->|Hne].
  - injection Hg as ->. rewrite Hf in Ef. injection Ef as <- <-. cbn [get]. rewrite Z.eqb_refl. reflexivity.
  - destruct o as [[k' v']|].
    + pose proof (Hk _ _ _ _ _ Ef) as ->. cbn [get]. destruct (Z.eqb_spec hash k); [contradiction|].
      apply IH; assumption.
    + apply IH; assumption.
Qed.

Lemma get_map_payments_other f m hash :
  key_preserving f -> get hash m = None -> get hash (fst (map_payments f m)) = None.
Proof.
  intros Hk. induction m as [|[k v] t IH]; intros Hg; [reflexivity|].
  cbn [get] in Hg. cbn [map_payments].
  destruct (f (k, v)) as [o outs1] eqn:Ef. destruct (map_payments f t) as [m' outs2] eqn:Em.
  cbn [fst] in *. destruct (Z.eqb_spec hash k) as [->|Hne]; [discriminate|].
  destruct o as [[k' v']|]; [|apply IH; exact Hg].
  pose proof (Hk _ _ _ _ _ Ef) as ->. cbn [get]. destruct (Z.eqb_spec hash k); [contradiction|apply IH; exact Hg].
Qed.

Lemma tick_key_preserving : key_preserving tick_payment.
Proof.
  intros k v k' v' outs H. unfold tick_payment in H. destruct (py_parts v); [discriminate|].
  destruct (mpp_complete_at_tick _ _); [injection H as <- _ _; reflexivity|].
  destruct (existsb _ _); [discriminate|injection H as <- _ _; reflexivity].
Qed.

Lemma block_key_preserving h : key_preserving (block_payment h).
Proof.
  intros k v k' v' outs H. unfold block_payment in H.
  destruct (filter _ (py_parts v)); [discriminate|injection H as <- _ _; reflexivity].
Qed.

(** * all or nothing: one [claim_funds] either releases the preimage on every part of the
      payment (and reports PaymentClaimed for their sum) or on none *)
Lemma all_or_nothing s hash known :
  let outs := snd (step s (Claim hash known)) in
  (forall pid, ~ In (OFulfill pid) outs) \/
  (exists e, get hash (claimable s) = Some e /\
             outs = OClaimed hash (sum_value (py_parts e)) (map pt_id (py_parts e))
                    :: map (fun p => OFulfill (pt_id p)) (py_parts e)).
Proof.
  cbn [step]. unfold claim. destruct (get hash (claimable s)) as [e|] eqn:Eg; [|left; intros pid []].
  destruct (negb known && negb match f_even (py_fields e) with [] => true | _ => false end).
  - left. cbn [snd]. intros pid Hin. apply in_map_iff in Hin as [p [Hp _]]. discriminate.
  - destruct (claim_scan (py_parts e) None 0) as [[valid expected] amt] eqn:Es.
    assert (Hamt : amt = sum_value (py_parts e) \/ valid = false).
    { clear -Es. assert (Hgen : forall parts exp acc v ex am,
        claim_scan parts exp acc = (v, ex, am) -> am = acc + sum_value parts \/ v = false).
      { induction parts as [|p t IH]; intros exp acc v ex am H; cbn [claim_scan] in H.
        - injection H as <- <- <-. left. unfold sum_value. cbn. lia.
        - destruct (match exp with Some _ => _ | None => false end).
          + injection H as <- _ _. right. reflexivity.
          + destruct (IH _ _ _ _ _ H) as [->|Hv]; [left|right; exact Hv].
            unfold sum_value. cbn [map sum fold_right]. fold (sum (map pt_value t)). lia. }
      destruct (Hgen _ _ _ _ _ _ Es) as [->|Hv]; [left; lia|right; exact Hv]. }
    destruct (py_parts e) as [|p0 t] eqn:Ep.
    + left. cbn [snd]. intros pid [].
    + destruct expected as [ex|]; [|left; cbn [snd]; intros pid []].
      checks. rewrite negb_involutive.
      destruct (valid && (amt =? ex)) eqn:Ev.
      * right. exists e. split; [reflexivity|]. cbn [snd]. rewrite Ep.
        apply andb_true_iff in Ev as [Ev _]. subst valid.
        destruct Hamt as [->|Hv]; [reflexivity|discriminate].
      * left. cbn [snd]. intros pid Hin. apply in_map_iff in Hin as [p [Hp _]]. discriminate.
Qed.

(** * rejected parts are failed back and never stored *)
Lemma recv_reject s hash pid onion_cltv cltv value intended fl purpose auth min_cltv sk up :
  cltv < onion_cltv \/ cltv <= height s + HTLC_FAIL_BACK_BUFFER + 1 \/
  final_hop_underpaid up intended value sk = true \/ auth = false \/
  (exists d, min_cltv = Some d /\ cltv < height s + d) ->
  exists r, step s (Recv hash pid onion_cltv cltv value intended fl purpose auth min_cltv sk up) = (s, [OFailPart pid r]).
Proof.
  intros Hrej. cbn [step]. unfold recv. checks.
  destruct (Z.ltb_spec cltv onion_cltv); [eexists; reflexivity|].
  destruct (Z.leb_spec cltv (height s + HTLC_FAIL_BACK_BUFFER + 1)); [eexists; reflexivity|].
  destruct (final_hop_underpaid up intended value sk) eqn:Eu; [eexists; reflexivity|].
  destruct auth; cbn [negb]; [|eexists; reflexivity].
  destruct Hrej as [Hr|[Hr|[Hr|[Hr|[d [-> Hr]]]]]]; try lia; try discriminate.
  destruct (Z.ltb_spec cltv (height s + d)); [eexists; reflexivity|lia].
Qed.

(** an incomplete set that hits the MPP timeout is failed back entirely and forgotten *)
Lemma tick_timeout hash e :
  py_parts e <> [] ->
  sum_intended (py_parts e) < f_total (py_fields e) ->
  (exists p, In p (py_parts e) /\ MPP_TIMEOUT_TICKS <= pt_ticks p + 1) ->
  tick_payment (hash, e) =
  (None, map (fun p => OFailPart (pt_id p) F_MPPTimeout) (map tick_part (py_parts e))).
Proof.
  intros Hne Hs [p [Hin Ht]]. unfold tick_payment. destruct (py_parts e) as [|p0 t] eqn:Ep; [contradiction|].
  assert (Hsum : sum_intended (map tick_part (p0 :: t)) = sum_intended (p0 :: t)).
  { unfold sum_intended. rewrite map_map. reflexivity. }
  rewrite Hsum. checks. destruct (Z.leb_spec (f_total (py_fields e)) (sum_intended (p0 :: t))); [lia|].
  assert (Hex : existsb (fun q => MPP_TIMEOUT_TICKS <=? pt_ticks q) (map tick_part (p0 :: t)) = true).
  { apply existsb_exists. exists (tick_part p). split; [apply in_map; exact Hin|].
    cbn [tick_part pt_ticks]. apply Z.leb_le. exact Ht. }
  rewrite Hex. reflexivity.
Qed.

Ltac nofp H :=
  cbn [map] in H;
  repeat (let Hx := fresh "Hx" in destruct H as [Hx|H]; [discriminate|]);
  first [ (let q := fresh "q" in let Hq := fresh "Hq" in apply in_map_iff in H as [q [Hq _]]; discriminate)
        | destruct H ].

(** * PaymentClaimable only for complete sets *)
Lemma sum_insert_part f p l : sum (map f (insert_part p l)) = f p + sum (map f l).
Proof.
  induction l as [|q t IH]; cbn [insert_part map sum fold_right]; [reflexivity|].
  destruct (pt_id p <=? pt_id q); cbn [map sum fold_right]; [reflexivity|].
  fold (sum (map f (insert_part p t))). rewrite IH. fold (sum (map f t)). lia.
Qed.

Lemma sum_sort_parts f l : sum (map f (sort_parts l)) = sum (map f l).
Proof.
  induction l as [|p t IH]; [reflexivity|]. cbn [sort_parts fold_right]. fold (sort_parts t).
  rewrite sum_insert_part. cbn [map sum fold_right]. fold (sum (map f t)). rewrite IH. reflexivity.
Qed.

Lemma in_insert_part p q l : In q (insert_part p l) <-> q = p \/ In q l.
Proof.
  induction l as [|r t IH]; cbn [insert_part In]; [intuition|].
  destruct (pt_id p <=? pt_id r); cbn [In]; [intuition|]. rewrite IH. intuition.
Qed.

Lemma in_sort_parts q l : In q (sort_parts l) <-> In q l.
Proof.
  induction l as [|p t IH]; [reflexivity|]. cbn [sort_parts fold_right]. fold (sort_parts t).
  rewrite in_insert_part, IH. cbn [In]. intuition.
Qed.

Lemma claimable_only_if_complete s o hash A d :
  In (OClaimable hash A d) (snd (step s o)) ->
  exists pid onion_cltv cltv value intended fl purpose min_cltv sk up e',
    o = Recv hash pid onion_cltv cltv value intended fl purpose true min_cltv sk up /\
    (* the part passed every per-HTLC check *)
    onion_cltv <= cltv /\ height s + HTLC_FAIL_BACK_BUFFER + 1 < cltv /\
    final_hop_underpaid up intended value sk = false /\
    (forall dd, min_cltv = Some dd -> height s + dd <= cltv) /\
    (* the set was incomplete before and is complete now *)
    sum_intended (match get hash (claimable s) with Some e => py_parts e | None => [] end)
      < f_total (py_fields e') /\
    get hash (claimable (fst (step s o))) = Some e' /\
    f_total (py_fields e') <= sum_intended (py_parts e') /\
    sum_intended (py_parts e') < MAX_VALUE_MSAT /\
    A = sum_value (py_parts e') /\
    d = min_cltv_of (py_parts e') cltv - HTLC_FAIL_BACK_BUFFER /\
    (forall p, In p (py_parts e') -> pt_tvr p = Some A) /\
    (* onion fields agree with the first part's *)
    check_merge (py_fields e') fl = true /\ py_purpose e' = purpose /\
    (exists p, In p (py_parts e') /\ pt_id p = pid /\ pt_cltv p = cltv /\ pt_value p = value).
Proof.
  intros Hin. destruct o as [h pid oc cltv value intended fl purpose auth mc sk up| |bh|ch known|fh].
  - cbn [step] in *. unfold recv in *. checks.
    destruct (Z.ltb_spec cltv oc); [destruct Hin as [Hx|[]]; discriminate|].
    destruct (Z.leb_spec cltv (height s + HTLC_FAIL_BACK_BUFFER + 1)); [destruct Hin as [Hx|[]]; discriminate|].
    destruct (final_hop_underpaid up intended value sk) eqn:Eu; [destruct Hin as [Hx|[]]; discriminate|].
    destruct auth; cbn [negb] in *; [|destruct Hin as [Hx|[]]; discriminate].
    destruct (match mc with Some dd => cltv <? height s + dd | None => false end) eqn:Emc;
      [destruct Hin as [Hx|[]]; discriminate|].
    set (new := {| pt_id := pid; pt_cltv := cltv; pt_value := value; pt_intended := intended; pt_ticks := 0;
                   pt_tvr := None; pt_secret := f_secret fl; pt_height := height s |}) in *.
    destruct (get h (claimable s)) as [e|] eqn:Eg.
    + (* existing entry *)
      destruct (py_purpose e =? purpose) eqn:Ep; cbn [negb] in *; [|destruct Hin as [Hx|[]]; discriminate].
      unfold check_incoming_mpp_part in *. checks.
      destruct (check_merge (py_fields e) fl) eqn:Em; cbn [negb] in *; [|destruct Hin as [Hx|[]]; discriminate].
      destruct (Z.leb_spec MAX_VALUE_MSAT (pt_intended new + sum_intended (py_parts e)));
        [destruct Hin as [Hx|[]]; discriminate|].
      destruct (Z.leb_spec (f_total (py_fields e)) (pt_intended new + sum_intended (py_parts e) - pt_intended new));
        [destruct Hin as [Hx|[]]; discriminate|].
      destruct (Z.leb_spec (f_total (py_fields e)) (pt_intended new + sum_intended (py_parts e)));
        cbn [snd fst] in *; [|destruct Hin].
      destruct Hin as [Hin|[]]. injection Hin as <- <- <-.
      set (parts' := sort_parts (map (set_tvr (sum_value (py_parts e ++ [new]))) (py_parts e ++ [new]))).
      assert (Hsi : sum_intended parts' = pt_intended new + sum_intended (py_parts e)).
      { unfold parts', sum_intended. rewrite sum_sort_parts, map_map. cbn [set_tvr pt_intended].
        rewrite map_app, <- (map_map _ (fun x => x)). unfold sum. rewrite map_id.
        rewrite fold_right_app. cbn [map fold_right].
        clear. induction (map pt_intended (py_parts e)) as [|x t IH]; cbn [fold_right]; lia. }
      assert (Hsv : sum_value parts' = sum_value (py_parts e ++ [new])).
      { unfold parts', sum_value. rewrite sum_sort_parts, map_map. reflexivity. }
      exists pid, oc, cltv, value, intended, fl, purpose, mc, sk, up,
        {| py_purpose := py_purpose e; py_fields := py_fields e; py_parts := parts' |}.
      cbn [py_fields py_parts py_purpose claimable]. rewrite get_ins_eq, Eg.
      cbn [pt_intended new] in *.
      split; [reflexivity|]. split; [lia|]. split; [lia|]. split; [exact Eu|].
      split; [intros dd ->; apply Z.ltb_ge in Emc; exact Emc|].
      split; [lia|]. split; [reflexivity|]. split; [rewrite Hsi; lia|]. split; [rewrite Hsi; lia|].
      split; [reflexivity|]. split; [reflexivity|].
      split.
      { intros p Hp. unfold parts' in Hp. apply (proj1 (in_sort_parts _ _)) in Hp. apply in_map_iff in Hp as [q [<- _]].
        cbn [set_tvr pt_tvr]. rewrite Hsv. reflexivity. }
      split; [exact Em|]. split; [apply Z.eqb_eq; exact Ep|].
      exists (set_tvr (sum_value (py_parts e ++ [new])) new). split; [|repeat split].
      unfold parts'. apply (proj2 (in_sort_parts _ _)). apply in_map. apply in_or_app. right. left. reflexivity.
    + (* first part *)
      cbn [py_purpose py_fields py_parts] in *. rewrite Z.eqb_refl in *. cbn [negb] in *.
      unfold check_incoming_mpp_part in *. checks. cbn [sum_intended map sum fold_right] in *.
      destruct (check_merge fl fl) eqn:Em; cbn [negb] in *; [|destruct Hin as [Hx|[]]; discriminate].
      destruct (Z.leb_spec MAX_VALUE_MSAT (pt_intended new + 0)); [destruct Hin as [Hx|[]]; discriminate|].
      destruct (Z.leb_spec (f_total fl) (pt_intended new + 0 - pt_intended new)); [destruct Hin as [Hx|[]]; discriminate|].
      destruct (Z.leb_spec (f_total fl) (pt_intended new + 0)); cbn [snd fst] in *; [|destruct Hin].
      destruct Hin as [Hin|[]]. injection Hin as <- <- <-.
      exists pid, oc, cltv, value, intended, fl, purpose, mc, sk, up,
        {| py_purpose := purpose; py_fields := fl;
           py_parts := sort_parts (map (set_tvr (sum_value ([] ++ [new]))) ([] ++ [new])) |}.
      cbn [py_fields py_parts py_purpose claimable app map sort_parts fold_right insert_part]. rewrite get_ins_eq, Eg.
      cbn [sum_intended sum_value map sum fold_right set_tvr pt_intended pt_value new] in *.
      split; [reflexivity|]. split; [lia|]. split; [lia|]. split; [exact Eu|].
      split; [intros dd ->; apply Z.ltb_ge in Emc; exact Emc|].
      split; [lia|]. split; [reflexivity|]. split; [lia|]. split; [lia|].
      split; [reflexivity|]. split; [reflexivity|].
      split; [intros p [<-|[]]; reflexivity|].
      split; [exact Em|]. split; [reflexivity|].
      eexists. split; [left; reflexivity|repeat split].
  - (* tick *) cbn [step] in Hin. destruct (map_payments tick_payment (claimable s)) as [m outs] eqn:Em.
    cbn [snd] in Hin. exfalso. revert m outs Em Hin. induction (claimable s) as [|kv t IH]; intros m outs Em Hin.
    + injection Em as <- <-. destruct Hin.
    + cbn [map_payments] in Em. destruct (tick_payment kv) as [o outs1] eqn:Et.
      destruct (map_payments tick_payment t) as [m' outs2] eqn:Em'. injection Em as <- <-.
      apply in_app_or in Hin as [Hin|Hin]; [|eapply IH; [reflexivity|exact Hin]].
      destruct kv as [k e]. unfold tick_payment in Et. destruct (py_parts e); [injection Et as <- <-; destruct Hin|].
      destruct (mpp_complete_at_tick _ _); [injection Et as <- <-; destruct Hin|].
      destruct (existsb _ _); injection Et as <- <-; [|destruct Hin].
      nofp Hin.
  - (* block *) cbn [step] in Hin. destruct (map_payments (block_payment bh) (claimable s)) as [m outs] eqn:Em.
    cbn [snd] in Hin. exfalso. revert m outs Em Hin. induction (claimable s) as [|kv t IH]; intros m outs Em Hin.
    + injection Em as <- <-. destruct Hin.
    + cbn [map_payments] in Em. destruct (block_payment bh kv) as [o outs1] eqn:Et.
      destruct (map_payments (block_payment bh) t) as [m' outs2] eqn:Em'. injection Em as <- <-.
      apply in_app_or in Hin as [Hin|Hin]; [|eapply IH; [reflexivity|exact Hin]].
      destruct kv as [k e]. unfold block_payment in Et.
      destruct (filter _ (py_parts e)); injection Et as <- <-; nofp Hin.
  - (* claim *) exfalso. cbn [step] in Hin. unfold claim in Hin.
    destruct (get ch (claimable s)) as [e|]; [|destruct Hin].
    destruct (negb known && _); cbn [snd] in Hin.
    + nofp Hin.
    + destruct (claim_scan (py_parts e) None 0) as [[valid expected] amt].
      destruct (py_parts e) as [|p0 t]; [destruct Hin|].
      destruct expected; [|destruct Hin].
      destruct (valid && _); cbn [snd] in Hin.
      * nofp Hin.
      * nofp Hin.
  - exfalso. cbn [step] in Hin. unfold fail_back in Hin. destruct (get fh (claimable s)); [|destruct Hin].
    cbn [snd] in Hin. nofp Hin.
Qed.

Lemma filter_all {A} (f : A -> bool) l : (forall x, In x l -> f x = true) -> filter f l = l.
Proof.
  induction l as [|a t IH]; intros H; [reflexivity|]. cbn [filter]. rewrite (H a (or_introl eq_refl)).
  f_equal. apply IH. intros x Hx. apply H. right. exact Hx.
Qed.

(** * the claim window *)
Definition core (p : part) : Z * Z * Z * Z * option Z :=
  (pt_id p, pt_cltv p, pt_value p, pt_intended p, pt_tvr p).

(** same payment up to the parts' tick counters *)
Definition same_core (e e' : payment) : Prop :=
  map core (py_parts e) = map core (py_parts e') /\ py_fields e = py_fields e' /\ py_purpose e = py_purpose e'.

(** what the entry looks like right after its PaymentClaimable (amount [A], deadline [d]) *)
Definition ready (A d : Z) (e : payment) : Prop :=
  py_parts e <> [] /\
  (forall c, In c (map core (py_parts e)) ->
     let '(_, cltv, _, _, tvr) := c in tvr = Some A /\ d <= cltv - HTLC_FAIL_BACK_BUFFER) /\
  sum (map (fun c => let '(_, _, v, _, _) := c in v) (map core (py_parts e))) = A /\
  f_total (py_fields e) <= sum (map (fun c => let '(_, _, _, i, _) := c in i) (map core (py_parts e))).

Lemma ready_same_core A d e e' : same_core e e' -> ready A d e -> ready A d e'.
Proof.
  intros (Hc & Hf & _) (Hne & Hall & Hs & Ht). unfold ready. rewrite <- Hc, <- Hf.
  split; [|auto]. intros Hn. apply Hne. destruct (py_parts e); [reflexivity|]. rewrite Hn in Hc. discriminate.
Qed.

Lemma sum_value_core l : sum_value l = sum (map (fun c : Z * Z * Z * Z * option Z => let '(_, _, v, _, _) := c in v) (map core l)).
Proof. unfold sum_value. rewrite map_map. reflexivity. Qed.
Lemma sum_intended_core l : sum_intended l = sum (map (fun c : Z * Z * Z * Z * option Z => let '(_, _, _, i, _) := c in i) (map core l)).
Proof. unfold sum_intended. rewrite map_map. reflexivity. Qed.

(** operations that leave the payment [hash] alone: ticks, blocks below the deadline, further
    HTLCs (for any hash, also this one), claims and fail-backs of OTHER payments *)
Definition quiet_for (hash d : Z) (o : op) : bool :=
  match o with
  | Tick => true
  | Block h => h <? d
  | Recv _ _ _ _ _ _ _ _ _ _ _ _ => true
  | Claim h _ => negb (h =? hash)
  | FailBack h => negb (h =? hash)
  end.

Lemma same_core_refl e : same_core e e.
Proof. repeat split. Qed.
Lemma same_core_trans a b c : same_core a b -> same_core b c -> same_core a c.
Proof. intros (H1 & H2 & H3) (H4 & H5 & H6). repeat split; congruence. Qed.

Lemma step_quiet s o hash A d e :
  get hash (claimable s) = Some e -> ready A d e -> quiet_for hash d o = true ->
  exists e', get hash (claimable (fst (step s o))) = Some e' /\ same_core e e'.
Proof.
  intros Hg Hr Hq. destruct o as [h pid oc cltv value intended fl purpose auth mc sk up| |bh|ch known|fh]; cbn [step].
  - (* a further HTLC *)
    unfold recv.
    repeat match goal with |- context [if ?b then (s, _) else _] => destruct b; [exists e; cbn [fst]; split; [exact Hg|apply same_core_refl]|] end.
    destruct (Z.eq_dec h hash) as [->|Hne].
    + rewrite Hg. destruct (negb (py_purpose e =? purpose)); [exists e; cbn [fst]; split; [exact Hg|apply same_core_refl]|].
      assert (Hnone : check_incoming_mpp_part (py_parts e) (py_fields e)
                {| pt_id := pid; pt_cltv := cltv; pt_value := value; pt_intended := intended; pt_ticks := 0;
                   pt_tvr := None; pt_secret := f_secret fl; pt_height := height s |} fl = None).
      { unfold check_incoming_mpp_part. checks. destruct (negb (check_merge (py_fields e) fl)); [reflexivity|].
        cbn [pt_intended]. destruct (MAX_VALUE_MSAT <=? intended + sum_intended (py_parts e)); [reflexivity|].
        destruct Hr as (_ & _ & _ & Ht). rewrite <- sum_intended_core in Ht.
        destruct (Z.leb_spec (f_total (py_fields e)) (intended + sum_intended (py_parts e) - intended)); [reflexivity|lia]. }
      rewrite Hnone. cbn [fst claimable]. exists e. split; [exact Hg|apply same_core_refl].
    + destruct (get h (claimable s)) as [e0|] eqn:Eh.
      * destruct (negb (py_purpose e0 =? purpose)); [exists e; cbn [fst]; split; [exact Hg|apply same_core_refl]|].
        destruct (check_incoming_mpp_part _ _ _ _) as [[parts' complete]|]; cbn [fst claimable].
        -- exists e. rewrite get_ins_neq by congruence. split; [exact Hg|apply same_core_refl].
        -- exists e. split; [exact Hg|apply same_core_refl].
      * cbn [py_purpose]. rewrite Z.eqb_refl. cbn [negb].
        destruct (check_incoming_mpp_part _ _ _ _) as [[parts' complete]|]; cbn [fst claimable];
          exists e; rewrite get_ins_neq by congruence; (split; [exact Hg|apply same_core_refl]).
  - (* tick: a complete set never times out *)
    destruct (map_payments tick_payment (claimable s)) as [m outs] eqn:Em. cbn [fst claimable].
    destruct Hr as (Hne & _ & _ & Ht). rewrite <- sum_intended_core in Ht.
    destruct (py_parts e) as [|p0 t] eqn:Ep; [contradiction|].
    set (e' := {| py_purpose := py_purpose e; py_fields := py_fields e; py_parts := map tick_part (p0 :: t) |}).
    exists e'. split.
    + replace m with (fst (map_payments tick_payment (claimable s))) by (rewrite Em; reflexivity).
      apply (get_map_payments tick_payment (claimable s) hash e e' []); [apply tick_key_preserving|exact Hg|].
      unfold tick_payment. rewrite Ep.
      assert (Hsum : sum_intended (map tick_part (p0 :: t)) = sum_intended (p0 :: t)).
      { unfold sum_intended. rewrite map_map. reflexivity. }
      rewrite Hsum. checks.
      destruct (Z.leb_spec (f_total (py_fields e)) (sum_intended (p0 :: t))); [reflexivity|lia].
    + unfold same_core, e'. cbn [py_parts py_fields py_purpose]. rewrite Ep. repeat split. rewrite map_map. reflexivity.
  - (* a block below the deadline fails no part *)
    destruct (map_payments (block_payment bh) (claimable s)) as [m outs] eqn:Em. cbn [fst claimable].
    cbn [quiet_for] in Hq. apply Z.ltb_lt in Hq.
    exists e. split; [|apply same_core_refl].
    replace m with (fst (map_payments (block_payment bh) (claimable s))) by (rewrite Em; reflexivity).
    apply (get_map_payments (block_payment bh) (claimable s) hash e e []); [apply block_key_preserving|exact Hg|].
    unfold block_payment. destruct Hr as (Hne & Hall & _ & _).
    assert (Hkeep : filter (fun p => negb (pt_cltv p - HTLC_FAIL_BACK_BUFFER <=? bh)) (py_parts e) = py_parts e).
    { apply filter_all. intros p Hp.
      specialize (Hall (core p) (in_map core _ _ Hp)). cbn [core] in Hall. destruct Hall as [_ Hd].
      apply negb_true_iff. apply Z.leb_gt. lia. }
    assert (Hdrop : filter (fun p => pt_cltv p - HTLC_FAIL_BACK_BUFFER <=? bh) (py_parts e) = []).
    { clear -Hall Hq. induction (py_parts e) as [|p t IH]; [reflexivity|]. cbn [filter].
      pose proof (Hall (core p) (or_introl eq_refl)) as Hp. cbn [core] in Hp. destruct Hp as [_ Hd].
      destruct (Z.leb_spec (pt_cltv p - HTLC_FAIL_BACK_BUFFER) bh); [lia|].
      apply IH. intros c Hc. apply Hall. right. exact Hc. }
    rewrite Hkeep, Hdrop. destruct (py_parts e) as [|p0 t] eqn:Ep; [contradiction|].
    destruct e; cbn in *; subst; reflexivity.
  - cbn [quiet_for] in Hq. apply negb_true_iff, Z.eqb_neq in Hq. unfold claim.
    destruct (get ch (claimable s)) as [e0|]; [|exists e; split; [exact Hg|apply same_core_refl]].
    assert (Hd : get hash (del ch (claimable s)) = Some e) by (rewrite get_del_neq by congruence; exact Hg).
    destruct (negb known && _); [exists e; split; [exact Hd|apply same_core_refl]|].
    destruct (claim_scan (py_parts e0) None 0) as [[valid expected] amt].
    destruct (py_parts e0); [exists e; split; [exact Hd|apply same_core_refl]|].
    destruct expected; [|exists e; split; [exact Hd|apply same_core_refl]].
    destruct (valid && _); exists e; (split; [exact Hd|apply same_core_refl]).
  - cbn [quiet_for] in Hq. apply negb_true_iff, Z.eqb_neq in Hq. unfold fail_back.
    destruct (get fh (claimable s)) as [e0|]; [|exists e; split; [exact Hg|apply same_core_refl]].
    exists e. cbn [fst claimable]. rewrite get_del_neq by congruence. split; [exact Hg|apply same_core_refl].
Qed.

Lemma run_quiet : forall ops s hash A d e,
  get hash (claimable s) = Some e -> ready A d e -> forallb (quiet_for hash d) ops = true ->
  exists e', get hash (claimable (fst (run s ops))) = Some e' /\ same_core e e'.
Proof.
  induction ops as [|o rest IH]; intros s hash A d e Hg Hr Hq; cbn [run].
  - exists e. split; [exact Hg|apply same_core_refl].
  - cbn [forallb] in Hq. apply andb_true_iff in Hq as [Hq1 Hq2].
    destruct (step_quiet s o hash A d e Hg Hr Hq1) as [e1 [Hg1 Hc1]].
    destruct (step s o) as [s1 outs]. cbn [fst] in *.
    destruct (IH s1 hash A d e1 Hg1 (ready_same_core _ _ _ _ Hc1 Hr) Hq2) as [e2 [Hg2 Hc2]].
    destruct (run s1 rest) as [s2 tr]. cbn [fst] in *.
    exists e2. split; [exact Hg2|eapply same_core_trans; eassumption].
Qed.

Lemma claim_scan_ready A : forall parts exp acc,
  (forall p, In p parts -> pt_tvr p = Some A) -> (exp = None \/ exp = Some A) ->
  claim_scan parts exp acc = (true, match parts with [] => exp | _ => Some A end, acc + sum_value parts).
Proof.
  induction parts as [|p t IH]; intros exp acc Hall Hexp; cbn [claim_scan].
  - unfold sum_value. cbn. f_equal. lia.
  - rewrite (Hall p (or_introl eq_refl)).
    assert (Hcond : match exp with Some _ => negb (match exp, Some A with Some a, Some b => a =? b | _, _ => false end)
                             | None => false end = false).
    { destruct Hexp as [->| ->]; [reflexivity|]. rewrite Z.eqb_refl. reflexivity. }
    rewrite Hcond. rewrite (IH (Some A) (acc + pt_value p)); [|intros q Hq; apply Hall; right; exact Hq|right; reflexivity].
    unfold sum_value. cbn [map sum fold_right]. fold (sum (map pt_value t)).
    destruct t; f_equal; lia.
Qed.

(** Claiming a ready payment releases the preimage on every part and reports the full amount. *)
Lemma claim_ready s hash A d e known :
  get hash (claimable s) = Some e -> ready A d e ->
  known = true \/ f_even (py_fields e) = [] ->
  snd (step s (Claim hash known)) =
    OClaimed hash A (map pt_id (py_parts e)) :: map (fun p => OFulfill (pt_id p)) (py_parts e).
Proof.
  intros Hg (Hne & Hall & Hs & _) Hk. cbn [step]. unfold claim. rewrite Hg.
  assert (Hcond : negb known && negb match f_even (py_fields e) with [] => true | _ => false end = false).
  { destruct Hk as [->| ->]; [reflexivity|]. destruct known; reflexivity. }
  rewrite Hcond.
  rewrite (claim_scan_ready A (py_parts e) None 0).
  - rewrite <- sum_value_core in Hs. destruct (py_parts e) as [|p0 t] eqn:Ep; [contradiction|].
    checks. rewrite Z.add_0_l, Hs, Z.eqb_refl. reflexivity.
  - intros p Hp. specialize (Hall (core p) (in_map core _ _ Hp)). cbn [core] in Hall. tauto.
  - left. reflexivity.
Qed.

(** The claim window: after a PaymentClaimable with amount [A] and deadline [d], for every
    sequence of ticks, blocks at heights strictly below [d], further HTLC arrivals and
    claims/fail-backs of other payments, [claim_funds] releases the preimage on exactly the parts of
    that PaymentClaimable and reports PaymentClaimed for [A]. *)
Theorem claim_window s0 o0 hash A d ops known :
  In (OClaimable hash A d) (snd (step s0 o0)) ->
  forallb (quiet_for hash d) ops = true ->
  let s1 := fst (step s0 o0) in
  exists e e',
    get hash (claimable s1) = Some e /\
    get hash (claimable (fst (run s1 ops))) = Some e' /\ same_core e e' /\
    A = sum_value (py_parts e) /\
    (known = true \/ f_even (py_fields e) = [] ->
     snd (step (fst (run s1 ops)) (Claim hash known)) =
       OClaimed hash A (map pt_id (py_parts e)) :: map (fun p => OFulfill (pt_id p)) (py_parts e)).
Proof.
  intros Hin Hq. cbv zeta.
  destruct (claimable_only_if_complete s0 o0 hash A d Hin)
    as (pid & oc & cltv & value & intended & fl & purpose & mc & sk & up & e & Ho & _ & _ & _ & _ & _ & Hg & Htot & _ & HA & Hd & Htvr & _ & _ & Hex).
  assert (Hr : ready A d e).
  { destruct Hex as [p0 [Hp0 _]]. split; [intros Hn; rewrite Hn in Hp0; destruct Hp0|].
    split; [|split].
    - intros c Hc. apply in_map_iff in Hc as [p [<- Hp]]. cbn [core]. split; [apply Htvr; exact Hp|].
      rewrite Hd. apply Z.sub_le_mono_r.
      clear -Hp. unfold min_cltv_of. destruct (py_parts e) as [|q t]; [destruct Hp|].
      destruct Hp as [->|Hp]; [induction t as [|r t IH]; cbn [map fold_right]; lia|].
      induction t as [|r t IH]; [destruct Hp|]. cbn [map fold_right]. destruct Hp as [->|Hp]; [lia|].
      specialize (IH Hp). lia.
    - rewrite <- sum_value_core. symmetry. exact HA.
    - rewrite <- sum_intended_core. exact Htot. }
  destruct (run_quiet ops (fst (step s0 o0)) hash A d e Hg Hr Hq) as [e' [Hg' Hc']].
  exists e, e'. split; [exact Hg|]. split; [exact Hg'|]. split; [exact Hc'|]. split; [exact HA|].
  intros Hk. rewrite (claim_ready _ hash A d e' known Hg' (ready_same_core _ _ _ _ Hc' Hr)).
  - destruct Hc' as (Hc & _ & _).
    assert (Hids : map pt_id (py_parts e') = map pt_id (py_parts e)).
    { assert (H : forall l, map pt_id l = map (fun c : Z * Z * Z * Z * option Z => let '(i, _, _, _, _) := c in i) (map core l))
        by (intros l; rewrite map_map; reflexivity).
      rewrite !H, Hc. reflexivity. }
    rewrite <- !(map_map pt_id (fun i => OFulfill i)), Hids. reflexivity.
  - destruct Hc' as (_ & Hf & _). rewrite <- Hf. exact Hk.
Qed.

(** * a late claim never drops parts (H2 of DESIGN.md section 11, fixed in claim_payment_internal)

    Whatever the height: when every part of the set records a received total (i.e. PaymentClaimable
    was generated for the set), [claim_funds] either releases the preimage on every part or fails
    every part back. In particular a claim after the part with the least expiry was failed at the
    deadline fails the surviving parts back instead of forgetting them. *)
Lemma claim_scan_expected : forall parts exp acc v ex am,
  claim_scan parts exp acc = (v, ex, am) ->
  (forall p, In p parts -> pt_tvr p <> None) ->
  (exp <> None \/ parts <> []) -> ex <> None.
Proof.
  induction parts as [|p t IH]; intros exp acc v ex am H Hall Hne; cbn [claim_scan] in H.
  - injection H as _ <- _. destruct Hne as [Hne|Hne]; [exact Hne|contradiction].
  - destruct (match exp with Some _ => _ | None => false end) eqn:Ec.
    + injection H as _ <- _. destruct exp; [discriminate|discriminate].
    + apply (IH _ _ _ _ _ H); [intros q Hq; apply Hall; right; exact Hq|].
      left. apply Hall. left. reflexivity.
Qed.

Lemma claim_never_drops s hash known e :
  get hash (claimable s) = Some e -> py_parts e <> [] ->
  (forall p, In p (py_parts e) -> pt_tvr p <> None) ->
  let outs := snd (step s (Claim hash known)) in
  (forall p, In p (py_parts e) -> In (OFulfill (pt_id p)) outs) \/
  (forall p, In p (py_parts e) -> exists r, In (OFailPart (pt_id p) r) outs).
Proof.
  intros Hg Hne Hall. cbn [step]. unfold claim. rewrite Hg.
  destruct (negb known && negb match f_even (py_fields e) with [] => true | _ => false end).
  - right. intros p Hp. eexists. cbn [snd]. apply in_map_iff. exists p. split; [reflexivity|exact Hp].
  - destruct (claim_scan (py_parts e) None 0) as [[valid expected] amt] eqn:Es.
    pose proof (claim_scan_expected _ _ _ _ _ _ Es Hall (or_intror Hne)) as Hex.
    destruct (py_parts e) as [|p0 t] eqn:Ep; [contradiction|].
    destruct expected as [ex|]; [|contradiction].
    destruct (valid && _); cbn [snd].
    + left. intros p Hp. right. apply in_map_iff. exists p. split; [reflexivity|exact Hp].
    + right. intros p Hp. eexists. apply in_map_iff. exists p. split; [reflexivity|exact Hp].
Qed.

Definition h2_fields : fields := {| f_secret := 7; f_total := 3000; f_meta := -1; f_even := [] |}.
Definition h2_ops : list op :=
  [ Recv 1 11 200 200 1000 1000 h2_fields 9 true None None false;     (* part A, cltv 200 *)
    Recv 1 12 230 230 2000 2000 h2_fields 9 true None None false;     (* part B, cltv 230: PaymentClaimable, deadline 200 - HFB *)
    Block (200 - HTLC_FAIL_BACK_BUFFER);                    (* the deadline: part A is failed back *)
    Claim 1 false ].                                        (* the user claims late *)

Lemma late_claim_fails_back_example :
  snd (run (init 100) h2_ops) =
    [ []; [OClaimable 1 3000 (200 - HTLC_FAIL_BACK_BUFFER)]; [OFailPart 11 F_PaymentClaimBuffer];
      [OFailPart 12 F_IncorrectPaymentDetails] ] /\
  claimable (fst (run (init 100) h2_ops)) = [].
Proof. vm_compute. split; reflexivity. Qed.
