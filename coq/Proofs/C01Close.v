(** C01, cooperative close: whenever the funder can pay its OWN minimum fee, the fee-range negotiation
    of two honest nodes never asks anybody to build a closing transaction the funder cannot pay, ends
    without error unless the two ranges are disjoint, and the agreed fee lies in both ranges and within
    the funder's balance. *)
Require Import LdkV.Prim.U64 LdkV.Prim.Rs2vLib LdkV.Gen.Consts LdkV.Gen.ChanUtilsFees LdkV.Gen.TxBuilder
  LdkV.Gen.C01Closing LdkV.Model.CommitAmounts LdkV.Model.CoopClose LdkV.Proofs.C01Amounts.
Open Scope Z_scope.

Record close_pre (kf kn : close_side) (v sf sn : Z) : Prop := {
  clp_v : 0 <= v;
  clp_sum : sf + sn = v * 1000;           (* the two nodes agree on the balances (C01 ledger / agreement) *)
  clp_sf : 0 <= sf;
  clp_sn : 0 <= sn;
  clp_kf : 0 <= cs_est_min kf <= cs_est_normal kf /\ 0 <= cs_fcamax kf /\ 0 < cs_weight kf /\ 0 <= cs_dust kf;
  clp_kn : 0 <= cs_est_min kn <= cs_est_normal kn /\ 0 <= cs_fcamax kn /\ 0 < cs_weight kn /\ 0 <= cs_dust kn
}.

Lemma fundee_max_is_funder_balance v sf sn :
  0 <= sn -> sf + sn = v * 1000 -> v - div_ceil sn 1000 = sf / 1000.
Proof.
  intros Hsn Hs. unfold div_ceil.
  assert (sf = v * 1000 - sn) as -> by lia.
  pose proof (Z.div_mod (sn + 1000 - 1) 1000 ltac:(lia)).
  pose proof (Z.mod_pos_bound (sn + 1000 - 1) 1000 ltac:(lia)).
  pose proof (Z.div_mod (v * 1000 - sn) 1000 ltac:(lia)).
  pose proof (Z.mod_pos_bound (v * 1000 - sn) 1000 ltac:(lia)).
  lia.
Qed.

Lemma build_closing_ok (funder skip : bool) (v s fee hd : Z) :
  0 <= v -> 0 <= s <= v * 1000 -> 0 <= fee -> 0 <= hd ->
  (if funder then fee <= s / 1000 else fee <= (v * 1000 - s) / 1000) ->
  exists r, build_closing funder skip v s fee hd = ROk r.
Proof.
  intros Hv Hs Hf Hd Hle.
  destruct (closing_spec funder skip v s fee hd Hv Hs Hf Hd) as [Hok _]. cbv zeta in Hok.
  pose proof (Z.div_pos s 1000 ltac:(lia) ltac:(lia)).
  pose proof (Z.div_pos (v * 1000 - s) 1000 ltac:(lia) ltac:(lia)).
  destruct funder.
  - destruct (Hok ltac:(lia) ltac:(lia)) as (h & c & E & _). eexists. exact E.
  - destruct (Hok ltac:(lia) ltac:(lia)) as (h & c & E & _). eexists. exact E.
Qed.

(** The statement. *)
Definition coop_close_stmt : Prop :=
  forall kf kn v sf sn,
  close_pre kf kn v sf sn ->
  let bal_f := sf / 1000 in
  let '(f_min, f_max) := closing_fee_limits kf true v sf in
  let '(n_min, n_max) := closing_fee_limits kn false v sn in
  (* the non-funder never accepts more than the funder owns *)
  n_max = bal_f /\
  (f_min <= bal_f ->
     (* no error other than "the ranges are disjoint" — or the non-funder's minimum exceeds what the funder
        owns (finding F6: the non-funder then advertises an inverted range and the funder closes) *)
     (f_max < n_min -> is_ok (negotiate kf kn v sf sn) = false) /\
     (bal_f < n_min <= f_max -> f_min < bal_f -> is_ok (negotiate kf kn v sf sn) = false) /\
     (n_min <= f_max -> n_min <= bal_f ->
        exists fee built, negotiate kf kn v sf sn = ROk (fee, built) /\
          f_min <= fee <= f_max /\ n_min <= fee <= n_max /\ fee <= bal_f /\
          Forall (fun f => 0 <= f <= bal_f) built /\
          (* and the closing transaction pays floor(balance) less the fee to the funder *)
          exists h c, build_closing true false v sf fee (cs_dust kf) = ROk (h, c, fee) /\
            h = (if bal_f - fee <=? cs_dust kf then 0 else bal_f - fee) /\
            c = (if sn / 1000 <=? cs_dust kf then 0 else sn / 1000))).

Lemma coop_close : coop_close_stmt.
Proof.
  intros kf kn v sf sn [Hv Hsum Hsf Hsn (Hf1 & Hf2 & Hf3 & Hf4) (Hn1 & Hn2 & Hn3 & Hn4)]. cbv zeta.
  unfold closing_fee_limits, closing_proposed_max_feerate, closing_proposed_total_fee_satoshis,
    closing_proposed_max_total_fee_satoshis.
  rewrite (fundee_max_is_funder_balance v sf sn Hsn Hsum).
  set (bal := sf / 1000).
  set (fmin := cs_est_min kf * cs_weight kf / 1000).
  set (fmax := Z.max (cs_est_normal kf * cs_weight kf / 1000 + cs_fcamax kf) (cs_est_normal kf * cs_weight kf / 1000)).
  set (nmin := cs_est_min kn * cs_weight kn / 1000).
  assert (0 <= bal) as Hbal0 by (apply Z.div_pos; lia).
  assert (0 <= fmin) as Hfmin0 by (apply Z.div_pos; nia).
  assert (fmin <= fmax) as Hfmm.
  { unfold fmin, fmax. assert (cs_est_min kf * cs_weight kf / 1000 <= cs_est_normal kf * cs_weight kf / 1000)
      by (apply Z.div_le_mono; nia). lia. }
  assert ((v * 1000 - sn) / 1000 = bal) as Hbn by (unfold bal; f_equal; lia).
  split; [reflexivity|]. intros Hafford.
  unfold negotiate, closing_fee_limits, closing_proposed_max_feerate, closing_proposed_total_fee_satoshis,
    closing_proposed_max_total_fee_satoshis.
  rewrite (fundee_max_is_funder_balance v sf sn Hsn Hsum).
  fold bal fmin fmax nmin.
  destruct (build_closing_ok true false v sf fmin (cs_dust kf) Hv ltac:(lia) Hfmin0 Hf4 Hafford) as (r1 & E1).
  destruct (build_closing_ok false false v sn fmin (cs_dust kn) Hv ltac:(lia) Hfmin0 Hn4 ltac:(rewrite Hbn; exact Hafford)) as (r2 & E2).
  rewrite E1, E2.
  unfold closing_remote_max_below_our_min, closing_remote_min_above_our_max, closing_fundee_counter_fee,
    closing_funder_rejects_counter_fee, closing_fee_outside_their_range.
  destruct (Z.ltb_spec fmin fmin); [lia|]. destruct (Z.ltb_spec fmax fmin); [lia|]. cbn [orb].
  set (counter := Z.min fmax bal).
  split; [|split].
  - intros Hdis. destruct (Z.ltb_spec fmax nmin); [reflexivity|lia].
  - intros [Hlt Hov] Hstrict. destruct (Z.ltb_spec fmax nmin); [lia|]. destruct (Z.ltb_spec bal fmin); [lia|].
    assert (counter = bal) as Ec by (unfold counter; lia).
    destruct (Z.eqb_spec counter fmin) as [Eq|Hne]; [lia|].
    destruct (build_closing_ok false false v sn counter (cs_dust kn) Hv ltac:(lia) ltac:(lia) Hn4 ltac:(rewrite Hbn; lia)) as (r3 & E3).
    destruct (build_closing_ok true false v sf counter (cs_dust kf) Hv ltac:(lia) ltac:(lia) Hf4 ltac:(change (counter <= bal); lia)) as (r4 & E4).
    rewrite E3, E4. destruct (Z.ltb_spec counter nmin); [reflexivity|lia].
  - intros Hov Hnb. destruct (Z.ltb_spec fmax nmin); [lia|]. destruct (Z.ltb_spec bal fmin); [lia|].
    assert (fmin <= counter <= bal /\ counter <= fmax /\ nmin <= counter) as (Hc1 & Hc2 & Hc3) by (unfold counter; lia).
    assert (exists h c, build_closing true false v sf counter (cs_dust kf) = ROk (h, c, counter) /\
              h = (if bal - counter <=? cs_dust kf then 0 else bal - counter) /\
              c = (if sn / 1000 <=? cs_dust kf then 0 else sn / 1000)) as Hfin.
    { destruct (closing_spec true false v sf counter (cs_dust kf) Hv ltac:(lia) ltac:(lia) Hf4) as [Hok _].
      cbv zeta in Hok. destruct (Hok ltac:(change (counter <= bal); lia) ltac:(apply Z.div_pos; lia)) as (h & c & E & Eh & Ec & _).
      exists h, c. split; [exact E|]. fold bal in Eh. split; [exact Eh|].
      cbn [orb] in Ec. rewrite Z.sub_0_r in Ec. replace (v * 1000 - sf) with sn in Ec by lia. exact Ec. }
    destruct (Z.eqb_spec counter fmin) as [Eq|Hne].
    + exists fmin, [fmin]. split; [reflexivity|]. rewrite Eq in Hfin, Hc3.
      split; [lia|]. split; [lia|]. split; [lia|]. split; [constructor; [lia|constructor]|]. exact Hfin.
    + destruct (build_closing_ok false false v sn counter (cs_dust kn) Hv ltac:(lia) ltac:(lia) Hn4 ltac:(rewrite Hbn; lia)) as (r3 & E3).
      destruct (build_closing_ok true false v sf counter (cs_dust kf) Hv ltac:(lia) ltac:(lia) Hf4 ltac:(change (counter <= bal); lia)) as (r4 & E4).
      rewrite E3, E4.
      destruct (Z.ltb_spec counter nmin); [lia|]. destruct (Z.ltb_spec bal counter); [lia|]. cbn [orb].
      destruct (Z.ltb_spec counter fmin); [lia|]. destruct (Z.ltb_spec fmax counter); [lia|]. cbn [orb].
      exists counter, [fmin; counter]. split; [reflexivity|].
      split; [lia|]. split; [lia|]. split; [lia|]. split; [constructor; [lia|constructor; [lia|constructor]]|]. exact Hfin.
Qed.

(** Non-vacuity: schedule [b1] of the trace harness (funder with 1540 sat, estimators 300 / 253+5000). *)
Definition ex_kf : close_side := mkCloseSide 300 300 5000 674 354.
Definition ex_kn : close_side := mkCloseSide 1000 1000 1000 674 354.
Lemma ex_close_pre : close_pre ex_kf ex_kn 100000 1540000 98460000.
Proof. constructor; cbn; lia. Qed.
Lemma ex_negotiate : negotiate ex_kf ex_kn 100000 1540000 98460000 = ROk (1540, [202; 1540]).
Proof. vm_compute. reflexivity. Qed.
