(** C14, attribution data: the hold times that the hops write into the attribution data on the way
    back are what the sender reads, for every path (the first [MAX_HOPS] hops of it).

    The index bookkeeping of [shift_left] / [shift_right] is content-independent: each is a fixed
    re-arrangement ("gather") of the 80 / 840 bytes.  We prove that once (naturality in the element
    type), run the functions on the index labels [0; 1; ..] to obtain the re-arrangement tables, and
    decide the combinatorial facts about the tables (which bytes survive a round trip through a hop,
    which bytes an HMAC check at a given position reads) by computation. *)
From Coq Require Import ZArith List Bool Lia.
Require Import LdkV.Crypto.Bytes LdkV.Model.OnionFail LdkV.Proofs.C14 LdkV.Proofs.C14Fail.
Import ListNotations.
Open Scope nat_scope.

(** * Gathers *)

Definition gather {A} (d : A) (tbl : list nat) (l : list A) : list A := map (fun i => nth i l d) tbl.

Lemma map_nth_seq {A} (d : A) (l : list A) : map (fun i => nth i l d) (seq 0 (length l)) = l.
Proof.
  apply nth_ext with (d := d) (d' := d); [now rewrite map_length, seq_length|].
  intros n Hn. rewrite map_length, seq_length in Hn.
  rewrite (nth_indep (map (fun i => nth i l d) (seq 0 (length l))) d ((fun i => nth i l d) 0))
    by (now rewrite map_length, seq_length).
  rewrite (map_nth (fun i => nth i l d)). now rewrite seq_nth.
Qed.

(** a list function that commutes with [map] *)
Definition natural (f : forall A, list A -> list A) : Prop :=
  forall A B (g : A -> B) (l : list A), f B (map g l) = map g (f A l).

Lemma natural_gather f (Hf : natural f) {A} (d : A) (l : list A) :
  f A l = gather d (f nat (seq 0 (length l))) l.
Proof. unfold gather. rewrite <- (Hf nat A), map_nth_seq. reflexivity. Qed.

Lemma copy_within_natural s e d : natural (fun A l => copy_within l s e d).
Proof.
  intros A B g l. unfold copy_within.
  now rewrite !map_app, !skipn_map, !firstn_map.
Qed.

Lemma shift_left_loop_natural n : forall src dst len, natural (fun A l => shift_left_loop n l src dst len).
Proof.
  induction n as [|n IH]; intros src dst len A B g l; [reflexivity|].
  cbn [shift_left_loop]. rewrite (copy_within_natural _ _ _ A B g). apply IH.
Qed.

Lemma shift_right_loop_natural n : forall src dst len, natural (fun A l => shift_right_loop n l src dst len).
Proof.
  induction n as [|n IH]; intros src dst len A B g l; [reflexivity|].
  cbn [shift_right_loop]. rewrite (copy_within_natural _ _ _ A B g).
  destruct n; [reflexivity|]. apply IH.
Qed.

Lemma shift_left_hmacs_natural : natural (@shift_left_hmacs).
Proof. intros A B g l. apply shift_left_loop_natural. Qed.
Lemma shift_right_hmacs_natural : natural (@shift_right_hmacs).
Proof. intros A B g l. apply shift_right_loop_natural. Qed.
Lemma shift_left_hold_natural : natural (@shift_left_hold).
Proof. intros A B g l. unfold shift_left_hold. rewrite map_length. apply copy_within_natural. Qed.
Lemma shift_right_hold_natural : natural (@shift_right_hold).
Proof. intros A B g l. apply copy_within_natural. Qed.

(** the tables *)
Definition NH : nat := 80.
Definition NM : nat := 840.
Definition sl_hold_tbl : list nat := shift_left_hold (seq 0 NH).
Definition sr_hold_tbl : list nat := shift_right_hold (seq 0 NH).
Definition sl_hm_tbl : list nat := shift_left_hmacs (seq 0 NM).
Definition sr_hm_tbl : list nat := shift_right_hmacs (seq 0 NM).

Lemma tbl_lengths :
  length sl_hold_tbl = NH /\ length sr_hold_tbl = NH /\ length sl_hm_tbl = NM /\ length sr_hm_tbl = NM.
Proof. repeat split; vm_compute; reflexivity. Qed.

Lemma shift_left_hold_gather (h : bytes) : length h = NH -> shift_left_hold h = gather 0%Z sl_hold_tbl h.
Proof. intros H. unfold sl_hold_tbl. rewrite <- H. apply (natural_gather _ shift_left_hold_natural). Qed.
Lemma shift_right_hold_gather (h : bytes) : length h = NH -> shift_right_hold h = gather 0%Z sr_hold_tbl h.
Proof. intros H. unfold sr_hold_tbl. rewrite <- H. apply (natural_gather _ shift_right_hold_natural). Qed.
Lemma shift_left_hmacs_gather (h : bytes) : length h = NM -> shift_left_hmacs h = gather 0%Z sl_hm_tbl h.
Proof. intros H. unfold sl_hm_tbl. rewrite <- H. apply (natural_gather _ shift_left_hmacs_natural). Qed.
Lemma shift_right_hmacs_gather (h : bytes) : length h = NM -> shift_right_hmacs h = gather 0%Z sr_hm_tbl h.
Proof. intros H. unfold sr_hm_tbl. rewrite <- H. apply (natural_gather _ shift_right_hmacs_natural). Qed.

Lemma gather_length {A} (d : A) tbl l : length (gather d tbl l) = length tbl.
Proof. apply map_length. Qed.

Lemma gather_nth {A} (d : A) tbl l i : i < length tbl -> nth i (gather d tbl l) d = nth (nth i tbl 0) l d.
Proof.
  intros H. unfold gather.
  rewrite (nth_indep (map (fun i => nth i l d) tbl) d ((fun i => nth i l d) 0)) by (rewrite map_length; exact H).
  now rewrite (map_nth (fun i => nth i l d)).
Qed.

(** * Byte-level lemmas *)

Lemma nth_skipn' {A} (l : list A) s i d : nth i (skipn s l) d = nth (s + i) l d.
Proof.
  revert l. induction s as [|s IH]; intros l; [reflexivity|].
  destruct l as [|a l]; [now destruct i|]. cbn [skipn Nat.add nth]. apply IH.
Qed.

Lemma nth_firstn' {A} (l : list A) n i d : i < n -> nth i (firstn n l) d = nth i l d.
Proof.
  revert l i. induction n as [|n IH]; intros l i H; [lia|].
  destruct l as [|a l]; [reflexivity|]. destruct i as [|i]; [reflexivity|].
  cbn [firstn nth]. apply IH. lia.
Qed.

Lemma firstn_ext {A} (x y : list A) n d :
  n <= length x -> n <= length y -> (forall i, i < n -> nth i x d = nth i y d) -> firstn n x = firstn n y.
Proof.
  intros Hx Hy H. apply nth_ext with (d := d) (d' := d); [rewrite !firstn_length; lia|].
  intros i Hi. rewrite firstn_length in Hi. rewrite !nth_firstn' by lia. apply H. lia.
Qed.

Lemma slice_ext (x y : bytes) s n :
  s + n <= length x -> s + n <= length y ->
  (forall i, s <= i < s + n -> nth i x 0%Z = nth i y 0%Z) ->
  firstn n (skipn s x) = firstn n (skipn s y).
Proof.
  intros Hx Hy H. apply firstn_ext with (d := 0%Z); [rewrite skipn_length; lia|rewrite skipn_length; lia|].
  intros i Hi. rewrite !nth_skipn'. apply H. lia.
Qed.

Lemma skipn_ext (x y : bytes) s :
  length x = length y -> (forall i, s <= i -> nth i x 0%Z = nth i y 0%Z) -> skipn s x = skipn s y.
Proof.
  intros Hl H. apply nth_ext with (d := 0%Z) (d' := 0%Z); [rewrite !skipn_length; lia|].
  intros i _. rewrite !nth_skipn'. apply H. lia.
Qed.

Lemma nth_xor_agree (x y s : bytes) i :
  length x = length y -> nth i x 0%Z = nth i y 0%Z -> nth i (xor_bytes x s) 0%Z = nth i (xor_bytes y s) 0%Z.
Proof.
  revert y s i. induction x as [|a x IH]; intros [|b y] s i Hl H; cbn in Hl; try discriminate; [reflexivity|].
  destruct s as [|c s]; [reflexivity|]. destruct i as [|i]; cbn [xor_bytes nth] in *; [now rewrite H|].
  apply IH; [lia|exact H].
Qed.

Lemma nth_replace_mid {A} (p m m' s : list A) i d :
  length m = length m' -> (i < length p \/ length p + length m <= i) ->
  nth i (p ++ m ++ s) d = nth i (p ++ m' ++ s) d.
Proof.
  intros Hm [H|H].
  - now rewrite !app_nth1.
  - rewrite !(app_nth2 p) by lia. rewrite !app_nth2 by lia. now rewrite Hm.
Qed.

Lemma split3 {A} (h : list A) a n : h = firstn a h ++ firstn n (skipn a h) ++ skipn (a + n) h.
Proof.
  rewrite <- (firstn_skipn a h) at 1. f_equal.
  rewrite <- (firstn_skipn n (skipn a h)) at 1. f_equal.
  clear. revert h. induction a as [|a IH]; intros h; [reflexivity|].
  destruct h; [now rewrite !skipn_nil|]. cbn [skipn Nat.add]. apply IH.
Qed.

(** ** [get_hmac] / [set_hmac] *)

Lemma set_hmac_length h idx v : length v = HMAC_LEN -> (idx + 1) * HMAC_LEN <= length h -> length (set_hmac h idx v) = length h.
Proof.
  unfold set_hmac, HMAC_LEN. intros Hv Hh. rewrite !app_length, firstn_length, skipn_length. lia.
Qed.

Lemma set_hmac_nth_out h idx v i :
  length v = HMAC_LEN -> (idx + 1) * HMAC_LEN <= length h -> (i < idx * HMAC_LEN \/ (idx + 1) * HMAC_LEN <= i) ->
  nth i (set_hmac h idx v) 0%Z = nth i h 0%Z.
Proof.
  unfold HMAC_LEN. intros Hv Hh Hi. unfold set_hmac, HMAC_LEN.
  replace ((idx + 1) * 4) with (idx * 4 + 4) in * by lia.
  transitivity (nth i (firstn (idx * 4) h ++ firstn 4 (skipn (idx * 4) h) ++ skipn (idx * 4 + 4) h) 0%Z);
    [|now rewrite <- split3].
  apply nth_replace_mid.
  - rewrite firstn_length, skipn_length. lia.
  - rewrite firstn_length. lia.
Qed.

Lemma get_set_hmac h idx v : length v = HMAC_LEN -> (idx + 1) * HMAC_LEN <= length h -> get_hmac (set_hmac h idx v) idx = v.
Proof.
  unfold get_hmac, set_hmac, HMAC_LEN. intros Hv Hh.
  rewrite skipn_app, skipn_all2, firstn_length by (rewrite firstn_length; lia).
  replace (idx * 4 - Nat.min (idx * 4) (length h)) with 0 by lia. cbn [skipn app].
  rewrite firstn_app, firstn_all2 by lia. rewrite Hv, Nat.sub_diag. cbn [firstn]. apply app_nil_r.
Qed.

Lemma get_hmac_ext x y idx :
  (idx + 1) * HMAC_LEN <= length x -> (idx + 1) * HMAC_LEN <= length y ->
  (forall i, idx * HMAC_LEN <= i < (idx + 1) * HMAC_LEN -> nth i x 0%Z = nth i y 0%Z) -> get_hmac x idx = get_hmac y idx.
Proof.
  unfold get_hmac, HMAC_LEN. intros Hx Hy H. apply slice_ext; try lia. intros i Hi. apply H. lia.
Qed.

(** ** Agreement on a set of byte positions *)

Definition agree_on (V : list bool) (x y : bytes) : Prop :=
  forall i, nth i V false = true -> nth i x 0%Z = nth i y 0%Z.

Definition ok_len (a : attribution) : Prop := length (a_hold a) = NH /\ length (a_hmacs a) = NM.

Record agree (Vh Vm : list bool) (a b : attribution) : Prop := mk_agree {
  ag_la : ok_len a; ag_lb : ok_len b;
  ag_h : agree_on Vh (a_hold a) (a_hold b);
  ag_m : agree_on Vm (a_hmacs a) (a_hmacs b) }.

Lemma agree_on_refl V x : agree_on V x x.
Proof. intros i _. reflexivity. Qed.

(** which bytes an HMAC check for [position] reads *)
Definition slot_ok (Vm : list bool) (s : nat) : bool :=
  forallb (fun i => nth i Vm false) [s * 4; s * 4 + 1; s * 4 + 2; s * 4 + 3].

Fixpoint ds_ok (Vm : list bool) (n j hmac_idx : nat) : bool :=
  match n with
  | O => true
  | S n' => slot_ok Vm hmac_idx && ds_ok Vm n' (S j) (hmac_idx + (MAX_HOPS - j - 1))
  end.

Definition reads_ok (Vh Vm : list bool) (position : nat) : bool :=
  forallb (fun i => nth i Vh false) (seq 0 ((position + 1) * 4)) &&
  slot_ok Vm (MAX_HOPS - position - 1) &&
  ds_ok Vm position 0 (MAX_HOPS + MAX_HOPS - position - 1).

Lemma slot_ok_get Vm x y s :
  length x = NM -> length y = NM -> (s + 1) * 4 <= NM -> agree_on Vm x y -> slot_ok Vm s = true -> get_hmac x s = get_hmac y s.
Proof.
  intros Hx Hy Hs Hag Hok. unfold slot_ok in Hok. cbn [forallb] in Hok.
  apply andb_true_iff in Hok as [H0 Hok]. apply andb_true_iff in Hok as [H1 Hok].
  apply andb_true_iff in Hok as [H2 Hok]. apply andb_true_iff in Hok as [H3 _].
  apply get_hmac_ext; unfold HMAC_LEN; [lia|lia|].
  intros i Hi. apply Hag.
  assert (i = s * 4 \/ i = s * 4 + 1 \/ i = s * 4 + 2 \/ i = s * 4 + 3) as [->|[->|[->| ->]]] by lia; assumption.
Qed.

(** the slots visited by [downstream_loop] *)
Fixpoint ds_slots (n j hmac_idx : nat) : list nat :=
  match n with
  | O => []
  | S n' => hmac_idx :: ds_slots n' (S j) (hmac_idx + (MAX_HOPS - j - 1))
  end.

Lemma downstream_agree Vm x y : length x = NM -> length y = NM -> agree_on Vm x y ->
  forall n j idx, Forall (fun s => (s + 1) * 4 <= NM) (ds_slots n j idx) -> ds_ok Vm n j idx = true ->
  downstream_loop x n j idx = downstream_loop y n j idx.
Proof.
  intros Hx Hy Hag. induction n as [|n IH]; intros j idx Hb Hok; [reflexivity|].
  cbn [downstream_loop ds_ok ds_slots] in *. apply andb_true_iff in Hok as [H1 H2].
  apply Forall_cons_iff in Hb as [Hb1 Hb2].
  rewrite (slot_ok_get Vm x y idx Hx Hy Hb1 Hag H1). f_equal. now apply IH.
Qed.

(** all slots an HMAC check at a position [<= 19] visits exist *)
Lemma ds_slots_in_range : forallb (fun p => forallb (fun s => (s + 1) * 4 <=? NM) (ds_slots p 0 (MAX_HOPS + MAX_HOPS - p - 1))) (seq 0 MAX_HOPS) = true.
Proof. vm_compute. reflexivity. Qed.

Lemma ds_slots_ok p : p < MAX_HOPS -> Forall (fun s => (s + 1) * 4 <= NM) (ds_slots p 0 (MAX_HOPS + MAX_HOPS - p - 1)).
Proof.
  intros Hp. pose proof ds_slots_in_range as H. rewrite forallb_forall in H.
  specialize (H p ltac:(apply in_seq; lia)). rewrite forallb_forall in H.
  apply Forall_forall. intros s Hs. apply Nat.leb_le. now apply H.
Qed.

(** all those slots lie behind the first [MAX_HOPS] slots, which [add_hmacs] writes *)
Lemma ds_slots_behind : forallb (fun p => forallb (fun s => MAX_HOPS <=? s) (ds_slots p 0 (MAX_HOPS + MAX_HOPS - p - 1))) (seq 0 MAX_HOPS) = true.
Proof. vm_compute. reflexivity. Qed.

(** * Which bytes survive a round trip through a hop *)

(** byte [i] of [shift_left (update (shift_right e))] is byte [i] of [e]: [shift_left] takes it from a
    position [j] that the update does not write, and [shift_right] had put byte [i] there *)
Definition V1h : list bool :=
  map (fun i => let j := nth i sl_hold_tbl 0 in (HOLD_TIME_LEN <=? j) && (j <? NH) && (nth j sr_hold_tbl 0 =? i)) (seq 0 NH).
Definition V1m : list bool :=
  map (fun i => let j := nth i sl_hm_tbl 0 in (MAX_HOPS * HMAC_LEN <=? j) && (j <? NM) && (nth j sr_hm_tbl 0 =? i)) (seq 0 NM).

(** after one more round trip: byte [i] is good if this round trip keeps it and its source was good *)
Definition nextV (tbl : list nat) (V1 V : list bool) : list bool :=
  map (fun i => nth i V1 false && nth (nth i tbl 0) V false) (seq 0 (length V1)).

Definition VP : Type := (list bool * list bool)%type.
Definition nextP (v : VP) : VP := (nextV sl_hold_tbl V1h (fst v), nextV sl_hm_tbl V1m (snd v)).
Fixpoint V_list (n : nat) (v : VP) : list VP :=
  match n with O => [] | S n' => v :: V_list n' (nextP v) end.
Definition V0 : VP := (repeat true NH, repeat true NM).
Definition VS : list VP := V_list MAX_HOPS V0.
(** the bytes of the sender's copy that are still those of hop [m]'s, after [m] round trips *)
Definition Vat (m : nat) : VP := nth m VS V0.

Lemma V_list_nth n : forall v m d, S m < n -> nth (S m) (V_list n v) d = nextP (nth m (V_list n v) d).
Proof.
  induction n as [|n IH]; intros v m d H; [lia|].
  destruct m as [|m].
  - destruct n; [lia|]. reflexivity.
  - cbn [V_list nth]. rewrite <- IH by lia. destruct n; [lia|]. reflexivity.
Qed.

Lemma Vat_S m : S m < MAX_HOPS -> Vat (S m) = nextP (Vat m).
Proof. intros H. unfold Vat, VS. now apply V_list_nth. Qed.

(** THE combinatorial fact: the HMAC check the sender makes for hop [m] of a path whose attributable
    part has [m + p + 1] hops reads only bytes that survived the [m] round trips. *)
Lemma reads_check :
  forallb (fun m => let v := Vat m in forallb (fun p => reads_ok (fst v) (snd v) p) (seq 0 (MAX_HOPS - m)))
          (seq 0 MAX_HOPS) = true.
Proof. vm_compute. reflexivity. Qed.

Lemma reads_ok_at m p : m + p < MAX_HOPS -> reads_ok (fst (Vat m)) (snd (Vat m)) p = true.
Proof.
  intros H. pose proof reads_check as C. rewrite forallb_forall in C.
  specialize (C m ltac:(apply in_seq; lia)). cbv zeta in C. rewrite forallb_forall in C.
  apply C. apply in_seq. lia.
Qed.

Lemma nth_map_seq_true (f : nat -> bool) n i : nth i (map f (seq 0 n)) false = true -> i < n /\ f i = true.
Proof.
  intros H. destruct (Nat.lt_ge_cases i n) as [Hlt|Hge].
  - split; [exact Hlt|].
    rewrite (nth_indep (map f (seq 0 n)) false (f 0)) in H by (now rewrite map_length, seq_length).
    rewrite map_nth, seq_nth in H by exact Hlt. exact H.
  - rewrite nth_overflow in H by (now rewrite map_length, seq_length). discriminate.
Qed.

Lemma nth_true_lt (V : list bool) i : nth i V false = true -> i < length V.
Proof.
  intros H. destruct (Nat.lt_ge_cases i (length V)) as [Hlt|Hge]; [exact Hlt|].
  rewrite nth_overflow in H by exact Hge. discriminate.
Qed.

Section Hold.
  Variable ks : bytes -> nat -> bytes.
  Variable hmac : bytes -> bytes -> bytes.
  Hypothesis ks_length : forall k n, length (ks k n) = n.
  Hypothesis hmac_length : forall k m, length (hmac k m) = 32.

  Notation attr_crypt := (attr_crypt ks).
  Notation attr_hmac_input := attr_hmac_input.
  Notation attr_verify := (attr_verify hmac).
  Notation attr_update := (attr_update hmac).
  Notation add_hmacs_loop := (add_hmacs_loop hmac).

  (** ** crypt *)

  Lemma attr_crypt_ok_len k a : ok_len a -> ok_len (attr_crypt k a).
  Proof.
    intros [Hh Hm]. unfold OnionFail.attr_crypt, ok_len. cbn [a_hold a_hmacs].
    rewrite !xor_bytes_length, firstn_length, skipn_length, ks_length. lia.
  Qed.

  Lemma attr_crypt_involutive k a : ok_len a -> attr_crypt k (attr_crypt k a) = a.
  Proof.
    intros Hok. pose proof (attr_crypt_ok_len k a Hok) as [Hh' Hm']. destruct Hok as [Hh Hm].
    unfold OnionFail.attr_crypt at 1. rewrite Hh', Hm'. unfold OnionFail.attr_crypt. cbn [a_hold a_hmacs].
    rewrite Hh, Hm. destruct a as [h m]. cbn [a_hold a_hmacs] in *. f_equal.
    - apply xor_bytes_cancel. rewrite firstn_length, ks_length. lia.
    - apply xor_bytes_cancel. rewrite skipn_length, ks_length. lia.
  Qed.

  Lemma attr_crypt_agree Vh Vm k a b : agree Vh Vm a b -> agree Vh Vm (attr_crypt k a) (attr_crypt k b).
  Proof.
    intros [La Lb Hh Hm]. split; try now apply attr_crypt_ok_len.
    - unfold OnionFail.attr_crypt. cbn [a_hold]. destruct La as [La1 La2], Lb as [Lb1 Lb2].
      rewrite La1, La2, Lb1, Lb2. intros i Hi. apply nth_xor_agree; [lia|now apply Hh].
    - unfold OnionFail.attr_crypt. cbn [a_hmacs]. destruct La as [La1 La2], Lb as [Lb1 Lb2].
      rewrite La1, La2, Lb1, Lb2. intros i Hi. apply nth_xor_agree; [lia|now apply Hm].
  Qed.

  (** ** verify reads only the positions in [reads_ok] *)

  Lemma attr_verify_agree Vh Vm a b msg k p :
    p < MAX_HOPS -> agree Vh Vm a b -> reads_ok Vh Vm p = true ->
    attr_verify a msg k p = attr_verify b msg k p.
  Proof.
    intros Hp [[La1 La2] [Lb1 Lb2] Hh Hm] Hok. unfold reads_ok in Hok.
    apply andb_true_iff in Hok as [Hok Hds]. apply andb_true_iff in Hok as [Hhold Hslot].
    unfold MAX_HOPS in Hp.
    assert (E1 : firstn ((p + 1) * HOLD_TIME_LEN) (a_hold a) = firstn ((p + 1) * HOLD_TIME_LEN) (a_hold b)).
    { unfold HOLD_TIME_LEN. apply firstn_ext with (d := 0%Z); unfold NH in *; try lia.
      intros i Hi. apply Hh. rewrite forallb_forall in Hhold. apply Hhold. apply in_seq. lia. }
    assert (E2 : write_downstream_hmacs (a_hmacs a) p = write_downstream_hmacs (a_hmacs b) p).
    { unfold write_downstream_hmacs. apply (downstream_agree Vm); try assumption. apply ds_slots_ok. unfold MAX_HOPS. lia. }
    assert (E3 : get_hmac (a_hmacs a) (MAX_HOPS - p - 1) = get_hmac (a_hmacs b) (MAX_HOPS - p - 1)).
    { apply (slot_ok_get Vm); try assumption. unfold MAX_HOPS, NM. lia. }
    assert (E4 : firstn HOLD_TIME_LEN (a_hold a) = firstn HOLD_TIME_LEN (a_hold b)).
    { unfold HOLD_TIME_LEN in *. apply firstn_ext with (d := 0%Z); unfold NH in *; try lia.
      intros i Hi. apply Hh. rewrite forallb_forall in Hhold. apply Hhold. apply in_seq. lia. }
    unfold OnionFail.attr_verify, OnionFail.attr_hmac_input. now rewrite E1, E2, E3, E4.
  Qed.

  (** ** [add_hmacs] writes, for every position, the HMAC that [verify] recomputes *)

  Definition tail_eq (x y : bytes) : Prop :=
    length x = length y /\ forall i, MAX_HOPS * HMAC_LEN <= i -> nth i x 0%Z = nth i y 0%Z.

  Definition V_behind : list bool := repeat false (MAX_HOPS * HMAC_LEN) ++ repeat true (NM - MAX_HOPS * HMAC_LEN).

  Lemma V_behind_ds : forallb (fun p => ds_ok V_behind p 0 (MAX_HOPS + MAX_HOPS - p - 1)) (seq 0 MAX_HOPS) = true.
  Proof. vm_compute. reflexivity. Qed.

  Lemma tail_eq_agree x y : tail_eq x y -> agree_on V_behind x y.
  Proof.
    intros [_ H] i Hi. apply H. unfold V_behind in Hi.
    destruct (Nat.lt_ge_cases i (MAX_HOPS * HMAC_LEN)) as [Hlt|Hge]; [|exact Hge].
    rewrite app_nth1 in Hi by (now rewrite repeat_length).
    rewrite nth_repeat in Hi. discriminate.
  Qed.

  Lemma input_tail_eq a b msg p :
    p < MAX_HOPS -> a_hold a = a_hold b -> length (a_hmacs a) = NM -> tail_eq (a_hmacs a) (a_hmacs b) ->
    attr_hmac_input a msg p = attr_hmac_input b msg p.
  Proof.
    intros Hp Hh Hl Ht. unfold OnionFail.attr_hmac_input. rewrite Hh. do 2 f_equal.
    unfold write_downstream_hmacs.
    apply (downstream_agree V_behind); [exact Hl|destruct Ht; congruence|now apply tail_eq_agree|now apply ds_slots_ok|].
    pose proof V_behind_ds as H. rewrite forallb_forall in H. apply H. apply in_seq. lia.
  Qed.

  Lemma add_hmacs_loop_spec um msg : forall n idx a,
    idx + n = MAX_HOPS -> length (a_hmacs a) = NM ->
    a_hold (add_hmacs_loop n idx um msg a) = a_hold a /\
    tail_eq (a_hmacs (add_hmacs_loop n idx um msg a)) (a_hmacs a) /\
    (forall i, i < idx * HMAC_LEN -> nth i (a_hmacs (add_hmacs_loop n idx um msg a)) 0%Z = nth i (a_hmacs a) 0%Z) /\
    (forall s, idx <= s < MAX_HOPS ->
       get_hmac (a_hmacs (add_hmacs_loop n idx um msg a)) s =
       firstn HMAC_LEN (hmac um (attr_hmac_input a msg (MAX_HOPS - s - 1)))).
  Proof.
    induction n as [|n IH]; intros idx a Hn Hl.
    - cbn [OnionFail.add_hmacs_loop]. repeat split; try reflexivity. intros s Hs. lia.
    - cbn [OnionFail.add_hmacs_loop].
      set (v := firstn HMAC_LEN (hmac um (attr_hmac_input a msg (MAX_HOPS - idx - 1)))).
      assert (Hv : length v = HMAC_LEN) by (unfold v; rewrite firstn_length, hmac_length; unfold HMAC_LEN; lia).
      assert (Hidx : (idx + 1) * HMAC_LEN <= length (a_hmacs a)) by (rewrite Hl; unfold HMAC_LEN, NM, MAX_HOPS in *; lia).
      set (a1 := mk_attr (a_hold a) (set_hmac (a_hmacs a) idx v)).
      assert (Hl1 : length (a_hmacs a1) = NM) by (cbn [a1 a_hmacs]; rewrite set_hmac_length; assumption).
      destruct (IH (S idx) a1 ltac:(lia) Hl1) as (Hh & Ht & Hp & Hs).
      assert (Ht1 : tail_eq (a_hmacs a1) (a_hmacs a)).
      { split; [cbn [a1 a_hmacs]; now rewrite set_hmac_length|].
        intros i Hi. cbn [a1 a_hmacs]. apply set_hmac_nth_out; try assumption.
        right. unfold HMAC_LEN, MAX_HOPS in *. lia. }
      split; [exact Hh|]. split; [|split].
      + destruct Ht as [Ht Ht'], Ht1 as [Ht1 Ht1']. split; [congruence|]. intros i Hi. now rewrite Ht', Ht1'.
      + intros i Hi. rewrite Hp by (unfold HMAC_LEN in *; lia).
        cbn [a1 a_hmacs]. apply set_hmac_nth_out; try assumption. now left.
      + intros s Hs'. destruct (Nat.eq_dec s idx) as [->|Hne].
        * transitivity (get_hmac (a_hmacs a1) idx); [|cbn [a1 a_hmacs]; now apply get_set_hmac].
          destruct Ht as [Ht _]. apply get_hmac_ext.
          -- rewrite Ht, Hl1. unfold HMAC_LEN, NM, MAX_HOPS in *. lia.
          -- rewrite Hl1. unfold HMAC_LEN, NM, MAX_HOPS in *. lia.
          -- intros i Hi. apply Hp. unfold HMAC_LEN in *. lia.
        * rewrite Hs by lia. do 2 f_equal.
          apply input_tail_eq; [unfold MAX_HOPS in *; lia|reflexivity|exact Hl1|exact Ht1].
  Qed.

  Lemma attr_update_spec S msg k t : ok_len S ->
    ok_len (attr_update S msg k t) /\
    (forall i, HOLD_TIME_LEN <= i -> nth i (a_hold (attr_update S msg k t)) 0%Z = nth i (a_hold S) 0%Z) /\
    (forall i, MAX_HOPS * HMAC_LEN <= i -> nth i (a_hmacs (attr_update S msg k t)) 0%Z = nth i (a_hmacs S) 0%Z).
  Proof.
    intros [Hh Hm]. unfold OnionFail.attr_update, OnionFail.add_hmacs.
    set (a0 := mk_attr (be32 t ++ skipn HOLD_TIME_LEN (a_hold S)) (a_hmacs S)).
    destruct (add_hmacs_loop_spec (fk_um k) msg MAX_HOPS 0 a0 eq_refl Hm) as (H1 & [H2 H2'] & _ & _).
    split; [|split].
    - split; [rewrite H1; cbn [a0 a_hold]; rewrite app_length, length_be32, skipn_length, Hh; reflexivity|].
      rewrite H2. exact Hm.
    - intros i Hi. rewrite H1. cbn [a0 a_hold]. unfold HOLD_TIME_LEN in *.
      rewrite app_nth2 by (rewrite length_be32; lia). rewrite length_be32, nth_skipn'. f_equal. lia.
    - intros i Hi. now rewrite H2'.
  Qed.

  (** a hop's own HMACs verify, for every position it might be at, and report its hold time *)
  Lemma attr_verify_update S msg k t p :
    ok_len S -> p < MAX_HOPS -> (0 <= t < 2 ^ 32)%Z -> attr_verify (attr_update S msg k t) msg k p = Some t.
  Proof.
    intros [Hh Hm] Hp Ht. unfold OnionFail.attr_verify, OnionFail.attr_update, OnionFail.add_hmacs.
    set (a0 := mk_attr (be32 t ++ skipn HOLD_TIME_LEN (a_hold S)) (a_hmacs S)).
    destruct (add_hmacs_loop_spec (fk_um k) msg MAX_HOPS 0 a0 eq_refl Hm) as (H1 & H2 & _ & H4).
    rewrite (H4 (MAX_HOPS - p - 1)) by lia.
    replace (MAX_HOPS - (MAX_HOPS - p - 1) - 1) with p by lia.
    rewrite (input_tail_eq _ a0 msg p Hp H1); [|destruct H2 as [H2 _]; rewrite H2; exact Hm|exact H2].
    rewrite bytes_eqb_refl, H1. cbn [a0 a_hold]. f_equal.
    unfold HOLD_TIME_LEN. rewrite firstn_app_exact by apply length_be32. now apply of_be32_be32.
  Qed.

  (** ** One hop of the way back, and the sender undoing it *)

  Lemma attr_new_ok_len : ok_len attr_new.
  Proof. split; reflexivity. Qed.

  Lemma shift_right_ok_len e : ok_len e -> ok_len (shift_right e).
  Proof.
    intros [Hh Hm]. destruct tbl_lengths as (_ & L2 & _ & L4). split; cbn [shift_right a_hold a_hmacs].
    - rewrite shift_right_hold_gather by exact Hh. now rewrite gather_length.
    - rewrite shift_right_hmacs_gather by exact Hm. now rewrite gather_length.
  Qed.

  Lemma shift_left_ok_len e : ok_len e -> ok_len (shift_left e).
  Proof.
    intros [Hh Hm]. destruct tbl_lengths as (L1 & _ & L3 & _). split; cbn [shift_left a_hold a_hmacs].
    - rewrite shift_left_hold_gather by exact Hh. now rewrite gather_length.
    - rewrite shift_left_hmacs_gather by exact Hm. now rewrite gather_length.
  Qed.

  (** what the sender holds after undoing hop [m]'s layer and shifting left agrees, on the surviving
      bytes, with what hop [m] had received from downstream *)
  Lemma undo_hop V a e msg k t :
    ok_len e ->
    agree (fst V) (snd V) a (attr_update (shift_right e) msg k t) ->
    agree (fst (nextP V)) (snd (nextP V)) (shift_left a) e.
  Proof.
    intros He [La Lu Hh Hm].
    pose proof (shift_right_ok_len e He) as Hs.
    destruct (attr_update_spec (shift_right e) msg k t Hs) as (_ & Uh & Um).
    destruct tbl_lengths as (L1 & L2 & L3 & L4).
    destruct La as [La1 La2], He as [He1 He2].
    split; [apply shift_left_ok_len; split; assumption|split; assumption| |].
    - intros i Hi. cbn [nextP fst nextV] in Hi.
      apply nth_map_seq_true in Hi as [Hi1 Hi]. apply andb_true_iff in Hi as [Hv1 Hv].
      unfold V1h in Hv1. apply nth_map_seq_true in Hv1 as [_ Hv1]. cbv zeta in Hv1.
      apply andb_true_iff in Hv1 as [Hv1 Hc]. apply andb_true_iff in Hv1 as [Ha Hb].
      apply Nat.leb_le in Ha. apply Nat.ltb_lt in Hb. apply Nat.eqb_eq in Hc.
      cbn [shift_left a_hold]. rewrite shift_left_hold_gather by exact La1.
      rewrite gather_nth by (rewrite L1; unfold V1h in Hi1; now rewrite map_length, seq_length in Hi1).
      rewrite (Hh _ Hv), Uh by exact Ha.
      cbn [shift_right a_hold]. rewrite shift_right_hold_gather by exact He1.
      rewrite gather_nth by (now rewrite L2). now rewrite Hc.
    - intros i Hi. cbn [nextP snd nextV] in Hi.
      apply nth_map_seq_true in Hi as [Hi1 Hi]. apply andb_true_iff in Hi as [Hv1 Hv].
      unfold V1m in Hv1. apply nth_map_seq_true in Hv1 as [_ Hv1]. cbv zeta in Hv1.
      apply andb_true_iff in Hv1 as [Hv1 Hc]. apply andb_true_iff in Hv1 as [Ha Hb].
      apply Nat.leb_le in Ha. apply Nat.ltb_lt in Hb. apply Nat.eqb_eq in Hc.
      cbn [shift_left a_hmacs]. rewrite shift_left_hmacs_gather by exact La2.
      rewrite gather_nth by (rewrite L3; unfold V1m in Hi1; now rewrite map_length, seq_length in Hi1).
      rewrite (Hm _ Hv), Um by exact Ha.
      cbn [shift_right a_hmacs]. rewrite shift_right_hmacs_gather by exact He2.
      rewrite gather_nth by (now rewrite L4). now rewrite Hc.
  Qed.

  (** the sender's check for hop [m] succeeds with that hop's hold time *)
  Lemma sender_check m p A S msg k t :
    m + p < MAX_HOPS -> ok_len S -> (0 <= t < 2 ^ 32)%Z ->
    agree (fst (Vat m)) (snd (Vat m)) A (attr_crypt k (attr_update S msg k t)) ->
    attr_verify (attr_crypt k A) msg k p = Some t /\
    agree (fst (Vat m)) (snd (Vat m)) (attr_crypt k A) (attr_update S msg k t).
  Proof.
    intros Hmp HS Ht Hag.
    destruct (attr_update_spec S msg k t HS) as (HU & _ & _).
    pose proof (attr_crypt_agree _ _ k _ _ Hag) as Hag'. rewrite attr_crypt_involutive in Hag' by exact HU.
    split; [|exact Hag'].
    rewrite (attr_verify_agree _ _ _ _ msg k p ltac:(lia) Hag' (reads_ok_at m p Hmp)).
    apply attr_verify_update; [exact HS|lia|exact Ht].
  Qed.

  (** ** Fulfilled payments *)

  Notation process_fulfill := (process_fulfill ks hmac).
  Notation fulfill_at_sender := (fulfill_at_sender ks hmac).
  Notation fulfill_loop := (fulfill_loop ks hmac).
  Notation decode_fulfill := (decode_fulfill ks hmac).

  Lemma fulfill_at_sender_cons kh rest :
    fulfill_at_sender (kh :: rest) = Some (process_fulfill (fulfill_at_sender rest) (fst kh) (snd kh)).
  Proof. reflexivity. Qed.

  Lemma fulfill_at_sender_ok hops E : fulfill_at_sender hops = Some E -> ok_len E.
  Proof.
    revert E. induction hops as [|kh rest IH]; intros E H; [discriminate|].
    rewrite fulfill_at_sender_cons in H. injection H as <-.
    unfold OnionFail.process_fulfill. apply attr_crypt_ok_len.
    apply attr_update_spec.
    destruct (fulfill_at_sender rest) as [e|]; [apply shift_right_ok_len; now apply IH|apply attr_new_ok_len].
  Qed.

  Lemma fulfill_loop_ok : forall hops idx cnt A E ht,
    cnt <= MAX_HOPS -> idx <= cnt ->
    Forall (fun kh => (0 <= snd kh < 2 ^ 32)%Z) hops ->
    fulfill_at_sender hops = Some E ->
    (idx < cnt -> agree (fst (Vat idx)) (snd (Vat idx)) A E) ->
    fulfill_loop (map fst hops) idx cnt A ht = ht ++ firstn (cnt - idx) (map snd hops).
  Proof.
    induction hops as [|[k t] rest IH]; intros idx cnt A E ht Hcnt Hidx Hr HE Hag; [discriminate|].
    cbn [map fst snd OnionFail.fulfill_loop].
    destruct (idx <? cnt) eqn:Elt.
    2:{ apply Nat.ltb_ge in Elt. replace (cnt - idx) with 0 by lia. cbn [firstn]. now rewrite app_nil_r. }
    apply Nat.ltb_lt in Elt. specialize (Hag Elt).
    apply Forall_cons_iff in Hr as [Ht Hr]. cbn [snd] in Ht.
    rewrite fulfill_at_sender_cons in HE. injection HE as <-. cbn [fst snd] in *.
    unfold OnionFail.process_fulfill in Hag.
    set (S := match fulfill_at_sender rest with None => attr_new | Some a => shift_right a end) in *.
    assert (HS : ok_len S).
    { unfold S. destruct (fulfill_at_sender rest) as [e|] eqn:Er;
        [apply shift_right_ok_len; eapply fulfill_at_sender_ok; exact Er|apply attr_new_ok_len]. }
    destruct (sender_check idx (cnt - idx - 1) A S [] k t ltac:(lia) HS Ht Hag) as [Hv Hag'].
    rewrite Hv.
    replace (cnt - idx) with (Datatypes.S (cnt - Datatypes.S idx)) by lia. cbn [firstn].
    destruct rest as [|kh2 rest'].
    - cbn [map OnionFail.fulfill_loop]. now rewrite firstn_nil.
    - remember (kh2 :: rest') as rest eqn:Erest.
      destruct (fulfill_at_sender rest) as [e|] eqn:Er; [|subst rest; discriminate Er].
      rewrite (IH (Datatypes.S idx) cnt (shift_left (attr_crypt k A)) e (ht ++ [t]) Hcnt ltac:(lia) Hr eq_refl).
      + now rewrite <- app_assoc.
      + intros Hlt. rewrite Vat_S by lia. unfold S in Hag'.
        eapply undo_hop; [eapply fulfill_at_sender_ok; exact Er|exact Hag'].
  Qed.

  (** C14, hold times of a fulfilled payment.  Every hop of the path, last one first, puts its hold
      time into the attribution data ([process_fulfill_attribution_data]); the sender
      ([decode_fulfill_attribution_data]) reads the hold times of the first [MAX_HOPS] hops, in path
      order.  No side condition on the primitives is needed. *)
  Theorem hold_times_fulfill (hops : list (fkeys * Z)) :
    hops <> [] -> Forall (fun kh => (0 <= snd kh < 2 ^ 32)%Z) hops ->
    exists E, fulfill_at_sender hops = Some E /\
              decode_fulfill (map fst hops) E = firstn MAX_HOPS (map snd hops).
  Proof.
    intros Hne Hr. destruct hops as [|kh rest]; [congruence|].
    eexists. split; [apply fulfill_at_sender_cons|].
    set (hops := kh :: rest) in *. set (E := process_fulfill (fulfill_at_sender rest) (fst kh) (snd kh)).
    unfold OnionFail.decode_fulfill.
    rewrite (fulfill_loop_ok hops 0 (Nat.min (length (map fst hops)) MAX_HOPS) E E []
               ltac:(apply Nat.le_min_r) ltac:(lia) Hr (fulfill_at_sender_cons kh rest)).
    - cbn [app]. rewrite Nat.sub_0_r, map_length.
      destruct (Nat.le_ge_cases (length hops) MAX_HOPS) as [H|H].
      + rewrite Nat.min_l by exact H. rewrite !firstn_all2 by (rewrite map_length; lia). reflexivity.
      + now rewrite Nat.min_r by exact H.
    - intros _. assert (HE : ok_len E) by (eapply fulfill_at_sender_ok; apply fulfill_at_sender_cons).
      split; try exact HE; apply agree_on_refl.
  Qed.

  (** ** Failed payments *)

  Notation crypt_data := (crypt_data ks).
  Notation crypt_failure_packet := (crypt_failure_packet ks).
  Notation failure_plain := (failure_plain hmac).
  Notation build_failure_packet := (build_failure_packet ks hmac).
  Notation wrap_failure := (wrap_failure ks hmac).
  Notation failure_at_sender := (failure_at_sender ks hmac).
  Notation failure_loop := (failure_loop ks hmac).
  Notation attribution_step := (attribution_step hmac).
  Notation process_onion_failure := (process_onion_failure ks hmac).
  Notation wrapped := (wrapped ks).
  Notation no_spurious_match := (no_spurious_match ks hmac).

  (** the failure message is small enough for the attribution data to fit into [update_fail_htlc] *)
  Definition fits_wire (data_len : nat) : Prop := (Z.of_nat data_len <= 64567)%Z.

  Lemma wire_len_ok p a : e_attr p = Some a -> ok_len a -> fits_wire (length (e_data p)) ->
    keeps_attribution p = true.
  Proof.
    intros Ha [Hh Hm] Hf. unfold keeps_attribution, update_fail_htlc_wire_len, attr_bytes.
    rewrite Ha, app_length, Hh, Hm.
    unfold fits_wire in Hf. unfold LN_MAX_MSG_LEN, NH, NM. apply negb_true_iff, Z.ltb_ge. lia.
  Qed.

  Lemma wire_len_too_long p a : e_attr p = Some a -> ok_len a -> ~ fits_wire (length (e_data p)) ->
    keeps_attribution p = false.
  Proof.
    intros Ha [Hh Hm] Hf. unfold keeps_attribution, update_fail_htlc_wire_len, attr_bytes.
    rewrite Ha, app_length, Hh, Hm.
    unfold fits_wire in Hf. unfold LN_MAX_MSG_LEN, NH, NM. apply negb_false_iff, Z.ltb_lt. lia.
  Qed.

  (** C14, message-size boundary.  A relaying hop keeps (its own and the downstream) attribution data
      exactly when the failure's data has at most 64567 bytes, i.e. when the [update_fail_htlc] with the
      920 attribution bytes has at most [LN_MAX_MSG_LEN] = 65535 bytes - whether or not the packet it
      received carried attribution data. *)
  Theorem relay_attribution_boundary k t P :
    (e_attr P = None \/ exists e, e_attr P = Some e /\ ok_len e) ->
    ((exists a, e_attr (wrap_failure k t P) = Some a) <-> fits_wire (length (e_data P))).
  Proof.
    intros HP. unfold OnionFail.wrap_failure, OnionFail.process_failure_packet.
    set (p2 := update_attribution_data hmac (mk_err (e_data P) (option_map shift_right (e_attr P))) k t).
    assert (Hp2 : exists a, e_attr p2 = Some a /\ ok_len a /\ e_data p2 = e_data P).
    { unfold p2, update_attribution_data. cbn [e_attr e_data].
      eexists. split; [reflexivity|]. split; [|reflexivity]. apply attr_update_spec.
      destruct HP as [->|(e & -> & Hok)]; cbn [option_map]; [apply attr_new_ok_len|now apply shift_right_ok_len]. }
    destruct Hp2 as (a & Ha & Hoka & Hd).
    split.
    - intros [x Hx]. destruct (keeps_attribution p2) eqn:K; [|discriminate Hx].
      unfold fits_wire. destruct (Z_le_gt_dec (Z.of_nat (length (e_data P))) 64567) as [H|H]; [exact H|].
      rewrite (wire_len_too_long p2 a Ha Hoka) in K; [discriminate|]. rewrite Hd. unfold fits_wire. lia.
    - intros Hf. rewrite (wire_len_ok p2 a Ha Hoka) by (now rewrite Hd).
      unfold OnionFail.crypt_failure_packet. rewrite Ha. cbn [option_map e_attr]. eauto.
  Qed.

  Lemma wrap_failure_attr k t P e :
    e_attr P = Some e -> ok_len e -> fits_wire (length (e_data P)) ->
    e_attr (wrap_failure k t P) = Some (attr_crypt k (attr_update (shift_right e) (e_data P) k t)).
  Proof.
    intros He Hok Hf. unfold OnionFail.wrap_failure, OnionFail.process_failure_packet.
    set (p2 := update_attribution_data hmac (mk_err (e_data P) (option_map shift_right (e_attr P))) k t).
    assert (Hp2 : p2 = mk_err (e_data P) (Some (attr_update (shift_right e) (e_data P) k t))).
    { unfold p2, update_attribution_data. cbn [e_attr e_data]. now rewrite He. }
    rewrite (wire_len_ok p2 (attr_update (shift_right e) (e_data P) k t)).
    - rewrite Hp2. reflexivity.
    - now rewrite Hp2.
    - apply attr_update_spec. now apply shift_right_ok_len.
    - now rewrite Hp2.
  Qed.

  Lemma build_failure_attr k code d t :
    e_attr (build_failure_packet k code d t) =
    Some (attr_crypt k (attr_update attr_new (failure_plain k code d DEFAULT_MIN_FAILURE_PACKET_LEN) k t)).
  Proof. reflexivity. Qed.

  Lemma failure_at_sender_cons kh rest ki code d hi :
    failure_at_sender (kh :: rest) ki code d hi = wrap_failure (fst kh) (snd kh) (failure_at_sender rest ki code d hi).
  Proof. reflexivity. Qed.

  Lemma failure_at_sender_len before ki code d hi :
    length (e_data (failure_at_sender before ki code d hi)) = length (failure_plain ki code d DEFAULT_MIN_FAILURE_PACKET_LEN).
  Proof.
    rewrite (failure_at_sender_data ks hmac), (wrapped_length ks ks_length). apply (crypt_data_length ks ks_length).
  Qed.

  Lemma failure_at_sender_attr_ok before ki code d hi :
    fits_wire (length (failure_plain ki code d DEFAULT_MIN_FAILURE_PACKET_LEN)) ->
    exists E, e_attr (failure_at_sender before ki code d hi) = Some E /\ ok_len E.
  Proof.
    intros Hf. induction before as [|kh rest IH].
    - eexists. split; [apply build_failure_attr|]. apply attr_crypt_ok_len. apply attr_update_spec. apply attr_new_ok_len.
    - destruct IH as (e & He & Hok). eexists. split.
      + rewrite failure_at_sender_cons. apply wrap_failure_attr; [exact He|exact Hok|].
        now rewrite failure_at_sender_len.
      + apply attr_crypt_ok_len. apply attr_update_spec. now apply shift_right_ok_len.
  Qed.

  Lemma failure_loop_holds ki after code d hi :
    (0 <= code < 65536)%Z -> (2 + Z.of_nat (length d) < 65535)%Z -> (0 <= hi < 2 ^ 32)%Z ->
    let plain := failure_plain ki code d DEFAULT_MIN_FAILURE_PACKET_LEN in
    fits_wire (length plain) ->
    forall before idx cnt A E ht,
    cnt <= MAX_HOPS ->
    Forall (fun kh => (0 <= snd kh < 2 ^ 32)%Z) before ->
    no_spurious_match (map fst before) (crypt_data ki plain) ->
    e_attr (failure_at_sender before ki code d hi) = Some E ->
    (idx < cnt -> agree (fst (Vat idx)) (snd (Vat idx)) A E) ->
    snd (failure_loop (map fst before ++ ki :: after) idx cnt
           (mk_err (e_data (failure_at_sender before ki code d hi)) (Some A)) false ht)
    = ht ++ firstn (cnt - idx) (map snd before ++ [hi]).
  Proof.
    intros Hc Hd Hhi plain Hfit.
    induction before as [|[k t] rest IH]; intros idx cnt A E ht Hcnt Hr Hns HE Hag.
    - (* the failing hop *)
      cbn [map app OnionFail.failure_loop].
      change (failure_at_sender [] ki code d hi) with (build_failure_packet ki code d hi) in HE.
      rewrite build_failure_attr in HE. injection HE as <-.
      rewrite (failure_at_sender_data ks hmac). cbn [map C14Fail.wrapped fold_right].
      unfold OnionFail.crypt_failure_packet. cbn [e_data e_attr option_map].
      rewrite !(crypt_data_involutive ks ks_length). fold plain.
      set (st := attribution_step ki idx cnt (mk_err plain (Some (attr_crypt ki A))) false ht).
      assert (Hst : e_data (fst (fst st)) = plain /\ snd st = ht ++ firstn (cnt - idx) [hi]).
      { unfold st, OnionFail.attribution_step. cbn [e_attr e_data].
        destruct (idx <? cnt) eqn:Elt.
        - apply Nat.ltb_lt in Elt.
          destruct (sender_check idx (cnt - idx - 1) A attr_new plain ki hi ltac:(lia) attr_new_ok_len Hhi (Hag Elt)) as [Hv _].
          rewrite Hv. cbn [fst snd e_data]. split; [reflexivity|].
          replace (cnt - idx) with (Datatypes.S (cnt - idx - 1)) by lia. cbn [firstn]. now rewrite firstn_nil.
        - apply Nat.ltb_ge in Elt. cbn [fst snd e_data]. split; [reflexivity|].
          replace (cnt - idx) with 0 by lia. cbn [firstn]. now rewrite app_nil_r. }
      destruct Hst as [Hst1 Hst2]. rewrite Hst1. unfold plain.
      rewrite (failure_plain_hmac_ok hmac hmac_length), bytes_eqb_refl. cbn [negb].
      rewrite (read_failure_plain hmac hmac_length) by (try assumption; unfold DEFAULT_MIN_FAILURE_PACKET_LEN; lia).
      unfold be16 at 1. cbn [app snd]. exact Hst2.
    - (* a hop that passes the failure on *)
      cbn [map app fst snd OnionFail.failure_loop] in *.
      destruct Hns as [Hk Hns]. apply Forall_cons_iff in Hr as [Ht Hr]. cbn [snd] in Ht.
      destruct (failure_at_sender_attr_ok rest ki code d hi Hfit) as (e & He & Hoke).
      set (P' := failure_at_sender rest ki code d hi) in *.
      rewrite failure_at_sender_cons in HE |- *. cbn [fst snd] in *. fold P' in HE |- *.
      rewrite (wrap_failure_attr k t P' e He Hoke) in HE by (unfold P'; now rewrite failure_at_sender_len).
      injection HE as <-.
      unfold OnionFail.crypt_failure_packet. cbn [e_data e_attr option_map].
      rewrite !(wrap_failure_data ks hmac), !(crypt_data_involutive ks ks_length).
      set (msg := e_data P') in *.
      set (st := attribution_step k idx cnt (mk_err msg (Some (attr_crypt k A))) false ht).
      assert (Hmsg : msg = wrapped (map fst rest) (crypt_data ki plain)).
      { unfold msg, P'. apply (failure_at_sender_data ks hmac). }
      assert (Hst : exists A', fst st = (mk_err msg (Some A'), false) /\ snd st = ht ++ firstn (cnt - idx) [t] /\
                     (Datatypes.S idx < cnt -> agree (fst (Vat (Datatypes.S idx))) (snd (Vat (Datatypes.S idx))) A' e)).
      { unfold st, OnionFail.attribution_step. cbn [e_attr e_data].
        destruct (idx <? cnt) eqn:Elt.
        - apply Nat.ltb_lt in Elt.
          destruct (sender_check idx (cnt - idx - 1) A (shift_right e) msg k t ltac:(lia)
                      (shift_right_ok_len e Hoke) Ht (Hag Elt)) as [Hv Hag'].
          rewrite Hv. eexists. cbn [fst snd]. split; [reflexivity|]. split.
          + replace (cnt - idx) with (Datatypes.S (cnt - idx - 1)) by lia. cbn [firstn]. now rewrite firstn_nil.
          + intros Hlt. rewrite Vat_S by lia. eapply undo_hop; [exact Hoke|exact Hag'].
        - apply Nat.ltb_ge in Elt. eexists. cbn [fst snd]. split; [reflexivity|]. split.
          + replace (cnt - idx) with 0 by lia. cbn [firstn]. now rewrite app_nil_r.
          + intros Hlt. lia. }
      destruct Hst as (A' & Hst1 & Hst2 & Hst3). rewrite Hst1, Hst2. cbn [fst snd e_data].
      rewrite Hmsg.
      destruct (bytes_eqb (hmac (fk_um k) (skipn 32 (wrapped (map fst rest) (crypt_data ki plain))))
                          (firstn 32 (wrapped (map fst rest) (crypt_data ki plain)))) eqn:Eb.
      { apply bytes_eqb_eq in Eb. contradiction. }
      cbn [negb]. rewrite <- Hmsg. subst msg. subst P'.
      rewrite (IH (Datatypes.S idx) cnt A' e (ht ++ firstn (cnt - idx) [t]) Hcnt Hr Hns He Hst3).
      rewrite <- app_assoc. f_equal.
      destruct (Nat.lt_ge_cases idx cnt) as [Hlt|Hge].
      + replace (cnt - idx) with (Datatypes.S (cnt - Datatypes.S idx)) by lia. cbn [firstn app]. now rewrite firstn_nil.
      + replace (cnt - idx) with 0 by lia. replace (cnt - Datatypes.S idx) with 0 by lia. reflexivity.
  Qed.

  (** C14, hold times of a failed payment.  The failing hop [length before] and every hop before it
      put their hold times into the attribution data of the failure; the sender reads the hold times
      of (the first [MAX_HOPS] of) the hops up to the failing one, in path order - under the same
      side condition as attribution itself (no spurious HMAC match before the failing hop). *)
  Theorem hold_times_failure before ki after code d hi :
    (0 <= code < 65536)%Z -> (Z.of_nat (length d) <= 64529)%Z -> (0 <= hi < 2 ^ 32)%Z ->
    Forall (fun kh => (0 <= snd kh < 2 ^ 32)%Z) before ->
    no_spurious_match (map fst before) (crypt_data ki (failure_plain ki code d DEFAULT_MIN_FAILURE_PACKET_LEN)) ->
    snd (process_onion_failure (map fst before ++ ki :: after) (failure_at_sender before ki code d hi))
    = firstn MAX_HOPS (map snd before ++ [hi]).
  Proof.
    intros Hc Hd Hhi Hr Hns.
    assert (Hfit : fits_wire (length (failure_plain ki code d DEFAULT_MIN_FAILURE_PACKET_LEN))).
    { unfold fits_wire, OnionFail.failure_plain, failure_body, DEFAULT_MIN_FAILURE_PACKET_LEN.
      rewrite !app_length, hmac_length, !length_be16, length_zeros. lia. }
    destruct (failure_at_sender_attr_ok before ki code d hi Hfit) as (E & HE & HokE).
    unfold OnionFail.process_onion_failure.
    destruct (length (e_data (failure_at_sender before ki code d hi)) <? 32) eqn:E32.
    { apply Nat.ltb_lt in E32. rewrite failure_at_sender_len in E32.
      pose proof (failure_plain_length hmac hmac_length ki code d DEFAULT_MIN_FAILURE_PACKET_LEN). lia. }
    set (cnt := Nat.min (length (map fst before ++ ki :: after)) MAX_HOPS).
    assert (Hp : failure_at_sender before ki code d hi =
                 mk_err (e_data (failure_at_sender before ki code d hi)) (Some E)).
    { revert HE. destruct (failure_at_sender before ki code d hi) as [dd aa]. cbn [e_attr e_data]. now intros ->. }
    rewrite Hp.
    rewrite (failure_loop_holds ki after code d hi Hc ltac:(lia) Hhi Hfit before 0 cnt E E []
               ltac:(apply Nat.le_min_r) Hr Hns HE).
    - cbn [app]. rewrite Nat.sub_0_r. unfold cnt. rewrite !app_length, map_length. cbn [length].
      set (l := map snd before ++ [hi]).
      assert (Hl : length l = length before + 1) by (unfold l; rewrite app_length, map_length; reflexivity).
      destruct (Nat.le_ge_cases (length before + Datatypes.S (length after)) MAX_HOPS) as [H|H].
      + rewrite Nat.min_l by exact H. rewrite (firstn_all2 (n := MAX_HOPS)) by lia.
        (* more attributable hops than hold times: both are the whole list *)
        apply firstn_all2. lia.
      + rewrite Nat.min_r by exact H. reflexivity.
    - intros _. split; try exact HokE; apply agree_on_refl.
  Qed.

  (** ** The receiving node and its phantom hop *)

  Notation claim_attribution := (claim_attribution ks hmac).
  Notation local_failure := (local_failure ks hmac).

  Definition phantom_hops (incoming : fkeys) (phantom : option fkeys) : list (fkeys * Z) :=
    (incoming, 0%Z) :: match phantom with Some ph => [(ph, 0%Z)] | None => [] end.

  (** claiming: the receiving node's attribution data is that of one or - for a payment received
      through a phantom hop - two hops with zero hold time, the phantom hop's layer innermost *)
  Lemma claim_attribution_chain incoming phantom :
    fulfill_at_sender (phantom_hops incoming phantom) = Some (claim_attribution incoming phantom).
  Proof. destruct phantom; reflexivity. Qed.

  (** failing: likewise the failure of a payment received through a phantom hop is the failure of
      the phantom hop re-wrapped by the real node *)
  Lemma local_failure_chain incoming phantom code d :
    local_failure incoming phantom code d =
    match phantom with
    | Some ph => failure_at_sender [(incoming, 0%Z)] ph code d 0%Z
    | None => failure_at_sender [] incoming code d 0%Z
    end.
  Proof. destruct phantom; reflexivity. Qed.

  Lemma fulfill_at_sender_app before rest :
    fulfill_at_sender (before ++ rest) =
    fold_right (fun kh a => Some (process_fulfill a (fst kh) (snd kh))) (fulfill_at_sender rest) before.
  Proof. unfold OnionFail.fulfill_at_sender. apply fold_right_app. Qed.

  (** C14, hold times of a claimed payment, including phantom receives: the hops before the
      receiving node process what [claim_payment_internal] produced; the sender reads their hold times
      followed by the zero hold times of the receiving node and of its phantom hop. *)
  Theorem hold_times_claim (before : list (fkeys * Z)) incoming phantom :
    Forall (fun kh => (0 <= snd kh < 2 ^ 32)%Z) before ->
    exists E,
      fold_right (fun kh a => Some (process_fulfill a (fst kh) (snd kh)))
                 (Some (claim_attribution incoming phantom)) before = Some E /\
      decode_fulfill (map fst before ++ map fst (phantom_hops incoming phantom)) E =
      firstn MAX_HOPS (map snd before ++ map snd (phantom_hops incoming phantom)).
  Proof.
    intros Hr.
    destruct (hold_times_fulfill (before ++ phantom_hops incoming phantom)) as (E & HE & Hd).
    - destruct before; discriminate.
    - apply Forall_app. split; [exact Hr|]. unfold phantom_hops. destruct phantom; repeat constructor; cbn; lia.
    - exists E. rewrite fulfill_at_sender_app, claim_attribution_chain in HE. split; [exact HE|].
      now rewrite !map_app in Hd.
  Qed.
End Hold.
