(** C04, part A — proofs about the stateless payment secrets (Model/InboundSecret.v). *)
From LdkV Require Import Prim.U64 Crypto.Bytes Gen.ConstsC04 Model.InboundSecret.
Open Scope Z_scope.

(** * 64-bit big-endian encoding round trip *)
Lemma of_be64_be64 x : 0 <= x < 2 ^ 64 -> of_be64 (be64 x) = x.
Proof.
  intros H. unfold of_be64, be64, be32, of_be, b0, b1, b2, b3. cbn [app firstn fold_left].
  rewrite !Z.shiftr_shiftr by lia. change 255 with (Z.ones 8).
  rewrite !Z.land_ones, !Z.shiftr_div_pow2 by lia. cbn [Z.add Pos.add Pos.succ].
  change (2 ^ 8) with 256. change (2 ^ 16) with 65536. change (2 ^ 24) with 16777216.
  change (2 ^ 32) with 4294967296. change (2 ^ 40) with 1099511627776.
  change (2 ^ 48) with 281474976710656. change (2 ^ 56) with 72057594037927936.
  change (2 ^ 64) with 18446744073709551616 in H.
  Z.div_mod_to_equations. lia.
Qed.

Lemma firstn_be64_app x y : firstn 8 (be64 x ++ y) = be64 x.
Proof. reflexivity. Qed.
Lemma skipn_be64_app x y : skipn 8 (be64 x ++ y) = y.
Proof. reflexivity. Qed.
Lemma firstn_8_be64 x : firstn 8 (be64 x) = be64 x.
Proof. reflexivity. Qed.

Lemma some_inj {A} (a b : A) : Some a = Some b -> a = b.
Proof. intros H. injection H. auto. Qed.

(** * [construct_info_bytes] and the unpacking half of [verify] *)
Definition info_args_ok (min_value : option Z) (method delta now : Z) (cltv : option Z) : Prop :=
  0 <= method < 8 /\ 0 <= now /\ 0 <= delta /\ absolute_expiry now delta < 2 ^ 64 /\
  (forall a, min_value = Some a -> 0 <= a) /\ (forall c, cltv = Some c -> 0 <= c < 2 ^ 16).

(** exactly when the Rust function returns [Err(())] *)
Lemma info_bytes_none_iff min_value method delta now cltv :
  info_bytes min_value method delta now cltv = None <->
  (exists a, min_value = Some a /\ (MAX_VALUE_MSAT < a \/ 2 ^ 61 - 1 < a)) \/
  (exists c, cltv = Some c /\ 2 ^ 48 - 1 < absolute_expiry now delta).
Proof.
  unfold info_bytes. destruct min_value as [a|]; destruct cltv as [c|];
    repeat match goal with |- context [?x <? ?y] => destruct (Z.ltb_spec x y) end;
    split; intros Hx; try discriminate; try reflexivity;
    try (left; eexists; split; [reflexivity|lia]);
    try (right; eexists; split; [reflexivity|lia]);
    destruct Hx as [[a' [Ha Hr]]|[c' [Hc Hr]]]; try discriminate;
    try (injection Ha as <-); try (injection Hc as <-); lia.
Qed.

Lemma info_roundtrip min_value method delta now cltv info :
  info_args_ok min_value method delta now cltv ->
  info_bytes min_value method delta now cltv = Some info ->
  List.length info = 16%nat /\
  method_of info = method /\
  amt_of info = match min_value with Some a => a | None => 0 end /\
  (match min_value with Some a => a <= MAX_VALUE_MSAT | None => True end) /\
  (forall c, cltv = Some c ->
     info_word1 info / 2 ^ 48 = c /\ info_word1 info mod 2 ^ 48 = absolute_expiry now delta) /\
  (cltv = None -> info_word1 info = absolute_expiry now delta).
Proof.
  intros (Hm & Hnow & Hd & Hexp & Hamt & Hcl) Hi. unfold info_bytes in Hi.
  set (amt := match min_value with Some a => a | None => 0 end) in *.
  assert (Hamt0 : 0 <= amt) by (subst amt; destruct min_value; [apply Hamt; reflexivity|lia]).
  destruct (match min_value with Some a => MAX_VALUE_MSAT <? a | None => false end) eqn:E1; [discriminate|].
  destruct (match min_value with Some a => 2 ^ 61 - 1 <? a | None => false end) eqn:E2; [discriminate|].
  destruct (match cltv with Some _ => 2 ^ 48 - 1 <? absolute_expiry now delta | None => false end) eqn:E3; [discriminate|].
  apply some_inj in Hi. subst info.
  assert (Hamt61 : amt < 2 ^ 61).
  { subst amt. destruct min_value as [a|]; [|lia]. apply Z.ltb_ge in E2. lia. }
  assert (Hmax : match min_value with Some a => a <= MAX_VALUE_MSAT | None => True end).
  { destruct min_value as [a|]; [|exact I]. apply Z.ltb_ge in E1. exact E1. }
  assert (Hexp0 : 0 <= absolute_expiry now delta) by (unfold absolute_expiry; lia).
  unfold method_of, amt_of, info_word0, info_word1.
  rewrite firstn_be64_app, skipn_be64_app.
  rewrite !of_be64_be64.
  - split; [reflexivity|]. split; [|split; [|split; [exact Hmax|split]]].
    + rewrite Z.div_add_l by lia. rewrite Z.div_small by lia. lia.
    + rewrite Z.add_comm, Z_mod_plus_full. apply Z.mod_small. lia.
    + intros c0 Hc. subst cltv. apply Z.ltb_ge in E3. specialize (Hcl c0 eq_refl). split.
      * rewrite Z.div_add_l by lia. rewrite Z.div_small by lia. lia.
      * rewrite Z.add_comm, Z_mod_plus_full. apply Z.mod_small. lia.
    + intros ->. reflexivity.
  - destruct cltv as [c|].
    + apply Z.ltb_ge in E3. specialize (Hcl c eq_refl).
      change (2 ^ 64) with (2 ^ 16 * 2 ^ 48). nia.
    + lia.
  - change (2 ^ 64) with (8 * 2 ^ 61). nia.
Qed.

(** * [verify] over abstract primitives *)
Section Abstract.
  Variable P : prims.
  (** [apply_chacha20] is an involution and keeps the length (proved for the executable instance:
      [ldk_apply_chacha20_involutive], [length_ldk_apply_chacha20]) *)
  Hypothesis crypt_inv : forall k iv d, p_crypt P k iv (p_crypt P k iv d) = d.
  (** HMAC-SHA256 outputs 32 bytes *)
  Hypothesis hmac_len : forall k m, List.length (p_hmac P k m) = 32%nat.

  Lemma decrypt_secret K iv info :
    List.length iv = IV_LEN ->
    decrypt_info P K (payment_secret P iv info (k_info K)) = (iv, info).
  Proof.
    intros Hl. unfold decrypt_info, payment_secret.
    rewrite firstn_app, skipn_app, Hl, Nat.sub_diag.
    rewrite firstn_all2 by (rewrite Hl; apply Nat.le_refl).
    rewrite skipn_all2 by (rewrite Hl; apply Nat.le_refl).
    cbn [firstn skipn app]. rewrite app_nil_r, crypt_inv. reflexivity.
  Qed.

  Lemma length_firstn_hmac k m : List.length (firstn IV_LEN (p_hmac P k m)) = IV_LEN.
  Proof. apply firstn_length_le. rewrite hmac_len. unfold IV_LEN. lia. Qed.

  Lemma authenticate_ldk K hash iv info :
    method_of info = M_LdkPaymentHash \/ method_of info = M_LdkPaymentHashCustomFinalCltv ->
    authenticate P K hash iv info =
    if bytes_eqb hash (p_hash P (p_hmac P (k_ldk K) (iv ++ info))) then Some (Some (p_hmac P (k_ldk K) (iv ++ info))) else None.
  Proof. unfold authenticate. intros [-> | ->]; reflexivity. Qed.

  Lemma authenticate_user K hash iv info :
    method_of info = M_UserPaymentHash \/ method_of info = M_UserPaymentHashCustomFinalCltv ->
    authenticate P K hash iv info =
    if bytes_eqb iv (firstn IV_LEN (p_hmac P (k_user K) (info ++ hash))) then Some None else None.
  Proof. unfold authenticate. intros [-> | ->]; reflexivity. Qed.

  Lemma custom_fields info c e :
    is_custom (method_of info) = true -> info_word1 info / 2 ^ 48 = c -> info_word1 info mod 2 ^ 48 = e ->
    cltv_of info = Some c /\ expiry_of info = e.
  Proof. intros Hc <- <-. unfold cltv_of, expiry_of. rewrite Hc. split; reflexivity. Qed.

  Lemma plain_fields info e :
    is_custom (method_of info) = false -> info_word1 info = e -> cltv_of info = None /\ expiry_of info = e.
  Proof. intros Hc <-. unfold cltv_of, expiry_of. rewrite Hc. split; reflexivity. Qed.

  (** completeness, LDK-generated hash: [verify] accepts what [create] made, returns the preimage
      and the custom CLTV delta, for every amount at least the minimum and every time up to the
      expiry *)
  Lemma verify_create_ok K min_value delta rand now cltv hash secret info total now' :
    info_args_ok min_value (match cltv with Some _ => M_LdkPaymentHashCustomFinalCltv | None => M_LdkPaymentHash end) delta now cltv ->
    (32 <= List.length rand)%nat ->
    info_bytes min_value (match cltv with Some _ => M_LdkPaymentHashCustomFinalCltv | None => M_LdkPaymentHash end)
               delta now cltv = Some info ->
    create P K min_value delta rand now cltv = Some (hash, secret) ->
    match min_value with Some a => a | None => 0 end <= total ->
    now' <= absolute_expiry now delta ->
    verify P K hash secret total now' = Some (Some (create_preimage P K info rand), cltv) /\
    hash = p_hash P (create_preimage P K info rand).
  Proof.
    intros Hok Hr Hi Hc Htot Hnow. unfold create in Hc. rewrite Hi in Hc.
    apply some_inj in Hc. apply pair_equal_spec in Hc. destruct Hc as [<- <-].
    destruct (info_roundtrip _ _ _ _ _ _ Hok Hi) as (Hlen & Hmeth & Hamt & _ & Hc1 & Hc2).
    split; [|reflexivity].
    unfold verify. rewrite decrypt_secret by (apply firstn_length_le; unfold IV_LEN; lia).
    unfold create_preimage.
    assert (Hfields : cltv_of info = cltv /\ expiry_of info = absolute_expiry now delta).
    { destruct cltv as [c|].
      - destruct (Hc1 c eq_refl) as [Hd He]. apply custom_fields; [rewrite Hmeth; reflexivity|exact Hd|exact He].
      - apply plain_fields; [rewrite Hmeth; reflexivity|exact (Hc2 eq_refl)]. }
    destruct Hfields as [Hcl He].
    rewrite authenticate_ldk by (rewrite Hmeth; destruct cltv; [right|left]; reflexivity).
    rewrite bytes_eqb_refl, Hamt, He, Hcl.
    destruct (Z.ltb_spec total (match min_value with Some a => a | None => 0 end)); [lia|].
    destruct (Z.ltb_spec (absolute_expiry now delta) now'); [lia|reflexivity].
  Qed.

  (** completeness, user-provided hash *)
  Lemma verify_create_from_hash_ok K min_value hash delta now cltv secret total now' :
    info_args_ok min_value (match cltv with Some _ => M_UserPaymentHashCustomFinalCltv | None => M_UserPaymentHash end) delta now cltv ->
    create_from_hash P K min_value hash delta now cltv = Some secret ->
    match min_value with Some a => a | None => 0 end <= total ->
    now' <= absolute_expiry now delta ->
    verify P K hash secret total now' = Some (None, cltv).
  Proof.
    intros Hok Hc Htot Hnow. unfold create_from_hash in Hc.
    destruct (info_bytes min_value _ delta now cltv) as [info|] eqn:Hi; [|discriminate]. apply some_inj in Hc. subst secret.
    destruct (info_roundtrip _ _ _ _ _ _ Hok Hi) as (Hlen & Hmeth & Hamt & _ & Hc1 & Hc2).
    unfold verify. rewrite decrypt_secret by apply length_firstn_hmac.
    assert (Hfields : cltv_of info = cltv /\ expiry_of info = absolute_expiry now delta).
    { destruct cltv as [c|].
      - destruct (Hc1 c eq_refl) as [Hd He]. apply custom_fields; [rewrite Hmeth; reflexivity|exact Hd|exact He].
      - apply plain_fields; [rewrite Hmeth; reflexivity|exact (Hc2 eq_refl)]. }
    destruct Hfields as [Hcl He].
    rewrite authenticate_user by (rewrite Hmeth; destruct cltv; [right|left]; reflexivity).
    rewrite bytes_eqb_refl, Hamt, He, Hcl.
    destruct (Z.ltb_spec total (match min_value with Some a => a | None => 0 end)); [lia|].
    destruct (Z.ltb_spec (absolute_expiry now delta) now'); [lia|reflexivity].
  Qed.

End Abstract.

Section Sound.
  Variable P : prims.

  (** soundness: whatever [verify] accepts is authenticated by the HMAC for the method encoded in
      the (decrypted) info, pays at least the committed minimum, and is not expired; for
      LDK-generated hashes the returned preimage hashes to the payment hash. Unforgeability itself
      is the HMAC assumption: producing [iv] (resp. a preimage of [hash]) for fresh [info]/[hash]
      without the key. *)
  Lemma verify_sound K hash secret total now r :
    verify P K hash secret total now = Some r ->
    let iv := firstn IV_LEN secret in
    let info := p_crypt P (k_info K) iv (skipn IV_LEN secret) in
    let m := method_of info in
    amt_of info <= total /\ now <= expiry_of info /\ snd r = cltv_of info /\
    ((m = M_UserPaymentHash \/ m = M_UserPaymentHashCustomFinalCltv) /\ fst r = None /\
       iv = firstn IV_LEN (p_hmac P (k_user K) (info ++ hash))
     \/
     (m = M_LdkPaymentHash \/ m = M_LdkPaymentHashCustomFinalCltv) /\
       fst r = Some (p_hmac P (k_ldk K) (iv ++ info)) /\ hash = p_hash P (p_hmac P (k_ldk K) (iv ++ info))
     \/
     m = M_SpontaneousPayment /\ fst r = None /\ iv = firstn IV_LEN (p_hmac P (k_spont K) info)).
  Proof.
    unfold verify, decrypt_info. cbv zeta.
    set (iv := firstn IV_LEN secret). set (info := p_crypt P (k_info K) iv (skipn IV_LEN secret)).
    destruct (authenticate P K hash iv info) as [pre|] eqn:Ea; [|discriminate].
    destruct (Z.ltb_spec total (amt_of info)); [discriminate|].
    destruct (Z.ltb_spec (expiry_of info) now); [discriminate|].
    intros Hr. injection Hr as <-. cbn [fst snd]. repeat split; try lia.
    unfold authenticate in Ea.
    destruct ((method_of info =? M_UserPaymentHash) || (method_of info =? M_UserPaymentHashCustomFinalCltv)) eqn:E1.
    - left. destruct (bytes_eqb iv _) eqn:Eb; [|discriminate]. injection Ea as <-.
      apply bytes_eqb_eq in Eb. apply orb_true_iff in E1. rewrite !Z.eqb_eq in E1. auto.
    - destruct ((method_of info =? M_LdkPaymentHash) || (method_of info =? M_LdkPaymentHashCustomFinalCltv)) eqn:E2.
      + right. left. destruct (bytes_eqb hash _) eqn:Eb; [|discriminate]. injection Ea as <-.
        apply bytes_eqb_eq in Eb. apply orb_true_iff in E2. rewrite !Z.eqb_eq in E2. auto.
      + destruct (method_of info =? M_SpontaneousPayment) eqn:E3; [|discriminate].
        right. right. destruct (bytes_eqb iv _) eqn:Eb; [|discriminate]. injection Ea as <-.
        apply bytes_eqb_eq in Eb. apply Z.eqb_eq in E3. auto.
  Qed.

  (** in particular: method bits 5, 6, 7 are always rejected *)
  Lemma verify_unknown_method K hash secret total now :
    let info := p_crypt P (k_info K) (firstn IV_LEN secret) (skipn IV_LEN secret) in
    5 <= method_of info -> verify P K hash secret total now = None.
  Proof.
    cbv zeta. intros Hm. unfold verify, decrypt_info, authenticate.
    unfold M_UserPaymentHash, M_UserPaymentHashCustomFinalCltv, M_LdkPaymentHash,
      M_LdkPaymentHashCustomFinalCltv, M_SpontaneousPayment.
    repeat match goal with |- context [?x =? ?y] => destruct (Z.eqb_spec x y); [lia|] end.
    reflexivity.
  Qed.
End Sound.

