(** C07, claim-coverage layer: proofs about Model/OnchainClaims.v.
    Part A: which claims exist, when they are released, their locktime; CSV finality of what is
    announced as spendable. Part B: the duplicate filter. Part C (C07Conserve.v): conservation of
    the claimable balances. *)
Require Import LdkV.Prim.U64 LdkV.Gen.Consts LdkV.Gen.Package LdkV.Gen.CltvChecks LdkV.Model.PackageTimer
  LdkV.Model.OnchainClaims LdkV.Proofs.C07Fee.
From Coq Require Import Permutation.
Open Scope Z_scope.

Lemma nodup_snoc (l : list Z) o : NoDup l -> ~ In o l -> NoDup (l ++ [o]).
Proof.
  intros Hn Hi. apply (Permutation_NoDup (l := o :: l)); [|constructor; assumption].
  apply Permutation_cons_append.
Qed.

Lemma nodup_insert (a b : list Z) o : NoDup (a ++ b) -> ~ In o (a ++ b) -> NoDup (a ++ o :: b).
Proof.
  intros Hn Hi. apply (Permutation_NoDup (l := o :: a ++ b)); [|constructor; assumption].
  apply Permutation_middle.
Qed.

(** * Part A *)

(** Exactly the entitled outputs get a claim request, of the right kind, and nothing else. *)
Lemma claim_request_spec h known :
  (forall k, claim_request h known = Some k <->
     h_output h = true /\
     ((h_outbound h = true /\ k = ByTimeout) \/ (h_outbound h = false /\ known = true /\ k = ByPreimage))) /\
  (claim_request h known = None <->
     h_output h = false \/ (h_outbound h = false /\ known = false)).
Proof.
  unfold claim_request. destruct (h_output h), (h_outbound h), known; cbn [negb];
  (split;
   [ intros k; split;
     [ intros E; try discriminate; injection E as <-; intuition congruence
     | intros (A & [(B & C) | (B & C & D)]); try discriminate; subst; reflexivity ]
   | split;
     [ intros E; try discriminate; intuition congruence
     | intros [A | (A & B)]; try discriminate; reflexivity ] ]).
Qed.

Lemma claim_locktime_value s k h cur :
  0 <= cur ->
  claim_locktime s k h cur =
  match s, k with
  | HolderTx, ByTimeout => h_expiry h
  | HolderTx, ByPreimage => 0
  | CounterpartyTx, ByTimeout => Z.max cur (h_expiry h)
  | CounterpartyTx, ByPreimage => cur
  end.
Proof.
  intros Hc. unfold claim_locktime, package_locktime, claim_input.
  destruct s, k; cbn [first_signed_locktime signed_locktime max_minimum_locktime minimum_locktime]; try reflexivity; lia.
Qed.

(** the [debug_assert]s of [package_locktime] hold for a single-input claim *)
Lemma claim_locktime_safe s k h : package_locktime_safe [claim_input s k h] = true.
Proof.
  unfold package_locktime_safe, claim_input.
  destruct s, k; cbn [first_signed_locktime signed_locktime max_minimum_locktime minimum_locktime forallb];
    try reflexivity; rewrite Z.eqb_refl; reflexivity.
Qed.

(** A claim is released exactly from [first_broadcast] on, and whenever it is released its nLockTime is
    at most the current height: the transaction is final in the next block. A timeout claim is never
    released before the HTLC's expiry; a preimage claim is released at once. *)
Lemma released_spec s k h req cur :
  0 <= req <= cur -> 0 <= h_expiry h ->
  (claim_released s k h cur = true <-> first_broadcast k h req <= cur) /\
  (claim_released s k h cur = true -> claim_locktime s k h cur <= cur) /\
  (k = ByTimeout -> claim_released s k h cur = true -> h_expiry h <= cur /\ h_expiry h <= claim_locktime s k h cur) /\
  (k = ByPreimage -> claim_released s k h cur = true).
Proof.
  intros Hr He. unfold claim_released, first_broadcast.
  rewrite (claim_locktime_value s k h cur) by lia.
  destruct s, k; repeat split; intros; try discriminate;
    try (apply negb_true_iff; apply Z.ltb_ge); try (match goal with H : negb _ = true |- _ => apply negb_true_iff in H; apply Z.ltb_ge in H end); lia.
Qed.

(** What is announced as spendable can be spent in the next block: the threshold of a delayed
    ([to_self_delay = d]) maturing output confirmed at [h] leaves [d] confirmations at the next block
    (BIP-68), and never less than ANTI_REORG_DELAY. *)
Lemma maturing_final h g src d :
  let e := mkEntry h (EvMaturing g src d) in
  h + ANTI_REORG_DELAY - 1 <= threshold e /\
  (forall dd, d = Some dd -> h + dd <= threshold e + 1).
Proof.
  cbv zeta. unfold threshold. cbn [en_ev en_height]. destruct d as [dd|].
  - destruct (threshold_ge h OnchainEventKind_MaturingDelayedPaymentOutput dd None) as (T1 & T2 & _).
    specialize (T2 eq_refl). split; [lia|]. intros d' [= <-]. lia.
  - destruct (threshold_ge h OnchainEventKind_Other 0 None) as (T1 & _). split; [lia|]. discriminate.
Qed.

(** every event waits at least ANTI_REORG_DELAY - 1 blocks beyond its confirmation *)
Lemma threshold_buried e : en_height e + ANTI_REORG_DELAY - 1 <= threshold e.
Proof.
  unfold threshold. destruct (en_ev e) as [csv | i | i p csv | g src [d|]];
    match goal with |- _ <= confirmation_threshold ?h ?k ?t ?c => destruct (threshold_ge h k t c) as (T & _) end; lia.
Qed.

(** * Part B: the duplicate filter *)

(** A request for an outpoint that is tracked, or that waits alone in a time-locked package, adds
    nothing. *)
Lemma tracked_request_dropped v cur lt o :
  In o (tracked v) -> add_requests v cur lt [o] = v.
Proof.
  intros Hin. unfold add_requests, keep_request. cbn [filter].
  assert (existsb (Z.eqb o) (tracked v) = true) as ->.
  { apply existsb_exists. exists o. split; [exact Hin | apply Z.eqb_refl]. }
  reflexivity.
Qed.

Lemma list_eqb_refl l : list_eqb l l = true.
Proof.
  unfold list_eqb. rewrite Nat.eqb_refl. cbn [andb].
  induction l as [|a t IH]; [reflexivity|]. cbn [combine forallb fst snd]. rewrite Z.eqb_refl. exact IH.
Qed.

Lemma singleton_locked_request_dropped v cur lt lt' o :
  In (lt', [o]) (locked v) -> add_requests v cur lt [o] = v.
Proof.
  intros Hin. unfold add_requests, keep_request. cbn [filter].
  assert (existsb (fun p => list_eqb (snd p) [o]) (locked v) = true) as ->.
  { apply existsb_exists. exists (lt', [o]). split; [exact Hin | apply list_eqb_refl]. }
  rewrite andb_false_r. reflexivity.
Qed.

(** As long as requests are never aggregated (every time-locked package holds one outpoint) no
    outpoint is ever in flight twice, whatever is requested, in whatever order, however often. *)
Definition singletons (v : claims_view) : Prop := forall p, In p (locked v) -> exists o, snd p = [o].

Lemma keep_request_not_in_flight v o :
  singletons v -> keep_request v o = true -> ~ In o (in_flight v).
Proof.
  intros Hs Hk Hin. unfold keep_request in Hk. apply andb_true_iff in Hk as [H1 H2].
  apply negb_true_iff in H1, H2. unfold in_flight in Hin. apply in_app_or in Hin as [Hin | Hin].
  - assert (existsb (Z.eqb o) (tracked v) = true); [|congruence].
    apply existsb_exists. exists o. split; [exact Hin | apply Z.eqb_refl].
  - apply in_flat_map in Hin as (p & Hp & Ho). destruct (Hs p Hp) as (o' & E). rewrite E in Ho.
    destruct Ho as [<- | []].
    assert (existsb (fun p => list_eqb (snd p) [o']) (locked v) = true); [|congruence].
    apply existsb_exists. exists p. split; [exact Hp | rewrite E; apply list_eqb_refl].
Qed.

Lemma no_duplicates_single v cur lt o :
  singletons v -> NoDup (in_flight v) ->
  singletons (add_requests v cur lt [o]) /\ NoDup (in_flight (add_requests v cur lt [o])).
Proof.
  intros Hs Hn. unfold add_requests. cbn [filter].
  destruct (keep_request v o) eqn:Hk; [|split; assumption].
  pose proof (keep_request_not_in_flight v o Hs Hk) as Hnot.
  destruct (cur <? lt).
  - split.
    + intros p Hp. cbn [locked] in Hp. apply in_app_or in Hp as [Hp | [<- | []]]; [apply Hs; exact Hp | exists o; reflexivity].
    + unfold in_flight in *. cbn [tracked locked]. rewrite flat_map_app. cbn [flat_map snd]. rewrite app_nil_r.
      rewrite app_assoc. apply nodup_snoc; assumption.
  - split; [exact Hs|]. unfold in_flight in *. cbn [tracked locked].
    rewrite <- app_assoc. cbn [app]. apply nodup_insert; assumption.
Qed.

(** Any sequence of single-outpoint requests from the empty view. *)
Fixpoint add_all (v : claims_view) (reqs : list (Z * Z * Z)) : claims_view :=
  match reqs with
  | [] => v
  | (cur, lt, o) :: t => add_all (add_requests v cur lt [o]) t
  end.

Lemma no_duplicates_unaggregated reqs : forall v,
  singletons v -> NoDup (in_flight v) ->
  singletons (add_all v reqs) /\ NoDup (in_flight (add_all v reqs)).
Proof.
  induction reqs as [|[[cur lt] o] t IH]; intros v Hs Hn; [split; assumption|].
  cbn [add_all]. destruct (no_duplicates_single v cur lt o Hs Hn) as [Hs' Hn']. apply IH; assumption.
Qed.

(** With aggregation the filter fails: two time-locked requests of equal locktime arrive together and
    are parked as one package; when the same two are requested again (as [provide_payment_preimage]
    does for every HTLC of a confirmed holder commitment) neither is recognised, and both outpoints
    are in flight twice. This is finding C07-F2, replayed on the real monitor by the check. *)
Lemma duplicates_after_aggregation :
  let v1 := add_requests (mkView [] []) 13 83 [4; 6] in
  let v2 := add_requests v1 24 83 [4; 6] in
  NoDup (in_flight v1) /\ in_flight v2 = [4; 6; 4; 6] /\ ~ NoDup (in_flight v2).
Proof.
  cbv zeta. vm_compute. split; [|split; [reflexivity|]].
  - repeat constructor; cbn; intuition discriminate.
  - intros H. inversion H as [|x l Hnot _]. apply Hnot. cbn. right. left. reflexivity.
Qed.

Lemma no_duplicates_from_empty reqs : NoDup (in_flight (add_all (mkView [] []) reqs)).
Proof.
  apply (no_duplicates_unaggregated reqs (mkView [] [])).
  - intros p [].
  - constructor.
Qed.

(** * Claims in flight are per output *)

Lemma claiming_from_spec c st hs : forall k i,
  In i (claiming_from c st k hs) <->
  exists h, nth_error hs (i - k) = Some h /\ (k <= i)%nat /\ claiming_b c st i h = true.
Proof.
  induction hs as [|h t IH]; intros k i; cbn [claiming_from].
  - split; [intros [] | intros (h & Hn & _); destruct (i - k)%nat; discriminate].
  - rewrite in_app_iff, IH. split.
    + intros [Hin | (h' & Hn & Hk & Hc)].
      * destruct (claiming_b c st k h) eqn:E; [|destruct Hin]. destruct Hin as [<- | []].
        exists h. rewrite Nat.sub_diag. repeat split; [lia | exact E].
      * exists h'. replace (i - k)%nat with (S (i - S k)) by lia. repeat split; [exact Hn | lia | exact Hc].
    + intros (h' & Hn & Hk & Hc). destruct (Nat.eq_dec i k) as [-> | Hne].
      * rewrite Nat.sub_diag in Hn. injection Hn as <-. left. rewrite Hc. left. reflexivity.
      * right. exists h'. replace (i - k)%nat with (S (i - S k)) in Hn by lia. repeat split; [exact Hn | lia | exact Hc].
Qed.

Lemma claiming_from_nodup c st hs : forall k, NoDup (claiming_from c st k hs).
Proof.
  induction hs as [|h t IH]; intros k; cbn [claiming_from]; [constructor|].
  destruct (claiming_b c st k h); cbn [app]; [|apply IH]. constructor; [|apply IH].
  intros Hin. apply claiming_from_spec in Hin as (_ & _ & Hk & _). lia.
Qed.

(** An output is being claimed iff it is the output of an HTLC of the commitment, no spend of it has
    been seen, a claim request exists for it and is released -- whatever its payment hash is and
    however many other HTLCs share that hash; and no output is listed twice. *)
Lemma claiming_spec c st i :
  In i (claiming c st) <->
  exists h, nth_error (c_htlcs c) i = Some h /\ spent_b st i = false /\
            exists k, claim_request h (knows st i) = Some k /\ claim_released (c_side c) k h (best st) = true.
Proof.
  unfold claiming. rewrite claiming_from_spec. rewrite Nat.sub_0_r. unfold claiming_b. split.
  - intros (h & Hn & _ & Hc). exists h. split; [exact Hn|]. apply andb_true_iff in Hc as (Hs & Hr).
    apply negb_true_iff in Hs. split; [exact Hs|]. destruct (claim_request h (knows st i)) as [k|]; [|discriminate].
    exists k. split; [reflexivity | exact Hr].
  - intros (h & Hn & Hs & k & Hq & Hr). exists h. split; [exact Hn|]. split; [lia|]. rewrite Hs, Hq. exact Hr.
Qed.

Lemma claiming_nodup c st : NoDup (claiming c st).
Proof. apply claiming_from_nodup. Qed.

Lemma indices_with_hash_in H hs : forall k i h,
  nth_error hs (i - k) = Some h -> (k <= i)%nat -> h_hash h = H -> In i (indices_with_hash H k hs).
Proof.
  induction hs as [|x t IH]; intros k i h Hn Hk Hh; [destruct (i - k)%nat; discriminate|].
  cbn [indices_with_hash]. apply in_or_app. destruct (Nat.eq_dec i k) as [-> | Hne].
  - rewrite Nat.sub_diag in Hn. injection Hn as ->. left. rewrite Hh, Z.eqb_refl. left. reflexivity.
  - right. apply (IH (S k) i h); [replace (i - k)%nat with (S (i - S k)) in Hn by lia; exact Hn | lia | exact Hh].
Qed.
