(** C10 proofs, second part: the id filters of the reload, closed-channel bookkeeping, the F7 witness in the
    pipeline model, and the abstract crash-recovery machine ([Model/Recovery.v]). *)
Require Import LdkV.Prim.U64 LdkV.Model.Restart LdkV.Model.MonUpd LdkV.Proofs.C09a LdkV.Proofs.C09b LdkV.Proofs.C09 LdkV.Proofs.C10.
Require Import LdkV.Model.Recovery.
Open Scope Z_scope.

(** ---------- seqZ *)
Lemma seqZ_In a n i : In i (seqZ a n) <-> a <= i < a + Z.of_nat n.
Proof.
  revert a. induction n as [|k IH]; intros a; cbn [seqZ In]; [lia|].
  rewrite IH. lia.
Qed.
Lemma seqZ_length a n : List.length (seqZ a n) = n.
Proof. revert a. induction n as [|k IH]; intros a; cbn; [reflexivity|]. rewrite IH. reflexivity. Qed.
Lemma seqZ_nth a n k : (k < n)%nat -> nth k (seqZ a n) 0 = a + Z.of_nat k.
Proof.
  revert a k. induction n as [|m IH]; intros a k Hk; [lia|].
  destruct k as [|k]; cbn [seqZ nth]; [lia|]. rewrite IH by lia. lia.
Qed.
Lemma filter_keep_all (f : Z -> bool) l : (forall i, In i l -> f i = true) -> filter f l = l.
Proof.
  induction l as [|x t IH]; intros H; [reflexivity|]. cbn. rewrite (H x (or_introl eq_refl)).
  f_equal. apply IH. intros i Hi. apply H. right. exact Hi.
Qed.
Lemma filter_gt_seqZ mid a n :
  a <= mid + 1 ->
  filter (fun i => mid <? i) (seqZ a n) = seqZ (mid + 1) (Z.to_nat (a + Z.of_nat n - (mid + 1))).
Proof.
  revert a. induction n as [|k IH]; intros a Ha.
  - cbn [seqZ filter]. replace (Z.to_nat _) with O by lia. reflexivity.
  - destruct (Z.eq_dec a (mid + 1)) as [E|N].
    + subst a. rewrite filter_keep_all.
      * replace (Z.to_nat _) with (S k) by lia. reflexivity.
      * intros i Hi. apply seqZ_In in Hi. lia.
    + cbn [seqZ filter]. destruct (mid <? a) eqn:Hc; [lia|].
      rewrite IH by lia. f_equal. lia.
Qed.

(** ---------- (a) replay filter: exactly the ids above the monitor's, gap-free from monitor id + 1 *)
Lemma replay_iff c m r e b :
  reload c m = Resumed r e b ->
  (forall i, In i r -> In i (cs_inflight c) /\ replay_filter (ms_id m) i = true) /\
  (forall i, In i (cs_inflight c) -> replay_filter (ms_id m) i = true -> In i r) /\
  (forall i, In i (cs_inflight c) -> i = ms_id m -> ~ In i r).
Proof.
  intros R. destruct (replay_spec _ _ _ _ _ R) as (A & B & C & _ & _). unfold replay_filter.
  split; [intros i Hi; destruct (A i Hi); split; [assumption|lia]|].
  split.
  - intros i Hi Hf. destruct C as [C|C].
    + (* nothing replayed: every in-flight update was complete *)
      revert R. unfold reload. destruct (stale c m); [discriminate|]. destruct (cs_unblocked c >? _); [discriminate|].
      intros E. injection E as E1 _ _.
      match type of E1 with (if ?t then _ else _) = _ => destruct t eqn:Ha end.
      * pose proof (filter_length_all _ _ Ha) as F. rewrite <- F in Hi. apply filter_In in Hi. lia.
      * rewrite <- E1. apply filter_In. split; [exact Hi|lia].
    + rewrite C. apply filter_In. split; [exact Hi|lia].
  - intros i _ -> Hi. destruct (A _ Hi). lia.
Qed.

Lemma replay_gap_free c m r e b a n :
  reload c m = Resumed r e b -> cs_inflight c = seqZ a n -> a <= ms_id m + 1 ->
  r = seqZ (ms_id m + 1) (List.length r) /\ (forall k, (k < List.length r)%nat -> nth k r 0 = ms_id m + 1 + Z.of_nat k).
Proof.
  intros R E Ha. destruct (replay_spec _ _ _ _ _ R) as (_ & _ & C & _ & _).
  assert (H : r = seqZ (ms_id m + 1) (List.length r)).
  { assert (exists K, r = seqZ (ms_id m + 1) K) as [K HK].
    { destruct C as [C|C]; [exists O; exact C|eexists; rewrite C, E; apply filter_gt_seqZ; exact Ha]. }
    rewrite HK. rewrite seqZ_length. reflexivity. }
  split; [exact H|]. intros k Hk. pose proof (seqZ_nth (ms_id m + 1) (List.length r) k Hk) as N.
  rewrite <- H in N. exact N.
Qed.

(** ---------- (b) stale channel: id of the close update, map entry, later post-close ids *)
Lemma post_close_spec entry n :
  post_close_ids entry n = seqZ (entry + 1) n.
Proof. revert entry. induction n as [|k IH]; intros e; cbn; [reflexivity|]. rewrite IH. reflexivity. Qed.

Lemma stale_close_ids c m old i :
  reload c m = Closed i ->
  let '(fc, entry) := stale_bookkeeping (ms_id m) old in
  fc = i /\ fc = ms_id m + 1 /\ fc <= entry /\ (old = None -> entry = fc) /\
  forall n k, (k < n)%nat -> nth k (post_close_ids entry n) 0 = entry + 1 + Z.of_nat k /\ fc < nth k (post_close_ids entry n) 0.
Proof.
  intros R. apply closed_iff_stale in R. destruct R as [_ ->]. unfold stale_bookkeeping.
  assert (Hle : ms_id m + 1 <= match old with Some v => Z.max (ms_id m + 1) v | None => ms_id m + 1 end) by (destruct old; lia).
  repeat split; try lia; try (intros ->; reflexivity).
  - rewrite post_close_spec, seqZ_nth by assumption. reflexivity.
  - rewrite post_close_spec, seqZ_nth by assumption. lia.
Qed.

(** ---------- (c) monitors without a channel in the manager *)
Lemma closed_monitor_spec nfu latest :
  (2 <= latest -> exists e, fst (closed_monitor nfu latest) = Some e /\ latest <= e) /\
  (nfu = false -> closed_monitor nfu latest = (Some (latest + 1), Some (latest + 1))) /\
  (nfu = true -> snd (closed_monitor nfu latest) = None /\
     (fst (closed_monitor nfu latest) = None <-> latest <= 1) /\
     (1 < latest -> fst (closed_monitor nfu latest) = Some latest)).
Proof.
  unfold closed_monitor. destruct nfu; cbn [negb orb].
  - split; [intros H; destruct (latest >? 1) eqn:E; [|lia]; cbn; eexists; split; [reflexivity|lia]|].
    split; [discriminate|]. intros _. destruct (latest >? 1) eqn:E; cbn; repeat split; try lia; try discriminate; auto.
  - split; [intros _; cbn; eexists; split; [reflexivity|lia]|]. split; [reflexivity|discriminate].
Qed.

(** ---------- (d) blocked updates dropped on startup; what can resume a channel after the reload *)
Lemma drop_blocked_spec mid l :
  (forall i, In i (drop_blocked mid l) <-> In i l /\ mid < i) /\
  (forall i, In i l -> i <= mid -> ~ In i (drop_blocked mid l)) /\
  drop_blocked mid l = filter (fun i => mid <? i) l.
Proof.
  unfold drop_blocked. assert (E : filter (fun i => negb (i <=? mid)) l = filter (fun i => mid <? i) l).
  { apply filter_ext. intros i. destruct (i <=? mid) eqn:A; destruct (mid <? i) eqn:B; cbn; try reflexivity; lia. }
  rewrite E. split; [|split; [|reflexivity]].
  - intros i. rewrite filter_In. split; intros [H1 H2]; split; try assumption; lia.
  - intros i _ Hle H. apply filter_In in H. lia.
Qed.

Lemma reload_keeps_blocked c m r e b : reload c m = Resumed r e b -> b = drop_blocked (ms_id m) (cs_blocked c).
Proof. intros R. destruct (replay_spec _ _ _ _ _ R) as (_ & _ & _ & -> & _). symmetry. apply drop_blocked_spec. Qed.

Lemma background_events_nonempty c m r e b :
  reload c m = Resumed r e b ->
  (background_events c m = [] <-> r = [] /\ e = None /\ b = []).
Proof.
  intros R. unfold background_events. rewrite R. split.
  - intros H. apply app_eq_nil in H. destruct H as [H1 H2]. apply app_eq_nil in H2. destruct H2 as [H2 H3].
    destruct r; [|discriminate]. destruct e; [discriminate|]. destruct b; [|discriminate]. auto.
  - intros (-> & -> & ->). reflexivity.
Qed.

(** the F7 witness, reached in the pipeline model: send (update 5), the peer's revoke_and_ack arrives while an
    unhandled event blocks it (update 6 held: MONITOR_UPDATE_IN_PROGRESS set, nothing in flight) -> manager written;
    then the event is handled, update 6 is released and persisted; the node stops. *)
Definition f7_labels : list label := [LSend VCompleted; LRecvRAA true false false 0 VCompleted].
Definition f7_state : st := reach (COpen 4 false) f7_labels.
Definition f7_snapshot : csnap := snapshot_of f7_state 100 101 100.
Definition f7_later : st := reach (COpen 4 false) (f7_labels ++ [LUnblock VCompleted; LEvents]).
Definition f7_monitor : msnap := mkMsnap (latest (ch f7_later)) 100 101 100.

Lemma f7_witness :
  mip (ch f7_state) = true /\ inflight (mg f7_state) = [] /\ ids (blocked (ch f7_state)) = [6] /\
  mip (ch f7_later) = false /\ done (gh f7_later) = [4; 5; 6] /\ ms_id f7_monitor = 6 /\
  stale f7_snapshot f7_monitor = false /\
  reload f7_snapshot f7_monitor = Resumed [] None [] /\
  background_events f7_snapshot f7_monitor = [].
Proof. vm_compute. repeat split; reflexivity. Qed.

(** ---------- (2) the abstract crash-recovery machine *)
Lemma reload_machine d :
  s_comp d <= comp d -> comp d <= disk d -> s_comp d <= s_latest d ->
  (s_latest d < disk d -> reload (snap_of d) (mon_of d) = Closed (disk d + 1)) /\
  (disk d <= s_latest d -> exists e,
     reload (snap_of d) (mon_of d) = Resumed (seqZ (disk d + 1) (Z.to_nat (s_latest d - disk d))) e []).
Proof.
  intros H1 H2 H3. split.
  - intros Hs. apply closed_iff_stale. split; [|reflexivity]. unfold stale, snap_of, mon_of. cbn.
    destruct (s_latest d <? disk d) eqn:E; [|lia]. reflexivity.
  - intros Hs. unfold reload.
    assert (St : stale (snap_of d) (mon_of d) = false).
    { unfold stale, snap_of, mon_of. cbn. destruct (s_latest d <? disk d) eqn:E; [lia|reflexivity]. }
    rewrite St. cbn [snap_of mon_of cs_blocked cs_inflight cs_unblocked ms_id filter].
    remember (Z.to_nat (s_latest d - s_comp d)) as n eqn:En.
    remember (seqZ (s_comp d + 1) n) as l eqn:El.
    assert (Hin : n <> O -> In (s_latest d) l) by (intros Hn; rewrite El; apply seqZ_In; lia).
    assert (Hl : List.length l = n) by (rewrite El; apply seqZ_length).
    assert (Hd : (s_latest d >? match l with [] => disk d | _ :: _ => Z.max (disk d) (maxl l) end) = false).
    { rewrite Z.gtb_ltb. apply Z.ltb_ge. destruct l as [|x t]; [cbn in Hl; lia|].
      assert (Hn : n <> O) by (cbn in Hl; lia). pose proof (maxl_In _ _ (Hin Hn)). lia. }
    rewrite Hd.
    destruct (Nat.eqb (List.length (filter (fun i => i <=? disk d) l)) (List.length l)) eqn:Ha.
    + (* every in-flight update already in the monitor: disk = s_latest (or nothing in flight) *)
      pose proof (filter_length_all _ _ Ha) as F.
      assert (s_latest d = disk d).
      { destruct (Nat.eq_dec n O) as [E|N]; [lia|].
        pose proof (Hin N) as H. rewrite <- F in H. apply filter_In in H. lia. }
      replace (Z.to_nat (s_latest d - disk d)) with O by lia. eexists. reflexivity.
    + rewrite El, filter_gt_seqZ by lia. eexists. f_equal. f_equal. lia.
Qed.

Lemma dstep_inv d o : dinv d -> dinv (dstep d o).
Proof.
  intros I. unfold dstep. destruct (closed d) eqn:C; [intros C'; congruence|]. specialize (I C).
  destruct o.
  - intros _; cbn; lia.
  - destruct (disk d <? handed d) eqn:E; [intros _; cbn; lia|intros _; exact I].
  - destruct (comp d <? disk d) eqn:E; [intros _; cbn; lia|intros _; exact I].
  - intros _; cbn; lia.
  - destruct (reload (snap_of d) (mon_of d)) eqn:R; unfold dinv; cbn [closed handed disk comp s_latest s_comp]; try discriminate.
    intros _. destruct (Z_lt_le_dec (s_latest d) (disk d)) as [L|L].
    + destruct (reload_machine d) as [A _]; try lia. rewrite (A L) in R. discriminate.
    + lia.
Qed.

Lemma drun_inv base ops : dinv (drun base ops).
Proof.
  unfold drun. assert (I : dinv (dinit base)) by (intros _; cbn; lia).
  revert I. generalize (dinit base). induction ops as [|o t IH]; intros d I; cbn; [exact I|].
  apply IH. apply dstep_inv. exact I.
Qed.

Lemma recovery_safe base ops :
  let d := drun base ops in
  closed d = false ->
  (* the durable monitor contains every update reported complete; the snapshot never claims more than was handed *)
  comp d <= disk d /\ s_latest d <= handed d /\
  (* crashing now: never DangerousValue; closed exactly when the manager lags behind the monitor, from the monitor's id;
     otherwise the replay is the gap-free run from the monitor's id + 1 up to the manager's latest id *)
  reload (snap_of d) (mon_of d) <> Dangerous /\
  (s_latest d < disk d -> reload (snap_of d) (mon_of d) = Closed (disk d + 1) /\ closed (dstep d DCrash) = true) /\
  (disk d <= s_latest d -> exists e,
     reload (snap_of d) (mon_of d) = Resumed (seqZ (disk d + 1) (Z.to_nat (s_latest d - disk d))) e [] /\
     closed (dstep d DCrash) = false /\ handed (dstep d DCrash) = s_latest d /\ disk (dstep d DCrash) = disk d /\
     comp (dstep d DCrash) <= disk (dstep d DCrash)).
Proof.
  intros d C. pose proof (drun_inv base ops) as I. fold d in I. specialize (I C).
  destruct (reload_machine d) as [A B]; try lia.
  split; [lia|]. split; [lia|]. split.
  - destruct (Z_lt_le_dec (s_latest d) (disk d)) as [L|L]; [rewrite (A L); discriminate|destruct (B L) as [e ->]; discriminate].
  - split.
    + intros L. split; [exact (A L)|]. unfold dstep. rewrite C, (A L). reflexivity.
    + intros L. destruct (B L) as [e E]. exists e. split; [exact E|]. unfold dstep. rewrite C, E. cbn [closed handed disk comp s_latest s_comp]. repeat split; lia.
Qed.

(** non-vacuity of the machine: a run that reaches each outcome *)
Example recovery_demo :
  let ops1 := [DApply; DApply; DLand; DComplete; DWriteMgr; DApply; DLand; DLand] in   (* manager at 6 (in flight 6), monitor at 7 *)
  let ops2 := [DApply; DApply; DWriteMgr; DLand] in                                        (* manager at 6 (in flight 5,6), monitor at 5 *)
  reload (snap_of (drun 4 ops1)) (mon_of (drun 4 ops1)) = Closed 8 /\
  closed (drun 4 (ops1 ++ [DCrash])) = true /\
  reload (snap_of (drun 4 ops2)) (mon_of (drun 4 ops2)) = Resumed [6] None [] /\
  drun 4 (ops2 ++ [DCrash; DLand; DComplete; DComplete]) = mkD 6 6 6 6 4 false.
Proof. vm_compute. repeat split; reflexivity. Qed.

(** the wished-for property "a frozen channel that is resumed gets a background event that will thaw it" is FALSE *)
Lemma frozen_resume_refuted :
  ~ (forall c ls ls' holder revoked cparty r e b,
       let s := reach c ls in let s' := reach c (ls ++ ls') in
       let snap := snapshot_of s holder revoked cparty in
       let m := mkMsnap (latest (ch s')) holder revoked cparty in
       mip (ch s) = true -> reload snap m = Resumed r e b -> background_events snap m <> []).
Proof.
  intros H.
  apply (H (COpen 4 false) f7_labels [LUnblock VCompleted; LEvents] 100 101 100 [] None []); vm_compute; reflexivity.
Qed.
